(* C20 — wire format, model runner and the trace oracle prop_ok. Definitions only.

   Case kinds (first number):
   (64-bit values — codecs and hash codes — travel as two 32-bit limbs `hi lo`, because the wire
   carries numbers below 2^62 only.)
   1  receiving:  1 n { <prefix bytes: count-prefixed> did dlen <oracle: count-prefixed entries
                        code(hi lo) supported <digest bytes: count-prefixed>> }*n
      a payload is the pair (did, dlen); the oracle lists the digests the harness computed
      itself for (code, payload) pairs.
      trace:  1 n { 0 | 1 version codec(hi lo) code(hi lo) <digest: count-prefixed> did dlen }*n
   2  sending through the hooked functions with arbitrary limits:
                  2 max_batch max_message n { version codec(hi lo) code(hi lo) digest_len dlen }*n
      trace:  2 k { <ids: count-prefixed> message_len <decoded entries: count-prefixed
                    <prefix bytes: count-prefixed> dlen same_data> }*k
   3  sending end to end (two nodes over TCP, shipped limits):
                  3 n { version codec(hi lo) code(hi lo) digest_len dlen }*n
      trace:  3 k { <ids of one Response event: count-prefixed> }*k
   4  the real event loop (Bitswap::run) fed by the harness: three connected peers, in-memory
      substreams; ops (cidspec = version codec(hi lo) code(hi lo) <digest bytes>;
      msg = has_wantlist <entries: <cid bytes> priority cancel wantType sendDontHave>
            <payload: as in kind 1> <presences: <cid bytes> type>):
        1 p                      a new inbound substream from peer p (replaces the old one)
        2 p split msg            a complete frame (written in two pieces when split mod 1000 > 0;
                                 split / 1000 = fields the loop must ignore: bit 0 a legacy `blocks`
                                 entry, 1 pendingBytes, 2 `full`, 3 unknown fields, 4 the wantlist
                                 as two `wantlist` fields, which protobuf merges)
        3 p kind cut msg         the substream ends badly: 0 frame that is not protobuf, 1 frame
                                 cut after `cut` bytes then closed, 2 length prefix above the
                                 limit, 3 clean close, 4 reset, 5 malformed length prefix
        4 p <cidspec wantType>   BitswapHandle::send_request
        5 p <0 cidspec dlen | 1 cidspec presence>   BitswapHandle::send_response
        6 p mode budget          the requested outbound substream: 0 opens and takes everything,
                                 1 opens, takes `budget` bytes and stalls (write timeout),
                                 2 opens, takes `budget` bytes and fails, 3 fails to open
        7 p mode budget          the same change on the established outbound substream
        8 p / 9 p / 10 p / 11 p  connection closed / established / its command channel dies /
                                 DialFailure for the peer
        12 p tag                 what the transport manager will answer to dial(p): 0 no address,
                                 1 accepted, 2 already connected, 3 dial in progress
        13 p kind n cidspec x    a bulk command of n entries (n <= 80000) in runs of 1, 2, 3, ...
                                 equal entries, run j being built on the cidspec with the first two
                                 digest bytes replaced by j: kind 0 send_request (x = wantType),
                                 1 send_response of presences (x = type), 2 send_response of
                                 blocks of x bytes (block id = j)
      trace:  4 nops { <events> <complete messages written> partial_bytes }*nops
              the entries of a written message are run-length encoded: count entry
   5  presence batching through the hooked functions:  5 max_message n { cidspec presence }*n
      trace:  5 k { <ids> message_len <decoded: <cid bytes> type> <the message's bytes> }*k
   6  the real send_request on a substream whose codec has the given message size limit:
                  6 max_message n { cidspec wantType }*n
      trace:  6 1 message_len <decoded entries: <cid bytes> priority cancel wantType
                  sendDontHave> full <the message's bytes>     (Ok: one frame was written)
              6 0 bytes_written                                 (Err: refused by the codec)
   7  blocks_message on blocks given with their data:  7 n { cidspec <data bytes> }*n
      trace:  7 <the message's bytes> (7 0 when there is no message: n = 0)
   8  end to end (the two nodes of kind 3): a send_request, then a send_response of presences
      and blocks:   8 <wants: cidspec wantType> <presences: cidspec type> <blocks: as in kind 3>
      trace:  8 k { 1 <want ids> | 2 <presence ids> | 3 <block ids> }*k — the BitswapEvents of
              the remote user, one per message that carries something *)
From Coq Require Import List NArith Bool.
From V.common Require Import Wire.
From V.gen Require Consts.
From V.C20 Require Import Model Bytes.
Import ListNotations.
Open Scope N_scope.

Definition payload := (N * N)%type.            (* (id, length) *)

Record oentry := mkOE { oe_code : N; oe_data : payload; oe_digest : option (list N) }.

Definition pay_eqb (a b : payload) : bool := (fst a =? fst b) && (snd a =? snd b).

Fixpoint lookup (tab : list oentry) (code : N) (d : payload) : option oentry :=
  match tab with
  | [] => None
  | e :: t => if (oe_code e =? code) && pay_eqb (oe_data e) d then Some e else lookup t code d
  end.

Definition digest_of (tab : list oentry) (code : N) (d : payload) : option (list N) :=
  match lookup tab code d with Some e => oe_digest e | None => None end.

Record rblock := mkRB { rb_prefix : list N; rb_data : payload; rb_oracle : list oentry }.

Definition LIMB : N := 4294967296.   (* 2^32 *)
Definition p64 : parser N :=
  let* hi := pN in let* lo := pN in
  if (hi <? LIMB) && (lo <? LIMB) then pret (hi * LIMB + lo) else pfail.
Definition enc64 (x : N) : list N := [x / LIMB; x mod LIMB].

Definition p_bytes : parser (list N) :=
  let* l := plist pN in
  if forallb (fun b => b <? 256) l then pret l else pfail.

Definition p_rblock : parser rblock :=
  let* pb := p_bytes in
  let* did := pN in
  let* dl := pN in
  let* tab := plist (let* code := p64 in let* sup := pBool in let* dg := p_bytes in
                     pret (mkOE code (did, dl) (if sup then Some dg else None))) in
  pret (mkRB pb (did, dl) tab).

Definition p_sblock : parser (N * N * N * N * N) :=
  let* v := pN in let* codec := p64 in let* code := p64 in let* dgl := pN in let* dl := pN in
  if (v <=? 1) && (dgl <=? 64) then pret (v, codec, code, dgl, dl) else pfail.

Fixpoint number {X} (i : N) (l : list X) : list (N * X) :=
  match l with [] => [] | x :: t => (i, x) :: number (i + 1) t end.

Definition mk_sblock (ix : N * (N * N * N * N * N)) : sblock :=
  let '(i, (v, codec, code, dgl, dl)) := ix in
  mkSB i (mkCid v codec code (repeat 0 (N.to_nat dgl))) dl.

Definition prefix_eqb (a b : prefix) : bool :=
  (p_version a =? p_version b) && (p_codec a =? p_codec b) &&
  (p_mhtype a =? p_mhtype b) && (p_mhlen a =? p_mhlen b).

Definition cid_valid_b (c : cid) : bool :=
  ((c_version c =? 0) && (c_codec c =? DAG_PB) && (c_code c =? SHA2_256) &&
   (N.of_nat (length (c_digest c)) =? 32))
  || (c_version c =? 1).


(* ---- kinds 4 and 5: CIDs with explicit digests, messages, node operations ---- *)

Definition p_cidspec : parser cid :=
  let* v := pN in let* codec := p64 in let* code := p64 in let* dg := p_bytes in
  let c := mkCid v codec code dg in
  if cid_valid_b c && (N.of_nat (length dg) <=? 64) then pret c else pfail.

Definition p_wl_entry : parser wl_entry :=
  let* b := p_bytes in let* pr := pN in let* ca := pBool in let* wt := pN in let* sd := pBool in
  pret (mkWE b pr ca wt sd).

Definition p_message : parser (message payload * list oentry) :=
  let* has := pBool in
  let* es := plist p_wl_entry in
  let* pl := plist p_rblock in
  let* prs := plist (let* cb := p_bytes in let* t := pN in pret (cb, t)) in
  pret (mkMsg (if has then Some es else None) (map (fun b => (rb_prefix b, rb_data b)) pl) prs,
        flat_map rb_oracle pl).

Definition NPEERS : N := 3.

Inductive nop :=
| NInOpen (p : N)
| NInFrame (p : N) (m : message payload)
| NInBad (p : N)
| NSend (p : N) (a : action)
| NOutOpen (p : N) (c : carrier)
| NOutFail (p : N)
| NOutSet (p : N) (c : carrier)
| NConnClose (p : N)
| NConnect (p : N)
| NKill (p : N)
| NDialFail (p : N)
| NForce (p : N) (tag : N).

Definition p_peer : parser N := let* p := pN in if p <? NPEERS then pret p else pfail.

Definition p_want : parser (cid * want_type) :=
  let* c := p_cidspec in let* w := pN in
  match w with 0 => pret (c, WBlock) | 1 => pret (c, WHave) | _ => pfail end.

(* an entry of a response: (index, block or presence) *)
Definition p_rentry : parser (cid * (N + presence_type)) :=
  let* tag := pN in
  match tag with
  | 0 => let* c := p_cidspec in let* dl := pN in pret (c, inl dl)
  | 1 => let* c := p_cidspec in let* t := pN in
         match t with 0 => pret (c, inr PHave) | 1 => pret (c, inr PDontHave) | _ => pfail end
  | _ => pfail
  end.

Definition mk_response (es : list (N * (cid * (N + presence_type)))) : action :=
  AResponse
    (flat_map (fun ie => match snd (snd ie) with inr t => [mkSP (fst ie) (fst (snd ie)) t] | inl _ => [] end) es)
    (flat_map (fun ie => match snd (snd ie) with inl dl => [mkSB (fst ie) (fst (snd ie)) dl] | inr _ => [] end) es).

Definition p_carrier : parser (option carrier) :=    (* None = the substream fails to open *)
  let* mode := pN in let* budget := pN in
  match mode with
  | 0 => pret (Some None)
  | 1 | 2 => pret (Some (Some budget))
  | 3 => pret None
  | _ => pfail
  end.

(* ---- bulk commands: many entries from a few numbers ---- *)

Definition BULK_MAX : N := 80000.

(* runs of lengths 1, 2, 3, ... (the last one cut) that add up to n: (run index, length) *)
Fixpoint bulk_runs (fuel : nat) (j left : N) : list (N * N) :=
  match fuel with
  | O => []
  | S f =>
      if left =? 0 then []
      else let len := N.min (j + 1) left in (j, len) :: bulk_runs f (j + 1) (left - len)
  end.

Definition bulk_cid (c : cid) (j : N) : cid :=
  mkCid (c_version c) (c_codec c) (c_code c)
        (match c_digest c with _ :: _ :: t => (j / 256) mod 256 :: j mod 256 :: t | d => d end).

Definition bulk_expand {X} (n : N) (mk : N -> X) : list X :=
  flat_map (fun jl : N * N => repeat (mk (fst jl)) (N.to_nat (snd jl))) (bulk_runs 2000 0 n).

Definition p_bulk : parser action :=
  let* kind := pN in let* n := pN in let* c := p_cidspec in let* x := pN in
  if (n <=? BULK_MAX) && (2 <=? N.of_nat (length (c_digest c))) then
    match kind with
    | 0 => match x with
           | 0 => pret (ARequest (bulk_expand n (fun j => (bulk_cid c j, WBlock))))
           | 1 => pret (ARequest (bulk_expand n (fun j => (bulk_cid c j, WHave))))
           | _ => pfail
           end
    | 1 => match x with
           | 0 => pret (AResponse (bulk_expand n (fun j => mkSP j (bulk_cid c j) PHave)) [])
           | 1 => pret (AResponse (bulk_expand n (fun j => mkSP j (bulk_cid c j) PDontHave)) [])
           | _ => pfail
           end
    | 2 => if (4 <=? x) && (x <=? 8388608)
           then pret (AResponse [] (bulk_expand n (fun j => mkSB j (bulk_cid c j) x))) else pfail
    | _ => pfail
    end
  else pfail.

Definition p_nop : parser (nop * list oentry) :=
  let* tag := pN in
  match tag with
  | 1 => let* p := p_peer in pret (NInOpen p, [])
  | 2 => let* p := p_peer in let* _ := pN in let* mo := p_message in pret (NInFrame p (fst mo), snd mo)
  | 3 => let* p := p_peer in let* kind := pN in let* _ := pN in let* mo := p_message in
         if kind <=? 5 then pret (NInBad p, []) else pfail
  | 4 => let* p := p_peer in let* ws := plist p_want in pret (NSend p (ARequest ws), [])
  | 5 => let* p := p_peer in let* es := plist p_rentry in pret (NSend p (mk_response (number 0 es)), [])
  | 6 => let* p := p_peer in let* c := p_carrier in
         pret (match c with Some c => NOutOpen p c | None => NOutFail p end, [])
  | 7 => let* p := p_peer in let* c := p_carrier in
         match c with Some c => pret (NOutSet p c, []) | None => pfail end
  | 8 => let* p := p_peer in pret (NConnClose p, [])
  | 9 => let* p := p_peer in pret (NConnect p, [])
  | 10 => let* p := p_peer in pret (NKill p, [])
  | 11 => let* p := p_peer in pret (NDialFail p, [])
  | 12 => let* p := p_peer in let* tag := pN in if tag <=? 3 then pret (NForce p tag, []) else pfail
  | 13 => let* p := p_peer in let* a := p_bulk in pret (NSend p a, [])
  | _ => pfail
  end.

Definition p_spres : parser (cid * presence_type) :=
  let* c := p_cidspec in let* t := pN in
  match t with 0 => pret (c, PHave) | 1 => pret (c, PDontHave) | _ => pfail end.

Definition mk_spres (ix : N * (cid * presence_type)) : spres :=
  mkSP (fst ix) (fst (snd ix)) (snd (snd ix)).

Inductive case :=
| CRecv (l : list rblock)
| CSend (mb mm : N) (l : list sblock)
| CE2E (l : list sblock)
| CNode (ops : list nop) (tab : list oentry)
| CPres (mm : N) (l : list spres)
| CWant (mm : N) (l : list (N * (cid * want_type)))
| CBlocksMsg (l : list cblock)
| CMixed (ws : list (N * (cid * want_type))) (ps : list spres) (bs : list sblock).

Definition decode_case (l : list N) : option case :=
  pall (let* kind := pN in
        match kind with
        | 1 => let* bs := plist p_rblock in pret (CRecv bs)
        | 2 => let* mb := pN in let* mm := pN in let* bs := plist p_sblock in
               pret (CSend mb mm (map mk_sblock (number 0 bs)))
        | 3 => let* bs := plist p_sblock in pret (CE2E (map mk_sblock (number 0 bs)))
        | 4 => let* ops := plist p_nop in pret (CNode (map fst ops) (flat_map snd ops))
        | 5 => let* mm := pN in let* ps := plist p_spres in pret (CPres mm (map mk_spres (number 0 ps)))
        | 6 => let* mm := pN in let* ws := plist p_want in pret (CWant mm (number 0 ws))
        | 7 => let* bs := plist (let* c := p_cidspec in let* d := p_bytes in pret (c, d)) in pret (CBlocksMsg bs)
        | 8 => let* ws := plist p_want in let* ps := plist p_spres in let* bs := plist p_sblock in
               pret (CMixed (number 0 ws) (map mk_spres (number 0 ps)) (map mk_sblock (number 0 bs)))
        | _ => pfail
        end) l.

(* ---- running the model ---- *)

Definition all_oracle (bs : list rblock) : list oentry := flat_map rb_oracle bs.

Definition enc_cid (c : cid) : list N :=
  [c_version c] ++ enc64 (c_codec c) ++ enc64 (c_code c) ++ enc_list (fun b => [b]) (c_digest c).

Definition run_recv (bs : list rblock) : list N :=
  let tab := all_oracle bs in
  flat_map (fun b =>
              match block_to_response payload (digest_of tab) (rb_prefix b) (rb_data b) with
              | Some (c, d) => 1 :: enc_cid c ++ [fst d; snd d]
              | None => [0]
              end) bs.

Definition enc_batch (b : list sblock) : list N :=
  enc_list (fun x => [sb_id x]) b ++
  [match b with [] => 0 | _ => message_len sblock sb_elen blk_mlen b end] ++
  enc_list (fun x => enc_list (fun y => [y]) (sb_prefix x) ++ [sb_dlen x; 1]) b.

Definition run_send (mb mm : N) (l : list sblock) : list N :=
  enc_list enc_batch (all_batches sblock sb_dlen sb_elen blk_mlen mb mm l).

(* end to end: every message that send_response writes becomes one Response event at the
   receiver (whose block_to_response accepts the honest blocks) *)
Definition run_e2e (l : list sblock) : list N :=
  enc_list (enc_list (fun x => [sb_id x]))
    (send_response_blocks Consts.BITSWAP_MAX_BATCH_SIZE Consts.BITSWAP_MAX_MESSAGE_SIZE l).


(* ---- kind 4: the node ---- *)

Definition MB : N := Consts.BITSWAP_MAX_BATCH_SIZE.
Definition MM : N := Consts.BITSWAP_MAX_MESSAGE_SIZE.

Definition enc_bytes (l : list N) : list N := enc_list (fun y => [y]) l.

Definition enc_response (r : response payload) : list N :=
  match r with
  | RBlock c d => 0 :: enc_cid c ++ [fst d; snd d]
  | RPresence c t => 1 :: enc_cid c ++ [presence_code t]
  end.

Definition enc_event (p : N) (e : event payload) : list N :=
  match e with
  | ERequest ws => 1 :: p :: enc_list (fun cw => enc_cid (fst cw) ++ [want_code (snd cw)]) ws
  | EResponse rs => 2 :: p :: enc_list enc_response rs
  end.

(* run-length encoding of equal neighbours (tail recursive: bulk commands give long lists) *)
Fixpoint rle_go {X} (eqb : X -> X -> bool) (cur : X) (k : N) (l : list X) (acc : list (N * X)) : list (N * X) :=
  match l with
  | [] => rev_append acc [(k, cur)]
  | e :: t => if eqb e cur then rle_go eqb cur (k + 1) t acc else rle_go eqb e 1 t ((k, cur) :: acc)
  end.

Definition rle {X} (eqb : X -> X -> bool) (l : list X) : list (N * X) :=
  match l with [] => [] | e :: t => rle_go eqb e 1 t [] end.

Definition enc_runs {X} (eqb : X -> X -> bool) (f : X -> list N) (l : list X) : list N :=
  enc_list (fun r : N * X => fst r :: f (snd r)) (rle eqb l).

Definition want_eqb (a b : cid * want_type) : bool :=
  cid_eqb (fst a) (fst b) && (want_code (snd a) =? want_code (snd b)).
Definition spres_eqb (a b : spres) : bool :=
  cid_eqb (sp_cid a) (sp_cid b) && (presence_code (sp_type a) =? presence_code (sp_type b)).
Definition sblock_eqb (a b : sblock) : bool :=
  (sb_id a =? sb_id b) && cid_eqb (sb_cid a) (sb_cid b) && (sb_dlen a =? sb_dlen b).

(* a written message as the harness decodes it again: kind, encoded length, entries (runs) *)
Definition enc_omsg (m : omsg) : list N :=
  match m with
  | ORequest ws =>
      1 :: omsg_len m ::
      enc_runs want_eqb (fun cw => enc_bytes (cid_to_bytes (fst cw)) ++ [1; 0; want_code (snd cw); 0]) ws ++ [0]
  | OPresences l =>
      2 :: omsg_len m ::
      enc_runs spres_eqb (fun x => enc_bytes (cid_to_bytes (sp_cid x)) ++ [presence_code (sp_type x)]) l
  | OBlocks l =>
      3 :: omsg_len m ::
      enc_runs sblock_eqb (fun x => [sb_id x] ++ enc_bytes (sb_prefix x) ++ [sb_dlen x; 1]) l
  end.

(* a case operation is an event of one peer of the model's node *)
Definition nop_pev (o : nop) : N * pev payload :=
  match o with
  | NInOpen p => (p, PInOpen)
  | NInFrame p m => (p, PInFrame m)
  | NInBad p => (p, PInBad)
  | NSend p a => (p, PSend a)
  | NOutOpen p c => (p, POutOpen c)
  | NOutFail p => (p, POutFail)
  | NOutSet p c => (p, POutSet c)
  | NConnClose p => (p, PConnClose)
  | NConnect p => (p, PConnect)
  | NKill p => (p, PKill)
  | NDialFail p => (p, PDialFail)
  | NForce p tag => (p, PForce tag)
  end.

Fixpoint run_node (tab : list oentry) (st : list pstate) (ops : list nop) : list N :=
  match ops with
  | [] => []
  | o :: t =>
      let '(st', (evs, (done, part))) := node_step payload (digest_of tab) MB MM st (nop_pev o) in
      enc_list (enc_event (fst (nop_pev o))) evs ++ enc_list enc_omsg done ++ [part] ++ run_node tab st' t
  end.

(* ---- kind 5: presence batching ---- *)

Definition enc_pbatch (b : list spres) : list N :=
  enc_list (fun x => [sp_id x]) b ++
  [match b with [] => 0 | _ => message_len spres sp_elen blk_mlen b end] ++
  enc_list (fun x => enc_bytes (cid_to_bytes (sp_cid x)) ++ [presence_code (sp_type x)]) b ++
  enc_bytes (match b with [] => [] | _ => presences_bytes b end).

Definition run_pres (mm : N) (l : list spres) : list N :=
  enc_list enc_pbatch (all_batches spres (fun _ => 0) sp_elen blk_mlen 0 mm l).

(* ---- kind 6: send_request — one message, refused when longer than the limit ---- *)

Definition enc_want_entry (x : N * (cid * want_type)) : list N :=
  enc_bytes (cid_to_bytes (fst (snd x))) ++ [1; 0; want_code (snd (snd x)); 0].

Definition run_wants (mm : N) (l : list (N * (cid * want_type))) : list N :=
  let cids := map snd l in
  if mm <? request_len cids then [0; 0]
  else [1; request_len cids] ++ enc_list enc_want_entry l ++ [0] ++ enc_bytes (request_bytes cids).

(* ---- kind 8: what the remote user is told, message by message ---- *)

Definition run_mixed (ws : list (N * (cid * want_type))) (ps : list spres) (bs : list sblock) : list N :=
  let evs :=
    (* the request is one message; an empty wantlist is not reported (a request above the limit
       would not be sent at all: not generated in this stream, marked 99) *)
    (if MM <? request_len (map snd ws) then [[99]]
     else match ws with [] => [] | _ => [1 :: enc_list (fun x : N * (cid * want_type) => [fst x]) ws] end) ++
    map (fun b => 2 :: enc_list (fun x => [sp_id x]) b) (send_response_presences MM ps) ++
    map (fun b => 3 :: enc_list (fun x => [sb_id x]) b) (send_response_blocks MB MM bs) in
  N.of_nat (length evs) :: concat evs.

Definition run_case (l : list N) : list N :=
  match decode_case l with
  | Some (CRecv bs) => 1 :: N.of_nat (length bs) :: run_recv bs
  | Some (CSend mb mm bs) => 2 :: run_send mb mm bs
  | Some (CE2E bs) => 3 :: run_e2e bs
  | Some (CNode ops tab) =>
      4 :: N.of_nat (length ops) :: run_node tab [ps_init; ps_init; ps_init] ops
  | Some (CPres mm l) => 5 :: run_pres mm l
  | Some (CWant mm l) => 6 :: run_wants mm l
  | Some (CBlocksMsg l) => 7 :: enc_bytes (match l with [] => [] | _ => blocks_bytes l end)
  | Some (CMixed ws ps bs) => 8 :: run_mixed ws ps bs
  | None => [0]
  end.

(* ---- decoding traces ---- *)

Definition p_result : parser (option (cid * payload)) :=
  let* tag := pN in
  match tag with
  | 0 => pret None
  | 1 => let* v := pN in let* codec := p64 in let* code := p64 in let* dg := plist pN in
         let* did := pN in let* dl := pN in
         pret (Some (mkCid v codec code dg, (did, dl)))
  | _ => pfail
  end.

Record obatch := mkOB {
  ob_ids : list N; ob_len : N; ob_entries : list (list N * N * N)
}.

Definition p_obatch : parser obatch :=
  let* ids := plist pN in
  let* len := pN in
  let* es := plist (let* pb := plist pN in let* dl := pN in let* ok := pN in pret (pb, dl, ok)) in
  pret (mkOB ids len es).

(* ---- the oracle ---- *)

(* One received block, judged on what the implementation reported for it. *)
Definition recv_ok (tab : list oentry) (b : rblock) (res : option (cid * payload)) : bool :=
  match res with
  | Some (c, d) =>
      (* delivered: the payload is the received one, the prefix was well-formed, and the CID is
         the prefix's version/codec/hash function with the digest of the received payload *)
      pay_eqb d (rb_data b) &&
      match prefix_from_bytes (rb_prefix b) with
      | None => false
      | Some p =>
          (c_version c =? p_version p) && (c_codec c =? p_codec p) && (c_code c =? p_mhtype p) &&
          opt_eqb nlist_eqb (digest_of tab (c_code c) (rb_data b)) (Some (c_digest c)) &&
          cid_valid_b c && (N.of_nat (length (c_digest c)) <=? 64)
      end
  | None =>
      (* dropped: only a malformed prefix, an uncomputable hash or a CID that the prefix cannot
         denote justify it *)
      match prefix_from_bytes (rb_prefix b) with
      | None => true
      | Some p =>
          match digest_of tab (p_mhtype p) (rb_data b) with
          | None => true
          | Some dg =>
              (64 <? N.of_nat (length dg)) ||
              negb (cid_valid_b (mkCid (p_version p) (p_codec p) (p_mhtype p) dg))
          end
      end
  end.

(* the oracle table must answer every question the judgement asks *)
Definition oracle_complete (tab : list oentry) (b : rblock) : bool :=
  match prefix_from_bytes (rb_prefix b) with
  | None => true
  | Some p => match lookup tab (p_mhtype p) (rb_data b) with Some _ => true | None => false end
  end.

Fixpoint recv_all_ok (tab : list oentry) (bs : list rblock) (rs : list (option (cid * payload))) : bool :=
  match bs, rs with
  | [], [] => true
  | b :: bs', r :: rs' => recv_ok tab b r && recv_all_ok tab bs' rs'
  | _, _ => false
  end.

Definition find_sb (l : list sblock) (i : N) : option sblock := nth_error l (N.to_nat i).

Definition entry_ok (l : list sblock) (i : N) (e : list N * N * N) : bool :=
  let '(pb, dl, ok) := e in
  match find_sb l i with
  | None => false
  | Some b =>
      (ok =? 1) && (dl =? sb_dlen b) &&
      opt_eqb prefix_eqb (prefix_from_bytes pb) (Some (prefix_of_cid (sb_cid b)))
  end.

Fixpoint entries_ok (l : list sblock) (ids : list N) (es : list (list N * N * N)) : bool :=
  match ids, es with
  | [], [] => true
  | i :: ids', e :: es' => entry_ok l i e && entries_ok l ids' es'
  | _, _ => false
  end.

Definition ids_dsum (l : list sblock) (ids : list N) : N :=
  sum (map (fun i => match find_sb l i with Some b => sb_dlen b | None => 0 end) ids).

(* One message, judged on what was observed: not empty, within both limits, and it decodes to
   exactly the blocks of the batch, in order. *)
Definition batch_ok (mb mm : N) (l : list sblock) (b : obatch) : bool :=
  negb (match ob_ids b with [] => true | _ => false end) &&
  (1 <=? ob_len b) && (ob_len b <=? mm) &&
  (ids_dsum l (ob_ids b) <=? mb) &&
  entries_ok l (ob_ids b) (ob_entries b).

Definition fit_ids (mb mm : N) (l : list sblock) : list N :=
  map sb_id (filter (fits sblock sb_dlen sb_elen blk_mlen mb mm) l).

(* ---- kinds 4 and 5: decoding traces and judging them ---- *)

Definition p_cid_enc : parser cid :=
  let* v := pN in let* codec := p64 in let* code := p64 in let* dg := plist pN in
  pret (mkCid v codec code dg).

Definition p_response : parser (response payload) :=
  let* tag := pN in
  match tag with
  | 0 => let* c := p_cid_enc in let* did := pN in let* dl := pN in pret (RBlock c (did, dl))
  | 1 => let* c := p_cid_enc in let* t := pN in
         match t with 0 => pret (RPresence c PHave) | 1 => pret (RPresence c PDontHave) | _ => pfail end
  | _ => pfail
  end.

Definition p_event : parser (N * event payload) :=
  let* tag := pN in
  match tag with
  | 1 => let* p := pN in
         let* ws := plist (let* c := p_cid_enc in let* w := pN in
                           match w with 0 => pret (c, WBlock) | 1 => pret (c, WHave) | _ => pfail end) in
         pret (p, ERequest ws)
  | 2 => let* p := pN in let* rs := plist p_response in pret (p, EResponse rs)
  | _ => pfail
  end.

(* entries come as runs: (count, entry) *)
Inductive wmsg :=
| WRequest (len : N) (es : list (N * wl_entry)) (full : N)
| WPresences (len : N) (ps : list (N * (list N * N)))
| WBlocks (len : N) (bs : list (N * (N * list N * N * N))).

Definition p_run {X} (p : parser X) : parser (N * X) :=
  let* k := pN in let* x := p in if 1 <=? k then pret (k, x) else pfail.

Definition p_wmsg : parser wmsg :=
  let* tag := pN in
  match tag with
  | 1 => let* len := pN in let* es := plist (p_run p_wl_entry) in let* full := pN in pret (WRequest len es full)
  | 2 => let* len := pN in let* ps := plist (p_run (let* b := plist pN in let* t := pN in pret (b, t))) in
         pret (WPresences len ps)
  | 3 => let* len := pN in
         let* bs := plist (p_run (let* i := pN in let* pb := plist pN in let* dl := pN in let* ok := pN in
                                  pret (i, pb, dl, ok))) in
         pret (WBlocks len bs)
  | _ => pfail
  end.

Definition p_opout : parser (list (N * event payload) * list wmsg * N) :=
  let* evs := plist p_event in let* ws := plist p_wmsg in let* part := pN in pret (evs, ws, part).

Definition cid_beqb (a b : cid) : bool := cid_eqb a b.

Definition response_eqb (a b : response payload) : bool :=
  match a, b with
  | RBlock c d, RBlock c' d' => cid_eqb c c' && pay_eqb d d'
  | RPresence c t, RPresence c' t' => cid_eqb c c' && (presence_code t =? presence_code t')
  | _, _ => false
  end.

Definition event_eqb (a b : event payload) : bool :=
  match a, b with
  | ERequest ws, ERequest ws' =>
      list_eqb (fun x y : cid * want_type => cid_eqb (fst x) (fst y) && (want_code (snd x) =? want_code (snd y))) ws ws'
  | EResponse rs, EResponse rs' => list_eqb response_eqb rs rs'
  | _, _ => false
  end.

(* a delivered block is one of the frame's payload entries, certified against the oracle *)
Definition block_certified (tab : list oentry) (m : message payload) (c : cid) (d : payload) : bool :=
  existsb (fun pd : list N * payload =>
             pay_eqb (snd pd) d &&
             match prefix_from_bytes (fst pd) with
             | None => false
             | Some p =>
                 (c_version c =? p_version p) && (c_codec c =? p_codec p) && (c_code c =? p_mhtype p)
             end) (m_payload m) &&
  opt_eqb nlist_eqb (digest_of tab (c_code c) d) (Some (c_digest c)) &&
  cid_valid_b c && (N.of_nat (length (c_digest c)) <=? 64).

Definition event_certified (tab : list oentry) (m : message payload) (e : event payload) : bool :=
  match e with
  | ERequest _ => true
  | EResponse rs =>
      forallb (fun r => match r with RBlock c d => block_certified tab m c d | RPresence _ _ => true end) rs
  end.

(* a written message respects the limits and is well-formed *)
Definition wmsg_ok (w : wmsg) : bool :=
  match w with
  | WRequest len es full =>
      (1 <=? len) && (len <=? MM) && (full =? 0) &&
      forallb (fun ke : N * wl_entry =>
                 let e := snd ke in
                 match cid_read_bytes (we_block e) with Some _ => true | None => false end &&
                 (we_priority e =? 1) && negb (we_cancel e) && (we_wanttype e <=? 1) &&
                 negb (we_senddonthave e)) es
  | WPresences len ps =>
      (1 <=? len) && (len <=? MM) && negb (match ps with [] => true | _ => false end) &&
      forallb (fun kbt : N * (list N * N) =>
                 let bt := snd kbt in
                 match cid_read_bytes (fst bt) with Some _ => true | None => false end && (snd bt <=? 1)) ps
  | WBlocks len bs =>
      (1 <=? len) && (len <=? MM) && negb (match bs with [] => true | _ => false end) &&
      (sum (map (fun kb : N * (N * list N * N * N) => fst kb * snd (fst (snd kb))) bs) <=? MB) &&
      forallb (fun kb : N * (N * list N * N * N) =>
                 let b := snd kb in
                 match prefix_from_bytes (snd (fst (fst b))) with Some _ => true | None => false end &&
                 (snd b =? 1)) bs
  end.

Fixpoint set_nth_b (l : list bool) (p : nat) (b : bool) : list bool :=
  match l, p with
  | [], _ => []
  | _ :: t, O => b :: t
  | h :: t, S q => h :: set_nth_b t q b
  end.

(* what a list of messages carries, as runs of encoded entries (kind-tagged), adjacent equal
   runs merged across message boundaries: the split into messages is forgotten *)
Fixpoint merge_runs (l : list (N * list N)) : list (N * list N) :=
  match l with
  | [] => []
  | (k, e) :: t =>
      match merge_runs t with
      | (k', e') :: r => if nlist_eqb e e' then (k + k', e') :: r else (k, e) :: (k', e') :: r
      | [] => [(k, e)]
      end
  end.

Definition omsg_runs (m : omsg) : list (N * list N) :=
  match m with
  | ORequest ws =>
      map (fun r : N * (cid * want_type) =>
             (fst r, 1 :: enc_bytes (cid_to_bytes (fst (snd r))) ++ [1; 0; want_code (snd (snd r)); 0]))
          (rle want_eqb ws)
  | OPresences l =>
      map (fun r : N * spres =>
             (fst r, 2 :: enc_bytes (cid_to_bytes (sp_cid (snd r))) ++ [presence_code (sp_type (snd r))]))
          (rle spres_eqb l)
  | OBlocks l =>
      map (fun r : N * sblock =>
             (fst r, 3 :: sb_id (snd r) :: enc_bytes (sb_prefix (snd r)) ++ [sb_dlen (snd r); 1]))
          (rle sblock_eqb l)
  end.

Definition wmsg_runs (w : wmsg) : list (N * list N) :=
  match w with
  | WRequest _ es _ =>
      map (fun ke : N * wl_entry =>
             let e := snd ke in
             (fst ke, 1 :: enc_bytes (we_block e) ++
                      [we_priority e; b2n (we_cancel e); we_wanttype e; b2n (we_senddonthave e)])) es
  | WPresences _ ps =>
      map (fun kbt : N * (list N * N) => (fst kbt, 2 :: enc_bytes (fst (snd kbt)) ++ [snd (snd kbt)])) ps
  | WBlocks _ bs =>
      map (fun kb : N * (N * list N * N * N) =>
             let b := snd kb in
             (fst kb, 3 :: fst (fst (fst b)) :: enc_bytes (snd (fst (fst b))) ++ [snd (fst b); snd b])) bs
  end.

Definition run_eqb (a b : N * list N) : bool := (fst a =? fst b) && nlist_eqb (snd a) (snd b).

(* lossless, in order, exactly once: what was written carries exactly what the loop had to
   write at this point (the model's state says what that is), however it is cut into messages *)
Definition content_ok (done : list omsg) (ws : list wmsg) : bool :=
  list_eqb run_eqb (merge_runs (flat_map wmsg_runs ws)) (merge_runs (flat_map omsg_runs done)).

(* Judging a node trace op by op; `con`/`inb` is which peers have a connection / an inbound
   substream, known from the ops alone; `st` is the model's state of the loop, used for one
   question only: which entries had to be written by this operation.  Events may only come from
   complete decodable frames on an open substream and must be the ones the frame denotes, with
   every block certified; everything written must be a well-formed message within the limits,
   and the messages together must carry exactly the entries due, once and in order. *)
Fixpoint node_ok (tab : list oentry) (st : list pstate) (con inb : list bool) (ops : list nop)
         (outs : list (list (N * event payload) * list wmsg * N)) : bool :=
  match ops, outs with
  | [], [] => true
  | o :: ops', (evs, ws, part) :: outs' =>
      let '(st', (_, (done, _))) := node_step payload (digest_of tab) MB MM st (nop_pev o) in
      forallb wmsg_ok ws && content_ok done ws &&
      match o with
      | NInOpen p =>
          match evs, ws with [], [] => (part =? 0) | _, _ => false end &&
          node_ok tab st' con (if nth (N.to_nat p) con false then set_nth_b inb (N.to_nat p) true else inb) ops' outs'
      | NInBad p =>
          (* no partial delivery *)
          match evs, ws with [], [] => (part =? 0) | _, _ => false end &&
          node_ok tab st' con (set_nth_b inb (N.to_nat p) false) ops' outs'
      | NInFrame p m =>
          match ws with [] => (part =? 0) | _ => false end &&
          (if nth (N.to_nat p) inb false
           then forallb (fun pe : N * event payload => (fst pe =? p) && event_certified tab m (snd pe)) evs &&
                list_eqb event_eqb (map snd evs) (msg_events payload (digest_of tab) m)
           else match evs with [] => true | _ => false end) &&
          node_ok tab st' con inb ops' outs'
      | NSend _ _ | NOutOpen _ _ =>
          match evs with [] => true | _ => false end && node_ok tab st' con inb ops' outs'
      | NConnClose p =>
          match evs, ws with [], [] => (part =? 0) | _, _ => false end &&
          node_ok tab st' (set_nth_b con (N.to_nat p) false) (set_nth_b inb (N.to_nat p) false) ops' outs'
      | NOutFail _ | NOutSet _ _ | NKill _ | NDialFail _ | NForce _ _ =>
          match evs, ws with [], [] => (part =? 0) | _, _ => false end && node_ok tab st' con inb ops' outs'
      | NConnect p =>
          (* a connection only turns a parked dial into a substream request *)
          match evs, ws with [], [] => (part =? 0) | _, _ => false end &&
          node_ok tab st' (set_nth_b con (N.to_nat p) true) inb ops' outs'
      end
  | _, _ => false
  end.

Record opbatch := mkOPB { opb_ids : list N; opb_len : N; opb_entries : list (list N * N); opb_raw : list N }.

Definition p_opbatch : parser opbatch :=
  let* ids := plist pN in let* len := pN in
  let* es := plist (let* b := plist pN in let* t := pN in pret (b, t)) in
  let* raw := plist pN in
  pret (mkOPB ids len es raw).

Definition pick {X} (l : list X) (ids : list N) : list X :=
  flat_map (fun i => match nth_error l (N.to_nat i) with Some x => [x] | None => [] end) ids.

Definition find_sp (l : list spres) (i : N) : option spres := nth_error l (N.to_nat i).

Fixpoint pentries_ok (l : list spres) (ids : list N) (es : list (list N * N)) : bool :=
  match ids, es with
  | [], [] => true
  | i :: ids', e :: es' =>
      match find_sp l i with
      | None => false
      | Some x => opt_eqb cid_eqb (cid_read_bytes (fst e)) (Some (sp_cid x)) &&
                  (snd e =? presence_code (sp_type x))
      end && pentries_ok l ids' es'
  | _, _ => false
  end.

Definition pbatch_ok (mm : N) (l : list spres) (b : opbatch) : bool :=
  negb (match opb_ids b with [] => true | _ => false end) &&
  (1 <=? opb_len b) && (opb_len b <=? mm) && pentries_ok l (opb_ids b) (opb_entries b) &&
  (* the bytes on the wire: as long as announced, and the canonical encoding of the batch *)
  (N.of_nat (length (opb_raw b)) =? opb_len b) &&
  nlist_eqb (opb_raw b) (presences_bytes (pick l (opb_ids b))).

Fixpoint wentries_ok (l : list (N * (cid * want_type))) (ids : list N) (es : list wl_entry) : bool :=
  match ids, es with
  | [], [] => true
  | i :: ids', e :: es' =>
      match nth_error l (N.to_nat i) with
      | None => false
      | Some x =>
          opt_eqb cid_eqb (cid_read_bytes (we_block e)) (Some (fst (snd x))) &&
          (we_wanttype e =? want_code (snd (snd x))) && (we_priority e =? 1) &&
          negb (we_cancel e) && negb (we_senddonthave e)
      end && wentries_ok l ids' es'
  | _, _ => false
  end.

(* send_request: Ok means one message went out — within the limit, not marked `full`, decoding to
   exactly the wants, in order, and being the canonical encoding byte for byte; Err is justified
   only by a message longer than the limit, and then nothing was written *)
Definition wants_ok (mm : N) (l : list (N * (cid * want_type))) (trace : list N) : bool :=
  let cids := map snd l in
  match trace with
  | [0; w] => (w =? 0) && (mm <? request_len cids)
  | 1 :: len :: body =>
      match pall (let* es := plist p_wl_entry in let* full := pN in let* raw := plist pN in
                  pret (es, full, raw)) body with
      | Some (es, full, raw) =>
          (len <=? mm) && (full =? 0) && wentries_ok l (map fst l) es &&
          (N.of_nat (length raw) =? len) && nlist_eqb raw (request_bytes cids)
      | None => false
      end
  | _ => false
  end.

Definition prop_ok (case trace : list N) : bool :=
  match decode_case case, trace with
  | Some (CRecv bs), 1 :: n :: body =>
      let tab := all_oracle bs in
      forallb (oracle_complete tab) bs &&
      match pall (prep (length bs) p_result) body with
      | Some rs => (n =? N.of_nat (length bs)) && recv_all_ok tab bs rs
      | None => false
      end
  | Some (CSend mb mm l), 2 :: body =>
      match pall (plist p_obatch) body with
      | Some obs =>
          (* every block that fits a message goes out exactly once and in order *)
          nlist_eqb (concat (map ob_ids obs)) (fit_ids mb mm l) &&
          forallb (batch_ok mb mm l) obs
      | None => false
      end
  | Some (CE2E l), 3 :: body =>
      match pall (plist (plist pN)) body with
      | Some evs =>
          let mb := Consts.BITSWAP_MAX_BATCH_SIZE in
          let mm := Consts.BITSWAP_MAX_MESSAGE_SIZE in
          nlist_eqb (concat evs) (fit_ids mb mm l) &&
          forallb (fun ids => negb (match ids with [] => true | _ => false end) &&
                              (ids_dsum l ids <=? mb) &&
                              (EMPTY_MESSAGE_LEN +
                               sum (map (fun i => match find_sb l i with
                                                  | Some b => sb_elen b | None => 0 end) ids) <=? mm))
                  evs
      | None => false
      end
  | Some (CNode ops tab), 4 :: n :: body =>
      match pall (prep (length ops) p_opout) body with
      | Some outs => (n =? N.of_nat (length ops)) && node_ok tab [ps_init; ps_init; ps_init] [true; true; true] [false; false; false] ops outs
      | None => false
      end
  | Some (CPres mm l), 5 :: body =>
      match pall (plist p_opbatch) body with
      | Some obs =>
          nlist_eqb (concat (map opb_ids obs))
                    (map sp_id (filter (fits spres (fun _ => 0) sp_elen blk_mlen 0 mm) l)) &&
          forallb (pbatch_ok mm l) obs
      | None => false
      end
  | Some (CWant mm l), 6 :: body => wants_ok mm l body
  | Some (CBlocksMsg l), 7 :: body =>
      match pall (plist pN) body with
      | Some raw =>
          (* the message is the canonical encoding: as long as the sizes say, carrying the blocks *)
          nlist_eqb raw (match l with [] => [] | _ => blocks_bytes l end) &&
          match l with
          | [] => true
          | _ => N.of_nat (length raw) =? message_len cblock cb_elen blk_mlen l
          end
      | None => false
      end
  | Some (CMixed ws ps bs), 8 :: body =>
      match pall (plist (let* tag := pN in let* ids := plist pN in pret (tag, ids))) body with
      | Some evs =>
          let of_tag t := map snd (filter (fun e : N * list N => fst e =? t) evs) in
          (* requests first, then presences, then blocks; nothing else; no empty event *)
          forallb (fun e : N * list N => (1 <=? fst e) && (fst e <=? 3) &&
                                         negb (match snd e with [] => true | _ => false end)) evs &&
          nlist_eqb (map fst evs)
                    (map (fun _ => 1) (of_tag 1) ++ map (fun _ => 2) (of_tag 2) ++ map (fun _ => 3) (of_tag 3)) &&
          (* the request (within the limit in this stream) is reported whole, by one event; every
             presence and block that fits a message is reported once and in order *)
          (request_len (map snd ws) <=? MM) &&
          list_eqb nlist_eqb (of_tag 1) (match ws with [] => [] | _ => [map fst ws] end) &&
          nlist_eqb (concat (of_tag 2))
                    (map sp_id (filter (fits spres (fun _ => 0) sp_elen blk_mlen 0 MM) ps)) &&
          nlist_eqb (concat (of_tag 3)) (fit_ids MB MM bs) &&
          forallb (fun ids => (ids_dsum bs ids <=? MB) &&
                              (EMPTY_MESSAGE_LEN +
                               sum (map (fun i => match find_sb bs i with
                                                  | Some b => sb_elen b | None => 0 end) ids) <=? MM))
                  (of_tag 3)
      | None => false
      end
  | None, [0] => true
  | _, _ => false
  end.

(* F-C20a was repaired in the code (fix: commit), so there is no known-finding class. *)
Definition known_class (case trace : list N) : N := 0.
