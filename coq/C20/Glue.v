(* C20 — wire format, model runner and the trace oracle prop_ok. Definitions only.

   Case kinds (first number):
   (64-bit values — codecs and hash codes — travel as two 32-bit limbs `hi lo`, because the wire
   carries numbers below 2^62 only.)
   1  receiving:  1 n { <prefix bytes: count-prefixed> did dlen <oracle: count-prefixed entries
                        code(hi lo) supported <digest bytes: count-prefixed>> }*n
      a payload is the pair (did, dlen); the oracle lists the digests the harness computed
      itself for (code, payload) pairs.
      trace:  1 n { 0 | 1 version codec(hi lo) code(hi lo) <digest: count-prefixed> did dlen }*n
   2  sending through the hooked functions with arbitrary limits:
                  2 max_batch max_message n { version codec(hi lo) code(hi lo) digest_len dlen }*n
      trace:  2 k { <ids: count-prefixed> message_len <decoded entries: count-prefixed
                    <prefix bytes: count-prefixed> dlen same_data> }*k
   3  sending end to end (two nodes over TCP, shipped limits):
                  3 n { version codec(hi lo) code(hi lo) digest_len dlen }*n
      trace:  3 k { <ids of one Response event: count-prefixed> }*k *)
From Coq Require Import List NArith Bool.
From V.common Require Import Wire.
From V.gen Require Consts.
From V.C20 Require Import Model.
Import ListNotations.
Open Scope N_scope.

Definition payload := (N * N)%type.            (* (id, length) *)

Record oentry := mkOE { oe_code : N; oe_data : payload; oe_digest : option (list N) }.

Definition pay_eqb (a b : payload) : bool := (fst a =? fst b) && (snd a =? snd b).

Fixpoint lookup (tab : list oentry) (code : N) (d : payload) : option oentry :=
  match tab with
  | [] => None
  | e :: t => if (oe_code e =? code) && pay_eqb (oe_data e) d then Some e else lookup t code d
  end.

Definition digest_of (tab : list oentry) (code : N) (d : payload) : option (list N) :=
  match lookup tab code d with Some e => oe_digest e | None => None end.

Record rblock := mkRB { rb_prefix : list N; rb_data : payload; rb_oracle : list oentry }.

Definition LIMB : N := 4294967296.   (* 2^32 *)
Definition p64 : parser N :=
  let* hi := pN in let* lo := pN in
  if (hi <? LIMB) && (lo <? LIMB) then pret (hi * LIMB + lo) else pfail.
Definition enc64 (x : N) : list N := [x / LIMB; x mod LIMB].

Definition p_bytes : parser (list N) :=
  let* l := plist pN in
  if forallb (fun b => b <? 256) l then pret l else pfail.

Definition p_rblock : parser rblock :=
  let* pb := p_bytes in
  let* did := pN in
  let* dl := pN in
  let* tab := plist (let* code := p64 in let* sup := pBool in let* dg := p_bytes in
                     pret (mkOE code (did, dl) (if sup then Some dg else None))) in
  pret (mkRB pb (did, dl) tab).

Definition p_sblock : parser (N * N * N * N * N) :=
  let* v := pN in let* codec := p64 in let* code := p64 in let* dgl := pN in let* dl := pN in
  if (v <=? 1) && (dgl <=? 64) then pret (v, codec, code, dgl, dl) else pfail.

Fixpoint number {X} (i : N) (l : list X) : list (N * X) :=
  match l with [] => [] | x :: t => (i, x) :: number (i + 1) t end.

Definition mk_sblock (ix : N * (N * N * N * N * N)) : sblock :=
  let '(i, (v, codec, code, dgl, dl)) := ix in
  mkSB i (mkCid v codec code (repeat 0 (N.to_nat dgl))) dl.

Inductive case :=
| CRecv (l : list rblock)
| CSend (mb mm : N) (l : list sblock)
| CE2E (l : list sblock).

Definition decode_case (l : list N) : option case :=
  pall (let* kind := pN in
        match kind with
        | 1 => let* bs := plist p_rblock in pret (CRecv bs)
        | 2 => let* mb := pN in let* mm := pN in let* bs := plist p_sblock in
               pret (CSend mb mm (map mk_sblock (number 0 bs)))
        | 3 => let* bs := plist p_sblock in pret (CE2E (map mk_sblock (number 0 bs)))
        | _ => pfail
        end) l.

(* ---- running the model ---- *)

Definition all_oracle (bs : list rblock) : list oentry := flat_map rb_oracle bs.

Definition enc_cid (c : cid) : list N :=
  [c_version c] ++ enc64 (c_codec c) ++ enc64 (c_code c) ++ enc_list (fun b => [b]) (c_digest c).

Definition run_recv (bs : list rblock) : list N :=
  let tab := all_oracle bs in
  flat_map (fun b =>
              match block_to_response payload (digest_of tab) (rb_prefix b) (rb_data b) with
              | Some (c, d) => 1 :: enc_cid c ++ [fst d; snd d]
              | None => [0]
              end) bs.

Definition enc_batch (b : list sblock) : list N :=
  enc_list (fun x => [sb_id x]) b ++
  [match b with [] => 0 | _ => message_len sblock sb_elen b end] ++
  enc_list (fun x => enc_list (fun y => [y]) (sb_prefix x) ++ [sb_dlen x; 1]) b.

Definition run_send (mb mm : N) (l : list sblock) : list N :=
  enc_list enc_batch (all_batches sblock sb_dlen sb_elen mb mm l).

(* end to end: every message that send_response writes becomes one Response event at the
   receiver (whose block_to_response accepts the honest blocks) *)
Definition run_e2e (l : list sblock) : list N :=
  enc_list (enc_list (fun x => [sb_id x]))
    (send_response_blocks Consts.BITSWAP_MAX_BATCH_SIZE Consts.BITSWAP_MAX_MESSAGE_SIZE l).

Definition run_case (l : list N) : list N :=
  match decode_case l with
  | Some (CRecv bs) => 1 :: N.of_nat (length bs) :: run_recv bs
  | Some (CSend mb mm bs) => 2 :: run_send mb mm bs
  | Some (CE2E bs) => 3 :: run_e2e bs
  | None => [0]
  end.

(* ---- decoding traces ---- *)

Definition p_result : parser (option (cid * payload)) :=
  let* tag := pN in
  match tag with
  | 0 => pret None
  | 1 => let* v := pN in let* codec := p64 in let* code := p64 in let* dg := plist pN in
         let* did := pN in let* dl := pN in
         pret (Some (mkCid v codec code dg, (did, dl)))
  | _ => pfail
  end.

Record obatch := mkOB {
  ob_ids : list N; ob_len : N; ob_entries : list (list N * N * N)
}.

Definition p_obatch : parser obatch :=
  let* ids := plist pN in
  let* len := pN in
  let* es := plist (let* pb := plist pN in let* dl := pN in let* ok := pN in pret (pb, dl, ok)) in
  pret (mkOB ids len es).

(* ---- the oracle ---- *)

Definition prefix_eqb (a b : prefix) : bool :=
  (p_version a =? p_version b) && (p_codec a =? p_codec b) &&
  (p_mhtype a =? p_mhtype b) && (p_mhlen a =? p_mhlen b).

Definition cid_valid_b (c : cid) : bool :=
  ((c_version c =? 0) && (c_codec c =? DAG_PB) && (c_code c =? SHA2_256) &&
   (N.of_nat (length (c_digest c)) =? 32))
  || (c_version c =? 1).

(* One received block, judged on what the implementation reported for it. *)
Definition recv_ok (tab : list oentry) (b : rblock) (res : option (cid * payload)) : bool :=
  match res with
  | Some (c, d) =>
      (* delivered: the payload is the received one, the prefix was well-formed, and the CID is
         the prefix's version/codec/hash function with the digest of the received payload *)
      pay_eqb d (rb_data b) &&
      match prefix_from_bytes (rb_prefix b) with
      | None => false
      | Some p =>
          (c_version c =? p_version p) && (c_codec c =? p_codec p) && (c_code c =? p_mhtype p) &&
          opt_eqb nlist_eqb (digest_of tab (c_code c) (rb_data b)) (Some (c_digest c)) &&
          cid_valid_b c && (N.of_nat (length (c_digest c)) <=? 64)
      end
  | None =>
      (* dropped: only a malformed prefix, an uncomputable hash or a CID that the prefix cannot
         denote justify it *)
      match prefix_from_bytes (rb_prefix b) with
      | None => true
      | Some p =>
          match digest_of tab (p_mhtype p) (rb_data b) with
          | None => true
          | Some dg =>
              (64 <? N.of_nat (length dg)) ||
              negb (cid_valid_b (mkCid (p_version p) (p_codec p) (p_mhtype p) dg))
          end
      end
  end.

(* the oracle table must answer every question the judgement asks *)
Definition oracle_complete (tab : list oentry) (b : rblock) : bool :=
  match prefix_from_bytes (rb_prefix b) with
  | None => true
  | Some p => match lookup tab (p_mhtype p) (rb_data b) with Some _ => true | None => false end
  end.

Fixpoint recv_all_ok (tab : list oentry) (bs : list rblock) (rs : list (option (cid * payload))) : bool :=
  match bs, rs with
  | [], [] => true
  | b :: bs', r :: rs' => recv_ok tab b r && recv_all_ok tab bs' rs'
  | _, _ => false
  end.

Definition find_sb (l : list sblock) (i : N) : option sblock := nth_error l (N.to_nat i).

Definition entry_ok (l : list sblock) (i : N) (e : list N * N * N) : bool :=
  let '(pb, dl, ok) := e in
  match find_sb l i with
  | None => false
  | Some b =>
      (ok =? 1) && (dl =? sb_dlen b) &&
      opt_eqb prefix_eqb (prefix_from_bytes pb) (Some (prefix_of_cid (sb_cid b)))
  end.

Fixpoint entries_ok (l : list sblock) (ids : list N) (es : list (list N * N * N)) : bool :=
  match ids, es with
  | [], [] => true
  | i :: ids', e :: es' => entry_ok l i e && entries_ok l ids' es'
  | _, _ => false
  end.

Definition ids_dsum (l : list sblock) (ids : list N) : N :=
  sum (map (fun i => match find_sb l i with Some b => sb_dlen b | None => 0 end) ids).

(* One message, judged on what was observed: not empty, within both limits, and it decodes to
   exactly the blocks of the batch, in order. *)
Definition batch_ok (mb mm : N) (l : list sblock) (b : obatch) : bool :=
  negb (match ob_ids b with [] => true | _ => false end) &&
  (1 <=? ob_len b) && (ob_len b <=? mm) &&
  (ids_dsum l (ob_ids b) <=? mb) &&
  entries_ok l (ob_ids b) (ob_entries b).

Definition fit_ids (mb mm : N) (l : list sblock) : list N :=
  map sb_id (filter (fits sblock sb_dlen sb_elen mb mm) l).

Definition prop_ok (case trace : list N) : bool :=
  match decode_case case, trace with
  | Some (CRecv bs), 1 :: n :: body =>
      let tab := all_oracle bs in
      forallb (oracle_complete tab) bs &&
      match pall (prep (length bs) p_result) body with
      | Some rs => (n =? N.of_nat (length bs)) && recv_all_ok tab bs rs
      | None => false
      end
  | Some (CSend mb mm l), 2 :: body =>
      match pall (plist p_obatch) body with
      | Some obs =>
          (* every block that fits a message goes out exactly once and in order *)
          nlist_eqb (concat (map ob_ids obs)) (fit_ids mb mm l) &&
          forallb (batch_ok mb mm l) obs
      | None => false
      end
  | Some (CE2E l), 3 :: body =>
      match pall (plist (plist pN)) body with
      | Some evs =>
          let mb := Consts.BITSWAP_MAX_BATCH_SIZE in
          let mm := Consts.BITSWAP_MAX_MESSAGE_SIZE in
          nlist_eqb (concat evs) (fit_ids mb mm l) &&
          forallb (fun ids => negb (match ids with [] => true | _ => false end) &&
                              (ids_dsum l ids <=? mb) &&
                              (EMPTY_MESSAGE_LEN +
                               sum (map (fun i => match find_sb l i with
                                                  | Some b => sb_elen b | None => 0 end) ids) <=? mm))
                  evs
      | None => false
      end
  | None, [0] => true
  | _, _ => false
  end.

(* F-C20a was repaired in the code (fix: commit), so there is no known-finding class. *)
Definition known_class (case trace : list N) : N := 0.
