(* C20 — lemmas about Model.v. *)
From Coq Require Import List NArith Bool Lia ZifyBool ZifyNat ZifyN.
From V.gen Require Consts.
From V.C20 Require Import Model.
Import ListNotations.
Open Scope N_scope.

Arguments N.add : simpl never.
Arguments N.sub : simpl never.
Arguments N.mul : simpl never.
Arguments N.div : simpl never.
Arguments N.modulo : simpl never.
Arguments N.eqb : simpl never.
Arguments N.ltb : simpl never.
Arguments N.leb : simpl never.
Arguments N.of_nat : simpl never.

(* ------------------------------------------------------------------ varints *)

Fixpoint pow128 (k : nat) : N := match k with O => 1 | S j => 128 * pow128 j end.

Lemma dec_enc_raw :
  forall fuel n first rest,
    n < pow128 (S fuel) -> (first = false -> n <> 0) ->
    varint_dec_raw first fuel (varint_enc_f fuel n ++ rest) = Some (n, rest).
Proof.
  induction fuel as [|f IH]; intros n first rest Hlt Hnz.
  - cbn [varint_enc_f]. cbn [pow128] in Hlt.
    destruct (n <? 128) eqn:E; [|lia].
    cbn [app varint_dec_raw]. rewrite E.
    destruct first; cbn [negb]; [rewrite andb_false_r; reflexivity|].
    destruct (n =? 0) eqn:Z; [specialize (Hnz eq_refl); lia|]. reflexivity.
  - cbn [varint_enc_f].
    destruct (n <? 128) eqn:E.
    + cbn [app varint_dec_raw]. rewrite E.
      destruct first; cbn [negb]; [rewrite andb_false_r; reflexivity|].
      destruct (n =? 0) eqn:Z; [specialize (Hnz eq_refl); lia|]. reflexivity.
    + cbn [app varint_dec_raw].
      assert (Hm : n mod 128 < 128) by (apply N.mod_lt; lia).
      destruct (128 + n mod 128 <? 128) eqn:E2; [lia|].
      rewrite (IH (n / 128) false rest).
      * f_equal. f_equal.
        pose proof (N.div_mod n 128 ltac:(lia)). lia.
      * change (pow128 (S (S f))) with (128 * pow128 (S f)) in Hlt.
        apply N.div_lt_upper_bound; lia.
      * intros _. pose proof (N.div_str_pos n 128). lia.
Qed.

Lemma pow128_10 : pow128 10 = 1180591620717411303424.
Proof. reflexivity. Qed.

Lemma varint_roundtrip :
  forall n rest, n < U64_MOD -> varint_dec (varint_enc n ++ rest) = Some (n, rest).
Proof.
  intros n rest H. unfold varint_dec, varint_enc.
  rewrite dec_enc_raw.
  - rewrite N.mod_small by exact H. reflexivity.
  - rewrite pow128_10. unfold U64_MOD in H. lia.
  - discriminate.
Qed.

Lemma varint_dec_lt :
  forall l v r, varint_dec l = Some (v, r) -> v < U64_MOD.
Proof.
  intros l v r. unfold varint_dec.
  destruct (varint_dec_raw true 9 l) as [[v0 r0]|]; [|discriminate].
  intros H. inversion H; subst. apply N.mod_lt. unfold U64_MOD. lia.
Qed.

Lemma enc_len_le : forall fuel n, (length (varint_enc_f fuel n) <= S fuel)%nat.
Proof.
  induction fuel as [|f IH]; intros n; cbn [varint_enc_f];
    destruct (n <? 128); cbn [length]; try lia.
  specialize (IH (n / 128)). lia.
Qed.

Lemma enc_len_pos : forall fuel n, (1 <= length (varint_enc_f fuel n))%nat.
Proof.
  destruct fuel; intros n; cbn [varint_enc_f]; destruct (n <? 128); cbn [length]; lia.
Qed.

Lemma vlen_bounds : forall n, 1 <= vlen n <= 10.
Proof.
  intros n. unfold vlen, varint_enc.
  pose proof (enc_len_le 9 n). pose proof (enc_len_pos 9 n). lia.
Qed.

(* ------------------------------------------------------------------ Prefix *)

Lemma prefix_codec :
  forall v c t n,
    v < U64_MOD -> c < U64_MOD -> t < U64_MOD -> n < U64_MOD ->
    prefix_from_bytes (varint_enc v ++ varint_enc c ++ varint_enc t ++ varint_enc n) =
    if (v <=? 1) && (n <=? 255) then Some (mkPrefix v c t n) else None.
Proof.
  intros v c t n Hv Hc Ht Hn. unfold prefix_from_bytes.
  rewrite varint_roundtrip by exact Hv.
  rewrite varint_roundtrip by exact Hc.
  rewrite varint_roundtrip by exact Ht.
  rewrite <- (app_nil_r (varint_enc n)).
  rewrite varint_roundtrip by exact Hn.
  reflexivity.
Qed.

Definition prefix_wf (p : prefix) : Prop :=
  p_version p <= 1 /\ p_codec p < U64_MOD /\ p_mhtype p < U64_MOD /\ p_mhlen p <= 255.

Lemma prefix_roundtrip :
  forall p, prefix_wf p -> prefix_from_bytes (prefix_to_bytes p) = Some p.
Proof.
  intros [v c t n] (Hv & Hc & Ht & Hn). cbn [p_version p_codec p_mhtype p_mhlen] in *.
  unfold prefix_to_bytes. cbn [p_version p_codec p_mhtype p_mhlen].
  rewrite prefix_codec; unfold U64_MOD in *; try lia.
  destruct (v <=? 1) eqn:E1; [|lia]. destruct (n <=? 255) eqn:E2; [|lia]. reflexivity.
Qed.

Lemma prefix_trailing_rejected :
  forall p x rest, prefix_wf p -> prefix_from_bytes (prefix_to_bytes p ++ x :: rest) = None.
Proof.
  intros [v c t n] x rest (Hv & Hc & Ht & Hn). cbn [p_version p_codec p_mhtype p_mhlen] in *.
  unfold prefix_to_bytes, prefix_from_bytes. cbn [p_version p_codec p_mhtype p_mhlen].
  rewrite <- !app_assoc.
  rewrite varint_roundtrip by (unfold U64_MOD; lia).
  rewrite varint_roundtrip by exact Hc.
  rewrite varint_roundtrip by exact Ht.
  rewrite varint_roundtrip by (unfold U64_MOD; lia).
  reflexivity.
Qed.

Lemma prefix_from_bytes_wf :
  forall l p, prefix_from_bytes l = Some p -> prefix_wf p.
Proof.
  intros l p. unfold prefix_from_bytes.
  destruct (varint_dec l) as [[v r1]|] eqn:E1; [|discriminate].
  destruct (varint_dec r1) as [[c r2]|] eqn:E2; [|discriminate].
  destruct (varint_dec r2) as [[t r3]|] eqn:E3; [|discriminate].
  destruct (varint_dec r3) as [[n r4]|] eqn:E4; [|discriminate].
  destruct r4; [|discriminate].
  destruct ((v <=? 1) && (n <=? 255)) eqn:E; [|discriminate].
  intros H. inversion H; subst. unfold prefix_wf. cbn [p_version p_codec p_mhtype p_mhlen].
  apply varint_dec_lt in E2. apply varint_dec_lt in E3.
  repeat split; try assumption; lia.
Qed.

Lemma prefix_len_le : forall p, (length (prefix_to_bytes p) <= 40)%nat.
Proof.
  intros p. unfold prefix_to_bytes, varint_enc. rewrite !app_length.
  pose proof (enc_len_le 9 (p_version p)). pose proof (enc_len_le 9 (p_codec p)).
  pose proof (enc_len_le 9 (p_mhtype p)). pose proof (enc_len_le 9 (p_mhlen p)). lia.
Qed.

(* ------------------------------------------------------------------ block_to_response *)

Section ReceiveProofs.
  Variable D : Type.
  Variable digest : N -> D -> option (list N).

  (* the CIDs the cid crate can represent for a digest *)
  Definition cid_valid (c : cid) : Prop :=
    (c_version c = 0 /\ c_codec c = DAG_PB /\ c_code c = SHA2_256 /\ length (c_digest c) = 32%nat)
    \/ c_version c = 1.

  Lemma cid_new_some :
    forall v codec code dg c, v <= 1 -> cid_new v codec code dg = Some c ->
      c_version c = v /\ c_codec c = codec /\ c_code c = code /\ c_digest c = dg /\ cid_valid c.
  Proof.
    intros v codec code dg c Hv. unfold cid_new, cid_valid.
    destruct (v =? 0) eqn:E0.
    - destruct (codec =? DAG_PB) eqn:E1; cbn [andb]; [|discriminate].
      destruct (code =? SHA2_256) eqn:E2; cbn [andb]; [|discriminate].
      destruct (N.of_nat (length dg) =? 32) eqn:E3; [|discriminate].
      intros H. inversion H; subst. cbn [c_version c_codec c_code c_digest].
      split; [lia|]. split; [lia|]. split; [reflexivity|]. split; [reflexivity|].
      left. split; [reflexivity|]. split; [reflexivity|]. split; lia.
    - intros H. inversion H; subst. cbn [c_version c_codec c_code c_digest].
      split; [reflexivity|]. split; [reflexivity|]. split; [reflexivity|]. split; [reflexivity|].
      right. lia.
  Qed.

  Lemma self_certifying :
    forall pb d c d',
      block_to_response D digest pb d = Some (c, d') ->
      d' = d /\
      exists p, prefix_from_bytes pb = Some p /\
                digest (p_mhtype p) d = Some (c_digest c) /\
                c_code c = p_mhtype p /\ c_version c = p_version p /\ c_codec c = p_codec p /\
                (length (c_digest c) <= 64)%nat /\ cid_valid c.
  Proof.
    intros pb d c d'. unfold block_to_response.
    destruct (prefix_from_bytes pb) as [p|] eqn:EP; [|discriminate].
    destruct (digest (p_mhtype p) d) as [dg|] eqn:ED; [|discriminate].
    destruct (64 <? N.of_nat (length dg)) eqn:EL; [discriminate|].
    destruct (cid_new (p_version p) (p_codec p) (p_mhtype p) dg) as [c0|] eqn:EC; [|discriminate].
    intros H. inversion H; subst. split; [reflexivity|].
    pose proof (prefix_from_bytes_wf _ _ EP) as (Hv & _).
    apply cid_new_some in EC; [|exact Hv].
    destruct EC as (E1 & E2 & E3 & E4 & E5).
    exists p. rewrite E4. repeat split; try assumption; try congruence. lia.
  Qed.

  Lemma malformed_dropped :
    forall pb d, prefix_from_bytes pb = None -> block_to_response D digest pb d = None.
  Proof. intros pb d H. unfold block_to_response. rewrite H. reflexivity. Qed.

  Lemma uncomputable_dropped :
    forall pb d p, prefix_from_bytes pb = Some p -> digest (p_mhtype p) d = None ->
      block_to_response D digest pb d = None.
  Proof. intros pb d p H1 H2. unfold block_to_response. rewrite H1, H2. reflexivity. Qed.

  (* a block served by an honest peer under a representable CID is accepted under that CID *)
  Lemma honest_accepted :
    forall c d,
      cid_valid c -> c_codec c < U64_MOD -> c_code c < U64_MOD ->
      (length (c_digest c) <= 64)%nat ->
      digest (c_code c) d = Some (c_digest c) ->
      block_to_response D digest (prefix_to_bytes (prefix_of_cid c)) d = Some (c, d).
  Proof.
    intros [v codec code dg] d Hval Hc Ht Hl Hd.
    cbn [c_version c_codec c_code c_digest] in *.
    unfold block_to_response. rewrite prefix_roundtrip.
    - unfold prefix_of_cid. cbn [c_version c_codec c_code c_digest p_version p_codec p_mhtype p_mhlen].
      rewrite Hd. destruct (64 <? N.of_nat (length dg)) eqn:EL; [lia|].
      unfold cid_new. unfold cid_valid in Hval. cbn [c_version c_codec c_code c_digest] in Hval.
      destruct Hval as [(H1 & H2 & H3 & H4)|H1]; subst.
      + cbn. rewrite H4. reflexivity.
      + reflexivity.
    - unfold prefix_wf, prefix_of_cid. cbn [c_version c_codec c_code c_digest p_version p_codec p_mhtype p_mhlen].
      unfold cid_valid in Hval. cbn [c_version c_codec c_code c_digest] in Hval.
      repeat split; try assumption; lia.
  Qed.

  (* every entry of a Response event is a received payload entry, certified *)
  Lemma responses_certified :
    forall blocks c d,
      In (c, d) (responses D digest blocks) ->
      exists pb, In (pb, d) blocks /\ block_to_response D digest pb d = Some (c, d).
  Proof.
    intros blocks c d H. unfold responses in H. apply in_flat_map in H.
    destruct H as ([pb d0] & Hin & H). cbn [fst snd] in H.
    destruct (block_to_response D digest pb d0) as [[c1 d1]|] eqn:E; [|destruct H].
    destruct H as [H|[]]. inversion H; subst.
    pose proof (self_certifying _ _ _ _ E) as (Hd & _). subst.
    exists pb. split; assumption.
  Qed.
End ReceiveProofs.

(* ------------------------------------------------------------------ batching *)

Section BatchingProofs.
  Variable A : Type.
  Variable dlen : A -> N.
  Variable elen : A -> N.
  Variable mb : N.
  Variable mm : N.

  Notation fits := (fits A dlen elen mb mm).
  Notation drop_unfit := (drop_unfit A dlen elen mb mm).
  Notation take_batch := (take_batch A dlen elen mb mm).
  Notation extract_next_batch := (extract_next_batch A dlen elen mb mm).
  Notation batches := (batches A dlen elen mb mm).
  Notation all_batches := (all_batches A dlen elen mb mm).
  Notation message_len := (message_len A elen).
  Notation sendable := (sendable A elen mm).
  Notation sent_batches := (sent_batches A dlen elen mb mm).

  Definition dsum (b : list A) : N := sum (map dlen b).
  Definition esum (b : list A) : N := sum (map elen b).

  Lemma drop_unfit_spec :
    forall l, exists pre, l = pre ++ drop_unfit l /\ filter fits pre = [] /\
                          (length (drop_unfit l) <= length l)%nat.
  Proof.
    induction l as [|a t IH].
    - exists []. repeat split; cbn; lia.
    - cbn [Model.drop_unfit]. destruct (fits a) eqn:E.
      + exists []. repeat split; cbn; lia.
      + destruct IH as (pre & H1 & H2 & H3). exists (a :: pre). cbn [app filter length].
        rewrite E. repeat split; [f_equal; exact H1|exact H2|lia].
  Qed.

  Lemma drop_unfit_head :
    forall l a t, drop_unfit l = a :: t -> fits a = true.
  Proof.
    induction l as [|x l IH]; intros a t; cbn [Model.drop_unfit]; [discriminate|].
    destruct (fits x) eqn:E.
    - intros H. inversion H; subst. exact E.
    - apply IH.
  Qed.

  Lemma take_batch_spec :
    forall l tot msg b r,
      take_batch tot msg l = (b, r) ->
      EMPTY_MESSAGE_LEN <= msg ->
      l = b ++ r /\ (tot <= mb -> tot + dsum b <= mb) /\ (msg <= mm -> msg + esum b <= mm) /\
      Forall (fun a => fits a = true) b.
  Proof.
    induction l as [|a t IH]; intros tot msg b r H Hm; cbn [Model.take_batch] in H.
    - inversion H; subst. unfold dsum, esum. cbn. repeat split; try lia. constructor.
    - destruct ((mb <? tot + dlen a) || (mm <? msg + elen a)) eqn:E.
      + inversion H; subst. unfold dsum, esum. cbn. repeat split; try lia. constructor.
      + destruct (take_batch (tot + dlen a) (msg + elen a) t) as [b0 r0] eqn:ET.
        inversion H; subst.
        apply IH in ET; [|lia]. destruct ET as (E1 & E2 & E3 & E4).
        apply orb_false_iff in E. destruct E as [Ea Eb].
        unfold dsum, esum in *. cbn [map sum app].
        repeat split.
        * f_equal. exact E1.
        * intros _. specialize (E2 ltac:(lia)). lia.
        * intros _. specialize (E3 ltac:(lia)). lia.
        * constructor; [|exact E4]. unfold Model.fits. unfold EMPTY_MESSAGE_LEN in *. lia.
  Qed.

  Lemma take_batch_nonempty :
    forall a t, fits a = true -> exists b r, take_batch 0 EMPTY_MESSAGE_LEN (a :: t) = (a :: b, r).
  Proof.
    intros a t H. cbn [Model.take_batch]. unfold Model.fits in H.
    destruct ((mb <? 0 + dlen a) || (mm <? EMPTY_MESSAGE_LEN + elen a)) eqn:E; [lia|].
    destruct (take_batch (0 + dlen a) (EMPTY_MESSAGE_LEN + elen a) t) as [b r]. eauto.
  Qed.

  Lemma filter_fits_all : forall b, Forall (fun a => fits a = true) b -> filter fits b = b.
  Proof.
    induction b as [|a b IH]; intros H; [reflexivity|].
    inversion H; subst. cbn [filter]. rewrite H2. f_equal. apply IH. assumption.
  Qed.

  (* what one call of extract_next_batch does *)
  Lemma extract_spec :
    forall l b r, extract_next_batch l = Some (b, r) ->
      exists pre, l = pre ++ b ++ r /\ filter fits pre = [] /\ b <> [] /\
                  Forall (fun a => fits a = true) b /\ dsum b <= mb /\ message_len b <= mm.
  Proof.
    intros l b r. unfold Model.extract_next_batch.
    destruct (drop_unfit_spec l) as (pre & H1 & H2 & _).
    destruct (drop_unfit l) as [|a t] eqn:ED; [discriminate|].
    intros H.
    assert (HT : take_batch 0 EMPTY_MESSAGE_LEN (a :: t) = (b, r)) by congruence. clear H.
    pose proof (drop_unfit_head _ _ _ ED) as Hf.
    destruct (take_batch_nonempty a t Hf) as (b0 & r0 & HN).
    rewrite HN in HT. inversion HT; subst b r.
    apply take_batch_spec in HN; [|lia]. destruct HN as (E1 & E2 & E3 & E4).
    exists pre. repeat split.
    - rewrite H1. f_equal. exact E1.
    - exact H2.
    - discriminate.
    - exact E4.
    - specialize (E2 ltac:(lia)). lia.
    - unfold Model.message_len. unfold Model.fits in Hf. specialize (E3 ltac:(lia)).
      unfold esum in E3. lia.
  Qed.

  Lemma extract_none : forall l, extract_next_batch l = None -> filter fits l = [].
  Proof.
    intros l. unfold Model.extract_next_batch.
    destruct (drop_unfit_spec l) as (pre & H1 & H2 & _).
    destruct (drop_unfit l) eqn:ED; [|discriminate].
    intros _. rewrite H1, app_nil_r. exact H2.
  Qed.

  Lemma batches_partition_fuel :
    forall fuel l, (length l < fuel)%nat -> concat (batches fuel l) = filter fits l.
  Proof.
    induction fuel as [|f IH]; intros l Hl; [lia|].
    cbn [Model.batches].
    destruct (extract_next_batch l) as [[b r]|] eqn:E.
    - apply extract_spec in E. destruct E as (pre & E1 & E2 & E3 & E4 & _).
      cbn [concat]. rewrite IH.
      + rewrite E1, !filter_app, E2, (filter_fits_all b E4). reflexivity.
      + subst l. rewrite !app_length in Hl. destruct b; [congruence|]. cbn [length] in Hl. lia.
    - cbn [concat]. symmetry. apply extract_none. exact E.
  Qed.

  Lemma batches_partition : forall l, concat (all_batches l) = filter fits l.
  Proof. intros l. apply batches_partition_fuel. lia. Qed.

  Lemma batches_bounds_fuel :
    forall fuel l,
      Forall (fun b => b <> [] /\ dsum b <= mb /\ message_len b <= mm) (batches fuel l).
  Proof.
    induction fuel as [|f IH]; intros l; cbn [Model.batches]; [constructor|].
    destruct (extract_next_batch l) as [[b r]|] eqn:E; [|constructor].
    apply extract_spec in E. destruct E as (pre & _ & _ & E3 & _ & E5 & E6).
    constructor; [repeat split; assumption|apply IH].
  Qed.

  Lemma batches_bounds :
    forall l, Forall (fun b => b <> [] /\ dsum b <= mb /\ message_len b <= mm) (all_batches l).
  Proof. intros l. apply batches_bounds_fuel. Qed.

  (* the loop ends by itself: more iterations than length+1 change nothing *)
  Lemma batches_fuel_irrelevant :
    forall n m l, (length l < n)%nat -> (length l < m)%nat -> batches n l = batches m l.
  Proof.
    induction n as [|n IH]; intros m l Hn Hm; [lia|].
    destruct m as [|m]; [lia|]. cbn [Model.batches].
    destruct (extract_next_batch l) as [[b r]|] eqn:E; [|reflexivity].
    f_equal. apply extract_spec in E. destruct E as (pre & E1 & _ & E3 & _).
    assert (length r < length l)%nat.
    { subst l. rewrite !app_length. destruct b; [congruence|]. cbn [length]. lia. }
    apply IH; lia.
  Qed.

  Lemma loop_terminates :
    forall l n, (length l < n)%nat -> batches n l = all_batches l.
  Proof. intros l n H. apply batches_fuel_irrelevant; [exact H|lia]. Qed.

  Lemma sent_is_all : forall l, sent_batches l = all_batches l.
  Proof.
    intros l. unfold Model.sent_batches.
    pose proof (batches_bounds l) as H. induction H as [|b bs Hb _ IH]; [reflexivity|].
    cbn [filter]. destruct Hb as (H1 & _ & H3).
    unfold Model.sendable at 1. destruct b; [congruence|].
    destruct (message_len (a :: b) <=? mm) eqn:E; [|lia]. f_equal. exact IH.
  Qed.

  Lemma sent_partition : forall l, concat (sent_batches l) = filter fits l.
  Proof. intros l. rewrite sent_is_all. apply batches_partition. Qed.

  Lemma sent_bounds :
    forall l, Forall (fun b => b <> [] /\ dsum b <= mb /\ message_len b <= mm) (sent_batches l).
  Proof. intros l. rewrite sent_is_all. apply batches_bounds. Qed.

  (* greedy: a batch is closed only by the end of the queue or by a block that does not go in *)
  Lemma take_batch_maximal :
    forall l tot msg b r, take_batch tot msg l = (b, r) ->
      match r with
      | [] => True
      | a :: _ => mb < tot + dsum b + dlen a \/ mm < msg + esum b + elen a
      end.
  Proof.
    induction l as [|a t IH]; intros tot msg b r H; cbn [Model.take_batch] in H.
    - inversion H; subst. exact I.
    - destruct ((mb <? tot + dlen a) || (mm <? msg + elen a)) eqn:E.
      + inversion H; subst. unfold dsum, esum. cbn [map sum].
        apply orb_true_iff in E. lia.
      + destruct (take_batch (tot + dlen a) (msg + elen a) t) as [b0 r0] eqn:ET.
        inversion H; subst. apply IH in ET. destruct r; [exact I|].
        unfold dsum, esum in *. cbn [map sum]. lia.
  Qed.
End BatchingProofs.

(* ------------------------------------------------------------------ the shipped constants *)

Lemma entry_len_le : forall plen dlen, entry_len plen dlen <= 33 + plen + dlen.
Proof.
  intros plen dlen. unfold entry_len, field_len.
  pose proof (vlen_bounds plen). pose proof (vlen_bounds dlen).
  destruct (plen =? 0) eqn:E1; destruct (dlen =? 0) eqn:E2;
    match goal with |- context [vlen (?a + ?b)] => pose proof (vlen_bounds (a + b)) end; lia.
Qed.

Lemma sb_elen_le : forall b, sb_elen b <= 73 + sb_dlen b.
Proof.
  intros b. unfold sb_elen.
  pose proof (entry_len_le (N.of_nat (length (sb_prefix b))) (sb_dlen b)).
  pose proof (prefix_len_le (prefix_of_cid (sb_cid b))). unfold sb_prefix in *. lia.
Qed.

Lemma default_fits :
  forall b,
    fits sblock sb_dlen sb_elen Consts.BITSWAP_MAX_BATCH_SIZE Consts.BITSWAP_MAX_MESSAGE_SIZE b =
    (sb_dlen b <=? Consts.BITSWAP_MAX_BATCH_SIZE).
Proof.
  intros b. unfold fits. pose proof (sb_elen_le b) as H.
  unfold Consts.BITSWAP_MAX_BATCH_SIZE, Consts.BITSWAP_MAX_MESSAGE_SIZE, EMPTY_MESSAGE_LEN in *.
  destruct (sb_dlen b <=? 2097152) eqn:E; cbn [andb]; [|reflexivity].
  destruct (2 + sb_elen b <=? 4194304) eqn:E2; [reflexivity|lia].
Qed.

Lemma default_partition :
  forall l,
    concat (send_response_blocks Consts.BITSWAP_MAX_BATCH_SIZE Consts.BITSWAP_MAX_MESSAGE_SIZE l) =
    filter (fun b => sb_dlen b <=? Consts.BITSWAP_MAX_BATCH_SIZE) l.
Proof.
  intros l. unfold send_response_blocks. rewrite sent_partition.
  apply filter_ext. exact default_fits.
Qed.

(* Why the payload limit alone was not enough (F-C20a): a queue of blocks that fit a message
   one by one, whose data is within the batch limit, and whose encoding is too long. *)
Definition tiny_block : sblock := mkSB 0 (mkCid 1 85 18 (repeat 0 32%nat)) 0.

Lemma sum_repeat :
  forall (f : sblock -> N) a n, sum (map f (repeat a n)) = N.of_nat n * f a.
Proof.
  intros f a. induction n as [|n IH]; cbn [repeat map sum]; [lia|]. rewrite IH. lia.
Qed.

Lemma tiny_elen : sb_elen tiny_block = 8.
Proof. reflexivity. Qed.

Lemma payload_bound_insufficient :
  forall mb mm, 10 <= mm ->
    exists l : list sblock,
      Forall (fun b => fits sblock sb_dlen sb_elen mb mm b = true) l /\
      sum (map sb_dlen l) <= mb /\
      mm < message_len sblock sb_elen l.
Proof.
  intros mb mm H. exists (repeat tiny_block (S (N.to_nat mm))). split; [|split].
  - apply Forall_forall. intros x Hx. apply repeat_spec in Hx. subst x.
    unfold fits. rewrite tiny_elen. unfold EMPTY_MESSAGE_LEN.
    change (sb_dlen tiny_block) with 0. lia.
  - rewrite sum_repeat. change (sb_dlen tiny_block) with 0. lia.
  - unfold message_len. rewrite sum_repeat, tiny_elen. unfold EMPTY_MESSAGE_LEN. lia.
Qed.
