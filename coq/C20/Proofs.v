(* C20 — lemmas about Model.v. *)
From Coq Require Import List NArith Bool Lia ZifyBool ZifyNat ZifyN.
From V.gen Require Consts.
From V.C20 Require Import Model.
Import ListNotations.
Open Scope N_scope.

Arguments N.add : simpl never.
Arguments N.sub : simpl never.
Arguments N.mul : simpl never.
Arguments N.div : simpl never.
Arguments N.modulo : simpl never.
Arguments N.eqb : simpl never.
Arguments N.ltb : simpl never.
Arguments N.leb : simpl never.
Arguments N.of_nat : simpl never.

(* ------------------------------------------------------------------ varints *)

Fixpoint pow128 (k : nat) : N := match k with O => 1 | S j => 128 * pow128 j end.

Lemma lo7_mod : forall n, lo7 n = n mod 128.
Proof. intros n. unfold lo7. change 127 with (N.ones 7). rewrite N.land_ones. reflexivity. Qed.

Lemma hi7_div : forall n, hi7 n = n / 128.
Proof. intros n. unfold hi7. rewrite N.shiftr_div_pow2. reflexivity. Qed.

Lemma dec_enc_raw :
  forall fuel n first rest,
    n < pow128 (S fuel) -> (first = false -> n <> 0) ->
    varint_dec_raw first fuel (varint_enc_f fuel n ++ rest) = Some (n, rest).
Proof.
  induction fuel as [|f IH]; intros n first rest Hlt Hnz.
  - cbn [varint_enc_f]. cbn [pow128] in Hlt.
    destruct (n <? 128) eqn:E; [|lia].
    cbn [app varint_dec_raw]. rewrite E.
    destruct first; cbn [negb]; [rewrite andb_false_r; reflexivity|].
    destruct (n =? 0) eqn:Z; [specialize (Hnz eq_refl); lia|]. reflexivity.
  - cbn [varint_enc_f]. rewrite lo7_mod, hi7_div.
    destruct (n <? 128) eqn:E.
    + cbn [app varint_dec_raw]. rewrite E.
      destruct first; cbn [negb]; [rewrite andb_false_r; reflexivity|].
      destruct (n =? 0) eqn:Z; [specialize (Hnz eq_refl); lia|]. reflexivity.
    + cbn [app varint_dec_raw].
      assert (Hm : n mod 128 < 128) by (apply N.mod_lt; lia).
      destruct (128 + n mod 128 <? 128) eqn:E2; [lia|].
      rewrite (IH (n / 128) false rest).
      * f_equal. f_equal.
        pose proof (N.div_mod n 128 ltac:(lia)). lia.
      * change (pow128 (S (S f))) with (128 * pow128 (S f)) in Hlt.
        apply N.div_lt_upper_bound; lia.
      * intros _. pose proof (N.div_str_pos n 128). lia.
Qed.

Lemma pow128_10 : pow128 10 = 1180591620717411303424.
Proof. reflexivity. Qed.

Lemma varint_roundtrip :
  forall n rest, n < U64_MOD -> varint_dec (varint_enc n ++ rest) = Some (n, rest).
Proof.
  intros n rest H. unfold varint_dec, varint_enc.
  rewrite dec_enc_raw.
  - rewrite N.mod_small by exact H. reflexivity.
  - rewrite pow128_10. unfold U64_MOD in H. lia.
  - discriminate.
Qed.

Lemma varint_dec_lt :
  forall l v r, varint_dec l = Some (v, r) -> v < U64_MOD.
Proof.
  intros l v r. unfold varint_dec.
  destruct (varint_dec_raw true 9 l) as [[v0 r0]|]; [|discriminate].
  intros H. inversion H; subst. apply N.mod_lt. unfold U64_MOD. lia.
Qed.

Lemma enc_len_le : forall fuel n, (length (varint_enc_f fuel n) <= S fuel)%nat.
Proof.
  induction fuel as [|f IH]; intros n; cbn [varint_enc_f];
    destruct (n <? 128); cbn [length]; try lia.
  specialize (IH (hi7 n)). lia.
Qed.

Lemma enc_len_pos : forall fuel n, (1 <= length (varint_enc_f fuel n))%nat.
Proof.
  destruct fuel; intros n; cbn [varint_enc_f]; destruct (n <? 128); cbn [length]; lia.
Qed.

Lemma vlen_bounds : forall n, 1 <= vlen n <= 10.
Proof.
  intros n. unfold vlen, varint_enc.
  pose proof (enc_len_le 9 n). pose proof (enc_len_pos 9 n). lia.
Qed.

Lemma enc_len_mono :
  forall fuel x y, x <= y -> (length (varint_enc_f fuel x) <= length (varint_enc_f fuel y))%nat.
Proof.
  induction fuel as [|f IH]; intros x y H; cbn [varint_enc_f].
  - destruct (x <? 128); destruct (y <? 128); cbn [length]; lia.
  - destruct (x <? 128) eqn:Ex; destruct (y <? 128) eqn:Ey; cbn [length]; try lia.
    specialize (IH (hi7 x) (hi7 y) ltac:(rewrite !hi7_div; apply N.div_le_mono; lia)). lia.
Qed.

Lemma vlen_mono : forall x y, x <= y -> vlen x <= vlen y.
Proof. intros x y H. unfold vlen, varint_enc. pose proof (enc_len_mono 9 x y H). lia. Qed.

Lemma blk_mlen_mono : forall x y, x <= y -> blk_mlen x <= blk_mlen y.
Proof. intros x y H. unfold blk_mlen. lia. Qed.

Lemma req_mlen_mono : forall x y, x <= y -> req_mlen x <= req_mlen y.
Proof. intros x y H. unfold req_mlen. pose proof (vlen_mono x y H). lia. Qed.

(* ------------------------------------------------------------------ Prefix *)

Lemma prefix_codec :
  forall v c t n,
    v < U64_MOD -> c < U64_MOD -> t < U64_MOD -> n < U64_MOD ->
    prefix_from_bytes (varint_enc v ++ varint_enc c ++ varint_enc t ++ varint_enc n) =
    if (v <=? 1) && (n <=? 255) then Some (mkPrefix v c t n) else None.
Proof.
  intros v c t n Hv Hc Ht Hn. unfold prefix_from_bytes.
  rewrite varint_roundtrip by exact Hv.
  rewrite varint_roundtrip by exact Hc.
  rewrite varint_roundtrip by exact Ht.
  rewrite <- (app_nil_r (varint_enc n)).
  rewrite varint_roundtrip by exact Hn.
  reflexivity.
Qed.

Definition prefix_wf (p : prefix) : Prop :=
  p_version p <= 1 /\ p_codec p < U64_MOD /\ p_mhtype p < U64_MOD /\ p_mhlen p <= 255.

Lemma prefix_roundtrip :
  forall p, prefix_wf p -> prefix_from_bytes (prefix_to_bytes p) = Some p.
Proof.
  intros [v c t n] (Hv & Hc & Ht & Hn). cbn [p_version p_codec p_mhtype p_mhlen] in *.
  unfold prefix_to_bytes. cbn [p_version p_codec p_mhtype p_mhlen].
  rewrite prefix_codec; unfold U64_MOD in *; try lia.
  destruct (v <=? 1) eqn:E1; [|lia]. destruct (n <=? 255) eqn:E2; [|lia]. reflexivity.
Qed.

Lemma prefix_trailing_rejected :
  forall p x rest, prefix_wf p -> prefix_from_bytes (prefix_to_bytes p ++ x :: rest) = None.
Proof.
  intros [v c t n] x rest (Hv & Hc & Ht & Hn). cbn [p_version p_codec p_mhtype p_mhlen] in *.
  unfold prefix_to_bytes, prefix_from_bytes. cbn [p_version p_codec p_mhtype p_mhlen].
  rewrite <- !app_assoc.
  rewrite varint_roundtrip by (unfold U64_MOD; lia).
  rewrite varint_roundtrip by exact Hc.
  rewrite varint_roundtrip by exact Ht.
  rewrite varint_roundtrip by (unfold U64_MOD; lia).
  reflexivity.
Qed.

Lemma prefix_from_bytes_wf :
  forall l p, prefix_from_bytes l = Some p -> prefix_wf p.
Proof.
  intros l p. unfold prefix_from_bytes.
  destruct (varint_dec l) as [[v r1]|] eqn:E1; [|discriminate].
  destruct (varint_dec r1) as [[c r2]|] eqn:E2; [|discriminate].
  destruct (varint_dec r2) as [[t r3]|] eqn:E3; [|discriminate].
  destruct (varint_dec r3) as [[n r4]|] eqn:E4; [|discriminate].
  destruct r4; [|discriminate].
  destruct ((v <=? 1) && (n <=? 255)) eqn:E; [|discriminate].
  intros H. inversion H; subst. unfold prefix_wf. cbn [p_version p_codec p_mhtype p_mhlen].
  apply varint_dec_lt in E2. apply varint_dec_lt in E3.
  repeat split; try assumption; lia.
Qed.

Lemma prefix_len_le : forall p, (length (prefix_to_bytes p) <= 40)%nat.
Proof.
  intros p. unfold prefix_to_bytes, varint_enc. rewrite !app_length.
  pose proof (enc_len_le 9 (p_version p)). pose proof (enc_len_le 9 (p_codec p)).
  pose proof (enc_len_le 9 (p_mhtype p)). pose proof (enc_len_le 9 (p_mhlen p)). lia.
Qed.

(* ------------------------------------------------------------------ block_to_response *)

Section ReceiveProofs.
  Variable D : Type.
  Variable digest : N -> D -> option (list N).

  (* the CIDs the cid crate can represent for a digest *)
  Definition cid_valid (c : cid) : Prop :=
    (c_version c = 0 /\ c_codec c = DAG_PB /\ c_code c = SHA2_256 /\ length (c_digest c) = 32%nat)
    \/ c_version c = 1.

  Lemma cid_new_some :
    forall v codec code dg c, v <= 1 -> cid_new v codec code dg = Some c ->
      c_version c = v /\ c_codec c = codec /\ c_code c = code /\ c_digest c = dg /\ cid_valid c.
  Proof.
    intros v codec code dg c Hv. unfold cid_new, cid_valid.
    destruct (v =? 0) eqn:E0.
    - destruct (codec =? DAG_PB) eqn:E1; cbn [andb]; [|discriminate].
      destruct (code =? SHA2_256) eqn:E2; cbn [andb]; [|discriminate].
      destruct (N.of_nat (length dg) =? 32) eqn:E3; [|discriminate].
      intros H. inversion H; subst. cbn [c_version c_codec c_code c_digest].
      split; [lia|]. split; [lia|]. split; [reflexivity|]. split; [reflexivity|].
      left. split; [reflexivity|]. split; [reflexivity|]. split; lia.
    - intros H. inversion H; subst. cbn [c_version c_codec c_code c_digest].
      split; [reflexivity|]. split; [reflexivity|]. split; [reflexivity|]. split; [reflexivity|].
      right. lia.
  Qed.

  Lemma self_certifying :
    forall pb d c d',
      block_to_response D digest pb d = Some (c, d') ->
      d' = d /\
      exists p, prefix_from_bytes pb = Some p /\
                digest (p_mhtype p) d = Some (c_digest c) /\
                c_code c = p_mhtype p /\ c_version c = p_version p /\ c_codec c = p_codec p /\
                (length (c_digest c) <= 64)%nat /\ cid_valid c.
  Proof.
    intros pb d c d'. unfold block_to_response.
    destruct (prefix_from_bytes pb) as [p|] eqn:EP; [|discriminate].
    destruct (digest (p_mhtype p) d) as [dg|] eqn:ED; [|discriminate].
    destruct (64 <? N.of_nat (length dg)) eqn:EL; [discriminate|].
    destruct (cid_new (p_version p) (p_codec p) (p_mhtype p) dg) as [c0|] eqn:EC; [|discriminate].
    intros H. inversion H; subst. split; [reflexivity|].
    pose proof (prefix_from_bytes_wf _ _ EP) as (Hv & _).
    apply cid_new_some in EC; [|exact Hv].
    destruct EC as (E1 & E2 & E3 & E4 & E5).
    exists p. rewrite E4. repeat split; try assumption; try congruence. lia.
  Qed.

  Lemma malformed_dropped :
    forall pb d, prefix_from_bytes pb = None -> block_to_response D digest pb d = None.
  Proof. intros pb d H. unfold block_to_response. rewrite H. reflexivity. Qed.

  Lemma uncomputable_dropped :
    forall pb d p, prefix_from_bytes pb = Some p -> digest (p_mhtype p) d = None ->
      block_to_response D digest pb d = None.
  Proof. intros pb d p H1 H2. unfold block_to_response. rewrite H1, H2. reflexivity. Qed.

  (* a block served by an honest peer under a representable CID is accepted under that CID *)
  Lemma honest_accepted :
    forall c d,
      cid_valid c -> c_codec c < U64_MOD -> c_code c < U64_MOD ->
      (length (c_digest c) <= 64)%nat ->
      digest (c_code c) d = Some (c_digest c) ->
      block_to_response D digest (prefix_to_bytes (prefix_of_cid c)) d = Some (c, d).
  Proof.
    intros [v codec code dg] d Hval Hc Ht Hl Hd.
    cbn [c_version c_codec c_code c_digest] in *.
    unfold block_to_response. rewrite prefix_roundtrip.
    - unfold prefix_of_cid. cbn [c_version c_codec c_code c_digest p_version p_codec p_mhtype p_mhlen].
      rewrite Hd. destruct (64 <? N.of_nat (length dg)) eqn:EL; [lia|].
      unfold cid_new. unfold cid_valid in Hval. cbn [c_version c_codec c_code c_digest] in Hval.
      destruct Hval as [(H1 & H2 & H3 & H4)|H1]; subst.
      + cbn. rewrite H4. reflexivity.
      + reflexivity.
    - unfold prefix_wf, prefix_of_cid. cbn [c_version c_codec c_code c_digest p_version p_codec p_mhtype p_mhlen].
      unfold cid_valid in Hval. cbn [c_version c_codec c_code c_digest] in Hval.
      repeat split; try assumption; lia.
  Qed.

  (* every entry of a Response event is a received payload entry, certified *)
  Lemma responses_certified :
    forall blocks c d,
      In (c, d) (responses D digest blocks) ->
      exists pb, In (pb, d) blocks /\ block_to_response D digest pb d = Some (c, d).
  Proof.
    intros blocks c d H. unfold responses in H. apply in_flat_map in H.
    destruct H as ([pb d0] & Hin & H). cbn [fst snd] in H.
    destruct (block_to_response D digest pb d0) as [[c1 d1]|] eqn:E; [|destruct H].
    destruct H as [H|[]]. inversion H; subst.
    pose proof (self_certifying _ _ _ _ E) as (Hd & _). subst.
    exists pb. split; assumption.
  Qed.
End ReceiveProofs.

(* ------------------------------------------------------------------ batching *)

Section BatchingProofs.
  Variable A : Type.
  Variable dlen : A -> N.
  Variable elen : A -> N.
  Variable mlen : N -> N.
  Variable mb : N.
  Variable mm : N.
  (* a message does not get shorter when its entries take more bytes *)
  Hypothesis mlen_mono : forall x y, x <= y -> mlen x <= mlen y.

  Notation fits := (fits A dlen elen mlen mb mm).
  Notation drop_unfit := (drop_unfit A dlen elen mlen mb mm).
  Notation take_batch := (take_batch A dlen elen mlen mb mm).
  Notation extract_next_batch := (extract_next_batch A dlen elen mlen mb mm).
  Notation batches := (batches A dlen elen mlen mb mm).
  Notation all_batches := (all_batches A dlen elen mlen mb mm).
  Notation message_len := (message_len A elen mlen).
  Notation sendable := (sendable A elen mlen mm).
  Notation sent_batches := (sent_batches A dlen elen mlen mb mm).

  Definition dsum (b : list A) : N := sum (map dlen b).
  Definition esum (b : list A) : N := sum (map elen b).

  Lemma drop_unfit_spec :
    forall l, exists pre, l = pre ++ drop_unfit l /\ filter fits pre = [] /\
                          (length (drop_unfit l) <= length l)%nat.
  Proof.
    induction l as [|a t IH].
    - exists []. repeat split; cbn; lia.
    - cbn [Model.drop_unfit]. destruct (fits a) eqn:E.
      + exists []. repeat split; cbn; lia.
      + destruct IH as (pre & H1 & H2 & H3). exists (a :: pre). cbn [app filter length].
        rewrite E. repeat split; [f_equal; exact H1|exact H2|lia].
  Qed.

  Lemma drop_unfit_head :
    forall l a t, drop_unfit l = a :: t -> fits a = true.
  Proof.
    induction l as [|x l IH]; intros a t; cbn [Model.drop_unfit]; [discriminate|].
    destruct (fits x) eqn:E.
    - intros H. inversion H; subst. exact E.
    - apply IH.
  Qed.

  Lemma take_batch_spec :
    forall l tot acc b r,
      take_batch tot acc l = (b, r) ->
      l = b ++ r /\ (tot <= mb -> tot + dsum b <= mb) /\
      (b <> [] -> mlen (acc + esum b) <= mm) /\
      Forall (fun a => fits a = true) b.
  Proof.
    induction l as [|a t IH]; intros tot acc b r H; cbn [Model.take_batch] in H.
    - inversion H; subst. unfold dsum, esum. cbn. repeat split; try lia; try congruence. constructor.
    - destruct ((mb <? tot + dlen a) || (mm <? mlen (acc + elen a))) eqn:E.
      + inversion H; subst. unfold dsum, esum. cbn. repeat split; try lia; try congruence. constructor.
      + destruct (take_batch (tot + dlen a) (acc + elen a) t) as [b0 r0] eqn:ET.
        inversion H; subst.
        apply IH in ET. destruct ET as (E1 & E2 & E3 & E4).
        apply orb_false_iff in E. destruct E as [Ea Eb].
        unfold dsum, esum in *. cbn [map sum app].
        split; [f_equal; exact E1|]. split; [|split].
        * intros _. specialize (E2 ltac:(lia)). lia.
        * intros _. destruct b0 as [|x b0].
          -- cbn [map sum]. replace (acc + (elen a + 0)) with (acc + elen a) by lia. lia.
          -- specialize (E3 ltac:(discriminate)).
             replace (acc + (elen a + sum (map elen (x :: b0)))) with (acc + elen a + sum (map elen (x :: b0))) by lia.
             exact E3.
        * constructor; [|exact E4]. unfold Model.fits.
          pose proof (mlen_mono (elen a) (acc + elen a) ltac:(lia)). lia.
  Qed.

  Lemma take_batch_nonempty :
    forall a t, fits a = true -> exists b r, take_batch 0 0 (a :: t) = (a :: b, r).
  Proof.
    intros a t H. cbn [Model.take_batch]. unfold Model.fits in H.
    replace (0 + elen a) with (elen a) by lia.
    destruct ((mb <? 0 + dlen a) || (mm <? mlen (elen a))) eqn:E; [lia|].
    destruct (take_batch (0 + dlen a) (elen a) t) as [b r]. eauto.
  Qed.

  Lemma filter_fits_all : forall b, Forall (fun a => fits a = true) b -> filter fits b = b.
  Proof.
    induction b as [|a b IH]; intros H; [reflexivity|].
    inversion H; subst. cbn [filter]. rewrite H2. f_equal. apply IH. assumption.
  Qed.

  (* what one call of extract_next_batch does *)
  Lemma extract_spec :
    forall l b r, extract_next_batch l = Some (b, r) ->
      exists pre, l = pre ++ b ++ r /\ filter fits pre = [] /\ b <> [] /\
                  Forall (fun a => fits a = true) b /\ dsum b <= mb /\ message_len b <= mm.
  Proof.
    intros l b r. unfold Model.extract_next_batch.
    destruct (drop_unfit_spec l) as (pre & H1 & H2 & _).
    destruct (drop_unfit l) as [|a t] eqn:ED; [discriminate|].
    intros H.
    assert (HT : take_batch 0 0 (a :: t) = (b, r)) by congruence. clear H.
    pose proof (drop_unfit_head _ _ _ ED) as Hf.
    destruct (take_batch_nonempty a t Hf) as (b0 & r0 & HN).
    rewrite HN in HT. inversion HT; subst b r.
    apply take_batch_spec in HN. destruct HN as (E1 & E2 & E3 & E4).
    exists pre. repeat split.
    - rewrite H1. f_equal. exact E1.
    - exact H2.
    - discriminate.
    - exact E4.
    - specialize (E2 ltac:(lia)). lia.
    - unfold Model.message_len. specialize (E3 ltac:(discriminate)).
      unfold esum in E3. replace (0 + sum (map elen (a :: b0))) with (sum (map elen (a :: b0))) in E3 by lia.
      exact E3.
  Qed.

  Lemma extract_none : forall l, extract_next_batch l = None -> filter fits l = [].
  Proof.
    intros l. unfold Model.extract_next_batch.
    destruct (drop_unfit_spec l) as (pre & H1 & H2 & _).
    destruct (drop_unfit l) eqn:ED; [|discriminate].
    intros _. rewrite H1, app_nil_r. exact H2.
  Qed.

  Lemma batches_partition_fuel :
    forall fuel l, (length l < fuel)%nat -> concat (batches fuel l) = filter fits l.
  Proof.
    induction fuel as [|f IH]; intros l Hl; [lia|].
    cbn [Model.batches].
    destruct (extract_next_batch l) as [[b r]|] eqn:E.
    - apply extract_spec in E. destruct E as (pre & E1 & E2 & E3 & E4 & _).
      cbn [concat]. rewrite IH.
      + rewrite E1, !filter_app, E2, (filter_fits_all b E4). reflexivity.
      + subst l. rewrite !app_length in Hl. destruct b; [congruence|]. cbn [length] in Hl. lia.
    - cbn [concat]. symmetry. apply extract_none. exact E.
  Qed.

  Lemma batches_partition : forall l, concat (all_batches l) = filter fits l.
  Proof. intros l. apply batches_partition_fuel. lia. Qed.

  Lemma batches_bounds_fuel :
    forall fuel l,
      Forall (fun b => b <> [] /\ dsum b <= mb /\ message_len b <= mm) (batches fuel l).
  Proof.
    induction fuel as [|f IH]; intros l; cbn [Model.batches]; [constructor|].
    destruct (extract_next_batch l) as [[b r]|] eqn:E; [|constructor].
    apply extract_spec in E. destruct E as (pre & _ & _ & E3 & _ & E5 & E6).
    constructor; [repeat split; assumption|apply IH].
  Qed.

  Lemma batches_bounds :
    forall l, Forall (fun b => b <> [] /\ dsum b <= mb /\ message_len b <= mm) (all_batches l).
  Proof. intros l. apply batches_bounds_fuel. Qed.

  (* the loop ends by itself: more iterations than length+1 change nothing *)
  Lemma batches_fuel_irrelevant :
    forall n m l, (length l < n)%nat -> (length l < m)%nat -> batches n l = batches m l.
  Proof.
    induction n as [|n IH]; intros m l Hn Hm; [lia|].
    destruct m as [|m]; [lia|]. cbn [Model.batches].
    destruct (extract_next_batch l) as [[b r]|] eqn:E; [|reflexivity].
    f_equal. apply extract_spec in E. destruct E as (pre & E1 & _ & E3 & _).
    assert (length r < length l)%nat.
    { subst l. rewrite !app_length. destruct b; [congruence|]. cbn [length]. lia. }
    apply IH; lia.
  Qed.

  Lemma loop_terminates :
    forall l n, (length l < n)%nat -> batches n l = all_batches l.
  Proof. intros l n H. apply batches_fuel_irrelevant; [exact H|lia]. Qed.

  Lemma sent_is_all : forall l, sent_batches l = all_batches l.
  Proof.
    intros l. unfold Model.sent_batches.
    pose proof (batches_bounds l) as H. induction H as [|b bs Hb _ IH]; [reflexivity|].
    cbn [filter]. destruct Hb as (H1 & _ & H3).
    unfold Model.sendable at 1. destruct b; [congruence|].
    destruct (message_len (a :: b) <=? mm) eqn:E; [|lia]. f_equal. exact IH.
  Qed.

  Lemma sent_partition : forall l, concat (sent_batches l) = filter fits l.
  Proof. intros l. rewrite sent_is_all. apply batches_partition. Qed.

  Lemma sent_bounds :
    forall l, Forall (fun b => b <> [] /\ dsum b <= mb /\ message_len b <= mm) (sent_batches l).
  Proof. intros l. rewrite sent_is_all. apply batches_bounds. Qed.

  (* greedy: a batch is closed only by the end of the queue or by an entry that does not go in *)
  Lemma take_batch_maximal :
    forall l tot acc b r, take_batch tot acc l = (b, r) ->
      match r with
      | [] => True
      | a :: _ => mb < tot + dsum b + dlen a \/ mm < mlen (acc + esum b + elen a)
      end.
  Proof.
    induction l as [|a t IH]; intros tot acc b r H; cbn [Model.take_batch] in H.
    - inversion H; subst. exact I.
    - destruct ((mb <? tot + dlen a) || (mm <? mlen (acc + elen a))) eqn:E.
      + inversion H; subst. unfold dsum, esum. cbn [map sum].
        apply orb_true_iff in E. replace (acc + 0 + elen a) with (acc + elen a) by lia. lia.
      + destruct (take_batch (tot + dlen a) (acc + elen a) t) as [b0 r0] eqn:ET.
        inversion H; subst. apply IH in ET. destruct r as [|x r]; [exact I|].
        unfold dsum, esum in *. cbn [map sum].
        replace (tot + (dlen a + sum (map dlen b0)) + dlen x) with (tot + dlen a + sum (map dlen b0) + dlen x) by lia.
        replace (acc + (elen a + sum (map elen b0)) + elen x) with (acc + elen a + sum (map elen b0) + elen x) by lia.
        exact ET.
  Qed.

End BatchingProofs.

(* ------------------------------------------------------------------ the shipped constants *)

Lemma entry_len_le : forall plen dlen, entry_len plen dlen <= 33 + plen + dlen.
Proof.
  intros plen dlen. unfold entry_len, field_len.
  pose proof (vlen_bounds plen). pose proof (vlen_bounds dlen).
  destruct (plen =? 0) eqn:E1; destruct (dlen =? 0) eqn:E2;
    match goal with |- context [vlen (?a + ?b)] => pose proof (vlen_bounds (a + b)) end; lia.
Qed.

Lemma sb_elen_le : forall b, sb_elen b <= 73 + sb_dlen b.
Proof.
  intros b. unfold sb_elen.
  pose proof (entry_len_le (N.of_nat (length (sb_prefix b))) (sb_dlen b)).
  pose proof (prefix_len_le (prefix_of_cid (sb_cid b))). unfold sb_prefix in *. lia.
Qed.

Lemma default_fits :
  forall b,
    fits sblock sb_dlen sb_elen blk_mlen Consts.BITSWAP_MAX_BATCH_SIZE Consts.BITSWAP_MAX_MESSAGE_SIZE b =
    (sb_dlen b <=? Consts.BITSWAP_MAX_BATCH_SIZE).
Proof.
  intros b. unfold fits, blk_mlen. pose proof (sb_elen_le b) as H.
  unfold Consts.BITSWAP_MAX_BATCH_SIZE, Consts.BITSWAP_MAX_MESSAGE_SIZE, EMPTY_MESSAGE_LEN in *.
  destruct (sb_dlen b <=? 2097152) eqn:E; cbn [andb]; [|reflexivity].
  destruct (2 + sb_elen b <=? 4194304) eqn:E2; [reflexivity|lia].
Qed.

Lemma default_partition :
  forall l,
    concat (send_response_blocks Consts.BITSWAP_MAX_BATCH_SIZE Consts.BITSWAP_MAX_MESSAGE_SIZE l) =
    filter (fun b => sb_dlen b <=? Consts.BITSWAP_MAX_BATCH_SIZE) l.
Proof.
  intros l. unfold send_response_blocks. rewrite sent_partition by exact blk_mlen_mono.
  apply filter_ext. exact default_fits.
Qed.

(* Why the payload limit alone was not enough (F-C20a): a queue of blocks that fit a message
   one by one, whose data is within the batch limit, and whose encoding is too long. *)
Definition tiny_block : sblock := mkSB 0 (mkCid 1 85 18 (repeat 0 32%nat)) 0.

Lemma sum_repeat :
  forall (f : sblock -> N) a n, sum (map f (repeat a n)) = N.of_nat n * f a.
Proof.
  intros f a. induction n as [|n IH]; cbn [repeat map sum]; [lia|]. rewrite IH. lia.
Qed.

Lemma tiny_elen : sb_elen tiny_block = 8.
Proof. reflexivity. Qed.

Lemma payload_bound_insufficient :
  forall mb mm, 10 <= mm ->
    exists l : list sblock,
      Forall (fun b => fits sblock sb_dlen sb_elen blk_mlen mb mm b = true) l /\
      sum (map sb_dlen l) <= mb /\
      mm < message_len sblock sb_elen blk_mlen l.
Proof.
  intros mb mm H. exists (repeat tiny_block (S (N.to_nat mm))). split; [|split].
  - apply Forall_forall. intros x Hx. apply repeat_spec in Hx. subst x.
    unfold fits, blk_mlen. rewrite tiny_elen. unfold EMPTY_MESSAGE_LEN.
    change (sb_dlen tiny_block) with 0. lia.
  - rewrite sum_repeat. change (sb_dlen tiny_block) with 0. lia.
  - unfold message_len, blk_mlen. rewrite sum_repeat, tiny_elen. unfold EMPTY_MESSAGE_LEN. lia.
Qed.

(* ------------------------------------------------------------------ CID bytes *)

Definition cid_wf (c : cid) : Prop :=
  cid_valid c /\ c_codec c < U64_MOD /\ c_code c < U64_MOD /\ (length (c_digest c) <= 64)%nat.

Lemma take_exact_app :
  forall (dg rest : list N), take_exact (length dg) (dg ++ rest) = Some dg.
Proof.
  intros dg rest. unfold take_exact. rewrite app_length.
  destruct (Nat.leb (length dg) (length dg + length rest)) eqn:E.
  - f_equal. rewrite firstn_app, PeanoNat.Nat.sub_diag, firstn_all. cbn [firstn]. apply app_nil_r.
  - apply PeanoNat.Nat.leb_gt in E. lia.
Qed.

Lemma cid_roundtrip :
  forall c rest, cid_wf c -> cid_read_bytes (cid_to_bytes c ++ rest) = Some c.
Proof.
  intros [v codec code dg] rest (Hval & Hc & Ht & Hl).
  unfold cid_valid in Hval. cbn [c_version c_codec c_code c_digest] in *.
  unfold cid_to_bytes, multihash_bytes, cid_read_bytes. cbn [c_version c_codec c_code c_digest].
  destruct Hval as [(H1 & H2 & H3 & H4)|H1]; subst.
  - change (0 =? 0) with true. cbn iota. rewrite H4. rewrite <- !app_assoc.
    rewrite varint_roundtrip by (unfold SHA2_256, U64_MOD; lia).
    rewrite varint_roundtrip by (unfold U64_MOD; lia).
    change ((SHA2_256 =? 18) && (N.of_nat 32 =? 32)) with true. cbn iota.
    replace 32%nat with (length dg) by exact H4. rewrite take_exact_app. reflexivity.
  - change (1 =? 0) with false. cbn iota. rewrite <- !app_assoc.
    rewrite varint_roundtrip by (unfold U64_MOD; lia).
    rewrite varint_roundtrip by exact Hc.
    change (1 =? 18) with false. cbn [andb]. change (1 =? 1) with true. cbn iota.
    rewrite varint_roundtrip by exact Ht.
    rewrite varint_roundtrip by (unfold U64_MOD; lia).
    destruct (N.of_nat (length dg) <=? 64) eqn:E; [|lia].
    rewrite Nat2N.id, take_exact_app. reflexivity.
Qed.

Lemma take_exact_length : forall n l dg, take_exact n l = Some dg -> length dg = n.
Proof.
  intros n l dg. unfold take_exact. destruct (Nat.leb n (length l)) eqn:E; [|discriminate].
  intros H. inversion H; subst. apply PeanoNat.Nat.leb_le in E. apply firstn_length_le. exact E.
Qed.

(* every CID the parser returns is one the cid crate can represent *)
Lemma cid_read_bytes_wf : forall l c, cid_read_bytes l = Some c -> cid_wf c.
Proof.
  intros l c. unfold cid_read_bytes.
  destruct (varint_dec l) as [[v r1]|] eqn:E1; [|discriminate].
  destruct (varint_dec r1) as [[co r2]|] eqn:E2; [|discriminate].
  destruct ((v =? 18) && (co =? 32)) eqn:E0.
  - destruct (take_exact 32 r2) as [dg|] eqn:ET; [|discriminate].
    intros H. inversion H; subst. apply take_exact_length in ET.
    unfold cid_wf, cid_valid. cbn [c_version c_codec c_code c_digest].
    unfold DAG_PB, SHA2_256, U64_MOD. split; [left; repeat split; lia|repeat split; lia].
  - destruct (v =? 1) eqn:EV; [|discriminate].
    destruct (varint_dec r2) as [[code r3]|] eqn:E3; [|discriminate].
    destruct (varint_dec r3) as [[size r4]|] eqn:E4; [|discriminate].
    destruct (size <=? 64) eqn:ES; [|discriminate].
    destruct (take_exact (N.to_nat size) r4) as [dg|] eqn:ET; [|discriminate].
    intros H. inversion H; subst. apply take_exact_length in ET.
    apply varint_dec_lt in E2. apply varint_dec_lt in E3.
    unfold cid_wf, cid_valid. cbn [c_version c_codec c_code c_digest].
    split; [right; reflexivity|]. repeat split; try assumption; lia.
Qed.

(* ------------------------------------------------------------------ wantlists *)

Lemma entry_want_request :
  forall c w, cid_wf c -> entry_want (request_entry (c, w)) = Some (c, w).
Proof.
  intros c w H. unfold entry_want, request_entry. cbn [fst snd we_block we_wanttype].
  rewrite <- (app_nil_r (cid_to_bytes c)), cid_roundtrip by exact H.
  destruct w; reflexivity.
Qed.

Lemma request_roundtrip :
  forall cids, Forall (fun cw => cid_wf (fst cw)) cids ->
    inbound_wants (request_entries cids) = cids.
Proof.
  induction cids as [|[c w] t IH]; intros H; [reflexivity|].
  inversion H; subst. unfold inbound_wants, request_entries in *. cbn [map flat_map].
  rewrite entry_want_request by assumption. cbn [opt_list app]. f_equal. apply IH. assumption.
Qed.

Lemma inbound_wants_app :
  forall l1 l2, inbound_wants (l1 ++ l2) = inbound_wants l1 ++ inbound_wants l2.
Proof. intros. unfold inbound_wants. apply flat_map_app. Qed.

Lemma invalid_entry_ignored :
  forall l1 e l2, entry_want e = None ->
    inbound_wants (l1 ++ e :: l2) = inbound_wants (l1 ++ l2).
Proof.
  intros l1 e l2 H. rewrite !inbound_wants_app. f_equal.
  unfold inbound_wants. cbn [flat_map]. rewrite H. reflexivity.
Qed.

Lemma entry_want_spec :
  forall e c w, entry_want e = Some (c, w) ->
    cid_read_bytes (we_block e) = Some c /\ we_wanttype e = want_code w /\ cid_wf c.
Proof.
  intros e c w. unfold entry_want.
  destruct (cid_read_bytes (we_block e)) as [c0|] eqn:E; [|discriminate].
  pose proof (cid_read_bytes_wf _ _ E) as Hwf.
  destruct (we_wanttype e =? 0) eqn:E0.
  - intros H. inversion H; subst. cbn [want_code]. split; [reflexivity|]. split; [lia|exact Hwf].
  - destruct (we_wanttype e =? 1) eqn:E1; [|discriminate].
    intros H. inversion H; subst. cbn [want_code]. split; [reflexivity|]. split; [lia|exact Hwf].
Qed.

Lemma inbound_wants_in :
  forall es c w, In (c, w) (inbound_wants es) ->
    exists e, In e es /\ cid_read_bytes (we_block e) = Some c /\ we_wanttype e = want_code w /\ cid_wf c.
Proof.
  intros es c w H. unfold inbound_wants in H. apply in_flat_map in H.
  destruct H as (e & Hin & H). destruct (entry_want e) as [[c0 w0]|] eqn:E; [|destruct H].
  destruct H as [H|[]]. inversion H; subst. exists e. split; [exact Hin|].
  apply entry_want_spec. exact E.
Qed.

(* priority, cancel and sendDontHave play no role *)
Lemma entry_want_ignores :
  forall b t p1 c1 s1 p2 c2 s2,
    entry_want (mkWE b p1 c1 t s1) = entry_want (mkWE b p2 c2 t s2).
Proof. reflexivity. Qed.

Lemma presence_roundtrip :
  forall c p, cid_wf c -> presence_of (cid_to_bytes c, presence_code p) = Some (c, p).
Proof.
  intros c p H. unfold presence_of. cbn [fst snd].
  rewrite <- (app_nil_r (cid_to_bytes c)), cid_roundtrip by exact H.
  destruct p; reflexivity.
Qed.

(* ------------------------------------------------------------------ whole messages *)

Section MessageProofs.
  Variable D : Type.
  Variable digest : N -> D -> option (list N).

  Notation msg_events := (msg_events D digest).
  Notation msg_responses := (msg_responses D digest).
  Notation inbound_events := (inbound_events D digest).
  Notation session_events := (session_events D digest).
  Notation event_blocks := (event_blocks D).

  Lemma msg_event_blocks :
    forall m, flat_map event_blocks (msg_events m) = responses D digest (m_payload m).
  Proof.
    intros m. unfold Model.msg_events. rewrite flat_map_app.
    assert (H1 : flat_map event_blocks
                   match m_wantlist m with
                   | Some es => match inbound_wants es with [] => [] | ws => [ERequest ws] end
                   | None => []
                   end = []).
    { destruct (m_wantlist m) as [es|]; [|reflexivity].
      destruct (inbound_wants es); reflexivity. }
    rewrite H1. cbn [app].
    assert (H2 : flat_map event_blocks
                   match msg_responses m with [] => [] | rs => [EResponse rs] end =
                 flat_map (fun r => match r with RBlock c d => [(c, d)] | RPresence _ _ => [] end)
                          (msg_responses m)).
    { destruct (msg_responses m) as [|r rs]; [reflexivity|].
      cbn [flat_map Model.event_blocks]. apply app_nil_r. }
    rewrite H2. unfold Model.msg_responses. rewrite flat_map_app.
    assert (H3 : forall ps, flat_map (fun r : response D => match r with RBlock c d => [(c, d)] | RPresence _ _ => [] end)
                   (flat_map (fun cp => match presence_of cp with
                                        | Some (c, p) => [RPresence c p]
                                        | None => []
                                        end) ps) = []).
    { induction ps as [|cp ps IH]; [reflexivity|]. cbn [flat_map]. rewrite flat_map_app, IH.
      destruct (presence_of cp) as [[c p]|]; reflexivity. }
    rewrite H3, app_nil_r.
    induction (responses D digest (m_payload m)) as [|[c d] t IH]; [reflexivity|].
    cbn [map flat_map fst snd app]. f_equal. exact IH.
  Qed.

  Lemma msg_blocks_certified :
    forall m c d, In (c, d) (flat_map event_blocks (msg_events m)) ->
      exists pb, In (pb, d) (m_payload m) /\ block_to_response D digest pb d = Some (c, d).
  Proof. intros m c d H. rewrite msg_event_blocks in H. apply responses_certified. exact H. Qed.

  Lemma inbound_frames :
    forall ms, inbound_events (map IFrame ms) = flat_map msg_events ms.
  Proof.
    induction ms as [|m t IH]; [reflexivity|]. cbn [map Model.inbound_events flat_map]. f_equal. exact IH.
  Qed.

  (* no partial delivery: whatever ends the substream contributes nothing, and nothing after it
     is read *)
  Lemma inbound_no_partial :
    forall ms rest, inbound_events (map IFrame ms ++ IBad :: rest) = flat_map msg_events ms.
  Proof.
    induction ms as [|m t IH]; intros rest; [reflexivity|].
    cbn [map app Model.inbound_events flat_map]. f_equal. apply IH.
  Qed.

  Lemma session_event_blocks_in :
    forall ops c d, In (c, d) (flat_map event_blocks (session_events ops)) ->
      exists m, In (SIncoming m) ops /\ In (c, d) (flat_map event_blocks (msg_events m)).
  Proof.
    induction ops as [|o t IH]; intros c d H; [destruct H|].
    unfold Model.session_events in H. cbn [flat_map] in H. rewrite flat_map_app in H.
    apply in_app_or in H. destruct H as [H|H].
    - destruct o as [cids|m]; [destruct H|]. exists m. split; [left; reflexivity|exact H].
    - destruct (IH c d H) as (m & Hin & Hb). exists m. split; [right; exact Hin|exact Hb].
  Qed.

  (* whatever was asked, whoever answers, in whatever order: every block handed to the user
     hashes to the CID it is reported under *)
  Lemma session_blocks_certified :
    forall ops c d, In (c, d) (flat_map event_blocks (session_events ops)) ->
      digest (c_code c) d = Some (c_digest c) /\ cid_valid c /\ (length (c_digest c) <= 64)%nat.
  Proof.
    intros ops c d H. apply session_event_blocks_in in H. destruct H as (m & _ & H).
    apply msg_blocks_certified in H. destruct H as (pb & _ & H).
    apply self_certifying in H. destruct H as (_ & p & _ & Hd & Hc & _ & _ & Hl & Hv).
    rewrite Hc. repeat split; assumption.
  Qed.

  (* ---- the client with a want set ---- *)

  Lemma nlist_eqb_spec :
    forall x y : list N,
      (fix eqb (x y : list N) : bool :=
         match x, y with
         | [], [] => true
         | p :: x', q :: y' => (p =? q) && eqb x' y'
         | _, _ => false
         end) x y = true <-> x = y.
  Proof.
    induction x as [|p x IH]; destruct y as [|q y]; split; intros H; try reflexivity; try discriminate.
    - apply andb_true_iff in H. destruct H as [H1 H2]. apply IH in H2. f_equal; [lia|exact H2].
    - inversion H; subst. apply andb_true_iff. split; [lia|]. apply IH. reflexivity.
  Qed.

  Lemma cid_eqb_spec : forall a b, cid_eqb a b = true <-> a = b.
  Proof.
    intros [v1 c1 t1 d1] [v2 c2 t2 d2]. unfold cid_eqb. cbn [c_version c_codec c_code c_digest].
    rewrite !andb_true_iff, nlist_eqb_spec. split.
    - intros (((H1 & H2) & H3) & H4). f_equal; try lia. exact H4.
    - intros H. inversion H; subst. repeat split; lia.
  Qed.

  Lemma cid_eqb_refl : forall a, cid_eqb a a = true.
  Proof. intros a. apply cid_eqb_spec. reflexivity. Qed.

  Lemma cid_mem_spec : forall c l, cid_mem c l = true <-> In c l.
  Proof.
    intros c l. unfold cid_mem. rewrite existsb_exists. split.
    - intros (x & Hin & H). apply cid_eqb_spec in H. subst. exact Hin.
    - intros H. exists c. split; [exact H|apply cid_eqb_refl].
  Qed.

  Lemma cid_remove_in : forall c x l, In x (cid_remove c l) <-> In x l /\ x <> c.
  Proof.
    intros c x l. unfold cid_remove. rewrite filter_In. split; intros (H1 & H2); split; try exact H1.
    - intros E. subst. rewrite cid_eqb_refl in H2. discriminate.
    - destruct (cid_eqb c x) eqn:E; [|reflexivity]. apply cid_eqb_spec in E. congruence.
  Qed.

  Definition cnt (c : cid) (l : list (cid * D)) : nat :=
    length (filter (fun x => cid_eqb c (fst x)) l).

  Lemma cnt_app : forall c l1 l2, cnt c (l1 ++ l2) = (cnt c l1 + cnt c l2)%nat.
  Proof. intros. unfold cnt. rewrite filter_app, app_length. reflexivity. Qed.

  Definition memn (c : cid) (l : list cid) : nat := if cid_mem c l then 1%nat else 0%nat.

  Lemma accept_blocks_spec :
    forall bs want w acc,
      accept_blocks D want bs = (w, acc) ->
      (forall x, In x acc -> In x bs /\ In (fst x) want) /\
      (forall c, In c w -> In c want) /\
      (forall c, (cnt c acc + memn c w <= memn c want)%nat).
  Proof.
    induction bs as [|[c0 d0] t IH]; intros want w acc H; cbn [accept_blocks] in H.
    - inversion H; subst. split; [|split].
      + intros x [].
      + intros c Hc. exact Hc.
      + intros c. unfold cnt. cbn [filter length]. lia.
    - destruct (cid_mem c0 want) eqn:EM.
      + destruct (accept_blocks D (cid_remove c0 want) t) as [w1 acc1] eqn:ER.
        inversion H; subst. apply IH in ER. destruct ER as (A1 & A2 & A3).
        apply cid_mem_spec in EM. split; [|split].
        * intros x [Hx|Hx].
          -- subst x. split; [left; reflexivity|exact EM].
          -- apply A1 in Hx. destruct Hx as (Hx1 & Hx2). split; [right; exact Hx1|].
             apply cid_remove_in in Hx2. tauto.
        * intros c Hc. apply A2 in Hc. apply cid_remove_in in Hc. tauto.
        * intros c. specialize (A3 c). unfold cnt in *. cbn [filter fst].
          destruct (cid_eqb c c0) eqn:EC.
          -- apply cid_eqb_spec in EC. subst c0.
             assert (HM : memn c (cid_remove c want) = 0%nat).
             { unfold memn. destruct (cid_mem c (cid_remove c want)) eqn:E; [|reflexivity].
               apply cid_mem_spec, cid_remove_in in E. tauto. }
             assert (HW : memn c want = 1%nat).
             { unfold memn. destruct (cid_mem c want) eqn:E; [reflexivity|].
               apply cid_mem_spec in EM. congruence. }
             cbn [length]. lia.
          -- assert (HM : memn c (cid_remove c0 want) = memn c want).
             { unfold memn.
               destruct (cid_mem c want) eqn:E1; destruct (cid_mem c (cid_remove c0 want)) eqn:E2;
                 try reflexivity.
               - apply cid_mem_spec in E1.
                 assert (HI : In c (cid_remove c0 want)).
                 { apply cid_remove_in. split; [exact E1|]. intros X. subst.
                   rewrite cid_eqb_refl in EC. discriminate. }
                 apply cid_mem_spec in HI. congruence.
               - apply cid_mem_spec, cid_remove_in in E2. destruct E2 as (E2 & _).
                 apply cid_mem_spec in E2. congruence. }
             lia.
      + apply IH in H. destruct H as (A1 & A2 & A3). split; [|split].
        * intros x Hx. apply A1 in Hx. destruct Hx as (Hx1 & Hx2). split; [right; exact Hx1|exact Hx2].
        * exact A2.
        * exact A3.
  Qed.

  Notation client_run := (client_run D digest).

  (* only requested, and certified: an accepted block was asked for before the message that
     carried it arrived, it is in that message, and it hashes to its CID *)
  Lemma client_only_requested :
    forall ops want c d,
      In (c, d) (client_run want ops) ->
      exists o1 m o2,
        ops = o1 ++ SIncoming m :: o2 /\
        (In c want \/ In c (requested D o1)) /\
        In (c, d) (flat_map event_blocks (msg_events m)) /\
        digest (c_code c) d = Some (c_digest c).
  Proof.
    induction ops as [|o t IH]; intros want c d H; [destruct H|].
    destruct o as [cids|m]; cbn [Model.client_run] in H.
    - apply IH in H. destruct H as (o1 & m & o2 & E & Hw & Hb & Hd).
      exists (SRequest cids :: o1), m, o2. subst t. split; [reflexivity|]. split; [|split; assumption].
      unfold requested. cbn [flat_map]. destruct Hw as [Hw|Hw].
      + apply in_app_or in Hw. destruct Hw as [Hw|Hw]; [left; exact Hw|].
        right. apply in_or_app. left. exact Hw.
      + right. apply in_or_app. right. exact Hw.
    - destruct (accept_blocks D want (flat_map event_blocks (msg_events m))) as [w acc] eqn:EA.
      apply accept_blocks_spec in EA. destruct EA as (A1 & A2 & _).
      apply in_app_or in H. destruct H as [H|H].
      + apply A1 in H. destruct H as (Hb & Hw). cbn [fst] in Hw.
        exists [], m, t. split; [reflexivity|]. split; [left; exact Hw|]. split; [exact Hb|].
        apply msg_blocks_certified in Hb. destruct Hb as (pb & _ & Hb).
        apply self_certifying in Hb. destruct Hb as (_ & p & _ & Hd & Hc & _). rewrite Hc. exact Hd.
      + apply IH in H. destruct H as (o1 & m0 & o2 & E & Hw & Hb & Hd).
        exists (SIncoming m :: o1), m0, o2. subst t. split; [reflexivity|]. split; [|split; assumption].
        destruct Hw as [Hw|Hw]; [left; apply A2; exact Hw|right; exact Hw].
  Qed.

  Definition req_count (c : cid) (ops : list (sess_op D)) : nat :=
    length (filter (fun o => match o with
                             | SRequest cids => cid_mem c (map fst cids)
                             | SIncoming _ => false
                             end) ops).

  Lemma memn_app : forall c l1 l2, (memn c (l1 ++ l2) <= memn c l1 + memn c l2)%nat.
  Proof.
    intros c l1 l2. unfold memn.
    destruct (cid_mem c (l1 ++ l2)) eqn:E; [|lia].
    apply cid_mem_spec, in_app_or in E. destruct E as [E|E]; apply cid_mem_spec in E; rewrite E; lia.
  Qed.

  (* at most once per request: a CID is accepted no more often than it was asked for *)
  Lemma client_no_duplicates :
    forall ops want c, (cnt c (client_run want ops) <= memn c want + req_count c ops)%nat.
  Proof.
    induction ops as [|o t IH]; intros want c; [cbn; lia|].
    destruct o as [cids|m]; cbn [Model.client_run].
    - specialize (IH (want ++ map fst cids) c). pose proof (memn_app c want (map fst cids)) as HA.
      unfold req_count in *. cbn [filter]. unfold memn in HA at 3.
      destruct (cid_mem c (map fst cids)); cbn [length]; lia.
    - destruct (accept_blocks D want (flat_map event_blocks (msg_events m))) as [w acc] eqn:EA.
      apply accept_blocks_spec in EA. destruct EA as (_ & _ & A3).
      rewrite cnt_app. specialize (IH w c). specialize (A3 c).
      unfold req_count in *. cbn [filter]. lia.
  Qed.
End MessageProofs.

(* the bare events are not filtered: a block nobody asked for is delivered, and delivered again
   when it arrives again *)
Definition demo_digest (code : N) (d : N) : option (list N) :=
  if code =? 18 then Some (repeat d 32%nat) else None.
Definition demo_msg : message N := mkMsg None [([1; 85; 18; 32], 7)] [].
Definition demo_cid : cid := mkCid 1 85 18 (repeat 7 32%nat).

Lemma unsolicited_delivered :
  exists ops : list (sess_op N),
    requested N ops = [] /\
    In (demo_cid, 7) (flat_map (event_blocks N) (session_events N demo_digest ops)).
Proof. exists [SIncoming demo_msg]. split; [reflexivity|]. vm_compute. left. reflexivity. Qed.

Lemma duplicate_delivered :
  exists ops : list (sess_op N),
    requested N ops = [demo_cid] /\
    flat_map (event_blocks N) (session_events N demo_digest ops) = [(demo_cid, 7); (demo_cid, 7)].
Proof.
  exists [SRequest [(demo_cid, WBlock)]; SIncoming demo_msg; SIncoming demo_msg].
  split; vm_compute; reflexivity.
Qed.

(* ------------------------------------------------------------------ presences *)

Lemma cid_bytes_len_le : forall c, (length (cid_to_bytes c) <= 40 + length (c_digest c))%nat.
Proof.
  intros c. unfold cid_to_bytes, multihash_bytes, varint_enc.
  pose proof (enc_len_le 9 (c_version c)). pose proof (enc_len_le 9 (c_codec c)).
  pose proof (enc_len_le 9 (c_code c)). pose proof (enc_len_le 9 (N.of_nat (length (c_digest c)))).
  destruct (c_version c =? 0); rewrite !app_length; lia.
Qed.

Lemma presence_elen_le : forall cidlen t, presence_elen cidlen t <= 24 + cidlen.
Proof.
  intros cidlen t. unfold presence_elen, field_len.
  pose proof (vlen_bounds cidlen).
  destruct (cidlen =? 0); destruct (t =? 0);
    match goal with |- context [vlen (?a + ?b)] => pose proof (vlen_bounds (a + b)) end; lia.
Qed.

Lemma default_presence_fits :
  forall p, (length (c_digest (sp_cid p)) <= 64)%nat ->
    fits spres (fun _ => 0) sp_elen blk_mlen 0 Consts.BITSWAP_MAX_MESSAGE_SIZE p = true.
Proof.
  intros p H. unfold fits, blk_mlen, sp_elen.
  pose proof (presence_elen_le (N.of_nat (length (cid_to_bytes (sp_cid p)))) (presence_code (sp_type p))).
  pose proof (cid_bytes_len_le (sp_cid p)).
  unfold Consts.BITSWAP_MAX_MESSAGE_SIZE, EMPTY_MESSAGE_LEN in *. cbn [andb N.leb]. lia.
Qed.

Lemma filter_all_true :
  forall {X} (f : X -> bool) l, Forall (fun x => f x = true) l -> filter f l = l.
Proof.
  intros X f l H. induction H as [|x l Hx _ IH]; [reflexivity|]. cbn [filter]. rewrite Hx, IH. reflexivity.
Qed.

Lemma default_presences_all_sent :
  forall l, Forall (fun p => (length (c_digest (sp_cid p)) <= 64)%nat) l ->
    concat (send_response_presences Consts.BITSWAP_MAX_MESSAGE_SIZE l) = l.
Proof.
  intros l H. unfold send_response_presences. rewrite sent_partition by exact blk_mlen_mono.
  apply filter_all_true. eapply Forall_impl; [|exact H]. intros p Hp. apply default_presence_fits. exact Hp.
Qed.

(* F-C20b: one unsplit presence message cannot respect a size limit *)
Definition tiny_presence : spres := mkSP 0 (mkCid 1 85 18 (repeat 0 32%nat)) PHave.

Lemma tiny_presence_elen : sp_elen tiny_presence = 40.
Proof. reflexivity. Qed.

Lemma sum_repeat_gen :
  forall {X} (f : X -> N) a n, sum (map f (repeat a n)) = N.of_nat n * f a.
Proof.
  intros X f a. induction n as [|n IH]; cbn [repeat map sum]; [lia|]. rewrite IH. lia.
Qed.

Lemma unsplit_presences_insufficient :
  forall mm, 42 <= mm ->
    exists l : list spres,
      Forall (fun p => fits spres (fun _ => 0) sp_elen blk_mlen 0 mm p = true) l /\
      mm < message_len spres sp_elen blk_mlen l.
Proof.
  intros mm H. exists (repeat tiny_presence (S (N.to_nat mm))). split.
  - apply Forall_forall. intros x Hx. apply repeat_spec in Hx. subst x.
    unfold fits, blk_mlen. rewrite tiny_presence_elen. unfold EMPTY_MESSAGE_LEN. cbn [andb N.leb]. lia.
  - unfold message_len, blk_mlen. rewrite sum_repeat_gen, tiny_presence_elen. unfold EMPTY_MESSAGE_LEN. lia.
Qed.

(* ------------------------------------------------------------------ writing to substreams *)

Lemma write_msgs_spec :
  forall mm ms c done part c' ok,
    write_msgs mm c ms = (done, part, c', ok) ->
    exists rest,
      ms = done ++ rest /\
      (ok = true -> rest = [] /\ part = 0) /\
      (ok = false -> rest <> []) /\
      Forall (fun m => omsg_len m <= mm) done.
Proof.
  induction ms as [|m t IH]; intros c done part c' ok H; cbn [write_msgs] in H.
  - inversion H; subst. exists []. repeat split; try reflexivity; try discriminate. constructor.
  - destruct (mm <? omsg_len m) eqn:EL.
    + inversion H; subst. exists (m :: t). repeat split; try discriminate. constructor.
    + destruct c as [b|].
      * destruct (frame_len m <=? b) eqn:EB.
        -- destruct (write_msgs mm (Some (b - frame_len m)) t) as [[[d1 p1] c1] o1] eqn:ER.
           inversion H; subst. apply IH in ER. destruct ER as (rest & E1 & E2 & E3 & E4).
           exists rest. split; [cbn [app]; f_equal; exact E1|]. split; [exact E2|]. split; [exact E3|].
           constructor; [lia|exact E4].
        -- inversion H; subst. exists (m :: t). repeat split; try discriminate. constructor.
      * destruct (write_msgs mm None t) as [[[d1 p1] c1] o1] eqn:ER.
        inversion H; subst. apply IH in ER. destruct ER as (rest & E1 & E2 & E3 & E4).
        exists rest. split; [cbn [app]; f_equal; exact E1|]. split; [exact E2|]. split; [exact E3|].
        constructor; [lia|exact E4].
Qed.

(* a substream that takes everything gets every message that respects the codec limit *)
Lemma write_msgs_healthy :
  forall mm ms, Forall (fun m => omsg_len m <= mm) ms -> write_msgs mm None ms = (ms, 0, None, true).
Proof.
  induction ms as [|m t IH]; intros H; [reflexivity|]. inversion H; subst.
  cbn [write_msgs]. destruct (mm <? omsg_len m) eqn:E; [lia|]. rewrite IH by assumption. reflexivity.
Qed.

Definition omsg_blocks (m : omsg) : list sblock := match m with OBlocks l => l | _ => [] end.
Definition omsg_presences (m : omsg) : list spres := match m with OPresences l => l | _ => [] end.

Lemma response_msgs_within_limit :
  forall mb mm ps bs, Forall (fun m => omsg_len m <= mm) (action_msgs mb mm (AResponse ps bs)).
Proof.
  intros mb mm ps bs. cbn [action_msgs]. apply Forall_app. split; apply Forall_forall; intros m Hm;
    apply in_map_iff in Hm; destruct Hm as (l & E & Hl); subst m; cbn [omsg_len].
  - unfold send_response_presences in Hl.
    pose proof (sent_bounds spres (fun _ => 0) sp_elen blk_mlen 0 mm blk_mlen_mono ps) as HB.
    rewrite Forall_forall in HB. apply HB in Hl. tauto.
  - unfold send_response_blocks in Hl.
    pose proof (sent_bounds sblock sb_dlen sb_elen blk_mlen mb mm blk_mlen_mono bs) as HB.
    rewrite Forall_forall in HB. apply HB in Hl. tauto.
Qed.

Lemma flat_map_map_id :
  forall {X Y} (f : X -> Y) (g : Y -> list X), (forall x, g (f x) = [x]) ->
    forall l, flat_map g (map f l) = l.
Proof.
  intros X Y f g H. induction l as [|x l IH]; [reflexivity|]. cbn [map flat_map]. rewrite H, IH. reflexivity.
Qed.

Lemma flat_map_map_nil :
  forall {X Y Z} (f : X -> Y) (g : Y -> list Z), (forall x, g (f x) = []) ->
    forall l, flat_map g (map f l) = [].
Proof.
  intros X Y Z f g H. induction l as [|x l IH]; [reflexivity|]. cbn [map flat_map]. rewrite H, IH. reflexivity.
Qed.

Lemma flat_map_concat_map :
  forall {X Y} (g : X -> list Y) l, flat_map g l = concat (map g l).
Proof. intros. induction l as [|x l IH]; [reflexivity|]. cbn [flat_map map concat]. rewrite IH. reflexivity. Qed.

(* the messages of a response carry, in order, exactly the presences and exactly the blocks that
   fit a message *)
Lemma response_lossless :
  forall mb mm ps bs,
    flat_map omsg_presences (action_msgs mb mm (AResponse ps bs)) =
      filter (fits spres (fun _ => 0) sp_elen blk_mlen 0 mm) ps /\
    flat_map omsg_blocks (action_msgs mb mm (AResponse ps bs)) =
      filter (fits sblock sb_dlen sb_elen blk_mlen mb mm) bs.
Proof.
  intros mb mm ps bs. cbn [action_msgs]. rewrite !flat_map_app. split.
  - rewrite (flat_map_map_nil OBlocks omsg_presences) by reflexivity. rewrite app_nil_r.
    rewrite flat_map_concat_map, map_map. cbn [omsg_presences]. rewrite map_id.
    unfold send_response_presences. apply sent_partition. exact blk_mlen_mono.
  - rewrite (flat_map_map_nil OPresences omsg_blocks) by reflexivity. cbn [app].
    rewrite flat_map_concat_map, map_map. cbn [omsg_blocks]. rewrite map_id.
    unfold send_response_blocks. apply sent_partition. exact blk_mlen_mono.
Qed.

(* over a substream that takes everything the whole response goes out *)
Lemma response_written_healthy :
  forall mb mm ps bs,
    write_msgs mm None (action_msgs mb mm (AResponse ps bs)) =
    (action_msgs mb mm (AResponse ps bs), 0, None, true).
Proof. intros. apply write_msgs_healthy. apply response_msgs_within_limit. Qed.

(* Sender failure composed with the receiver: whatever the sender managed to write before the
   substream stalled or failed — complete frames and a piece of the next one — a receiver that
   decodes frame m as (rx m) delivers exactly the events of the complete frames. *)
Lemma sender_failure_no_partial_delivery :
  forall (D : Type) (digest : N -> D -> option (list N)) (rx : omsg -> message D)
         mm c ms done part c' ok rest,
    write_msgs mm c ms = (done, part, c', ok) ->
    inbound_events D digest (map (fun m => IFrame (rx m)) done ++ IBad :: rest) =
      flat_map (fun m => msg_events D digest (rx m)) done /\
    exists tail, ms = done ++ tail.
Proof.
  intros D digest rx mm c ms done part c' ok rest H. split.
  - rewrite <- (map_map rx IFrame). rewrite inbound_no_partial.
    rewrite flat_map_concat_map, map_map, <- flat_map_concat_map. reflexivity.
  - apply write_msgs_spec in H. destruct H as (tail & E & _). exists tail. exact E.
Qed.

(* ------------------------------------------------------------------ requests: one message, whatever its size *)

(* send_request builds ONE message with all wants *)
Lemma request_single_message :
  forall mb mm cids,
    action_msgs mb mm (ARequest cids) = [ORequest cids] /\ omsg_len (ORequest cids) = request_len cids.
Proof. intros. split; reflexivity. Qed.

(* an empty request is a message with an empty wantlist, two bytes *)
Lemma request_empty_len : request_len [] = 2.
Proof. reflexivity. Qed.

Lemma want_elen_le : forall cidlen t, want_elen cidlen t <= 26 + cidlen.
Proof.
  intros cidlen t. unfold want_elen, field_len.
  pose proof (vlen_bounds cidlen).
  destruct (cidlen =? 0); destruct (t =? 0);
    match goal with |- context [vlen (?a + ?b)] => pose proof (vlen_bounds (a + b)) end; lia.
Qed.

Lemma sw_elen_le : forall cw, (length (c_digest (fst cw)) <= 64)%nat -> sw_elen cw <= 130.
Proof.
  intros cw H. unfold sw_elen.
  pose proof (want_elen_le (N.of_nat (length (cid_to_bytes (fst cw)))) (want_code (snd cw))).
  pose proof (cid_bytes_len_le (fst cw)). lia.
Qed.

Lemma sum_le_const :
  forall {X} (f : X -> N) k l, Forall (fun x => f x <= k) l -> sum (map f l) <= N.of_nat (length l) * k.
Proof.
  intros X f k l H. induction H as [|x l Hx _ IH]; [cbn; lia|].
  cbn [map sum length]. lia.
Qed.

Lemma req_mlen_ge : forall s, s < req_mlen s.
Proof. intros s. unfold req_mlen. pose proof (vlen_bounds s). lia. Qed.

Lemma req_mlen_le : forall s, req_mlen s <= 11 + s.
Proof. intros s. unfold req_mlen. pose proof (vlen_bounds s). lia. Qed.

(* with the shipped limit a request of up to 32 000 wants (multihashes of at most 64 bytes) is
   within the limit, whatever the CIDs *)
Lemma default_request_fits :
  forall cids, Forall (fun cw => (length (c_digest (fst cw)) <= 64)%nat) cids ->
    N.of_nat (length cids) <= 32000 -> request_len cids <= Consts.BITSWAP_MAX_MESSAGE_SIZE.
Proof.
  intros cids H Hn. unfold request_len, message_len.
  assert (Hs : sum (map sw_elen cids) <= N.of_nat (length cids) * 130).
  { apply sum_le_const. eapply Forall_impl; [|exact H]. intros cw Hc. apply sw_elen_le. exact Hc. }
  pose proof (req_mlen_le (sum (map sw_elen cids))).
  unfold Consts.BITSWAP_MAX_MESSAGE_SIZE. lia.
Qed.

(* OBSERVATION (outside the property text, which speaks of responses): the request is never split,
   so for every limit there is a request — each want of which would fit a message — whose single
   message is too long *)
Definition tiny_want : cid * want_type := (mkCid 1 85 18 (repeat 0 32%nat), WBlock).

Lemma tiny_want_elen : sw_elen tiny_want = 42.
Proof. reflexivity. Qed.

Lemma unsplit_request_insufficient :
  forall mm, 53 <= mm ->
    exists cids : list (cid * want_type),
      Forall (fun cw => req_mlen (sw_elen cw) <= mm) cids /\ mm < request_len cids.
Proof.
  intros mm H. exists (repeat tiny_want (S (N.to_nat mm))). split.
  - apply Forall_forall. intros x Hx. apply repeat_spec in Hx. subst x.
    rewrite tiny_want_elen. pose proof (req_mlen_le 42). lia.
  - unfold request_len, message_len. rewrite sum_repeat_gen, tiny_want_elen.
    pose proof (req_mlen_ge (N.of_nat (S (N.to_nat mm)) * 42)). lia.
Qed.

(* such a request is refused by the codec's size check: send_request writes nothing and fails,
   whatever the substream *)
Lemma oversized_request_refused :
  forall mb mm cids c, mm < request_len cids ->
    write_msgs mm c (action_msgs mb mm (ARequest cids)) = ([], 0, c, false).
Proof.
  intros mb mm cids c H. cbn [action_msgs write_msgs omsg_len].
  destruct (mm <? request_len cids) eqn:E; [reflexivity|apply N.ltb_ge in E; lia].
Qed.

(* a request within the limit goes out whole over a substream that takes it *)
Lemma request_written_healthy :
  forall mb mm cids, request_len cids <= mm ->
    write_msgs mm None (action_msgs mb mm (ARequest cids)) = ([ORequest cids], 0, None, true).
Proof.
  intros mb mm cids H. apply write_msgs_healthy. constructor; [exact H|constructor].
Qed.

(* a command that the codec will not refuse: a response always (batching), a request when its one
   message is within the limit *)
Definition action_ok (mm : N) (a : action) : Prop :=
  match a with ARequest cids => request_len cids <= mm | AResponse _ _ => True end.

Lemma action_msgs_within_limit :
  forall mb mm a, action_ok mm a -> Forall (fun m => omsg_len m <= mm) (action_msgs mb mm a).
Proof.
  intros mb mm [cids|ps bs] H; [constructor; [exact H|constructor]|apply response_msgs_within_limit].
Qed.

Definition omsg_wants (m : omsg) : list (cid * want_type) := match m with ORequest l => l | _ => [] end.


(* ------------------------------------------------------------------ the event loop *)

Lemma write_actions_spec :
  forall mb mm acts c done part c' ok,
    write_actions mb mm c acts = (done, part, c', ok) ->
    exists rest,
      flat_map (action_msgs mb mm) acts = done ++ rest /\
      (ok = true -> rest = [] /\ part = 0) /\
      (ok = false -> rest <> []) /\
      Forall (fun m => omsg_len m <= mm) done.
Proof.
  intros mb mm. induction acts as [|a t IH]; intros c done part c' ok H; cbn [write_actions] in H.
  - inversion H; subst. exists []. repeat split; try reflexivity; try discriminate. constructor.
  - destruct (write_msgs mm c (action_msgs mb mm a)) as [[[d1 p1] c1] o1] eqn:E1.
    apply write_msgs_spec in E1. destruct E1 as (r1 & A1 & A2 & A3 & A4).
    destruct o1.
    + destruct (write_actions mb mm c1 t) as [[[d2 p2] c2] o2] eqn:E2.
      inversion H; subst. apply IH in E2. destruct E2 as (r2 & B1 & B2 & B3 & B4).
      destruct (A2 eq_refl) as [-> _]. exists r2. cbn [flat_map]. rewrite A1, B1, app_nil_r, app_assoc.
      split; [reflexivity|]. split; [exact B2|]. split; [exact B3|]. apply Forall_app. split; assumption.
    + inversion H; subst. exists (r1 ++ flat_map (action_msgs mb mm) t). cbn [flat_map].
      rewrite A1, app_assoc. split; [reflexivity|]. split; [discriminate|]. split; [|exact A4].
      intros _ E. apply app_eq_nil in E. destruct E as [E _]. exact (A3 eq_refl E).
Qed.

Lemma write_actions_healthy :
  forall mb mm acts, Forall (action_ok mm) acts ->
    write_actions mb mm None acts = (flat_map (action_msgs mb mm) acts, 0, None, true).
Proof.
  intros mb mm acts Hok. induction Hok as [|a t Ha _ IH]; [reflexivity|].
  cbn [write_actions flat_map]. rewrite write_msgs_healthy by (apply action_msgs_within_limit; exact Ha).
  rewrite IH. reflexivity.
Qed.

(* a queue flushed to a fresh substream stops at an oversized request: what stands before it is
   written, the request and everything behind it is not *)
Lemma write_actions_oversized :
  forall mb mm c pre cids rest, Forall (action_ok mm) pre -> mm < request_len cids ->
    write_actions mb mm None (pre ++ ARequest cids :: rest) =
    (flat_map (action_msgs mb mm) pre, 0, None, false) /\
    (pre = [] -> write_actions mb mm c (ARequest cids :: rest) = ([], 0, c, false)).
Proof.
  intros mb mm c pre cids rest Hok Hbig. split.
  - induction Hok as [|a t Ha _ IH].
    + cbn [app write_actions flat_map]. rewrite oversized_request_refused by exact Hbig. reflexivity.
    + cbn [app write_actions flat_map].
      rewrite write_msgs_healthy by (apply action_msgs_within_limit; exact Ha). rewrite IH. reflexivity.
  - intros _. cbn [write_actions]. rewrite oversized_request_refused by exact Hbig. reflexivity.
Qed.

Section NodeProofs.
  Variable D : Type.
  Variable digest : N -> D -> option (list N).
  Variable mb : N.
  Variable mm : N.

  Notation peer_step := (peer_step D digest mb mm).
  Notation run_peer := (run_peer D digest mb mm).
  Notation node_step := (node_step D digest mb mm).
  Notation run_node_ops := (run_node_ops D digest mb mm).
  Notation pev := (pev D).

  (* ---- what a step may tell the user and write ---- *)

  (* BitswapEvents come from complete inbound frames on an open inbound substream and from
     nothing else: no command, failure, timeout, dial result or connection event is reported *)
  Lemma events_only_from_frames :
    forall s e s' evs w, peer_step s e = (s', (evs, w)) -> evs <> [] ->
      exists m, e = PInFrame m /\ ps_inb s = true /\ evs = msg_events D digest m /\ s' = s.
  Proof.
    intros s e s' evs w H Hne. destruct e; cbn [Model.peer_step] in H;
      try (inversion H; subst; congruence).
    - destruct (ps_inb s) eqn:E; inversion H; subst; [|congruence]. exists m. auto.
    - destruct (send_action mb mm s a) as [s1 w1]. inversion H; subst. congruence.
    - destruct (outbound_opened mb mm s c) as [s1 w1]. inversion H; subst. congruence.
  Qed.

  (* every message the loop writes, in any state, passes the codec's size check *)
  Lemma written_within_limit :
    forall s e s' evs done part, peer_step s e = (s', (evs, (done, part))) ->
      Forall (fun m => omsg_len m <= mm) done.
  Proof.
    intros s e s' evs done part H. destruct e; cbn [Model.peer_step] in H;
      try (inversion H; subst; constructor).
    - unfold send_action in H. destruct (ps_out s) as [c|].
      + destruct (write_msgs mm c (action_msgs mb mm a)) as [[[d1 p1] c1] o1] eqn:E.
        apply write_msgs_spec in E. destruct E as (r & _ & _ & _ & A).
        destruct o1; inversion H; subst; exact A.
      + inversion H; subst. constructor.
    - unfold outbound_opened in H. destruct (ps_opening s).
      + destruct (write_actions mb mm c (ps_pend s)) as [[[d1 p1] c1] o1] eqn:E.
        apply write_actions_spec in E. destruct E as (r & _ & _ & _ & A). inversion H; subst. exact A.
      + inversion H; subst. constructor.
  Qed.

  (* only commands and a freshly opened outbound substream make the loop write *)
  Lemma writes_only_on_send_or_open :
    forall s e s' evs done part, peer_step s e = (s', (evs, (done, part))) ->
      (done <> [] \/ part <> 0) -> (exists a, e = PSend a) \/ (exists c, e = POutOpen c).
  Proof.
    intros s e s' evs done part H Hw. destruct e; cbn [Model.peer_step] in H;
      try (inversion H; subst; destruct Hw; congruence); eauto.
  Qed.

  (* ---- the queue invariant ---- *)

  (* queued actions always wait for exactly one thing that the service will answer — the
     requested substream or the dial — and never sit in the queue without one (a queue that
     nothing will ever flush would make the loop ignore the peer: later commands are only
     appended to it) *)
  Definition ps_inv (s : pstate) : Prop :=
    (ps_pend s <> [] <-> ps_opening s = true \/ ps_dial s = true) /\
    (ps_opening s = true -> ps_dial s = false) /\
    (ps_conn s = 0 -> ps_inb s = false /\ ps_out s = None /\ ps_opening s = false) /\
    (ps_dial s = true -> ps_conn s <> 1) /\
    ps_conn s <= 2.

  Ltac pinv :=
    repeat split; intros; try tauto; try congruence; try lia;
    try (match goal with H : _ \/ _ |- _ => destruct H end; try congruence; try discriminate).

  Lemma ps_inv_init : ps_inv ps_init.
  Proof.
    unfold ps_inv, ps_init. cbn. repeat split; try discriminate; try lia; try tauto.
    all: try (intros [H|H]; discriminate).
  Qed.

  Lemma app_not_nil : forall {X} (l : list X) x, l ++ [x] <> [].
  Proof. intros X l x E. apply app_eq_nil in E. destruct E as [_ E]. discriminate. Qed.

  Lemma ps_inv_queue :
    forall s a, ps_inv s -> ps_inv (queue_action s a).
  Proof.
    intros [inb out pend opening conn dial mgr] a (H1 & H2 & H3 & H4 & H5).
    unfold queue_action, open_or_dial, ps_inv in *. cbn in *.
    destruct pend as [|x pend].
    - assert (opening = false /\ dial = false) as [-> ->].
      { destruct opening, dial; try tauto; exfalso; apply (proj2 H1); auto. }
      cbn. destruct (conn =? 1) eqn:E1; cbn.
      + repeat split; try tauto; try discriminate; try lia; auto.
      + destruct ((mgr =? 1) || (mgr =? 3)); cbn.
        * repeat split; try tauto; try discriminate; try lia; auto.
        * repeat split; try tauto; try discriminate; try lia.
          all: try (intros [H|H]; discriminate).
    - cbn. repeat split; try tauto; try discriminate.
      all: try (intros _; apply H1; discriminate).
  Qed.

  Lemma ps_inv_set_out :
    forall s o, ps_inv s -> (o <> None -> ps_conn s <> 0) -> ps_inv (set_out s o).
  Proof.
    intros [inb out pend opening conn dial mgr] o (H1 & H2 & H3 & H4 & H5) Ho.
    unfold ps_inv in *. cbn in *. repeat split; try tauto.
    destruct o; [exfalso; apply Ho; [discriminate|assumption]|reflexivity].
  Qed.

  Lemma ps_inv_step : forall s e, ps_inv s -> ps_inv (fst (peer_step s e)).
  Proof.
    intros s e Hs. destruct e; cbn [Model.peer_step fst].
    - (* PInOpen *)
      destruct s as [inb out pend opening conn dial mgr]. destruct Hs as (H1 & H2 & H3 & H4 & H5).
      unfold ps_inv in *. cbn in *. destruct (conn =? 0) eqn:E; cbn; repeat split; try tauto; lia.
    - exact Hs.
    - (* PInBad *)
      destruct s as [inb out pend opening conn dial mgr]. destruct Hs as (H1 & H2 & H3 & H4 & H5).
      unfold ps_inv in *. cbn in *. repeat split; tauto.
    - (* PSend *)
      unfold send_action. destruct (ps_out s) as [c|] eqn:Eo.
      + destruct (write_msgs mm c (action_msgs mb mm a)) as [[[d1 p1] c1] o1].
        assert (Hc : ps_conn s <> 0).
        { intros E. destruct Hs as (_ & _ & H3 & _). apply H3 in E. destruct E as (_ & E & _). congruence. }
        destruct o1; cbn [fst].
        * apply ps_inv_set_out; auto.
        * apply ps_inv_queue. apply ps_inv_set_out; [exact Hs|congruence].
      + cbn [fst]. apply ps_inv_queue. exact Hs.
    - (* POutOpen *)
      unfold outbound_opened. destruct (ps_opening s) eqn:Eop; [|exact Hs].
      destruct (write_actions mb mm c (ps_pend s)) as [[[d1 p1] c1] o1]. cbn [fst].
      destruct s as [inb out pend opening conn dial mgr]. destruct Hs as (H1 & H2 & H3 & H4 & H5).
      unfold ps_inv in *. cbn in *. subst opening.
      destruct o1; cbn; pinv.
    - (* POutFail *)
      unfold outbound_failed. destruct (ps_opening s) eqn:Eop; [|exact Hs].
      destruct s as [inb out pend opening conn dial mgr]. destruct Hs as (H1 & H2 & H3 & H4 & H5).
      unfold ps_inv in *. cbn in *. subst opening. pinv.
    - (* POutSet *)
      apply ps_inv_set_out; [exact Hs|]. destruct (ps_out s) eqn:Eo; [|congruence].
      intros _ E. destruct Hs as (_ & _ & H3 & _). apply H3 in E. destruct E as (_ & E & _). congruence.
    - (* PConnClose *)
      unfold conn_closed. destruct (ps_conn s =? 0); [exact Hs|].
      unfold ps_inv. cbn. pinv.
    - (* PConnect *)
      unfold conn_established. destruct (ps_conn s =? 0) eqn:E; [|exact Hs].
      apply N.eqb_eq in E.
      destruct s as [inb out pend opening conn dial mgr]. destruct Hs as (H1 & H2 & H3 & H4 & H5).
      unfold ps_inv in *. cbn in *. subst conn. destruct (H3 eq_refl) as (-> & -> & ->).
      destruct dial; cbn; pinv.
    - (* PKill *)
      unfold conn_killed. destruct (ps_conn s =? 1) eqn:E; [|exact Hs].
      apply N.eqb_eq in E.
      destruct s as [inb out pend opening conn dial mgr]. destruct Hs as (H1 & H2 & H3 & H4 & H5).
      unfold ps_inv in *. cbn in *. subst conn. pinv.
    - (* PDialFail *)
      unfold dial_failed. destruct (ps_dial s) eqn:E; [|exact Hs].
      destruct s as [inb out pend opening conn dial mgr]. destruct Hs as (H1 & H2 & H3 & H4 & H5).
      unfold ps_inv in *. cbn in *. subst dial. pinv.
    - (* PForce *)
      destruct s as [inb out pend opening conn dial mgr]. exact Hs.
  Qed.

  Lemma run_peer_inv :
    forall es s, ps_inv s -> ps_inv (fst (fst (run_peer s es))).
  Proof.
    induction es as [|e t IH]; intros s Hs; [exact Hs|].
    cbn [Model.run_peer]. pose proof (ps_inv_step s e Hs) as H1.
    destruct (peer_step s e) as [s1 [evs [done part]]]. cbn [fst] in H1.
    specialize (IH s1 H1). destruct (run_peer s1 t) as [[s2 evs2] done2]. exact IH.
  Qed.

  (* for every history: a queue is never left without something the service will answer *)
  Lemma no_stuck_queue :
    forall es, let s := fst (fst (run_peer ps_init es)) in
      ps_pend s <> [] -> ps_opening s = true \/ ps_dial s = true.
  Proof. intros es s H. apply (run_peer_inv es ps_init ps_inv_init). exact H. Qed.

  (* ... and each of the answers empties it or moves it on: SubstreamOpened / SubstreamOpenFailure
     for the requested substream, DialFailure, ConnectionClosed empty the queue;
     ConnectionEstablished turns the dial into a substream request *)
  Lemma answers_resolve :
    forall s, ps_inv s ->
      (ps_opening s = true ->
         (forall c, ps_pend (fst (peer_step s (POutOpen c))) = [] /\
                    ps_opening (fst (peer_step s (POutOpen c))) = false) /\
         ps_pend (fst (peer_step s POutFail)) = [] /\ ps_opening (fst (peer_step s POutFail)) = false) /\
      (ps_dial s = true ->
         ps_pend (fst (peer_step s PDialFail)) = [] /\ ps_dial (fst (peer_step s PDialFail)) = false /\
         (ps_conn s = 0 -> ps_opening (fst (peer_step s PConnect)) = true /\
                           ps_pend (fst (peer_step s PConnect)) = ps_pend s)) /\
      (ps_conn s <> 0 -> ps_pend (fst (peer_step s PConnClose)) = []).
  Proof.
    intros s Hs. split; [|split].
    - intros Ho. split; [intros c|]; cbn [Model.peer_step].
      + unfold outbound_opened. rewrite Ho.
        destruct (write_actions mb mm c (ps_pend s)) as [[[d1 p1] c1] o1]. destruct o1; split; reflexivity.
      + unfold outbound_failed. rewrite Ho. split; reflexivity.
    - intros Hd. cbn [Model.peer_step]. unfold dial_failed, conn_established. rewrite Hd.
      split; [reflexivity|]. split; [reflexivity|]. intros E. rewrite E. cbn. split; reflexivity.
    - intros Hc. cbn [Model.peer_step fst]. unfold conn_closed.
      destruct (ps_conn s =? 0) eqn:E; [apply N.eqb_eq in E; contradiction|reflexivity].
  Qed.

  (* ---- sending to a peer that is gone ---- *)

  (* no connection, and the manager knows no address (or claims to be connected): the command is
     dropped on the spot — nothing written, nothing queued, nothing reported *)
  Lemma send_to_gone_peer_dropped :
    forall s a, ps_inv s -> ps_conn s <> 1 -> ps_pend s = [] -> (ps_mgr s = 0 \/ ps_mgr s = 2) ->
      ps_out s = None ->
      peer_step s (PSend a) = (s, ([], ([], 0))).
  Proof.
    intros [inb out pend opening conn dial mgr] a Hs Hc Hp Hm Ho. cbn in *. subst pend out.
    unfold send_action, queue_action, open_or_dial. cbn.
    destruct (conn =? 1) eqn:E; [apply N.eqb_eq in E; contradiction|].
    destruct Hm as [-> | ->]; reflexivity.
  Qed.

  (* the manager accepts the dial: the command is parked; when the connection is reported and the
     substream opens (healthy), everything parked is written, in order *)
  Lemma send_to_dialable_peer_parked :
    forall s acts, Forall (action_ok mm) acts ->
      ps_conn s = 0 -> ps_pend s = [] -> ps_out s = None -> ps_dial s = false -> ps_opening s = false ->
      (ps_mgr s = 1 \/ ps_mgr s = 3) -> acts <> [] ->
      let '(s1, _, done) := run_peer s (map PSend acts ++ [PConnect; POutOpen None]) in
      done = flat_map (action_msgs mb mm) acts /\ ps_pend s1 = [] /\ ps_out s1 = Some None.
  Proof.
    intros [inb out pend opening conn dial mgr] acts Hmm Hc Hp Ho Hd Hop Hm Hne. cbn in *. subst.
    destruct acts as [|a acts]; [congruence|]. clear Hne.
    assert (Hpark : forall l q, q <> [] -> Forall (action_ok mm) (q ++ l) ->
              run_peer (mkPS inb None q false 0 true mgr) (map PSend l ++ [PConnect; POutOpen None]) =
              (mkPS inb (Some None) [] false 1 false mgr, [], flat_map (action_msgs mb mm) (q ++ l))).
    { induction l as [|x l IH]; intros q Hq Hok.
      - cbn [map app Model.run_peer Model.peer_step]. unfold conn_established, outbound_opened. simpl.
        rewrite app_nil_r in Hok. rewrite write_actions_healthy by exact Hok. simpl.
        rewrite !app_nil_r. reflexivity.
      - cbn [map app Model.run_peer Model.peer_step]. unfold send_action. cbn.
        unfold queue_action. cbn. destruct q as [|y q]; [congruence|]. cbn. unfold set_pend. cbn.
        change (y :: q ++ [x]) with ((y :: q) ++ [x]).
        rewrite (IH ((y :: q) ++ [x])); [|apply app_not_nil|rewrite <- app_assoc; exact Hok].
        rewrite <- app_assoc. reflexivity. }
    cbn [map app Model.run_peer Model.peer_step]. unfold send_action. cbn.
    unfold queue_action, open_or_dial. simpl.
    assert (Em : (mgr =? 1) || (mgr =? 3) = true) by (destruct Hm as [-> | ->]; reflexivity).
    rewrite Em. unfold set_dial, set_pend. simpl. rewrite (Hpark acts [a]) by (try discriminate; exact Hmm). simpl.
    repeat split; reflexivity.
  Qed.

  (* the dial fails instead: everything parked is dropped, nothing is written or reported *)
  Lemma dial_failure_drops_parked :
    forall s, ps_dial s = true ->
      peer_step s PDialFail = (set_pend (set_dial s false) [], ([], ([], 0))).
  Proof. intros s H. cbn [Model.peer_step]. unfold dial_failed. rewrite H. reflexivity. Qed.

  (* ---- a request the codec refuses ---- *)

  (* The real control flow for a request whose one message is longer than the limit (OBSERVATION,
     requests are outside the property text): send_request fails without writing; an established
     substream is dropped for it and a new one requested; the commands given meanwhile queue up
     behind the request; on the new substream the request is refused again and the loop drops the
     substream together with the whole queue.  Nothing is written, nothing is reported. *)
  Lemma oversized_request_drops_queue :
    forall s c2 cids acts, mm < request_len cids ->
      ps_pend s = [] -> ps_opening s = false -> ps_conn s = 1 ->
      run_peer s (PSend (ARequest cids) :: map PSend acts ++ [POutOpen c2]) = (set_out s None, [], []).
  Proof.
    intros [inb out pend opening conn dial mgr] c2 cids acts Hbig Hp Hop Hc. cbn in *. subst.
    assert (Hq : forall l q',
              run_peer (mkPS inb None (ARequest cids :: q') true 1 dial mgr) (map PSend l ++ [POutOpen c2]) =
              (mkPS inb None [] false 1 dial mgr, [], [])).
    { induction l as [|x l IH]; intros q'.
      - cbn [map app Model.run_peer Model.peer_step]. unfold outbound_opened.
        cbn [ps_opening ps_pend]. cbn [write_actions]. rewrite oversized_request_refused by exact Hbig.
        reflexivity.
      - cbn [map app Model.run_peer Model.peer_step]. unfold send_action. cbn [ps_out].
        unfold queue_action. cbn [ps_pend set_pend ps_inb ps_out ps_opening ps_conn ps_dial ps_mgr app].
        unfold set_pend. cbn [ps_pend ps_inb ps_out ps_opening ps_conn ps_dial ps_mgr app].
        rewrite IH. reflexivity. }
    cbn [Model.run_peer Model.peer_step]. unfold send_action. cbn [ps_out].
    destruct out as [c|].
    - rewrite oversized_request_refused by exact Hbig.
      unfold queue_action, open_or_dial, set_out, set_pend, set_opening.
      cbn [ps_pend ps_inb ps_out ps_opening ps_conn ps_dial ps_mgr app]. change (1 =? 1) with true. cbv iota.
      rewrite Hq. reflexivity.
    - unfold queue_action, open_or_dial, set_out, set_pend, set_opening.
      cbn [ps_pend ps_inb ps_out ps_opening ps_conn ps_dial ps_mgr app]. change (1 =? 1) with true. cbv iota.
      rewrite Hq. reflexivity.
  Qed.

  (* ---- a send that fails half-way is retried whole ---- *)

  (* the action is queued again as it was; what had been written before the failure is written
     again on the next substream (the receiver of both substreams sees those messages twice) *)
  Lemma failed_send_retried_whole :
    forall s c a done part c', action_ok mm a ->
      ps_out s = Some c -> ps_pend s = [] -> ps_conn s = 1 ->
      write_msgs mm c (action_msgs mb mm a) = (done, part, c', false) ->
      let '(s1, _, written) := run_peer s [PSend a; POutOpen None] in
      written = done ++ action_msgs mb mm a /\ ps_out s1 = Some None /\ ps_pend s1 = [].
  Proof.
    intros [inb out pend opening conn dial mgr] c a done part c' Hmm Ho Hp Hc Hw. cbn in *. subst.
    cbn [Model.run_peer Model.peer_step]. unfold send_action. cbn. rewrite Hw.
    unfold queue_action, open_or_dial. cbn. change (1 =? 1) with true. cbn. unfold outbound_opened. cbn.
    rewrite write_msgs_healthy by (apply action_msgs_within_limit; exact Hmm). cbn. rewrite !app_nil_r. repeat split; reflexivity.
  Qed.

  (* ---- the node: peers do not interfere ---- *)

  Lemma set_ps_other :
    forall st p q s, p <> q -> nth q (set_ps st p s) ps_init = nth q st ps_init.
  Proof.
    induction st as [|h t IH]; intros p q s Hne; [reflexivity|].
    destruct p, q; cbn [set_ps nth]; try congruence; try reflexivity. apply IH. congruence.
  Qed.

  (* an operation about peer p leaves the loop's state for every other peer untouched, whatever
     it writes goes to p's substream, and whatever it reports is attributed to p *)
  Lemma node_step_frame :
    forall st p e q, q <> p -> get_ps (fst (node_step st (p, e))) q = get_ps st q.
  Proof.
    intros st p e q Hne. unfold Model.node_step. cbn [fst snd].
    destruct (peer_step (get_ps st p) e) as [s' o]. cbn [fst]. unfold get_ps.
    apply set_ps_other. intros E. apply Hne. apply N2Nat.inj. symmetry. exact E.
  Qed.

  Lemma run_node_events_in :
    forall ops st p ev, In (p, ev) (snd (fst (run_node_ops st ops))) ->
      exists m, In (p, PInFrame m) ops /\ In ev (msg_events D digest m).
  Proof.
    induction ops as [|[q e] t IH]; intros st p ev H; [destruct H|].
    cbn [Model.run_node_ops] in H. unfold Model.node_step in H. cbn [fst snd] in H.
    destruct (peer_step (get_ps st q) e) as [s1 [evs [done part]]] eqn:E1.
    destruct (run_node_ops (set_ps st (N.to_nat q) s1) t) as [[st2 evs2] done2] eqn:E2.
    cbn [fst snd] in H. apply in_app_or in H. destruct H as [H|H].
    - apply in_map_iff in H. destruct H as (x & Hx & Hin). inversion Hx; subst.
      assert (Hne : evs <> []) by (intros ->; destruct Hin).
      destruct (events_only_from_frames _ _ _ _ _ E1 Hne) as (m & -> & _ & -> & _).
      exists m. split; [left; reflexivity|exact Hin].
    - specialize (IH (set_ps st (N.to_nat q) s1) p ev). rewrite E2 in IH. cbn [fst snd] in IH.
      destruct (IH H) as (m & Hm & He). exists m. split; [right; exact Hm|exact He].
  Qed.

  (* whatever happens at the node — any number of peers, connections coming and going, commands,
     failures, frames in any order — every block reported to the user hashes to its CID *)
  Lemma node_blocks_certified :
    forall ops st p ev c d,
      In (p, ev) (snd (fst (run_node_ops st ops))) -> In (c, d) (event_blocks D ev) ->
      digest (c_code c) d = Some (c_digest c) /\ cid_valid c /\ (length (c_digest c) <= 64)%nat.
  Proof.
    intros ops st p ev c d H Hb. apply run_node_events_in in H. destruct H as (m & _ & Hev).
    assert (Hin : In (c, d) (flat_map (event_blocks D) (msg_events D digest m))).
    { apply in_flat_map. exists ev. split; assumption. }
    apply msg_blocks_certified in Hin. destruct Hin as (pb & _ & H).
    apply self_certifying in H. destruct H as (_ & p0 & _ & Hd & Hc & _ & _ & Hl & Hv).
    rewrite Hc. repeat split; assumption.
  Qed.

  Lemma run_node_written_within_limit :
    forall ops st, Forall (fun pm => omsg_len (snd pm) <= mm) (snd (run_node_ops st ops)).
  Proof.
    induction ops as [|[q e] t IH]; intros st; [constructor|].
    cbn [Model.run_node_ops]. unfold Model.node_step. cbn [fst snd].
    destruct (peer_step (get_ps st q) e) as [s1 [evs [done part]]] eqn:E1.
    specialize (IH (set_ps st (N.to_nat q) s1)).
    destruct (run_node_ops (set_ps st (N.to_nat q) s1) t) as [[st2 evs2] done2]. cbn [snd] in *.
    apply Forall_app. split; [|exact IH].
    apply written_within_limit in E1. apply Forall_forall. intros pm Hpm.
    apply in_map_iff in Hpm. destruct Hpm as (m & <- & Hm). cbn [snd].
    rewrite Forall_forall in E1. apply E1. exact Hm.
  Qed.
  (* ---- provenance of what is written ---- *)

  Lemma queue_action_pend :
    forall (P : action -> Prop) s a, Forall P (ps_pend s) -> P a -> Forall P (ps_pend (queue_action s a)).
  Proof.
    intros P [inb out pend opening conn dial mgr] a H Ha. unfold queue_action, open_or_dial. cbn in *.
    assert (Hq : Forall P (pend ++ [a])) by (apply Forall_app; split; [exact H|constructor; [exact Ha|constructor]]).
    destruct pend as [|x pend]; cbn; [|exact Hq].
    destruct (conn =? 1); cbn; [exact Hq|]. destruct ((mgr =? 1) || (mgr =? 3)); cbn; [exact Hq|constructor].
  Qed.

  Lemma peer_step_pend_src :
    forall (P : action -> Prop) s e s' o, peer_step s e = (s', o) ->
      Forall P (ps_pend s) -> (forall a, e = PSend a -> P a) -> Forall P (ps_pend s').
  Proof.
    intros P s e s' o H Hp He. destruct e; cbn [Model.peer_step] in H.
    - inversion H; subst. destruct (ps_conn s =? 0); [exact Hp|destruct s; exact Hp].
    - inversion H; subst. exact Hp.
    - inversion H; subst. destruct s; exact Hp.
    - unfold send_action in H. destruct (ps_out s) as [c|].
      + destruct (write_msgs mm c (action_msgs mb mm a)) as [[[d1 p1] c1] o1]. destruct o1; inversion H; subst.
        * destruct s; exact Hp.
        * apply queue_action_pend; [destruct s; exact Hp|apply He; reflexivity].
      + inversion H; subst. apply queue_action_pend; [exact Hp|apply He; reflexivity].
    - unfold outbound_opened in H. destruct (ps_opening s).
      + destruct (write_actions mb mm c (ps_pend s)) as [[[d1 p1] c1] o1]. inversion H; subst.
        destruct o1; destruct s; constructor.
      + inversion H; subst. exact Hp.
    - inversion H; subst. unfold outbound_failed. destruct (ps_opening s); [destruct s; constructor|exact Hp].
    - inversion H; subst. destruct s; exact Hp.
    - inversion H; subst. unfold conn_closed. destruct (ps_conn s =? 0); [exact Hp|constructor].
    - inversion H; subst. unfold conn_established. destruct (ps_conn s =? 0); [|exact Hp].
      destruct (ps_dial s); destruct s; exact Hp.
    - inversion H; subst. unfold conn_killed. destruct (ps_conn s =? 1); [destruct s; exact Hp|exact Hp].
    - inversion H; subst. unfold dial_failed. destruct (ps_dial s); [destruct s; constructor|exact Hp].
    - inversion H; subst. destruct s; exact Hp.
  Qed.

  Lemma peer_step_written_src :
    forall (P : action -> Prop) s e s' evs done part, peer_step s e = (s', (evs, (done, part))) ->
      Forall P (ps_pend s) -> (forall a, e = PSend a -> P a) ->
      Forall (fun m => exists a, P a /\ In m (action_msgs mb mm a)) done.
  Proof.
    intros P s e s' evs done part H Hp He. destruct e; cbn [Model.peer_step] in H;
      try (inversion H; subst; constructor).
    - unfold send_action in H. destruct (ps_out s) as [c|].
      + destruct (write_msgs mm c (action_msgs mb mm a)) as [[[d1 p1] c1] o1] eqn:E.
        apply write_msgs_spec in E. destruct E as (r & E & _).
        assert (Hd : Forall (fun m => exists a0, P a0 /\ In m (action_msgs mb mm a0)) d1).
        { apply Forall_forall. intros m Hm. exists a. split; [apply He; reflexivity|].
          rewrite E. apply in_or_app. left. exact Hm. }
        destruct o1; inversion H; subst; exact Hd.
      + inversion H; subst. constructor.
    - unfold outbound_opened in H. destruct (ps_opening s).
      + destruct (write_actions mb mm c (ps_pend s)) as [[[d1 p1] c1] o1] eqn:E.
        apply write_actions_spec in E. destruct E as (r & E & _). inversion H; subst.
        apply Forall_forall. intros m Hm.
        assert (Hin : In m (flat_map (action_msgs mb mm) (ps_pend s))) by (rewrite E; apply in_or_app; left; exact Hm).
        apply in_flat_map in Hin. destruct Hin as (a & Ha & Hma). exists a. split; [|exact Hma].
        rewrite Forall_forall in Hp. apply Hp. exact Ha.
      + inversion H; subst. constructor.
  Qed.

  Lemma run_peer_written_src :
    forall (all : list pev) es s,
      (forall e, In e es -> In e all) -> Forall (fun a => In (PSend a) all) (ps_pend s) ->
      Forall (fun m => exists a, In (PSend a) all /\ In m (action_msgs mb mm a)) (snd (run_peer s es)).
  Proof.
    intros all. induction es as [|e t IH]; intros s Hsub Hp; [constructor|].
    cbn [Model.run_peer]. destruct (peer_step s e) as [s1 [evs [done part]]] eqn:E1.
    assert (He : forall a, e = PSend a -> In (PSend a) all) by (intros a ->; apply Hsub; left; reflexivity).
    pose proof (peer_step_pend_src _ _ _ _ _ E1 Hp He) as Hp1.
    pose proof (peer_step_written_src _ _ _ _ _ _ _ E1 Hp He) as Hd.
    specialize (IH s1 (fun x Hx => Hsub x (or_intror Hx)) Hp1).
    destruct (run_peer s1 t) as [[s2 evs2] done2]. cbn [snd] in *. apply Forall_app. split; assumption.
  Qed.

  (* nothing is written that the user did not ask to send to this peer *)
  Lemma written_only_commanded :
    forall es m, In m (snd (run_peer ps_init es)) ->
      exists a, In (PSend a) es /\ In m (action_msgs mb mm a).
  Proof.
    intros es m H.
    pose proof (run_peer_written_src es es ps_init (fun e He => He) (Forall_nil _)) as HF.
    rewrite Forall_forall in HF. apply HF. exact H.
  Qed.


  Lemma set_ps_get :
    forall st p s, nth p (set_ps st p s) ps_init = s \/ set_ps st p s = st.
  Proof.
    induction st as [|h t IH]; intros p s; [right; reflexivity|].
    destruct p; cbn [set_ps nth]; [left; reflexivity|].
    destruct (IH p s) as [H|H]; [left; exact H|right; rewrite H; reflexivity].
  Qed.

  Lemma node_step_pend_src :
    forall (P : N -> action -> Prop) st p e st' o, node_step st (p, e) = (st', o) ->
      (forall q, Forall (P q) (ps_pend (get_ps st q))) -> (forall a, e = PSend a -> P p a) ->
      forall q, Forall (P q) (ps_pend (get_ps st' q)).
  Proof.
    intros P st p e st' o H Hinv He q. unfold Model.node_step in H. cbn [fst snd] in H.
    destruct (peer_step (get_ps st p) e) as [s' o'] eqn:E. inversion H; subst. clear H.
    destruct (N.eq_dec q p) as [->|Hne].
    - unfold get_ps at 1. destruct (set_ps_get st (N.to_nat p) s') as [-> | ->].
      + eapply peer_step_pend_src; [exact E|apply Hinv|exact He].
      + apply Hinv.
    - unfold get_ps at 1. rewrite set_ps_other; [apply Hinv|].
      intros E2. apply Hne. apply N2Nat.inj. symmetry. exact E2.
  Qed.

  Lemma run_node_written_src :
    forall (all : list (N * pev)) ops st,
      (forall x, In x ops -> In x all) ->
      (forall q, Forall (fun a => In (q, PSend a) all) (ps_pend (get_ps st q))) ->
      Forall (fun pm => exists a, In (fst pm, PSend a) all /\ In (snd pm) (action_msgs mb mm a))
             (snd (run_node_ops st ops)).
  Proof.
    intros all. induction ops as [|[p e] t IH]; intros st Hsub Hinv; [constructor|].
    cbn [Model.run_node_ops]. destruct (node_step st (p, e)) as [st1 [evs [done part]]] eqn:E1.
    assert (He : forall a, e = PSend a -> In (p, PSend a) all) by (intros a ->; apply Hsub; left; reflexivity).
    pose proof (node_step_pend_src (fun q a => In (q, PSend a) all) _ _ _ _ _ E1 Hinv He) as Hinv1.
    specialize (IH st1 (fun x Hx => Hsub x (or_intror Hx)) Hinv1).
    destruct (run_node_ops st1 t) as [[st2 evs2] done2]. cbn [snd fst] in *.
    apply Forall_app. split; [|exact IH].
    unfold Model.node_step in E1. cbn [fst snd] in E1.
    destruct (peer_step (get_ps st p) e) as [s' [evs' [done' part']]] eqn:E. inversion E1; subst.
    pose proof (peer_step_written_src (fun a => In (p, PSend a) all) _ _ _ _ _ _ E (Hinv p) He) as Hd.
    apply Forall_forall. intros pm Hpm. apply in_map_iff in Hpm. destruct Hpm as (m & <- & Hm).
    cbn [fst snd]. rewrite Forall_forall in Hd. apply Hd. exact Hm.
  Qed.

  (* at the node: what is written to a peer's substream is a message of a command the user gave
     for that peer — nothing is invented, nothing leaks from one peer to another *)
  Lemma node_written_only_commanded :
    forall ops st, (forall q, ps_pend (get_ps st q) = []) ->
      forall p m, In (p, m) (snd (run_node_ops st ops)) ->
        exists a, In (p, PSend a) ops /\ In m (action_msgs mb mm a).
  Proof.
    intros ops st H0 p m H.
    assert (Hinv : forall q, Forall (fun a => In (q, PSend a) ops) (ps_pend (get_ps st q)))
      by (intros q; rewrite H0; constructor).
    pose proof (run_node_written_src ops ops st (fun x Hx => Hx) Hinv) as HF.
    rewrite Forall_forall in HF. apply (HF (p, m)). exact H.
  Qed.
End NodeProofs.
