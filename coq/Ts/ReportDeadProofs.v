(* Ts/ReportDeadProofs — lemmas about the dead-protocol layer of the report model (C08). *)
From Coq Require Import List NArith Bool PeanoNat Lia.
From V.Ts Require Import Report ReportProofs ReportDead.
Import ListNotations.
Open Scope N_scope.

(* ---- without a dead protocol the layer is the base model ---- *)
Definition base_of (o : dop) : option rop :=
  match o with DBase b => Some b | DEst c _ => Some (REst c) | DKill _ => None end.

Lemma dstep_nodead s o b :
  base_of o = Some b ->
  dstep (mkD s [] []) o = (mkD (fst (rstep s b)) [] [], lift (snd (rstep s b))).
Proof.
  intros H. destruct o as [b0|c m|p]; cbn [base_of] in H; inversion H; subst.
  - unfold dstep, dstep_gen. cbn [d_gone existsb]. destruct (conn_of_dop (DBase b)); unfold dstep0; cbn [d_dead d_s d_gone];
      destruct (rstep s b) as [s' r]; reflexivity.
  - unfold dstep, dstep_gen. cbn [conn_of_dop d_gone existsb]. unfold dstep0. cbn [d_dead d_s d_gone].
    destruct (rstep s (REst c)) as [s' r]; reflexivity.
Qed.

Fixpoint all_base (l : list dop) : option (list rop) :=
  match l with
  | [] => Some []
  | o :: t => match base_of o, all_base t with Some b, Some bs => Some (b :: bs) | _, _ => None end
  end.

Lemma drun_nodead l : forall s bs,
  all_base l = Some bs ->
  dfinal (mkD s [] []) l = mkD (rfinal s bs) [] [] /\ drun (mkD s [] []) l = map lift (rrun s bs).
Proof.
  induction l as [|o l IH]; intros s bs H; cbn [all_base] in H.
  - inversion H; subst. cbn. auto.
  - destruct (base_of o) as [b|] eqn:B; [|discriminate]. destruct (all_base l) as [bs'|] eqn:A; [|discriminate].
    inversion H; subst bs. cbn [dfinal drun rfinal rrun]. rewrite (dstep_nodead s o b B). cbn [fst snd].
    destruct (IH (fst (rstep s b)) bs' eq_refl) as [I1 I2].
    destruct (rstep s b) as [s' r]. cbn [fst snd map] in *. rewrite I1, I2. auto.
Qed.

(* ---- what the remaining protocols observe when "established" meets a dead protocol ---- *)
Lemma nth_error_mapi {A B} (f : nat -> A -> B) l : forall i n,
  nth_error (mapi f i l) n = option_map (f (i + n)%nat) (nth_error l n).
Proof.
  induction l as [|h t IH]; intros i n; cbn [mapi].
  - destruct n; reflexivity.
  - destruct n; cbn [nth_error option_map].
    + rewrite Nat.add_0_r. reflexivity.
    + rewrite IH. f_equal. f_equal. lia.
Qed.

Lemma try_now_no_wait cap it ch : rw (try_now cap it ch) = rw ch.
Proof.
  unfold try_now. destruct (rw ch) eqn:W; [|exact W].
  destruct (Nat.ltb (length (rq ch)) cap); cbn [rw]; auto.
Qed.

Lemma est_dead_observation d c mask :
  d_dead d <> [] -> busy (d_s d) c = false -> existsb (N.eqb c) (d_gone d) = false ->
  let d' := fst (dstep_before_fix d (DEst c mask)) in
  do_code (snd (dstep_before_fix d (DEst c mask))) = 3 /\
  d_dead d' = d_dead d /\ d_gone d' = c :: d_gone d /\
  (* the report has returned: nothing of connection c is left waiting *)
  (forall p ch', nth_error (r_ch (d_s d')) p = Some ch' ->
     exists ch, nth_error (r_ch (d_s d)) p = Some ch /\ rw ch' = rw ch /\ rdel ch' = rdel ch /\
       (* each protocol has been told "established" once, or nothing *)
       (ch' = ch \/
        (rq ch' = rq ch ++ [IEst c] /\ racc ch' = racc ch ++ [IEst c] /\
         N.testbit mask (N.of_nat p) = true /\ is_dead d (N.of_nat p) = false /\
         rw ch = [] /\ (length (rq ch) < r_cap (d_s d))%nat))).
Proof.
  intros ND NB NG. unfold dstep_before_fix, dstep_gen. cbn [conn_of_dop]. rewrite NG. unfold dstep0.
  destruct (d_dead d) as [|x xs] eqn:DD; [congruence|].
  rewrite NB. cbn [fst snd do_code d_dead d_s d_gone r_ch]. split; [reflexivity|]. split; [reflexivity|].
  split; [reflexivity|].
  intros p ch' H. rewrite nth_error_mapi in H. cbn [plus] in H.
  destruct (nth_error (r_ch (d_s d)) p) as [ch|] eqn:E; [|discriminate]. cbn [option_map] in H.
  exists ch. split; [reflexivity|].
  destruct (N.testbit mask (N.of_nat p) && negb (is_dead d (N.of_nat p))) eqn:B.
  - inversion H; subst ch'. apply andb_true_iff in B. destruct B as [B1 B2]. apply negb_true_iff in B2.
    rewrite try_now_no_wait. split; [reflexivity|].
    unfold try_now. destruct (rw ch) eqn:W; [|split; [reflexivity | left; reflexivity]].
    destruct (Nat.ltb (length (rq ch)) (r_cap (d_s d))) eqn:L; [|split; [reflexivity | left; reflexivity]].
    cbn [rdel rq racc]. split; [reflexivity|]. right. apply Nat.ltb_lt in L. repeat split; auto.
  - inversion H; subst ch'. split; [reflexivity|]. split; [reflexivity | left; reflexivity].
Qed.

(* no input of this layer ever produces a "closed" event for that connection except an explicit
   report_connection_closed — which Transport::accept never issues after the failure *)
Lemma only_closed_reports_closed0 fixed d o c p ch ch' :
  nth_error (r_ch (d_s d)) p = Some ch -> nth_error (r_ch (d_s (fst (dstep0 fixed d o)))) p = Some ch' ->
  (forall b, o <> DBase (RClosed b)) ->
  ~ In (IClosed c) (racc ch) -> ~ In (IClosed c) (racc ch').
Proof.
  intros H H' NC NI.
  assert (SEND : forall cap x it q, it <> IClosed c -> ~ In (IClosed c) (racc q) ->
                 ~ In (IClosed c) (racc (send_one cap x it q))).
  { intros cap x it q NE N0. destruct (send_one_logs cap x it q) as [A _]. rewrite A.
    intros C. apply in_app_or in C. destruct C as [C|[C|[]]]; [contradiction | congruence]. }
  assert (BASE : forall s b q q', (forall x, b <> RClosed x) ->
                 nth_error (r_ch s) p = Some q -> nth_error (r_ch (fst (rstep s b))) p = Some q' ->
                 ~ In (IClosed c) (racc q) -> ~ In (IClosed c) (racc q')).
  { intros s b q q' NB Hq Hq' N0. destruct (rstep_logs s b p q Hq) as [q2 [E2 [A2 _]]].
    rewrite E2 in Hq'. inversion Hq'; subst q2. rewrite A2. intros C. apply in_app_or in C.
    destruct C as [C|C]; [contradiction|]. unfold sent_p in C. destruct (started (snd (rstep s b))); [|destruct C].
    destruct b; try (destruct (Nat.eqb _ _); [destruct C as [C|[]]; discriminate | destruct C]).
    - destruct C as [C|[]]; discriminate.
    - exfalso. eapply NB. reflexivity.
    - destruct C. }
  destruct o as [b|c0 m|q]; unfold dstep0 in H'.
  - assert (NB : forall x, b <> RClosed x) by (intros x E; eapply NC; rewrite E; reflexivity).
    destruct (d_dead d) as [|x xs] eqn:DD.
    + pose proof (BASE (d_s d) b ch ch' NB H) as BB. destruct (rstep (d_s d) b) as [s' r]. cbn [fst d_s] in *. auto.
    + destruct b as [c1 p0 d0|c1 p0 id|c1|c1|p0 k].
      * destruct (busy (d_s d) c1); [cbn [fst] in H'; congruence|].
        destruct (is_dead d p0); [cbn [fst] in H'; congruence|].
        pose proof (BASE (d_s d) (RSubOpen c1 p0 d0) ch ch' NB H) as BB.
        destruct (rstep (d_s d) (RSubOpen c1 p0 d0)) as [s' r]. cbn [fst d_s] in *. auto.
      * destruct (busy (d_s d) c1); [cbn [fst] in H'; congruence|].
        destruct (is_dead d p0); [cbn [fst] in H'; congruence|].
        pose proof (BASE (d_s d) (RSubFail c1 p0 id) ch ch' NB H) as BB.
        destruct (rstep (d_s d) (RSubFail c1 p0 id)) as [s' r]. cbn [fst d_s] in *. auto.
      * cbn [fst] in H'. congruence.
      * exfalso. eapply NB. reflexivity.
      * destruct (is_dead d p0); [cbn [fst] in H'; congruence|].
        pose proof (BASE (d_s d) (RDrain p0 k) ch ch' NB H) as BB.
        destruct (rstep (d_s d) (RDrain p0 k)) as [s' r]. cbn [fst d_s] in *. auto.
  - destruct (d_dead d) as [|x xs] eqn:DD.
    + assert (NB : forall x, REst c0 <> RClosed x) by (intros x E; discriminate).
      pose proof (BASE (d_s d) (REst c0) ch ch' NB H) as BB.
      destruct (rstep (d_s d) (REst c0)) as [s' r]. cbn [fst d_s] in *. auto.
    + destruct (busy (d_s d) c0); [cbn [fst] in H'; congruence|]. destruct fixed.
      * cbn [fst d_s r_ch] in H'. rewrite nth_error_mapi in H'. cbn [plus] in H'. rewrite H in H'. cbn [option_map] in H'.
        inversion H' as [E]. destruct (is_dead d (N.of_nat p)); [exact NI|].
        apply SEND; [discriminate | exact NI].
      * cbn [fst d_s r_ch] in H'. rewrite nth_error_mapi in H'. cbn [plus] in H'. rewrite H in H'. cbn [option_map] in H'.
        inversion H' as [E]. destruct (N.testbit m (N.of_nat p) && negb (is_dead d (N.of_nat p))); [|exact NI].
        unfold try_now. destruct (rw ch); [|exact NI]. destruct (Nat.ltb (length (rq ch)) (r_cap (d_s d))); [|exact NI].
        cbn [racc]. intros C. apply in_app_or in C. destruct C as [C|[C|[]]]; [contradiction | discriminate].
  - assert (KILL : forall D' G', nth_error (r_ch (d_s (mkD (mkR (r_cap (d_s d))
               (upd (N.to_nat q) (fun ch0 => mkRc [] [] (racc ch0) (rdel ch0)) (r_ch (d_s d)))) D' G'))) p = Some ch' ->
               ~ In (IClosed c) (racc ch')).
    { intros D' G' HK. cbn [d_s r_ch] in HK. rewrite nth_error_upd, H in HK.
      destruct (Nat.eqb (N.to_nat q) p); cbn [option_map] in HK; inversion HK; subst; exact NI. }
    destruct (d_dead d) as [|x xs] eqn:DD.
    + destruct (negb (Nat.ltb (N.to_nat q) (length (r_ch (d_s d)))) ||
                negb (match waiters (d_s d) with [] => true | _ => false end));
        [cbn [fst] in H'; congruence | cbn [fst] in H'; eapply KILL; eauto].
    + destruct (negb (Nat.ltb (N.to_nat q) (length (r_ch (d_s d)))) ||
                negb (match waiters (d_s d) with [] => true | _ => false end) || is_dead d q);
        [cbn [fst] in H'; congruence | cbn [fst] in H'; eapply KILL; eauto].
Qed.

Lemma only_closed_reports_closed_gen fixed d o c p ch ch' :
  nth_error (r_ch (d_s d)) p = Some ch -> nth_error (r_ch (d_s (fst (dstep_gen fixed d o)))) p = Some ch' ->
  (forall b, o <> DBase (RClosed b)) ->
  ~ In (IClosed c) (racc ch) -> ~ In (IClosed c) (racc ch').
Proof.
  intros H H' NC NI. unfold dstep_gen in H'.
  destruct (conn_of_dop o) as [cc|].
  - destruct (existsb (N.eqb cc) (d_gone d)).
    + cbn [fst] in H'. congruence.
    + exact (only_closed_reports_closed0 fixed d o c p ch ch' H H' NC NI).
  - exact (only_closed_reports_closed0 fixed d o c p ch ch' H H' NC NI).
Qed.
Lemma only_closed_reports_closed d o c p ch ch' :
  nth_error (r_ch (d_s d)) p = Some ch -> nth_error (r_ch (d_s (fst (dstep d o)))) p = Some ch' ->
  (forall b, o <> DBase (RClosed b)) ->
  ~ In (IClosed c) (racc ch) -> ~ In (IClosed c) (racc ch').
Proof. exact (only_closed_reports_closed_gen true d o c p ch ch'). Qed.

(* ---- the repaired report_connection_established (fix 2c7c81a) ---- *)
Lemma gone_stays_nil d o : d_gone d = [] -> d_gone (fst (dstep d o)) = [].
Proof.
  intros G. unfold dstep, dstep_gen. rewrite G. cbn [existsb].
  assert (E : (match conn_of_dop o with Some _ => dstep0 true d o | None => dstep0 true d o end) = dstep0 true d o)
    by (destruct (conn_of_dop o); reflexivity).
  rewrite E. unfold dstep0. destruct (d_dead d) as [|x xs].
  - destruct o as [b|c m|q].
    + destruct (rstep (d_s d) b). exact G.
    + destruct (rstep (d_s d) (REst c)). exact G.
    + destruct (_ || _); exact G.
  - destruct o as [b|c m|q].
    + destruct b as [c1 p0 d0|c1 p0 id|c1|c1|p0 k].
      * destruct (busy (d_s d) c1); [exact G|]. destruct (is_dead d p0); [exact G|].
        destruct (rstep (d_s d) (RSubOpen c1 p0 d0)). exact G.
      * destruct (busy (d_s d) c1); [exact G|]. destruct (is_dead d p0); [exact G|].
        destruct (rstep (d_s d) (RSubFail c1 p0 id)). exact G.
      * exact G.
      * destruct (busy (d_s d) c1); exact G.
      * destruct (is_dead d p0); [exact G|]. destruct (rstep (d_s d) (RDrain p0 k)). exact G.
    + destruct (busy (d_s d) c); exact G.
    + destruct (_ || _); exact G.
Qed.

(* every live protocol is handed "established" exactly once, dead ones are skipped, and the
   report does not fail: it is complete (0) or waits for room on a live protocol's channel (1) *)
Lemma est_skips_dead d c mask :
  busy (d_s d) c = false -> d_gone d = [] ->
  let d' := fst (dstep d (DEst c mask)) in
  let out := snd (dstep d (DEst c mask)) in
  do_code out = (if busy (d_s d') c then 1 else 0) /\
  d_dead d' = d_dead d /\
  forall p ch', nth_error (r_ch (d_s d')) p = Some ch' ->
    exists ch, nth_error (r_ch (d_s d)) p = Some ch /\
               ch' = if is_dead d (N.of_nat p) then ch else send_one (r_cap (d_s d)) c (IEst c) ch.
Proof.
  intros NB G. unfold dstep, dstep_gen. cbn [conn_of_dop]. rewrite G. cbn [existsb]. unfold dstep0.
  destruct (d_dead d) as [|x xs] eqn:DD.
  - cbn [rstep]. rewrite NB. cbn [fst snd lift o_code do_code d_s d_dead r_ch].
    split; [reflexivity|]. split; [reflexivity|].
    intros p ch' H. rewrite nth_error_map in H. destruct (nth_error (r_ch (d_s d)) p) as [ch|]; [|discriminate].
    cbn [option_map] in H. inversion H; subst. exists ch. split; [reflexivity|].
    unfold is_dead. rewrite DD. reflexivity.
  - rewrite NB. cbn [fst snd do_code d_s d_dead r_ch]. split; [reflexivity|]. split; [reflexivity|].
    intros p ch' H. rewrite nth_error_mapi in H. cbn [plus] in H.
    destruct (nth_error (r_ch (d_s d)) p) as [ch|]; [|discriminate]. cbn [option_map] in H.
    inversion H; subst. exists ch. split; reflexivity.
Qed.

(* "closed" reaches exactly the live protocols; it is refused only for a connection with a
   report in progress *)
Lemma closed_reaches_live d c :
  busy (d_s d) c = false -> d_gone d = [] ->
  let d' := fst (dstep d (DBase (RClosed c))) in
  do_code (snd (dstep d (DBase (RClosed c)))) <> 2 /\
  d_dead d' = d_dead d /\
  forall p ch', nth_error (r_ch (d_s d')) p = Some ch' ->
    exists ch, nth_error (r_ch (d_s d)) p = Some ch /\
               ch' = if is_dead d (N.of_nat p) then ch else send_one (r_cap (d_s d)) c (IClosed c) ch.
Proof.
  intros NB G. unfold dstep, dstep_gen. cbn [conn_of_dop]. rewrite G. cbn [existsb]. unfold dstep0.
  destruct (d_dead d) as [|x xs] eqn:DD.
  - cbn [rstep]. rewrite NB. cbn [fst snd lift o_code do_code d_s d_dead r_ch].
    split; [match goal with |- (if ?b then _ else _) <> _ => destruct b end; intros E; discriminate E|]. split; [reflexivity|].
    intros p ch' H. rewrite nth_error_map in H. destruct (nth_error (r_ch (d_s d)) p) as [ch|]; [|discriminate].
    cbn [option_map] in H. inversion H; subst. exists ch. split; [reflexivity|].
    unfold is_dead. rewrite DD. reflexivity.
  - rewrite NB. cbn [fst snd do_code d_s d_dead r_ch].
    split; [match goal with |- (if ?b then _ else _) <> _ => destruct b end; intros E; discriminate E|]. split; [reflexivity|].
    intros p ch' H. rewrite nth_error_mapi in H. cbn [plus] in H.
    destruct (nth_error (r_ch (d_s d)) p) as [ch|]; [|discriminate]. cbn [option_map] in H.
    inversion H; subst. exists ch. split; reflexivity.
Qed.

(* ---- trace level: what a protocol that is alive at the end has been handed ---- *)
Definition dstarted (r : dout) : bool := (do_code r =? 0) || (do_code r =? 1).
Definition dsent_p (p : nat) (o : dop) (r : dout) : list item :=
  match o with
  | DEst c _ | DBase (REst c) => if dstarted r then [IEst c] else []
  | DBase (RClosed c) => if do_code r =? 2 then [] else [IClosed c]
  | DBase (RSubOpen c q d) => if dstarted r && Nat.eqb (N.to_nat q) p then [IOpened c d] else []
  | DBase (RSubFail c q i) => if dstarted r && Nat.eqb (N.to_nat q) p then [IFailure c i] else []
  | _ => []
  end.

Lemma sent_p_lift p b r :
  (forall c, b = RClosed c -> o_code r = 0 \/ o_code r = 1 \/ o_code r = 2) ->
  sent_p p b r = dsent_p p (DBase b) (lift r).
Proof.
  intros HC. unfold sent_p, dsent_p, dstarted, started, lift. cbn [do_code].
  destruct b as [c q d|c q i|c|c|q k].
  - destruct ((o_code r =? 0) || (o_code r =? 1)); cbn [andb]; [destruct (Nat.eqb _ _)|]; reflexivity.
  - destruct ((o_code r =? 0) || (o_code r =? 1)); cbn [andb]; [destruct (Nat.eqb _ _)|]; reflexivity.
  - reflexivity.
  - destruct (HC c eq_refl) as [E|[E|E]]; rewrite E; reflexivity.
  - destruct ((o_code r =? 0) || (o_code r =? 1)); reflexivity.
Qed.
Lemma rclosed_code s c :
  let r := snd (rstep s (RClosed c)) in o_code r = 0 \/ o_code r = 1 \/ o_code r = 2.
Proof.
  cbn [rstep]. destruct (busy s c); cbn [snd o_code]; [auto|].
  match goal with |- context [if ?b then 1 else 0] => destruct b end; auto.
Qed.

Lemma is_dead_cons d q p D G : is_dead (mkD (d_s d) (q :: D) G) p = (p =? q) || existsb (N.eqb p) D.
Proof. reflexivity. Qed.

Lemma dstep_logs d o p ch :
  d_gone d = [] -> nth_error (r_ch (d_s d)) p = Some ch ->
  is_dead (fst (dstep d o)) (N.of_nat p) = false ->
  exists ch', nth_error (r_ch (d_s (fst (dstep d o)))) p = Some ch' /\
              racc ch' = racc ch ++ dsent_p p o (snd (dstep d o)).
Proof.
  intros G H. unfold dstep, dstep_gen. rewrite G. cbn [existsb].
  assert (E : (match conn_of_dop o with Some _ => dstep0 true d o | None => dstep0 true d o end) = dstep0 true d o)
    by (destruct (conn_of_dop o); reflexivity).
  rewrite E. clear E.
  assert (SAME : forall r, dsent_p p o r = [] -> exists ch', nth_error (r_ch (d_s (fst (d, r)))) p = Some ch' /\
                 racc ch' = racc ch ++ dsent_p p o (snd (d, r))).
  { intros r Z. cbn [fst snd]. exists ch. rewrite Z, app_nil_r. auto. }
  assert (BASE : forall b D, (forall c, b = RClosed c -> True) ->
            exists ch', nth_error (r_ch (d_s (mkD (fst (rstep (d_s d) b)) D (d_gone d)))) p = Some ch' /\
                        racc ch' = racc ch ++ sent_p p b (snd (rstep (d_s d) b))).
  { intros b D _. destruct (rstep_logs (d_s d) b p ch H) as [ch' [E1 [E2 _]]]. exists ch'. cbn [d_s]. auto. }
  assert (KILL : forall q D,
            is_dead (mkD (mkR (r_cap (d_s d)) (upd (N.to_nat q) (fun ch0 => mkRc [] [] (racc ch0) (rdel ch0)) (r_ch (d_s d))))
                         (q :: D) (d_gone d)) (N.of_nat p) = false ->
            exists ch', nth_error (r_ch (d_s (mkD (mkR (r_cap (d_s d)) (upd (N.to_nat q) (fun ch0 => mkRc [] [] (racc ch0) (rdel ch0)) (r_ch (d_s d))))
                         (q :: D) (d_gone d)))) p = Some ch' /\ racc ch' = racc ch ++ []).
  { intros q D HD. unfold is_dead in HD. cbn [d_dead existsb] in HD. apply orb_false_iff in HD. destruct HD as [HD _].
    cbn [d_s r_ch]. rewrite nth_error_upd, H. destruct (Nat.eqb (N.to_nat q) p) eqn:EQ.
    - apply Nat.eqb_eq in EQ. subst p. rewrite N2Nat.id, N.eqb_refl in HD. discriminate.
    - exists ch. rewrite app_nil_r. auto. }
  unfold dstep0. destruct (d_dead d) as [|x xs] eqn:DD.
  - destruct o as [b|c m|q].
    + intros _. destruct (BASE b [] (fun _ _ => I)) as [ch' [E1 E2]].
      pose proof (rclosed_code (d_s d)) as RC.
      destruct (rstep (d_s d) b) as [s' r] eqn:RS. cbn [fst snd d_s] in *. exists ch'. split; [exact E1|].
      rewrite E2. f_equal. apply sent_p_lift. intros c ->. specialize (RC c). rewrite RS in RC. exact RC.
    + intros _. destruct (BASE (REst c) [] (fun _ _ => I)) as [ch' [E1 E2]].
      destruct (rstep (d_s d) (REst c)) as [s' r] eqn:RS. cbn [fst snd d_s] in *. exists ch'. split; [exact E1|].
      rewrite E2. reflexivity.
    + destruct (_ || _); [intros _; apply SAME; reflexivity|]. cbn [fst snd]. intros HD. apply (KILL q [] HD).
  - destruct o as [b|c m|q].
    + destruct b as [c1 p0 d0|c1 p0 id|c1|c1|p0 k].
      * destruct (busy (d_s d) c1); [intros _; apply SAME; reflexivity|].
        destruct (is_dead d p0); [intros _; apply SAME; reflexivity|].
        intros _. destruct (BASE (RSubOpen c1 p0 d0) (x :: xs) (fun _ _ => I)) as [ch' [E1 E2]].
        destruct (rstep (d_s d) (RSubOpen c1 p0 d0)) as [s' r] eqn:RS. cbn [fst snd d_s] in *. exists ch'. split; [exact E1|].
        rewrite E2. f_equal. apply sent_p_lift. intros c E0. discriminate E0.
      * destruct (busy (d_s d) c1); [intros _; apply SAME; reflexivity|].
        destruct (is_dead d p0); [intros _; apply SAME; reflexivity|].
        intros _. destruct (BASE (RSubFail c1 p0 id) (x :: xs) (fun _ _ => I)) as [ch' [E1 E2]].
        destruct (rstep (d_s d) (RSubFail c1 p0 id)) as [s' r] eqn:RS. cbn [fst snd d_s] in *. exists ch'. split; [exact E1|].
        rewrite E2. f_equal. apply sent_p_lift. intros c E0. discriminate E0.
      * intros _. apply SAME. reflexivity.
      * destruct (busy (d_s d) c1); [intros _; apply SAME; reflexivity|].
        cbn [fst snd d_s d_dead r_ch]. intros HD. unfold is_dead in HD. cbn [d_dead] in HD.
        rewrite nth_error_mapi, H. cbn [plus option_map]. unfold is_dead. rewrite DD, HD.
        eexists. split; [reflexivity|]. destruct (send_one_logs (r_cap (d_s d)) c1 (IClosed c1) ch) as [A _].
        rewrite A. unfold dsent_p. cbn [do_code].
        match goal with |- context [if ?b then 1 else 3] => destruct b end; reflexivity.
      * destruct (is_dead d p0); [intros _; apply SAME; reflexivity|].
        intros _. destruct (BASE (RDrain p0 k) (x :: xs) (fun _ _ => I)) as [ch' [E1 E2]].
        destruct (rstep (d_s d) (RDrain p0 k)) as [s' r] eqn:RS. cbn [fst snd d_s] in *. exists ch'. split; [exact E1|].
        rewrite E2. f_equal. unfold sent_p. destruct (started r); reflexivity.
    + destruct (busy (d_s d) c); [intros _; apply SAME; reflexivity|].
      cbn [fst snd d_s d_dead r_ch]. intros HD. unfold is_dead in HD. cbn [d_dead] in HD.
      rewrite nth_error_mapi, H. cbn [plus option_map]. unfold is_dead. rewrite DD, HD.
      eexists. split; [reflexivity|]. destruct (send_one_logs (r_cap (d_s d)) c (IEst c) ch) as [A _].
      rewrite A. unfold dsent_p, dstarted. cbn [do_code].
      match goal with |- context [if ?b then 1 else 0] => destruct b end; reflexivity.
    + destruct (_ || _); [intros _; apply SAME; reflexivity|]. cbn [fst snd]. intros HD. apply (KILL q (x :: xs) HD).
Qed.

Fixpoint dsent_all (p : nat) (l : list dop) (rs : list dout) : list item :=
  match l, rs with
  | o :: l', r :: rs' => dsent_p p o r ++ dsent_all p l' rs'
  | _, _ => []
  end.

(* a dead protocol stays dead *)
Lemma dead_mono_step d o p : is_dead d p = true -> is_dead (fst (dstep d o)) p = true.
Proof.
  intros HD. unfold dstep, dstep_gen.
  assert (ST : forall fixed, is_dead (fst (dstep0 fixed d o)) p = true).
  { intros fixed. unfold dstep0. destruct (d_dead d) as [|x xs] eqn:DD; [unfold is_dead in HD; rewrite DD in HD; discriminate|].
    assert (KEEP : forall s' G', is_dead (mkD s' (x :: xs) G') p = true)
      by (intros; unfold is_dead in *; rewrite DD in HD; exact HD).
    destruct o as [b|c m|q].
    - destruct b as [c1 p0 d0|c1 p0 id|c1|c1|p0 k].
      + destruct (busy (d_s d) c1); [exact HD|]. destruct (is_dead d p0); [exact HD|].
        destruct (rstep (d_s d) (RSubOpen c1 p0 d0)). apply KEEP.
      + destruct (busy (d_s d) c1); [exact HD|]. destruct (is_dead d p0); [exact HD|].
        destruct (rstep (d_s d) (RSubFail c1 p0 id)). apply KEEP.
      + exact HD.
      + destruct (busy (d_s d) c1); [exact HD | apply KEEP].
      + destruct (is_dead d p0); [exact HD|]. destruct (rstep (d_s d) (RDrain p0 k)). apply KEEP.
    - destruct (busy (d_s d) c); [exact HD|]. destruct fixed; apply KEEP.
    - destruct (_ || _); [exact HD|]. cbn [fst]. unfold is_dead in *. cbn [d_dead existsb].
      rewrite DD in HD. cbn [existsb] in HD. rewrite HD. apply orb_true_r. }
  destruct (conn_of_dop o); [destruct (existsb _ (d_gone d)); [exact HD | apply ST] | apply ST].
Qed.
Lemma dead_mono l : forall d p, is_dead (dfinal d l) p = false -> is_dead d p = false.
Proof.
  induction l as [|o l IH]; intros d p H; cbn [dfinal] in H; [exact H|].
  apply IH in H. destruct (is_dead d p) eqn:E; [|reflexivity].
  rewrite (dead_mono_step d o p E) in H. discriminate.
Qed.
Lemma gone_final_nil l : forall d, d_gone d = [] -> d_gone (dfinal d l) = [].
Proof. induction l as [|o l IH]; intros d G; cbn [dfinal]; [exact G | apply IH, gone_stays_nil, G]. Qed.

Lemma dlogs_are_trace l : forall d p ch,
  d_gone d = [] -> nth_error (r_ch (d_s d)) p = Some ch ->
  is_dead (dfinal d l) (N.of_nat p) = false ->
  exists ch', nth_error (r_ch (d_s (dfinal d l))) p = Some ch' /\
              racc ch' = racc ch ++ dsent_all p l (drun d l).
Proof.
  induction l as [|o l IH]; intros d p ch G H HD; cbn [dfinal drun dsent_all] in *.
  - exists ch. rewrite app_nil_r. auto.
  - pose proof (dead_mono l _ _ HD) as HD1.
    destruct (dstep_logs d o p ch G H HD1) as [ch1 [H1 A1]].
    pose proof (gone_stays_nil d o G) as G1.
    destruct (dstep d o) as [d1 r1]. cbn [fst snd] in *.
    destruct (IH d1 p ch1 G1 H1 HD) as [ch2 [H2 A2]]. exists ch2. split; [exact H2|].
    rewrite A2, A1, <- app_assoc. reflexivity.
Qed.

(* the connection-level events among them do not depend on the protocol: they are the accepted
   established / closed reports of the history, in order *)
Definition is_conn_item (i : item) : bool := match i with IEst _ | IClosed _ => true | _ => false end.
Definition conn_rep (o : dop) (r : dout) : list item :=
  match o with
  | DEst c _ | DBase (REst c) => if dstarted r then [IEst c] else []
  | DBase (RClosed c) => if do_code r =? 2 then [] else [IClosed c]
  | _ => []
  end.
Fixpoint conn_reports (l : list dop) (rs : list dout) : list item :=
  match l, rs with
  | o :: l', r :: rs' => conn_rep o r ++ conn_reports l' rs'
  | _, _ => []
  end.
Lemma conn_items_sent p o r : filter is_conn_item (dsent_p p o r) = conn_rep o r.
Proof.
  destruct o as [b|c m|q]; [destruct b as [c q d|c q i|c|c|q k]|..]; cbn [dsent_p conn_rep].
  - destruct (dstarted r && Nat.eqb (N.to_nat q) p); reflexivity.
  - destruct (dstarted r && Nat.eqb (N.to_nat q) p); reflexivity.
  - destruct (dstarted r); reflexivity.
  - destruct (do_code r =? 2); reflexivity.
  - reflexivity.
  - destruct (dstarted r); reflexivity.
  - reflexivity.
Qed.
Lemma conn_items_all p l : forall rs, filter is_conn_item (dsent_all p l rs) = conn_reports l rs.
Proof.
  induction l as [|o l IH]; intros rs; cbn [dsent_all conn_reports]; [reflexivity|].
  destruct rs as [|r rs]; [reflexivity|]. rewrite filter_app, conn_items_sent, IH. reflexivity.
Qed.

(* every protocol that is alive at the end of a history has been handed exactly the accepted
   established / closed reports of that history, each once, in order — so whoever was told
   "established" for a connection is told "closed" for it exactly when, and as often as, the
   connection task reported it (once), unless the protocol exits first *)
Lemma established_closed_paired l nproto cap p ch :
  nth_error (r_ch (d_s (dfinal (dinit nproto cap) l))) p = Some ch ->
  is_dead (dfinal (dinit nproto cap) l) (N.of_nat p) = false ->
  filter is_conn_item (racc ch) = conn_reports l (drun (dinit nproto cap) l).
Proof.
  intros H HD.
  assert (LT : (p < nproto)%nat).
  { assert (LEN : forall l d, length (r_ch (d_s (dfinal d l))) = length (r_ch (d_s d))).
    { clear. induction l as [|o l IH]; intros d; cbn [dfinal]; [reflexivity|]. rewrite IH. clear IH.
      unfold dstep, dstep_gen.
      assert (ST : length (r_ch (d_s (fst (dstep0 true d o)))) = length (r_ch (d_s d))).
      { assert (ML : forall (f : nat -> rchan -> rchan) i (x : list rchan), length (mapi f i x) = length x).
        { intros f i x. revert i. induction x as [|h t IHx]; intros i; cbn [mapi length]; [reflexivity | rewrite IHx; reflexivity]. }
        unfold dstep0. destruct (d_dead d) as [|x xs].
        - destruct o as [b|c m|q].
          + pose proof (rstep_len (d_s d) b) as RL. destruct (rstep (d_s d) b). exact RL.
          + pose proof (rstep_len (d_s d) (REst c)) as RL. destruct (rstep (d_s d) (REst c)). exact RL.
          + destruct (_ || _); [reflexivity|]. cbn [fst d_s r_ch]. apply upd_length.
        - destruct o as [b|c m|q].
          + destruct b as [c1 p0 d0|c1 p0 id|c1|c1|p0 k].
            * destruct (busy (d_s d) c1); [reflexivity|]. destruct (is_dead d p0); [reflexivity|].
              pose proof (rstep_len (d_s d) (RSubOpen c1 p0 d0)) as RL. destruct (rstep (d_s d) (RSubOpen c1 p0 d0)). exact RL.
            * destruct (busy (d_s d) c1); [reflexivity|]. destruct (is_dead d p0); [reflexivity|].
              pose proof (rstep_len (d_s d) (RSubFail c1 p0 id)) as RL. destruct (rstep (d_s d) (RSubFail c1 p0 id)). exact RL.
            * reflexivity.
            * destruct (busy (d_s d) c1); [reflexivity|]. cbn [fst d_s r_ch]. apply ML.
            * destruct (is_dead d p0); [reflexivity|].
              pose proof (rstep_len (d_s d) (RDrain p0 k)) as RL. destruct (rstep (d_s d) (RDrain p0 k)). exact RL.
          + destruct (busy (d_s d) c); [reflexivity|]. cbn [fst d_s r_ch]. apply ML.
          + destruct (_ || _); [reflexivity|]. cbn [fst d_s r_ch]. apply upd_length. }
      destruct (conn_of_dop o); [destruct (existsb _ (d_gone d)); [reflexivity | exact ST] | exact ST]. }
    assert (p < length (r_ch (d_s (dfinal (dinit nproto cap) l))))%nat by (apply nth_error_Some; congruence).
    rewrite LEN in H0. unfold dinit, rinit in H0. cbn [d_s r_ch] in H0. rewrite repeat_length in H0. exact H0. }
  assert (E0 : nth_error (r_ch (d_s (dinit nproto cap))) p = Some (mkRc [] [] [] [])).
  { unfold dinit, rinit. cbn [d_s r_ch]. clear -LT. revert p LT. induction nproto as [|n IH]; intros p LT; [lia|].
    cbn [repeat]. destruct p; [reflexivity|]. cbn [nth_error]. apply IH. lia. }
  destruct (dlogs_are_trace l (dinit nproto cap) p _ eq_refl E0 HD) as [ch' [H' A]].
  rewrite H in H'. inversion H'; subst ch'. rewrite A. cbn [racc app]. apply conn_items_all.
Qed.
