(* Ts/ReportDeadProofs — lemmas about the dead-protocol layer of the report model (C08). *)
From Coq Require Import List NArith Bool PeanoNat Lia.
From V.Ts Require Import Report ReportProofs ReportDead.
Import ListNotations.
Open Scope N_scope.

(* ---- without a dead protocol the layer is the base model ---- *)
Definition base_of (o : dop) : option rop :=
  match o with DBase b => Some b | DEst c _ => Some (REst c) | DKill _ => None end.

Lemma dstep_nodead s o b :
  base_of o = Some b ->
  dstep (mkD s [] []) o = (mkD (fst (rstep s b)) [] [], lift (snd (rstep s b))).
Proof.
  intros H. destruct o as [b0|c m|p]; cbn [base_of] in H; inversion H; subst.
  - unfold dstep, dstep_gen. cbn [d_gone existsb]. destruct (conn_of_dop (DBase b)); unfold dstep0; cbn [d_dead d_s d_gone];
      destruct (rstep s b) as [s' r]; reflexivity.
  - unfold dstep, dstep_gen. cbn [conn_of_dop d_gone existsb]. unfold dstep0. cbn [d_dead d_s d_gone].
    destruct (rstep s (REst c)) as [s' r]; reflexivity.
Qed.

Fixpoint all_base (l : list dop) : option (list rop) :=
  match l with
  | [] => Some []
  | o :: t => match base_of o, all_base t with Some b, Some bs => Some (b :: bs) | _, _ => None end
  end.

Lemma drun_nodead l : forall s bs,
  all_base l = Some bs ->
  dfinal (mkD s [] []) l = mkD (rfinal s bs) [] [] /\ drun (mkD s [] []) l = map lift (rrun s bs).
Proof.
  induction l as [|o l IH]; intros s bs H; cbn [all_base] in H.
  - inversion H; subst. cbn. auto.
  - destruct (base_of o) as [b|] eqn:B; [|discriminate]. destruct (all_base l) as [bs'|] eqn:A; [|discriminate].
    inversion H; subst bs. cbn [dfinal drun rfinal rrun]. rewrite (dstep_nodead s o b B). cbn [fst snd].
    destruct (IH (fst (rstep s b)) bs' eq_refl) as [I1 I2].
    destruct (rstep s b) as [s' r]. cbn [fst snd map] in *. rewrite I1, I2. auto.
Qed.

(* ---- what the remaining protocols observe when "established" meets a dead protocol ---- *)
Lemma nth_error_mapi {A B} (f : nat -> A -> B) l : forall i n,
  nth_error (mapi f i l) n = option_map (f (i + n)%nat) (nth_error l n).
Proof.
  induction l as [|h t IH]; intros i n; cbn [mapi].
  - destruct n; reflexivity.
  - destruct n; cbn [nth_error option_map].
    + rewrite Nat.add_0_r. reflexivity.
    + rewrite IH. f_equal. f_equal. lia.
Qed.

Lemma try_now_no_wait cap it ch : rw (try_now cap it ch) = rw ch.
Proof.
  unfold try_now. destruct (rw ch) eqn:W; [|exact W].
  destruct (Nat.ltb (length (rq ch)) cap); cbn [rw]; auto.
Qed.

Lemma est_dead_observation d c mask :
  d_dead d <> [] -> busy (d_s d) c = false -> existsb (N.eqb c) (d_gone d) = false ->
  let d' := fst (dstep_before_fix d (DEst c mask)) in
  do_code (snd (dstep_before_fix d (DEst c mask))) = 3 /\
  d_dead d' = d_dead d /\ d_gone d' = c :: d_gone d /\
  (* the report has returned: nothing of connection c is left waiting *)
  (forall p ch', nth_error (r_ch (d_s d')) p = Some ch' ->
     exists ch, nth_error (r_ch (d_s d)) p = Some ch /\ rw ch' = rw ch /\ rdel ch' = rdel ch /\
       (* each protocol has been told "established" once, or nothing *)
       (ch' = ch \/
        (rq ch' = rq ch ++ [IEst c] /\ racc ch' = racc ch ++ [IEst c] /\
         N.testbit mask (N.of_nat p) = true /\ is_dead d (N.of_nat p) = false /\
         rw ch = [] /\ (length (rq ch) < r_cap (d_s d))%nat))).
Proof.
  intros ND NB NG. unfold dstep_before_fix, dstep_gen. cbn [conn_of_dop]. rewrite NG. unfold dstep0.
  destruct (d_dead d) as [|x xs] eqn:DD; [congruence|].
  rewrite NB. cbn [fst snd do_code d_dead d_s d_gone r_ch]. split; [reflexivity|]. split; [reflexivity|].
  split; [reflexivity|].
  intros p ch' H. rewrite nth_error_mapi in H. cbn [plus] in H.
  destruct (nth_error (r_ch (d_s d)) p) as [ch|] eqn:E; [|discriminate]. cbn [option_map] in H.
  exists ch. split; [reflexivity|].
  destruct (N.testbit mask (N.of_nat p) && negb (is_dead d (N.of_nat p))) eqn:B.
  - inversion H; subst ch'. apply andb_true_iff in B. destruct B as [B1 B2]. apply negb_true_iff in B2.
    rewrite try_now_no_wait. split; [reflexivity|].
    unfold try_now. destruct (rw ch) eqn:W; [|split; [reflexivity | left; reflexivity]].
    destruct (Nat.ltb (length (rq ch)) (r_cap (d_s d))) eqn:L; [|split; [reflexivity | left; reflexivity]].
    cbn [rdel rq racc]. split; [reflexivity|]. right. apply Nat.ltb_lt in L. repeat split; auto.
  - inversion H; subst ch'. split; [reflexivity|]. split; [reflexivity | left; reflexivity].
Qed.

(* no input of this layer ever produces a "closed" event for that connection except an explicit
   report_connection_closed — which Transport::accept never issues after the failure *)
Lemma only_closed_reports_closed0 fixed d o c p ch ch' :
  nth_error (r_ch (d_s d)) p = Some ch -> nth_error (r_ch (d_s (fst (dstep0 fixed d o)))) p = Some ch' ->
  (forall b, o <> DBase (RClosed b)) ->
  ~ In (IClosed c) (racc ch) -> ~ In (IClosed c) (racc ch').
Proof.
  intros H H' NC NI.
  assert (SEND : forall cap x it q, it <> IClosed c -> ~ In (IClosed c) (racc q) ->
                 ~ In (IClosed c) (racc (send_one cap x it q))).
  { intros cap x it q NE N0. destruct (send_one_logs cap x it q) as [A _]. rewrite A.
    intros C. apply in_app_or in C. destruct C as [C|[C|[]]]; [contradiction | congruence]. }
  assert (BASE : forall s b q q', (forall x, b <> RClosed x) ->
                 nth_error (r_ch s) p = Some q -> nth_error (r_ch (fst (rstep s b))) p = Some q' ->
                 ~ In (IClosed c) (racc q) -> ~ In (IClosed c) (racc q')).
  { intros s b q q' NB Hq Hq' N0. destruct (rstep_logs s b p q Hq) as [q2 [E2 [A2 _]]].
    rewrite E2 in Hq'. inversion Hq'; subst q2. rewrite A2. intros C. apply in_app_or in C.
    destruct C as [C|C]; [contradiction|]. unfold sent_p in C. destruct (started (snd (rstep s b))); [|destruct C].
    destruct b; try (destruct (Nat.eqb _ _); [destruct C as [C|[]]; discriminate | destruct C]).
    - destruct C as [C|[]]; discriminate.
    - exfalso. eapply NB. reflexivity.
    - destruct C. }
  destruct o as [b|c0 m|q]; unfold dstep0 in H'.
  - assert (NB : forall x, b <> RClosed x) by (intros x E; eapply NC; rewrite E; reflexivity).
    destruct (d_dead d) as [|x xs] eqn:DD.
    + pose proof (BASE (d_s d) b ch ch' NB H) as BB. destruct (rstep (d_s d) b) as [s' r]. cbn [fst d_s] in *. auto.
    + destruct b as [c1 p0 d0|c1 p0 id|c1|c1|p0 k].
      * destruct (busy (d_s d) c1); [cbn [fst] in H'; congruence|].
        destruct (is_dead d p0); [cbn [fst] in H'; congruence|].
        pose proof (BASE (d_s d) (RSubOpen c1 p0 d0) ch ch' NB H) as BB.
        destruct (rstep (d_s d) (RSubOpen c1 p0 d0)) as [s' r]. cbn [fst d_s] in *. auto.
      * destruct (busy (d_s d) c1); [cbn [fst] in H'; congruence|].
        destruct (is_dead d p0); [cbn [fst] in H'; congruence|].
        pose proof (BASE (d_s d) (RSubFail c1 p0 id) ch ch' NB H) as BB.
        destruct (rstep (d_s d) (RSubFail c1 p0 id)) as [s' r]. cbn [fst d_s] in *. auto.
      * cbn [fst] in H'. congruence.
      * exfalso. eapply NB. reflexivity.
      * destruct (is_dead d p0); [cbn [fst] in H'; congruence|].
        pose proof (BASE (d_s d) (RDrain p0 k) ch ch' NB H) as BB.
        destruct (rstep (d_s d) (RDrain p0 k)) as [s' r]. cbn [fst d_s] in *. auto.
  - destruct (d_dead d) as [|x xs] eqn:DD.
    + assert (NB : forall x, REst c0 <> RClosed x) by (intros x E; discriminate).
      pose proof (BASE (d_s d) (REst c0) ch ch' NB H) as BB.
      destruct (rstep (d_s d) (REst c0)) as [s' r]. cbn [fst d_s] in *. auto.
    + destruct (busy (d_s d) c0); [cbn [fst] in H'; congruence|]. destruct fixed.
      * cbn [fst d_s r_ch] in H'. rewrite nth_error_mapi in H'. cbn [plus] in H'. rewrite H in H'. cbn [option_map] in H'.
        inversion H' as [E]. destruct (is_dead d (N.of_nat p)); [exact NI|].
        apply SEND; [discriminate | exact NI].
      * cbn [fst d_s r_ch] in H'. rewrite nth_error_mapi in H'. cbn [plus] in H'. rewrite H in H'. cbn [option_map] in H'.
        inversion H' as [E]. destruct (N.testbit m (N.of_nat p) && negb (is_dead d (N.of_nat p))); [|exact NI].
        unfold try_now. destruct (rw ch); [|exact NI]. destruct (Nat.ltb (length (rq ch)) (r_cap (d_s d))); [|exact NI].
        cbn [racc]. intros C. apply in_app_or in C. destruct C as [C|[C|[]]]; [contradiction | discriminate].
  - assert (KILL : forall D' G', nth_error (r_ch (d_s (mkD (mkR (r_cap (d_s d))
               (upd (N.to_nat q) (fun ch0 => mkRc [] [] (racc ch0) (rdel ch0)) (r_ch (d_s d)))) D' G'))) p = Some ch' ->
               ~ In (IClosed c) (racc ch')).
    { intros D' G' HK. cbn [d_s r_ch] in HK. rewrite nth_error_upd, H in HK.
      destruct (Nat.eqb (N.to_nat q) p); cbn [option_map] in HK; inversion HK; subst; exact NI. }
    destruct (d_dead d) as [|x xs] eqn:DD.
    + destruct (negb (Nat.ltb (N.to_nat q) (length (r_ch (d_s d)))) ||
                negb (match waiters (d_s d) with [] => true | _ => false end));
        [cbn [fst] in H'; congruence | cbn [fst] in H'; eapply KILL; eauto].
    + destruct (negb (Nat.ltb (N.to_nat q) (length (r_ch (d_s d)))) ||
                negb (match waiters (d_s d) with [] => true | _ => false end) || is_dead d q);
        [cbn [fst] in H'; congruence | cbn [fst] in H'; eapply KILL; eauto].
Qed.

Lemma only_closed_reports_closed_gen fixed d o c p ch ch' :
  nth_error (r_ch (d_s d)) p = Some ch -> nth_error (r_ch (d_s (fst (dstep_gen fixed d o)))) p = Some ch' ->
  (forall b, o <> DBase (RClosed b)) ->
  ~ In (IClosed c) (racc ch) -> ~ In (IClosed c) (racc ch').
Proof.
  intros H H' NC NI. unfold dstep_gen in H'.
  destruct (conn_of_dop o) as [cc|].
  - destruct (existsb (N.eqb cc) (d_gone d)).
    + cbn [fst] in H'. congruence.
    + exact (only_closed_reports_closed0 fixed d o c p ch ch' H H' NC NI).
  - exact (only_closed_reports_closed0 fixed d o c p ch ch' H H' NC NI).
Qed.
Lemma only_closed_reports_closed d o c p ch ch' :
  nth_error (r_ch (d_s d)) p = Some ch -> nth_error (r_ch (d_s (fst (dstep d o)))) p = Some ch' ->
  (forall b, o <> DBase (RClosed b)) ->
  ~ In (IClosed c) (racc ch) -> ~ In (IClosed c) (racc ch').
Proof. exact (only_closed_reports_closed_gen true d o c p ch ch'). Qed.

(* ---- the repaired report_connection_established (fix 2c7c81a) ---- *)
Lemma gone_stays_nil d o : d_gone d = [] -> d_gone (fst (dstep d o)) = [].
Proof.
  intros G. unfold dstep, dstep_gen. rewrite G. cbn [existsb].
  assert (E : (match conn_of_dop o with Some _ => dstep0 true d o | None => dstep0 true d o end) = dstep0 true d o)
    by (destruct (conn_of_dop o); reflexivity).
  rewrite E. unfold dstep0. destruct (d_dead d) as [|x xs].
  - destruct o as [b|c m|q].
    + destruct (rstep (d_s d) b). exact G.
    + destruct (rstep (d_s d) (REst c)). exact G.
    + destruct (_ || _); exact G.
  - destruct o as [b|c m|q].
    + destruct b as [c1 p0 d0|c1 p0 id|c1|c1|p0 k].
      * destruct (busy (d_s d) c1); [exact G|]. destruct (is_dead d p0); [exact G|].
        destruct (rstep (d_s d) (RSubOpen c1 p0 d0)). exact G.
      * destruct (busy (d_s d) c1); [exact G|]. destruct (is_dead d p0); [exact G|].
        destruct (rstep (d_s d) (RSubFail c1 p0 id)). exact G.
      * exact G.
      * destruct (busy (d_s d) c1); exact G.
      * destruct (is_dead d p0); [exact G|]. destruct (rstep (d_s d) (RDrain p0 k)). exact G.
    + destruct (busy (d_s d) c); exact G.
    + destruct (_ || _); exact G.
Qed.

(* every live protocol is handed "established" exactly once, dead ones are skipped, and the
   report does not fail: it is complete (0) or waits for room on a live protocol's channel (1) *)
Lemma est_skips_dead d c mask :
  busy (d_s d) c = false -> d_gone d = [] ->
  let d' := fst (dstep d (DEst c mask)) in
  let out := snd (dstep d (DEst c mask)) in
  do_code out = (if busy (d_s d') c then 1 else 0) /\
  d_dead d' = d_dead d /\
  forall p ch', nth_error (r_ch (d_s d')) p = Some ch' ->
    exists ch, nth_error (r_ch (d_s d)) p = Some ch /\
               ch' = if is_dead d (N.of_nat p) then ch else send_one (r_cap (d_s d)) c (IEst c) ch.
Proof.
  intros NB G. unfold dstep, dstep_gen. cbn [conn_of_dop]. rewrite G. cbn [existsb]. unfold dstep0.
  destruct (d_dead d) as [|x xs] eqn:DD.
  - cbn [rstep]. rewrite NB. cbn [fst snd lift o_code do_code d_s d_dead r_ch].
    split; [reflexivity|]. split; [reflexivity|].
    intros p ch' H. rewrite nth_error_map in H. destruct (nth_error (r_ch (d_s d)) p) as [ch|]; [|discriminate].
    cbn [option_map] in H. inversion H; subst. exists ch. split; [reflexivity|].
    unfold is_dead. rewrite DD. reflexivity.
  - rewrite NB. cbn [fst snd do_code d_s d_dead r_ch]. split; [reflexivity|]. split; [reflexivity|].
    intros p ch' H. rewrite nth_error_mapi in H. cbn [plus] in H.
    destruct (nth_error (r_ch (d_s d)) p) as [ch|]; [|discriminate]. cbn [option_map] in H.
    inversion H; subst. exists ch. split; reflexivity.
Qed.

(* "closed" reaches exactly the live protocols; it is refused only for a connection with a
   report in progress *)
Lemma closed_reaches_live d c :
  busy (d_s d) c = false -> d_gone d = [] ->
  let d' := fst (dstep d (DBase (RClosed c))) in
  do_code (snd (dstep d (DBase (RClosed c)))) <> 2 /\
  d_dead d' = d_dead d /\
  forall p ch', nth_error (r_ch (d_s d')) p = Some ch' ->
    exists ch, nth_error (r_ch (d_s d)) p = Some ch /\
               ch' = if is_dead d (N.of_nat p) then ch else send_one (r_cap (d_s d)) c (IClosed c) ch.
Proof.
  intros NB G. unfold dstep, dstep_gen. cbn [conn_of_dop]. rewrite G. cbn [existsb]. unfold dstep0.
  destruct (d_dead d) as [|x xs] eqn:DD.
  - cbn [rstep]. rewrite NB. cbn [fst snd lift o_code do_code d_s d_dead r_ch].
    split; [match goal with |- (if ?b then _ else _) <> _ => destruct b end; intros E; discriminate E|]. split; [reflexivity|].
    intros p ch' H. rewrite nth_error_map in H. destruct (nth_error (r_ch (d_s d)) p) as [ch|]; [|discriminate].
    cbn [option_map] in H. inversion H; subst. exists ch. split; [reflexivity|].
    unfold is_dead. rewrite DD. reflexivity.
  - rewrite NB. cbn [fst snd do_code d_s d_dead r_ch].
    split; [match goal with |- (if ?b then _ else _) <> _ => destruct b end; intros E; discriminate E|]. split; [reflexivity|].
    intros p ch' H. rewrite nth_error_mapi in H. cbn [plus] in H.
    destruct (nth_error (r_ch (d_s d)) p) as [ch|]; [|discriminate]. cbn [option_map] in H.
    inversion H; subst. exists ch. split; reflexivity.
Qed.
