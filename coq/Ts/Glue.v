(* Ts — wire format, model runner and the trace oracles of C08 and C09. Definitions only.

   case  : ka T next0 nops (dt tag args..)*
   trace : 1 (outs dump)*     one block per op, see enc_out / dump. *)
From Coq Require Import List NArith Bool.
From V.common Require Import Wire.
From V.Ts Require Import Model Report ReportDead.
Import ListNotations.
Open Scope N_scope.

(* identifiers on the wire: values near the top of the usize range (before the counter wraps) are
   written as 2^41 + (2^64 - id), everything else as itself; wire numbers stay below 2^62 *)
Definition W40 : N := 1099511627776.
Definition W41 : N := 2199023255552.
Definition wid (r : N) : N := if r <? W40 then r else W41 + (ID_MOD - r).
Definition rid (w : N) : N := if w <? W40 then w else ID_MOD - (w - W41).

Definition p_op : parser (N * ev) :=
  let* dt := pN in
  let* tag := pN in
  match tag with
  | 0 => pret (dt, ENone)
  | 1 => let* p := pN in let* c := pN in pret (dt, EEst p c)
  | 2 => let* p := pN in let* c := pN in pret (dt, EClosed p c)
  | 3 => let* p := pN in let* c := pN in let* m := pBool in pret (dt, ESubIn p c m)
  | 4 => let* i := pN in let* m := pBool in pret (dt, ESubOut (rid i) m)
  | 5 => let* i := pN in pret (dt, ESubFail (rid i))
  | 6 => let* p := pN in pret (dt, EDialFail p)
  | 7 => let* p := pN in pret (dt, EOpen p)
  | 8 => let* c := pN in pret (dt, EDropSub c)
  | 9 => let* c := pN in pret (dt, EOtherUp c)
  | 10 => let* c := pN in pret (dt, EOtherDown c)
  | 11 => let* n := pN in pret (dt, EBump n)
  | 12 => let* c := pN in pret (dt, EShutSub c)
  | 13 => let* p := pN in pret (dt, EOpenFull p)
  | 14 => let* p := pN in let* fs := pBool in let* fp := pBool in pret (dt, EForce p fs fp)
  (* dial(p) / dial_address / add_known_address (k = 0 / 1 / 2): TransportService only forwards them
     to its TransportManagerHandle (the manager's and the address book's models are C05 / C10); for
     the service they are a plain poll — which is what the differential run checks *)
  | 15 => let* p := pN in let* k := pN in if (p <? 1000000) && (k <? 3) then pret (dt, ENone) else pfail
  | _ => pfail
  end.

Fixpoint nodup_b (l : list N) : bool :=
  match l with [] => true | x :: t => negb (existsb (N.eqb x) t) && nodup_b t end.
Definition est_ids (tr : list (N * ev)) : list N :=
  flat_map (fun de => match snd de with EEst _ c => [c] | _ => [] end) tr.

(* a case is well-formed when it parses and no connection id is established twice (the harness
   owns one channel per connection id) and all numbers are small *)
Definition small (x : N) : bool := x <? 1000000.
Definition ev_small (e : ev) : bool :=
  match e with
  | EEst p c | EClosed p c | ESubIn p c _ => small p && small c
  | ESubOut i _ | ESubFail i => small i || ((ID_MOD - 2000000 <? i) && (i <? ID_MOD))
  | EDialFail p | EOpen p | EOpenFull p | EForce p _ _ => small p
  | EDropSub c | EOtherUp c | EOtherDown c | EShutSub c => small c
  | EBump n => small n
  | ENone => true
  end.
Definition decode_case (l : list N) : option (bool * N * N * list (N * ev)) :=
  match pall (let* ka := pBool in let* T := pN in let* n0 := pN in let* ops := plist p_op in
              pret (ka, T, n0, ops)) l with
  | Some (ka, T, n0, ops) =>
      (* the start value of the id counter: small, or `k below 2^64` written as 2^40 + k *)
      let n0r := if n0 <? W40 then n0 else ID_MOD - (n0 - W40) in
      if nodup_b (est_ids ops) && forallb (fun de => ev_small (snd de) && (fst de <? 100000000)) ops
         && (small n0 || ((W40 <? n0) && (n0 <? W40 + 1000000))) && (T <? 100000000) && (0 <? T)
      then Some (ka, T, n0r, ops) else None
  | None => None
  end.

(* ---- encoders ---- *)
Definition enc_out (o : out) : list N :=
  match o with
  | OEst p => [1; p; 0]
  | OClosed p => [2; p; 0]
  | OSub p d => [3; p; enc_opt (option_map wid d)]
  | OFail i _ => [4; wid i; 0]
  | ODial p => [5; p; 0]
  | ORet r i => [6; r; wid i]
  | OCmd c i => [7; c; wid i]
  | OPanic => [8; 0; 0]
  | OSkip => [9; 0; 0]
  | ODown p c => [10; p; c]
  | OForce c => [11; c; 0]
  | ORetF r => [12; r; 0]
  end.

Definition kkey (k : key) : N := fst k * 1000000 + snd k.
Definition enc_ctx (cx : ctx) : list N :=
  [c_peer cx; h_id (c_prim cx); b2n (h_act (c_prim cx))] ++
  match c_sec cx with Some h => [1; h_id h; b2n (h_act h)] | None => [0; 0; 0] end.
Definition dump (s : st) : list N :=
  enc_list enc_ctx (sort_by c_peer (s_ctxs s)) ++
  [wid (s_next s)] ++
  enc_list (fun k : key => [fst k; snd k]) (sort_by kkey (map fst (s_last s))) ++
  [N.of_nat (length (s_timers s))] ++
  enc_list (fun x : chan => [ch_id x; b2n (0 <? strong s (ch_id x))]) (sort_by ch_id (s_chans s)).

(* ODown events of one poll are reported sorted (the tracker's FuturesUnordered has no order) *)
Definition is_down (o : out) : bool := match o with ODown _ _ => true | _ => false end.
Definition down_key (o : out) : N := match o with ODown p c => kkey (p, c) | _ => 0 end.
Definition is_force (o : out) : bool := match o with OForce _ => true | _ => false end.
Definition force_key (o : out) : N := match o with OForce c => c | _ => 0 end.
(* ... and the ForceClose commands of one force_close call go to different channels: by channel *)
Definition canon_outs (os : list out) : list out :=
  filter (fun o => negb (is_down o) && negb (is_force o)) os ++ sort_by force_key (filter is_force os) ++
  sort_by down_key (filter is_down os).

Fixpoint run_trace (s : st) (tr : list (N * ev)) : list N :=
  match tr with
  | [] => []
  | (dt, e) :: t =>
      let '(s', os) := step s dt e in
      enc_list enc_out (canon_outs os) ++ dump s' ++ run_trace s' t
  end.

Definition run_case_svc (l : list N) : list N :=
  match decode_case l with
  | Some (ka, T, n0, ops) => 1 :: run_trace (init ka T n0) ops
  | None => [0]
  end.

(* ---- decoding a trace ---- *)
Inductive tout :=   (* outputs as they appear on the wire (no ghosts) *)
| TEst (p : N) | TClosed (p : N) | TSub (p : N) (d : option N) | TFail (i : N) | TDial (p : N)
| TRet (r i : N) | TCmd (c i : N) | TPanic | TSkip | TDown (p c : N) | TForce (c : N) | TRetF (r : N).
Definition p_tout : parser tout :=
  let* tag := pN in let* a := pN in let* b := pN in
  match tag with
  | 1 => pret (TEst a) | 2 => pret (TClosed a) | 3 => pret (TSub a (option_map rid (dec_opt b))) | 4 => pret (TFail (rid a))
  | 5 => pret (TDial a) | 6 => pret (TRet a (rid b)) | 7 => pret (TCmd a (rid b)) | 8 => pret TPanic
  | 9 => pret TSkip | 10 => pret (TDown a b) | 11 => pret (TForce a) | 12 => pret (TRetF a)
  | _ => pfail
  end.
Record tctx := mkT { t_peer : N; t_prim : N; t_pact : bool; t_sec : option (N * bool) }.
Definition p_tctx : parser tctx :=
  let* p := pN in let* a := pN in let* aa := pBool in let* h := pBool in let* b := pN in let* ba := pBool in
  pret (mkT p a aa (if h then Some (b, ba) else None)).
Record tdump := mkD { d_ctxs : list tctx; d_next : N; d_tracked : list key; d_timers : N;
                      d_alive : list (N * bool) }.
Definition p_dump : parser tdump :=
  let* cs := plist p_tctx in let* nx := pN in
  let* tk := plist (let* p := pN in let* c := pN in pret (p, c)) in
  let* nt := pN in
  let* al := plist (let* c := pN in let* a := pBool in pret (c, a)) in
  pret (mkD cs (rid nx) tk nt al).
Definition p_steps (n : nat) : parser (list (list tout * tdump)) :=
  prep n (let* os := plist p_tout in let* d := p_dump in pret (os, d)).

(* ---- the oracle: a walk over (case, observed trace) ---- *)
Record ost := mkO {
  o_now : N;
  o_live : list key;                 (* environment: open connections, in establishment order *)
  o_used : list N;
  o_conn : list N;                   (* peers the protocol has been told are connected *)
  o_pend : list (N * key);           (* accepted opens not yet answered *)
  o_maxid : option N;                (* largest id returned so far *)
  o_lastact : list (key * N);        (* C09: time of last keep-alive activity *)
  o_other : list (N * N);            (* C09: strong senders held by other protocols, per connection *)
  o_held : list (N * N);             (* C09: lifetime permits held by live substreams *)
  o_prev : tdump;
  o_ok8 : bool; o_ok9 : bool;
  o_scope : bool                     (* still inside the environment assumption *)
}.

Definition nfind (c : N) (l : list (N * N)) : N :=
  match find (fun e => fst e =? c) l with Some e => snd e | None => 0 end.
Definition nset (c v : N) (l : list (N * N)) : list (N * N) :=
  (c, v) :: filter (fun e => negb (fst e =? c)) l.
Definition mem (x : N) (l : list N) : bool := existsb (N.eqb x) l.
Definition kmem (k : key) (l : list key) : bool := existsb (key_eqb k) l.

Definition dump_act (d : tdump) (k : key) : option bool :=
  match find (fun t => t_peer t =? fst k) (d_ctxs d) with
  | Some t => if t_prim t =? snd k then Some (t_pact t)
              else match t_sec t with
                   | Some (c, a) => if c =? snd k then Some a else None
                   | None => None
                   end
  | None => None
  end.
Definition dump_keys (d : tdump) : list (key * bool) :=
  flat_map (fun t => ((t_peer t, t_prim t), t_pact t) ::
                     match t_sec t with Some (c, a) => [((t_peer t, c), a)] | None => [] end) (d_ctxs d).
Definition dump_alive (d : tdump) (c : N) : bool :=
  match find (fun e : N * bool => fst e =? c) (d_alive d) with Some e => snd e | None => false end.
Definition has_skip (os : list tout) : bool := existsb (fun o => match o with TSkip => true | _ => false end) os.

(* C08 part: the observed outputs of one step, processed in order *)
Record acc8 := mkA { a_conn : list N; a_pend : list (N * key); a_maxid : option N; a_ok : bool }.
Definition out8 (live : list key) (n0 : N) (e : ev) (os : list tout) (a : acc8) (o : tout) : acc8 :=
  match o with
  | TEst p => mkA (p :: a_conn a) (a_pend a) (a_maxid a) (a_ok a && negb (mem p (a_conn a)))
  | TClosed p => mkA (filter (fun q => negb (q =? p)) (a_conn a)) (a_pend a) (a_maxid a)
                     (a_ok a && mem p (a_conn a))
  | TSub p None => mkA (a_conn a) (a_pend a) (a_maxid a) (a_ok a && mem p (a_conn a))
  | TSub p (Some i) =>
      mkA (a_conn a) (pdel i (a_pend a)) (a_maxid a)
          (a_ok a && mem p (a_conn a) &&
           match pfind i (a_pend a) with Some k => fst k =? p | None => false end)
  | TFail i =>
      mkA (a_conn a) (pdel i (a_pend a)) (a_maxid a)
          (a_ok a && match pfind i (a_pend a) with Some k => mem (fst k) (a_conn a) | None => false end)
  | TRet 0 i =>
      match e with
      | EOpen p =>
          let prim := hd_error (live_of p live) in
          mkA (a_conn a)
              (a_pend a ++ match prim with Some c => [(i, (p, c))] | None => [] end)
              (Some ((i + ID_MOD - n0) mod ID_MOD))
              (a_ok a && mem p (a_conn a) &&
               (* identifiers advance strictly, counted modulo 2^64 from the start value *)
               match a_maxid a with Some m => m <? (i + ID_MOD - n0) mod ID_MOD | None => true end &&
               (* the command went to the primary = oldest open connection, with the same id *)
               match prim with
               | Some c => existsb (fun o' => match o' with TCmd c' i' => (c' =? c) && (i' =? i) | _ => false end) os
               | None => false
               end &&
               (N.of_nat (length (filter (fun o' => match o' with TCmd _ _ => true | _ => false end) os)) =? 1))
      | _ => mkA (a_conn a) (a_pend a) (a_maxid a) false
      end
  | TRet 1 _ =>    (* PeerDoesNotExist only for a peer that is not connected *)
      match e with
      | EOpen p | EOpenFull p => mkA (a_conn a) (a_pend a) (a_maxid a) (a_ok a && negb (mem p (a_conn a)))
      | _ => mkA (a_conn a) (a_pend a) (a_maxid a) false
      end
  | TRet _ _ => a      (* ConnectionClosed: judged against the channel state in step8 *)
  | TCmd _ _ => mkA (a_conn a) (a_pend a) (a_maxid a)
                    (a_ok a && existsb (fun o' => match o' with TRet 0 _ => true | _ => false end) os)
  | TPanic => mkA (a_conn a) (a_pend a) (a_maxid a) false
  | TForce c =>    (* ForceClose only on force_close(p), only to an open connection of p *)
      match e with
      | EForce p _ _ => mkA (a_conn a) (a_pend a) (a_maxid a) (a_ok a && mem c (live_of p live))
      | _ => mkA (a_conn a) (a_pend a) (a_maxid a) false
      end
  | TRetF r =>     (* PeerDoesntExist exactly for a peer that is not connected; Ok only with the command to the primary *)
      match e with
      | EForce p _ fp =>
          mkA (a_conn a) (a_pend a) (a_maxid a)
              (a_ok a && Bool.eqb (r =? 1) (negb (mem p (a_conn a))) && (r <? 4) &&
               (if r =? 0 then match hd_error (live_of p live) with
                               | Some c => existsb (fun o' => match o' with TForce c' => c' =? c | _ => false end) os
                               | None => false
                               end
                else true) &&
               (if r =? 3 then fp else true))
      | _ => mkA (a_conn a) (a_pend a) (a_maxid a) false
      end
  | TDial _ | TSkip | TDown _ _ => a
  end.

Definition peers_of (live : list key) : list N := map fst live.

Definition judge_step (cap : nat) (ka : bool) (T n0 : N) (o : ost) (dt : N) (e : ev)
                      (os : list tout) (d : tdump) : ost :=
  let now := o_now o + dt in
  (* is the input inside the environment assumption? *)
  let inscope :=
    o_scope o &&
    match e with
    | EEst p c => negb (mem c (o_used o)) && Nat.ltb (length (live_of p (o_live o))) cap
    | EClosed p c => kmem (p, c) (o_live o)
    | ESubIn p c _ => kmem (p, c) (o_live o)
    | ESubOut i _ | ESubFail i => match pfind i (o_pend o) with Some _ => true | None => false end
    | _ => true
    end in
  if negb inscope then
    mkO now (o_live o) (o_used o) (o_conn o) (o_pend o) (o_maxid o) (o_lastact o) (o_other o) (o_held o)
        d (o_ok8 o) (o_ok9 o) false
  else
  let live' := match e with
               | EEst p c => o_live o ++ [(p, c)]
               | EClosed p c => filter (fun k => negb (key_eqb k (p, c))) (o_live o)
               | _ => o_live o
               end in
  let used' := match e with EEst _ c => c :: o_used o | _ => o_used o end in
  (* the key an answer refers to *)
  let anskey := match e with
                | ESubOut i _ | ESubFail i => pfind i (o_pend o)
                | ESubIn p c _ => Some (p, c)
                | _ => None
                end in
  let pend0 := match e with
               | EClosed _ c => filter (fun x => negb (snd (snd x) =? c)) (o_pend o)
               | _ => o_pend o
               end in
  let a := fold_left (out8 (o_live o) n0 e os) os (mkA (o_conn o) pend0 (o_maxid o) true) in
  let skipped := has_skip os in
  let ok8 :=
    a_ok a &&
    (* told connected exactly for the peers that have an open connection *)
    forallb (fun p => Bool.eqb (mem p (a_conn a)) (mem p (peers_of live'))) (peers_of (o_live o) ++ peers_of live' ++ a_conn a) &&
    (* answers are forwarded, with the same id *)
    match e with
    | ESubFail i => existsb (fun x => match x with TFail j => j =? i | _ => false end) os
    | ESubOut i _ => existsb (fun x => match x with TSub _ (Some j) => j =? i | _ => false end) os
    | ESubIn p c _ => skipped || existsb (fun x => match x with TSub q None => q =? p | _ => false end) os
    | EOpenFull p =>
        (* a full command channel: ChannelClogged (or the two earlier refusals), never a command *)
        existsb (fun x => match x with TRet _ _ => true | _ => false end) os &&
        forallb (fun x => match x with
                          | TRet 2 _ => match hd_error (live_of p (o_live o)) with
                                        | Some c => negb (dump_alive (o_prev o) c)
                                        | None => false
                                        end
                          | TRet 3 _ => match hd_error (live_of p (o_live o)) with
                                        | Some c => dump_alive (o_prev o) c
                                        | None => false
                                        end
                          | TRet 1 _ => true
                          | TRet _ _ => false
                          | TCmd _ _ => false
                          | _ => true
                          end) os
    | EForce p _ _ =>
        (* force_close returns; ConnectionClosed only when the primary's channel has no strong sender left *)
        existsb (fun x => match x with TRetF _ => true | _ => false end) os &&
        forallb (fun x => match x with
                          | TRetF 2 => match hd_error (live_of p (o_live o)) with
                                       | Some c => negb (dump_alive (o_prev o) c)
                                       | None => false
                                       end
                          | _ => true
                          end) os
    | EOpen p =>
        (* accepted while connected, unless no permit can be had (no strong sender left) *)
        existsb (fun x => match x with TRet _ _ => true | _ => false end) os &&
        forallb (fun x => match x with
                          | TRet 2 _ => match hd_error (live_of p (o_live o)) with
                                        | Some c => negb (dump_alive (o_prev o) c)
                                        | None => false
                                        end
                          | TRet 0 _ | TRet 1 _ => true
                          | TRet _ _ => false
                          | _ => true
                          end) os
    | _ => true
    end &&
    (* the dump agrees: primary = oldest open connection, secondary = the other one *)
    forallb (fun t => nlist_eqb (t_prim t :: match t_sec t with Some (c, _) => [c] | None => [] end)
                                (live_of (t_peer t) live')) (d_ctxs d) &&
    (N.of_nat (length (d_ctxs d)) =? N.of_nat (length (a_conn a))) in
  (* ---- C09 ---- *)
  let sub_seen := existsb (fun x => match x with TSub _ _ => true | _ => false end) os in
  let actkey : option key :=
    match e with
    | EEst p c => if kmem (p, c) (map fst (dump_keys d)) then Some (p, c) else None
    | EOpen p => if ka then
                   match find (fun x => match x with TCmd _ _ => true | _ => false end) os with
                   | Some (TCmd c _) => Some (p, c)
                   | _ => None
                   end
                 else None
    | EOpenFull p =>   (* the refused open still counted as activity on the primary *)
        if ka && existsb (fun x => match x with TRet 3 _ => true | _ => false end) os
        then option_map (fun c => (p, c)) (hd_error (live_of p (o_live o))) else None
    | ESubIn _ _ m | ESubOut _ m => if sub_seen && m && ka then anskey else None
    | _ => None
    end in
  let lastact' := match actkey with Some k => kset k now (o_lastact o) | None => o_lastact o end in
  let conn_of_e := match e with
                   | ESubIn _ c _ => Some c
                   | ESubOut _ _ => option_map snd anskey
                   | _ => None
                   end in
  let held' := match e, conn_of_e with
               | (ESubIn _ _ _ | ESubOut _ _), Some c =>
                   if sub_seen && ka then nset c (nfind c (o_held o) + 1) (o_held o) else o_held o
               | EDropSub c, _ => if skipped then o_held o else nset c (nfind c (o_held o) - 1) (o_held o)
               | _, _ => o_held o
               end in
  let other' := match e with
                | EOtherUp c => if skipped then o_other o else nset c (nfind c (o_other o) + 1) (o_other o)
                | EOtherDown c => if skipped then o_other o else nset c (nfind c (o_other o) - 1) (o_other o)
                | EClosed _ c => nset c 0 (o_other o)
                | _ => o_other o
                end in
  let ok9 :=
    (* not before: a downgrade only when the last keep-alive activity is at least T old *)
    forallb (fun x => match x with
                      | TDown p c => match kfind (p, c) lastact' with
                                     | Some t => t + T <=? now
                                     | None => false
                                     end
                      | _ => true
                      end) os &&
    (* every Active -> Inactive flip of a handle is a reported downgrade *)
    forallb (fun ka' : key * bool =>
               match dump_act (o_prev o) (fst ka'), snd ka' with
               | Some true, false => existsb (fun x => match x with
                                                       | TDown p c => key_eqb (p, c) (fst ka')
                                                       | _ => false end) os
               | _, _ => true
               end) (dump_keys d) &&
    (* closes: after the poll no handle is Active whose last activity is T or more ago *)
    forallb (fun ka' : key * bool =>
               if snd ka' then match kfind (fst ka') lastact' with
                               | Some t => now <? t + T
                               | None => false
                               end
               else true) (dump_keys d) &&
    (* reference counting: the channel has a strong sender exactly when the service's handle is
       Active, an open is in flight, a keep-alive substream lives, or another protocol holds one *)
    forallb (fun ca : N * bool =>
               let c := fst ca in
               Bool.eqb (snd ca)
                 (existsb (fun ka' : key * bool => (snd (fst ka') =? c) && snd ka') (dump_keys d)
                  || (0 <? nfind c held') || (0 <? nfind c other')
                  || existsb (fun x : N * key => snd (snd x) =? c) (a_pend a))) (d_alive d) &&
    (* every tracked key has an armed sleep *)
    (N.of_nat (length (d_tracked d)) <=? d_timers d) &&
    forallb (fun k => kmem k (map fst (dump_keys d))) (d_tracked d) in
  mkO now live' used' (a_conn a) (a_pend a) (a_maxid a) lastact' other' held' d
      (o_ok8 o && ok8) (o_ok9 o && ok9) true.

Fixpoint judge (cap : nat) (ka : bool) (T n0 : N) (o : ost) (tr : list (N * ev))
               (obs : list (list tout * tdump)) : ost :=
  match tr, obs with
  | (dt, e) :: t, (os, d) :: ob => judge cap ka T n0 (judge_step cap ka T n0 o dt e os d) t ob
  | _, _ => o
  end.

Definition ost0 : ost := mkO 0 [] [] [] [] None [] [] [] (mkD [] 0 [] 0 []) true true true.

Definition judged (case trace : list N) : option ost :=
  match decode_case case, trace with
  | Some (ka, T, n0, ops), 1 :: body =>
      match pall (p_steps (length ops)) body with
      | Some obs => Some (judge 2 ka T n0 ost0 ops obs)
      | None => None
      end
  | _, _ => None
  end.

Definition prop_ok_C08_svc (case trace : list N) : bool :=
  match decode_case case, trace with
  | None, [0] => true
  | _, _ => match judged case trace with Some o => o_ok8 o | None => false end
  end.
Definition prop_ok_C09_svc (case trace : list N) : bool :=
  match decode_case case, trace with
  | None, [0] => true
  | _, _ => match judged case trace with Some o => o_ok9 o | None => false end
  end.

(* ====================================================================================
   report level (case kind 2): the reporting side of ProtocolSet, see Report.v / ReportDead.v
     case  : 2 nproto cap nops (tag a b c)*
             tag 1 report_substream_open(conn a, protocol b, direction c = 0 inbound | id+1)
                 2 report_substream_open_failure(conn a, protocol b, id c)
                 3 report_connection_established(conn a; b = bit mask of the protocols polled
                   before the first dead one, filled in by the harness from the table order of
                   the run — read only by the pre-fix variant of the model, the repaired function
                   does not depend on the order)
                 4 report_connection_closed(conn a)    5 protocol a receives up to b events
                 6 protocol a drops its receiver
     trace : 2 (code got done qlens nbusy)*
   ==================================================================================== *)
Definition p_dop : parser dop :=
  let* tag := pN in let* a := pN in let* b := pN in let* c := pN in
  match tag with
  | 1 => pret (DBase (RSubOpen a b (dec_opt c)))
  | 2 => pret (DBase (RSubFail a b c))
  | 3 => pret (DEst a b)
  | 4 => pret (DBase (RClosed a))
  | 5 => pret (DBase (RDrain a b))
  | 6 => pret (DKill a)
  | _ => pfail
  end.
Definition dop_small (o : dop) : bool :=
  match o with
  | DBase (RSubOpen c p d) => small c && small p && match d with Some i => small i | None => true end
  | DBase (RSubFail c p i) => small c && small p && small i
  | DBase (REst c) | DBase (RClosed c) => small c
  | DBase (RDrain p k) => small p && (k <? 1000)
  | DEst c m => small c && (m <? 256)
  | DKill p => small p
  end.
Definition rest_ids (l : list dop) : list N :=
  flat_map (fun o => match o with DEst c _ => [c] | _ => [] end) l.
(* a connection reports "established" at most once (ConnectionHandle::downgrade panics otherwise) *)
Definition decode_rcase (l : list N) : option (nat * nat * list dop) :=
  match pall (let* kind := pN in let* n := pN in let* cap := pN in let* ops := plist p_dop in
              pret (kind, n, cap, ops)) l with
  | Some (kind, n, cap, ops) =>
      if (kind =? 2) && (1 <=? n) && (n <=? 8) && (1 <=? cap) && (cap <=? 64) && forallb dop_small ops
         && nodup_b (rest_ids ops)
      then Some (N.to_nat n, N.to_nat cap, ops) else None
  | None => None
  end.

Definition enc_item (i : item) : list N :=
  match i with
  | IEst c => [1; c; 0]
  | IClosed c => [2; c; 0]
  | IOpened c d => [3; c; enc_opt d]
  | IFailure _ i => [4; 0; i]
  end.
Definition rdump (s : rst) : list N :=
  enc_list (fun ch => [N.of_nat (length (rq ch))]) (r_ch s) ++ [N.of_nat (length (sort_nodup (waiters s)))].
Fixpoint drun_trace (d : dst) (l : list dop) : list N :=
  match l with
  | [] => []
  | o :: t =>
      let '(d', r) := dstep d o in
      [do_code r] ++ enc_list enc_item (do_got r) ++ enc_list (fun c : N * N => [fst c; snd c]) (do_done r)
      ++ rdump (d_s d') ++ drun_trace d' t
  end.
Definition run_report (l : list N) : list N :=
  match decode_rcase l with
  | Some (n, cap, ops) => 2 :: drun_trace (dinit n cap) ops
  | None => [0]
  end.

(* ---- the report-level oracle ---- *)
Definition triple := (N * N * N)%type.
Definition triple_eqb (a b : triple) : bool :=
  (fst (fst a) =? fst (fst b)) && (snd (fst a) =? snd (fst b)) && (snd a =? snd b).
Fixpoint prefix_b (a b : list triple) : bool :=
  match a, b with
  | [], _ => true
  | x :: a', y :: b' => triple_eqb x y && prefix_b a' b'
  | _ :: _, [] => false
  end.
Definition p_triple : parser triple := let* a := pN in let* b := pN in let* c := pN in pret (a, b, c).
Record rstepobs := mkRS { rs_code : N; rs_got : list triple; rs_done : list (N * N); rs_qlens : list N; rs_busy : N }.
Definition p_rstep : parser rstepobs :=
  let* code := pN in let* got := plist p_triple in
  let* dn := plist (let* c := pN in let* rc := pN in pret (c, rc)) in
  let* ql := plist pN in let* nb := pN in pret (mkRS code got dn ql nb).

Record rost := mkRO { ro_acc : list (list triple); ro_del : list (list triple); ro_busy : list N;
                      ro_last : list N; ro_ok : bool;
                      ro_dead : list N;          (* protocols whose receiver is gone *)
                      ro_closing : list N;       (* connections whose pending report is "closed" *)
                      ro_leak : bool;            (* unused since fix 2c7c81a (F-C07b) *)
                      ro_gone : list N }.        (* unused since fix 2c7c81a *)
Definition app_at (n : nat) (x : list triple) (l : list (list triple)) : list (list triple) :=
  upd n (fun old => old ++ x) l.
Definition rjudge_step (nproto cap : nat) (o : rost) (op : dop) (ob : rstepobs) : rost :=
  let is_busy c := mem c (ro_busy o) || mem c (ro_gone o) in
  let known p := Nat.ltb (N.to_nat p) nproto in
  let dead p := mem p (ro_dead o) in
  let anydead := match ro_dead o with [] => false | _ => true end in
  let started := (rs_code ob =? 0) || (rs_code ob =? 1) in
  (* the verdict on the result code: a report on a free connection to a live, known protocol is
     accepted (completed or waiting) — it never fails and is never dropped *)
  let code_ok :=
    match op with
    | DBase (RSubOpen c p _) | DBase (RSubFail c p _) =>
        if is_busy c then rs_code ob =? 2
        else if known p && negb (dead p) then started else rs_code ob =? 3
    | DEst c _ => if is_busy c then rs_code ob =? 2 else started     (* never fails, dead protocols are skipped *)
    | DBase (RClosed c) =>
        if is_busy c then rs_code ob =? 2 else if anydead then (rs_code ob =? 1) || (rs_code ob =? 3) else started
    | DBase (RDrain _ _) => rs_code ob =? 0
    | DBase (REst _) => rs_code ob =? 2
    | DKill p => if known p && negb (dead p) && match ro_busy o with [] => true | _ => false end
                 then rs_code ob =? 0 else rs_code ob =? 2
    end in
  let free c := negb (is_busy c) in
  let room p := match nth_error (ro_last o) p with Some q => q <? N.of_nat cap | None => false end in
  (* which protocols are handed which event *)
  let acc' :=
    match op with
    | DBase (RSubOpen c p d) =>
        if started then app_at (N.to_nat p) [(3, c, enc_opt d)] (ro_acc o) else ro_acc o
    | DBase (RSubFail c p i) =>
        if started then app_at (N.to_nat p) [(4, 0, i)] (ro_acc o) else ro_acc o
    | DEst c m =>
        if free c && started
        then mapi (fun i a => if dead (N.of_nat i) then a else a ++ [(1, c, 0)]) O (ro_acc o)
        else ro_acc o
    | DBase (RClosed c) =>
        if free c && ((rs_code ob =? 0) || (rs_code ob =? 1) || (rs_code ob =? 3))
        then mapi (fun i a => if dead (N.of_nat i) then a else a ++ [(2, c, 0)]) O (ro_acc o)
        else ro_acc o
    | _ => ro_acc o
    end in
  let leak' := false in
  let del' := match op with
              | DBase (RDrain p _) => app_at (N.to_nat p) (rs_got ob) (ro_del o)
              | _ => ro_del o
              end in
  (* a killed protocol is out of the accounting from now on *)
  let killed := match op with DKill p => rs_code ob =? 0 | _ => false end in
  let acc'' := match op with DKill p => if killed then upd (N.to_nat p) (fun _ => []) acc' else acc' | _ => acc' end in
  let del'' := match op with DKill p => if killed then upd (N.to_nat p) (fun _ => []) del' else del' | _ => del' end in
  let dead' := match op with DKill p => if killed then p :: ro_dead o else ro_dead o | _ => ro_dead o end in
  let got_ok := match op with DBase (RDrain _ _) => true | _ => match rs_got ob with [] => true | _ => false end end in
  let conn_of := match op with
                 | DBase (RSubOpen c _ _) | DBase (RSubFail c _ _) | DBase (REst c) | DBase (RClosed c) | DEst c _ => Some c
                 | _ => None end in
  let busy1 := match conn_of with
               | Some c => if rs_code ob =? 1 then c :: ro_busy o else ro_busy o
               | None => ro_busy o
               end in
  let closing1 := match op with
                  | DBase (RClosed c) => if rs_code ob =? 1 then c :: ro_closing o else ro_closing o
                  | _ => ro_closing o
                  end in
  (* a waiting report completes without error — except "closed" when a protocol is dead *)
  let done_ok := forallb (fun d : N * N => mem (fst d) busy1 &&
                            (snd d =? (if anydead && mem (fst d) closing1 then 1 else 0))) (rs_done ob) in
  let busy2 := filter (fun c => negb (existsb (fun d : N * N => fst d =? c) (rs_done ob))) busy1 in
  let closing2 := filter (fun c => negb (existsb (fun d : N * N => fst d =? c) (rs_done ob))) closing1 in
  let ok :=
    code_ok && got_ok && done_ok &&
    (* received so far is a prefix of accepted so far, per protocol: in order, no loss, no duplicate *)
    list_eqb (fun d a => prefix_b d a) del'' acc'' && (Nat.eqb (length del'') (length acc'')) &&
    forallb (fun q => q <=? N.of_nat cap) (rs_qlens ob) &&
    (rs_busy ob =? N.of_nat (length busy2)) in
  let gone' := ro_gone o in
  mkRO acc'' del'' busy2 (rs_qlens ob) (ro_ok o && ok) dead' closing2 (ro_leak o || leak') gone'.
Fixpoint rjudge (nproto cap : nat) (o : rost) (ops : list dop) (obs : list rstepobs) : rost :=
  match ops, obs with
  | op :: t, ob :: ob' => rjudge nproto cap (rjudge_step nproto cap o op ob) t ob'
  | _, _ => o
  end.
Fixpoint all3 (dead : list N) (i : N) (a d : list (list triple)) (q : list N) : bool :=
  match a, d, q with
  | [], [], [] => true
  | x :: a', y :: d', n :: q' =>
      (mem i dead || (N.of_nat (length x) =? N.of_nat (length y) + n)) && all3 dead (i + 1) a' d' q'
  | _, _, _ => false
  end.
Definition rjudged (case trace : list N) : option rost :=
  match decode_rcase case, trace with
  | Some (n, cap, ops), 2 :: body =>
      match pall (prep (length ops) p_rstep) body with
      | Some obs => Some (rjudge n cap (mkRO (repeat [] n) (repeat [] n) [] (repeat 0 n) true [] [] false []) ops obs)
      | None => None
      end
  | _, _ => None
  end.
(* the correspondence-independent part: codes, order, no loss, no duplicate *)
Definition report_sound (case trace : list N) : bool :=
  match rjudged case trace with
  | Some o =>
      ro_ok o &&
      (* when no report is left waiting: accepted = received + queued, per live protocol *)
      match ro_busy o with
      | [] => all3 (ro_dead o) 0 (ro_acc o) (ro_del o) (ro_last o)
      | _ => true
      end
  | None => false
  end.
(* the property: additionally, nobody is told "established" for a connection that is given up
   (and will never be reported closed) *)
Definition report_ok (case trace : list N) : bool :=
  match decode_rcase case, trace with
  | None, [0] => true
  | _, _ => report_sound case trace && match rjudged case trace with Some o => negb (ro_leak o) | None => false end
  end.
(* no known class any more: F-C07b is repaired (2c7c81a) *)
Definition report_known (case trace : list N) : N := 0.

(* ====================================================================================
   composed (case kind 3): real ProtocolSets feed one real TransportService through its real,
   bounded event channel (capacity 1, so that one poll of the service consumes at most one
   event and every consumed event can be observed on its own).
     case  : 3 ka n0 nops (tag a b)*
             1 report_connection_established(conn b of peer a)   2 report_connection_closed(conn a)
             3 inbound substream on conn a      4 outbound substream b opened on conn a
             5 open of substream b on conn a failed               6 the service is polled once
             7 the protocol calls open_substream(peer a)          8 the protocol drops a substream of conn a
     trace : 3 |rcase| rcase |rtrace| rtrace |scase| scase |strace| strace
             where rcase is the report-level case (kind 2, one protocol, capacity 1: the reports,
             and "receive one event" for every poll), rtrace its trace, scase the service-level
             case whose inputs are, poll by poll, the event the channel delivered (the model takes
             them from the report model's run), and strace its trace.
   The composed trace has to satisfy BOTH oracles.
   ==================================================================================== *)
Inductive cop :=
| CEst (p c : N) | CClosed (c : N) | CSubIn (c : N) | CSubOut (c i : N) | CSubFail (c i : N)
| CPoll | COpen (p : N) | CDrop (c : N).
Definition p_cop : parser cop :=
  let* tag := pN in let* a := pN in let* b := pN in
  match tag with
  | 1 => pret (CEst a b) | 2 => pret (CClosed a) | 3 => pret (CSubIn a) | 4 => pret (CSubOut a (rid b))
  | 5 => pret (CSubFail a (rid b)) | 6 => pret CPoll | 7 => pret (COpen a) | 8 => pret (CDrop a)
  | _ => pfail
  end.
Definition cop_small (o : cop) : bool :=
  match o with
  | CEst p c => small p && small c
  | CClosed c | CSubIn c | CDrop c => small c
  | CSubOut c i | CSubFail c i => small c && (small i || ((ID_MOD - 2000000 <? i) && (i <? ID_MOD)))
  | CPoll => true
  | COpen p => small p
  end.
Definition decode_ccase (l : list N) : option (bool * N * list cop) :=
  match pall (let* kind := pN in let* ka := pBool in let* n0 := pN in let* ops := plist p_cop in
              pret (kind, ka, n0, ops)) l with
  | Some (kind, ka, n0, ops) =>
      if (kind =? 3) && forallb cop_small ops &&
         nodup_b (flat_map (fun o => match o with CEst _ c => [c] | _ => [] end) ops) &&
         (small n0 || ((W40 <? n0) && (n0 <? W40 + 1000000)))
      then Some (ka, n0, ops) else None
  | None => None
  end.

(* the report-level case *)
Definition rop_of (o : cop) : list N :=
  match o with
  | CEst _ c => [3; c; 0; 0]
  | CClosed c => [4; c; 0; 0]
  | CSubIn c => [1; c; 0; 0]
  | CSubOut c i => [1; c; 0; i + 1]       (* ids of the composed stream are small or wrap-coded *)
  | CSubFail c i => [2; c; 0; i]
  | CPoll => [5; 0; 1; 0]
  | COpen _ | CDrop _ => []
  end.
Definition is_rop (o : cop) : bool := match o with COpen _ | CDrop _ => false | _ => true end.
Definition rcase_of (ops : list cop) : list N :=
  [2; 1; 1; N.of_nat (length (filter is_rop ops))] ++ flat_map rop_of ops.
Definition dop_of (o : cop) : list dop :=
  match o with
  | CEst _ c => [DEst c 0]
  | CClosed c => [DBase (RClosed c)]
  | CSubIn c => [DBase (RSubOpen c 0 None)]
  | CSubOut c i => [DBase (RSubOpen c 0 (Some i))]
  | CSubFail c i => [DBase (RSubFail c 0 i)]
  | CPoll => [DBase (RDrain 0 1)]
  | COpen _ | CDrop _ => []
  end.
Definition peer_of (ops : list cop) (c : N) : N :=
  match find (fun o => match o with CEst _ c' => c' =? c | _ => false end) ops with
  | Some (CEst p _) => p
  | _ => 0
  end.
(* the service-level op of one consumed event *)
Definition sop_of_item (ops : list cop) (i : item) : list N :=
  match i with
  | IEst c => [0; 1; peer_of ops c; c]
  | IClosed c => [0; 2; peer_of ops c; c]
  | IOpened c None => [0; 3; peer_of ops c; c; 1]
  | IOpened _ (Some i) => [0; 4; wid i; 1]
  | IFailure _ i => [0; 5; wid i]
  end.
Fixpoint sops (all : list cop) (d : dst) (ops : list cop) : list N * nat :=
  match ops with
  | [] => ([], O)
  | o :: t =>
      match o with
      | COpen p => let '(r, n) := sops all d t in ([0; 7; p] ++ r, S n)
      | CDrop c => let '(r, n) := sops all d t in ([0; 8; c] ++ r, S n)
      | _ =>
          match dop_of o with
          | [x] =>
              let '(d', out) := dstep d x in
              let '(r, n) := sops all d' t in
              match o with
              | CPoll => (match do_got out with
                          | i :: _ => sop_of_item all i
                          | [] => [0; 0]
                          end ++ r, S n)
              | _ => (r, n)
              end
          | _ => sops all d t
          end
      end
  end.
Definition scase_of (ka : bool) (n0 : N) (ops : list cop) : list N :=
  let '(r, n) := sops ops (dinit 1 1) ops in
  [b2n ka; 3600000; n0; N.of_nat n] ++ r.

Definition seg (l : list N) : list N := N.of_nat (length l) :: l.
Definition run_compose (l : list N) : list N :=
  match decode_ccase l with
  | Some (ka, n0, ops) =>
      let rc := rcase_of ops in
      let sc := scase_of ka n0 ops in
      3 :: seg rc ++ seg (run_report rc) ++ seg sc ++ seg (run_case_svc sc)
  | None => [0]
  end.

(* the oracle: both oracles on the segments the implementation printed, and the two cases are the
   ones that belong to this composed case *)
Definition p_seg : parser (list N) := plist pN.
(* the channel-borne inputs of a service-level history, and the received events of a report
   trace, in a common form (the connection of an outbound answer is not part of the event) *)
Definition chan_evs (tr : list (N * ev)) : list triple :=
  flat_map (fun de => match snd de with
                      | EEst _ c => [(1, c, 0)]
                      | EClosed _ c => [(2, c, 0)]
                      | ESubIn _ c _ => [(3, c, 0)]
                      | ESubOut i _ => [(3, 0, i + 1)]
                      | ESubFail i => [(4, 0, i)]
                      | _ => []
                      end) tr.
Definition norm_triple (t : triple) : triple :=
  match t with
  | (3, c, d) => if d =? 0 then (3, c, 0) else (3, 0, d)
  | _ => t
  end.
Definition compose_ok (case trace : list N) : bool :=
  match decode_ccase case, trace with
  | Some (ka, n0, ops), 3 :: body =>
      match pall (let* rc := p_seg in let* rt := p_seg in let* sc := p_seg in let* st := p_seg in
                  pret (rc, rt, sc, st)) body with
      | Some (rc, rt, sc, st) =>
          nlist_eqb rc (rcase_of ops) &&
          report_ok rc rt && prop_ok_C08_svc sc st &&
          (* every event the service consumed is the one the report side handed over, in order:
             the inputs of the service-level case are the "received" events of the report trace *)
          nlist_eqb (firstn 3 sc) [b2n ka; 3600000; n0] &&
          match rjudged rc rt, decode_case sc with
          | Some o, Some (_, _, _, tr) =>
              list_eqb triple_eqb (chan_evs tr) (map norm_triple (nth 0 (ro_del o) []))
          | _, _ => false
          end
      | None => false
      end
  | None, [0] => true
  | _, _ => false
  end.

(* ====================================================================================
   end to end (case kind 4, C09): two real nodes A (0) and B (1) over loopback TCP / WebSocket,
   one connection, a keep-alive user protocol K on both (ping runs next to it as non keep-alive
   traffic when the header says so). Logical time in slots of 300 ms: the op of slot k happens at
   300 k after both applications saw ConnectionEstablished, the observation at 300 k + 200; the
   timeout T is 100 mod 300, so every deadline lies 100 ms from every op and every observation.
     case  : 4 T ping transport nops (tag a)*
             tag 0 nothing | 1 K on node a opens a substream (both ends then hold one)
                 2 node a drops its oldest held substream | 3 node a half-closes its oldest held
                 substream (shutdown of the write half) and keeps holding it
     trace : 4 (rc closedA closedB)*      rc: 0 done, 1 not possible
   Prediction: K's TransportService on either node is the Ts model (connection 1 of peer 0,
   keep-alive): established at 0; an open is EOpen + the outbound SubstreamOpened on the opener
   and an inbound SubstreamOpened on the other node; a node's connection task ends when its
   channel has no strong sender (strong = 0; ping/identify handles are Inactive from T on, before
   K's), and then both applications are told ConnectionClosed.
   ==================================================================================== *)
Definition e2e_step (s : st) (dt : N) (e : ev) : st := fst (step s dt e).
Record e2e := mkE { e_a : st; e_b : st; e_closed : bool }.
(* established at 0; the first op is at 300 (the state below is the one at 200) *)
Definition e2e_init (T : N) : e2e :=
  let s := e2e_step (e2e_step (init true T 0) 0 (EEst 0 1)) 200 ENone in mkE s s false.
Definition node_dead (s : st) : bool := strong s 1 =? 0.
Definition e2e_obs (x : e2e) : e2e :=      (* 200 ms later: timers have fired *)
  let a := e2e_step (e_a x) 200 ENone in
  let b := e2e_step (e_b x) 200 ENone in
  mkE a b (e_closed x || node_dead a || node_dead b).
(* one slot: the op at +100 after the previous observation, the observation 200 later *)
(* mode (= tr / 3): 0 the substreams are those of the keep-alive user protocol; 1..3 they are
   requests of a request-response protocol with main name /c09/rr/2 and fallback name /c09/rr/1:
     1 both nodes know both names (negotiated over the main name), requests go from node 0 to node 1
     2 the requester (node 0) only knows the legacy name: the RESPONDER accepts the inbound substream
       over its FALLBACK name
     3 requests go from node 1 to node 0, the responder (node 0) only knows the legacy name: the
       REQUESTER's outbound substream is negotiated over its fallback name
   In these modes op 1 = the requester sends a request (held by both: by the requester until the
   answer, by the responder until it answers), op 2 = the responder answers its oldest pending
   request (both let go), whoever `a` says. *)
Definition e2e_slot (mode : N) (x : e2e) (tag a0 : N) : e2e * N :=
  let req := if mode =? 3 then 1 else 0 in
  let a := if mode =? 0 then a0 else if tag =? 1 then req else if tag =? 2 then 1 - req else a0 in
  let tag := if (0 <? mode) && (tag =? 3) then 0 else tag in
  let own (y : e2e) := if a =? 0 then e_a y else e_b y in
  let oth (y : e2e) := if a =? 0 then e_b y else e_a y in
  let put (mine other : st) := if a =? 0 then (mine, other) else (other, mine) in
  if e_closed x then
    (* nothing left to act on; time still passes *)
    (e2e_obs (mkE (e2e_step (e_a x) 100 ENone) (e2e_step (e_b x) 100 ENone) true),
     match tag with 0 => 0 | _ => 1 end)
  else
    let '(mine, other, rc) :=
      match tag with
      | 1 =>
          let m1 := step (own x) 100 (EOpen 0) in
          match filter (fun o => match o with ORet 0 _ => true | _ => false end) (snd m1) with
          | ORet _ i :: _ =>
              (e2e_step (fst m1) 0 (ESubOut i true), e2e_step (oth x) 100 (ESubIn 0 1 true), 0)
          | _ => (fst m1, e2e_step (oth x) 100 ENone, 1)
          end
      | 2 =>
          (e2e_step (own x) 100 (EDropSub 1),
           e2e_step (oth x) 100 (if (0 <? mode) && (0 <? ch_held_of 1 (s_chans (own x))) then EDropSub 1 else ENone),
           if 0 <? ch_held_of 1 (s_chans (own x)) then 0 else 1)
      | 3 =>
          (e2e_step (own x) 100 (EShutSub 1), e2e_step (oth x) 100 ENone,
           if 0 <? ch_held_of 1 (s_chans (own x)) then 0 else 1)
      | _ => (e2e_step (own x) 100 ENone, e2e_step (oth x) 100 ENone, 0)
      end in
    let '(na, nb) := put mine other in
    (e2e_obs (mkE na nb (node_dead na || node_dead nb)), rc).
Fixpoint e2e_run (mode : N) (x : e2e) (ops : list (N * N)) : list N :=
  match ops with
  | [] => []
  | (tag, a) :: t =>
      let '(x', rc) := e2e_slot mode x tag a in
      [rc; b2n (e_closed x'); b2n (e_closed x')] ++ e2e_run mode x' t
  end.
Definition decode_ecase (l : list N) : option (N * N * list (N * N)) :=
  match pall (let* kind := pN in let* T := pN in let* ping := pN in let* tr := pN in
              let* ops := plist (let* tag := pN in let* a := pN in pret (tag, a)) in
              pret (kind, T, ping, tr, ops)) l with
  | Some (kind, T, ping, tr, ops) =>
      if (kind =? 4) && (T mod 300 =? 100) && (300 <? T) && (T <? 2000) && (ping <? 2) && (tr <? 12) &&
         forallb (fun o : N * N => (fst o <? 4) && (snd o <? 2)) ops && (N.of_nat (length ops) <? 40)
      then Some (T, tr / 3, ops) else None
  | None => None
  end.
Definition run_e2e (l : list N) : list N :=
  match decode_ecase l with
  | Some (T, mode, ops) => 4 :: e2e_run mode (e2e_init T) ops
  | None => [0]
  end.

(* the property on the observed closing time, stated without the model: per node the time of the
   last keep-alive activity and the number of keep-alive substreams it holds follow from the case
   and the observed result codes; the connection is closed at an observation point exactly when
   some node has nothing held and its last activity is T or more ago *)
Record eo := mkEO { eo_t : N; eo_lastA : N; eo_lastB : N; eo_heldA : N; eo_heldB : N;
                    eo_closed : bool; eo_ok : bool }.
Definition e2e_judge_slot (T mode : N) (o : eo) (tag a0 rc ca cb : N) : eo :=
  let req := if mode =? 3 then 1 else 0 in
  let a := if mode =? 0 then a0 else if tag =? 1 then req else if tag =? 2 then 1 - req else a0 in
  let tag := if (0 <? mode) && (tag =? 3) then 0 else tag in
  let t := eo_t o + 100 in                (* op time *)
  let did := (rc =? 0) && negb (eo_closed o) in
  let lastA := if did && (tag =? 1) then t else eo_lastA o in
  let lastB := if did && (tag =? 1) then t else eo_lastB o in
  let heldA := if did then
                 if tag =? 1 then eo_heldA o + 1
                 else if (tag =? 2) && ((a =? 0) || (0 <? mode)) then eo_heldA o - 1 else eo_heldA o
               else eo_heldA o in
  let heldB := if did then
                 if tag =? 1 then eo_heldB o + 1
                 else if (tag =? 2) && ((a =? 1) || (0 <? mode)) then eo_heldB o - 1 else eo_heldB o
               else eo_heldB o in
  let tobs := t + 200 in
  let idleA := (heldA =? 0) && (lastA + T <=? tobs) in
  let idleB := (heldB =? 0) && (lastB + T <=? tobs) in
  let should := eo_closed o || idleA || idleB in
  let seen := negb (ca =? 0) in
  mkEO tobs lastA lastB heldA heldB seen
       (eo_ok o && (ca =? cb) &&
        (* never before last activity + T, never while both ends hold a keep-alive substream *)
        (if seen then should else true) &&
        (* closed once the timeout has elapsed *)
        (if should then seen else true) &&
        (* an open on a live connection is accepted, drops/half-closes need something held *)
        (if eo_closed o then true
         else if tag =? 1 then rc =? 0
         else if tag =? 0 then rc =? 0
         else Bool.eqb (rc =? 0) (0 <? (if a =? 0 then eo_heldA o else eo_heldB o)))).
Fixpoint e2e_judge (T mode : N) (o : eo) (ops : list (N * N)) (tr : list N) : bool :=
  match ops, tr with
  | [], [] => eo_ok o
  | (tag, a) :: ops', rc :: ca :: cb :: tr' => e2e_judge T mode (e2e_judge_slot T mode o tag a rc ca cb) ops' tr'
  | _, _ => false
  end.
Definition e2e_ok (case trace : list N) : bool :=
  match decode_ecase case, trace with
  | Some (T, mode, ops), 4 :: body => e2e_judge T mode (mkEO 200 0 0 0 0 false true) ops body
  | None, [0] => true
  | _, _ => false
  end.

(* ---- dispatch on the case kind ---- *)
Definition run_case (l : list N) : list N :=
  match l with 2 :: _ => run_report l | 3 :: _ => run_compose l | 4 :: _ => run_e2e l | _ => run_case_svc l end.
Definition prop_ok_C08 (case trace : list N) : bool :=
  match case with
  | 2 :: _ => report_ok case trace
  | 3 :: _ => compose_ok case trace
  | 4 :: _ => true
  | _ => prop_ok_C08_svc case trace
  end.
Definition prop_ok_C09 (case trace : list N) : bool :=
  match case with 2 :: _ | 3 :: _ => true | 4 :: _ => e2e_ok case trace | _ => prop_ok_C09_svc case trace end.
Definition known_class_C08 (case trace : list N) : N :=
  match case with 2 :: _ => report_known case trace | _ => 0 end.
