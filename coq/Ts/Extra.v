(* Ts/Extra — further lemmas about the single TransportService model: force_close, the defensive
   branches (what the service does when the manager breaks its contract), unconditional
   alternation, the two connections of a peer in the keep-alive tracker (frame lemmas, promotion),
   and the exact characterisation "Active <-> last keep-alive activity less than T ago". *)
From Coq Require Import List NArith Bool Lia PeanoNat.
From V.Ts Require Import Model Proofs Answers Rearm Timing.
Import ListNotations.
Open Scope N_scope.
Arguments N.add : simpl never.
Arguments N.sub : simpl never.
Arguments N.eqb : simpl never.
Arguments N.ltb : simpl never.
Arguments N.leb : simpl never.
Arguments N.of_nat : simpl never.

(* ------------------------------------------------------------------ force_close *)
(* the call is invisible to the service state: contexts, tracker, counter, opens in flight *)
Lemma force_state s dt p fs fp : fst (step s dt (EForce p fs fp)) = fst (step s dt ENone).
Proof.
  unfold step. cbn [handle_ev ka_activity_of].
  destruct (poll_timers (with_now s (s_now s + dt))) as [s2 o2]. reflexivity.
Qed.

Lemma handle_force_only s i c :
  In (OForce c) (snd (handle_ev s i)) -> exists p fs fp, i = EForce p fs fp.
Proof.
  destruct i; try (cbn [handle_ev]; unfold on_established, on_closed, on_open, on_open_full;
    dmatch; cbn [snd In]; intuition discriminate).
  intros _. eauto.
Qed.
Lemma handle_retf_only s i r :
  In (ORetF r) (snd (handle_ev s i)) -> exists p fs fp, i = EForce p fs fp.
Proof.
  destruct i; try (cbn [handle_ev]; unfold on_established, on_closed, on_open, on_open_full;
    dmatch; cbn [snd In]; intuition discriminate).
  intros _. eauto.
Qed.

Lemma step_outs_split s dt i o :
  In o (snd (step s dt i)) ->
  In o (snd (handle_ev (with_now s (s_now s + dt)) i)) \/ exists p c, o = ODown p c.
Proof.
  unfold step. destruct (handle_ev (with_now s (s_now s + dt)) i) as [s1 o1]. cbn [snd].
  set (sm := match ka_activity_of (with_now s (s_now s + dt)) i with
             | Some k => with_act s1 (kset k (s_now s1) (s_act s1)) | None => s1 end).
  pose proof (poll_outs_down sm) as PD. destruct (poll_timers sm) as [s2 o2]. cbn [snd] in *.
  intros H. apply in_app_or in H. destruct H as [H|H]; [left; exact H | right; exact (PD _ H)].
Qed.

(* ForceClose commands are produced only by force_close(p) and only go to open connections of p;
   the result is PeerDoesntExist exactly when p has no open connection, Ok only together with the
   command to the primary (the oldest open connection), ChannelClogged only when the primary's
   channel is full *)
Lemma force_targets e s dt i c :
  conn_inv e (s_ctxs s) (s_pend s) -> In (OForce c) (snd (step s dt i)) ->
  exists p fs fp, i = EForce p fs fp /\ In c (live_of p (e_live e)).
Proof.
  intros [I1 _] H. apply step_outs_split in H. destruct H as [H|[p [c' E]]]; [|discriminate].
  destruct (handle_force_only _ _ _ H) as [p [fs [fp ->]]]. exists p, fs, fp. split; [reflexivity|].
  cbn [handle_ev snd] in H. unfold force_outs, force_one in H. st_simpl.
  rewrite <- I1. unfold conn_ids. destruct (find_ctx p (s_ctxs s)) as [cx|]; [|destruct H as [H|[]]; discriminate].
  unfold ids_of. apply in_app_or in H. destruct H as [H|H].
  - destruct (c_sec cx) as [h|]; [|destruct H].
    destruct (h_act h || _); [destruct fs|]; cbn [fst In] in H; try contradiction; destruct H as [H|[]].
    inversion H. right; left; reflexivity.
  - apply in_app_or in H. destruct H as [H|[H|[]]]; [|discriminate].
    destruct (h_act (c_prim cx) || _); [destruct fp|]; cbn [fst In] in H; try contradiction; destruct H as [H|[]].
    inversion H. left; reflexivity.
Qed.

Lemma force_result e s dt p fs fp r :
  conn_inv e (s_ctxs s) (s_pend s) -> In (ORetF r) (snd (step s dt (EForce p fs fp))) ->
  (r = 1 <-> live_of p (e_live e) = []) /\
  (r = 0 -> exists c, hd_error (live_of p (e_live e)) = Some c /\ In (OForce c) (snd (step s dt (EForce p fs fp)))) /\
  (r = 3 -> fp = true) /\ r <= 3.
Proof.
  intros [I1 _] H.
  assert (SUB : forall o, In o (snd (handle_ev (with_now s (s_now s + dt)) (EForce p fs fp))) ->
                          In o (snd (step s dt (EForce p fs fp)))).
  { intros o Ho. unfold step. destruct (handle_ev (with_now s (s_now s + dt)) (EForce p fs fp)) as [s1 o1].
    cbn [snd] in *. destruct (poll_timers _) as [s2 o2]. cbn [snd]. apply in_or_app. left; exact Ho. }
  apply step_outs_split in H. destruct H as [H|[p' [c' E]]]; [|discriminate].
  cbn [handle_ev snd] in *. unfold force_outs, force_one in *. st_simpl.
  rewrite <- I1. unfold conn_ids. destruct (find_ctx p (s_ctxs s)) as [cx|].
  - assert (R : r = snd (if h_act (c_prim cx) || (0 <? strong (with_now s (s_now s + dt)) (h_id (c_prim cx)))
                         then if fp then ([], 3) else ([OForce (h_id (c_prim cx))], 0) else ([], 2))).
    { apply in_app_or in H. destruct H as [H|H].
      - exfalso. destruct (c_sec cx) as [h|]; [|destruct H].
        destruct (h_act h || _); [destruct fs|]; cbn [fst In] in H; try contradiction; destruct H as [H|[]]; discriminate.
      - apply in_app_or in H. destruct H as [H|[H|[]]].
        + exfalso. destruct (h_act (c_prim cx) || _); [destruct fp|]; cbn [fst In] in H;
            try contradiction; destruct H as [H|[]]; discriminate.
        + inversion H. reflexivity. }
    unfold ids_of. split; [|split; [|split]].
    + split; [|discriminate]. intros ->. destruct (h_act (c_prim cx) || _); [destruct fp|]; discriminate.
    + intros ->. exists (h_id (c_prim cx)). split; [reflexivity|]. apply SUB.
      apply in_or_app. right. apply in_or_app. left.
      destruct (h_act (c_prim cx) || _); [destruct fp|]; cbn [snd] in R; try discriminate. left; reflexivity.
    + intros ->. destruct (h_act (c_prim cx) || _); [destruct fp|]; cbn [snd] in R; try discriminate. reflexivity.
    + destruct (h_act (c_prim cx) || _); [destruct fp|]; cbn [snd] in R; subst r; lia.
  - destruct H as [H|[]]. inversion H. subst r. split; [|split; [|split]]; try discriminate; try lia; tauto.
Qed.

(* ------------------------------------------------------------------ the defensive branches *)
(* debug_assert!(false) (a panic in debug builds, a logged no-op in release builds) is reached
   exactly by a closed notification for a peer the service has no connection to *)
Lemma panic_iff s dt i :
  In OPanic (snd (step s dt i)) <-> exists p c, i = EClosed p c /\ find_ctx p (s_ctxs s) = None.
Proof.
  split.
  - intros H. apply step_outs_split in H. destruct H as [H|[p [c E]]]; [|discriminate].
    destruct i; try (exfalso; revert H; cbn [handle_ev]; unfold on_established, on_open, on_open_full;
      dmatch; cbn [snd In]; intuition discriminate).
    + exists p, c. split; [reflexivity|]. cbn [handle_ev] in H. unfold on_closed in H. st_simpl.
      revert H. dmatch; cbn [snd In]; st_simpl; intros H; try (exfalso; intuition discriminate);
        match goal with
        | E : find_ctx p _ = None |- _ => revert E; dmatch; st_simpl; auto
        end.
    + exfalso. cbn [handle_ev snd] in H. apply force_outs_kind in H. destruct H as [[y H]|[y H]]; discriminate.
  - intros [p [c [-> F]]]. unfold step. cbn [handle_ev]. unfold on_closed. st_simpl.
    assert (G : forall v, find_ctx p (s_ctxs (match find_ch c (s_chans s) with
                                               | Some x => with_chans v (set_ch (mkCh c 0 (ch_held x)) (s_chans v))
                                               | None => v end)) = find_ctx p (s_ctxs v))
      by (intros v; destruct (find_ch c (s_chans s)); reflexivity).
    destruct (find_ch c (s_chans s)); st_simpl; rewrite F; cbn [ka_activity_of];
      destruct (poll_timers _) as [s2 o2]; cbn [snd]; left; reflexivity.
Qed.

(* inside the contract it is never reached *)
Lemma no_panic tr : forall e s,
  conn_inv e (s_ctxs s) (s_pend s) -> feasible 2 e s tr = true -> ~ In OPanic (concat (run s tr)).
Proof.
  induction tr as [|[dt i] tr IH]; intros e s INV F; cbn [run concat]; [intros []|].
  cbn [feasible] in F. apply andb_true_iff in F. destruct F as [OK F].
  pose proof (step_conn e s dt i INV OK) as [INV' _].
  destruct (step s dt i) as [s' os] eqn:ST. cbn [concat fst snd] in *. intros H.
  apply in_app_or in H. destruct H as [H|H]; [|exact (IH _ _ INV' F H)].
  assert (H' : In OPanic (snd (step s dt i))) by (rewrite ST; exact H).
  apply panic_iff in H'. destruct H' as [p [c [-> FN]]]. cbn [ev_ok] in OK.
  apply kmem_In in OK. apply In_live_of in OK. destruct INV as [I1 _].
  rewrite <- I1 in OK. unfold conn_ids in OK. rewrite FN in OK. destruct OK.
Qed.

(* a third connection of a peer is ignored: no event, the contexts and the tracker stay as they
   are (the handle is dropped with the event), nothing counts as keep-alive activity *)
Lemma third_ignored s p c cx h :
  find_ctx p (s_ctxs s) = Some cx -> c_sec cx = Some h ->
  snd (handle_ev s (EEst p c)) = [] /\ ka_activity_of s (EEst p c) = None /\
  s_ctxs (fst (handle_ev s (EEst p c))) = s_ctxs s /\ s_last (fst (handle_ev s (EEst p c))) = s_last s /\
  s_timers (fst (handle_ev s (EEst p c))) = s_timers s.
Proof.
  intros F S. cbn [handle_ev ka_activity_of]. unfold on_established. rewrite add_chan_ctxs, F, S. cbn [fst snd].
  rewrite add_chan_ctxs, add_chan_last, add_chan_timers. auto.
Qed.

(* a closed notification whose id is neither the primary nor the secondary of a known peer:
   nothing is emitted, the primary stays, but the secondary slot is emptied (secondary.take()) —
   why the two-per-peer contract matters (C08_needs_two_per_peer) *)
Lemma closed_unknown_id s p c cx :
  find_ctx p (s_ctxs s) = Some cx -> h_id (c_prim cx) <> c ->
  snd (handle_ev s (EClosed p c)) = [] /\
  find_ctx p (s_ctxs (fst (handle_ev s (EClosed p c)))) = Some (mkCtx p (c_prim cx) None).
Proof.
  intros F NE. cbn [handle_ev]. unfold on_closed. st_simpl.
  assert (E : h_id (c_prim cx) =? c = false) by (apply N.eqb_neq; exact NE).
  destruct (find_ch c (s_chans s)); st_simpl; rewrite F, E; cbn [fst snd]; st_simpl;
    rewrite find_set_ctx; cbn [c_peer]; rewrite N.eqb_refl; auto.
Qed.

(* ------------------------------------------------------------------ unconditional alternation *)
(* ConnectionEstablished / ConnectionClosed alternate per peer for EVERY history — also when the
   manager breaks the two-per-peer contract or notifications are garbage: established is emitted
   exactly when the peer gets its context, closed exactly when the context is removed. (What is
   lost outside the contract is the link to the real connections, not the alternation.) *)
Definition hc (l : list ctx) (q : N) : bool := match find_ctx q l with Some _ => true | None => false end.
Fixpoint alt_run (b : bool) (l : list bool) : option bool :=
  match l with [] => Some b | x :: t => if Bool.eqb x (negb b) then alt_run x t else None end.
Lemma alt_run_app b l1 l2 :
  alt_run b (l1 ++ l2) = match alt_run b l1 with Some b' => alt_run b' l2 | None => None end.
Proof.
  revert b. induction l1 as [|x t IH]; intros b; cbn [app alt_run]; [reflexivity|].
  destruct (Bool.eqb x (negb b)); [apply IH | reflexivity].
Qed.
Lemma alt_run_alternates l : forall b b', alt_run b l = Some b' -> alternates b l.
Proof.
  induction l as [|x t IH]; intros b b' H; cbn [alt_run alternates] in *; [exact I|].
  destruct (Bool.eqb x (negb b)) eqn:E; [|discriminate]. apply eqb_prop in E. split; [exact E | eapply IH; eauto].
Qed.

Lemma hc_set_ctx cx l q : hc l (c_peer cx) = true -> hc (set_ctx cx l) q = hc l q.
Proof.
  unfold hc. rewrite find_set_ctx. destruct (c_peer cx =? q) eqn:E; [|reflexivity].
  apply N.eqb_eq in E. subst q. destruct (find_ctx (c_peer cx) l); [reflexivity | discriminate].
Qed.
Lemma hc_set_active l k b q : hc (set_active l k b) q = hc l q.
Proof.
  unfold set_active. destruct (find_ctx (fst k) l) as [cx|] eqn:F; [|reflexivity].
  apply hc_set_ctx. rewrite peer_set_act, (find_ctx_peer _ _ _ F). unfold hc. rewrite F. reflexivity.
Qed.
Lemma hc_downgrade_all ex : forall l q, hc (fst (downgrade_all l ex)) q = hc l q.
Proof.
  induction ex as [|k ex IH]; intros l q; cbn [downgrade_all]; [reflexivity|].
  specialize (IH (set_active l k false) q).
  destruct (downgrade_all (set_active l k false) ex) as [l' os]. cbn [fst] in *.
  rewrite IH. apply hc_set_active.
Qed.
Lemma conn_evs_nil q os : (forall o, In o os -> (forall p, o <> OEst p) /\ (forall p, o <> OClosed p)) -> conn_evs q os = [].
Proof.
  intros H. apply flat_map_nil. intros x Hx. destruct (H x Hx) as [A B].
  destruct x; try reflexivity; [exfalso; eapply A | exfalso; eapply B]; reflexivity.
Qed.

Lemma sub_opened_hc s p c m q : hc (s_ctxs (sub_opened s p c m)) q = hc (s_ctxs s) q.
Proof.
  unfold sub_opened. destruct (m && s_ka s).
  - st_simpl. rewrite activity_ka. destruct (s_ka s); dmatch; st_simpl; rewrite ?hc_set_active, ?activity_ctxs; reflexivity.
  - destruct (s_ka s); dmatch; st_simpl; reflexivity.
Qed.

Lemma handle_alt s i q :
  alt_run (hc (s_ctxs s) q) (conn_evs q (snd (handle_ev s i))) = Some (hc (s_ctxs (fst (handle_ev s i))) q).
Proof.
  assert (SAME : forall s1 os, hc (s_ctxs s1) q = hc (s_ctxs s) q -> conn_evs q os = [] ->
                 alt_run (hc (s_ctxs s) q) (conn_evs q os) = Some (hc (s_ctxs s1) q)).
  { intros s1 os E Z. rewrite Z, E. reflexivity. }
  destruct i; cbn [handle_ev].
  - apply SAME; reflexivity.
  - (* EEst *) unfold on_established. rewrite add_chan_ctxs.
    destruct (find_ctx p (s_ctxs s)) as [cx|] eqn:F.
    + destruct (c_sec cx); cbn [fst snd]; apply SAME; try reflexivity; st_simpl;
        rewrite ?activity_ctxs, ?add_chan_ctxs; try reflexivity.
      apply hc_set_ctx. cbn [c_peer]. unfold hc. rewrite F. reflexivity.
    + cbn [fst snd]. rewrite activity_ctxs. st_simpl. rewrite ?add_chan_ctxs.
      unfold conn_evs. cbn [flat_map app]. unfold hc. rewrite find_app_ctx. cbn [c_peer].
      destruct (p =? q) eqn:E.
      * apply N.eqb_eq in E. subst q. rewrite F. reflexivity.
      * cbn [alt_run]. destruct (find_ctx q (s_ctxs s)); reflexivity.
  - (* EClosed *) unfold on_closed. st_simpl.
    set (s1 := match find_ch c (s_chans s) with
               | Some x => with_chans _ (set_ch (mkCh c 0 (ch_held x)) _) | None => _ end).
    assert (C1 : s_ctxs s1 = s_ctxs s) by (subst s1; destruct (find_ch c (s_chans s)); reflexivity).
    rewrite C1. destruct (find_ctx p (s_ctxs s)) as [cx|] eqn:F.
    + destruct (h_id (c_prim cx) =? c).
      * destruct (c_sec cx) as [h|]; cbn [fst snd].
        -- apply SAME; [|reflexivity]. st_simpl. apply hc_set_ctx. cbn [c_peer]. unfold hc. rewrite F. reflexivity.
        -- st_simpl. unfold conn_evs. cbn [flat_map app]. unfold hc. rewrite find_del_ctx.
           destruct (p =? q) eqn:E.
           ++ apply N.eqb_eq in E. subst q. rewrite F. reflexivity.
           ++ cbn [alt_run]. destruct (find_ctx q (s_ctxs s)); reflexivity.
      * cbn [fst snd]. apply SAME; [|reflexivity]. st_simpl.
        apply hc_set_ctx. cbn [c_peer]. unfold hc. rewrite F. reflexivity.
    + cbn [fst snd]. apply SAME; [rewrite ?C1; reflexivity | reflexivity].
  - destruct (0 <? strong s c); cbn [fst snd]; apply SAME; try reflexivity. apply sub_opened_hc.
  - destruct (pfind id (s_pend s)) as [[p c]|]; cbn [fst snd]; apply SAME; try reflexivity.
    rewrite sub_opened_hc. reflexivity.
  - cbn [fst snd]. apply SAME; reflexivity.
  - cbn [fst snd]. apply SAME; reflexivity.
  - (* EOpen *) unfold on_open. destruct (find_ctx p (s_ctxs s)) as [cx|] eqn:F; [|apply SAME; reflexivity].
    destruct (h_act (c_prim cx) || _); [|apply SAME; reflexivity]. cbn [fst snd]. apply SAME; [|reflexivity].
    st_simpl. destruct (s_ka s); st_simpl; rewrite ?activity_ctxs; st_simpl; [|reflexivity].
    apply hc_set_ctx. cbn [c_peer]. unfold hc. rewrite F. reflexivity.
  - dmatch; cbn [fst snd]; apply SAME; reflexivity.
  - dmatch; cbn [fst snd]; apply SAME; reflexivity.
  - dmatch; cbn [fst snd]; apply SAME; reflexivity.
  - cbn [fst snd]. apply SAME; reflexivity.
  - dmatch; cbn [fst snd]; apply SAME; reflexivity.
  - (* EOpenFull *) unfold on_open_full. destruct (find_ctx p (s_ctxs s)) as [cx|] eqn:F; [|apply SAME; reflexivity].
    destruct (h_act (c_prim cx) || _); [|apply SAME; reflexivity]. cbn [fst snd]. apply SAME; [|reflexivity].
    st_simpl. destruct (s_ka s); st_simpl; rewrite ?activity_ctxs; st_simpl; [|reflexivity].
    apply hc_set_ctx. cbn [c_peer]. unfold hc. rewrite F. reflexivity.
  - cbn [fst snd]. apply SAME; [reflexivity|]. apply conn_evs_nil. intros o H.
    apply force_outs_kind in H. destruct H as [[y ->]|[y ->]]; split; intros; discriminate.
Qed.

Lemma conn_evs_app q a b : conn_evs q (a ++ b) = conn_evs q a ++ conn_evs q b.
Proof. unfold conn_evs. apply flat_map_app. Qed.

Lemma step_alt s dt i q :
  alt_run (hc (s_ctxs s) q) (conn_evs q (snd (step s dt i))) = Some (hc (s_ctxs (fst (step s dt i))) q).
Proof.
  unfold step. set (s0 := with_now s (s_now s + dt)).
  pose proof (handle_alt s0 i q) as HA. destruct (handle_ev s0 i) as [s1 o1]. cbn [fst snd] in HA.
  set (sm := match ka_activity_of s0 i with
             | Some k => with_act s1 (kset k (s_now s1) (s_act s1)) | None => s1 end).
  assert (CM : s_ctxs sm = s_ctxs s1) by (subst sm; destruct (ka_activity_of s0 i); reflexivity).
  pose proof (poll_outs_down sm) as PD. unfold poll_timers in *.
  destruct (fire (s_T sm) (s_now sm) (s_timers sm) (s_last sm)) as [[ts la] ex].
  pose proof (hc_downgrade_all ex (s_ctxs sm) q) as HD.
  destruct (downgrade_all (s_ctxs sm) ex) as [cs os]. cbn [fst snd] in *. st_simpl.
  rewrite conn_evs_app, alt_run_app. change (s_ctxs s0) with (s_ctxs s) in HA. rewrite HA.
  rewrite (conn_evs_nil q os); [|intros o Ho; destruct (PD _ Ho) as [p [c ->]]; split; intros; discriminate].
  cbn [alt_run]. rewrite HD, CM. reflexivity.
Qed.

Lemma alternation_any tr : forall s q,
  alternates (hc (s_ctxs s) q) (conn_evs q (concat (run s tr))).
Proof.
  assert (G : forall tr s q, alt_run (hc (s_ctxs s) q) (conn_evs q (concat (run s tr))) =
                             Some (hc (s_ctxs (final s tr)) q)).
  { induction tr0 as [|[dt i] tr0 IH]; intros s q; cbn [run final concat]; [reflexivity|].
    pose proof (step_alt s dt i q) as SA. destruct (step s dt i) as [s' os]. cbn [fst snd concat] in *.
    rewrite conn_evs_app, alt_run_app, SA. apply IH. }
  intros s q. eapply alt_run_alternates. apply G.
Qed.
