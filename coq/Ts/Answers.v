(* Ts — every accepted open is answered at most once, with its own identifier (C08). *)
From Coq Require Import List NArith Bool Lia.
From V.Ts Require Import Model Proofs.
Import ListNotations.
Open Scope N_scope.
Arguments N.add : simpl never.
Arguments N.sub : simpl never.
Arguments N.eqb : simpl never.
Arguments N.ltb : simpl never.
Arguments N.leb : simpl never.
Arguments N.of_nat : simpl never.

(* identifiers of the answers handed to the protocol that refer to an open in flight *)
Definition ans_ids (os : list out) : list N :=
  flat_map (fun o => match o with
                     | OSub _ (Some id) => [id]
                     | OFail id (Some _) => [id]
                     | _ => []
                     end) os.
Definition pend_ids (s : st) : list N := map fst (s_pend s).
Definition pend_inv (s : st) : Prop :=
  NoDup (pend_ids s) /\ Forall (fun i => i < s_next s) (pend_ids s).

Lemma NoDup_app' {A} (a b : list A) :
  NoDup a -> NoDup b -> (forall x, In x a -> ~ In x b) -> NoDup (a ++ b).
Proof.
  induction a as [|h t IH]; intros Ha Hb D; cbn [app]; [exact Hb|].
  inversion Ha; subst. constructor.
  - intros C. apply in_app_or in C. destruct C as [C|C]; [contradiction|]. apply (D h); [left; reflexivity | exact C].
  - apply IH; auto. intros x Hx. apply D. right; exact Hx.
Qed.

Lemma pdel_ids_notin id l : ~ In id (map fst (pdel id l)).
Proof.
  unfold pdel. intros C. apply in_map_iff in C. destruct C as [x [E Hx]]. apply filter_In in Hx.
  destruct Hx as [_ Hx]. apply negb_true_iff in Hx. apply N.eqb_neq in Hx. congruence.
Qed.
Lemma filter_ids_sub (f : N * key -> bool) l x : In x (map fst (filter f l)) -> In x (map fst l).
Proof.
  intros C. apply in_map_iff in C. destruct C as [y [E Hy]]. apply filter_In in Hy.
  apply in_map_iff. exists y. split; [exact E | apply Hy].
Qed.
Lemma pfind_ids id l k : pfind id l = Some k -> In id (map fst l).
Proof. intros H. apply pfind_In in H. apply in_map_iff. exists (id, k). split; [reflexivity | exact H]. Qed.

Lemma sub_opened_next s p c m : s_next (sub_opened s p c m) = s_next s.
Proof. unfold sub_opened. dmatch; st_simpl; rewrite ?activity_next; reflexivity. Qed.

Definition ans_ok (s s1 : st) (o1 : list out) : Prop :=
  pend_inv s1 /\ s_next s <= s_next s1 /\
  (forall id, In id (ans_ids o1) -> In id (pend_ids s) /\ ~ In id (pend_ids s1)) /\
  (forall id, In id (pend_ids s1) -> In id (pend_ids s) \/ s_next s <= id) /\
  NoDup (ans_ids o1).

Lemma ans_ok_filter s s1 o1 (f : N * key -> bool) :
  pend_inv s -> s_next s1 = s_next s -> s_pend s1 = filter f (s_pend s) -> ans_ids o1 = [] ->
  ans_ok s s1 o1.
Proof.
  intros [P1 P2] N1 E A. unfold ans_ok, pend_inv, pend_ids in *. rewrite E, N1, A.
  split; [split|split; [|split; [|split]]].
  - apply NoDup_map_filter. exact P1.
  - rewrite Forall_forall in *. intros x Hx. apply P2. eapply filter_ids_sub; eauto.
  - lia.
  - intros id [].
  - intros id H. left. eapply filter_ids_sub; eauto.
  - constructor.
Qed.
Lemma filter_true {A} (l : list A) : filter (fun _ => true) l = l.
Proof. induction l as [|h t IH]; cbn [filter]; [reflexivity | rewrite IH; reflexivity]. Qed.
Lemma ans_ok_same s s1 o1 :
  pend_inv s -> s_next s1 = s_next s -> s_pend s1 = s_pend s -> ans_ids o1 = [] -> ans_ok s s1 o1.
Proof.
  intros P N1 E A. apply (ans_ok_filter s s1 o1 (fun _ => true)); auto. rewrite filter_true. exact E.
Qed.

Lemma ans_ok_answer s s1 o1 id k :
  pend_inv s -> s_next s1 = s_next s -> s_pend s1 = pdel id (s_pend s) ->
  pfind id (s_pend s) = Some k -> ans_ids o1 = [id] -> ans_ok s s1 o1.
Proof.
  intros [P1 P2] N1 E F A. unfold ans_ok, pend_inv, pend_ids in *. rewrite E, N1, A.
  split; [split|split; [|split; [|split]]].
  - apply NoDup_map_filter. exact P1.
  - rewrite Forall_forall in *. intros x Hx. apply P2. eapply filter_ids_sub; eauto.
  - lia.
  - intros i [<-|[]]. split; [eapply pfind_ids; eauto | apply pdel_ids_notin].
  - intros i H. left. eapply filter_ids_sub; eauto.
  - constructor; [intros [] | constructor].
Qed.

Lemma handle_ans s e : pend_inv s -> nowrap1 s e -> ans_ok s (fst (handle_ev s e)) (snd (handle_ev s e)).
Proof.
  intros P NW. unfold nowrap1 in NW. destruct e; cbn [handle_ev]; cbn [draw_of] in NW.
  - apply ans_ok_same; auto.
  - unfold on_established. dmatch; cbn [fst snd]; apply ans_ok_same; auto; st_simpl;
      rewrite ?activity_next, ?activity_pend; st_simpl; rewrite ?add_chan_next, ?add_chan_pend; reflexivity.
  - unfold on_closed. st_simpl.
    dmatch; cbn [fst snd];
      apply (ans_ok_filter s _ _ (fun x => negb (snd (snd x) =? c))); auto; st_simpl; reflexivity.
  - destruct (0 <? strong s c); cbn [fst snd]; apply ans_ok_same; auto.
    + apply sub_opened_next.
    + apply (proj2 (sub_opened_view s p c m)).
  - destruct (pfind id (s_pend s)) as [[p c]|] eqn:F; cbn [fst snd]; [|apply ans_ok_same; auto].
    apply (ans_ok_answer s _ _ id (p, c)); [exact P | | | exact F | reflexivity].
    + rewrite sub_opened_next. reflexivity.
    + rewrite (proj2 (sub_opened_view _ p c m)). reflexivity.
  - cbn [fst snd]. destruct (pfind id (s_pend s)) as [[p c]|] eqn:F; cbn [option_map].
    + apply (ans_ok_answer s _ _ id (p, c)); [exact P | reflexivity | reflexivity | exact F | reflexivity].
    + apply (ans_ok_filter s _ _ (fun x => negb (fst x =? id))); auto.
  - apply ans_ok_same; auto.
  - (* EOpen *)
    unfold on_open. rewrite (N.mod_small _ _ NW).
    destruct (find_ctx p (s_ctxs s)) as [cx|]; [|apply ans_ok_same; auto].
    destruct (h_act (c_prim cx) || (0 <? strong s (h_id (c_prim cx)))); [|apply ans_ok_same; auto].
    cbn [fst snd]. destruct P as [P1 P2]. unfold ans_ok, pend_inv, pend_ids in *. st_simpl.
    assert (E1 : s_next (if s_ka s
                         then with_ctxs (activity (with_next s (s_next s + 1)) (p, h_id (c_prim cx)))
                                (set_ctx (mkCtx p (mkH (h_id (c_prim cx)) true) (c_sec cx))
                                   (s_ctxs (activity (with_next s (s_next s + 1)) (p, h_id (c_prim cx)))))
                         else with_next s (s_next s + 1)) = s_next s + 1)
      by (destruct (s_ka s); st_simpl; rewrite ?activity_next; reflexivity).
    assert (E2 : s_pend (if s_ka s
                         then with_ctxs (activity (with_next s (s_next s + 1)) (p, h_id (c_prim cx)))
                                (set_ctx (mkCtx p (mkH (h_id (c_prim cx)) true) (c_sec cx))
                                   (s_ctxs (activity (with_next s (s_next s + 1)) (p, h_id (c_prim cx)))))
                         else with_next s (s_next s + 1)) = s_pend s)
      by (destruct (s_ka s); st_simpl; rewrite ?activity_pend; reflexivity).
    rewrite E1, E2, map_app. cbn [map fst ans_ids flat_map app].
    rewrite Forall_forall in P2.
    split; [split|split; [|split; [|split]]].
    + apply NoDup_snoc; [exact P1|]. intros C. apply P2 in C. lia.
    + rewrite Forall_forall. intros x Hx. apply in_app_or in Hx. destruct Hx as [Hx|[<-|[]]]; [apply P2 in Hx|]; lia.
    + lia.
    + intros id [].
    + intros id H. apply in_app_or in H. destruct H as [H|[<-|[]]]; [left; exact H | right; lia].
    + constructor.
  - dmatch; cbn [fst snd]; apply ans_ok_same; auto.
  - dmatch; cbn [fst snd]; apply ans_ok_same; auto.
  - dmatch; cbn [fst snd]; apply ans_ok_same; auto.
  - rewrite (N.mod_small _ _ NW).
    cbn [fst snd]. destruct P as [P1 P2]. unfold ans_ok, pend_inv, pend_ids in *. st_simpl.
    rewrite Forall_forall in *. split; [split|split; [|split; [|split]]]; auto.
    + intros x Hx. apply P2 in Hx. lia.
    + lia.
    + intros id [].
    + constructor.
  - dmatch; cbn [fst snd]; apply ans_ok_same; auto.
  - (* EOpenFull: an id is drawn, nothing is put in flight *)
    unfold on_open_full. rewrite (N.mod_small _ _ NW).
    destruct (find_ctx p (s_ctxs s)) as [cx|]; [|apply ans_ok_same; auto].
    destruct (h_act (c_prim cx) || (0 <? strong s (h_id (c_prim cx)))); [|apply ans_ok_same; auto].
    cbn [fst snd]. destruct P as [P1 P2]. unfold ans_ok, pend_inv, pend_ids in *. st_simpl.
    assert (E1 : s_next (if s_ka s
                         then with_ctxs (activity (with_next s (s_next s + 1)) (p, h_id (c_prim cx)))
                                (set_ctx (mkCtx p (mkH (h_id (c_prim cx)) true) (c_sec cx))
                                   (s_ctxs (activity (with_next s (s_next s + 1)) (p, h_id (c_prim cx)))))
                         else with_next s (s_next s + 1)) = s_next s + 1)
      by (destruct (s_ka s); st_simpl; rewrite ?activity_next; reflexivity).
    assert (E2 : s_pend (if s_ka s
                         then with_ctxs (activity (with_next s (s_next s + 1)) (p, h_id (c_prim cx)))
                                (set_ctx (mkCtx p (mkH (h_id (c_prim cx)) true) (c_sec cx))
                                   (s_ctxs (activity (with_next s (s_next s + 1)) (p, h_id (c_prim cx)))))
                         else with_next s (s_next s + 1)) = s_pend s)
      by (destruct (s_ka s); st_simpl; rewrite ?activity_pend; reflexivity).
    rewrite E1, E2. cbn [ans_ids flat_map app]. rewrite Forall_forall in *.
    split; [split|split; [|split; [|split]]]; auto.
    + intros x Hx. apply P2 in Hx. lia.
    + lia.
    + intros id [].
    + constructor.
  - (* EForce *)
    cbn [fst snd]. apply ans_ok_same; auto. apply flat_map_nil. intros x H.
    apply force_outs_kind in H. destruct H as [[y ->]|[y ->]]; reflexivity.
Qed.

Lemma step_ans s dt e : pend_inv s -> nowrap1 s e -> ans_ok s (fst (step s dt e)) (snd (step s dt e)).
Proof.
  intros P NW. unfold step. set (s0 := with_now s (s_now s + dt)).
  assert (P0 : pend_inv s0) by exact P.
  assert (NW0 : nowrap1 s0 e) by exact NW.
  pose proof (handle_ans s0 e P0 NW0) as H. destruct (handle_ev s0 e) as [s1 o1]. cbn [fst snd] in H.
  set (sm := match ka_activity_of s0 e with
             | Some k => with_act s1 (kset k (s_now s1) (s_act s1)) | None => s1 end).
  assert (M1 : s_next sm = s_next s1) by (subst sm; destruct (ka_activity_of s0 e); reflexivity).
  assert (M2 : s_pend sm = s_pend s1) by (subst sm; destruct (ka_activity_of s0 e); reflexivity).
  pose proof (poll_consts sm) as PC. pose proof (poll_outs_down sm) as PD.
  destruct (poll_timers sm) as [s2 o2]. cbn [fst snd] in *.
  destruct PC as [_ [_ [_ [_ [PN [PP _]]]]]].
  assert (A2 : ans_ids o2 = []).
  { apply flat_map_nil. intros x Hx. destruct (PD x Hx) as [p [c ->]]. reflexivity. }
  assert (AE : ans_ids (o1 ++ o2) = ans_ids o1).
  { unfold ans_ids in *. rewrite flat_map_app, A2, app_nil_r. reflexivity. }
  unfold ans_ok, pend_inv, pend_ids in *. rewrite AE, PN, PP, M1, M2. exact H.
Qed.

(* over a whole history: no identifier is answered twice, and every answered identifier was in
   flight at the start or was issued later *)
Lemma answers_once tr : forall s, pend_inv s -> nowrap s tr ->
  NoDup (ans_ids (concat (run s tr))) /\
  forall id, In id (ans_ids (concat (run s tr))) -> In id (pend_ids s) \/ s_next s <= id.
Proof.
  induction tr as [|[dt e] tr IH]; intros s P NW; cbn [run].
  - cbn. split; [constructor | intros id []].
  - cbn [nowrap] in NW. destruct NW as [NW1 NW2].
    pose proof (step_ans s dt e P NW1) as SA. destruct (step s dt e) as [s' os]. cbn [fst snd] in *.
    destruct SA as [P' [NX [A1 [A2 A3]]]]. destruct (IH s' P' NW2) as [I1 I2].
    cbn [concat]. unfold ans_ids in *. rewrite flat_map_app. split.
    + apply NoDup_app'; auto. intros x Hx C. destruct (A1 x Hx) as [X1 X2].
      destruct P as [_ PF]. rewrite Forall_forall in PF. apply PF in X1.
      destruct (I2 x C) as [Y|Y]; [contradiction | lia].
    + intros id H. apply in_app_or in H. destruct H as [H|H].
      * left. apply (A1 id H).
      * destruct (I2 id H) as [Y|Y]; [destruct (A2 id Y) as [Z|Z]; auto | right; lia].
Qed.

Lemma pend_inv_init ka T n : pend_inv (init ka T n).
Proof. split; cbn; constructor. Qed.

(* ------------------------------------------------------------------ an accepted open stays in
   flight until it is answered or its connection is reported closed *)
Lemma pfind_filter (f : N * key -> bool) id l k :
  pfind id l = Some k -> f (id, k) = true -> pfind id (filter f l) = Some k.
Proof.
  induction l as [|[i k0] t IH]; cbn [pfind filter]; [discriminate|].
  destruct (i =? id) eqn:E.
  - intros H Hf. inversion H; subst k0. apply N.eqb_eq in E. subst i. rewrite Hf. cbn [pfind].
    rewrite N.eqb_refl. reflexivity.
  - intros H Hf. destruct (f (i, k0)); [cbn [pfind]; rewrite E|]; auto.
Qed.
Lemma pfind_app_l id l x k : pfind id l = Some k -> pfind id (l ++ x) = Some k.
Proof.
  induction l as [|[i k0] t IH]; cbn [pfind app]; [discriminate|].
  destruct (i =? id); auto.
Qed.
Lemma pfind_app_new id l k : ~ In id (map fst l) -> pfind id (l ++ [(id, k)]) = Some k.
Proof.
  induction l as [|[i k0] t IH]; cbn [pfind app map fst]; intros H.
  - rewrite N.eqb_refl. reflexivity.
  - destruct (i =? id) eqn:E; [apply N.eqb_eq in E; exfalso; apply H; left; exact E|].
    apply IH. intros C. apply H. right; exact C.
Qed.

Lemma handle_inflight s e id k :
  pfind id (s_pend s) = Some k ->
  pfind id (s_pend (fst (handle_ev s e))) = Some k \/ In id (ans_ids (snd (handle_ev s e))) \/
  exists p, e = EClosed p (snd k).
Proof.
  intros PF. destruct e; cbn [handle_ev].
  - left; exact PF.
  - left. unfold on_established. dmatch; cbn [fst]; st_simpl;
      rewrite ?activity_pend; st_simpl; rewrite ?add_chan_pend; exact PF.
  - destruct (snd k =? c) eqn:E.
    + right; right. apply N.eqb_eq in E. subst c. eauto.
    + left. unfold on_closed. st_simpl.
      assert (G : pfind id (filter (fun x : N * key => negb (snd (snd x) =? c)) (s_pend s)) = Some k).
      { apply pfind_filter; [exact PF|]. cbn [snd]. rewrite E. reflexivity. }
      dmatch; cbn [fst]; st_simpl; exact G.
  - left. destruct (0 <? strong s c); cbn [fst]; [|exact PF].
    rewrite (proj2 (sub_opened_view s p c m)). exact PF.
  - destruct (pfind id0 (s_pend s)) as [[p c]|] eqn:F; cbn [fst snd]; [|left; exact PF].
    destruct (id0 =? id) eqn:E.
    + apply N.eqb_eq in E. subst id0. right; left. cbn. left; reflexivity.
    + left. rewrite (proj2 (sub_opened_view _ p c m)). st_simpl. unfold pdel.
      apply pfind_filter; [exact PF|]. cbn [fst]. rewrite N.eqb_sym, E. reflexivity.
  - cbn [fst snd]. st_simpl. destruct (id0 =? id) eqn:E.
    + apply N.eqb_eq in E. subst id0. right; left. rewrite PF. cbn. left; reflexivity.
    + left. unfold pdel. apply pfind_filter; [exact PF|]. cbn [fst]. rewrite N.eqb_sym, E. reflexivity.
  - left; exact PF.
  - left. unfold on_open. dmatch; cbn [fst]; st_simpl; rewrite ?activity_pend; st_simpl;
      try exact PF; apply pfind_app_l; exact PF.
  - left. dmatch; cbn [fst]; st_simpl; exact PF.
  - left. dmatch; cbn [fst]; st_simpl; exact PF.
  - left. dmatch; cbn [fst]; st_simpl; exact PF.
  - left; exact PF.
  - left. dmatch; cbn [fst]; st_simpl; exact PF.
  - left. unfold on_open_full. dmatch; cbn [fst]; st_simpl; rewrite ?activity_pend; st_simpl; exact PF.
  - left; exact PF.
Qed.

Lemma step_pend_ans s dt e :
  s_pend (fst (step s dt e)) = s_pend (fst (handle_ev (with_now s (s_now s + dt)) e)) /\
  ans_ids (snd (step s dt e)) = ans_ids (snd (handle_ev (with_now s (s_now s + dt)) e)).
Proof.
  unfold step. set (s0 := with_now s (s_now s + dt)).
  destruct (handle_ev s0 e) as [s1 o1]. cbn [fst snd].
  set (sm := match ka_activity_of s0 e with
             | Some k => with_act s1 (kset k (s_now s1) (s_act s1)) | None => s1 end).
  assert (M2 : s_pend sm = s_pend s1) by (subst sm; destruct (ka_activity_of s0 e); reflexivity).
  pose proof (poll_consts sm) as PC. pose proof (poll_outs_down sm) as PD.
  destruct (poll_timers sm) as [s2 o2]. cbn [fst snd] in *.
  destruct PC as [_ [_ [_ [_ [_ [PP _]]]]]].
  assert (A2 : ans_ids o2 = []).
  { apply flat_map_nil. intros x Hx. destruct (PD x Hx) as [p [c ->]]. reflexivity. }
  split; [rewrite PP, M2; reflexivity|].
  unfold ans_ids in *. rewrite flat_map_app, A2, app_nil_r. reflexivity.
Qed.

Lemma step_inflight s dt e id k :
  pfind id (s_pend s) = Some k ->
  pfind id (s_pend (fst (step s dt e))) = Some k \/ In id (ans_ids (snd (step s dt e))) \/
  exists p, e = EClosed p (snd k).
Proof.
  intros PF. destruct (step_pend_ans s dt e) as [E1 E2]. rewrite E1, E2.
  apply (handle_inflight (with_now s (s_now s + dt)) e id k). exact PF.
Qed.

Lemma inflight_resolution tr : forall s id k,
  pfind id (s_pend s) = Some k ->
  pfind id (s_pend (final s tr)) = Some k \/ In id (ans_ids (concat (run s tr))) \/
  exists dt p, In (dt, EClosed p (snd k)) tr.
Proof.
  induction tr as [|[dt e] tr IH]; intros s id k PF; cbn [final run].
  - left; exact PF.
  - pose proof (step_inflight s dt e id k PF) as SI. destruct (step s dt e) as [s' os] eqn:ST.
    cbn [fst snd concat] in *. unfold ans_ids. rewrite flat_map_app. fold (ans_ids os) (ans_ids (concat (run s' tr))).
    destruct SI as [H|[H|[p H]]].
    + destruct (IH s' id k H) as [G|[G|[dt' [p' G]]]].
      * left; exact G.
      * right; left. apply in_or_app; right; exact G.
      * right; right. exists dt', p'. right; exact G.
    + right; left. apply in_or_app; left; exact H.
    + right; right. exists dt, p. left. rewrite H. reflexivity.
Qed.

(* an OpenSubstream command means: the identifier is now in flight on that connection *)
Lemma step_accept s dt e c id :
  pend_inv s -> In (OCmd c id) (snd (step s dt e)) ->
  exists p, pfind id (s_pend (fst (step s dt e))) = Some (p, c).
Proof.
  intros [P1 P2] H. destruct (step_pend_ans s dt e) as [E1 _]. rewrite E1.
  assert (HC : In (OCmd c id) (snd (handle_ev (with_now s (s_now s + dt)) e))).
  { unfold step in H. destruct (handle_ev (with_now s (s_now s + dt)) e) as [s1 o1]. cbn [snd] in *.
    set (sm := match ka_activity_of (with_now s (s_now s + dt)) e with
               | Some k => with_act s1 (kset k (s_now s1) (s_act s1)) | None => s1 end) in *.
    pose proof (poll_outs_down sm) as PD. destruct (poll_timers sm) as [s2 o2]. cbn [snd] in *.
    apply in_app_or in H. destruct H as [H|H]; [exact H|]. destruct (PD _ H) as [p [c' E]]. discriminate. }
  set (s0 := with_now s (s_now s + dt)) in *.
  assert (Q2 : forall i, In i (map fst (s_pend s0)) -> i < s_next s0).
  { intros i Hi. rewrite Forall_forall in P2. apply (P2 i Hi). }
  clearbody s0. destruct e; cbn [handle_ev] in *; unfold on_established, on_closed, on_open_full in *;
    try (revert HC; dmatch; cbn [snd In]; intuition discriminate).
  unfold on_open in *. destruct (find_ctx p (s_ctxs s0)) as [cx|]; [|cbn [snd In] in HC; intuition discriminate].
  destruct (h_act (c_prim cx) || (0 <? strong s0 (h_id (c_prim cx)))); [|cbn [snd In] in HC; intuition discriminate].
  cbn [fst snd In] in *. destruct HC as [HC|[HC|[]]]; [discriminate|]. inversion HC; subst c id.
  exists p. st_simpl.
  assert (E2 : s_pend (if s_ka s0
                       then with_ctxs (activity (with_next s0 ((s_next s0 + 1) mod ID_MOD)) (p, h_id (c_prim cx)))
                              (set_ctx (mkCtx p (mkH (h_id (c_prim cx)) true) (c_sec cx))
                                 (s_ctxs (activity (with_next s0 ((s_next s0 + 1) mod ID_MOD)) (p, h_id (c_prim cx)))))
                       else with_next s0 ((s_next s0 + 1) mod ID_MOD)) = s_pend s0)
    by (destruct (s_ka s0); st_simpl; rewrite ?activity_pend; reflexivity).
  rewrite E2. apply pfind_app_new. intros C. apply Q2 in C. lia.
  cbn [snd] in HC. apply force_outs_kind in HC. destruct HC as [[y HC]|[y HC]]; discriminate.
Qed.

Lemma pend_inv_final tr : forall s, pend_inv s -> nowrap s tr -> pend_inv (final s tr).
Proof.
  induction tr as [|[dt e] tr IH]; intros s P NW; cbn [final]; [exact P|].
  cbn [nowrap] in NW. destruct NW as [NW1 NW2].
  apply IH; [apply (step_ans s dt e P NW1) | exact NW2].
Qed.

(* every accepted open ends in exactly one of: still in flight, answered, connection closed after it *)
Lemma opened_resolution tr : forall s c id,
  pend_inv s -> nowrap s tr -> In (OCmd c id) (concat (run s tr)) ->
  (exists p, pfind id (s_pend (final s tr)) = Some (p, c)) \/
  In id (ans_ids (concat (run s tr))) \/
  exists dt p, In (dt, EClosed p c) tr.
Proof.
  induction tr as [|[dt e] tr IH]; intros s c id P NW H; cbn [run final] in *; [destruct H|].
  cbn [nowrap] in NW. destruct NW as [NW1 NW2].
  pose proof (step_accept s dt e c id P) as SA. pose proof (step_ans s dt e P NW1) as [P' _].
  destruct (step s dt e) as [s' os] eqn:ST. cbn [fst snd concat] in *.
  unfold ans_ids. rewrite flat_map_app. fold (ans_ids os) (ans_ids (concat (run s' tr))).
  apply in_app_or in H. destruct H as [H|H].
  - destruct (SA H) as [p PF].
    destruct (inflight_resolution tr s' id (p, c) PF) as [G|[G|[dt' [p' G]]]].
    + left. exists p. exact G.
    + right; left. apply in_or_app; right; exact G.
    + right; right. exists dt', p'. right; exact G.
  - destruct (IH s' c id P' NW2 H) as [G|[G|[dt' [p' G]]]].
    + left; exact G.
    + right; left. apply in_or_app; right; exact G.
    + right; right. exists dt', p'. right; exact G.
Qed.

(* ... and under the environment hypothesis that nothing is left unanswered (the connection task
   answers every command it received unless it terminates): exactly one answer, or closed *)
Lemma open_answered tr ka T n0 c id :
  nowrap (init ka T n0) tr ->
  In (OCmd c id) (concat (run (init ka T n0) tr)) ->
  pfind id (s_pend (final (init ka T n0) tr)) = None ->
  (count_occ N.eq_dec (ans_ids (concat (run (init ka T n0) tr))) id <= 1)%nat /\
  (count_occ N.eq_dec (ans_ids (concat (run (init ka T n0) tr))) id = 1%nat \/
   exists dt p, In (dt, EClosed p c) tr).
Proof.
  intros NW H NF. destruct (answers_once tr (init ka T n0) (pend_inv_init ka T n0) NW) as [ND _].
  split; [apply NoDup_count_occ; exact ND|].
  destruct (opened_resolution tr (init ka T n0) c id (pend_inv_init ka T n0) NW H) as [[p G]|[G|G]].
  - congruence.
  - left. apply NoDup_count_occ'; assumption.
  - right; exact G.
Qed.

(* ------------------------------------------------------------------ once the answer event has
   been delivered to the service (after the open), the open is resolved for good *)
Lemma final_app tr1 : forall s tr2, final s (tr1 ++ tr2) = final (final s tr1) tr2.
Proof. induction tr1 as [|[dt e] tr1 IH]; intros s tr2; cbn [app final]; [reflexivity | apply IH]. Qed.
Lemma run_app tr1 : forall s tr2,
  concat (run s (tr1 ++ tr2)) = concat (run s tr1) ++ concat (run (final s tr1) tr2).
Proof.
  induction tr1 as [|[dt e] tr1 IH]; intros s tr2; cbn [app run final]; [reflexivity|].
  destruct (step s dt e) as [s' os] eqn:ST. cbn [concat fst]. rewrite IH, app_assoc. reflexivity.
Qed.

Lemma pfind_none_notin id l : pfind id l = None -> ~ In id (map fst l).
Proof.
  induction l as [|[i k] t IH]; cbn [pfind map fst]; [intros _ []|].
  destruct (i =? id) eqn:E; [discriminate|]. intros H [C|C]; [apply N.eqb_neq in E; contradiction | exact (IH H C)].
Qed.
Lemma notin_pfind_none id l : ~ In id (map fst l) -> pfind id l = None.
Proof.
  induction l as [|[i k] t IH]; cbn [pfind map fst]; [reflexivity|]. intros H.
  destruct (i =? id) eqn:E; [apply N.eqb_eq in E; exfalso; apply H; left; exact E|].
  apply IH. intros C. apply H. right; exact C.
Qed.

Lemma nowrap_app tr1 : forall s tr2, nowrap s (tr1 ++ tr2) <-> nowrap s tr1 /\ nowrap (final s tr1) tr2.
Proof.
  induction tr1 as [|[dt e] tr1 IH]; intros s tr2; cbn [app nowrap final]; [tauto|].
  rewrite IH. tauto.
Qed.

Lemma notin_pend_stays tr : forall s id,
  pend_inv s -> nowrap s tr -> id < s_next s -> ~ In id (pend_ids s) ->
  ~ In id (pend_ids (final s tr)) /\ id < s_next (final s tr).
Proof.
  induction tr as [|[dt e] tr IH]; intros s id P NW L N; cbn [final]; [auto|].
  cbn [nowrap] in NW. destruct NW as [NW1 NW2].
  destruct (step_ans s dt e P NW1) as [P' [NX [_ [A2 _]]]]. apply IH; [exact P' | exact NW2 | lia|].
  intros C. destruct (A2 id C) as [H|H]; [contradiction | lia].
Qed.

Lemma answer_step_clears s dt a id :
  (exists m, a = ESubOut id m) \/ a = ESubFail id ->
  ~ In id (pend_ids (fst (step s dt a))).
Proof.
  intros H. unfold pend_ids. destruct (step_pend_ans s dt a) as [E _]. rewrite E.
  set (s0 := with_now s (s_now s + dt)). destruct H as [[m ->]| ->]; cbn [handle_ev].
  - destruct (pfind id (s_pend s0)) as [[p c]|] eqn:F; cbn [fst].
    + rewrite (proj2 (sub_opened_view _ p c m)). st_simpl. apply pdel_ids_notin.
    + apply pfind_none_notin. exact F.
  - cbn [fst]. st_simpl. apply pdel_ids_notin.
Qed.

Lemma ocmd_issued tr : forall s c id,
  pend_inv s -> nowrap s tr -> In (OCmd c id) (concat (run s tr)) -> id < s_next (final s tr).
Proof.
  induction tr as [|[dt e] tr IH]; intros s c id P NW H; cbn [run final] in *; [destruct H|].
  cbn [nowrap] in NW. destruct NW as [NW1 NW2].
  pose proof (step_accept s dt e c id P) as SA. pose proof (step_ans s dt e P NW1) as [P' _].
  destruct (step s dt e) as [s' os] eqn:ST. cbn [fst snd concat] in *.
  apply in_app_or in H. destruct H as [H|H]; [|eapply IH; eauto].
  destruct (SA H) as [p PF]. apply pfind_ids in PF.
  assert (L : id < s_next s') by (destruct P' as [_ Q]; rewrite Forall_forall in Q; apply Q; exact PF).
  clear -P' L NW2. revert s' P' L NW2. induction tr as [|[dt e] tr IH]; intros s' P' L NW2; cbn [final]; [exact L|].
  cbn [nowrap] in NW2. destruct NW2 as [N1 N2].
  destruct (step_ans s' dt e P' N1) as [P'' [NX _]]. apply IH; [exact P'' | lia | exact N2].
Qed.

Lemma answer_event_resolves tr1 dt a tr2 ka T n0 c id :
  nowrap (init ka T n0) (tr1 ++ (dt, a) :: tr2) ->
  In (OCmd c id) (concat (run (init ka T n0) tr1)) ->
  (exists m, a = ESubOut id m) \/ a = ESubFail id ->
  pfind id (s_pend (final (init ka T n0) (tr1 ++ (dt, a) :: tr2))) = None.
Proof.
  intros NW H A. rewrite final_app. cbn [final].
  apply nowrap_app in NW. destruct NW as [NWa NWb]. cbn [nowrap] in NWb. destruct NWb as [NW1 NW2].
  set (s1 := final (init ka T n0) tr1) in *.
  assert (P1 : pend_inv s1) by (apply pend_inv_final; [apply pend_inv_init | exact NWa]).
  assert (L1 : id < s_next s1) by (eapply ocmd_issued; [apply pend_inv_init | exact NWa | exact H]).
  destruct (step_ans s1 dt a P1 NW1) as [P2 [NX _]].
  apply notin_pfind_none.
  apply (notin_pend_stays tr2 (fst (step s1 dt a)) id P2 NW2); [lia|].
  apply answer_step_clears. exact A.
Qed.

(* the open is answered exactly once, or its connection was reported closed — given only that
   the answer event reaches the service after the open was made *)
Lemma open_answered_delivered tr1 dt a tr2 ka T n0 c id :
  nowrap (init ka T n0) (tr1 ++ (dt, a) :: tr2) ->
  In (OCmd c id) (concat (run (init ka T n0) tr1)) ->
  (exists m, a = ESubOut id m) \/ a = ESubFail id ->
  let tr := tr1 ++ (dt, a) :: tr2 in
  (count_occ N.eq_dec (ans_ids (concat (run (init ka T n0) tr))) id <= 1)%nat /\
  (count_occ N.eq_dec (ans_ids (concat (run (init ka T n0) tr))) id = 1%nat \/
   exists dt' p, In (dt', EClosed p c) tr).
Proof.
  intros NW H A tr. apply open_answered.
  - exact NW.
  - unfold tr. rewrite run_app. apply in_or_app. left. exact H.
  - eapply answer_event_resolves; eassumption.
Qed.

(* ------------------------------------------------------------------ ChannelClogged: the open is
   refused after an identifier was drawn; nothing is put in flight, no command is issued and no
   identifier is returned *)
Lemma open_full_effect s dt p :
  s_pend (fst (step s dt (EOpenFull p))) = s_pend s /\
  ret_ids (snd (step s dt (EOpenFull p))) = [] /\
  (forall c id, ~ In (OCmd c id) (snd (step s dt (EOpenFull p)))) /\
  (exists r, In (ORet r 0) (snd (step s dt (EOpenFull p))) /\ (r = 1 \/ r = 2 \/ r = 3)).
Proof.
  destruct (step_pend_ans s dt (EOpenFull p)) as [E1 _]. rewrite E1.
  unfold step. set (s0 := with_now s (s_now s + dt)).
  assert (P0 : s_pend s0 = s_pend s) by reflexivity.
  pose proof (handle_cmd s0 (EOpenFull p)) as HC.
  destruct (handle_ev s0 (EOpenFull p)) as [s1 o1] eqn:HE. cbn [fst snd] in *.
  set (sm := match ka_activity_of s0 (EOpenFull p) with
             | Some k => with_act s1 (kset k (s_now s1) (s_act s1)) | None => s1 end).
  pose proof (poll_outs_down sm) as PD. destruct (poll_timers sm) as [s2 o2]. cbn [fst snd] in *.
  assert (R2 : ret_ids o2 = []).
  { apply flat_map_nil. intros x Hx. destruct (PD x Hx) as [q [c ->]]. reflexivity. }
  cbn [handle_ev] in HE. unfold on_open_full in HE.
  assert (G : s_pend s1 = s_pend s0 /\ ret_ids o1 = [] /\
              exists r, In (ORet r 0) o1 /\ (r = 1 \/ r = 2 \/ r = 3)).
  { destruct (find_ctx p (s_ctxs s0)) as [cx|].
    - destruct (h_act (c_prim cx) || (0 <? strong s0 (h_id (c_prim cx)))).
      + inversion HE; subst. split; [|split; [reflexivity | exists 3; split; [left; reflexivity | auto]]].
        st_simpl. destruct (s_ka s); st_simpl; rewrite ?activity_pend; st_simpl; reflexivity.
      + inversion HE; subst. split; [reflexivity|]. split; [reflexivity | exists 2; split; [left; reflexivity | auto]].
    - inversion HE; subst. split; [reflexivity|]. split; [reflexivity | exists 1; split; [left; reflexivity | auto]]. }
  destruct G as [G1 [G2 [r [G3 G4]]]]. split; [rewrite G1; exact P0|]. split.
  - unfold ret_ids in *. rewrite flat_map_app, G2, R2. reflexivity.
  - split.
    + intros c id H. apply in_app_or in H. destruct H as [H|H].
      * destruct (HC c id H) as [q [cx [E _]]]. discriminate.
      * destruct (PD _ H) as [q [c' E]]. discriminate.
    + exists r. split; [apply in_or_app; left; exact G3 | exact G4].
Qed.
