(* Ts — every accepted open is answered at most once, with its own identifier (C08). *)
From Coq Require Import List NArith Bool Lia.
From V.Ts Require Import Model Proofs.
Import ListNotations.
Open Scope N_scope.
Arguments N.add : simpl never.
Arguments N.sub : simpl never.
Arguments N.eqb : simpl never.
Arguments N.ltb : simpl never.
Arguments N.leb : simpl never.
Arguments N.of_nat : simpl never.

(* identifiers of the answers handed to the protocol that refer to an open in flight *)
Definition ans_ids (os : list out) : list N :=
  flat_map (fun o => match o with
                     | OSub _ (Some id) => [id]
                     | OFail id (Some _) => [id]
                     | _ => []
                     end) os.
Definition pend_ids (s : st) : list N := map fst (s_pend s).
Definition pend_inv (s : st) : Prop :=
  NoDup (pend_ids s) /\ Forall (fun i => i < s_next s) (pend_ids s).

Lemma NoDup_app' {A} (a b : list A) :
  NoDup a -> NoDup b -> (forall x, In x a -> ~ In x b) -> NoDup (a ++ b).
Proof.
  induction a as [|h t IH]; intros Ha Hb D; cbn [app]; [exact Hb|].
  inversion Ha; subst. constructor.
  - intros C. apply in_app_or in C. destruct C as [C|C]; [contradiction|]. apply (D h); [left; reflexivity | exact C].
  - apply IH; auto. intros x Hx. apply D. right; exact Hx.
Qed.

Lemma pdel_ids_notin id l : ~ In id (map fst (pdel id l)).
Proof.
  unfold pdel. intros C. apply in_map_iff in C. destruct C as [x [E Hx]]. apply filter_In in Hx.
  destruct Hx as [_ Hx]. apply negb_true_iff in Hx. apply N.eqb_neq in Hx. congruence.
Qed.
Lemma filter_ids_sub (f : N * key -> bool) l x : In x (map fst (filter f l)) -> In x (map fst l).
Proof.
  intros C. apply in_map_iff in C. destruct C as [y [E Hy]]. apply filter_In in Hy.
  apply in_map_iff. exists y. split; [exact E | apply Hy].
Qed.
Lemma pfind_ids id l k : pfind id l = Some k -> In id (map fst l).
Proof. intros H. apply pfind_In in H. apply in_map_iff. exists (id, k). split; [reflexivity | exact H]. Qed.

Lemma sub_opened_next s p c m : s_next (sub_opened s p c m) = s_next s.
Proof. unfold sub_opened. dmatch; st_simpl; rewrite ?activity_next; reflexivity. Qed.

Definition ans_ok (s s1 : st) (o1 : list out) : Prop :=
  pend_inv s1 /\ s_next s <= s_next s1 /\
  (forall id, In id (ans_ids o1) -> In id (pend_ids s) /\ ~ In id (pend_ids s1)) /\
  (forall id, In id (pend_ids s1) -> In id (pend_ids s) \/ s_next s <= id) /\
  NoDup (ans_ids o1).

Lemma ans_ok_filter s s1 o1 (f : N * key -> bool) :
  pend_inv s -> s_next s1 = s_next s -> s_pend s1 = filter f (s_pend s) -> ans_ids o1 = [] ->
  ans_ok s s1 o1.
Proof.
  intros [P1 P2] N1 E A. unfold ans_ok, pend_inv, pend_ids in *. rewrite E, N1, A.
  split; [split|split; [|split; [|split]]].
  - apply NoDup_map_filter. exact P1.
  - rewrite Forall_forall in *. intros x Hx. apply P2. eapply filter_ids_sub; eauto.
  - lia.
  - intros id [].
  - intros id H. left. eapply filter_ids_sub; eauto.
  - constructor.
Qed.
Lemma filter_true {A} (l : list A) : filter (fun _ => true) l = l.
Proof. induction l as [|h t IH]; cbn [filter]; [reflexivity | rewrite IH; reflexivity]. Qed.
Lemma ans_ok_same s s1 o1 :
  pend_inv s -> s_next s1 = s_next s -> s_pend s1 = s_pend s -> ans_ids o1 = [] -> ans_ok s s1 o1.
Proof.
  intros P N1 E A. apply (ans_ok_filter s s1 o1 (fun _ => true)); auto. rewrite filter_true. exact E.
Qed.

Lemma ans_ok_answer s s1 o1 id k :
  pend_inv s -> s_next s1 = s_next s -> s_pend s1 = pdel id (s_pend s) ->
  pfind id (s_pend s) = Some k -> ans_ids o1 = [id] -> ans_ok s s1 o1.
Proof.
  intros [P1 P2] N1 E F A. unfold ans_ok, pend_inv, pend_ids in *. rewrite E, N1, A.
  split; [split|split; [|split; [|split]]].
  - apply NoDup_map_filter. exact P1.
  - rewrite Forall_forall in *. intros x Hx. apply P2. eapply filter_ids_sub; eauto.
  - lia.
  - intros i [<-|[]]. split; [eapply pfind_ids; eauto | apply pdel_ids_notin].
  - intros i H. left. eapply filter_ids_sub; eauto.
  - constructor; [intros [] | constructor].
Qed.

Lemma handle_ans s e : pend_inv s -> ans_ok s (fst (handle_ev s e)) (snd (handle_ev s e)).
Proof.
  intros P. destruct e; cbn [handle_ev].
  - apply ans_ok_same; auto.
  - unfold on_established. dmatch; cbn [fst snd]; apply ans_ok_same; auto; st_simpl;
      rewrite ?activity_next, ?activity_pend; st_simpl; rewrite ?add_chan_next, ?add_chan_pend; reflexivity.
  - unfold on_closed. st_simpl.
    dmatch; cbn [fst snd];
      apply (ans_ok_filter s _ _ (fun x => negb (snd (snd x) =? c))); auto; st_simpl; reflexivity.
  - destruct (0 <? strong s c); cbn [fst snd]; apply ans_ok_same; auto.
    + apply sub_opened_next.
    + apply (proj2 (sub_opened_view s p c m)).
  - destruct (pfind id (s_pend s)) as [[p c]|] eqn:F; cbn [fst snd]; [|apply ans_ok_same; auto].
    apply (ans_ok_answer s _ _ id (p, c)); [exact P | | | exact F | reflexivity].
    + rewrite sub_opened_next. reflexivity.
    + rewrite (proj2 (sub_opened_view _ p c m)). reflexivity.
  - cbn [fst snd]. destruct (pfind id (s_pend s)) as [[p c]|] eqn:F; cbn [option_map].
    + apply (ans_ok_answer s _ _ id (p, c)); [exact P | reflexivity | reflexivity | exact F | reflexivity].
    + apply (ans_ok_filter s _ _ (fun x => negb (fst x =? id))); auto.
  - apply ans_ok_same; auto.
  - (* EOpen *)
    unfold on_open. destruct (find_ctx p (s_ctxs s)) as [cx|]; [|apply ans_ok_same; auto].
    destruct (h_act (c_prim cx) || (0 <? strong s (h_id (c_prim cx)))); [|apply ans_ok_same; auto].
    cbn [fst snd]. destruct P as [P1 P2]. unfold ans_ok, pend_inv, pend_ids in *. st_simpl.
    assert (E1 : s_next (if s_ka s
                         then with_ctxs (activity (with_next s (s_next s + 1)) (p, h_id (c_prim cx)))
                                (set_ctx (mkCtx p (mkH (h_id (c_prim cx)) true) (c_sec cx))
                                   (s_ctxs (activity (with_next s (s_next s + 1)) (p, h_id (c_prim cx)))))
                         else with_next s (s_next s + 1)) = s_next s + 1)
      by (destruct (s_ka s); st_simpl; rewrite ?activity_next; reflexivity).
    assert (E2 : s_pend (if s_ka s
                         then with_ctxs (activity (with_next s (s_next s + 1)) (p, h_id (c_prim cx)))
                                (set_ctx (mkCtx p (mkH (h_id (c_prim cx)) true) (c_sec cx))
                                   (s_ctxs (activity (with_next s (s_next s + 1)) (p, h_id (c_prim cx)))))
                         else with_next s (s_next s + 1)) = s_pend s)
      by (destruct (s_ka s); st_simpl; rewrite ?activity_pend; reflexivity).
    rewrite E1, E2, map_app. cbn [map fst ans_ids flat_map app].
    rewrite Forall_forall in P2.
    split; [split|split; [|split; [|split]]].
    + apply NoDup_snoc; [exact P1|]. intros C. apply P2 in C. lia.
    + rewrite Forall_forall. intros x Hx. apply in_app_or in Hx. destruct Hx as [Hx|[<-|[]]]; [apply P2 in Hx|]; lia.
    + lia.
    + intros id [].
    + intros id H. apply in_app_or in H. destruct H as [H|[<-|[]]]; [left; exact H | right; lia].
    + constructor.
  - dmatch; cbn [fst snd]; apply ans_ok_same; auto.
  - dmatch; cbn [fst snd]; apply ans_ok_same; auto.
  - dmatch; cbn [fst snd]; apply ans_ok_same; auto.
  - cbn [fst snd]. destruct P as [P1 P2]. unfold ans_ok, pend_inv, pend_ids in *. st_simpl.
    rewrite Forall_forall in *. split; [split|split; [|split; [|split]]]; auto.
    + intros x Hx. apply P2 in Hx. lia.
    + lia.
    + intros id [].
    + constructor.
Qed.

Lemma step_ans s dt e : pend_inv s -> ans_ok s (fst (step s dt e)) (snd (step s dt e)).
Proof.
  intros P. unfold step. set (s0 := with_now s (s_now s + dt)).
  assert (P0 : pend_inv s0) by exact P.
  pose proof (handle_ans s0 e P0) as H. destruct (handle_ev s0 e) as [s1 o1]. cbn [fst snd] in H.
  set (sm := match ka_activity_of s0 e with
             | Some k => with_act s1 (kset k (s_now s1) (s_act s1)) | None => s1 end).
  assert (M1 : s_next sm = s_next s1) by (subst sm; destruct (ka_activity_of s0 e); reflexivity).
  assert (M2 : s_pend sm = s_pend s1) by (subst sm; destruct (ka_activity_of s0 e); reflexivity).
  pose proof (poll_consts sm) as PC. pose proof (poll_outs_down sm) as PD.
  destruct (poll_timers sm) as [s2 o2]. cbn [fst snd] in *.
  destruct PC as [_ [_ [_ [_ [PN [PP _]]]]]].
  assert (A2 : ans_ids o2 = []).
  { apply flat_map_nil. intros x Hx. destruct (PD x Hx) as [p [c ->]]. reflexivity. }
  assert (AE : ans_ids (o1 ++ o2) = ans_ids o1).
  { unfold ans_ids in *. rewrite flat_map_app, A2, app_nil_r. reflexivity. }
  unfold ans_ok, pend_inv, pend_ids in *. rewrite AE, PN, PP, M1, M2. exact H.
Qed.

(* over a whole history: no identifier is answered twice, and every answered identifier was in
   flight at the start or was issued later *)
Lemma answers_once tr : forall s, pend_inv s ->
  NoDup (ans_ids (concat (run s tr))) /\
  forall id, In id (ans_ids (concat (run s tr))) -> In id (pend_ids s) \/ s_next s <= id.
Proof.
  induction tr as [|[dt e] tr IH]; intros s P; cbn [run].
  - cbn. split; [constructor | intros id []].
  - pose proof (step_ans s dt e P) as SA. destruct (step s dt e) as [s' os]. cbn [fst snd] in SA.
    destruct SA as [P' [NX [A1 [A2 A3]]]]. destruct (IH s' P') as [I1 I2].
    cbn [concat]. unfold ans_ids in *. rewrite flat_map_app. split.
    + apply NoDup_app'; auto. intros x Hx C. destruct (A1 x Hx) as [X1 X2].
      destruct P as [_ PF]. rewrite Forall_forall in PF. apply PF in X1.
      destruct (I2 x C) as [Y|Y]; [contradiction | lia].
    + intros id H. apply in_app_or in H. destruct H as [H|H].
      * left. apply (A1 id H).
      * destruct (I2 id H) as [Y|Y]; [destruct (A2 id Y) as [Z|Z]; auto | right; lia].
Qed.

Lemma pend_inv_init ka T n : pend_inv (init ka T n).
Proof. split; cbn; constructor. Qed.
