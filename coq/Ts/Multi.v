(* Ts/Multi — several TransportServices (one per installed protocol, each with its own
   keep-alive flag and its own keep-alive timeout) over the same connections. Each component IS a
   single-service model `st` (Model.v); what Model.v leaves to the environment is closed here:

   * the command channel of a connection (ProtocolSet::rx, src/protocol/protocol_set.rs; its
     senders are the ConnectionHandles / Permits of src/protocol/connection.rs) is shared by all
     protocols: its strong-sender count is the SUM over the services of (Active handle) + (lifetime
     permits of live substreams) + (permits of opens in flight); `ch_other` of every component is
     recomputed from the other components after every step (sync) instead of being driven by
     EOtherUp / EOtherDown;
   * the substream-id counter is one shared atomic (m_next) instead of EBump;
   * OpenSubstream / ForceClose commands of all services queue up, FIFO, in the connection's
     bounded channel (capacity m_cap; 256 in ProtocolSet::new) until the connection task takes
     them with ProtocolSet::next(); a full queue makes open_substream / force_close fail with
     ChannelClogged (EOpenFull / the flags of EForce are derived from the queue, not inputs);
     next() returns None — the connection task ends — exactly when the queue is empty and no
     strong sender is left;
   * report_connection_established (ConnectionHandle::downgrade: the ProtocolSet keeps only a weak
     sender, every protocol receives a strong clone) and report_connection_closed reach every
     service; they are consumed by all services within the same step (the per-protocol event
     channels and their back-pressure are the subject of Report.v).
   ProtocolSet::report_substream_open always reports the MAIN protocol name (the negotiated
   fallback travels in `fallback`), and ProtocolSet::new classifies every negotiable name — main
   and fallback alike — with the keep-alive flag of the protocol it belongs to (Names.v), which is
   what the connection reads to decide whether an accepted inbound substream stores a lifetime
   permit. So inside the composition a substream negotiated over a fallback name (m = false in the
   input) is treated exactly like one negotiated over the main name: it counts as activity of a
   keep-alive protocol and holds the connection while it lives.
   Definitions only. *)
From Coq Require Import List NArith Bool PeanoNat.
From V.Ts Require Import Model.
Import ListNotations.
Open Scope N_scope.

(* strong senders of connection c's command channel contributed by one service *)
Definition local (s : st) (c : N) : N :=
  (if svc_strong (s_ctxs s) c then 1 else 0) + ch_held_of c (s_chans s) + pend_on c (s_pend s).
Fixpoint mstrong (ss : list st) (c : N) : N :=
  match ss with [] => 0 | s :: t => local s c + mstrong t c end.

Definition set_other (s : st) (f : N -> N) : st :=
  with_chans s (map (fun x => mkCh (ch_id x) (f (ch_id x)) (ch_held x)) (s_chans s)).
Definition sync (ss : list st) : list st :=
  map (fun s => set_other s (fun c => mstrong ss c - local s c)) ss.

Inductive qitem := QOpen (i id : N) | QForce.
Record mst := mkM {
  m_cap : nat;                          (* capacity of a connection's command channel *)
  m_svcs : list st;                     (* the services, in protocol order *)
  m_next : N;                           (* the shared substream-id counter *)
  m_sets : list N;                      (* connections whose ProtocolSet exists (established, not closed) *)
  m_q : list (N * list qitem);          (* queued commands per connection, FIFO *)
  m_flight : list (N * N * N)           (* (service, id, connection): commands taken by the connection task, not yet answered *)
}.

Fixpoint qfind (c : N) (l : list (N * list qitem)) : list qitem :=
  match l with [] => [] | (c', q) :: t => if c' =? c then q else qfind c t end.
Fixpoint qset (c : N) (q : list qitem) (l : list (N * list qitem)) : list (N * list qitem) :=
  match l with
  | [] => [(c, q)]
  | (c', q') :: t => if c' =? c then (c, q) :: t else (c', q') :: qset c q t
  end.
Definition qfull (m : mst) (c : N) : bool := Nat.leb (m_cap m) (length (qfind c (m_q m))).
Definition memN (x : N) (l : list N) : bool := existsb (N.eqb x) l.
Definition in_flight (m : mst) (i id : N) : bool :=
  existsb (fun x => (fst (fst x) =? i) && (snd (fst x) =? id)) (m_flight m).

Inductive mev :=
| MAll (e : ev)                         (* EEst p c / EClosed p c reach every service; anything else: all are just polled *)
| MOne (i : N) (e : ev)                 (* an input of service i alone *)
| MNext (c : N).                        (* the connection task of c polls ProtocolSet::next() *)

(* what an input of service i becomes once the shared queues are known; the flag says that the
   environment cannot perform it (the service is only polled and OSkip is reported) *)
Definition eff (m : mst) (i : N) (s : st) (e : ev) : ev * bool :=
  match e with
  | EOpen p =>
      match find_ctx p (s_ctxs s) with
      | Some cx => (if qfull m (h_id (c_prim cx)) then EOpenFull p else EOpen p, false)
      | None => (EOpen p, false)
      end
  | EForce p _ _ =>
      match find_ctx p (s_ctxs s) with
      | Some cx => (EForce p (match c_sec cx with Some h => qfull m (h_id h) | None => false end)
                             (qfull m (h_id (c_prim cx))), false)
      | None => (EForce p false false, false)
      end
  | ESubIn p c _ => if memN c (m_sets m) then (ESubIn p c true, false) else (ENone, true)
  | ESubOut id _ => if in_flight m i id then (ESubOut id true, false) else (ENone, true)
  | ESubFail id => if in_flight m i id then (e, false) else (ENone, true)
  | ENone | EDialFail _ | EDropSub _ | EShutSub _ => (e, false)
  | _ => (ENone, true)                  (* not an input of a single service inside the composition *)
  end.

Definition all_ev (e : ev) : ev := match e with EEst _ _ | EClosed _ _ => e | _ => ENone end.

(* every service takes one step at the same instant; service j handles f j s; the shared counter
   is threaded through *)
Fixpoint steps (nx dt : N) (j : nat) (f : nat -> st -> ev * bool) (ss : list st)
  : list st * list (list out) * N :=
  match ss with
  | [] => ([], [], nx)
  | s :: t =>
      let '(e, skip) := f j s in
      let '(s', os) := step (with_next s nx) dt e in
      let '(t', ost, nx') := steps (s_next s') dt (S j) f t in
      (s' :: t', ((if skip then [OSkip] else []) ++ os) :: ost, nx')
  end.

Definition push_outs (i : N) (q : list (N * list qitem)) (os : list out) : list (N * list qitem) :=
  fold_left (fun q o => match o with
                        | OCmd c id => qset c (qfind c q ++ [QOpen i id]) q
                        | OForce c => qset c (qfind c q ++ [QForce]) q
                        | _ => q
                        end) os q.
Fixpoint push_all (j : nat) (q : list (N * list qitem)) (oss : list (list out)) : list (N * list qitem) :=
  match oss with [] => q | os :: t => push_all (S j) (push_outs (N.of_nat j) q os) t end.

Inductive nres := NNo | NCmd (i id : N) | NForce | NEnd | NPending | NSkip.

Definition step_fn (m : mst) (e : mev) : nat -> st -> ev * bool :=
  match e with
  | MAll a => fun _ _ => (all_ev a, false)
  | MOne i a => fun j s => if N.of_nat j =? i then eff m i s a else (ENone, false)
  | MNext _ => fun _ _ => (ENone, false)
  end.

Definition mstep (m : mst) (dt : N) (e : mev) : mst * (list (list out) * nres) :=
  let '(ss, oss, nx) := steps (m_next m) dt 0 (step_fn m e) (m_svcs m) in
  let ss' := sync ss in
  let q1 := push_all 0 (m_q m) oss in
  match e with
  | MAll (EEst _ c) => (mkM (m_cap m) ss' nx (c :: m_sets m) q1 (m_flight m), (oss, NNo))
  | MAll (EClosed _ c) =>
      (mkM (m_cap m) ss' nx (filter (fun x => negb (x =? c)) (m_sets m)) (qset c [] q1)
           (filter (fun x => negb (snd x =? c)) (m_flight m)), (oss, NNo))
  | MAll _ => (mkM (m_cap m) ss' nx (m_sets m) q1 (m_flight m), (oss, NNo))
  | MOne i a =>
      let fl := match a with
                | ESubOut id _ | ESubFail id =>
                    filter (fun x => negb ((fst (fst x) =? i) && (snd (fst x) =? id))) (m_flight m)
                | _ => m_flight m
                end in
      (mkM (m_cap m) ss' nx (m_sets m) q1 fl, (oss, NNo))
  | MNext c =>
      if memN c (m_sets m) then
        match qfind c q1 with
        | QOpen i id :: rest =>
            (mkM (m_cap m) ss' nx (m_sets m) (qset c rest q1) (m_flight m ++ [(i, id, c)]), (oss, NCmd i id))
        | QForce :: rest => (mkM (m_cap m) ss' nx (m_sets m) (qset c rest q1) (m_flight m), (oss, NForce))
        | [] => (mkM (m_cap m) ss' nx (m_sets m) q1 (m_flight m),
                 (oss, if mstrong ss' c =? 0 then NEnd else NPending))
        end
      else (mkM (m_cap m) ss' nx (m_sets m) q1 (m_flight m), (oss, NSkip))
  end.

Fixpoint mrun (m : mst) (tr : list (N * mev)) : list (list (list out) * nres) :=
  match tr with
  | [] => []
  | (dt, e) :: t => let '(m', o) := mstep m dt e in o :: mrun m' t
  end.
Fixpoint mfinal (m : mst) (tr : list (N * mev)) : mst :=
  match tr with
  | [] => m
  | (dt, e) :: t => mfinal (fst (mstep m dt e)) t
  end.

(* cfg: (keep-alive flag, keep-alive timeout) per protocol *)
Definition minit (cap : nat) (cfg : list (bool * N)) (n0 : N) : mst :=
  mkM cap (map (fun kt => init (fst kt) (snd kt) n0) cfg) n0 [] [] [].

(* ---- the environment assumption, as for a single service: fresh connection ids, at most `cap`
        open connections per peer, notifications for open connections, answers for commands the
        connection task has taken ---- *)
Definition menv_step (e : env) (i : mev) : env :=
  match i with MAll a => env_step e (all_ev a) | _ => e end.
Definition single_ok (a : ev) : bool :=
  match a with
  | ENone | ESubIn _ _ _ | ESubOut _ _ | ESubFail _ | EDialFail _ | EOpen _ | EDropSub _ | EShutSub _
  | EForce _ _ _ => true
  | _ => false
  end.
Definition mev_ok (cap : nat) (e : env) (m : mst) (i : mev) : bool :=
  match i with
  | MAll a => match a with
              | EEst _ _ | EClosed _ _ => ev_ok cap e (init false 1 0) a
              | _ => true
              end
  | MOne j a =>
      single_ok a &&
      match nth_error (m_svcs m) (N.to_nat j) with
      | Some s => ev_ok cap e (with_next s (m_next m)) (fst (eff m j s a))
      | None => true
      end
  | MNext _ => true
  end.
Fixpoint mfeasible (cap : nat) (e : env) (m : mst) (tr : list (N * mev)) : bool :=
  match tr with
  | [] => true
  | (dt, i) :: t => mev_ok cap e m i && mfeasible cap (menv_step e i) (fst (mstep m dt i)) t
  end.
Fixpoint mefinal (e : env) (tr : list (N * mev)) : env :=
  match tr with [] => e | (_, i) :: t => mefinal (menv_step e i) t end.
