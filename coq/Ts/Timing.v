(* Ts — the keep-alive statements of C09 composed: a handle is downgraded exactly at
   (last keep-alive activity + T) when sleeps are polled at their due time; nothing tracked is
   ever overdue after a poll; an Active handle is always tracked. *)
From Coq Require Import List NArith Bool Lia PeanoNat.
From V.Ts Require Import Model Proofs Rearm.
Import ListNotations.
Open Scope N_scope.
Arguments N.add : simpl never.
Arguments N.sub : simpl never.
Arguments N.eqb : simpl never.
Arguments N.ltb : simpl never.
Arguments N.leb : simpl never.
Arguments N.of_nat : simpl never.

(* ------------------------------------------------------------------ sleeps lie in the future *)
Lemma fire_future T now ts : forall last k d,
  In (k, d) (fst (fst (fire T now ts last))) -> now < d.
Proof.
  induction ts as [|[k0 due0] ts IH]; intros last k d; cbn [fire].
  - cbn [fst]. intros [].
  - destruct (due0 <=? now) eqn:D.
    + destruct (kfind k0 last) as [la|].
      * destruct (now - la <? T) eqn:L.
        -- specialize (IH last k d). destruct (fire T now ts last) as [[ts' l'] ex]. cbn [fst] in *.
           intros [E|H]; [|auto]. inversion E; subst. apply N.ltb_lt in L. lia.
        -- specialize (IH (kdel k0 last) k d). destruct (fire T now ts (kdel k0 last)) as [[ts' l'] ex].
           cbn [fst] in *. exact IH.
      * apply IH.
    + specialize (IH last k d). destruct (fire T now ts last) as [[ts' l'] ex]. cbn [fst] in *.
      intros [E|H]; [|auto]. inversion E; subst. apply N.leb_gt in D. exact D.
Qed.

(* after every step every armed sleep is due strictly later than now — so "the next poll happens
   no later than the earliest due time" is always satisfiable *)
Lemma sleeps_future s dt e k d :
  In (k, d) (s_timers (fst (step s dt e))) -> s_now (fst (step s dt e)) < d.
Proof.
  rewrite step_mid. destruct (mid s dt e) as [s1 o1]. unfold poll_timers.
  pose proof (fire_future (s_T s1) (s_now s1) (s_timers s1) (s_last s1) k d) as FF.
  destruct (fire (s_T s1) (s_now s1) (s_timers s1) (s_last s1)) as [[ts la] ex].
  destruct (downgrade_all (s_ctxs s1) ex) as [cs os]. cbn [fst snd] in *. st_simpl. exact FF.
Qed.

(* a schedule in which no step jumps over the due time of an armed sleep *)
Definition on_time (s : st) (dt : N) : Prop :=
  forall k due, In (k, due) (s_timers s) -> s_now s + dt <= due.
Fixpoint timely (s : st) (tr : list (N * ev)) : Prop :=
  match tr with
  | [] => True
  | (dt, e) :: t => on_time s dt /\ timely (fst (step s dt e)) t
  end.

(* ------------------------------------------------------------------ exactly at last + T *)
Lemma downgrade_exact_step s dt e p c :
  inv_t s -> on_time s dt -> 0 < s_T s ->
  In (ODown p c) (snd (step s dt e)) ->
  exists t, kfind (p, c) (s_act (fst (step s dt e))) = Some t /\
            s_now (fst (step s dt e)) = t + s_T (fst (step s dt e)).
Proof.
  intros I OT TP. rewrite step_mid. pose proof (inv_t_mid s dt e I) as [M1 M2].
  pose proof (handle_no_down (with_now s (s_now s + dt)) e p c) as ND.
  pose proof (handle_consts (with_now s (s_now s + dt)) e) as HC.
  pose proof (handle_trk (with_now s (s_now s + dt)) e) as TR.
  unfold mid in *. destruct (handle_ev (with_now s (s_now s + dt)) e) as [s1 o1]. cbn [fst snd] in *.
  destruct HC as [Cn [CT [_ _]]]. st_simpl.
  set (gk := ka_activity_of (with_now s (s_now s + dt)) e) in *.
  set (sm := match gk with
             | Some k => with_act s1 (kset k (s_now s1) (s_act s1)) | None => s1 end) in *.
  assert (SN : s_now sm = s_now s + dt) by (subst sm; destruct gk; st_simpl; exact Cn).
  assert (ST : s_T sm = s_T s) by (subst sm; destruct gk; st_simpl; exact CT).
  assert (SL : s_last sm = s_last s1) by (subst sm; destruct gk; reflexivity).
  assert (STM : s_timers sm = s_timers s1) by (subst sm; destruct gk; reflexivity).
  (* where the sleeps of sm come from *)
  assert (SRC : forall k due, In (k, due) (s_timers sm) ->
                In (k, due) (s_timers s) \/ (due = s_now s + dt + s_T s /\ kfind k (s_last sm) = Some (s_now s + dt))).
  { intros k due H. rewrite STM in H. rewrite SL. unfold trk_after in TR. destruct gk as [k0|].
    - destruct TR as [TL TT]. st_simpl. rewrite TT in H. destruct (kfind k0 (s_last s)).
      + left; exact H.
      + apply in_app_or in H. destruct H as [H|[H|[]]]; [left; exact H|].
        inversion H; subst. right. split; [reflexivity|]. rewrite TL, kfind_kset, key_eqb_refl. reflexivity.
    - destruct TR as [TT _]. st_simpl. rewrite TT in H. left; exact H. }
  clearbody sm. pose proof (poll_consts sm) as PC. unfold poll_timers in *.
  pose proof (fire_ex (s_T sm) (s_now sm) (s_timers sm) (s_last sm)) as EX.
  destruct (fire (s_T sm) (s_now sm) (s_timers sm) (s_last sm)) as [[ts la] ex].
  pose proof (downgrade_all_outs ex (s_ctxs sm)) as DO.
  destruct (downgrade_all (s_ctxs sm) ex) as [cs os]. cbn [fst snd] in *. st_simpl.
  intros H. apply in_app_or in H. destruct H as [H|H]; [contradiction|].
  destruct (DO _ H) as [k [K1 K2]]. inversion K2; subst p c.
  destruct (EX k K1) as [t [T1 T2]]. destruct (M1 k t T1) as [L A].
  destruct (M2 k t T1) as [due [D1 D2]].
  exists t. destruct k as [kp kc]. cbn [fst snd]. split; [exact A|].
  destruct (SRC _ _ D1) as [OLD|[NEW1 NEW2]].
  - specialize (OT _ _ OLD). lia.
  - rewrite T1 in NEW2. inversion NEW2; subst t. lia.
Qed.

(* ------------------------------------------------------------------ nothing tracked is overdue *)
Definition fresh_inv (s : st) : Prop :=
  forall k t, kfind k (s_last s) = Some t -> s_now s < t + s_T s.

Lemma fresh_step s dt e : inv_t s -> fresh_inv (fst (step s dt e)).
Proof.
  intros I. rewrite step_mid. pose proof (inv_t_mid s dt e I) as [M1 M2].
  destruct (mid s dt e) as [sm o1]. cbn [fst] in *. unfold poll_timers.
  pose proof (fire_last_sub (s_T sm) (s_now sm) (s_timers sm) (s_last sm)) as SUB.
  pose proof (fire_expires (s_T sm) (s_now sm) (s_timers sm) (s_last sm)) as EXP.
  destruct (fire (s_T sm) (s_now sm) (s_timers sm) (s_last sm)) as [[ts la] ex].
  destruct (downgrade_all (s_ctxs sm) ex) as [cs os]. cbn [fst snd] in *.
  intros k t H. st_simpl. pose proof (SUB k t H) as H0.
  destruct (M1 k t H0) as [L _]. destruct (M2 k t H0) as [due [D1 D2]].
  destruct (N.lt_ge_cases (s_now sm) (t + s_T sm)) as [LT|GE]; [exact LT|].
  exfalso. destruct (EXP k due t D1) as [E _]; [lia | exact H0 | lia |]. congruence.
Qed.

(* ------------------------------------------------------------------ Active implies tracked *)
Definition act_inv (s : st) : Prop :=
  forall k, handle_active (s_ctxs s) k = true -> kfind k (s_last s) <> None.

Lemma cx_act_set_other cx c b c' : c' <> c -> cx_act (cx_set_act cx c b) c' = cx_act cx c'.
Proof.
  intros NE. unfold cx_set_act, cx_act. destruct (h_id (c_prim cx) =? c) eqn:E.
  - apply N.eqb_eq in E. cbn [c_prim c_sec h_id h_act].
    assert (E1 : c =? c' = false) by (apply N.eqb_neq; congruence).
    rewrite E1, E, E1. reflexivity.
  - destruct (c_sec cx) as [h|] eqn:S; [|rewrite S; reflexivity].
    destruct (h_id h =? c) eqn:E1; [|rewrite S; reflexivity].
    apply N.eqb_eq in E1. cbn [c_prim c_sec h_id h_act].
    assert (E2 : c =? c' = false) by (apply N.eqb_neq; congruence).
    rewrite E1, E2. reflexivity.
Qed.
Lemma handle_active_set_other l k b k' : k' <> k -> handle_active (set_active l k b) k' = handle_active l k'.
Proof.
  intros NE. unfold handle_active, set_active. destruct (find_ctx (fst k) l) as [cx|] eqn:F; [|reflexivity].
  rewrite find_set_ctx, peer_set_act, (find_ctx_peer _ _ _ F).
  destruct (fst k =? fst k') eqn:E; [|reflexivity].
  apply N.eqb_eq in E. rewrite <- E, F. apply cx_act_set_other.
  intros C. apply NE. destruct k, k'. cbn [fst snd] in *. congruence.
Qed.

Lemma key_dec (a b : key) : a = b \/ a <> b.
Proof. destruct (key_eqb a b) eqn:E; [left; apply key_eqb_eq; exact E | right; apply key_eqb_neq; exact E]. Qed.

(* after a handler, an Active key was Active before (and is not the key being closed) or is the
   key this input counts as keep-alive activity for *)
Lemma handle_act e s i k :
  conn_inv e (s_ctxs s) (s_pend s) -> ev_ok 2 e s i = true ->
  handle_active (s_ctxs (fst (handle_ev s i))) k = true ->
  (handle_active (s_ctxs s) k = true /\ forall p c, i = EClosed p c -> k <> (p, c)) \/
  ka_activity_of s i = Some k.
Proof.
  intros INV OK. pose proof INV as [I1 [I2 _]].
  destruct i; cbn [handle_ev]; try (cbn [fst]; st_simpl; intros H; left; split; [exact H | intros; discriminate]).
  - (* EEst *)
    rewrite (est_accepted e s p c INV OK). unfold on_established. rewrite add_chan_ctxs.
    destruct (find_ctx p (s_ctxs s)) as [cx|] eqn:F.
    + pose proof (find_ctx_peer _ _ _ F) as PE.
      destruct (c_sec cx) eqn:S; cbn [fst]; st_simpl; rewrite ?add_chan_ctxs.
      * intros H. left. split; [exact H | intros; discriminate].
      * rewrite activity_ctxs, add_chan_ctxs. unfold handle_active. rewrite find_set_ctx. cbn [c_peer].
        destruct (p =? fst k) eqn:E; [|intros H; left; split; [exact H | intros; discriminate]].
        apply N.eqb_eq in E. rewrite <- E, F. unfold cx_act. cbn [c_prim c_sec h_id h_act]. rewrite S.
        destruct (h_id (c_prim cx) =? snd k); [intros H; left; split; [exact H | intros; discriminate]|].
        destruct (c =? snd k) eqn:E2; [|discriminate].
        intros _. right. apply N.eqb_eq in E2. destruct k; cbn [fst snd] in *; subst; reflexivity.
    + cbn [fst]. rewrite activity_ctxs. st_simpl. unfold handle_active. rewrite find_app_ctx. cbn [c_peer].
      destruct (find_ctx (fst k) (s_ctxs s)) eqn:F2; [intros H; left; split; [exact H | intros; discriminate]|].
      destruct (p =? fst k) eqn:E; [|discriminate].
      unfold cx_act. cbn [c_prim c_sec h_id h_act]. destruct (c =? snd k) eqn:E2; [|discriminate].
      intros _. right. apply N.eqb_eq in E. apply N.eqb_eq in E2. destruct k; cbn [fst snd] in *; subst; reflexivity.
  - (* EClosed *)
    cbn [ev_ok] in OK. apply kmem_In in OK. pose proof (proj2 (In_live_of p c (e_live e)) OK) as INC.
    pose proof (NoDup_live_of p _ I2) as NDp.
    unfold on_closed. st_simpl.
    match goal with |- context [find_ctx p (s_ctxs ?S)] => set (s' := S) end.
    assert (C1 : s_ctxs s' = s_ctxs s) by (subst s'; st_simpl; destruct (find_ch c (s_chans s)); reflexivity).
    clearbody s'. rewrite C1. pose proof (I1 p) as Ip. unfold conn_ids in Ip.
    destruct (find_ctx p (s_ctxs s)) as [cx|] eqn:F; [|rewrite <- Ip in INC; destruct INC].
    pose proof (find_ctx_peer _ _ _ F) as PE.
    assert (OTHER : fst k <> p -> forall l', (forall q, q <> p -> find_ctx q l' = find_ctx q (s_ctxs s)) ->
              handle_active l' k = true ->
              (handle_active (s_ctxs s) k = true /\ forall p0 c0, EClosed p c = EClosed p0 c0 -> k <> (p0, c0)) \/ None = Some k).
    { intros NE l' HL H. left. unfold handle_active in *. rewrite HL in H by exact NE. split; [exact H|].
      intros p0 c0 E C. inversion E; subst. apply NE. reflexivity. }
    destruct (N.eq_dec (fst k) p) as [EQ|NE].
    + destruct k as [kp x]. cbn [fst] in EQ. subst kp.
      unfold ids_of in Ip. destruct (h_id (c_prim cx) =? c) eqn:EP.
      * apply N.eqb_eq in EP. destruct (c_sec cx) as [h|] eqn:S; cbn [fst]; st_simpl; rewrite ?C1.
        -- assert (NEh : h_id h <> c).
           { rewrite <- Ip in NDp. inversion NDp; subst. intros E. apply H1. left. congruence. }
           unfold handle_active. cbn [fst snd]. rewrite find_set_ctx. cbn [c_peer]. rewrite N.eqb_refl, F.
           unfold cx_act. cbn [c_prim c_sec]. rewrite S.
           destruct (h_id h =? x) eqn:E1; [|discriminate]. apply N.eqb_eq in E1.
           intros H. left. split.
           ++ assert (E2 : h_id (c_prim cx) =? x = false) by (apply N.eqb_neq; congruence).
              rewrite E2. exact H.
           ++ intros p0 c0 E C. inversion E; subst. inversion C; subst. congruence.
        -- unfold handle_active. cbn [fst snd]. rewrite find_del_ctx, N.eqb_refl. discriminate.
      * destruct (c_sec cx) as [h|] eqn:S; cbn [fst]; st_simpl; rewrite ?C1;
          unfold handle_active; cbn [fst snd]; rewrite find_set_ctx; cbn [c_peer]; rewrite N.eqb_refl, F;
          unfold cx_act; cbn [c_prim c_sec]; rewrite ?S;
          (destruct (h_id (c_prim cx) =? x) eqn:E1; [|discriminate]);
          intros H; left; (split; [exact H|]); intros p0 c0 E C; inversion E; subst; inversion C; subst;
          rewrite E1 in EP; discriminate.
    + destruct (h_id (c_prim cx) =? c); [destruct (c_sec cx)|]; cbn [fst]; st_simpl; rewrite ?C1;
        apply (OTHER NE); intros q Hq; rewrite ?find_set_ctx, ?find_del_ctx; cbn [c_peer];
        (destruct (p =? q) eqn:E; [apply N.eqb_eq in E; congruence | reflexivity]).
  - (* ESubIn *)
    cbn [ka_activity_of]. destruct (0 <? strong s c); cbn [fst andb]; [|intros H; left; split; [exact H | intros; discriminate]].
    unfold sub_opened. destruct (m && s_ka s) eqn:MK.
    + assert (CT : forall X, s_ctxs (if s_ka (with_ctxs (activity s (p, c)) X) then
                     match find_ch c (s_chans (with_ctxs (activity s (p, c)) X)) with
                     | Some x => with_chans (with_ctxs (activity s (p, c)) X)
                                   (set_ch (mkCh c (ch_other x) (ch_held x + 1)) (s_chans (with_ctxs (activity s (p, c)) X)))
                     | None => with_chans (with_ctxs (activity s (p, c)) X) (s_chans (with_ctxs (activity s (p, c)) X) ++ [mkCh c 0 1])
                     end else with_ctxs (activity s (p, c)) X) = X).
      { intros X. dmatch; reflexivity. }
      rewrite CT, activity_ctxs. destruct (key_dec k (p, c)) as [->|NE]; [intros _; right; reflexivity|].
      rewrite handle_active_set_other by exact NE. intros H; left; split; [exact H | intros; discriminate].
    + assert (CT : s_ctxs (if s_ka s then match find_ch c (s_chans s) with
                     | Some x => with_chans s (set_ch (mkCh c (ch_other x) (ch_held x + 1)) (s_chans s))
                     | None => with_chans s (s_chans s ++ [mkCh c 0 1]) end else s) = s_ctxs s)
        by (dmatch; reflexivity).
      rewrite CT. intros H; left; split; [exact H | intros; discriminate].
  - (* ESubOut *)
    cbn [ka_activity_of]. destruct (pfind id (s_pend s)) as [[p c]|] eqn:PF; cbn [fst];
      [|intros H; left; split; [exact H | intros; discriminate]].
    pose proof (sub_opened_view (with_pend s (pdel id (s_pend s))) p c m) as _.
    unfold sub_opened. st_simpl. destruct (m && s_ka s) eqn:MK.
    + set (s2 := with_pend s (pdel id (s_pend s))).
      assert (CT : forall X, s_ctxs (if s_ka (with_ctxs (activity s2 (p, c)) X) then
                     match find_ch c (s_chans (with_ctxs (activity s2 (p, c)) X)) with
                     | Some x => with_chans (with_ctxs (activity s2 (p, c)) X)
                                   (set_ch (mkCh c (ch_other x) (ch_held x + 1)) (s_chans (with_ctxs (activity s2 (p, c)) X)))
                     | None => with_chans (with_ctxs (activity s2 (p, c)) X) (s_chans (with_ctxs (activity s2 (p, c)) X) ++ [mkCh c 0 1])
                     end else with_ctxs (activity s2 (p, c)) X) = X).
      { intros X. dmatch; reflexivity. }
      rewrite CT, activity_ctxs. subst s2. st_simpl.
      destruct (key_dec k (p, c)) as [->|NE]; [intros _; right; reflexivity|].
      rewrite handle_active_set_other by exact NE. intros H; left; split; [exact H | intros; discriminate].
    + set (s2 := with_pend s (pdel id (s_pend s))).
      assert (CT : s_ctxs (if s_ka s2 then match find_ch c (s_chans s2) with
                     | Some x => with_chans s2 (set_ch (mkCh c (ch_other x) (ch_held x + 1)) (s_chans s2))
                     | None => with_chans s2 (s_chans s2 ++ [mkCh c 0 1]) end else s2) = s_ctxs s)
        by (dmatch; reflexivity).
      rewrite CT. intros H; left; split; [exact H | intros; discriminate].
  - (* EOpen *)
    cbn [ka_activity_of]. unfold on_open. destruct (find_ctx p (s_ctxs s)) as [cx|] eqn:F;
      [|cbn [fst]; intros H; left; split; [exact H | intros; discriminate]].
    pose proof (find_ctx_peer _ _ _ F) as PE.
    destruct (h_act (c_prim cx) || (0 <? strong s (h_id (c_prim cx)))); cbn [fst andb];
      [|intros H; left; split; [exact H | intros; discriminate]].
    st_simpl. destruct (s_ka s); st_simpl; [|intros H; left; split; [exact H | intros; discriminate]].
    rewrite activity_ctxs. st_simpl. unfold handle_active. rewrite find_set_ctx. cbn [c_peer].
    destruct (p =? fst k) eqn:E; [|intros H; left; split; [exact H | intros; discriminate]].
    apply N.eqb_eq in E. rewrite <- E, F. unfold cx_act. cbn [c_prim c_sec h_id h_act].
    destruct (h_id (c_prim cx) =? snd k) eqn:E1.
    + intros _. right. apply N.eqb_eq in E1. destruct k; cbn [fst snd] in *; subst; reflexivity.
    + intros H; left; split; [exact H | intros; discriminate].
  - dmatch; cbn [fst]; st_simpl; intros H; left; split; try exact H; intros; discriminate.
  - dmatch; cbn [fst]; st_simpl; intros H; left; split; try exact H; intros; discriminate.
  - dmatch; cbn [fst]; st_simpl; intros H; left; split; try exact H; intros; discriminate.
  - dmatch; cbn [fst]; st_simpl; intros H; left; split; try exact H; intros; discriminate.
  - (* EOpenFull *)
    cbn [ka_activity_of]. unfold on_open_full. destruct (find_ctx p (s_ctxs s)) as [cx|] eqn:F;
      [|cbn [fst]; intros H; left; split; [exact H | intros; discriminate]].
    pose proof (find_ctx_peer _ _ _ F) as PE.
    destruct (h_act (c_prim cx) || (0 <? strong s (h_id (c_prim cx)))); cbn [fst andb];
      [|intros H; left; split; [exact H | intros; discriminate]].
    st_simpl. destruct (s_ka s); st_simpl; [|intros H; left; split; [exact H | intros; discriminate]].
    rewrite activity_ctxs. st_simpl. unfold handle_active. rewrite find_set_ctx. cbn [c_peer].
    destruct (p =? fst k) eqn:E; [|intros H; left; split; [exact H | intros; discriminate]].
    apply N.eqb_eq in E. rewrite <- E, F. unfold cx_act. cbn [c_prim c_sec h_id h_act].
    destruct (h_id (c_prim cx) =? snd k) eqn:E1.
    + intros _. right. apply N.eqb_eq in E1. destruct k; cbn [fst snd] in *; subst; reflexivity.
    + intros H; left; split; [exact H | intros; discriminate].
Qed.

Lemma act_mid e s dt i :
  conn_inv e (s_ctxs s) (s_pend s) -> ev_ok 2 e s i = true -> act_inv s -> act_inv (fst (mid s dt i)).
Proof.
  intros INV OK A. unfold mid. set (s0 := with_now s (s_now s + dt)).
  assert (INV0 : conn_inv e (s_ctxs s0) (s_pend s0)) by exact INV.
  assert (OK0 : ev_ok 2 e s0 i = true) by (subst s0; rewrite ev_ok_now; exact OK).
  assert (A0 : act_inv s0) by exact A.
  pose proof (handle_act e s0 i) as HA. pose proof (handle_trk s0 i) as TR.
  clearbody s0. destruct (handle_ev s0 i) as [s1 o1]. cbn [fst] in *.
  intros k H.
  assert (H1 : handle_active (s_ctxs s1) k = true) by (destruct (ka_activity_of s0 i); exact H).
  assert (G : kfind k (s_last s1) <> None).
  { unfold trk_after in TR. destruct (HA k INV0 OK0 H1) as [[B NC]|R].
    - specialize (A0 k B). destruct (ka_activity_of s0 i) as [k0|].
      + destruct TR as [TL _]. rewrite TL, kfind_kset. destruct (key_eqb k0 k); [discriminate | exact A0].
      + destruct TR as [_ TL]. rewrite TL. destruct i; try exact A0.
        rewrite kfind_kdel. destruct (key_eqb (p, c) k) eqn:E; [|exact A0].
        apply key_eqb_eq in E. exfalso. eapply NC; [reflexivity | symmetry; exact E].
    - rewrite R in TR. destruct TR as [TL _]. rewrite TL, kfind_kset, key_eqb_refl. discriminate. }
  destruct (ka_activity_of s0 i); exact G.
Qed.

Lemma fire_untracked_ex T now ts : forall last k t,
  kfind k last = Some t -> kfind k (snd (fst (fire T now ts last))) = None ->
  In k (snd (fire T now ts last)).
Proof.
  induction ts as [|[k0 due0] ts IH]; intros last k t H1 H2; cbn [fire] in *.
  - cbn [fst snd] in H2. congruence.
  - destruct (due0 <=? now).
    + destruct (kfind k0 last) as [la|] eqn:F.
      * destruct (now - la <? T).
        -- specialize (IH last k t H1). destruct (fire T now ts last) as [[ts' l'] ex]. cbn [fst snd] in *. auto.
        -- destruct (key_eqb k0 k) eqn:E.
           ++ apply key_eqb_eq in E. subst k0.
              destruct (fire T now ts (kdel k last)) as [[ts' l'] ex]. cbn [snd]. left; reflexivity.
           ++ assert (H1' : kfind k (kdel k0 last) = Some t) by (rewrite kfind_kdel, E; exact H1).
              specialize (IH (kdel k0 last) k t H1').
              destruct (fire T now ts (kdel k0 last)) as [[ts' l'] ex]. cbn [fst snd] in *. right; auto.
      * eapply IH; eauto.
    + specialize (IH last k t H1). destruct (fire T now ts last) as [[ts' l'] ex]. cbn [fst snd] in *. auto.
Qed.

Lemma act_poll s : act_inv s -> act_inv (fst (poll_timers s)).
Proof.
  intros A. unfold poll_timers.
  pose proof (fire_untracked_ex (s_T s) (s_now s) (s_timers s) (s_last s)) as UE.
  destruct (fire (s_T s) (s_now s) (s_timers s) (s_last s)) as [[ts la] ex].
  pose proof (downgrade_all_mono ex (s_ctxs s)) as MONO.
  pose proof (downgrade_all_off ex (s_ctxs s)) as OFF.
  destruct (downgrade_all (s_ctxs s) ex) as [cs os]. cbn [fst snd] in *.
  intros k H. st_simpl. pose proof (A k (MONO k H)) as TRK.
  destruct (kfind k (s_last s)) as [t|] eqn:F; [|congruence].
  destruct (kfind k la) eqn:F2; [discriminate|].
  exfalso. specialize (OFF k (UE k t F F2)). congruence.
Qed.

Lemma act_final tr : forall e s,
  conn_inv e (s_ctxs s) (s_pend s) -> act_inv s -> feasible 2 e s tr = true -> act_inv (final s tr).
Proof.
  induction tr as [|[dt i] tr IH]; intros e s INV A F; cbn [final feasible] in *; [exact A|].
  apply andb_true_iff in F. destruct F as [OK F].
  pose proof (step_conn e s dt i INV OK) as [H1 _].
  assert (A' : act_inv (fst (step s dt i))).
  { rewrite step_mid. pose proof (act_mid e s dt i INV OK A) as M.
    destruct (mid s dt i) as [s1 o1]. cbn [fst] in M.
    pose proof (act_poll s1 M) as P. destruct (poll_timers s1) as [s2 o2]. exact P. }
  eapply IH; eauto.
Qed.

Lemma act_inv_init ka T n : act_inv (init ka T n).
Proof. intros k H. cbn in H. discriminate. Qed.

Lemma fresh_final tr : forall s, inv_t s -> fresh_inv s -> fresh_inv (final s tr).
Proof.
  induction tr as [|[dt e] tr IH]; intros s I F; cbn [final]; [exact F|].
  apply IH; [apply inv_t_step; exact I | apply fresh_step; exact I].
Qed.
Lemma fresh_inv_init ka T n : fresh_inv (init ka T n).
Proof. intros k t H. cbn in H. discriminate. Qed.

(* an Active handle always has a keep-alive activity less than T ago *)
Lemma active_within_T tr ka T n0 k :
  feasible 2 env0 (init ka T n0) tr = true ->
  handle_active (s_ctxs (final (init ka T n0) tr)) k = true ->
  exists t, kfind k (s_last (final (init ka T n0) tr)) = Some t /\
            kfind k (s_act (final (init ka T n0) tr)) = Some t /\
            t <= s_now (final (init ka T n0) tr) /\
            s_now (final (init ka T n0) tr) < t + s_T (final (init ka T n0) tr).
Proof.
  intros F H.
  pose proof (act_final tr env0 (init ka T n0) conn_inv_init (act_inv_init ka T n0) F k H) as TRK.
  pose proof (inv_t_final tr (init ka T n0) (inv_t_init ka T n0)) as [I1 _].
  pose proof (fresh_final tr (init ka T n0) (inv_t_init ka T n0) (fresh_inv_init ka T n0)) as FR.
  destruct (kfind k (s_last (final (init ka T n0) tr))) as [t|] eqn:E; [|congruence].
  exists t. destruct (I1 k t E) as [L A]. split; [reflexivity|]. split; [exact A|]. split; [exact L | exact (FR k t E)].
Qed.

Lemma final_T tr : forall s, s_T (final s tr) = s_T s.
Proof.
  induction tr as [|[dt e] tr IH]; intros s; cbn [final]; [reflexivity|].
  rewrite IH. rewrite step_mid. unfold mid.
  pose proof (handle_consts (with_now s (s_now s + dt)) e) as HC.
  destruct (handle_ev (with_now s (s_now s + dt)) e) as [s1 o1]. cbn [fst] in HC.
  destruct HC as [_ [CT _]].
  set (sm := match ka_activity_of (with_now s (s_now s + dt)) e with
             | Some k => with_act s1 (kset k (s_now s1) (s_act s1)) | None => s1 end).
  assert (ST : s_T sm = s_T s1) by (subst sm; destruct (ka_activity_of (with_now s (s_now s + dt)) e); reflexivity).
  pose proof (poll_consts sm) as PC. destruct (poll_timers sm) as [s2 o2]. cbn [fst] in *.
  destruct PC as [_ [PT _]]. rewrite PT, ST, CT. reflexivity.
Qed.

(* half-closing a held keep-alive substream (shutdown of the write half while it is still read)
   releases nothing: the lifetime permit goes only when the substream is dropped *)
Lemma shut_keeps s dt c :
  0 < ch_held_of c (s_chans s) ->
  s_chans (fst (step s dt (EShutSub c))) = s_chans s /\
  s_pend (fst (step s dt (EShutSub c))) = s_pend s /\
  0 < strong (fst (step s dt (EShutSub c))) c.
Proof.
  intros H. unfold step. cbn [handle_ev ka_activity_of]. st_simpl.
  unfold ch_held_of in H. destruct (find_ch c (s_chans s)) as [x|] eqn:F; [|lia].
  assert (HX : 0 <? ch_held x = true) by (apply N.ltb_lt; exact H). rewrite HX.
  pose proof (poll_consts (with_now s (s_now s + dt))) as PC.
  destruct (poll_timers (with_now s (s_now s + dt))) as [s2 o2]. cbn [fst] in *. st_simpl.
  destruct PC as [_ [_ [_ [_ [_ [PP PCH]]]]]]. split; [exact PCH|]. split; [exact PP|].
  apply busy_strong. right. rewrite PCH. unfold ch_held_of. rewrite F. exact H.
Qed.
