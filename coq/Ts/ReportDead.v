(* Ts/ReportDead — the reporting side of ProtocolSet when a protocol's receiver is gone (its
   handle was dropped): a layer over Report.v. A send to a dead protocol fails at once.

   report_substream_open / _failure to a dead protocol: error.
   report_connection_closed: every live protocol is still served (all sends are awaited), the
     first error is returned at the end.
   report_connection_established (since fix 2c7c81a): a closed receiver is logged and SKIPPED,
     every live protocol is served (the sends wait for room like any other), the result is Ok.
     Before the fix the FIRST error made the function return, dropping the sends not yet polled
     and those still waiting for room; Transport::accept then gave the connection up and nobody
     was ever told "closed" for it (F-C07b seen from the protocols). That behaviour is kept as
     `dstep_gen false` to pin the repair (C08_established_before_fix_refuted); its poll order is
     the iteration order of a HashMap, carried by the input as a bit mask of the protocols that
     precede the first dead one. The repaired function does not depend on the order.
   Definitions only (lemmas: ReportDeadProofs.v). *)
From Coq Require Import List NArith Bool PeanoNat Lia.
From V.Ts Require Import Report.
Import ListNotations.
Open Scope N_scope.

Inductive dop :=
| DBase (o : rop)                  (* RSubOpen / RSubFail / RClosed / RDrain (REst goes through DEst) *)
| DEst (c mask : N)                (* report_connection_established; mask: only read by the pre-fix variant *)
| DKill (p : N).                   (* protocol p drops its receiver *)

(* d_gone (pre-fix variant only): connections given up by Transport::accept after a failed
   "established" report — their ProtocolSet is dropped, nothing is reported for them any more *)
Record dst := mkD { d_s : rst; d_dead : list N; d_gone : list N }.
Record dout := mkDO { do_code : N; do_got : list item; do_done : list (N * N) }.

Definition is_dead (d : dst) (p : N) : bool := existsb (N.eqb p) (d_dead d).
Definition lift (r : rout) : dout := mkDO (o_code r) (o_got r) (map (fun c => (c, 0)) (o_done r)).

Fixpoint mapi {A B} (f : nat -> A -> B) (i : nat) (l : list A) : list B :=
  match l with [] => [] | h :: t => f i h :: mapi f (S i) t end.

(* one poll of tx.send(it): accepted only if nobody waits and there is room *)
Definition try_now (cap : nat) (it : item) (ch : rchan) : rchan :=
  match rw ch with
  | [] => if Nat.ltb (length (rq ch)) cap
          then mkRc (rq ch ++ [it]) [] (racc ch ++ [it]) (rdel ch)
          else ch
  | _ => ch
  end.

(* the pending report of connection c is a "closed" report *)
Definition closed_waiting (s : rst) (c : N) : bool :=
  existsb (fun ch => existsb (fun w : N * item => (fst w =? c) &&
                                match snd w with IClosed _ => true | _ => false end) (rw ch)) (r_ch s).

Definition conn_of_dop (o : dop) : option N :=
  match o with
  | DBase (RSubOpen c _ _) | DBase (RSubFail c _ _) | DBase (REst c) | DBase (RClosed c) | DEst c _ => Some c
  | _ => None
  end.

Definition dstep0 (fixed : bool) (d : dst) (o : dop) : dst * dout :=
  let s := d_s d in
  let cap := r_cap s in
  match d_dead d with
  | [] =>
      match o with
      | DBase b => let '(s', r) := rstep s b in (mkD s' [] (d_gone d), lift r)
      | DEst c _ => let '(s', r) := rstep s (REst c) in (mkD s' [] (d_gone d), lift r)
      | DKill p =>
          if negb (Nat.ltb (N.to_nat p) (length (r_ch s))) || negb (match waiters s with [] => true | _ => false end)
          then (d, mkDO 2 [] [])
          else (mkD (mkR cap (upd (N.to_nat p) (fun ch => mkRc [] [] (racc ch) (rdel ch)) (r_ch s))) [p] (d_gone d),
                mkDO 0 [] [])
      end
  | _ =>
      match o with
      | DKill p =>
          if negb (Nat.ltb (N.to_nat p) (length (r_ch s))) || negb (match waiters s with [] => true | _ => false end)
             || is_dead d p
          then (d, mkDO 2 [] [])
          else (mkD (mkR cap (upd (N.to_nat p) (fun ch => mkRc [] [] (racc ch) (rdel ch)) (r_ch s))) (p :: d_dead d) (d_gone d),
                mkDO 0 [] [])
      | DEst c mask =>
          if busy s c then (d, mkDO 2 [] [])
          else if fixed then
            (* every live protocol is served, dead ones are skipped, the result is Ok *)
            let s' := mkR cap (mapi (fun i ch => if is_dead d (N.of_nat i) then ch
                                                 else send_one cap c (IEst c) ch) O (r_ch s)) in
            (mkD s' (d_dead d) (d_gone d), mkDO (if busy s' c then 1 else 0) [] [])
          else
            (mkD (mkR cap (mapi (fun i ch => if N.testbit mask (N.of_nat i) && negb (is_dead d (N.of_nat i))
                                             then try_now cap (IEst c) ch else ch) O (r_ch s)))
                 (d_dead d) (c :: d_gone d),
             mkDO 3 [] [])
      | DBase (RSubOpen c p _ as b) | DBase (RSubFail c p _ as b) =>
          if busy s c then (d, mkDO 2 [] [])
          else if is_dead d p then (d, mkDO 3 [] [])
          else let '(s', r) := rstep s b in (mkD s' (d_dead d) (d_gone d), lift r)
      | DBase (RClosed c) =>
          if busy s c then (d, mkDO 2 [] [])
          else
            let s' := mkR cap (mapi (fun i ch => if is_dead d (N.of_nat i) then ch
                                                 else send_one cap c (IClosed c) ch) O (r_ch s)) in
            (mkD s' (d_dead d) (d_gone d), mkDO (if busy s' c then 1 else 3) [] [])
      | DBase (RDrain p k as b) =>
          if is_dead d p then (d, mkDO 0 [] [])
          else
            let '(s', r) := rstep s b in
            (mkD s' (d_dead d) (d_gone d),
             mkDO (o_code r) (o_got r)
                  (map (fun c => (c, if closed_waiting s c then 1 else 0)) (o_done r)))
      | DBase (REst c) => (d, mkDO 2 [] [])
      end
  end.

Definition dstep_gen (fixed : bool) (d : dst) (o : dop) : dst * dout :=
  match conn_of_dop o with
  | Some c => if existsb (N.eqb c) (d_gone d) then (d, mkDO 2 [] []) else dstep0 fixed d o
  | None => dstep0 fixed d o
  end.
Definition dstep := dstep_gen true.                (* the code as it is *)
Definition dstep_before_fix := dstep_gen false.    (* the code before 2c7c81a *)

Fixpoint drun (d : dst) (l : list dop) : list dout :=
  match l with [] => [] | o :: t => let '(d', r) := dstep d o in r :: drun d' t end.
Fixpoint drun_before_fix (d : dst) (l : list dop) : list dout :=
  match l with [] => [] | o :: t => let '(d', r) := dstep_before_fix d o in r :: drun_before_fix d' t end.
Fixpoint dfinal (d : dst) (l : list dop) : dst :=
  match l with [] => d | o :: t => dfinal (fst (dstep d o)) t end.
Definition dinit (nproto cap : nat) : dst := mkD (rinit nproto cap) [] [].

