(* Ts/Report — executable model of the reporting side of ProtocolSet
   (src/protocol/protocol_set.rs): per protocol one bounded FIFO channel (tokio mpsc, capacity
   DEFAULT_CHANNEL_SIZE in production) shared by all connections; the four report functions

     report_substream_open          tx.send(SubstreamOpened{..}).await          (waits for room)
     report_substream_open_failure  tx.send(SubstreamOpenFailure{..}).await     (waits for room)
     report_connection_established  for every protocol tx.send(..).await, concurrently, all awaited
     report_connection_closed       for every protocol tx.send(..).await, concurrently, all awaited

   — none of them uses try_send, none drops on a full channel; a send that finds the channel full
   (or finds earlier senders waiting: the tokio semaphore is fair) waits in FIFO order and is
   moved into the queue when the protocol makes room. A connection task is sequential: it has at
   most one report in progress. The protocol drains at arbitrary points. Definitions only. *)
From Coq Require Import List NArith Bool PeanoNat.
Import ListNotations.
Open Scope N_scope.

Inductive item :=
| IEst (c : N)                          (* ConnectionEstablished of connection c *)
| IClosed (c : N)                       (* ConnectionClosed of connection c *)
| IOpened (c : N) (d : option N)        (* SubstreamOpened on c, Some id = Outbound(id) *)
| IFailure (c : N) (id : N).            (* SubstreamOpenFailure{id}; c is GHOST (not in the event) *)

Record rchan := mkRc {
  rq : list item;                       (* the queue, at most `cap` long *)
  rw : list (N * item);                 (* blocked sends, FIFO: (connection, event) *)
  racc : list item;                     (* GHOST: every event accepted for this protocol, in order *)
  rdel : list item                      (* GHOST: every event the protocol has received, in order *)
}.
Record rst := mkR { r_cap : nat; r_ch : list rchan }.

Definition rinit (nproto cap : nat) : rst := mkR cap (repeat (mkRc [] [] [] []) nproto).

Inductive rop :=
| RSubOpen (c p : N) (d : option N)
| RSubFail (c p id : N)
| REst (c : N)
| RClosed (c : N)
| RDrain (p k : N).

(* tx.send(it).await by connection c *)
Definition send_one (cap : nat) (c : N) (it : item) (ch : rchan) : rchan :=
  match rw ch with
  | [] => if Nat.ltb (length (rq ch)) cap
          then mkRc (rq ch ++ [it]) [] (racc ch ++ [it]) (rdel ch)
          else mkRc (rq ch) [(c, it)] (racc ch ++ [it]) (rdel ch)
  | _ => mkRc (rq ch) (rw ch ++ [(c, it)]) (racc ch ++ [it]) (rdel ch)
  end.

(* blocked sends proceed, in FIFO order, while there is room *)
Fixpoint settle (cap : nat) (q : list item) (w : list (N * item)) : list item * list (N * item) :=
  match w with
  | [] => (q, [])
  | (c, it) :: t => if Nat.ltb (length q) cap then settle cap (q ++ [it]) t else (q, w)
  end.

(* the protocol receives up to k events *)
Definition drain_ch (cap : nat) (k : nat) (ch : rchan) : rchan * list item :=
  let got := firstn k (rq ch) in
  let '(q, w) := settle cap (skipn k (rq ch)) (rw ch) in
  (mkRc q w (racc ch) (rdel ch ++ got), got).

Fixpoint upd {A} (n : nat) (f : A -> A) (l : list A) {struct l} : list A :=
  match l with
  | [] => []
  | h :: t => match n with O => f h :: t | S m => h :: upd m f t end
  end.

Definition ch_busy (c : N) (ch : rchan) : bool := existsb (fun w => fst w =? c) (rw ch).
Definition busy (s : rst) (c : N) : bool := existsb (ch_busy c) (r_ch s).
Definition waiters (s : rst) : list N := flat_map (fun ch => map fst (rw ch)) (r_ch s).

Fixpoint ins_n (x : N) (l : list N) : list N :=
  match l with
  | [] => [x]
  | h :: t => if x <? h then x :: l else if x =? h then l else h :: ins_n x t
  end.
Definition sort_nodup (l : list N) : list N := fold_right ins_n [] l.

(* result code: 0 = the report completed, 1 = it is waiting for room, 2 = not started (the
   connection still has a report in progress), 3 = error (unknown protocol) *)
Record rout := mkO { o_code : N; o_got : list item; o_done : list N }.

Definition rstep (s : rst) (o : rop) : rst * rout :=
  let cap := r_cap s in
  match o with
  | RSubOpen c p d =>
      if busy s c then (s, mkO 2 [] [])
      else if Nat.ltb (N.to_nat p) (length (r_ch s)) then
        let s' := mkR cap (upd (N.to_nat p) (send_one cap c (IOpened c d)) (r_ch s)) in
        (s', mkO (if busy s' c then 1 else 0) [] [])
      else (s, mkO 3 [] [])
  | RSubFail c p id =>
      if busy s c then (s, mkO 2 [] [])
      else if Nat.ltb (N.to_nat p) (length (r_ch s)) then
        let s' := mkR cap (upd (N.to_nat p) (send_one cap c (IFailure c id)) (r_ch s)) in
        (s', mkO (if busy s' c then 1 else 0) [] [])
      else (s, mkO 3 [] [])
  | REst c =>
      if busy s c then (s, mkO 2 [] [])
      else
        let s' := mkR cap (map (send_one cap c (IEst c)) (r_ch s)) in
        (s', mkO (if busy s' c then 1 else 0) [] [])
  | RClosed c =>
      if busy s c then (s, mkO 2 [] [])
      else
        let s' := mkR cap (map (send_one cap c (IClosed c)) (r_ch s)) in
        (s', mkO (if busy s' c then 1 else 0) [] [])
  | RDrain p k =>
      match nth_error (r_ch s) (N.to_nat p) with
      | Some ch =>
          let '(ch', got) := drain_ch cap (N.to_nat k) ch in
          let s' := mkR cap (upd (N.to_nat p) (fun _ => ch') (r_ch s)) in
          (s', mkO 0 got (filter (fun c => negb (busy s' c)) (sort_nodup (waiters s))))
      | None => (s, mkO 0 [] [])
      end
  end.

Fixpoint rrun (s : rst) (l : list rop) : list rout :=
  match l with
  | [] => []
  | o :: t => let '(s', r) := rstep s o in r :: rrun s' t
  end.
Fixpoint rfinal (s : rst) (l : list rop) : rst :=
  match l with
  | [] => s
  | o :: t => rfinal (fst (rstep s o)) t
  end.

(* the events of protocol p's channel are the inputs of the TransportService model *)
Definition backlog (ch : rchan) : nat := (length (rq ch) + length (rw ch))%nat.
