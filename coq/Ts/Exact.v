(* Ts/Exact — the keep-alive tracker seen per connection: for every feasible history and every
   open connection of a peer (primary or secondary, before and after a promotion), the service's
   handle is Active EXACTLY while the last keep-alive activity on that connection is less than T
   old. Two further invariants carry this: a tracked connection has an Active handle, and an open
   connection that is no longer tracked has had no activity for T or more. *)
From Coq Require Import List NArith Bool Lia PeanoNat.
From V.Ts Require Import Model Proofs Answers Rearm Timing Extra.
Import ListNotations.
Open Scope N_scope.
Arguments N.add : simpl never.
Arguments N.sub : simpl never.
Arguments N.eqb : simpl never.
Arguments N.ltb : simpl never.
Arguments N.leb : simpl never.
Arguments N.of_nat : simpl never.

(* ------------------------------------------------------------------ handles *)
Lemma cx_act_set_true cx c : In c (ids_of cx) -> cx_act (cx_set_act cx c true) c = true.
Proof.
  unfold ids_of, cx_set_act, cx_act. intros H. destruct (h_id (c_prim cx) =? c) eqn:E.
  - cbn [c_prim h_id h_act]. rewrite N.eqb_refl. reflexivity.
  - destruct H as [H|H]; [apply N.eqb_neq in E; contradiction|].
    destruct (c_sec cx) as [h|] eqn:S; [|destruct H]. destruct H as [H|[]]. subst c.
    rewrite N.eqb_refl. cbn [c_prim c_sec h_id h_act]. rewrite E, N.eqb_refl. reflexivity.
Qed.
Lemma cx_act_in cx c : cx_act cx c = true -> In c (ids_of cx).
Proof.
  unfold cx_act, ids_of. destruct (h_id (c_prim cx) =? c) eqn:E; [intros _; left; apply N.eqb_eq; exact E|].
  destruct (c_sec cx) as [h|]; [|discriminate]. destruct (h_id h =? c) eqn:E1; [|discriminate].
  intros _. right; left. apply N.eqb_eq; exact E1.
Qed.
Lemma cx_act_set_true_mono cx c' c : cx_act cx c = true -> cx_act (cx_set_act cx c' true) c = true.
Proof.
  intros H. destruct (N.eq_dec c c') as [->|NE].
  - apply cx_act_set_true. apply cx_act_in. exact H.
  - rewrite cx_act_set_other; [exact H | exact NE].
Qed.
Lemma handle_active_in l k : handle_active l k = true -> In (snd k) (conn_ids l (fst k)).
Proof.
  unfold handle_active, conn_ids. destruct (find_ctx (fst k) l); [apply cx_act_in | discriminate].
Qed.
Lemma handle_active_set_true l k : In (snd k) (conn_ids l (fst k)) -> handle_active (set_active l k true) k = true.
Proof.
  unfold handle_active, set_active, conn_ids. destruct (find_ctx (fst k) l) as [cx|] eqn:F; [|intros []].
  intros H. rewrite find_set_ctx, peer_set_act, (find_ctx_peer _ _ _ F), N.eqb_refl. apply cx_act_set_true. exact H.
Qed.
Lemma handle_active_set_true_mono l k' k :
  handle_active l k = true -> handle_active (set_active l k' true) k = true.
Proof.
  intros H. destruct (key_dec k k') as [->|NE].
  - apply handle_active_set_true. apply handle_active_in. exact H.
  - rewrite handle_active_set_other; [exact H | exact NE].
Qed.

Lemma sub_opened_ctxs s p c m :
  s_ctxs (sub_opened s p c m) = if m && s_ka s then set_active (s_ctxs s) (p, c) true else s_ctxs s.
Proof.
  unfold sub_opened. destruct (m && s_ka s) eqn:MK.
  - st_simpl. rewrite activity_ka, activity_ctxs. destruct (s_ka s); dmatch; st_simpl; rewrite ?activity_ctxs; reflexivity.
  - destruct (s_ka s); dmatch; st_simpl; reflexivity.
Qed.

Lemma downgrade_all_other ex : forall l k, ~ In k ex -> handle_active (fst (downgrade_all l ex)) k = handle_active l k.
Proof.
  induction ex as [|k0 ex IH]; intros l k NI; cbn [downgrade_all]; [reflexivity|].
  specialize (IH (set_active l k0 false) k).
  destruct (downgrade_all (set_active l k0 false) ex) as [l' os]. cbn [fst] in *.
  rewrite IH; [|intros C; apply NI; right; exact C].
  apply handle_active_set_other. intros C. apply NI. left. symmetry. exact C.
Qed.

(* an expired key is no longer tracked *)
Lemma fire_ex_untracked T now ts : forall last k,
  In k (snd (fire T now ts last)) -> kfind k (snd (fst (fire T now ts last))) = None.
Proof.
  induction ts as [|[k0 due] ts IH]; intros last k; cbn [fire]; [cbn [snd]; intros []|].
  destruct (due <=? now).
  - destruct (kfind k0 last) as [la|] eqn:F.
    + destruct (now - la <? T).
      * specialize (IH last k). destruct (fire T now ts last) as [[ts' l'] ex]. cbn [fst snd] in *. exact IH.
      * pose proof (fire_last_sub T now ts (kdel k0 last) k) as SUB.
        specialize (IH (kdel k0 last) k). destruct (fire T now ts (kdel k0 last)) as [[ts' l'] ex].
        cbn [fst snd] in *. intros [E|H]; [|exact (IH H)]. subst k0.
        destruct (kfind k l') as [x|] eqn:Fx; [|reflexivity].
        specialize (SUB x eq_refl). rewrite kfind_kdel, key_eqb_refl in SUB. discriminate.
    + apply IH.
  - specialize (IH last k). destruct (fire T now ts last) as [[ts' l'] ex]. cbn [fst snd] in *. exact IH.
Qed.

(* ------------------------------------------------------------------ a handler never deactivates *)
Lemma handle_keeps_active e s i k :
  conn_inv e (s_ctxs s) (s_pend s) -> ev_ok 2 e s i = true ->
  handle_active (s_ctxs s) k = true -> (forall p c, i = EClosed p c -> k <> (p, c)) ->
  handle_active (s_ctxs (fst (handle_ev s i))) k = true.
Proof.
  intros INV OK H NC. pose proof INV as [I1 [I2 _]].
  destruct i; cbn [handle_ev]; try (cbn [fst]; st_simpl; exact H).
  - (* EEst *)
    unfold on_established. rewrite add_chan_ctxs. destruct (find_ctx p (s_ctxs s)) as [cx|] eqn:F.
    + destruct (c_sec cx) as [h|] eqn:S; cbn [fst]; [rewrite ?add_chan_ctxs; exact H|].
      st_simpl. rewrite activity_ctxs, ?add_chan_ctxs. unfold handle_active in *. rewrite find_set_ctx. cbn [c_peer].
      destruct (p =? fst k) eqn:E; [|exact H]. apply N.eqb_eq in E. rewrite <- E, F in H.
      unfold cx_act in *. cbn [c_prim c_sec]. rewrite S in H.
      destruct (h_id (c_prim cx) =? snd k); [exact H | discriminate].
    + cbn [fst]. rewrite activity_ctxs. st_simpl. rewrite ?add_chan_ctxs. unfold handle_active in *.
      rewrite find_app_ctx. destruct (find_ctx (fst k) (s_ctxs s)); [exact H | discriminate].
  - (* EClosed *)
    unfold on_closed. st_simpl.
    set (s1 := match find_ch c (s_chans s) with
               | Some x => with_chans _ (set_ch (mkCh c 0 (ch_held x)) _) | None => _ end).
    assert (C1 : s_ctxs s1 = s_ctxs s) by (subst s1; destruct (find_ch c (s_chans s)); reflexivity).
    rewrite C1. cbn [ev_ok] in OK. apply kmem_In in OK. apply In_live_of in OK. rewrite <- I1 in OK.
    unfold conn_ids in OK. destruct (find_ctx p (s_ctxs s)) as [cx|] eqn:F; [|destruct OK].
    assert (NDI : NoDup (ids_of cx)).
    { pose proof (I1 p) as Ip. unfold conn_ids in Ip. rewrite F in Ip. rewrite Ip. apply NoDup_live_of. exact I2. }
    assert (KP : fst k = p -> snd k <> c).
    { intros E C. apply (NC p c eq_refl). destruct k; cbn [fst snd] in *; congruence. }
    unfold handle_active in *. destruct (h_id (c_prim cx) =? c) eqn:E.
    + apply N.eqb_eq in E. destruct (c_sec cx) as [h|] eqn:S; cbn [fst]; st_simpl.
      * rewrite find_set_ctx. cbn [c_peer]. destruct (p =? fst k) eqn:EP; [|exact H].
        apply N.eqb_eq in EP. rewrite <- EP, F in H. unfold cx_act in *. cbn [c_prim c_sec]. rewrite S in H.
        destruct (h_id (c_prim cx) =? snd k) eqn:E2; [|destruct (h_id h =? snd k); [exact H | discriminate]].
        apply N.eqb_eq in E2. exfalso. apply (KP (eq_sym EP)). congruence.
      * rewrite find_del_ctx. destruct (p =? fst k) eqn:EP; [|exact H].
        apply N.eqb_eq in EP. rewrite <- EP, F in H. unfold cx_act in H. rewrite S in H.
        destruct (h_id (c_prim cx) =? snd k) eqn:E2; [|discriminate].
        apply N.eqb_eq in E2. exfalso. apply (KP (eq_sym EP)). congruence.
    + cbn [fst]. st_simpl. rewrite find_set_ctx. cbn [c_peer]. destruct (p =? fst k) eqn:EP; [|exact H].
      apply N.eqb_eq in EP. rewrite <- EP, F in H. unfold cx_act in *. cbn [c_prim c_sec].
      destruct (h_id (c_prim cx) =? snd k) eqn:E2; [exact H|].
      destruct (c_sec cx) as [h|] eqn:S; [|discriminate]. destruct (h_id h =? snd k) eqn:E3; [|discriminate].
      exfalso. apply N.eqb_eq in E3. apply N.eqb_neq in E. unfold ids_of in OK. rewrite S in OK.
      destruct OK as [OK|[OK|[]]]; [contradiction|]. apply (KP (eq_sym EP)). congruence.
  - (* ESubIn *) destruct (0 <? strong s c); cbn [fst]; [|exact H].
    rewrite sub_opened_ctxs. destruct (m && s_ka s); [apply handle_active_set_true_mono|]; exact H.
  - (* ESubOut *) destruct (pfind id (s_pend s)) as [[p c]|]; cbn [fst]; [|exact H].
    rewrite sub_opened_ctxs. st_simpl. destruct (m && s_ka s); [apply handle_active_set_true_mono|]; exact H.
  - (* EOpen *) unfold on_open. destruct (find_ctx p (s_ctxs s)) as [cx|] eqn:F; [|exact H].
    destruct (h_act (c_prim cx) || _); [|exact H]. cbn [fst]. st_simpl.
    destruct (s_ka s); st_simpl; rewrite ?activity_ctxs; st_simpl; [|exact H].
    unfold handle_active in *. rewrite find_set_ctx. cbn [c_peer]. destruct (p =? fst k) eqn:EP; [|exact H].
    apply N.eqb_eq in EP. rewrite <- EP, F in H. unfold cx_act in *. cbn [c_prim c_sec h_id h_act].
    destruct (h_id (c_prim cx) =? snd k); [reflexivity | exact H].
  - dmatch; cbn [fst]; st_simpl; exact H.
  - dmatch; cbn [fst]; st_simpl; exact H.
  - dmatch; cbn [fst]; st_simpl; exact H.
  - dmatch; cbn [fst]; st_simpl; exact H.
  - (* EOpenFull *) unfold on_open_full. destruct (find_ctx p (s_ctxs s)) as [cx|] eqn:F; [|exact H].
    destruct (h_act (c_prim cx) || _); [|exact H]. cbn [fst]. st_simpl.
    destruct (s_ka s); st_simpl; rewrite ?activity_ctxs; st_simpl; [|exact H].
    unfold handle_active in *. rewrite find_set_ctx. cbn [c_peer]. destruct (p =? fst k) eqn:EP; [|exact H].
    apply N.eqb_eq in EP. rewrite <- EP, F in H. unfold cx_act in *. cbn [c_prim c_sec h_id h_act].
    destruct (h_id (c_prim cx) =? snd k); [reflexivity | exact H].
Qed.

(* the connection an input counts as keep-alive activity for has an Active handle afterwards *)
Lemma handle_activity_active e s i k :
  conn_inv e (s_ctxs s) (s_pend s) -> ev_ok 2 e s i = true -> ka_activity_of s i = Some k ->
  handle_active (s_ctxs (fst (handle_ev s i))) k = true.
Proof.
  intros INV OK G. pose proof INV as [I1 [I2 [I3 I4]]].
  assert (LIVE_IN : forall p c, In (p, c) (e_live e) -> In c (conn_ids (s_ctxs s) p))
    by (intros p c H; rewrite I1; apply In_live_of; exact H).
  destruct i; cbn [ka_activity_of] in G; try discriminate; cbn [handle_ev].
  - (* EEst *)
    pose proof (est_accepted e s p c INV OK) as ACC. cbn [ka_activity_of] in ACC. rewrite ACC in G. inversion G; subst k.
    cbn [ev_ok] in OK. apply andb_true_iff in OK. destruct OK as [FRESH _]. apply negb_true_iff in FRESH.
    unfold on_established. rewrite add_chan_ctxs. destruct (find_ctx p (s_ctxs s)) as [cx|] eqn:F.
    + destruct (c_sec cx) as [h|] eqn:S; [discriminate|]. cbn [fst]. st_simpl. rewrite activity_ctxs, ?add_chan_ctxs.
      unfold handle_active. cbn [fst snd]. rewrite find_set_ctx. cbn [c_peer]. rewrite N.eqb_refl.
      unfold cx_act. cbn [c_prim c_sec h_id h_act]. rewrite N.eqb_refl.
      destruct (h_id (c_prim cx) =? c) eqn:E; [|reflexivity].
      exfalso. apply N.eqb_eq in E. assert (In c (e_used e)).
      { apply I3. apply in_map_iff. exists (p, c). split; [reflexivity|]. apply In_live_of. rewrite <- I1.
        unfold conn_ids. rewrite F. left. exact E. }
      assert (existsb (N.eqb c) (e_used e) = true); [|congruence].
      apply existsb_exists. exists c. split; [assumption | apply N.eqb_refl].
    + cbn [fst]. rewrite activity_ctxs. st_simpl. rewrite ?add_chan_ctxs. unfold handle_active. cbn [fst snd].
      rewrite find_app_ctx, F. cbn [c_peer]. rewrite N.eqb_refl. unfold cx_act. cbn [c_prim h_id h_act].
      rewrite N.eqb_refl. reflexivity.
  - (* ESubIn *)
    cbn [ev_ok] in OK. apply kmem_In in OK.
    destruct (0 <? strong s c); cbn [andb] in G; [|discriminate]. destruct (m && s_ka s) eqn:MK; [|discriminate].
    inversion G; subst k. cbn [fst]. rewrite sub_opened_ctxs, MK. apply handle_active_set_true. cbn [fst snd]. auto.
  - (* ESubOut *)
    destruct (m && s_ka s) eqn:MK; [|discriminate]. rewrite G. destruct k as [p c]. cbn [fst].
    rewrite sub_opened_ctxs. st_simpl. rewrite MK. apply handle_active_set_true. cbn [fst snd].
    apply LIVE_IN. eapply I4. apply pfind_In. exact G.
  - (* EOpen *)
    unfold on_open. destruct (find_ctx p (s_ctxs s)) as [cx|] eqn:F; [|discriminate].
    destruct (h_act (c_prim cx) || _); cbn [andb] in G; [|discriminate]. destruct (s_ka s) eqn:KAE; [|discriminate].
    inversion G; subst k. cbn [fst]. st_simpl. rewrite KAE. st_simpl. rewrite activity_ctxs. st_simpl.
    unfold handle_active. cbn [fst snd]. rewrite find_set_ctx. cbn [c_peer]. rewrite N.eqb_refl.
    unfold cx_act. cbn [c_prim h_id h_act]. rewrite N.eqb_refl. reflexivity.
  - (* EOpenFull *)
    unfold on_open_full. destruct (find_ctx p (s_ctxs s)) as [cx|] eqn:F; [|discriminate].
    destruct (h_act (c_prim cx) || _); cbn [andb] in G; [|discriminate]. destruct (s_ka s) eqn:KAE; [|discriminate].
    inversion G; subst k. cbn [fst]. st_simpl. rewrite KAE. st_simpl. rewrite activity_ctxs. st_simpl.
    unfold handle_active. cbn [fst snd]. rewrite find_set_ctx. cbn [c_peer]. rewrite N.eqb_refl.
    unfold cx_act. cbn [c_prim h_id h_act]. rewrite N.eqb_refl. reflexivity.
Qed.

(* ------------------------------------------------------------------ tracked => Active *)
Definition trk_act (s : st) : Prop :=
  forall k t, kfind k (s_last s) = Some t -> handle_active (s_ctxs s) k = true.

Lemma trk_act_init ka T n : trk_act (init ka T n).
Proof. intros k t H. cbn in H. discriminate. Qed.

Lemma trk_act_mid e s dt i :
  conn_inv e (s_ctxs s) (s_pend s) -> ev_ok 2 e s i = true -> trk_act s -> trk_act (fst (mid s dt i)).
Proof.
  intros INV OK A. unfold mid. set (s0 := with_now s (s_now s + dt)).
  assert (INV0 : conn_inv e (s_ctxs s0) (s_pend s0)) by exact INV.
  assert (OK0 : ev_ok 2 e s0 i = true) by (subst s0; rewrite ev_ok_now; exact OK).
  assert (A0 : trk_act s0) by exact A.
  pose proof (handle_keeps_active e s0 i) as KEEP. pose proof (handle_activity_active e s0 i) as ACT.
  pose proof (handle_trk s0 i) as TR. clearbody s0.
  destruct (handle_ev s0 i) as [s1 o1]. cbn [fst] in *.
  assert (G : forall k t, kfind k (s_last s1) = Some t -> handle_active (s_ctxs s1) k = true).
  { intros k t H. unfold trk_after in TR. destruct (ka_activity_of s0 i) as [k0|] eqn:KA.
    - destruct TR as [TL _]. rewrite TL, kfind_kset in H. destruct (key_eqb k0 k) eqn:E.
      + apply key_eqb_eq in E. subst k0. apply (ACT k INV0 OK0 eq_refl).
      + apply (KEEP k INV0 OK0 (A0 k t H)). intros p c -> C. subst k.
        cbn [ka_activity_of] in KA. discriminate.
    - destruct TR as [_ TL]. rewrite TL in H.
      destruct i; try (apply (KEEP k INV0 OK0 (A0 k t H)); intros p' c' C; discriminate C).
      rewrite kfind_kdel in H. destruct (key_eqb (p, c) k) eqn:E; [discriminate|].
      apply (KEEP k INV0 OK0 (A0 k t H)). intros p' c' C C2. inversion C; subst p' c'. subst k.
      rewrite key_eqb_refl in E. discriminate. }
  destruct (ka_activity_of s0 i); exact G.
Qed.

Lemma trk_act_poll s : trk_act s -> trk_act (fst (poll_timers s)).
Proof.
  intros A. unfold poll_timers.
  pose proof (fire_last_sub (s_T s) (s_now s) (s_timers s) (s_last s)) as SUB.
  pose proof (fire_ex_untracked (s_T s) (s_now s) (s_timers s) (s_last s)) as EU.
  destruct (fire (s_T s) (s_now s) (s_timers s) (s_last s)) as [[ts la] ex].
  pose proof (downgrade_all_other ex (s_ctxs s)) as OTH.
  destruct (downgrade_all (s_ctxs s) ex) as [cs os]. cbn [fst snd] in *.
  intros k t H. st_simpl. rewrite OTH; [apply (A k t (SUB k t H))|].
  intros C. apply EU in C. congruence.
Qed.

Lemma trk_act_step e s dt i :
  conn_inv e (s_ctxs s) (s_pend s) -> ev_ok 2 e s i = true -> trk_act s -> trk_act (fst (step s dt i)).
Proof.
  intros INV OK A. rewrite step_mid. pose proof (trk_act_mid e s dt i INV OK A) as M.
  destruct (mid s dt i) as [sm o1]. cbn [fst] in M. pose proof (trk_act_poll sm M) as P.
  destruct (poll_timers sm) as [s2 o2]. exact P.
Qed.

(* ------------------------------------------------------------------ untracked and open => old *)
Definition old_inv (e : env) (s : st) : Prop :=
  forall k, In k (e_live e) -> kfind k (s_last s) = None ->
  exists t, kfind k (s_act s) = Some t /\ t + s_T s <= s_now s.

Lemma old_inv_init ka T n : old_inv env0 (init ka T n).
Proof. intros k []. Qed.

Lemma mid_consts s dt i :
  s_now (fst (mid s dt i)) = s_now s + dt /\ s_T (fst (mid s dt i)) = s_T s.
Proof.
  unfold mid. pose proof (handle_consts (with_now s (s_now s + dt)) i) as [H1 [H2 _]].
  destruct (handle_ev (with_now s (s_now s + dt)) i) as [s1 o1]. cbn [fst] in *.
  destruct (ka_activity_of _ i); st_simpl; rewrite H1, H2; st_simpl; auto.
Qed.

Lemma mid_act s dt i :
  s_act (fst (mid s dt i)) =
  match ka_activity_of (with_now s (s_now s + dt)) i with
  | Some k => kset k (s_now s + dt) (s_act s) | None => s_act s end.
Proof.
  unfold mid. pose proof (handle_consts (with_now s (s_now s + dt)) i) as [H1 [_ [_ H4]]].
  destruct (handle_ev (with_now s (s_now s + dt)) i) as [s1 o1]. cbn [fst] in *.
  destruct (ka_activity_of _ i); st_simpl; rewrite ?H1, H4; st_simpl; reflexivity.
Qed.

Lemma old_mid e s dt i :
  conn_inv e (s_ctxs s) (s_pend s) -> ev_ok 2 e s i = true -> old_inv e s ->
  old_inv (env_step e i) (fst (mid s dt i)).
Proof.
  intros INV OK O. pose proof INV as [I1 [I2 _]].
  pose proof (mid_consts s dt i) as [MN MT]. pose proof (mid_act s dt i) as MA.
  set (s0 := with_now s (s_now s + dt)) in *.
  assert (INV0 : conn_inv e (s_ctxs s0) (s_pend s0)) by exact INV.
  assert (OK0 : ev_ok 2 e s0 i = true) by (subst s0; rewrite ev_ok_now; exact OK).
  pose proof (handle_trk s0 i) as TR.
  assert (ML : s_last (fst (mid s dt i)) = s_last (fst (handle_ev s0 i))).
  { unfold mid. fold s0. destruct (handle_ev s0 i) as [s1 o1]. cbn [fst]. destruct (ka_activity_of s0 i); reflexivity. }
  intros k LV UN. rewrite MN, MT, MA. rewrite ML in UN. unfold trk_after in TR.
  assert (OLD : In k (e_live e) -> kfind k (s_last s) = None ->
                exists t, kfind k (s_act s) = Some t /\ t + s_T s <= s_now s + dt).
  { intros L U. destruct (O k L U) as [t [A B]]. exists t. split; [exact A | lia]. }
  destruct (ka_activity_of s0 i) as [k0|] eqn:KA.
  - destruct TR as [TL _]. rewrite TL, kfind_kset in UN. destruct (key_eqb k0 k) eqn:E; [discriminate|].
    rewrite kfind_kset, E. apply OLD; [|exact UN].
    destruct i; cbn [env_step e_live] in LV; try exact LV.
    + (* EEst: the new connection is the activity key *)
      pose proof (est_accepted e s0 p c INV0 OK0) as ACC. rewrite ACC in KA. inversion KA; subst k0.
      apply in_app_or in LV. destruct LV as [LV|[LV|[]]]; [exact LV|]. subst k. rewrite key_eqb_refl in E. discriminate.
    + cbn [ka_activity_of] in KA. discriminate.
  - destruct TR as [_ TL]. rewrite TL in UN.
    destruct i; cbn [env_step e_live] in LV; try (apply OLD; [exact LV | exact UN]).
    + (* EEst without activity cannot happen inside the contract *)
      pose proof (est_accepted e s0 p c INV0 OK0) as ACC. congruence.
    + (* EClosed *)
      apply filter_In in LV. destruct LV as [LV NK]. apply negb_true_iff in NK.
      rewrite kfind_kdel in UN. rewrite key_eqb_sym, NK in UN. apply OLD; [exact LV | exact UN].
Qed.

Lemma old_poll e s : inv_t s -> old_inv e s -> old_inv e (fst (poll_timers s)).
Proof.
  intros [T1 _] O. unfold poll_timers.
  pose proof (fire_untracked_ex (s_T s) (s_now s) (s_timers s) (s_last s)) as UE.
  pose proof (fire_ex (s_T s) (s_now s) (s_timers s) (s_last s)) as FE.
  destruct (fire (s_T s) (s_now s) (s_timers s) (s_last s)) as [[ts la] ex].
  destruct (downgrade_all (s_ctxs s) ex) as [cs os]. cbn [fst snd] in *.
  intros k LV UN. st_simpl. destruct (kfind k (s_last s)) as [t|] eqn:F.
  - pose proof (UE k t F UN) as IN. destruct (FE k IN) as [t' [F' OLD]]. rewrite F in F'. inversion F'; subst t'.
    destruct (T1 k t F) as [LE A]. exists t. split; [exact A | lia].
  - apply (O k LV F).
Qed.

Lemma old_step e s dt i :
  conn_inv e (s_ctxs s) (s_pend s) -> ev_ok 2 e s i = true -> inv_t s -> old_inv e s ->
  old_inv (env_step e i) (fst (step s dt i)).
Proof.
  intros INV OK IT O. rewrite step_mid. pose proof (old_mid e s dt i INV OK O) as M.
  pose proof (inv_t_mid s dt i IT) as ITM.
  destruct (mid s dt i) as [sm o1]. cbn [fst] in *. pose proof (old_poll _ sm ITM M) as P.
  destruct (poll_timers sm) as [s2 o2]. exact P.
Qed.

(* ------------------------------------------------------------------ one context per peer *)
Definition peers_nodup (s : st) : Prop := NoDup (map c_peer (s_ctxs s)).

Lemma find_ctx_none_notin p l : find_ctx p l = None -> ~ In p (map c_peer l).
Proof.
  induction l as [|h t IH]; cbn [find_ctx map]; [intros _ []|].
  destruct (c_peer h =? p) eqn:E; [discriminate|]. intros H [C|C]; [apply N.eqb_neq in E; contradiction | exact (IH H C)].
Qed.
Lemma peers_set_ctx cx l : find_ctx (c_peer cx) l <> None -> map c_peer (set_ctx cx l) = map c_peer l.
Proof.
  induction l as [|h t IH]; cbn [find_ctx set_ctx map]; [intros H; contradiction|].
  destruct (c_peer h =? c_peer cx) eqn:E; cbn [map].
  - intros _. apply N.eqb_eq in E. rewrite E. reflexivity.
  - intros H. rewrite IH; [reflexivity | exact H].
Qed.
Lemma peers_set_active l k b : map c_peer (set_active l k b) = map c_peer l.
Proof.
  unfold set_active. destruct (find_ctx (fst k) l) as [cx|] eqn:F; [|reflexivity].
  apply peers_set_ctx. rewrite peer_set_act, (find_ctx_peer _ _ _ F), F. discriminate.
Qed.
Lemma peers_downgrade_all ex : forall l, map c_peer (fst (downgrade_all l ex)) = map c_peer l.
Proof.
  induction ex as [|k ex IH]; intros l; cbn [downgrade_all]; [reflexivity|].
  specialize (IH (set_active l k false)). destruct (downgrade_all (set_active l k false) ex) as [l' os]. cbn [fst] in *.
  rewrite IH. apply peers_set_active.
Qed.

Lemma handle_peers s i : peers_nodup s -> peers_nodup (fst (handle_ev s i)).
Proof.
  unfold peers_nodup. intros ND.
  assert (SET : forall cx, find_ctx (c_peer cx) (s_ctxs s) <> None -> NoDup (map c_peer (set_ctx cx (s_ctxs s))))
    by (intros cx H; rewrite peers_set_ctx; assumption).
  destruct i; cbn [handle_ev]; try (cbn [fst]; st_simpl; exact ND).
  - (* EEst *) unfold on_established. rewrite add_chan_ctxs. destruct (find_ctx p (s_ctxs s)) as [cx|] eqn:F.
    + destruct (c_sec cx); cbn [fst]; st_simpl; rewrite ?activity_ctxs, ?add_chan_ctxs; [exact ND|].
      apply SET. cbn [c_peer]. rewrite F. discriminate.
    + cbn [fst]. rewrite activity_ctxs. st_simpl. rewrite ?add_chan_ctxs, map_app. cbn [map c_peer].
      apply NoDup_snoc; [exact ND | apply find_ctx_none_notin; exact F].
  - (* EClosed *) unfold on_closed. st_simpl.
    set (s1 := match find_ch c (s_chans s) with
               | Some x => with_chans _ (set_ch (mkCh c 0 (ch_held x)) _) | None => _ end).
    assert (C1 : s_ctxs s1 = s_ctxs s) by (subst s1; destruct (find_ch c (s_chans s)); reflexivity).
    rewrite C1. destruct (find_ctx p (s_ctxs s)) as [cx|] eqn:F; [|cbn [fst]; rewrite C1; exact ND].
    destruct (h_id (c_prim cx) =? c); [destruct (c_sec cx)|]; cbn [fst]; st_simpl.
    + apply SET. cbn [c_peer]. rewrite F. discriminate.
    + unfold del_ctx. apply NoDup_map_filter. exact ND.
    + apply SET. cbn [c_peer]. rewrite F. discriminate.
  - destruct (0 <? strong s c); cbn [fst]; [|exact ND]. rewrite sub_opened_ctxs.
    destruct (m && s_ka s); [rewrite peers_set_active|]; exact ND.
  - destruct (pfind id (s_pend s)) as [[p c]|]; cbn [fst]; [|exact ND]. rewrite sub_opened_ctxs. st_simpl.
    destruct (m && s_ka s); [rewrite peers_set_active|]; exact ND.
  - (* EOpen *) unfold on_open. destruct (find_ctx p (s_ctxs s)) as [cx|] eqn:F; [|exact ND].
    destruct (h_act (c_prim cx) || _); [|exact ND]. cbn [fst]. st_simpl.
    destruct (s_ka s); st_simpl; rewrite ?activity_ctxs; st_simpl; [|exact ND].
    apply SET. cbn [c_peer]. rewrite F. discriminate.
  - dmatch; cbn [fst]; st_simpl; exact ND.
  - dmatch; cbn [fst]; st_simpl; exact ND.
  - dmatch; cbn [fst]; st_simpl; exact ND.
  - dmatch; cbn [fst]; st_simpl; exact ND.
  - (* EOpenFull *) unfold on_open_full. destruct (find_ctx p (s_ctxs s)) as [cx|] eqn:F; [|exact ND].
    destruct (h_act (c_prim cx) || _); [|exact ND]. cbn [fst]. st_simpl.
    destruct (s_ka s); st_simpl; rewrite ?activity_ctxs; st_simpl; [|exact ND].
    apply SET. cbn [c_peer]. rewrite F. discriminate.
Qed.

Lemma step_peers s dt i : peers_nodup s -> peers_nodup (fst (step s dt i)).
Proof.
  intros ND. unfold step. set (s0 := with_now s (s_now s + dt)).
  pose proof (handle_peers s0 i ND) as HP. destruct (handle_ev s0 i) as [s1 o1]. cbn [fst] in HP.
  set (sm := match ka_activity_of s0 i with
             | Some k => with_act s1 (kset k (s_now s1) (s_act s1)) | None => s1 end).
  assert (PM : peers_nodup sm) by (subst sm; destruct (ka_activity_of s0 i); exact HP).
  unfold poll_timers. destruct (fire (s_T sm) (s_now sm) (s_timers sm) (s_last sm)) as [[ts la] ex].
  pose proof (peers_downgrade_all ex (s_ctxs sm)) as PD.
  destruct (downgrade_all (s_ctxs sm) ex) as [cs os]. cbn [fst] in *. unfold peers_nodup. st_simpl.
  rewrite PD. exact PM.
Qed.

(* with one context per peer and the view invariant, "some handle of the service for connection c
   is Active" is the Active flag of c's own key *)
Lemma find_ctx_in_nodup l : NoDup (map c_peer l) -> forall cx, In cx l -> find_ctx (c_peer cx) l = Some cx.
Proof.
  induction l as [|h t IH]; intros ND cx HIn; [destruct HIn|]. cbn [find_ctx map] in *.
  inversion ND as [|x xs NI ND']; subst. destruct HIn as [->|HIn]; [rewrite N.eqb_refl; reflexivity|].
  destruct (c_peer h =? c_peer cx) eqn:E; [|apply IH; assumption].
  exfalso. apply N.eqb_eq in E. apply NI. rewrite E. apply in_map. exact HIn.
Qed.
Lemma cx_strong_act cx c : NoDup (ids_of cx) -> cx_strong cx c = cx_act cx c.
Proof.
  unfold cx_strong, cx_act, ids_of. intros ND. destruct (h_id (c_prim cx) =? c) eqn:E; cbn [andb orb].
  - destruct (c_sec cx) as [h|]; [|apply orb_false_r].
    destruct (h_id h =? c) eqn:E1; cbn [andb]; [|apply orb_false_r].
    exfalso. apply N.eqb_eq in E, E1. inversion ND as [|x xs NI _]; subst. apply NI. left. congruence.
  - destruct (c_sec cx) as [h|]; [|reflexivity]. destruct (h_id h =? c); reflexivity.
Qed.
Lemma active_strong l k : handle_active l k = true -> svc_strong l (snd k) = true.
Proof.
  unfold handle_active, svc_strong. destruct (find_ctx (fst k) l) as [cx|] eqn:F; [|discriminate].
  intros H. apply existsb_exists. exists cx. split.
  - clear H. induction l as [|h t IH]; cbn [find_ctx] in F; [discriminate|].
    destruct (c_peer h =? fst k); [inversion F; left; reflexivity | right; apply IH; exact F].
  - unfold cx_act in H. unfold cx_strong. destruct (h_id (c_prim cx) =? snd k); cbn [andb orb]; [rewrite H; reflexivity|].
    destruct (c_sec cx) as [h|]; [|discriminate]. destruct (h_id h =? snd k); [cbn [andb]; exact H | discriminate].
Qed.
Lemma strong_active e s p c :
  conn_inv e (s_ctxs s) (s_pend s) -> peers_nodup s -> In (p, c) (e_live e) ->
  svc_strong (s_ctxs s) c = handle_active (s_ctxs s) (p, c).
Proof.
  intros [I1 [I2 _]] PN LV. destruct (handle_active (s_ctxs s) (p, c)) eqn:HA.
  - apply (active_strong _ (p, c)). exact HA.
  - destruct (svc_strong (s_ctxs s) c) eqn:SS; [|reflexivity]. exfalso.
    unfold svc_strong in SS. apply existsb_exists in SS. destruct SS as [cx [HIn CS]].
    pose proof (find_ctx_in_nodup _ PN cx HIn) as F.
    assert (NDI : NoDup (ids_of cx)).
    { pose proof (I1 (c_peer cx)) as Ip. unfold conn_ids in Ip. rewrite F in Ip. rewrite Ip. apply NoDup_live_of. exact I2. }
    rewrite (cx_strong_act cx c NDI) in CS.
    assert (LV2 : In (c_peer cx, c) (e_live e)).
    { apply In_live_of. rewrite <- I1. unfold conn_ids. rewrite F. apply cx_act_in. exact CS. }
    assert (c_peer cx = p).
    { clear -I2 LV LV2. induction (e_live e) as [|h t IH]; [destruct LV|]. cbn [map] in I2.
      inversion I2 as [|x xs NI ND]; subst. destruct LV as [->|LV], LV2 as [E|LV2].
      - inversion E; reflexivity.
      - exfalso. apply NI. cbn [snd]. change c with (snd (c_peer cx, c)). apply in_map. exact LV2.
      - exfalso. apply NI. subst h. cbn [snd]. change c with (snd (p, c)). apply in_map. exact LV.
      - apply IH; assumption. }
    subst p. unfold handle_active in HA. cbn [fst snd] in HA. rewrite F in HA. congruence.
Qed.

(* ------------------------------------------------------------------ over histories *)
Fixpoint efinal (e : env) (tr : list (N * ev)) : env :=
  match tr with [] => e | (_, i) :: t => efinal (env_step e i) t end.

Record exact_inv (e : env) (s : st) : Prop := mkExact {
  ex_conn : conn_inv e (s_ctxs s) (s_pend s);
  ex_t : inv_t s;
  ex_fresh : fresh_inv s;
  ex_act : act_inv s;
  ex_trk : trk_act s;
  ex_old : old_inv e s;
  ex_peers : peers_nodup s
}.

Lemma exact_step e s dt i :
  exact_inv e s -> ev_ok 2 e s i = true -> exact_inv (env_step e i) (fst (step s dt i)).
Proof.
  intros [C T F A K O PN] OK. constructor.
  - exact (proj1 (step_conn e s dt i C OK)).
  - apply inv_t_step. exact T.
  - apply fresh_step. exact T.
  - rewrite step_mid. pose proof (act_mid e s dt i C OK A) as M. destruct (mid s dt i) as [sm o1]. cbn [fst] in M.
    pose proof (act_poll sm M) as P. destruct (poll_timers sm) as [s2 o2]. exact P.
  - apply (trk_act_step e); assumption.
  - apply old_step; assumption.
  - apply step_peers. exact PN.
Qed.

Lemma exact_final tr : forall e s,
  exact_inv e s -> feasible 2 e s tr = true -> exact_inv (efinal e tr) (final s tr).
Proof.
  induction tr as [|[dt i] tr IH]; intros e s X F; cbn [efinal final]; [exact X|].
  cbn [feasible] in F. apply andb_true_iff in F. destruct F as [OK F].
  apply IH; [apply exact_step; assumption | exact F].
Qed.

Lemma exact_init ka T n : exact_inv env0 (init ka T n).
Proof.
  constructor; [exact conn_inv_init | apply inv_t_init | apply fresh_inv_init | apply act_inv_init
               | apply trk_act_init | apply old_inv_init | constructor].
Qed.

(* in a state satisfying the invariants, for an open connection: Active <-> activity less than T ago *)
Lemma exact_active_iff e s k :
  exact_inv e s -> In k (e_live e) ->
  exists t, kfind k (s_act s) = Some t /\ t <= s_now s /\
            (handle_active (s_ctxs s) k = true <-> s_now s < t + s_T s).
Proof.
  intros [C [T1 T2] F A K O _] LV. destruct (kfind k (s_last s)) as [t|] eqn:L.
  - destruct (T1 k t L) as [LE AC]. exists t. split; [exact AC|]. split; [exact LE|]. split.
    + intros _. exact (F k t L).
    + intros _. exact (K k t L).
  - destruct (O k LV L) as [t [AC OLD]]. exists t. split; [exact AC|]. split; [lia|]. split.
    + intros H. exfalso. apply (A k H). exact L.
    + intros H. lia.
Qed.

Lemma active_iff_recent tr ka T n0 k :
  feasible 2 env0 (init ka T n0) tr = true ->
  In k (e_live (efinal env0 tr)) ->
  let s := final (init ka T n0) tr in
  exists t, kfind k (s_act s) = Some t /\ t <= s_now s /\
            (handle_active (s_ctxs s) k = true <-> s_now s < t + s_T s).
Proof.
  intros F LV s. apply (exact_active_iff (efinal env0 tr)); [|exact LV].
  apply exact_final; [apply exact_init | exact F].
Qed.

(* the protocol-side view at the end of a feasible history lists exactly the open connections, in
   establishment order: primary = oldest; an open_substream of a keep-alive protocol counts as
   activity for that connection — after the primary closed, for the former secondary *)
Lemma view_final tr ka T n0 p :
  feasible 2 env0 (init ka T n0) tr = true ->
  conn_ids (s_ctxs (final (init ka T n0) tr)) p = live_of p (e_live (efinal env0 tr)).
Proof.
  intros F. pose proof (exact_final tr env0 (init ka T n0) (exact_init ka T n0) F) as [[I1 _] _ _ _ _ _ _]. apply I1.
Qed.

Lemma open_counts_for_primary e s p k :
  conn_inv e (s_ctxs s) (s_pend s) -> ka_activity_of s (EOpen p) = Some k ->
  fst k = p /\ hd_error (live_of p (e_live e)) = Some (snd k) /\ s_ka s = true.
Proof.
  intros [I1 _] G. cbn [ka_activity_of] in G. pose proof (I1 p) as Ip. unfold conn_ids in Ip.
  destruct (find_ctx p (s_ctxs s)) as [cx|]; [|discriminate].
  destruct (h_act (c_prim cx) || _); cbn [andb] in G; [|discriminate]. destruct (s_ka s); [|discriminate].
  inversion G; subst k. cbn [fst snd]. rewrite <- Ip. auto.
Qed.

(* activity on one connection leaves the tracker entry, the ghost log and the handle of every other
   connection (in particular the peer's other connection) as they are *)
Lemma other_connection_untouched e s dt i k :
  conn_inv e (s_ctxs s) (s_pend s) -> ev_ok 2 e s i = true ->
  ka_activity_of (with_now s (s_now s + dt)) i <> Some k -> (forall p c, i = EClosed p c -> k <> (p, c)) ->
  kfind k (s_last (fst (mid s dt i))) = kfind k (s_last s) /\
  kfind k (s_act (fst (mid s dt i))) = kfind k (s_act s) /\
  (handle_active (s_ctxs s) k = true -> handle_active (s_ctxs (fst (mid s dt i))) k = true).
Proof.
  intros INV OK NK NC. pose proof (mid_act s dt i) as MA.
  set (s0 := with_now s (s_now s + dt)) in *.
  assert (INV0 : conn_inv e (s_ctxs s0) (s_pend s0)) by exact INV.
  assert (OK0 : ev_ok 2 e s0 i = true) by (subst s0; rewrite ev_ok_now; exact OK).
  pose proof (handle_trk s0 i) as TR. pose proof (handle_keeps_active e s0 i k INV0 OK0) as KEEP.
  assert (ML : s_last (fst (mid s dt i)) = s_last (fst (handle_ev s0 i)) /\
               s_ctxs (fst (mid s dt i)) = s_ctxs (fst (handle_ev s0 i))).
  { unfold mid. fold s0. destruct (handle_ev s0 i) as [s1 o1]. cbn [fst]. destruct (ka_activity_of s0 i); auto. }
  destruct ML as [ML MC]. rewrite ML, MC, MA. unfold trk_after in TR. split; [|split].
  - destruct (ka_activity_of s0 i) as [k0|].
    + destruct TR as [TL _]. rewrite TL, kfind_kset. destruct (key_eqb k0 k) eqn:E; [|reflexivity].
      apply key_eqb_eq in E. subst k0. exfalso. apply NK. reflexivity.
    + destruct TR as [_ TL]. rewrite TL. destruct i; try reflexivity.
      rewrite kfind_kdel. destruct (key_eqb (p, c) k) eqn:E; [|reflexivity].
      apply key_eqb_eq in E. exfalso. apply (NC p c eq_refl). symmetry. exact E.
  - destruct (ka_activity_of s0 i) as [k0|]; [|reflexivity].
    rewrite kfind_kset. destruct (key_eqb k0 k) eqn:E; [|reflexivity].
    apply key_eqb_eq in E. subst k0. exfalso. apply NK. reflexivity.
  - intros H. apply KEEP; [exact H | exact NC].
Qed.

