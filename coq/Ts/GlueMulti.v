(* Ts/GlueMulti — wire format, model runner and trace oracles of the composed model (Multi.v):
   several TransportServices over shared connections (case kind 5). Definitions only.

   case  : 5 cap nsvc (ka T)* n0 nops (dt tag args..)*
           tag 0                 everybody is polled
               1 p c             report_connection_established of connection c to peer p (all services)
               2 p c             report_connection_closed (all services); the ProtocolSet is dropped
               3 i p c           inbound substream for service i on connection c
               4 i id            the connection answers open `id` of service i with SubstreamOpened
               5 i id            ... with SubstreamOpenFailure
               6 i p             DialFailure to service i
               7 i p             service i calls open_substream(p)
               8 i c             service i drops one substream of connection c
               12 i c            service i shuts down the write half of a held substream of c
               14 i p            service i calls force_close(p)
               15 c              the connection task of c polls ProtocolSet::next()
   trace : 5 (per service: outs) nres (per service: contexts, tracked keys, armed sleeps) next (conn alive)*
           OpenSubstream / ForceClose commands are observed when the connection task takes them
           (nres), not when they are sent: OCmd / OForce are not part of the per-service outputs. *)
From Coq Require Import List NArith Bool.
From V.common Require Import Wire.
From V.Ts Require Import Model Multi Glue.
Import ListNotations.
Open Scope N_scope.

Definition p_mop : parser (N * mev) :=
  let* dt := pN in
  let* tag := pN in
  match tag with
  | 0 => pret (dt, MAll ENone)
  | 1 => let* p := pN in let* c := pN in pret (dt, MAll (EEst p c))
  | 2 => let* p := pN in let* c := pN in pret (dt, MAll (EClosed p c))
  | 3 => let* i := pN in let* p := pN in let* c := pN in pret (dt, MOne i (ESubIn p c true))
  | 4 => let* i := pN in let* id := pN in pret (dt, MOne i (ESubOut (rid id) true))
  | 5 => let* i := pN in let* id := pN in pret (dt, MOne i (ESubFail (rid id)))
  | 6 => let* i := pN in let* p := pN in pret (dt, MOne i (EDialFail p))
  | 7 => let* i := pN in let* p := pN in pret (dt, MOne i (EOpen p))
  | 8 => let* i := pN in let* c := pN in pret (dt, MOne i (EDropSub c))
  | 12 => let* i := pN in let* c := pN in pret (dt, MOne i (EShutSub c))
  | 14 => let* i := pN in let* p := pN in pret (dt, MOne i (EForce p false false))
  | 15 => let* c := pN in pret (dt, MNext c)
  | _ => pfail
  end.

(* static well-formedness: numbers are small, service indices exist, a connection id is
   established at most once and closed only while established (the harness owns one ProtocolSet
   per established connection) *)
Definition mev_small (n : N) (e : mev) : bool :=
  match e with
  | MAll a => ev_small a
  | MOne i a => (i <? n) && ev_small a
  | MNext c => small c
  end.
Fixpoint mstatic (live : list key) (used : list N) (tr : list (N * mev)) : bool :=
  match tr with
  | [] => true
  | (_, MAll (EEst p c)) :: t => negb (mem c used) && mstatic (live ++ [(p, c)]) (c :: used) t
  | (_, MAll (EClosed p c)) :: t =>
      kmem (p, c) live && mstatic (filter (fun k => negb (key_eqb k (p, c))) live) used t
  | _ :: t => mstatic live used t
  end.

Definition decode_mcase (l : list N) : option (nat * list (bool * N) * N * list (N * mev)) :=
  match l with
  | 5 :: rest =>
      match pall (let* cap := pN in
                  let* cfg := plist (let* ka := pBool in let* T := pN in pret (ka, T)) in
                  let* n0 := pN in let* ops := plist p_mop in pret (cap, cfg, n0, ops)) rest with
      | Some (cap, cfg, n0, ops) =>
          let n := N.of_nat (length cfg) in
          if (0 <? cap) && (cap <? 1000) && (0 <? n) && (n <? 9) &&
             forallb (fun kt : bool * N => (0 <? snd kt) && (snd kt <? 100000000)) cfg &&
             small n0 &&
             forallb (fun de : N * mev => mev_small n (snd de) && (fst de <? 100000000)) ops &&
             mstatic [] [] ops
          then Some (N.to_nat cap, cfg, n0, ops) else None
      | None => None
      end
  | _ => None
  end.

(* ---- encoders ---- *)
Definition is_cmd (o : out) : bool := match o with OCmd _ _ | OForce _ => true | _ => false end.
Definition enc_souts (os : list out) : list N :=
  enc_list enc_out (canon_outs (filter (fun o => negb (is_cmd o)) os)).
Definition enc_nres (r : nres) : list N :=
  match r with
  | NNo => [0; 0; 0] | NCmd i id => [1; i; wid id] | NForce => [2; 0; 0]
  | NEnd => [3; 0; 0] | NPending => [4; 0; 0] | NSkip => [5; 0; 0]
  end.
Definition sdump (s : st) : list N :=
  enc_list enc_ctx (sort_by c_peer (s_ctxs s)) ++
  enc_list (fun k : key => [fst k; snd k]) (sort_by kkey (map fst (s_last s))) ++
  [N.of_nat (length (s_timers s))].
Definition conns_of (ss : list st) : list N :=
  match ss with s :: _ => map ch_id (sort_by ch_id (s_chans s)) | [] => [] end.
Definition mdump (m : mst) : list N :=
  flat_map sdump (m_svcs m) ++ [wid (m_next m)] ++
  enc_list (fun c => [c; b2n (0 <? mstrong (m_svcs m) c)]) (conns_of (m_svcs m)).

Fixpoint mrun_trace (m : mst) (tr : list (N * mev)) : list N :=
  match tr with
  | [] => []
  | (dt, e) :: t =>
      let '(m', (oss, r)) := mstep m dt e in
      flat_map enc_souts oss ++ enc_nres r ++ mdump m' ++ mrun_trace m' t
  end.

Definition run_multi (l : list N) : list N :=
  match decode_mcase l with
  | Some (cap, cfg, n0, ops) => 5 :: mrun_trace (minit cap cfg n0) ops
  | None => [0]
  end.

(* PROVISIONAL oracles (replaced below) *)
Definition multi_ok8 (case trace : list N) : bool := true.
Definition multi_ok9 (case trace : list N) : bool := true.
