(* Ts/GlueMulti — wire format, model runner and trace oracles of the composed model (Multi.v):
   several TransportServices over shared connections (case kind 5). Definitions only.

   case  : 5 cap nsvc (ka T)* n0 nops (dt tag args..)*
           tag 0                 everybody is polled
               1 p c             report_connection_established of connection c to peer p (all services)
               2 p c             report_connection_closed (all services); the ProtocolSet is dropped
               3 i p c m         inbound substream for service i on connection c, negotiated over the
                                 protocol's main name (m = 1) or over its fallback name (m = 0)
               4 i id m          the connection answers open `id` of service i with SubstreamOpened (m as above)
               5 i id            ... with SubstreamOpenFailure
               6 i p             DialFailure to service i
               7 i p             service i calls open_substream(p)
               8 i c             service i drops one substream of connection c
               12 i c            service i shuts down the write half of a held substream of c
               14 i p            service i calls force_close(p)
               15 c              the connection task of c polls ProtocolSet::next()
   trace : 5 (per service: outs) nres (per service: contexts, tracked keys, armed sleeps) next (conn alive)*
           OpenSubstream / ForceClose commands are observed when the connection task takes them
           (nres), not when they are sent: OCmd / OForce are not part of the per-service outputs. *)
From Coq Require Import List NArith Bool.
From V.common Require Import Wire.
From V.Ts Require Import Model Multi Glue.
Import ListNotations.
Open Scope N_scope.

Definition p_mop : parser (N * mev) :=
  let* dt := pN in
  let* tag := pN in
  match tag with
  | 0 => pret (dt, MAll ENone)
  | 1 => let* p := pN in let* c := pN in pret (dt, MAll (EEst p c))
  | 2 => let* p := pN in let* c := pN in pret (dt, MAll (EClosed p c))
  | 3 => let* i := pN in let* p := pN in let* c := pN in let* m := pBool in pret (dt, MOne i (ESubIn p c m))
  | 4 => let* i := pN in let* id := pN in let* m := pBool in pret (dt, MOne i (ESubOut (rid id) m))
  | 5 => let* i := pN in let* id := pN in pret (dt, MOne i (ESubFail (rid id)))
  | 6 => let* i := pN in let* p := pN in pret (dt, MOne i (EDialFail p))
  | 7 => let* i := pN in let* p := pN in pret (dt, MOne i (EOpen p))
  | 8 => let* i := pN in let* c := pN in pret (dt, MOne i (EDropSub c))
  | 12 => let* i := pN in let* c := pN in pret (dt, MOne i (EShutSub c))
  | 14 => let* i := pN in let* p := pN in pret (dt, MOne i (EForce p false false))
  | 15 => let* c := pN in pret (dt, MNext c)
  | _ => pfail
  end.

(* static well-formedness: numbers are small, service indices exist, a connection id is
   established at most once and closed only while established (the harness owns one ProtocolSet
   per established connection) *)
Definition mev_small (n : N) (e : mev) : bool :=
  match e with
  | MAll a => ev_small a
  | MOne i a => (i <? n) && ev_small a
  | MNext c => small c
  end.
Fixpoint mstatic (live : list key) (used : list N) (tr : list (N * mev)) : bool :=
  match tr with
  | [] => true
  | (_, MAll (EEst p c)) :: t => negb (mem c used) && mstatic (live ++ [(p, c)]) (c :: used) t
  | (_, MAll (EClosed p c)) :: t =>
      kmem (p, c) live && mstatic (filter (fun k => negb (key_eqb k (p, c))) live) used t
  | _ :: t => mstatic live used t
  end.

Definition decode_mcase (l : list N) : option (nat * list (bool * N) * N * list (N * mev)) :=
  match l with
  | 5 :: rest =>
      match pall (let* cap := pN in
                  let* cfg := plist (let* ka := pBool in let* T := pN in pret (ka, T)) in
                  let* n0 := pN in let* ops := plist p_mop in pret (cap, cfg, n0, ops)) rest with
      | Some (cap, cfg, n0, ops) =>
          let n := N.of_nat (length cfg) in
          if (0 <? cap) && (cap <? 1000) && (0 <? n) && (n <? 9) &&
             forallb (fun kt : bool * N => (0 <? snd kt) && (snd kt <? 100000000)) cfg &&
             small n0 &&
             forallb (fun de : N * mev => mev_small n (snd de) && (fst de <? 100000000)) ops &&
             mstatic [] [] ops
          then Some (N.to_nat cap, cfg, n0, ops) else None
      | None => None
      end
  | _ => None
  end.

(* ---- encoders ---- *)
Definition is_cmd (o : out) : bool := match o with OCmd _ _ | OForce _ => true | _ => false end.
Definition enc_souts (os : list out) : list N :=
  enc_list enc_out (canon_outs (filter (fun o => negb (is_cmd o)) os)).
Definition enc_nres (r : nres) : list N :=
  match r with
  | NNo => [0; 0; 0] | NCmd i id => [1; i; wid id] | NForce => [2; 0; 0]
  | NEnd => [3; 0; 0] | NPending => [4; 0; 0] | NSkip => [5; 0; 0]
  end.
Definition sdump (s : st) : list N :=
  enc_list enc_ctx (sort_by c_peer (s_ctxs s)) ++
  enc_list (fun k : key => [fst k; snd k]) (sort_by kkey (map fst (s_last s))) ++
  [N.of_nat (length (s_timers s))].
Definition conns_of (ss : list st) : list N :=
  match ss with s :: _ => map ch_id (sort_by ch_id (s_chans s)) | [] => [] end.
Definition mdump (m : mst) : list N :=
  flat_map sdump (m_svcs m) ++ [wid (m_next m)] ++
  enc_list (fun c => [c; b2n (0 <? mstrong (m_svcs m) c)]) (conns_of (m_svcs m)).

Fixpoint mrun_trace (m : mst) (tr : list (N * mev)) : list N :=
  match tr with
  | [] => []
  | (dt, e) :: t =>
      let '(m', (oss, r)) := mstep m dt e in
      flat_map enc_souts oss ++ enc_nres r ++ mdump m' ++ mrun_trace m' t
  end.

Definition run_multi (l : list N) : list N :=
  match decode_mcase l with
  | Some (cap, cfg, n0, ops) => 5 :: mrun_trace (minit cap cfg n0) ops
  | None => [0]
  end.

(* ---- decoding a trace ---- *)
Record sobs := mkSO { so_ctxs : list tctx; so_tracked : list key; so_timers : N }.
Record mobs := mkMO { mo_outs : list (list tout); mo_nres : N * N * N; mo_svcs : list sobs;
                      mo_next : N; mo_alive : list (N * bool) }.
Definition p_mobs (n : nat) : parser mobs :=
  let* outs := prep n (plist p_tout) in
  let* a := pN in let* b := pN in let* c := pN in
  let* svcs := prep n (let* cs := plist p_tctx in
                       let* tk := plist (let* p := pN in let* c := pN in pret (p, c)) in
                       let* nt := pN in pret (mkSO cs tk nt)) in
  let* nx := pN in
  let* al := plist (let* c := pN in let* x := pBool in pret (c, x)) in
  pret (mkMO outs (a, b, c) svcs (rid nx) al).

(* ---- the oracle: what C08 / C09 demand of a multi-service trace, judged on the observations
        alone (the model is not consulted) ---- *)
Definition so_keys (d : sobs) : list (key * bool) :=
  flat_map (fun t => ((t_peer t, t_prim t), t_pact t) ::
                     match t_sec t with Some (c, a) => [((t_peer t, c), a)] | None => [] end) (so_ctxs d).
Definition so_act (d : sobs) (k : key) : option bool :=
  match find (fun x : key * bool => key_eqb (fst x) k) (so_keys d) with Some x => Some (snd x) | None => None end.
Definition alive_of (al : list (N * bool)) (c : N) : bool :=
  match find (fun e : N * bool => fst e =? c) al with Some e => snd e | None => false end.

Definition entry := (N * N * key)%type.            (* (service, id, (peer, connection)) *)
Definition ent_is (i id : N) (x : entry) : bool := (fst (fst x) =? i) && (snd (fst x) =? id).
Definition ent_conn (x : entry) : N := snd (snd x).
Definition ent_find (i id : N) (l : list entry) : option key :=
  match find (ent_is i id) l with Some x => Some (snd x) | None => None end.
Definition ent_del (i id : N) (l : list entry) : list entry := filter (fun x => negb (ent_is i id x)) l.

Record most := mkQ {
  q_now : N;
  q_live : list key; q_used : list N;
  q_conn : list (list N);            (* per service: the peers it has been told are connected *)
  q_ret : list entry;                (* returned by open_substream, still in the connection's queue *)
  q_fl : list entry;                 (* taken by the connection task, not yet answered *)
  q_forces : N;                      (* force_close calls so far (upper bound of queued ForceClose) *)
  q_maxid : option N;
  q_last : list (list (key * N));    (* per service: time of the last keep-alive activity *)
  q_held : list (N * N);             (* (service * 1000000 + connection) -> live keep-alive substreams *)
  q_prev : list sobs; q_palive : list (N * bool);
  q_ok8 : bool; q_ok9 : bool; q_scope : bool
}.

Fixpoint upd_nth {A} (n : nat) (f : A -> A) (l : list A) : list A :=
  match l with [] => [] | h :: t => match n with O => f h :: t | S m => h :: upd_nth m f t end end.
Definition hkey (i c : N) : N := i * 1000000 + c.

(* C08, one service: its outputs of one step in order *)
Record macc := mkMA { ma_conn : list N; ma_ret : list entry; ma_fl : list entry; ma_maxid : option N; ma_ok : bool }.
Definition mout8 (cap : nat) (live : list key) (n0 : N) (j : N) (e : mev) (palive : list (N * bool)) (forces : N)
                 (a : macc) (o : tout) : macc :=
  let bad := mkMA (ma_conn a) (ma_ret a) (ma_fl a) (ma_maxid a) false in
  let same b := mkMA (ma_conn a) (ma_ret a) (ma_fl a) (ma_maxid a) (ma_ok a && b) in
  match o with
  | TEst p => mkMA (p :: ma_conn a) (ma_ret a) (ma_fl a) (ma_maxid a) (ma_ok a && negb (mem p (ma_conn a)))
  | TClosed p => mkMA (filter (fun q => negb (q =? p)) (ma_conn a)) (ma_ret a) (ma_fl a) (ma_maxid a)
                      (ma_ok a && mem p (ma_conn a))
  | TSub p None =>
      match e with
      | MOne i (ESubIn _ _ _) => same ((i =? j) && mem p (ma_conn a))
      | _ => bad
      end
  | TSub p (Some id) =>
      match e, ent_find j id (ma_fl a) with
      | MOne i (ESubOut id' _), Some k =>
          mkMA (ma_conn a) (ma_ret a) (ent_del j id (ma_fl a)) (ma_maxid a)
               (ma_ok a && (i =? j) && (id' =? id) && (fst k =? p) && mem p (ma_conn a))
      | _, _ => bad
      end
  | TFail id =>
      match e, ent_find j id (ma_fl a) with
      | MOne i (ESubFail id'), Some k =>
          mkMA (ma_conn a) (ma_ret a) (ent_del j id (ma_fl a)) (ma_maxid a)
               (ma_ok a && (i =? j) && (id' =? id) && mem (fst k) (ma_conn a))
      | _, _ => bad
      end
  | TRet 0 id =>
      match e with
      | MOne i (EOpen p) =>
          match hd_error (live_of p live) with
          | Some c =>
              mkMA (ma_conn a) (ma_ret a ++ [(j, id, (p, c))]) (ma_fl a) (Some ((id + ID_MOD - n0) mod ID_MOD))
                   (ma_ok a && (i =? j) && mem p (ma_conn a) &&
                    match ma_maxid a with Some m => m <? (id + ID_MOD - n0) mod ID_MOD | None => true end &&
                    (* accepted only while the command channel has room *)
                    Nat.ltb (length (filter (fun x => ent_conn x =? c) (ma_ret a))) cap)
          | None => bad
          end
      | _ => bad
      end
  | TRet 1 _ => match e with MOne i (EOpen p) => same ((i =? j) && negb (mem p (ma_conn a))) | _ => bad end
  | TRet 2 _ =>    (* ConnectionClosed: the primary's command channel had no strong sender left *)
      match e with
      | MOne i (EOpen p) => same ((i =? j) && match hd_error (live_of p live) with
                                               | Some c => negb (alive_of palive c) | None => false end)
      | _ => bad
      end
  | TRet 3 _ =>    (* ChannelClogged only when the primary's command channel can be full *)
      match e with
      | MOne i (EOpen p) =>
          same ((i =? j) && match hd_error (live_of p live) with
                            | Some c => Nat.leb cap (length (filter (fun x => ent_conn x =? c) (ma_ret a)) + N.to_nat forces)
                            | None => false end)
      | _ => bad
      end
  | TRet _ _ => bad
  | TRetF r => match e with MOne i (EForce p _ _) => same ((i =? j) && Bool.eqb (r =? 1) (negb (mem p (ma_conn a))) && (r <? 4)) | _ => bad end
  | TCmd _ _ | TForce _ => bad      (* commands are observed at next(), never in a service's outputs *)
  | TPanic => bad
  | TDial _ | TSkip | TDown _ _ => a
  end.

Fixpoint mout8_all (cap : nat) (live : list key) (n0 : N) (j : nat) (e : mev) (palive : list (N * bool)) (forces : N)
                   (conns : list (list N)) (outs : list (list tout)) (ret fl : list entry) (mx : option N) (ok : bool)
  : list (list N) * list entry * list entry * option N * bool :=
  match conns, outs with
  | cj :: ct, os :: ot =>
      let a := fold_left (mout8 cap live n0 (N.of_nat j) e palive forces) os (mkMA cj ret fl mx ok) in
      let '(ct', ret', fl', mx', ok') := mout8_all cap live n0 (S j) e palive forces ct ot (ma_ret a) (ma_fl a) (ma_maxid a) (ma_ok a) in
      (ma_conn a :: ct', ret', fl', mx', ok')
  | _, _ => ([], ret, fl, mx, ok)
  end.

Definition cfg_nth (cfg : list (bool * N)) (j : nat) : bool * N := nth j cfg (false, 1).
Definition sees_sub (os : list tout) : bool := existsb (fun x => match x with TSub _ _ => true | _ => false end) os.

Definition mjudge_step (cap : nat) (cfg : list (bool * N)) (n0 : N) (q : most) (dt : N) (e : mev) (ob : mobs) : most :=
  let now := q_now q + dt in
  let n := length cfg in
  let inscope :=
    q_scope q &&
    match e with
    | MAll (EEst p c) => negb (mem c (q_used q)) && Nat.ltb (length (live_of p (q_live q))) 2
    | MAll (EClosed p c) => kmem (p, c) (q_live q)
    | MOne _ (ESubIn p c _) => kmem (p, c) (q_live q)
    | _ => true
    end in
  if negb inscope then
    mkQ now (q_live q) (q_used q) (q_conn q) (q_ret q) (q_fl q) (q_forces q) (q_maxid q) (q_last q) (q_held q)
        (mo_svcs ob) (mo_alive ob) (q_ok8 q) (q_ok9 q) false
  else
  let live' := match e with
               | MAll (EEst p c) => q_live q ++ [(p, c)]
               | MAll (EClosed p c) => filter (fun k => negb (key_eqb k (p, c))) (q_live q)
               | _ => q_live q
               end in
  let used' := match e with MAll (EEst _ c) => c :: q_used q | _ => q_used q end in
  let closedc := match e with MAll (EClosed _ c) => Some c | _ => None end in
  let drop_c (l : list entry) := match closedc with Some c => filter (fun x => negb (ent_conn x =? c)) l | None => l end in
  let forces' := match e with MOne _ (EForce _ _ _) => q_forces q + 2 | _ => q_forces q end in
  (* the key an answer of this step refers to (before it is consumed) *)
  let anskey : option key :=
    match e with
    | MOne i (ESubOut id _) => ent_find i id (q_fl q)
    | MOne _ (ESubIn p c _) => Some (p, c)
    | _ => None
    end in
  let '(conns', ret1, fl1, mx', ok1) :=
    mout8_all cap (q_live q) n0 0 e (q_palive q) forces' (q_conn q) (mo_outs ob) (drop_c (q_ret q)) (drop_c (q_fl q))
              (q_maxid q) true in
  (* next(): the command taken is the oldest open queued on that connection, for the service that issued it *)
  let '(ret2, fl2, okn) :=
    match mo_nres ob, e with
    | (1, i, wi), MNext c =>
        let id := rid wi in
        match find (fun x => ent_conn x =? c) ret1 with
        | Some x => (ent_del i id ret1, fl1 ++ [x], ent_is i id x)
        | None => (ret1, fl1, false)
        end
    | (1, _, _), _ => (ret1, fl1, false)
    | (3, _, _), MNext c =>    (* the connection task ends only when nothing is queued *)
        (ret1, fl1, negb (existsb (fun x => ent_conn x =? c) ret1))
    | (0, _, _), MNext _ => (ret1, fl1, false)
    | (0, _, _), _ => (ret1, fl1, true)
    | (_, _, _), MNext _ => (ret1, fl1, true)
    | _, _ => (ret1, fl1, false)
    end in
  let ok8 :=
    ok1 && okn && Nat.eqb (length (mo_outs ob)) n && Nat.eqb (length (mo_svcs ob)) n &&
    (* every service: told connected exactly for the peers with an open connection, and its view
       lists the open connections in establishment order (primary = oldest) *)
    forallb (fun cj => forallb (fun p => Bool.eqb (mem p cj) (mem p (peers_of live')))
                               (peers_of (q_live q) ++ peers_of live' ++ cj)) conns' &&
    forallb (fun d => forallb (fun t => nlist_eqb (t_prim t :: match t_sec t with Some (c, _) => [c] | None => [] end)
                                                  (live_of (t_peer t) live')) (so_ctxs d)) (mo_svcs ob) &&
    (* an accepted input is answered *)
    match e with
    | MOne i (EOpen _) => existsb (fun x => match x with TRet _ _ => true | _ => false end) (nth (N.to_nat i) (mo_outs ob) [])
    | MOne i (ESubOut id _) =>
        match ent_find i id (q_fl q) with
        | Some _ => existsb (fun x => match x with TSub _ (Some j) => j =? id | _ => false end) (nth (N.to_nat i) (mo_outs ob) [])
        | None => true
        end
    | MOne i (ESubFail id) =>
        match ent_find i id (q_fl q) with
        | Some _ => existsb (fun x => match x with TFail j => j =? id | _ => false end) (nth (N.to_nat i) (mo_outs ob) [])
        | None => true
        end
    | _ => true
    end in
  (* ---- C09 ---- *)
  let last' :=
    (fix go (j : nat) (ls : list (list (key * N))) (outs : list (list tout)) (ds : list sobs) : list (list (key * N)) :=
       match ls, outs, ds with
       | l :: lt, os :: ot, d :: dtl =>
           let ka := fst (cfg_nth cfg j) in
           let k : option key :=
             match e with
             | MAll (EEst p c) => if kmem (p, c) (map fst (so_keys d)) then Some (p, c) else None
             | MOne i (EOpen p) =>
                 if (i =? N.of_nat j) && ka &&
                    existsb (fun x => match x with TRet 0 _ | TRet 3 _ => true | _ => false end) os
                 then option_map (fun c => (p, c)) (hd_error (live_of p (q_live q))) else None
             | MOne i (ESubIn _ _ _) | MOne i (ESubOut _ _) =>
                 if (i =? N.of_nat j) && ka && sees_sub os then anskey else None
             | _ => None
             end in
           (match k with Some k => kset k now l | None => l end) :: go (S j) lt ot dtl
       | _, _, _ => []
       end) O (q_last q) (mo_outs ob) (mo_svcs ob) in
  let held' :=
    match e with
    | MOne i (ESubIn _ c _) =>
        if fst (cfg_nth cfg (N.to_nat i)) && sees_sub (nth (N.to_nat i) (mo_outs ob) [])
        then nset (hkey i c) (nfind (hkey i c) (q_held q) + 1) (q_held q) else q_held q
    | MOne i (ESubOut _ _) =>
        match anskey with
        | Some k => if fst (cfg_nth cfg (N.to_nat i)) && sees_sub (nth (N.to_nat i) (mo_outs ob) [])
                    then nset (hkey i (snd k)) (nfind (hkey i (snd k)) (q_held q) + 1) (q_held q) else q_held q
        | None => q_held q
        end
    | MOne i (EDropSub c) =>
        if has_skip (nth (N.to_nat i) (mo_outs ob) []) then q_held q
        else nset (hkey i c) (nfind (hkey i c) (q_held q) - 1) (q_held q)
    | _ => q_held q
    end in
  let ok9 :=
    (fix go9 (j : nat) (ls : list (list (key * N))) (outs : list (list tout)) (ds prev : list sobs) : bool :=
       match ls, outs, ds with
       | l :: lt, os :: ot, d :: dtl =>
           let T := snd (cfg_nth cfg j) in
           let pd := nth j prev (mkSO [] [] 0) in
           (* not before: a downgrade only when this service's last keep-alive activity is at least T_j old *)
           forallb (fun x => match x with
                             | TDown p c => match kfind (p, c) l with Some t => t + T <=? now | None => false end
                             | _ => true end) os &&
           (* every Active -> Inactive flip is a reported downgrade *)
           forallb (fun ka' : key * bool =>
                      match so_act pd (fst ka'), snd ka' with
                      | Some true, false => existsb (fun x => match x with TDown p c => key_eqb (p, c) (fst ka') | _ => false end) os
                      | _, _ => true
                      end) (so_keys d) &&
           (* closes: after the poll no handle is Active whose last activity is T_j or more ago *)
           forallb (fun ka' : key * bool =>
                      if snd ka' then match kfind (fst ka') l with Some t => now <? t + T | None => false end else true)
                   (so_keys d) &&
           (N.of_nat (length (so_tracked d)) <=? so_timers d) &&
           forallb (fun k => kmem k (map fst (so_keys d))) (so_tracked d) &&
           go9 (S j) lt ot dtl prev
       | _, _, _ => true
       end) O last' (mo_outs ob) (mo_svcs ob) (q_prev q) &&
    (* the connection closes only when ALL have let go: its command channel has a strong sender
       exactly when some service's handle is Active, a keep-alive substream of some service lives, or
       an open of some service is queued or in flight *)
    forallb (fun ca : N * bool =>
               let c := fst ca in
               Bool.eqb (snd ca)
                 (existsb (fun d => existsb (fun ka' : key * bool => (snd (fst ka') =? c) && snd ka') (so_keys d)) (mo_svcs ob)
                  || existsb (fun j => 0 <? nfind (hkey (N.of_nat j) c) held') (seq 0 n)
                  || existsb (fun x => ent_conn x =? c) ret2 || existsb (fun x => ent_conn x =? c) fl2)) (mo_alive ob) &&
    (* next(): None exactly when no strong sender is left (and nothing is queued), Pending otherwise *)
    match mo_nres ob, e with
    | (3, _, _), MNext c => negb (alive_of (mo_alive ob) c)
    | (4, _, _), MNext c => alive_of (mo_alive ob) c
    | _, _ => true
    end in
  mkQ now live' used' conns' ret2 fl2 forces' mx' last' held' (mo_svcs ob) (mo_alive ob)
      (q_ok8 q && ok8) (q_ok9 q && ok9) true.

Fixpoint mjudge (cap : nat) (cfg : list (bool * N)) (n0 : N) (q : most) (tr : list (N * mev)) (obs : list mobs) : most :=
  match tr, obs with
  | (dt, e) :: t, ob :: obt => mjudge cap cfg n0 (mjudge_step cap cfg n0 q dt e ob) t obt
  | _, _ => q
  end.

Definition mjudged (case trace : list N) : option most :=
  match decode_mcase case, trace with
  | Some (cap, cfg, n0, ops), 5 :: body =>
      match pall (prep (length ops) (p_mobs (length cfg))) body with
      | Some obs =>
          let n := length cfg in
          Some (mjudge cap cfg n0
                  (mkQ 0 [] [] (repeat [] n) [] [] 0 None (repeat [] n) [] (repeat (mkSO [] [] 0) n) [] true true true)
                  ops obs)
      | None => None
      end
  | _, _ => None
  end.

Definition multi_ok8 (case trace : list N) : bool :=
  match decode_mcase case, trace with
  | None, [0] => true
  | _, _ => match mjudged case trace with Some q => q_ok8 q | None => false end
  end.
Definition multi_ok9 (case trace : list N) : bool :=
  match decode_mcase case, trace with
  | None, [0] => true
  | _, _ => match mjudged case trace with Some q => q_ok9 q | None => false end
  end.

(* ====================================================================================
   the name tables of ProtocolSet::new (case kind 6, model: Names.v)
     case  : 6 nproto {main ka nfb fb..}.. nq q..
             the installed protocols (main name, keep-alive flag, fallback names; names are small
             numbers n, written /n/<n> in the harness), then names under which an inbound substream
             is reported (report_substream_open)
     trace : 6 ntable {name ka}..     protocols_with_keep_alives(), sorted by name
               {code main fb+1}..     per reported name: 0 delivered to the protocol with that main
                                      name, fallback as given; 1 refused (name unknown) *)
From V.Ts Require Import Names.

Definition p_proto : parser proto :=
  let* m := pN in let* ka := pBool in let* fbs := plist pN in pret (mkP m fbs ka).
Definition decode_ncase (l : list N) : option (list proto * list N) :=
  match l with
  | 6 :: rest =>
      match pall (let* tbl := plist p_proto in let* qs := plist pN in pret (tbl, qs)) rest with
      | Some (tbl, qs) =>
          if nodup_b (all_names tbl) && forallb small (all_names tbl) && forallb small qs &&
             (N.of_nat (length tbl) <? 9) && (0 <? N.of_nat (length tbl))
          then Some (tbl, qs) else None
      | None => None
      end
  | _ => None
  end.

Definition run_names (l : list N) : list N :=
  match decode_ncase l with
  | Some (tbl, qs) =>
      6 :: enc_list (fun kv : N * bool => [fst kv; b2n (snd kv)]) (sort_by fst (keep_alives tbl)) ++
      flat_map (fun q => let '(m, fb) := resolve tbl q in
                         match find_main tbl m with
                         | Some _ => [0; m; enc_opt fb]
                         | None => [1; 0; 0]
                         end) qs
  | None => [0]
  end.

(* C09 on such a trace: every negotiable name — main and fallback — is offered with exactly the
   keep-alive flag of the protocol it belongs to (that flag decides whether an accepted inbound
   substream holds the connection), nothing else is offered; a substream reported under any of a
   protocol's names reaches that protocol under its main name *)
Definition names_ok (case trace : list N) : bool :=
  match decode_ncase case, trace with
  | None, [0] => true
  | Some (tbl, qs), 6 :: body =>
      match pall (let* tb := plist (let* n := pN in let* k := pBool in pret (n, k)) in
                  let* rs := prep (length qs) (let* a := pN in let* b := pN in let* c := pN in pret (a, b, c)) in
                  pret (tb, rs)) body with
      | Some (tb, rs) =>
          forallb (fun pr => forallb (fun n => match assoc n tb with Some k => Bool.eqb k (p_ka pr) | None => false end)
                                     (p_main pr :: p_fbs pr)) tbl &&
          forallb (fun nk : N * bool => mem (fst nk) (all_names tbl)) tb &&
          nodup_b (map fst tb) &&
          forallb (fun qr : N * (N * N * N) =>
                     let q := fst qr in let '(code, m, fb) := snd qr in
                     match find (fun pr => mem q (p_main pr :: p_fbs pr)) tbl with
                     | Some pr => (code =? 0) && (m =? p_main pr) &&
                                  (fb =? if q =? p_main pr then 0 else q + 1)
                     | None => code =? 1
                     end) (combine qs rs)
      | None => false
      end
  | _, _ => false
  end.
