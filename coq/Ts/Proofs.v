(* Ts — lemmas about the TransportService model (C08 and C09). *)
From Coq Require Import List NArith Bool Lia Sorted PeanoNat.
From V.Ts Require Import Model.
Import ListNotations.
Open Scope N_scope.
Arguments N.add : simpl never.
Arguments N.sub : simpl never.
Arguments N.eqb : simpl never.
Arguments N.ltb : simpl never.
Arguments N.leb : simpl never.
Arguments N.of_nat : simpl never.

Ltac st_simpl :=
  cbn [s_ka s_T s_now s_ctxs s_next s_last s_timers s_act s_chans s_pend
       with_ctxs with_next with_trk with_chans with_pend with_now with_act] in *.

(* ------------------------------------------------------------------ keys *)
Lemma key_eqb_eq a b : key_eqb a b = true <-> a = b.
Proof.
  destruct a as [a1 a2], b as [b1 b2]; unfold key_eqb; cbn [fst snd].
  rewrite andb_true_iff, !N.eqb_eq. split; [intros [-> ->]; reflexivity | intros E; inversion E; auto].
Qed.
Lemma key_eqb_refl a : key_eqb a a = true.
Proof. apply key_eqb_eq; reflexivity. Qed.
Lemma key_eqb_neq a b : key_eqb a b = false <-> a <> b.
Proof.
  split.
  - intros H E. apply key_eqb_eq in E. congruence.
  - intros H. destruct (key_eqb a b) eqn:E; [apply key_eqb_eq in E; contradiction | reflexivity].
Qed.
Lemma key_eqb_sym a b : key_eqb a b = key_eqb b a.
Proof.
  destruct (key_eqb a b) eqn:E.
  - apply key_eqb_eq in E; subst; symmetry; apply key_eqb_refl.
  - symmetry. apply key_eqb_neq. apply key_eqb_neq in E. congruence.
Qed.

Lemma kfind_kset k k' v l :
  kfind k' (kset k v l) = if key_eqb k k' then Some v else kfind k' l.
Proof.
  induction l as [|[k0 v0] t IH]; cbn [kset kfind].
  - reflexivity.
  - destruct (key_eqb k0 k) eqn:E0.
    + apply key_eqb_eq in E0; subst k0. cbn [kfind]. destruct (key_eqb k k'); reflexivity.
    + cbn [kfind]. destruct (key_eqb k0 k') eqn:E1.
      * apply key_eqb_eq in E1; subst k0. rewrite key_eqb_sym, E0. reflexivity.
      * apply IH.
Qed.
Lemma kfind_kdel k k' l :
  kfind k' (kdel k l) = if key_eqb k k' then None else kfind k' l.
Proof.
  induction l as [|[k0 v0] t IH]; cbn [kdel filter kfind fst].
  - destruct (key_eqb k k'); reflexivity.
  - destruct (key_eqb k0 k) eqn:E0; cbn [negb].
    + apply key_eqb_eq in E0; subst k0. fold (kdel k t). rewrite IH.
      destruct (key_eqb k k'); reflexivity.
    + cbn [kfind]. fold (kdel k t). rewrite IH.
      destruct (key_eqb k0 k') eqn:E1.
      * apply key_eqb_eq in E1; subst k0. rewrite key_eqb_sym, E0. reflexivity.
      * reflexivity.
Qed.
Lemma kfind_kdel_some k k' l t : kfind k' (kdel k l) = Some t -> kfind k' l = Some t.
Proof. rewrite kfind_kdel. destruct (key_eqb k k'); congruence. Qed.

(* ------------------------------------------------------------------ contexts *)
Lemma find_ctx_peer p l cx : find_ctx p l = Some cx -> c_peer cx = p.
Proof.
  induction l as [|h t IH]; cbn [find_ctx]; [discriminate|].
  destruct (c_peer h =? p) eqn:E; [intros H; inversion H; subst; apply N.eqb_eq; exact E | exact IH].
Qed.
Lemma find_set_ctx cx l q :
  find_ctx q (set_ctx cx l) = if c_peer cx =? q then Some cx else find_ctx q l.
Proof.
  induction l as [|h t IH]; cbn [set_ctx find_ctx].
  - reflexivity.
  - destruct (c_peer h =? c_peer cx) eqn:E; cbn [find_ctx].
    + apply N.eqb_eq in E. rewrite E. destruct (c_peer cx =? q); reflexivity.
    + destruct (c_peer h =? q) eqn:E1.
      * apply N.eqb_eq in E1. subst q. rewrite N.eqb_sym, E. reflexivity.
      * apply IH.
Qed.
Lemma find_app_ctx cx l q :
  find_ctx q (l ++ [cx]) =
  match find_ctx q l with Some x => Some x | None => if c_peer cx =? q then Some cx else None end.
Proof.
  induction l as [|h t IH]; cbn [app find_ctx]; [reflexivity|].
  destruct (c_peer h =? q); [reflexivity | apply IH].
Qed.
Lemma find_del_ctx p l q :
  find_ctx q (del_ctx p l) = if p =? q then None else find_ctx q l.
Proof.
  induction l as [|h t IH]; cbn [del_ctx filter find_ctx].
  - destruct (p =? q); reflexivity.
  - fold (del_ctx p t). destruct (c_peer h =? p) eqn:E; cbn [negb].
    + apply N.eqb_eq in E. rewrite IH, E. destruct (p =? q); reflexivity.
    + cbn [find_ctx]. rewrite IH. destruct (c_peer h =? q) eqn:E1.
      * apply N.eqb_eq in E1. subst q. rewrite N.eqb_sym, E. reflexivity.
      * reflexivity.
Qed.

Lemma ids_set_act cx c b : ids_of (cx_set_act cx c b) = ids_of cx.
Proof.
  unfold cx_set_act, ids_of. destruct (h_id (c_prim cx) =? c) eqn:E.
  - apply N.eqb_eq in E. cbn [c_prim c_sec h_id]. rewrite E. reflexivity.
  - destruct (c_sec cx) as [h|] eqn:S; [|rewrite S; reflexivity].
    destruct (h_id h =? c) eqn:E1; [|rewrite S; reflexivity].
    apply N.eqb_eq in E1. cbn [c_prim c_sec h_id]. rewrite E1. reflexivity.
Qed.
Lemma peer_set_act cx c b : c_peer (cx_set_act cx c b) = c_peer cx.
Proof.
  unfold cx_set_act. destruct (h_id (c_prim cx) =? c); [reflexivity|].
  destruct (c_sec cx) as [h|]; [destruct (h_id h =? c)|]; reflexivity.
Qed.
Lemma conn_ids_set_active l k b p : conn_ids (set_active l k b) p = conn_ids l p.
Proof.
  unfold set_active, conn_ids. destruct (find_ctx (fst k) l) as [cx|] eqn:F; [|reflexivity].
  rewrite find_set_ctx, peer_set_act. pose proof (find_ctx_peer _ _ _ F) as P. rewrite P.
  destruct (fst k =? p) eqn:E; [|reflexivity].
  apply N.eqb_eq in E. subst p. rewrite F. apply ids_set_act.
Qed.

(* activity keeps everything but the tracker *)
Lemma activity_ctxs s k : s_ctxs (activity s k) = s_ctxs s.
Proof. unfold activity. destruct (kfind k (s_last s)); reflexivity. Qed.
Lemma activity_pend s k : s_pend (activity s k) = s_pend s.
Proof. unfold activity. destruct (kfind k (s_last s)); reflexivity. Qed.
Lemma activity_next s k : s_next (activity s k) = s_next s.
Proof. unfold activity. destruct (kfind k (s_last s)); reflexivity. Qed.
Lemma activity_chans s k : s_chans (activity s k) = s_chans s.
Proof. unfold activity. destruct (kfind k (s_last s)); reflexivity. Qed.
Lemma activity_now s k : s_now (activity s k) = s_now s.
Proof. unfold activity. destruct (kfind k (s_last s)); reflexivity. Qed.
Lemma activity_T s k : s_T (activity s k) = s_T s.
Proof. unfold activity. destruct (kfind k (s_last s)); reflexivity. Qed.
Lemma activity_ka s k : s_ka (activity s k) = s_ka s.
Proof. unfold activity. destruct (kfind k (s_last s)); reflexivity. Qed.
Lemma activity_act s k : s_act (activity s k) = s_act s.
Proof. unfold activity. destruct (kfind k (s_last s)); reflexivity. Qed.
Lemma activity_last s k : s_last (activity s k) = kset k (s_now s) (s_last s).
Proof. unfold activity. destruct (kfind k (s_last s)); reflexivity. Qed.

Lemma add_chan_ctxs s c : s_ctxs (add_chan s c) = s_ctxs s.
Proof. unfold add_chan. destruct (find_ch c (s_chans s)); reflexivity. Qed.
Lemma add_chan_pend s c : s_pend (add_chan s c) = s_pend s.
Proof. unfold add_chan. destruct (find_ch c (s_chans s)); reflexivity. Qed.
Lemma add_chan_next s c : s_next (add_chan s c) = s_next s.
Proof. unfold add_chan. destruct (find_ch c (s_chans s)); reflexivity. Qed.
Lemma add_chan_last s c : s_last (add_chan s c) = s_last s.
Proof. unfold add_chan. destruct (find_ch c (s_chans s)); reflexivity. Qed.
Lemma add_chan_timers s c : s_timers (add_chan s c) = s_timers s.
Proof. unfold add_chan. destruct (find_ch c (s_chans s)); reflexivity. Qed.
Lemma add_chan_now s c : s_now (add_chan s c) = s_now s.
Proof. unfold add_chan. destruct (find_ch c (s_chans s)); reflexivity. Qed.
Lemma add_chan_T s c : s_T (add_chan s c) = s_T s.
Proof. unfold add_chan. destruct (find_ch c (s_chans s)); reflexivity. Qed.
Lemma add_chan_ka s c : s_ka (add_chan s c) = s_ka s.
Proof. unfold add_chan. destruct (find_ch c (s_chans s)); reflexivity. Qed.
Lemma add_chan_act s c : s_act (add_chan s c) = s_act s.
Proof. unfold add_chan. destruct (find_ch c (s_chans s)); reflexivity. Qed.

(* ------------------------------------------------------------------ the tracker's poll *)
Lemma fire_last_sub T now ts : forall last k t,
  kfind k (snd (fst (fire T now ts last))) = Some t -> kfind k last = Some t.
Proof.
  induction ts as [|[k0 due] ts IH]; intros last k t; cbn [fire].
  - cbn [fst snd]. auto.
  - destruct (due <=? now).
    + destruct (kfind k0 last) as [la|] eqn:F.
      * destruct (now - la <? T).
        -- specialize (IH last k t). destruct (fire T now ts last) as [[ts' l'] ex]. cbn [fst snd] in *. exact IH.
        -- specialize (IH (kdel k0 last) k t). destruct (fire T now ts (kdel k0 last)) as [[ts' l'] ex].
           cbn [fst snd] in *. intros H. apply IH in H. eapply kfind_kdel_some; eauto.
      * apply IH.
    + specialize (IH last k t). destruct (fire T now ts last) as [[ts' l'] ex]. cbn [fst snd] in *. exact IH.
Qed.

(* a key expires only if it was tracked with an activity at least T old *)
Lemma fire_ex T now ts : forall last k,
  In k (snd (fire T now ts last)) -> exists t, kfind k last = Some t /\ T <= now - t.
Proof.
  induction ts as [|[k0 due] ts IH]; intros last k; cbn [fire].
  - cbn [snd]. intros [].
  - destruct (due <=? now).
    + destruct (kfind k0 last) as [la|] eqn:F.
      * destruct (now - la <? T) eqn:L.
        -- specialize (IH last k). destruct (fire T now ts last) as [[ts' l'] ex]. cbn [snd] in *. exact IH.
        -- specialize (IH (kdel k0 last) k). destruct (fire T now ts (kdel k0 last)) as [[ts' l'] ex].
           cbn [snd] in *. intros [E|H].
           ++ subst k0. exists la. split; [exact F|]. apply N.ltb_ge in L. exact L.
           ++ destruct (IH H) as [t [H1 H2]]. exists t. split; [eapply kfind_kdel_some; eauto | exact H2].
      * apply IH.
    + specialize (IH last k). destruct (fire T now ts last) as [[ts' l'] ex]. cbn [snd] in *. exact IH.
Qed.

(* a due sleep of a key whose last activity is T or more ago makes the key expire *)
Lemma fire_expires T now ts : forall last k due t,
  In (k, due) ts -> due <= now -> kfind k last = Some t -> T <= now - t ->
  kfind k (snd (fst (fire T now ts last))) = None /\ In k (snd (fire T now ts last)).
Proof.
  induction ts as [|[k0 due0] ts IH]; intros last k due t HIn Hdue Hk HT; [destruct HIn|].
  cbn [fire].
  destruct (key_eqb k0 k) eqn:EK.
  - apply key_eqb_eq in EK. subst k0.
    destruct (due0 <=? now) eqn:D0.
    + rewrite Hk. assert (L : now - t <? T = false) by (apply N.ltb_ge; exact HT). rewrite L.
      pose proof (fire_last_sub T now ts (kdel k last) k) as SUB.
      destruct (fire T now ts (kdel k last)) as [[ts' l'] ex]. cbn [fst snd] in *. split.
      * destruct (kfind k l') as [x|] eqn:Fx; [|reflexivity].
        specialize (SUB x eq_refl). rewrite kfind_kdel, key_eqb_refl in SUB. discriminate.
      * left; reflexivity.
    + destruct HIn as [E|HIn].
      * inversion E; subst. apply N.leb_gt in D0. lia.
      * specialize (IH last k due t HIn Hdue Hk HT).
        destruct (fire T now ts last) as [[ts' l'] ex]. cbn [fst snd] in *. exact IH.
  - destruct HIn as [E|HIn]; [inversion E; subst; rewrite key_eqb_refl in EK; discriminate|].
    destruct (due0 <=? now).
    + destruct (kfind k0 last) as [la|] eqn:F.
      * destruct (now - la <? T).
        -- specialize (IH last k due t HIn Hdue Hk HT).
           destruct (fire T now ts last) as [[ts' l'] ex]. cbn [fst snd] in *. exact IH.
        -- assert (Hk' : kfind k (kdel k0 last) = Some t) by (rewrite kfind_kdel, EK; exact Hk).
           specialize (IH (kdel k0 last) k due t HIn Hdue Hk' HT).
           destruct (fire T now ts (kdel k0 last)) as [[ts' l'] ex]. cbn [fst snd] in *.
           destruct IH as [I1 I2]. split; [exact I1 | right; exact I2].
      * apply (IH last k due t HIn Hdue Hk HT).
    + specialize (IH last k due t HIn Hdue Hk HT).
      destruct (fire T now ts last) as [[ts' l'] ex]. cbn [fst snd] in *. exact IH.
Qed.

(* a key that stays tracked keeps an armed sleep, due no later than before or at last + T *)
Lemma fire_keeps T now ts : forall last k t due,
  kfind k (snd (fst (fire T now ts last))) = Some t -> In (k, due) ts ->
  exists due', In (k, due') (fst (fst (fire T now ts last))) /\
               (due' = due \/ (due' = now + (T - (now - t)) /\ now - t < T)).
Proof.
  induction ts as [|[k0 due0] ts IH]; intros last k t due Hk HIn; [destruct HIn|].
  cbn [fire] in *.
  destruct (due0 <=? now) eqn:D0.
  - destruct (kfind k0 last) as [la|] eqn:F.
    + destruct (now - la <? T) eqn:L.
      * pose proof (fire_last_sub T now ts last k t) as SUB.
        specialize (IH last k t due).
        destruct (fire T now ts last) as [[ts' l'] ex]. cbn [fst snd] in *.
        destruct HIn as [E|HIn].
        -- inversion E; subst k0 due0. specialize (SUB Hk). rewrite SUB in F. inversion F; subst la.
           exists (now + (T - (now - t))). split; [left; reflexivity | right; split; [reflexivity | apply N.ltb_lt; exact L]].
        -- destruct (IH Hk HIn) as [d [I1 I2]]. exists d. split; [right; exact I1 | exact I2].
      * pose proof (fire_last_sub T now ts (kdel k0 last) k t) as SUB.
        specialize (IH (kdel k0 last) k t due).
        destruct (fire T now ts (kdel k0 last)) as [[ts' l'] ex]. cbn [fst snd] in *.
        destruct HIn as [E|HIn].
        -- inversion E; subst k0 due0. specialize (SUB Hk). rewrite kfind_kdel, key_eqb_refl in SUB. discriminate.
        -- exact (IH Hk HIn).
    + destruct HIn as [E|HIn].
      * inversion E; subst k0 due0. pose proof (fire_last_sub T now ts last k t Hk) as SUB. congruence.
      * exact (IH last k t due Hk HIn).
  - specialize (IH last k t due).
    destruct (fire T now ts last) as [[ts' l'] ex]. cbn [fst snd] in *.
    destruct HIn as [E|HIn].
    + inversion E; subst. exists due. split; [left; reflexivity | left; reflexivity].
    + destruct (IH Hk HIn) as [d [I1 I2]]. exists d. split; [right; exact I1 | exact I2].
Qed.

(* ------------------------------------------------------------------ downgrades *)
Lemma cx_act_set_same cx c : cx_act (cx_set_act cx c false) c = false.
Proof.
  unfold cx_set_act, cx_act. destruct (h_id (c_prim cx) =? c) eqn:E.
  - cbn [c_prim h_id h_act]. rewrite N.eqb_refl. reflexivity.
  - destruct (c_sec cx) as [h|] eqn:S.
    + destruct (h_id h =? c) eqn:E1.
      * cbn [c_prim c_sec h_id h_act]. rewrite E, N.eqb_refl. reflexivity.
      * rewrite E, S, E1. reflexivity.
    + rewrite E, S. reflexivity.
Qed.
Lemma cx_act_set_mono cx c' c : cx_act (cx_set_act cx c' false) c = true -> cx_act cx c = true.
Proof.
  unfold cx_set_act, cx_act. destruct (h_id (c_prim cx) =? c') eqn:E.
  - apply N.eqb_eq in E. cbn [c_prim c_sec h_id h_act].
    destruct (c' =? c) eqn:E2.
    + discriminate.
    + rewrite E, E2. auto.
  - destruct (c_sec cx) as [h|] eqn:S.
    + destruct (h_id h =? c') eqn:E1.
      * apply N.eqb_eq in E1. cbn [c_prim c_sec h_id h_act].
        destruct (h_id (c_prim cx) =? c); [auto|].
        destruct (c' =? c) eqn:E2; [discriminate|]. rewrite E1, E2. auto.
      * rewrite S. auto.
    + rewrite S. auto.
Qed.
Lemma handle_active_set_same l k : handle_active (set_active l k false) k = false.
Proof.
  unfold handle_active, set_active. destruct (find_ctx (fst k) l) as [cx|] eqn:F.
  - rewrite find_set_ctx, peer_set_act, (find_ctx_peer _ _ _ F), N.eqb_refl. apply cx_act_set_same.
  - rewrite F. reflexivity.
Qed.
Lemma handle_active_set_mono l k' k :
  handle_active (set_active l k' false) k = true -> handle_active l k = true.
Proof.
  unfold handle_active, set_active. destruct (find_ctx (fst k') l) as [cx|] eqn:F; [|auto].
  rewrite find_set_ctx, peer_set_act, (find_ctx_peer _ _ _ F).
  destruct (fst k' =? fst k) eqn:E; [|auto].
  apply N.eqb_eq in E. rewrite <- E, F. apply cx_act_set_mono.
Qed.
Lemma downgrade_all_mono ex : forall l k,
  handle_active (fst (downgrade_all l ex)) k = true -> handle_active l k = true.
Proof.
  induction ex as [|k0 ex IH]; intros l k; cbn [downgrade_all]; [cbn [fst]; auto|].
  specialize (IH (set_active l k0 false) k).
  destruct (downgrade_all (set_active l k0 false) ex) as [l' os]. cbn [fst] in *.
  intros H. apply IH in H. eapply handle_active_set_mono; eauto.
Qed.
Lemma downgrade_all_off ex : forall l k,
  In k ex -> handle_active (fst (downgrade_all l ex)) k = false.
Proof.
  induction ex as [|k0 ex IH]; intros l k HIn; [destruct HIn|]. cbn [downgrade_all].
  pose proof (downgrade_all_mono ex (set_active l k0 false) k) as M.
  specialize (IH (set_active l k0 false) k).
  destruct (downgrade_all (set_active l k0 false) ex) as [l' os]. cbn [fst] in *.
  destruct HIn as [E|HIn]; [|auto].
  subst k0. destruct (handle_active l' k) eqn:A; [|reflexivity].
  specialize (M eq_refl). rewrite handle_active_set_same in M. discriminate.
Qed.
Lemma downgrade_all_conn_ids ex : forall l p, conn_ids (fst (downgrade_all l ex)) p = conn_ids l p.
Proof.
  induction ex as [|k0 ex IH]; intros l p; cbn [downgrade_all]; [reflexivity|].
  specialize (IH (set_active l k0 false) p).
  destruct (downgrade_all (set_active l k0 false) ex) as [l' os]. cbn [fst] in *.
  rewrite IH. apply conn_ids_set_active.
Qed.
Lemma downgrade_all_outs ex : forall l o,
  In o (snd (downgrade_all l ex)) -> exists k, In k ex /\ o = ODown (fst k) (snd k).
Proof.
  induction ex as [|k0 ex IH]; intros l o; cbn [downgrade_all]; [cbn [snd]; intros []|].
  specialize (IH (set_active l k0 false) o).
  destruct (downgrade_all (set_active l k0 false) ex) as [l' os]. cbn [snd] in *.
  destruct (handle_active l k0).
  - intros [E|H].
    + exists k0. split; [left; reflexivity | auto].
    + destruct (IH H) as [k [I1 I2]]. exists k. split; [right; exact I1 | exact I2].
  - intros H. destruct (IH H) as [k [I1 I2]]. exists k. split; [right; exact I1 | exact I2].
Qed.

(* ------------------------------------------------------------------ one step, in two halves *)
Definition mid (s : st) (dt : N) (e : ev) : st * list out :=
  let s0 := with_now s (s_now s + dt) in
  let '(s1, o1) := handle_ev s0 e in
  (match ka_activity_of s0 e with
   | Some k => with_act s1 (kset k (s_now s1) (s_act s1))
   | None => s1
   end, o1).
Lemma step_mid s dt e :
  step s dt e = let '(s1, o1) := mid s dt e in let '(s2, o2) := poll_timers s1 in (s2, o1 ++ o2).
Proof.
  unfold step, mid. destruct (handle_ev (with_now s (s_now s + dt)) e) as [s1 o1]. reflexivity.
Qed.

Definition trk_after (s s1 : st) (gk : option key) (e : ev) : Prop :=
  match gk with
  | Some k => s_last s1 = kset k (s_now s) (s_last s) /\
              s_timers s1 = match kfind k (s_last s) with
                            | Some _ => s_timers s
                            | None => s_timers s ++ [(k, s_now s + s_T s)]
                            end
  | None => s_timers s1 = s_timers s /\
            s_last s1 = match e with EClosed p c => kdel (p, c) (s_last s) | _ => s_last s end
  end.

Ltac dmatch :=
  repeat match goal with
         | |- context [match ?x with _ => _ end] => destruct x eqn:?
         end.

(* force_close only produces OForce / ORetF outputs *)
Lemma force_outs_kind s p fs fp o :
  In o (force_outs s p fs fp) -> (exists c, o = OForce c) \/ (exists r, o = ORetF r).
Proof.
  unfold force_outs, force_one. intros H.
  destruct (find_ctx p (s_ctxs s)) as [cx|]; [|destruct H as [<-|[]]; right; eexists; reflexivity].
  apply in_app_or in H. destruct H as [H|H].
  - destruct (c_sec cx) as [h|]; [|destruct H].
    destruct (h_act h || (0 <? strong s (h_id h))); [destruct fs|]; cbn [fst In] in H;
      try destruct H as [<-|[]]; try destruct H; left; eexists; reflexivity.
  - apply in_app_or in H. destruct H as [H|H].
    + destruct (h_act (c_prim cx) || (0 <? strong s (h_id (c_prim cx)))); [destruct fp|]; cbn [fst In] in H;
        try destruct H as [<-|[]]; try destruct H; left; eexists; reflexivity.
    + destruct H as [<-|[]]. right; eexists; reflexivity.
Qed.

Lemma handle_consts s e :
  let s1 := fst (handle_ev s e) in
  s_now s1 = s_now s /\ s_T s1 = s_T s /\ s_ka s1 = s_ka s /\ s_act s1 = s_act s.
Proof.
  destruct e; cbn [handle_ev]; unfold on_established, on_closed, on_open, on_open_full, sub_opened, activity, add_chan;
    dmatch; st_simpl; cbn [fst]; st_simpl; auto.
Qed.

Lemma handle_trk s e : trk_after s (fst (handle_ev s e)) (ka_activity_of s e) e.
Proof.
  destruct e; cbn [handle_ev ka_activity_of]; unfold trk_after.
  - cbn [fst]. auto.
  - (* EEst *) unfold on_established. rewrite add_chan_ctxs.
    destruct (find_ctx p (s_ctxs s)) as [cx|].
    + destruct (c_sec cx).
      * cbn [fst]. rewrite add_chan_timers, add_chan_last. auto.
      * cbn [fst]. st_simpl. rewrite activity_last. unfold activity.
        rewrite add_chan_last, add_chan_now, add_chan_timers, add_chan_T.
        destruct (kfind (p, c) (s_last s)); st_simpl; rewrite ?add_chan_timers; auto.
    + cbn [fst]. unfold activity. st_simpl.
      rewrite add_chan_last, add_chan_now, add_chan_timers, add_chan_T.
      destruct (kfind (p, c) (s_last s)); st_simpl; auto.
  - (* EClosed *) unfold on_closed. dmatch; cbn [fst]; st_simpl; auto.
  - (* ESubIn *) destruct (0 <? strong s c); cbn [fst andb]; [|auto].
    unfold sub_opened. destruct (m && s_ka s) eqn:MK.
    + st_simpl. rewrite activity_ka. unfold activity.
      destruct (kfind (p, c) (s_last s)); st_simpl; dmatch; st_simpl; auto.
    + dmatch; st_simpl; auto.
  - (* ESubOut *) destruct (pfind id (s_pend s)) as [[p c]|] eqn:PF.
    + cbn [fst]. unfold sub_opened. st_simpl. destruct (m && s_ka s) eqn:MK.
      * st_simpl. rewrite activity_ka. unfold activity. st_simpl.
        destruct (kfind (p, c) (s_last s)); st_simpl; dmatch; st_simpl; auto.
      * dmatch; st_simpl; auto.
    + cbn [fst]. destruct (m && s_ka s); auto.
  - cbn [fst]. st_simpl. auto.
  - cbn [fst]. auto.
  - (* EOpen *) unfold on_open. destruct (find_ctx p (s_ctxs s)) as [cx|]; [|cbn [fst]; auto].
    destruct (h_act (c_prim cx) || (0 <? strong s (h_id (c_prim cx)))); cbn [andb fst]; [|auto].
    st_simpl. destruct (s_ka s) eqn:KA.
    + st_simpl. unfold activity. st_simpl.
      destruct (kfind (p, h_id (c_prim cx)) (s_last s)); st_simpl; auto.
    + st_simpl. auto.
  - dmatch; cbn [fst]; st_simpl; auto.
  - dmatch; cbn [fst]; st_simpl; auto.
  - dmatch; cbn [fst]; st_simpl; auto.
  - cbn [fst]. st_simpl. auto.
  - dmatch; cbn [fst]; st_simpl; auto.
  - (* EOpenFull *) unfold on_open_full. destruct (find_ctx p (s_ctxs s)) as [cx|]; [|cbn [fst]; auto].
    destruct (h_act (c_prim cx) || (0 <? strong s (h_id (c_prim cx)))); cbn [andb fst]; [|auto].
    st_simpl. destruct (s_ka s) eqn:KA.
    + st_simpl. unfold activity. st_simpl.
      destruct (kfind (p, h_id (c_prim cx)) (s_last s)); st_simpl; auto.
    + st_simpl. auto.
  - (* EForce *) cbn [fst]. auto.
Qed.

(* ------------------------------------------------------------------ C09: tracker invariant *)
Definition inv_t (s : st) : Prop :=
  (forall k t, kfind k (s_last s) = Some t -> t <= s_now s /\ kfind k (s_act s) = Some t) /\
  (forall k t, kfind k (s_last s) = Some t ->
               exists due, In (k, due) (s_timers s) /\ due <= t + s_T s).

Lemma inv_t_init ka T n : inv_t (init ka T n).
Proof. split; intros k t H; cbn in H; discriminate. Qed.

Lemma inv_t_mid s dt e : inv_t s -> inv_t (fst (mid s dt e)).
Proof.
  intros [I1 I2]. unfold mid.
  set (s0 := with_now s (s_now s + dt)).
  assert (J1 : forall k t, kfind k (s_last s0) = Some t -> t <= s_now s0 /\ kfind k (s_act s0) = Some t).
  { intros k t H. subst s0. st_simpl. destruct (I1 k t H). split; [lia | auto]. }
  assert (J2 : forall k t, kfind k (s_last s0) = Some t ->
               exists due, In (k, due) (s_timers s0) /\ due <= t + s_T s0).
  { intros k t H. subst s0. st_simpl. apply I2; auto. }
  clearbody s0. clear I1 I2.
  pose proof (handle_consts s0 e) as C. pose proof (handle_trk s0 e) as TR.
  destruct (handle_ev s0 e) as [s1 o1]. cbn [fst] in *.
  destruct C as [Cn [CT [Ck Ca]]].
  unfold trk_after in TR. destruct (ka_activity_of s0 e) as [k0|].
  - destruct TR as [TL TT]. split; intros k t H; st_simpl; rewrite TL, kfind_kset in H.
    + rewrite Cn, Ca, kfind_kset. destruct (key_eqb k0 k).
      * inversion H; subst. split; [lia | reflexivity].
      * apply J1; auto.
    + rewrite TT, CT. destruct (key_eqb k0 k) eqn:E.
      * apply key_eqb_eq in E. subst k0. inversion H; subst t.
        destruct (kfind k (s_last s0)) as [t0|] eqn:F.
        -- destruct (J2 k t0 F) as [due [D1 D2]]. destruct (J1 k t0 F) as [L _].
           exists due. split; [exact D1 | lia].
        -- exists (s_now s0 + s_T s0). split; [apply in_or_app; right; left; reflexivity | lia].
      * destruct (J2 k t H) as [due [D1 D2]]. exists due. split; [|exact D2].
        destruct (kfind k0 (s_last s0)); [exact D1 | apply in_or_app; left; exact D1].
  - destruct TR as [TT TL].
    assert (SUB : forall k t, kfind k (s_last s1) = Some t -> kfind k (s_last s0) = Some t).
    { intros k t H. rewrite TL in H. destruct e; auto. eapply kfind_kdel_some; eauto. }
    split; intros k t H; apply SUB in H.
    + rewrite Cn, Ca. auto.
    + rewrite TT, CT. auto.
Qed.

Lemma poll_consts s :
  let s' := fst (poll_timers s) in
  s_now s' = s_now s /\ s_T s' = s_T s /\ s_ka s' = s_ka s /\ s_act s' = s_act s /\
  s_next s' = s_next s /\ s_pend s' = s_pend s /\ s_chans s' = s_chans s.
Proof.
  unfold poll_timers. destruct (fire (s_T s) (s_now s) (s_timers s) (s_last s)) as [[ts la] ex].
  destruct (downgrade_all (s_ctxs s) ex) as [cs os]. cbn [fst]. st_simpl. auto 10.
Qed.

Lemma inv_t_poll s : inv_t s -> inv_t (fst (poll_timers s)).
Proof.
  intros [I1 I2]. unfold poll_timers.
  pose proof (fire_last_sub (s_T s) (s_now s) (s_timers s) (s_last s)) as SUB.
  pose proof (fire_keeps (s_T s) (s_now s) (s_timers s) (s_last s)) as KEEP.
  destruct (fire (s_T s) (s_now s) (s_timers s) (s_last s)) as [[ts la] ex].
  destruct (downgrade_all (s_ctxs s) ex) as [cs os]. cbn [fst snd] in *. st_simpl.
  split; intros k t H; st_simpl.
  - apply I1. apply SUB. exact H.
  - pose proof (SUB k t H) as H0. destruct (I2 k t H0) as [due [D1 D2]].
    destruct (I1 k t H0) as [L _].
    destruct (KEEP k t due H D1) as [due' [K1 [K2|[K2 K3]]]]; exists due'; split; auto; lia.
Qed.

Lemma inv_t_step s dt e : inv_t s -> inv_t (fst (step s dt e)).
Proof.
  intros I. rewrite step_mid. pose proof (inv_t_mid s dt e I) as M.
  destruct (mid s dt e) as [s1 o1]. cbn [fst] in M.
  pose proof (inv_t_poll s1 M) as P. destruct (poll_timers s1) as [s2 o2]. exact P.
Qed.
Lemma inv_t_final tr : forall s, inv_t s -> inv_t (final s tr).
Proof.
  induction tr as [|[dt e] tr IH]; intros s I; cbn [final]; [exact I|].
  apply IH. apply inv_t_step. exact I.
Qed.

Lemma handle_no_down s e p c : ~ In (ODown p c) (snd (handle_ev s e)).
Proof.
  destruct e; try (cbn [handle_ev]; unfold on_established, on_closed, on_open, on_open_full;
    dmatch; cbn [snd In]; intuition discriminate).
  cbn [handle_ev snd]. intros H. apply force_outs_kind in H. destruct H as [[x H]|[x H]]; discriminate.
Qed.

(* not-before: a downgrade happens only when the last keep-alive activity (ghost log) is at
   least T old *)
Lemma not_before_step s dt e p c :
  inv_t s -> In (ODown p c) (snd (step s dt e)) ->
  exists t, kfind (p, c) (s_act (fst (step s dt e))) = Some t /\
            t + s_T (fst (step s dt e)) <= s_now (fst (step s dt e)).
Proof.
  intros I. rewrite step_mid. pose proof (inv_t_mid s dt e I) as [M1 _].
  pose proof (handle_no_down (with_now s (s_now s + dt)) e p c) as ND.
  unfold mid in *. destruct (handle_ev (with_now s (s_now s + dt)) e) as [s1 o1]. cbn [fst snd] in *.
  set (sm := match ka_activity_of (with_now s (s_now s + dt)) e with
             | Some k => with_act s1 (kset k (s_now s1) (s_act s1)) | None => s1 end) in *.
  clearbody sm. pose proof (poll_consts sm) as PC. unfold poll_timers in *.
  pose proof (fire_ex (s_T sm) (s_now sm) (s_timers sm) (s_last sm)) as EX.
  destruct (fire (s_T sm) (s_now sm) (s_timers sm) (s_last sm)) as [[ts la] ex].
  pose proof (downgrade_all_outs ex (s_ctxs sm)) as DO.
  destruct (downgrade_all (s_ctxs sm) ex) as [cs os]. cbn [fst snd] in *. st_simpl.
  intros H. apply in_app_or in H. destruct H as [H|H]; [contradiction|].
  destruct (DO _ H) as [k [K1 K2]]. inversion K2; subst p c.
  destruct (EX k K1) as [t [T1 T2]]. destruct (M1 k t T1) as [L A].
  exists t. destruct k as [kp kc]. cbn [fst snd]. split; [exact A | lia].
Qed.

(* closes: a poll at or after last + T untracks the key and leaves its handle Inactive *)
Lemma closes_step s dt k t :
  inv_t s -> kfind k (s_last s) = Some t -> t + s_T s <= s_now s + dt ->
  kfind k (s_last (fst (step s dt ENone))) = None /\
  handle_active (s_ctxs (fst (step s dt ENone))) k = false.
Proof.
  intros [I1 I2] F LE. unfold step. cbn [handle_ev ka_activity_of]. unfold poll_timers. st_simpl.
  destruct (I2 k t F) as [due [D1 D2]].
  pose proof (fire_expires (s_T s) (s_now s + dt) (s_timers s) (s_last s) k due t D1) as EXP.
  destruct (fire (s_T s) (s_now s + dt) (s_timers s) (s_last s)) as [[ts la] ex].
  pose proof (downgrade_all_off ex (s_ctxs s) k) as OFF.
  destruct (downgrade_all (s_ctxs s) ex) as [cs os]. cbn [fst snd] in *. st_simpl.
  destruct EXP as [E1 E2]; [lia | exact F | lia |]. split; [exact E1 | apply OFF; exact E2].
Qed.

(* traffic of a protocol that is not keep-alive is no activity and upgrades nothing *)
Lemma handle_ctxs_noka s e :
  s_ka s = false -> (forall p c, e <> EEst p c) -> (forall p c, e <> EClosed p c) ->
  s_ctxs (fst (handle_ev s e)) = s_ctxs s /\ ka_activity_of s e = None.
Proof.
  intros KA N1 N2. destruct e; cbn [handle_ev ka_activity_of]; unfold on_open, on_open_full, sub_opened;
    rewrite ?KA, ?andb_false_r; st_simpl; rewrite ?KA;
    try (exfalso; eapply N1; reflexivity); try (exfalso; eapply N2; reflexivity);
    dmatch; cbn [fst]; st_simpl; rewrite ?KA in *; try discriminate;
    try match goal with H : _ && false = true |- _ => rewrite andb_false_r in H; discriminate H end; auto.
Qed.

Lemma non_keepalive_step s dt e :
  s_ka s = false -> (forall p c, e <> EEst p c) -> (forall p c, e <> EClosed p c) ->
  let s' := fst (step s dt e) in
  s_act s' = s_act s /\
  (forall k t, kfind k (s_last s') = Some t -> kfind k (s_last s) = Some t) /\
  (forall k, handle_active (s_ctxs s') k = true -> handle_active (s_ctxs s) k = true).
Proof.
  intros KA N1 N2. unfold step.
  set (s0 := with_now s (s_now s + dt)).
  assert (KA0 : s_ka s0 = false) by exact KA.
  pose proof (handle_ctxs_noka s0 e KA0 N1 N2) as [HC HG].
  pose proof (handle_consts s0 e) as C. pose proof (handle_trk s0 e) as TR.
  rewrite HG in *. destruct (handle_ev s0 e) as [s1 o1]. cbn [fst] in *.
  destruct C as [Cn [CT [Ck Ca]]]. destruct TR as [TT TL].
  unfold poll_timers.
  pose proof (fire_last_sub (s_T s1) (s_now s1) (s_timers s1) (s_last s1)) as SUB.
  destruct (fire (s_T s1) (s_now s1) (s_timers s1) (s_last s1)) as [[ts la] ex].
  pose proof (downgrade_all_mono ex (s_ctxs s1)) as MONO.
  destruct (downgrade_all (s_ctxs s1) ex) as [cs os]. cbn [fst snd] in *. st_simpl.
  split; [exact Ca|]. split.
  - intros k t H. apply SUB in H. rewrite TL in H. destruct e; auto. exfalso; eapply N2; reflexivity.
  - intros k H. apply MONO in H. rewrite HC in H. exact H.
Qed.

(* reference counting: a permit in flight or a live keep-alive substream keeps the channel open *)
Lemma busy_strong s c : 0 < pend_on c (s_pend s) \/ 0 < ch_held_of c (s_chans s) -> 0 < strong s c.
Proof. unfold strong. intros [H|H]; destruct (svc_strong (s_ctxs s) c); lia. Qed.
Lemma idle_strong s c :
  svc_strong (s_ctxs s) c = false -> pend_on c (s_pend s) = 0 -> ch_held_of c (s_chans s) = 0 ->
  ch_other_of c (s_chans s) = 0 -> strong s c = 0.
Proof. unfold strong. intros -> -> -> ->. reflexivity. Qed.

(* ------------------------------------------------------------------ C08: substream ids *)
Definition ret_ids (os : list out) : list N :=
  flat_map (fun o => match o with ORet 0 id => [id] | _ => [] end) os.

Lemma flat_map_nil {A B} (f : A -> list B) l : (forall x, In x l -> f x = []) -> flat_map f l = [].
Proof.
  induction l as [|h t IH]; intros H; cbn [flat_map]; [reflexivity|].
  rewrite (H h (or_introl eq_refl)), IH; [reflexivity | intros x Hx; apply H; right; exact Hx].
Qed.

Lemma poll_outs_down s o : In o (snd (poll_timers s)) -> exists p c, o = ODown p c.
Proof.
  unfold poll_timers. destruct (fire (s_T s) (s_now s) (s_timers s) (s_last s)) as [[ts la] ex].
  pose proof (downgrade_all_outs ex (s_ctxs s) o) as DO.
  destruct (downgrade_all (s_ctxs s) ex) as [cs os]. cbn [snd] in *.
  intros H. destruct (DO H) as [k [_ E]]. eauto.
Qed.

(* how the shared counter moves in one handler: by d <= draw_of e, modulo 2^64; an id is returned
   only when exactly one is drawn, and it is the counter's value before *)
Lemma handle_draw s e :
  s_next s < ID_MOD ->
  exists d, d <= draw_of e /\
            s_next (fst (handle_ev s e)) = (s_next s + d) mod ID_MOD /\
            (ret_ids (snd (handle_ev s e)) = [] \/
             (ret_ids (snd (handle_ev s e)) = [s_next s] /\ d = 1)).
Proof.
  intros LT.
  assert (Z : forall s1 os, s_next s1 = s_next s -> ret_ids os = [] ->
              exists d, d <= draw_of e /\ s_next s1 = (s_next s + d) mod ID_MOD /\
                        (ret_ids os = [] \/ (ret_ids os = [s_next s] /\ d = 1))).
  { intros s1 os H1 H2. exists 0. rewrite N.add_0_r, N.mod_small by exact LT.
    split; [apply N.le_0_l|]. split; [exact H1 | left; exact H2]. }
  destruct e; cbn [handle_ev]; unfold on_established, on_closed, sub_opened;
    try (dmatch; cbn [fst snd]; (apply Z; [st_simpl; rewrite ?activity_next, ?add_chan_next; st_simpl;
                                            rewrite ?activity_next, ?add_chan_next; reflexivity | reflexivity])).
  - (* EOpen *)
    unfold on_open. destruct (find_ctx p (s_ctxs s)) as [cx|]; [|cbn [fst snd]; apply Z; reflexivity].
    destruct (h_act (c_prim cx) || (0 <? strong s (h_id (c_prim cx)))); [|cbn [fst snd]; apply Z; reflexivity].
    cbn [fst snd draw_of]. exists 1. split; [apply N.le_refl|]. split.
    + st_simpl. destruct (s_ka s); st_simpl; rewrite ?activity_next; reflexivity.
    + right. split; reflexivity.
  - (* EBump *)
    cbn [fst snd draw_of]. exists n. split; [apply N.le_refl|]. split; [reflexivity | left; reflexivity].
  - (* EOpenFull *)
    unfold on_open_full. destruct (find_ctx p (s_ctxs s)) as [cx|]; [|cbn [fst snd]; apply Z; reflexivity].
    destruct (h_act (c_prim cx) || (0 <? strong s (h_id (c_prim cx)))); [|cbn [fst snd]; apply Z; reflexivity].
    cbn [fst snd draw_of]. exists 1. split; [apply N.le_refl|]. split.
    + st_simpl. destruct (s_ka s); st_simpl; rewrite ?activity_next; reflexivity.
    + left. reflexivity.
  - (* EForce *)
    cbn [fst snd]. apply Z; [reflexivity|]. apply flat_map_nil. intros x H.
    apply force_outs_kind in H. destruct H as [[y ->]|[y ->]]; reflexivity.
Qed.

Lemma step_draw s dt e :
  s_next s < ID_MOD ->
  exists d, d <= draw_of e /\
            s_next (fst (step s dt e)) = (s_next s + d) mod ID_MOD /\
            (ret_ids (snd (step s dt e)) = [] \/
             (ret_ids (snd (step s dt e)) = [s_next s] /\ d = 1)).
Proof.
  intros LT. unfold step. set (s0 := with_now s (s_now s + dt)).
  assert (LT0 : s_next s0 < ID_MOD) by exact LT.
  pose proof (handle_draw s0 e LT0) as HR. destruct (handle_ev s0 e) as [s1 o1]. cbn [fst snd] in HR.
  set (sm := match ka_activity_of s0 e with
             | Some k => with_act s1 (kset k (s_now s1) (s_act s1)) | None => s1 end).
  assert (NM : s_next sm = s_next s1) by (subst sm; destruct (ka_activity_of s0 e); reflexivity).
  pose proof (poll_consts sm) as PC. pose proof (poll_outs_down sm) as PD.
  destruct (poll_timers sm) as [s2 o2]. cbn [fst snd] in *.
  destruct PC as [_ [_ [_ [_ [PN _]]]]].
  assert (R2 : ret_ids o2 = []).
  { apply flat_map_nil. intros x Hx. destruct (PD x Hx) as [p [c ->]]. reflexivity. }
  unfold ret_ids in *. rewrite flat_map_app, R2, app_nil_r, PN, NM.
  subst s0. st_simpl. exact HR.
Qed.

Lemma step_next_lt s dt e : s_next s < ID_MOD -> s_next (fst (step s dt e)) < ID_MOD.
Proof.
  intros LT. destruct (step_draw s dt e LT) as [d [_ [E _]]]. rewrite E.
  apply N.mod_lt. discriminate.
Qed.

(* the counter does not wrap in this step *)
Definition nowrap1 (s : st) (e : ev) : Prop := s_next s + draw_of e < ID_MOD.

Lemma step_ret s dt e :
  nowrap1 s e ->
  (ret_ids (snd (step s dt e)) = [] /\ s_next s <= s_next (fst (step s dt e))) \/
  (ret_ids (snd (step s dt e)) = [s_next s] /\ s_next (fst (step s dt e)) = s_next s + 1).
Proof.
  intros NW. unfold nowrap1 in NW.
  assert (LT : s_next s < ID_MOD) by lia.
  destruct (step_draw s dt e LT) as [d [D [E R]]].
  rewrite N.mod_small in E by lia.
  destruct R as [R|[R ->]]; [left | right]; split; auto; lia.
Qed.

(* a history in which the counter never wraps *)
Fixpoint nowrap (s : st) (tr : list (N * ev)) : Prop :=
  match tr with
  | [] => True
  | (dt, e) :: t => nowrap1 s e /\ nowrap (fst (step s dt e)) t
  end.

Lemma ids_sorted tr : forall s,
  nowrap s tr ->
  StronglySorted N.lt (ret_ids (concat (run s tr))) /\
  Forall (fun i => s_next s <= i) (ret_ids (concat (run s tr))).
Proof.
  induction tr as [|[dt e] tr IH]; intros s NW; cbn [run].
  - cbn. split; constructor.
  - cbn [nowrap] in NW. destruct NW as [NW1 NW2].
    pose proof (step_ret s dt e NW1) as SR. destruct (step s dt e) as [s' os]. cbn [fst snd] in *.
    cbn [concat]. unfold ret_ids in *. rewrite flat_map_app.
    destruct (IH s' NW2) as [S F].
    destruct SR as [[R N]|[R N]]; rewrite R; cbn [app].
    + split; [exact S|]. eapply Forall_impl; [|exact F]. cbn. intros a Ha. lia.
    + split.
      * constructor; [exact S|]. eapply Forall_impl; [|exact F]. cbn. intros a Ha. lia.
      * constructor; [lia|]. eapply Forall_impl; [|exact F]. cbn. intros a Ha. lia.
Qed.

(* ---- uniqueness across the wrap: in any history that draws at most 2^64 identifiers in total
        (sum of draw_of over its inputs), no returned identifier repeats ---- *)
Fixpoint draws (tr : list (N * ev)) : N :=
  match tr with [] => 0 | (_, e) :: t => draw_of e + draws t end.

Lemma mod_window_inj b x y w :
  x < y -> y < w -> w <= ID_MOD -> (b + x) mod ID_MOD <> (b + y) mod ID_MOD.
Proof.
  intros XY YW WM E.
  assert (MZ : ID_MOD <> 0) by discriminate.
  pose proof (N.div_mod (b + x) ID_MOD MZ) as Dx. pose proof (N.div_mod (b + y) ID_MOD MZ) as Dy.
  rewrite E in Dx. set (r := (b + y) mod ID_MOD) in *. set (qx := (b + x) / ID_MOD) in *.
  set (qy := (b + y) / ID_MOD) in *.
  assert (Hd : y - x = ID_MOD * qy - ID_MOD * qx) by lia.
  assert (qx < qy) by (destruct (N.lt_ge_cases qx qy) as [L|G]; [exact L|]; assert (ID_MOD * qy <= ID_MOD * qx) by (apply N.mul_le_mono_l; exact G); lia).
  assert (ID_MOD * (qx + 1) <= ID_MOD * qy) by (apply N.mul_le_mono_l; lia). lia.
Qed.

Lemma ids_offsets tr : forall s b o,
  s_next s = (b + o) mod ID_MOD ->
  exists offs, ret_ids (concat (run s tr)) = map (fun x => (b + x) mod ID_MOD) offs /\
               StronglySorted N.lt offs /\
               Forall (fun x => o <= x /\ x < o + draws tr) offs.
Proof.
  induction tr as [|[dt e] tr IH]; intros s b o H; cbn [run draws].
  - exists []. cbn. repeat split; constructor.
  - assert (LT : s_next s < ID_MOD) by (rewrite H; apply N.mod_lt; discriminate).
    destruct (step_draw s dt e LT) as [d [D [E R]]].
    destruct (step s dt e) as [s' os]. cbn [fst snd concat] in *.
    assert (H' : s_next s' = (b + (o + d)) mod ID_MOD).
    { rewrite E, H, N.add_mod_idemp_l by discriminate. f_equal. lia. }
    destruct (IH s' b (o + d) H') as [offs [O1 [O2 O3]]].
    unfold ret_ids in *. rewrite flat_map_app, O1.
    destruct R as [R|[R ->]]; rewrite R; cbn [app].
    + exists offs. split; [reflexivity|]. split; [exact O2|].
      eapply Forall_impl; [|exact O3]. cbn. intros a [A1 A2]. lia.
    + exists (o :: offs). split; [cbn [map]; rewrite H; reflexivity|]. split.
      * constructor; [exact O2|]. eapply Forall_impl; [|exact O3]. cbn. intros a [A1 A2]. lia.
      * constructor; [lia|]. eapply Forall_impl; [|exact O3]. cbn. intros a [A1 A2]. lia.
Qed.

Lemma ids_unique_mod tr s :
  s_next s < ID_MOD -> draws tr <= ID_MOD -> NoDup (ret_ids (concat (run s tr))).
Proof.
  intros LT DR.
  assert (H : s_next s = (s_next s + 0) mod ID_MOD) by (rewrite N.add_0_r, N.mod_small; auto).
  destruct (ids_offsets tr s (s_next s) 0 H) as [offs [O1 [O2 O3]]]. rewrite O1.
  clear O1 H. induction O2 as [|x l SS IH FA]; cbn [map]; [constructor|].
  inversion O3; subst. constructor; [|apply IH; assumption].
  intros C. apply in_map_iff in C. destruct C as [y [E Hy]].
  rewrite Forall_forall in FA, H2. specialize (FA y Hy). destruct (H2 y Hy) as [_ Y2].
  symmetry in E. revert E. apply (mod_window_inj (s_next s) x y (0 + draws tr)); lia.
Qed.

(* ------------------------------------------------------------------ C08: the connection view *)
Definition conn_inv (e : env) (ctxs : list ctx) (pend : list (N * key)) : Prop :=
  (forall p, conn_ids ctxs p = live_of p (e_live e)) /\
  NoDup (map snd (e_live e)) /\
  incl (map snd (e_live e)) (e_used e) /\
  (forall id k, In (id, k) pend -> In k (e_live e)).

Inductive pev := PEst | PClosed | PSub.
Definition pev_of (p : N) (o : out) : list pev :=
  match o with
  | OEst q => if q =? p then [PEst] else []
  | OClosed q => if q =? p then [PClosed] else []
  | OSub q _ => if q =? p then [PSub] else []
  | OFail _ (Some q) => if q =? p then [PSub] else []
  | _ => []
  end.
Definition pevs (p : N) (os : list out) : list pev := flat_map (pev_of p) os.
(* Some b' : the stream is well-formed from connectedness b and ends in b' *)
Fixpoint wf_run (b : bool) (l : list pev) : option bool :=
  match l with
  | [] => Some b
  | PEst :: t => if b then None else wf_run true t
  | PClosed :: t => if b then wf_run false t else None
  | PSub :: t => if b then wf_run b t else None
  end.
Definition has_conn (p : N) (live : list key) : bool :=
  match live_of p live with [] => false | _ => true end.

Lemma wf_run_app b l1 l2 :
  wf_run b (l1 ++ l2) = match wf_run b l1 with Some b' => wf_run b' l2 | None => None end.
Proof.
  revert b. induction l1 as [|h t IH]; intros b; cbn [app wf_run]; [reflexivity|].
  destruct h, b; auto.
Qed.

Lemma live_of_app p live q c :
  live_of p (live ++ [(q, c)]) = live_of p live ++ (if q =? p then [c] else []).
Proof.
  unfold live_of. rewrite filter_app, map_app. cbn [filter fst]. destruct (q =? p); reflexivity.
Qed.
Lemma live_of_filter p live q c :
  live_of p (filter (fun k => negb (key_eqb k (q, c))) live) =
  if q =? p then filter (fun x => negb (x =? c)) (live_of p live) else live_of p live.
Proof.
  unfold live_of. destruct (q =? p) eqn:Qp.
  - apply N.eqb_eq in Qp. subst q.
    induction live as [|[a b] t IH]; [reflexivity|].
    cbn [filter]. unfold key_eqb at 1. cbn [fst snd].
    destruct (a =? p) eqn:Ap; cbn [andb].
    + destruct (b =? c) eqn:Bc; cbn [negb].
      * rewrite IH. cbn [map snd filter]. rewrite Bc. reflexivity.
      * cbn [filter fst]. rewrite Ap. cbn [map snd filter]. rewrite Bc. cbn [negb]. rewrite IH. reflexivity.
    + cbn [negb filter fst]. rewrite Ap. exact IH.
  - induction live as [|[a b] t IH]; [reflexivity|].
    cbn [filter]. unfold key_eqb at 1. cbn [fst snd].
    destruct (a =? p) eqn:Ap.
    + apply N.eqb_eq in Ap. subst a. rewrite (N.eqb_sym p q), Qp. cbn [andb negb filter fst].
      rewrite N.eqb_refl. cbn [map snd]. rewrite IH. reflexivity.
    + destruct ((a =? q) && (b =? c)); cbn [negb filter fst]; rewrite ?Ap; exact IH.
Qed.
Lemma In_live_of p c live : In c (live_of p live) <-> In (p, c) live.
Proof.
  unfold live_of. rewrite in_map_iff. split.
  - intros [[a b] [E H]]. apply filter_In in H. destruct H as [H1 H2]. cbn [fst snd] in *.
    apply N.eqb_eq in H2. subst. exact H1.
  - intros H. exists (p, c). split; [reflexivity|]. apply filter_In. split; [exact H | apply N.eqb_refl].
Qed.
Lemma NoDup_map_filter {A B} (g : A -> B) f l : NoDup (map g l) -> NoDup (map g (filter f l)).
Proof.
  induction l as [|h t IH]; cbn [map filter]; [auto|]. intros H. inversion H; subst.
  destruct (f h); cbn [map]; [constructor|]; auto.
  intros C. apply H2. apply in_map_iff in C. destruct C as [x [E Hx]]. apply filter_In in Hx.
  apply in_map_iff. exists x. split; [exact E | apply Hx].
Qed.
Lemma NoDup_live_of p live : NoDup (map snd live) -> NoDup (live_of p live).
Proof. apply NoDup_map_filter. Qed.
Lemma kmem_In k l : existsb (key_eqb k) l = true <-> In k l.
Proof.
  rewrite existsb_exists. split.
  - intros [x [H E]]. apply key_eqb_eq in E. subst. exact H.
  - intros H. exists k. split; [exact H | apply key_eqb_refl].
Qed.
Lemma pfind_In id l k : pfind id l = Some k -> In (id, k) l.
Proof.
  induction l as [|[i k0] t IH]; cbn [pfind]; [discriminate|].
  destruct (i =? id) eqn:E; [|right; auto].
  intros H. inversion H; subst. apply N.eqb_eq in E. subst. left; reflexivity.
Qed.
Lemma pdel_In id l x : In x (pdel id l) -> In x l.
Proof. unfold pdel. intros H. apply filter_In in H. apply H. Qed.

Lemma NoDup_snoc {A} (l : list A) x : NoDup l -> ~ In x l -> NoDup (l ++ [x]).
Proof.
  induction l as [|h t IH]; intros ND NI; cbn [app]; [constructor; [intros []|constructor]|].
  inversion ND; subst. constructor.
  - intros C. apply in_app_or in C. destruct C as [C|[C|[]]]; [contradiction|]. subst. apply NI. left; reflexivity.
  - apply IH; [assumption|]. intros C. apply NI. right; exact C.
Qed.

Lemma conn_inv_same e c c' pend pend' :
  (forall p, conn_ids c' p = conn_ids c p) -> (forall x, In x pend' -> In x pend) ->
  conn_inv e c pend -> conn_inv e c' pend'.
Proof.
  intros H1 H2 [I1 [I2 [I3 I4]]]. split; [|split; [|split]]; auto.
  - intros p. rewrite H1. apply I1.
  - intros id k H. apply (I4 id). apply H2. exact H.
Qed.

Lemma sub_opened_view s p c m :
  (forall q, conn_ids (s_ctxs (sub_opened s p c m)) q = conn_ids (s_ctxs s) q) /\
  s_pend (sub_opened s p c m) = s_pend s.
Proof.
  unfold sub_opened. dmatch; st_simpl; rewrite ?activity_ctxs, ?activity_pend; split; auto;
    intros q; rewrite ?conn_ids_set_active; reflexivity.
Qed.

Lemma has_conn_in p c live : In (p, c) live -> has_conn p live = true.
Proof.
  intros H. apply In_live_of in H. unfold has_conn. destruct (live_of p live); [destruct H | reflexivity].
Qed.

Lemma handle_conn e s i :
  conn_inv e (s_ctxs s) (s_pend s) -> ev_ok 2 e s i = true ->
  conn_inv (env_step e i) (s_ctxs (fst (handle_ev s i))) (s_pend (fst (handle_ev s i))) /\
  forall q, wf_run (has_conn q (e_live e)) (pevs q (snd (handle_ev s i))) =
            Some (has_conn q (e_live (env_step e i))).
Proof.
  intros INV OK. pose proof INV as [I1 [I2 [I3 I4]]].
  destruct i; cbn [handle_ev ev_ok env_step] in *.
  - (* ENone *) split; [exact INV | intros q; reflexivity].
  - (* EEst *)
    apply andb_true_iff in OK. destruct OK as [FRESH CAP].
    apply negb_true_iff in FRESH. apply Nat.ltb_lt in CAP.
    assert (NU : ~ In c (e_used e)).
    { intros C. assert (existsb (N.eqb c) (e_used e) = true); [|congruence].
      apply existsb_exists. exists c. split; [exact C | apply N.eqb_refl]. }
    assert (ND' : NoDup (map snd (e_live e ++ [(p, c)]))).
    { rewrite map_app. cbn [map snd]. apply NoDup_snoc; [exact I2|].
      intros C. apply NU. apply I3. exact C. }
    assert (IN' : incl (map snd (e_live e ++ [(p, c)])) (c :: e_used e)).
    { rewrite map_app. cbn [map snd]. intros x Hx. apply in_app_or in Hx. destruct Hx as [Hx|[Hx|[]]].
      - right. apply I3. exact Hx.
      - left. exact Hx. }
    unfold on_established. rewrite add_chan_ctxs.
    pose proof (I1 p) as Ip. unfold conn_ids in Ip.
    destruct (find_ctx p (s_ctxs s)) as [cx|] eqn:F.
    + pose proof (find_ctx_peer _ _ _ F) as PE.
      destruct (c_sec cx) as [h|] eqn:S.
      * exfalso. unfold ids_of in Ip. rewrite S in Ip. rewrite <- Ip in CAP. cbn in CAP. lia.
      * cbn [fst snd]. st_simpl. rewrite activity_ctxs, activity_pend, add_chan_ctxs, add_chan_pend.
        split.
        -- split; [|split; [|split]]; cbn [e_live e_used]; auto.
           ++ intros q. rewrite live_of_app. unfold conn_ids. rewrite find_set_ctx. cbn [c_peer].
              destruct (p =? q) eqn:E.
              ** apply N.eqb_eq in E. subst q. unfold ids_of in *. cbn [c_prim c_sec h_id].
                 rewrite S in Ip. rewrite <- Ip. reflexivity.
              ** rewrite app_nil_r. apply I1.
           ++ intros id k H. apply in_or_app. left. eapply I4; eauto.
        -- intros q. cbn [pevs flat_map wf_run e_live]. unfold has_conn. rewrite live_of_app.
           destruct (p =? q) eqn:E; [|rewrite app_nil_r; reflexivity].
           apply N.eqb_eq in E. subst q. rewrite <- Ip. reflexivity.
    + cbn [fst snd]. rewrite activity_ctxs, activity_pend. st_simpl. rewrite ?add_chan_ctxs, ?add_chan_pend.
      split.
      * split; [|split; [|split]]; cbn [e_live e_used]; auto.
        -- intros q. rewrite live_of_app. unfold conn_ids. rewrite find_app_ctx. cbn [c_peer].
           destruct (p =? q) eqn:E.
           ++ apply N.eqb_eq in E. subst q. rewrite F, <- Ip. reflexivity.
           ++ rewrite app_nil_r. specialize (I1 q). unfold conn_ids in I1.
              destruct (find_ctx q (s_ctxs s)); exact I1.
        -- intros id k H. apply in_or_app. left. eapply I4; eauto.
      * intros q. cbn [pevs flat_map pev_of e_live]. unfold has_conn. rewrite live_of_app.
        destruct (p =? q) eqn:E; cbn [app wf_run]; [|rewrite app_nil_r; reflexivity].
        apply N.eqb_eq in E. subst q. rewrite <- Ip. reflexivity.
  - (* EClosed *)
    apply kmem_In in OK. pose proof (proj2 (In_live_of p c (e_live e)) OK) as INC.
    assert (ND' : NoDup (map snd (filter (fun k => negb (key_eqb k (p, c))) (e_live e))))
      by (apply NoDup_map_filter; exact I2).
    assert (IN' : incl (map snd (filter (fun k => negb (key_eqb k (p, c))) (e_live e))) (e_used e)).
    { intros x Hx. apply I3. apply in_map_iff in Hx. destruct Hx as [y [E Hy]].
      apply filter_In in Hy. apply in_map_iff. exists y. split; [exact E | apply Hy]. }
    assert (PD : forall id k, In (id, k) (filter (fun x : N * key => negb (snd (snd x) =? c)) (s_pend s)) ->
                 In k (filter (fun k0 => negb (key_eqb k0 (p, c))) (e_live e))).
    { intros id k H. apply filter_In in H. destruct H as [H1 H2]. cbn [snd] in H2.
      apply filter_In. split; [eapply I4; eauto|].
      apply negb_true_iff in H2. apply negb_true_iff. apply key_eqb_neq. intros ->.
      cbn [snd] in H2. rewrite N.eqb_refl in H2. discriminate. }
    pose proof (NoDup_live_of p _ I2) as NDp.
    unfold on_closed. st_simpl.
    set (pend' := filter (fun x : N * key => negb (snd (snd x) =? c)) (s_pend s)) in *.
    match goal with |- context [find_ctx p (s_ctxs ?S)] => set (s' := S) end.
    assert (C1 : s_ctxs s' = s_ctxs s) by (subst s'; st_simpl; destruct (find_ch c (s_chans s)); reflexivity).
    assert (C2 : s_pend s' = pend') by (subst s'; st_simpl; destruct (find_ch c (s_chans s)); reflexivity).
    clearbody s'. rewrite C1.
    pose proof (I1 p) as Ip. unfold conn_ids in Ip.
    destruct (find_ctx p (s_ctxs s)) as [cx|] eqn:F; [|rewrite <- Ip in INC; destruct INC].
    pose proof (find_ctx_peer _ _ _ F) as PE.
    assert (HC : has_conn p (e_live e) = true) by (eapply has_conn_in; eauto).
    destruct (h_id (c_prim cx) =? c) eqn:EP.
    + apply N.eqb_eq in EP. destruct (c_sec cx) as [h|] eqn:S.
      * (* promotion *)
        unfold ids_of in Ip. rewrite S in Ip.
        assert (NE : h_id h <> c).
        { rewrite <- Ip in NDp. inversion NDp; subst. intros E. apply H1. left. congruence. }
        cbn [fst snd]. st_simpl. rewrite ?C1, ?C2. split.
        -- split; [|split; [|split]]; cbn [e_live e_used]; auto.
           intros q. rewrite live_of_filter. unfold conn_ids. rewrite find_set_ctx. cbn [c_peer].
           destruct (p =? q) eqn:E.
           ++ apply N.eqb_eq in E. subst q. rewrite <- Ip. cbn [filter ids_of c_prim c_sec].
              rewrite EP, N.eqb_refl. cbn [negb].
              apply N.eqb_neq in NE. rewrite NE. reflexivity.
           ++ apply I1.
        -- intros q. cbn [pevs flat_map wf_run e_live]. unfold has_conn. rewrite live_of_filter.
           destruct (p =? q) eqn:E; [|reflexivity].
           apply N.eqb_eq in E. subst q. rewrite <- Ip. cbn [filter]. rewrite EP, N.eqb_refl. cbn [negb].
           apply N.eqb_neq in NE. rewrite NE. reflexivity.
      * unfold ids_of in Ip. rewrite S in Ip.
        cbn [fst snd]. st_simpl. rewrite ?C1, ?C2. split.
        -- split; [|split; [|split]]; cbn [e_live e_used]; auto.
           intros q. rewrite live_of_filter. unfold conn_ids. rewrite find_del_ctx.
           destruct (p =? q) eqn:E.
           ++ apply N.eqb_eq in E. subst q. rewrite <- Ip. cbn [filter]. rewrite EP, N.eqb_refl. reflexivity.
           ++ apply I1.
        -- intros q. cbn [pevs flat_map pev_of e_live]. unfold has_conn at 2. rewrite live_of_filter.
           destruct (p =? q) eqn:E; cbn [app wf_run].
           ++ apply N.eqb_eq in E. subst q. rewrite HC. rewrite <- Ip. cbn [filter].
              rewrite EP, N.eqb_refl. reflexivity.
           ++ reflexivity.
    + (* the secondary closed *)
      unfold ids_of in Ip. destruct (c_sec cx) as [h|] eqn:S.
      * rewrite <- Ip in INC. destruct INC as [E|[E|[]]]; [apply N.eqb_neq in EP; contradiction|].
        cbn [fst snd]. st_simpl. rewrite ?C1, ?C2. split.
        -- split; [|split; [|split]]; cbn [e_live e_used]; auto.
           intros q. rewrite live_of_filter. unfold conn_ids. rewrite find_set_ctx. cbn [c_peer].
           destruct (p =? q) eqn:E'.
           ++ apply N.eqb_eq in E'. subst q. rewrite <- Ip. cbn [filter ids_of c_prim c_sec].
              rewrite EP, E, N.eqb_refl. reflexivity.
           ++ apply I1.
        -- intros q. cbn [pevs flat_map wf_run e_live]. unfold has_conn. rewrite live_of_filter.
           destruct (p =? q) eqn:E'; [|reflexivity].
           apply N.eqb_eq in E'. subst q. rewrite <- Ip. cbn [filter]. rewrite EP. reflexivity.
      * rewrite <- Ip in INC. destruct INC as [E|[]]. apply N.eqb_neq in EP. contradiction.
  - (* ESubIn *)
    apply kmem_In in OK. destruct (0 <? strong s c); cbn [fst snd].
    + destruct (sub_opened_view s p c m) as [V1 V2]. split.
      * eapply conn_inv_same; [exact V1 | rewrite V2; intros x Hx; exact Hx | exact INV].
      * intros q. cbn [pevs flat_map pev_of]. destruct (p =? q) eqn:E; cbn [app wf_run]; [|reflexivity].
        apply N.eqb_eq in E. subst q. rewrite (has_conn_in _ _ _ OK). reflexivity.
    + split; [exact INV | intros q; reflexivity].
  - (* ESubOut *)
    destruct (pfind id (s_pend s)) as [[p c]|] eqn:PF; [|discriminate]. cbn [fst snd].
    pose proof (I4 _ _ (pfind_In _ _ _ PF)) as LIVE.
    destruct (sub_opened_view (with_pend s (pdel id (s_pend s))) p c m) as [V1 V2]. st_simpl. split.
    + eapply conn_inv_same; [exact V1 | rewrite V2; apply pdel_In | exact INV].
    + intros q. cbn [pevs flat_map pev_of]. destruct (p =? q) eqn:E; cbn [app wf_run]; [|reflexivity].
      apply N.eqb_eq in E. subst q. rewrite (has_conn_in _ _ _ LIVE). reflexivity.
  - (* ESubFail *)
    destruct (pfind id (s_pend s)) as [[p c]|] eqn:PF; [|discriminate]. cbn [fst snd option_map]. st_simpl.
    pose proof (I4 _ _ (pfind_In _ _ _ PF)) as LIVE. split.
    + eapply conn_inv_same; [reflexivity | apply pdel_In | exact INV].
    + intros q. cbn [pevs flat_map pev_of]. destruct (p =? q) eqn:E; cbn [app wf_run]; [|reflexivity].
      apply N.eqb_eq in E. subst q. rewrite (has_conn_in _ _ _ LIVE). reflexivity.
  - split; [exact INV | intros q; reflexivity].
  - (* EOpen *)
    unfold on_open. pose proof (I1 p) as Ip. unfold conn_ids in Ip.
    destruct (find_ctx p (s_ctxs s)) as [cx|] eqn:F; [|split; [exact INV | intros q; reflexivity]].
    destruct (h_act (c_prim cx) || (0 <? strong s (h_id (c_prim cx))));
      [|split; [exact INV | intros q; reflexivity]].
    cbn [fst snd]. st_simpl. split; [|intros q; reflexivity].
    assert (LIVE : In (p, h_id (c_prim cx)) (e_live e)).
    { apply In_live_of. rewrite <- Ip. left. reflexivity. }
    pose proof (find_ctx_peer _ _ _ F) as PE.
    destruct (s_ka s); st_simpl; rewrite ?activity_ctxs, ?activity_pend; st_simpl.
    + split; [|split; [|split]]; auto.
      * intros q. rewrite <- I1. unfold conn_ids. rewrite find_set_ctx. cbn [c_peer].
        destruct (p =? q) eqn:E; [|reflexivity]. apply N.eqb_eq in E. subst q. rewrite F. reflexivity.
      * intros id k H. apply in_app_or in H. destruct H as [H|[H|[]]]; [eapply I4; eauto|].
        inversion H; subst. exact LIVE.
    + split; [|split; [|split]]; auto.
      intros id k H. apply in_app_or in H. destruct H as [H|[H|[]]]; [eapply I4; eauto|].
      inversion H; subst. exact LIVE.
  - dmatch; cbn [fst snd]; st_simpl; (split; [exact INV | intros q; reflexivity]).
  - dmatch; cbn [fst snd]; st_simpl; (split; [exact INV | intros q; reflexivity]).
  - dmatch; cbn [fst snd]; st_simpl; (split; [exact INV | intros q; reflexivity]).
  - cbn [fst snd]; st_simpl; (split; [exact INV | intros q; reflexivity]).
  - dmatch; cbn [fst snd]; st_simpl; (split; [exact INV | intros q; reflexivity]).
  - (* EOpenFull *)
    unfold on_open_full. destruct (find_ctx p (s_ctxs s)) as [cx|] eqn:F; [|split; [exact INV | intros q; reflexivity]].
    destruct (h_act (c_prim cx) || (0 <? strong s (h_id (c_prim cx))));
      [|split; [exact INV | intros q; reflexivity]].
    cbn [fst snd]. split; [|intros q; reflexivity].
    pose proof (find_ctx_peer _ _ _ F) as PE.
    st_simpl. destruct (s_ka s); st_simpl; rewrite ?activity_ctxs, ?activity_pend; st_simpl; [|exact INV].
    eapply conn_inv_same; [| intros x Hx; exact Hx | exact INV].
    intros q. unfold conn_ids. rewrite find_set_ctx. cbn [c_peer].
    destruct (p =? q) eqn:E; [|reflexivity]. apply N.eqb_eq in E. subst q. rewrite F. reflexivity.
  - (* EForce *)
    cbn [fst snd]. split; [exact INV|]. intros q. unfold pevs. rewrite flat_map_nil; [reflexivity|].
    intros x H. apply force_outs_kind in H. destruct H as [[y ->]|[y ->]]; reflexivity.
Qed.

Lemma ev_ok_now cap e s v i : ev_ok cap e (with_now s v) i = ev_ok cap e s i.
Proof. destruct i; reflexivity. Qed.

Lemma pevs_down q os : (forall o, In o os -> exists p c, o = ODown p c) -> pevs q os = [].
Proof. intros H. apply flat_map_nil. intros x Hx. destruct (H x Hx) as [p [c ->]]. reflexivity. Qed.

Lemma poll_view s :
  (forall q, conn_ids (s_ctxs (fst (poll_timers s))) q = conn_ids (s_ctxs s) q).
Proof.
  unfold poll_timers. destruct (fire (s_T s) (s_now s) (s_timers s) (s_last s)) as [[ts la] ex].
  pose proof (downgrade_all_conn_ids ex (s_ctxs s)) as D.
  destruct (downgrade_all (s_ctxs s) ex) as [cs os]. cbn [fst] in *. st_simpl. exact D.
Qed.

Lemma step_conn e s dt i :
  conn_inv e (s_ctxs s) (s_pend s) -> ev_ok 2 e s i = true ->
  conn_inv (env_step e i) (s_ctxs (fst (step s dt i))) (s_pend (fst (step s dt i))) /\
  forall q, wf_run (has_conn q (e_live e)) (pevs q (snd (step s dt i))) =
            Some (has_conn q (e_live (env_step e i))).
Proof.
  intros INV OK. unfold step. set (s0 := with_now s (s_now s + dt)).
  assert (INV0 : conn_inv e (s_ctxs s0) (s_pend s0)) by exact INV.
  assert (OK0 : ev_ok 2 e s0 i = true) by (subst s0; rewrite ev_ok_now; exact OK).
  pose proof (handle_conn e s0 i INV0 OK0) as [H1 H2].
  destruct (handle_ev s0 i) as [s1 o1]. cbn [fst snd] in *.
  set (sm := match ka_activity_of s0 i with
             | Some k => with_act s1 (kset k (s_now s1) (s_act s1)) | None => s1 end).
  assert (M1 : s_ctxs sm = s_ctxs s1) by (subst sm; destruct (ka_activity_of s0 i); reflexivity).
  assert (M2 : s_pend sm = s_pend s1) by (subst sm; destruct (ka_activity_of s0 i); reflexivity).
  pose proof (poll_view sm) as PV. pose proof (poll_consts sm) as PC. pose proof (poll_outs_down sm) as PD.
  destruct (poll_timers sm) as [s2 o2]. cbn [fst snd] in *.
  destruct PC as [_ [_ [_ [_ [_ [PP _]]]]]]. split.
  - eapply conn_inv_same; [| |exact H1].
    + intros q. rewrite PV, M1. reflexivity.
    + rewrite PP, M2. intros x Hx. exact Hx.
  - intros q. unfold pevs in *. rewrite flat_map_app. fold (pevs q o2). rewrite (pevs_down q o2 PD), app_nil_r.
    apply H2.
Qed.

Lemma conn_inv_init : conn_inv env0 [] [].
Proof.
  split; [|split; [|split]]; cbn.
  - intros p. reflexivity.
  - constructor.
  - intros x [].
  - intros id k [].
Qed.

(* per peer, the protocol sees (Established (Sub)* Closed)* — for every feasible history *)
Lemma stream_wf tr : forall e s q,
  conn_inv e (s_ctxs s) (s_pend s) -> feasible 2 e s tr = true ->
  exists b, wf_run (has_conn q (e_live e)) (pevs q (concat (run s tr))) = Some b.
Proof.
  induction tr as [|[dt i] tr IH]; intros e s q INV F; cbn [run feasible] in *.
  - cbn. eauto.
  - apply andb_true_iff in F. destruct F as [OK F].
    pose proof (step_conn e s dt i INV OK) as [H1 H2].
    destruct (step s dt i) as [s' os]. cbn [fst snd concat] in *.
    unfold pevs. rewrite flat_map_app. fold (pevs q os). fold (pevs q (concat (run s' tr))).
    rewrite wf_run_app, H2. apply IH; assumption.
Qed.

(* the environment's view and the protocol's view agree at every point of a feasible history *)
Lemma conn_inv_final tr : forall e s,
  conn_inv e (s_ctxs s) (s_pend s) -> feasible 2 e s tr = true ->
  exists e', conn_inv e' (s_ctxs (final s tr)) (s_pend (final s tr)).
Proof.
  induction tr as [|[dt i] tr IH]; intros e s INV F; cbn [final feasible] in *; [eauto|].
  apply andb_true_iff in F. destruct F as [OK F].
  pose proof (step_conn e s dt i INV OK) as [H1 _]. eapply IH; eauto.
Qed.

(* opens go to the primary connection = the oldest open connection of the peer *)
Lemma handle_cmd s i c id :
  In (OCmd c id) (snd (handle_ev s i)) ->
  exists p cx, i = EOpen p /\ find_ctx p (s_ctxs s) = Some cx /\ c = h_id (c_prim cx) /\ id = s_next s /\
               In (ORet 0 id) (snd (handle_ev s i)).
Proof.
  destruct i; cbn [handle_ev]; unfold on_established, on_closed, on_open_full;
    try (dmatch; cbn [snd In]; intuition discriminate).
  unfold on_open. destruct (find_ctx p (s_ctxs s)) as [cx|] eqn:F; [|cbn [snd In]; intuition discriminate].
  destruct (h_act (c_prim cx) || (0 <? strong s (h_id (c_prim cx)))); [|cbn [snd In]; intuition discriminate].
  cbn [snd In]. intros [H|[H|[]]]; [discriminate|]. inversion H; subst.
  exists p, cx. repeat split; auto.
  cbn [snd]. intros H. apply force_outs_kind in H. destruct H as [[y H]|[y H]]; discriminate.
Qed.

Lemma primary_only e s dt i c id :
  conn_inv e (s_ctxs s) (s_pend s) -> In (OCmd c id) (snd (step s dt i)) ->
  exists p, i = EOpen p /\ hd_error (live_of p (e_live e)) = Some c /\ id = s_next s /\
            In (ORet 0 id) (snd (step s dt i)).
Proof.
  intros [I1 _]. unfold step. set (s0 := with_now s (s_now s + dt)).
  pose proof (handle_cmd s0 i c id) as HC. destruct (handle_ev s0 i) as [s1 o1]. cbn [snd] in HC.
  set (sm := match ka_activity_of s0 i with
             | Some k => with_act s1 (kset k (s_now s1) (s_act s1)) | None => s1 end).
  pose proof (poll_outs_down sm) as PD. destruct (poll_timers sm) as [s2 o2]. cbn [snd] in *.
  intros H. apply in_app_or in H. destruct H as [H|H].
  - destruct (HC H) as [p [cx [E1 [E2 [E3 [E4 E5]]]]]]. exists p. subst s0. st_simpl.
    repeat split; auto; [|apply in_or_app; left; exact E5].
    rewrite <- I1. unfold conn_ids. rewrite E2. subst c. reflexivity.
  - destruct (PD _ H) as [p [c' E]]. discriminate.
Qed.

(* plain alternation of ConnectionEstablished / ConnectionClosed, as a corollary *)
Definition conn_evs (q : N) (os : list out) : list bool :=
  flat_map (fun o => match o with
                     | OEst p => if p =? q then [true] else []
                     | OClosed p => if p =? q then [false] else []
                     | _ => []
                     end) os.
Fixpoint alternates (b : bool) (l : list bool) : Prop :=
  match l with [] => True | x :: t => x = negb b /\ alternates x t end.

Lemma wf_alternates q os : forall b b',
  wf_run b (pevs q os) = Some b' -> alternates b (conn_evs q os).
Proof.
  induction os as [|o os IH]; intros b b' H; [exact I|].
  unfold pevs, conn_evs in *. cbn [flat_map] in *. fold (pevs q os) in *. fold (conn_evs q os) in *.
  destruct o as [p|p|p d|i [g|]|p|r i|c i|p c| |c|r|]; cbn [pev_of app] in *;
    try (eapply IH; exact H).
  - destruct (p =? q); cbn [app wf_run alternates] in *; [|eapply IH; exact H].
    destruct b; [discriminate|]. split; [reflexivity | eapply IH; exact H].
  - destruct (p =? q); cbn [app wf_run alternates] in *; [|eapply IH; exact H].
    destruct b; [|discriminate]. split; [reflexivity | eapply IH; exact H].
  - destruct (p =? q); cbn [app wf_run] in *; [|eapply IH; exact H].
    destruct b; [|discriminate]. eapply IH; exact H.
  - destruct (g =? q); cbn [app wf_run] in *; [|eapply IH; exact H].
    destruct b; [|discriminate]. eapply IH; exact H.
Qed.

Lemma alternation tr e s q :
  conn_inv e (s_ctxs s) (s_pend s) -> feasible 2 e s tr = true ->
  alternates (has_conn q (e_live e)) (conn_evs q (concat (run s tr))).
Proof.
  intros INV F. destruct (stream_wf tr e s q INV F) as [b H]. eapply wf_alternates; eauto.
Qed.
