(* Ts/ReportProofs — the bounded protocol channels never drop, duplicate or reorder a report, and
   every accepted report is delivered after finitely many drain steps (C08). *)
From Coq Require Import List NArith Bool PeanoNat Lia.
From V.Ts Require Import Report.
Import ListNotations.
Open Scope N_scope.

Definition chan_inv (cap : nat) (ch : rchan) : Prop :=
  rdel ch ++ rq ch ++ map snd (rw ch) = racc ch /\
  (length (rq ch) <= cap)%nat /\
  (rw ch <> [] -> length (rq ch) = cap).

Lemma send_one_inv cap c it ch : chan_inv cap ch -> chan_inv cap (send_one cap c it ch).
Proof.
  intros [C1 [C2 C3]]. unfold send_one. destruct (rw ch) as [|w ws] eqn:W.
  - destruct (Nat.ltb (length (rq ch)) cap) eqn:L.
    + apply Nat.ltb_lt in L. split; [|split]; cbn [rq rw racc rdel map].
      * rewrite <- C1. cbn [map]. rewrite !app_nil_r, app_assoc. reflexivity.
      * rewrite app_length. cbn [length]. lia.
      * intros H. congruence.
    + apply Nat.ltb_ge in L. split; [|split]; cbn [rq rw racc rdel map snd].
      * rewrite <- C1. cbn [map]. rewrite app_nil_r, app_assoc. reflexivity.
      * exact C2.
      * intros _. lia.
  - split; [|split]; cbn [rq rw racc rdel].
    + rewrite <- C1, map_app. cbn [map snd]. rewrite !app_assoc. reflexivity.
    + exact C2.
    + intros _. apply C3. congruence.
Qed.

Lemma settle_spec cap w : forall q,
  (length q <= cap)%nat ->
  fst (settle cap q w) ++ map snd (snd (settle cap q w)) = q ++ map snd w /\
  (length (fst (settle cap q w)) <= cap)%nat /\
  (snd (settle cap q w) <> [] -> length (fst (settle cap q w)) = cap).
Proof.
  induction w as [|[c it] t IH]; intros q L; cbn [settle].
  - cbn [fst snd map]. split; [reflexivity|]. split; [exact L | intros H; congruence].
  - destruct (Nat.ltb (length q) cap) eqn:E.
    + apply Nat.ltb_lt in E.
      assert (L' : (length (q ++ [it]) <= cap)%nat) by (rewrite app_length; cbn [length]; lia).
      destruct (IH (q ++ [it]) L') as [I1 [I2 I3]]. split; [|split]; auto.
      rewrite I1. cbn [map snd]. rewrite <- app_assoc. reflexivity.
    + apply Nat.ltb_ge in E. cbn [fst snd]. split; [reflexivity|]. split; [exact L | intros _; lia].
Qed.

Lemma drain_ch_inv cap k ch : chan_inv cap ch -> chan_inv cap (fst (drain_ch cap k ch)).
Proof.
  intros [C1 [C2 C3]]. unfold drain_ch.
  assert (LS : (length (skipn k (rq ch)) <= cap)%nat) by (rewrite skipn_length; lia).
  destruct (settle_spec cap (rw ch) (skipn k (rq ch)) LS) as [S1 [S2 S3]].
  destruct (settle cap (skipn k (rq ch)) (rw ch)) as [q w]. cbn [fst snd] in *.
  split; [|split]; cbn [rq rw racc rdel]; auto.
  rewrite S1, <- C1, <- app_assoc. f_equal. rewrite app_assoc, firstn_skipn. reflexivity.
Qed.

Lemma Forall_upd {A} (P : A -> Prop) f n l :
  (forall x, P x -> P (f x)) -> Forall P l -> Forall P (upd n f l).
Proof.
  intros Hf. revert n. induction l as [|h t IH]; intros n H; cbn [upd]; [constructor|].
  inversion H; subst. destruct n; constructor; auto.
Qed.
Lemma Forall_map_same {A} (P : A -> Prop) f l :
  (forall x, P x -> P (f x)) -> Forall P l -> Forall P (map f l).
Proof. intros Hf H. induction H; cbn [map]; constructor; auto. Qed.
Lemma nth_error_upd {A} (f : A -> A) l : forall n m,
  nth_error (upd n f l) m = if Nat.eqb n m then option_map f (nth_error l m) else nth_error l m.
Proof.
  induction l as [|h t IH]; intros n m; cbn [upd].
  - destruct m; cbn; destruct (Nat.eqb n _); reflexivity.
  - destruct n, m; cbn [nth_error Nat.eqb option_map]; try reflexivity. apply IH.
Qed.

Definition rinv (s : rst) : Prop := Forall (chan_inv (r_cap s)) (r_ch s).

Lemma rinit_inv n cap : rinv (rinit n cap).
Proof.
  unfold rinv, rinit. cbn [r_cap r_ch]. apply Forall_forall. intros x Hx. apply repeat_spec in Hx. subst x.
  split; [reflexivity|]. cbn. split; [lia | intros H; congruence].
Qed.

Lemma rstep_cap s o : r_cap (fst (rstep s o)) = r_cap s.
Proof.
  destruct o; cbn [rstep].
  - destruct (busy s c); [reflexivity|]. destruct (Nat.ltb (N.to_nat p) (length (r_ch s))); reflexivity.
  - destruct (busy s c); [reflexivity|]. destruct (Nat.ltb (N.to_nat p) (length (r_ch s))); reflexivity.
  - destruct (busy s c); reflexivity.
  - destruct (busy s c); reflexivity.
  - destruct (nth_error (r_ch s) (N.to_nat p)) as [ch|]; [|reflexivity].
    destruct (drain_ch (r_cap s) (N.to_nat k) ch). reflexivity.
Qed.

Lemma rstep_inv s o : rinv s -> rinv (fst (rstep s o)).
Proof.
  intros I. unfold rinv in *. rewrite rstep_cap. destruct o; cbn [rstep].
  - destruct (busy s c); [exact I|]. destruct (Nat.ltb (N.to_nat p) (length (r_ch s))); [|exact I].
    cbn [fst r_ch]. apply Forall_upd; [apply send_one_inv | exact I].
  - destruct (busy s c); [exact I|]. destruct (Nat.ltb (N.to_nat p) (length (r_ch s))); [|exact I].
    cbn [fst r_ch]. apply Forall_upd; [apply send_one_inv | exact I].
  - destruct (busy s c); [exact I|]. cbn [fst r_ch]. apply Forall_map_same; [apply send_one_inv | exact I].
  - destruct (busy s c); [exact I|]. cbn [fst r_ch]. apply Forall_map_same; [apply send_one_inv | exact I].
  - destruct (nth_error (r_ch s) (N.to_nat p)) as [ch|] eqn:E; [|exact I].
    pose proof (drain_ch_inv (r_cap s) (N.to_nat k) ch) as D.
    destruct (drain_ch (r_cap s) (N.to_nat k) ch) as [ch' got]. cbn [fst r_ch] in *.
    assert (Pch : chan_inv (r_cap s) ch).
    { rewrite Forall_forall in I. apply I. eapply nth_error_In; eauto. }
    specialize (D Pch). clear E Pch. revert D I. generalize (N.to_nat p) as n. generalize (r_ch s) as l.
    induction l as [|h t IH]; intros n D I; cbn [upd]; [constructor|].
    inversion I; subst. destruct n; constructor; auto.
Qed.

Lemma rfinal_inv l : forall s, rinv s -> rinv (rfinal s l).
Proof. induction l as [|o l IH]; intros s I; cbn [rfinal]; [exact I | apply IH, rstep_inv, I]. Qed.
Lemma rfinal_cap l : forall s, r_cap (rfinal s l) = r_cap s.
Proof. induction l as [|o l IH]; intros s; cbn [rfinal]; [reflexivity | rewrite IH; apply rstep_cap]. Qed.

(* ---- no drop, no duplicate, in order: what the protocol has received, followed by what is
        queued, followed by what is still waiting for room, is exactly what was accepted ---- *)
Lemma conservation l nproto cap p ch :
  nth_error (r_ch (rfinal (rinit nproto cap) l)) p = Some ch ->
  rdel ch ++ rq ch ++ map snd (rw ch) = racc ch.
Proof.
  intros H. pose proof (rfinal_inv l _ (rinit_inv nproto cap)) as I. unfold rinv in I.
  rewrite Forall_forall in I. apply (I ch). eapply nth_error_In; eauto.
Qed.

(* ---- the ghost logs are what the trace shows: accepted = the events of the reports that were
        started (code 0 or 1) for this protocol; received = the outputs of its drains ---- *)
Definition started (r : rout) : bool := (o_code r =? 0) || (o_code r =? 1).
Definition sent_p (p : nat) (o : rop) (r : rout) : list item :=
  if started r then
    match o with
    | RSubOpen c q d => if Nat.eqb (N.to_nat q) p then [IOpened c d] else []
    | RSubFail c q id => if Nat.eqb (N.to_nat q) p then [IFailure c id] else []
    | REst c => [IEst c]
    | RClosed c => [IClosed c]
    | RDrain _ _ => []
    end
  else [].
Definition got_p (p : nat) (o : rop) (r : rout) : list item :=
  match o with RDrain q _ => if Nat.eqb (N.to_nat q) p then o_got r else [] | _ => [] end.

Lemma send_one_logs cap c it ch :
  racc (send_one cap c it ch) = racc ch ++ [it] /\ rdel (send_one cap c it ch) = rdel ch.
Proof.
  unfold send_one. destruct (rw ch); [destruct (Nat.ltb (length (rq ch)) cap)|]; split; reflexivity.
Qed.

Lemma started_01 (b : bool) : ((if b then 1 else 0) =? 0) || ((if b then 1 else 0) =? 1) = true.
Proof. destruct b; reflexivity. Qed.

Lemma rstep_logs s o p ch :
  nth_error (r_ch s) p = Some ch ->
  exists ch', nth_error (r_ch (fst (rstep s o))) p = Some ch' /\
              racc ch' = racc ch ++ sent_p p o (snd (rstep s o)) /\
              rdel ch' = rdel ch ++ got_p p o (snd (rstep s o)).
Proof.
  intros H.
  assert (SAME : exists ch', nth_error (r_ch s) p = Some ch' /\ racc ch' = racc ch ++ [] /\ rdel ch' = rdel ch ++ [])
    by (exists ch; rewrite !app_nil_r; auto).
  assert (LT : (p < length (r_ch s))%nat) by (apply nth_error_Some; congruence).
  destruct o; cbn [rstep].
  - destruct (busy s c); [exact SAME|].
    destruct (Nat.ltb (N.to_nat p0) (length (r_ch s))) eqn:L; [|exact SAME].
    cbn [fst snd r_ch]. unfold sent_p, got_p, started. cbn [o_code].
    rewrite started_01. rewrite nth_error_upd, H. destruct (Nat.eqb (N.to_nat p0) p); cbn [option_map].
    + eexists. split; [reflexivity|]. destruct (send_one_logs (r_cap s) c (IOpened c d) ch) as [A B].
      rewrite A, B, app_nil_r. auto.
    + exists ch. rewrite !app_nil_r. auto.
  - destruct (busy s c); [exact SAME|].
    destruct (Nat.ltb (N.to_nat p0) (length (r_ch s))) eqn:L; [|exact SAME].
    cbn [fst snd r_ch]. unfold sent_p, got_p, started. cbn [o_code].
    rewrite started_01. rewrite nth_error_upd, H. destruct (Nat.eqb (N.to_nat p0) p); cbn [option_map].
    + eexists. split; [reflexivity|]. destruct (send_one_logs (r_cap s) c (IFailure c id) ch) as [A B].
      rewrite A, B, app_nil_r. auto.
    + exists ch. rewrite !app_nil_r. auto.
  - destruct (busy s c); [exact SAME|]. cbn [fst snd r_ch]. unfold sent_p, got_p, started. cbn [o_code].
    rewrite started_01. rewrite nth_error_map, H. cbn [option_map]. eexists. split; [reflexivity|].
    destruct (send_one_logs (r_cap s) c (IEst c) ch) as [A B]. rewrite A, B, app_nil_r. auto.
  - destruct (busy s c); [exact SAME|]. cbn [fst snd r_ch]. unfold sent_p, got_p, started. cbn [o_code].
    rewrite started_01. rewrite nth_error_map, H. cbn [option_map]. eexists. split; [reflexivity|].
    destruct (send_one_logs (r_cap s) c (IClosed c) ch) as [A B]. rewrite A, B, app_nil_r. auto.
  - destruct (nth_error (r_ch s) (N.to_nat p0)) as [ch0|] eqn:E.
    + unfold drain_ch. destruct (settle (r_cap s) (skipn (N.to_nat k) (rq ch0)) (rw ch0)) as [q w].
      cbn [fst snd r_ch]. unfold sent_p, got_p, started. cbn [o_code o_got]. cbn [N.eqb orb].
      rewrite nth_error_upd. destruct (Nat.eqb (N.to_nat p0) p) eqn:EQ.
      * apply Nat.eqb_eq in EQ. rewrite EQ in E. rewrite H in E. inversion E; subst ch0.
        rewrite H. cbn [option_map]. eexists. split; [reflexivity|]. cbn [racc rdel]. rewrite app_nil_r. auto.
      * exists ch. rewrite !app_nil_r. auto.
    + cbn [fst snd]. unfold sent_p, got_p, started. cbn [o_code o_got]. cbn [N.eqb orb].
      destruct (Nat.eqb (N.to_nat p0) p); exists ch; rewrite !app_nil_r; auto.
Qed.

Fixpoint sent_all (p : nat) (l : list rop) (rs : list rout) : list item :=
  match l, rs with
  | o :: l', r :: rs' => sent_p p o r ++ sent_all p l' rs'
  | _, _ => []
  end.
Fixpoint got_all (p : nat) (l : list rop) (rs : list rout) : list item :=
  match l, rs with
  | o :: l', r :: rs' => got_p p o r ++ got_all p l' rs'
  | _, _ => []
  end.

Lemma logs_are_trace l : forall s p ch,
  nth_error (r_ch s) p = Some ch ->
  exists ch', nth_error (r_ch (rfinal s l)) p = Some ch' /\
              racc ch' = racc ch ++ sent_all p l (rrun s l) /\
              rdel ch' = rdel ch ++ got_all p l (rrun s l).
Proof.
  induction l as [|o l IH]; intros s p ch H; cbn [rfinal rrun sent_all got_all].
  - exists ch. rewrite !app_nil_r. auto.
  - destruct (rstep_logs s o p ch H) as [ch1 [H1 [A1 D1]]].
    destruct (rstep s o) as [s1 r1]. cbn [fst snd] in *.
    destruct (IH s1 p ch1 H1) as [ch2 [H2 [A2 D2]]]. exists ch2. split; [exact H2|].
    rewrite A2, A1, D2, D1, <- !app_assoc. auto.
Qed.

Lemma upd_length {A} (f : A -> A) l : forall n, length (upd n f l) = length l.
Proof. induction l as [|h t IH]; intros n; cbn [upd length]; [reflexivity | destruct n; cbn [length]; auto]. Qed.
Lemma rstep_len s o : length (r_ch (fst (rstep s o))) = length (r_ch s).
Proof.
  destruct o; cbn [rstep].
  - destruct (busy s c); [reflexivity|]. destruct (Nat.ltb (N.to_nat p) (length (r_ch s))); [|reflexivity].
    cbn [fst r_ch]. apply upd_length.
  - destruct (busy s c); [reflexivity|]. destruct (Nat.ltb (N.to_nat p) (length (r_ch s))); [|reflexivity].
    cbn [fst r_ch]. apply upd_length.
  - destruct (busy s c); [reflexivity|]. cbn [fst r_ch]. apply map_length.
  - destruct (busy s c); [reflexivity|]. cbn [fst r_ch]. apply map_length.
  - destruct (nth_error (r_ch s) (N.to_nat p)) as [ch|]; [|reflexivity].
    destruct (drain_ch (r_cap s) (N.to_nat k) ch) as [ch' got]. cbn [fst r_ch]. apply upd_length.
Qed.
Lemma rfinal_len l : forall s, length (r_ch (rfinal s l)) = length (r_ch s).
Proof. induction l as [|o l IH]; intros s; cbn [rfinal]; [reflexivity | rewrite IH; apply rstep_len]. Qed.

(* the statement on traces: for every history and capacity, per protocol, the events received
   form a prefix of the events of the started reports, in the same order; the rest is queued or
   waiting — nothing is lost, duplicated or reordered *)
Lemma delivered_prefix l nproto cap p ch :
  nth_error (r_ch (rfinal (rinit nproto cap) l)) p = Some ch ->
  got_all p l (rrun (rinit nproto cap) l) ++ rq ch ++ map snd (rw ch) =
  sent_all p l (rrun (rinit nproto cap) l).
Proof.
  intros H. pose proof (conservation l nproto cap p ch H) as C.
  assert (LT : (p < nproto)%nat).
  { assert (p < length (r_ch (rfinal (rinit nproto cap) l)))%nat by (apply nth_error_Some; congruence).
    rewrite rfinal_len in H0. unfold rinit in H0. cbn [r_ch] in H0. rewrite repeat_length in H0. exact H0. }
  assert (E0 : nth_error (r_ch (rinit nproto cap)) p = Some (mkRc [] [] [] [])).
  { unfold rinit. cbn [r_ch]. clear -LT. revert p LT. induction nproto as [|n IH]; intros p LT; [lia|].
    cbn [repeat]. destruct p; [reflexivity|]. cbn [nth_error]. apply IH. lia. }
  destruct (logs_are_trace l (rinit nproto cap) p _ E0) as [ch' [H' [A D]]].
  rewrite H in H'. inversion H'; subst ch'. cbn [racc rdel app] in *.
  rewrite <- A, <- D. exact C.
Qed.

(* ---- liveness: every drain of at least one event makes progress, so after `backlog` drains the
        channel is empty and everything accepted has been received ---- *)
Lemma settle_len cap w : forall q,
  (length (fst (settle cap q w)) + length (snd (settle cap q w)) = length q + length w)%nat.
Proof.
  induction w as [|[c it] t IH]; intros q; cbn [settle]; [cbn; lia|].
  destruct (Nat.ltb (length q) cap); [|cbn [fst snd length]; lia].
  rewrite IH, app_length. cbn [length]. lia.
Qed.

Lemma drain_progress cap k ch :
  chan_inv cap ch -> (1 <= cap)%nat -> (1 <= k)%nat -> (0 < backlog ch)%nat ->
  (backlog (fst (drain_ch cap k ch)) < backlog ch)%nat.
Proof.
  intros [C1 [C2 C3]] CAP K B. unfold backlog, drain_ch in *.
  pose proof (settle_len cap (rw ch) (skipn k (rq ch))) as SL.
  destruct (settle cap (skipn k (rq ch)) (rw ch)) as [q w]. cbn [fst snd rq rw] in *.
  rewrite SL, skipn_length.
  assert (NE : (0 < length (rq ch))%nat).
  { destruct (rw ch) as [|x xs] eqn:W; [cbn [length] in B; lia|]. rewrite C3; [lia | congruence]. }
  lia.
Qed.

Definition backlog_p (s : rst) (p : nat) : nat :=
  match nth_error (r_ch s) p with Some ch => backlog ch | None => O end.
Fixpoint drain_n (p : N) (n : nat) (s : rst) : rst :=
  match n with O => s | S m => drain_n p m (fst (rstep s (RDrain p 1))) end.

Lemma drain_step_backlog s p :
  rinv s -> (1 <= r_cap s)%nat ->
  (backlog_p (fst (rstep s (RDrain p 1))) (N.to_nat p) <= backlog_p s (N.to_nat p) - 1)%nat.
Proof.
  intros I CAP. unfold backlog_p. cbn [rstep].
  destruct (nth_error (r_ch s) (N.to_nat p)) as [ch|] eqn:E; [|cbn [fst]; rewrite E; lia].
  assert (Pch : chan_inv (r_cap s) ch).
  { unfold rinv in I. rewrite Forall_forall in I. apply I. eapply nth_error_In; eauto. }
  pose proof (drain_progress (r_cap s) (N.to_nat 1) ch Pch CAP) as DP.
  destruct (drain_ch (r_cap s) (N.to_nat 1) ch) as [ch' got] eqn:D. cbn [fst r_ch] in *.
  rewrite nth_error_upd, Nat.eqb_refl, E. cbn [option_map].
  destruct (Nat.eq_dec (backlog ch) 0) as [Z|NZ].
  - (* nothing to do: an empty channel stays empty *)
    unfold backlog, drain_ch in *. assert (rq ch = [] /\ rw ch = []) as [Q W].
    { destruct (rq ch), (rw ch); cbn [length] in Z; try lia; auto. }
    rewrite Q, W in D. cbn in D. inversion D; subst. cbn. lia.
  - assert (backlog ch' < backlog ch)%nat by (apply DP; cbn; lia). lia.
Qed.

Lemma drain_all n : forall s p,
  rinv s -> (1 <= r_cap s)%nat -> (backlog_p s (N.to_nat p) <= n)%nat ->
  backlog_p (drain_n p n s) (N.to_nat p) = O.
Proof.
  induction n as [|n IH]; intros s p I CAP B; cbn [drain_n]; [lia|].
  apply IH.
  - apply rstep_inv; exact I.
  - rewrite rstep_cap; exact CAP.
  - pose proof (drain_step_backlog s p I CAP). lia.
Qed.

(* ... and an empty backlog means: received = accepted *)
Lemma empty_means_all_delivered cap ch :
  chan_inv cap ch -> backlog ch = O -> rdel ch = racc ch.
Proof.
  intros [C1 _] B. unfold backlog in B.
  assert (rq ch = [] /\ rw ch = []) as [Q W] by (destruct (rq ch), (rw ch); cbn [length] in B; try lia; auto).
  rewrite Q, W in C1. cbn in C1. rewrite app_nil_r in C1. exact C1.
Qed.

(* ---- the two halves together, on traces: after the history, let the protocol drain one event
        at a time as many times as its backlog is long — it has then received exactly the events
        of all started reports, in order, each once ---- *)
Lemma rfinal_app a : forall s b, rfinal s (a ++ b) = rfinal (rfinal s a) b.
Proof. induction a as [|o a IH]; intros s b; cbn [app rfinal]; [reflexivity | apply IH]. Qed.
Lemma sent_all_app p a : forall s b,
  sent_all p (a ++ b) (rrun s (a ++ b)) = sent_all p a (rrun s a) ++ sent_all p b (rrun (rfinal s a) b).
Proof.
  induction a as [|o a IH]; intros s b; cbn [app rrun rfinal sent_all]; [reflexivity|].
  destruct (rstep s o) as [s' r]. cbn [fst sent_all]. rewrite IH, app_assoc. reflexivity.
Qed.
Lemma got_all_app p a : forall s b,
  got_all p (a ++ b) (rrun s (a ++ b)) = got_all p a (rrun s a) ++ got_all p b (rrun (rfinal s a) b).
Proof.
  induction a as [|o a IH]; intros s b; cbn [app rrun rfinal got_all]; [reflexivity|].
  destruct (rstep s o) as [s' r]. cbn [fst got_all]. rewrite IH, app_assoc. reflexivity.
Qed.
Lemma rfinal_drains q n : forall s, rfinal s (repeat (RDrain q 1) n) = drain_n q n s.
Proof. induction n as [|n IH]; intros s; cbn [repeat rfinal drain_n]; [reflexivity | apply IH]. Qed.
Lemma sent_all_drains p q n : forall s, sent_all p (repeat (RDrain q 1) n) (rrun s (repeat (RDrain q 1) n)) = [].
Proof.
  induction n as [|n IH]; intros s; cbn [repeat rrun sent_all]; [reflexivity|].
  destruct (rstep s (RDrain q 1)) as [s' r]. cbn [sent_all]. rewrite IH, app_nil_r.
  unfold sent_p. destruct (started r); reflexivity.
Qed.

Lemma report_all_delivered rl nproto cap p :
  (1 <= cap)%nat -> (p < nproto)%nat ->
  let n := backlog_p (rfinal (rinit nproto cap) rl) p in
  let rl' := rl ++ repeat (RDrain (N.of_nat p) 1) n in
  got_all p rl' (rrun (rinit nproto cap) rl') = sent_all p rl (rrun (rinit nproto cap) rl).
Proof.
  intros CAP LT n rl'.
  assert (LEN : (p < length (r_ch (rfinal (rinit nproto cap) rl')))%nat).
  { rewrite rfinal_len. unfold rinit. cbn [r_ch]. rewrite repeat_length. exact LT. }
  destruct (nth_error (r_ch (rfinal (rinit nproto cap) rl')) p) as [ch|] eqn:E;
    [|apply nth_error_None in E; lia].
  pose proof (delivered_prefix rl' nproto cap p ch E) as DP.
  assert (B : backlog ch = O).
  { unfold rl' in E. rewrite rfinal_app, rfinal_drains in E.
    pose proof (drain_all n (rfinal (rinit nproto cap) rl) (N.of_nat p)) as DA.
    rewrite Nat2N.id in DA. unfold backlog_p in DA at 2. rewrite E in DA. apply DA.
    - apply rfinal_inv, rinit_inv.
    - rewrite rfinal_cap. exact CAP.
    - unfold n. lia. }
  unfold backlog in B.
  assert (rq ch = [] /\ rw ch = []) as [Q W] by (destruct (rq ch), (rw ch); cbn [length] in B; try lia; auto).
  rewrite Q, W in DP. cbn [map app] in DP. rewrite app_nil_r in DP. rewrite DP.
  unfold rl'. rewrite sent_all_app, sent_all_drains, app_nil_r. reflexivity.
Qed.
