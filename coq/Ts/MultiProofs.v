(* Ts/MultiProofs — lemmas about the composition of several TransportServices (Multi.v): every
   component keeps all single-service invariants inside the composition (so the C08 / C09 theorems
   of a single service hold for each protocol of a node), each component's view of a command
   channel equals the shared channel, and the cross-service statements: a connection's command
   channel loses its last strong sender exactly when EVERY protocol has let go (each by its own
   timeout), identifiers are unique across services. *)
From Coq Require Import List NArith Bool Lia PeanoNat Sorted.
From V.Ts Require Import Model Proofs Answers Rearm Timing Extra Exact Multi.
Import ListNotations.
Open Scope N_scope.
Arguments N.add : simpl never.
Arguments N.sub : simpl never.
Arguments N.eqb : simpl never.
Arguments N.ltb : simpl never.
Arguments N.leb : simpl never.
Arguments N.of_nat : simpl never.

(* ------------------------------------------------------------------ sync *)
Lemma find_ch_map_other f l c :
  find_ch c (map (fun x => mkCh (ch_id x) (f (ch_id x)) (ch_held x)) l) =
  option_map (fun x => mkCh (ch_id x) (f (ch_id x)) (ch_held x)) (find_ch c l).
Proof.
  induction l as [|h t IH]; cbn [map find_ch option_map]; [reflexivity|]. cbn [ch_id].
  destruct (ch_id h =? c); [reflexivity | exact IH].
Qed.
Lemma held_set_other s f c : ch_held_of c (s_chans (set_other s f)) = ch_held_of c (s_chans s).
Proof.
  unfold set_other, ch_held_of. st_simpl. rewrite find_ch_map_other. destruct (find_ch c (s_chans s)); reflexivity.
Qed.
Lemma other_set_other s f c :
  find_ch c (s_chans s) <> None -> ch_other_of c (s_chans (set_other s f)) = f c.
Proof.
  unfold set_other, ch_other_of. st_simpl. rewrite find_ch_map_other. intros H.
  destruct (find_ch c (s_chans s)) as [x|] eqn:F; [|contradiction]. cbn [option_map ch_other].
  assert (ch_id x = c); [|congruence].
  clear -F. induction (s_chans s) as [|h t IH]; cbn [find_ch] in F; [discriminate|].
  destruct (ch_id h =? c) eqn:E; [inversion F; subst; apply N.eqb_eq; exact E | apply IH; exact F].
Qed.
Lemma local_set_other s f c : local (set_other s f) c = local s c.
Proof. unfold local. rewrite held_set_other. reflexivity. Qed.

Lemma mstrong_map_other (F : st -> N -> N) l c :
  mstrong (map (fun s => set_other s (F s)) l) c = mstrong l c.
Proof.
  induction l as [|h t IH]; cbn [map mstrong]; [reflexivity|]. rewrite local_set_other, IH. reflexivity.
Qed.
Lemma mstrong_sync ss c : mstrong (sync ss) c = mstrong ss c.
Proof. unfold sync. apply (mstrong_map_other (fun s c => mstrong ss c - local s c)). Qed.
Lemma local_le_mstrong ss s c : In s ss -> local s c <= mstrong ss c.
Proof.
  induction ss as [|h t IH]; intros H; [destruct H|]. cbn [mstrong]. destruct H as [->|H]; [lia|].
  specialize (IH H). lia.
Qed.
Lemma strong_local s c : strong s c = local s c + ch_other_of c (s_chans s).
Proof. unfold strong, local. lia. Qed.

(* after sync, every component sees the shared channel: its own contribution plus what the model
   of a single service calls "the other protocols" is the sum over all services *)
Lemma synced_view ss s c :
  In s (sync ss) -> find_ch c (s_chans s) <> None -> strong s c = mstrong (sync ss) c.
Proof.
  unfold sync. intros H FC. apply in_map_iff in H. destruct H as [s0 [<- HIn]].
  rewrite strong_local, local_set_other. fold (sync ss). rewrite mstrong_sync.
  rewrite other_set_other.
  - pose proof (local_le_mstrong ss s0 c HIn). lia.
  - intros C. apply FC. unfold set_other. st_simpl.
    rewrite (find_ch_map_other (fun c0 => mstrong ss c0 - local s0 c0)), C. reflexivity.
Qed.

(* ------------------------------------------------------------------ shape of a composed step *)
Lemma mstep_svcs m dt e :
  m_svcs (fst (mstep m dt e)) = sync (fst (fst (steps (m_next m) dt 0 (step_fn m e) (m_svcs m)))).
Proof.
  unfold mstep. destruct (steps (m_next m) dt 0 (step_fn m e) (m_svcs m)) as [[ss oss] nx]. cbn [fst].
  destruct e as [a|i a|c].
  - destruct a; reflexivity.
  - reflexivity.
  - destruct (memN c (m_sets m)); [|reflexivity].
    destruct (qfind c (push_all 0 (m_q m) oss)) as [|[i id|] rest]; reflexivity.
Qed.

Lemma mstep_view m dt e s c :
  In s (m_svcs (fst (mstep m dt e))) -> find_ch c (s_chans s) <> None ->
  strong s c = mstrong (m_svcs (fst (mstep m dt e))) c.
Proof. rewrite mstep_svcs. apply synced_view. Qed.

(* ------------------------------------------------------------------ invariants survive the glue *)
Lemma ev_ok_next cap e s n i : ev_ok cap e (with_next s n) i = ev_ok cap e s i.
Proof. destruct i; reflexivity. Qed.

Lemma exact_with_next e s n : exact_inv e s -> exact_inv e (with_next s n).
Proof. intros [C T F A K O P]. constructor; assumption. Qed.
Lemma exact_set_other e s f : exact_inv e s -> exact_inv e (set_other s f).
Proof. intros [C T F A K O P]. constructor; assumption. Qed.

Lemma exact_sync e ss : Forall (exact_inv e) ss -> Forall (exact_inv e) (sync ss).
Proof.
  unfold sync. intros H. apply Forall_forall. intros s HIn. apply in_map_iff in HIn.
  destruct HIn as [s0 [<- HIn]]. apply exact_set_other. rewrite Forall_forall in H. apply H. exact HIn.
Qed.

(* all components step; each one's input is inside the contract and moves the environment to e' *)
Lemma steps_exact e e' dt f : forall ss nx j,
  Forall (exact_inv e) ss ->
  (forall k s, nth_error ss k = Some s ->
               ev_ok 2 e s (fst (f (j + k)%nat s)) = true /\ env_step e (fst (f (j + k)%nat s)) = e') ->
  Forall (exact_inv e') (fst (fst (steps nx dt j f ss))).
Proof.
  induction ss as [|s t IH]; intros nx j FA H; cbn [steps]; [constructor|].
  inversion FA as [|x xs X XS]; subst.
  destruct (H O s eq_refl) as [OK ES]. rewrite Nat.add_0_r in OK, ES.
  destruct (f j s) as [ev sk] eqn:FJ. cbn [fst] in OK, ES.
  pose proof (exact_step e (with_next s nx) dt ev (exact_with_next e s nx X)) as ST.
  rewrite ev_ok_next in ST. specialize (ST OK). rewrite ES in ST.
  destruct (step (with_next s nx) dt ev) as [s' os]. cbn [fst] in ST.
  specialize (IH (s_next s') (S j) XS).
  destruct (steps (s_next s') dt (S j) f t) as [[t' ost] nx']. cbn [fst] in *.
  constructor; [exact ST|]. apply IH. intros k s0 N0. specialize (H (S k) s0 N0).
  rewrite Nat.add_succ_r in H. exact H.
Qed.

Lemma eff_env e m i s a : env_step e (fst (eff m i s a)) = e.
Proof.
  destruct a; cbn [eff fst]; try reflexivity.
  - destruct (memN c (m_sets m)); reflexivity.
  - destruct (in_flight m i id); reflexivity.
  - destruct (in_flight m i id); reflexivity.
  - destruct (find_ctx p (s_ctxs s)) as [cx|]; [destruct (qfull m (h_id (c_prim cx)))|]; reflexivity.
  - destruct (find_ctx p (s_ctxs s)); reflexivity.
Qed.

Lemma all_ev_ok e s s' a :
  match a with EEst _ _ | EClosed _ _ => ev_ok 2 e s' a | _ => true end = true -> ev_ok 2 e s (all_ev a) = true.
Proof. destruct a; cbn [all_ev ev_ok]; auto. Qed.

Lemma mstep_exact e m dt i :
  Forall (exact_inv e) (m_svcs m) -> mev_ok 2 e m i = true ->
  Forall (exact_inv (menv_step e i)) (m_svcs (fst (mstep m dt i))).
Proof.
  intros FA OK. rewrite mstep_svcs. apply exact_sync.
  apply (steps_exact e (menv_step e i)); [exact FA|].
  intros k s NK. cbn [plus]. destruct i as [a|j a|c]; cbn [step_fn mev_ok menv_step fst] in *.
  - split; [|reflexivity]. apply (all_ev_ok e s (init false 1 0)). exact OK.
  - destruct (N.of_nat k =? j) eqn:E.
    + apply N.eqb_eq in E. subst j. rewrite Nat2N.id, NK in OK. apply andb_true_iff in OK. destruct OK as [_ OK].
      rewrite ev_ok_next in OK. split; [exact OK | apply eff_env].
    + split; reflexivity.
  - split; reflexivity.
Qed.

Lemma mfinal_exact tr : forall e m,
  Forall (exact_inv e) (m_svcs m) -> mfeasible 2 e m tr = true ->
  Forall (exact_inv (mefinal e tr)) (m_svcs (mfinal m tr)).
Proof.
  induction tr as [|[dt i] tr IH]; intros e m FA F; cbn [mefinal mfinal]; [exact FA|].
  cbn [mfeasible] in F. apply andb_true_iff in F. destruct F as [OK F].
  apply IH; [apply mstep_exact; assumption | exact F].
Qed.

Lemma minit_exact cap cfg n0 : Forall (exact_inv env0) (m_svcs (minit cap cfg n0)).
Proof.
  unfold minit. cbn [m_svcs]. apply Forall_forall. intros s H. apply in_map_iff in H.
  destruct H as [kt [<- _]]. apply exact_init.
Qed.

(* ------------------------------------------------------------------ clocks and timeouts *)
Lemma step_now_T s dt i : s_now (fst (step s dt i)) = s_now s + dt /\ s_T (fst (step s dt i)) = s_T s /\
                          s_ka (fst (step s dt i)) = s_ka s.
Proof.
  rewrite step_mid. pose proof (mid_consts s dt i) as [MN MT].
  assert (MK : s_ka (fst (mid s dt i)) = s_ka s).
  { unfold mid. pose proof (handle_consts (with_now s (s_now s + dt)) i) as [_ [_ [H3 _]]].
    destruct (handle_ev (with_now s (s_now s + dt)) i) as [s1 o1]. cbn [fst] in *.
    destruct (ka_activity_of _ i); st_simpl; exact H3. }
  destruct (mid s dt i) as [sm o1]. cbn [fst] in *. pose proof (poll_consts sm) as PC.
  destruct (poll_timers sm) as [s2 o2]. cbn [fst] in *. destruct PC as [P1 [P2 [P3 _]]].
  rewrite P1, P2, P3, MN, MT, MK. auto.
Qed.

Lemma steps_shape f dt : forall ss nx j,
  let r := steps nx dt j f ss in
  length (fst (fst r)) = length ss /\ length (snd (fst r)) = length ss /\
  map (fun s => (s_ka s, s_T s)) (fst (fst r)) = map (fun s => (s_ka s, s_T s)) ss /\
  (forall t, Forall (fun s => s_now s = t) ss -> Forall (fun s => s_now s = t + dt) (fst (fst r))).
Proof.
  induction ss as [|s t IH]; intros nx j; cbn [steps].
  - cbn [fst snd length map]. repeat split; auto.
  - destruct (f j s) as [ev sk]. pose proof (step_now_T (with_next s nx) dt ev) as [SN [ST SK]].
    destruct (step (with_next s nx) dt ev) as [s' os]. cbn [fst] in *.
    specialize (IH (s_next s') (S j)). destruct (steps (s_next s') dt (S j) f t) as [[t' ost] nx'].
    cbn [fst snd length map] in *. destruct IH as [L1 [L2 [M N0]]]. repeat split; try congruence.
    + rewrite SK, ST, M. reflexivity.
    + intros t0 FA. inversion FA as [|x xs X XS]; subst. constructor; [rewrite SN; reflexivity | apply N0; exact XS].
Qed.

Lemma sync_shape ss :
  length (sync ss) = length ss /\
  map (fun s => (s_ka s, s_T s)) (sync ss) = map (fun s => (s_ka s, s_T s)) ss /\
  (forall t, Forall (fun s => s_now s = t) ss -> Forall (fun s => s_now s = t) (sync ss)).
Proof.
  unfold sync. split; [apply map_length|]. split.
  - rewrite map_map. reflexivity.
  - intros t FA. apply Forall_forall. intros s H. apply in_map_iff in H. destruct H as [s0 [<- HIn]].
    rewrite Forall_forall in FA. apply (FA s0 HIn).
Qed.

Lemma mstep_shape m dt e :
  length (m_svcs (fst (mstep m dt e))) = length (m_svcs m) /\
  map (fun s => (s_ka s, s_T s)) (m_svcs (fst (mstep m dt e))) = map (fun s => (s_ka s, s_T s)) (m_svcs m) /\
  (forall t, Forall (fun s => s_now s = t) (m_svcs m) -> Forall (fun s => s_now s = t + dt) (m_svcs (fst (mstep m dt e)))).
Proof.
  rewrite mstep_svcs. pose proof (steps_shape (step_fn m e) dt (m_svcs m) (m_next m) 0) as [L1 [_ [M N0]]].
  pose proof (sync_shape (fst (fst (steps (m_next m) dt 0 (step_fn m e) (m_svcs m))))) as [S1 [S2 S3]].
  split; [congruence|]. split; [congruence|]. intros t FA. apply S3. apply N0. exact FA.
Qed.

Fixpoint elapsed (tr : list (N * mev)) : N := match tr with [] => 0 | (dt, _) :: t => dt + elapsed t end.

(* every service keeps its own keep-alive flag and timeout, and all clocks agree *)
Lemma mfinal_cfg tr : forall m,
  map (fun s => (s_ka s, s_T s)) (m_svcs (mfinal m tr)) = map (fun s => (s_ka s, s_T s)) (m_svcs m) /\
  length (m_svcs (mfinal m tr)) = length (m_svcs m) /\
  (forall t, Forall (fun s => s_now s = t) (m_svcs m) ->
             Forall (fun s => s_now s = t + elapsed tr) (m_svcs (mfinal m tr))).
Proof.
  induction tr as [|[dt e] tr IH]; intros m; cbn [mfinal elapsed].
  - split; [reflexivity|]. split; [reflexivity|]. intros t FA. rewrite N.add_0_r. exact FA.
  - destruct (IH (fst (mstep m dt e))) as [I1 [I2 I3]]. destruct (mstep_shape m dt e) as [S1 [S2 S3]].
    split; [congruence|]. split; [congruence|]. intros t FA. rewrite N.add_assoc. apply I3. apply S3. exact FA.
Qed.

Lemma minit_cfg cap cfg n0 :
  map (fun s => (s_ka s, s_T s)) (m_svcs (minit cap cfg n0)) = cfg /\
  Forall (fun s => s_now s = 0) (m_svcs (minit cap cfg n0)).
Proof.
  unfold minit. cbn [m_svcs]. split.
  - rewrite map_map. cbn. induction cfg as [|[k t] l IH]; cbn [map fst snd]; [reflexivity | rewrite IH; reflexivity].
  - apply Forall_forall. intros s H. apply in_map_iff in H. destruct H as [kt [<- _]]. reflexivity.
Qed.

(* ------------------------------------------------------------------ closes only when ALL have let go *)
(* a service has let go of connection k: its last keep-alive activity on k is at least its own
   timeout old, none of its keep-alive substreams lives on k, none of its opens is in flight on k *)
Definition let_go (s : st) (k : key) : Prop :=
  (exists t, kfind k (s_act s) = Some t /\ t + s_T s <= s_now s) /\
  ch_held_of (snd k) (s_chans s) = 0 /\ pend_on (snd k) (s_pend s) = 0.

Lemma mstrong_zero ss c : mstrong ss c = 0 <-> Forall (fun s => local s c = 0) ss.
Proof.
  induction ss as [|h t IH]; cbn [mstrong]; [split; [constructor | reflexivity]|]. split.
  - intros H. constructor; [lia | apply IH; lia].
  - intros H. inversion H as [|x xs X XS]; subst. apply IH in XS. lia.
Qed.

Lemma local_zero_let_go e s p c :
  exact_inv e s -> In (p, c) (e_live e) -> (local s c = 0 <-> let_go s (p, c)).
Proof.
  intros X LV. pose proof (strong_active e s p c (ex_conn _ _ X) (ex_peers _ _ X) LV) as SA.
  destruct (exact_active_iff e s (p, c) X LV) as [t [AC [LE IFF]]].
  unfold local, let_go. cbn [snd]. rewrite SA. split.
  - intros H. destruct (handle_active (s_ctxs s) (p, c)) eqn:HA; [lia|].
    split; [|lia]. exists t. split; [exact AC|].
    destruct (N.lt_ge_cases (s_now s) (t + s_T s)) as [LT|GE]; [|lia].
    apply IFF in LT. congruence.
  - intros [[t' [AC' OLD]] [H1 H2]]. rewrite AC in AC'. inversion AC'; subst t'.
    destruct (handle_active (s_ctxs s) (p, c)) eqn:HA; [|lia].
    exfalso. assert (s_now s < t + s_T s) by (apply IFF; reflexivity). lia.
Qed.

Lemma closed_iff_all_let_go e ss p c :
  Forall (exact_inv e) ss -> In (p, c) (e_live e) ->
  (mstrong ss c = 0 <-> Forall (fun s => let_go s (p, c)) ss).
Proof.
  intros FA LV. rewrite mstrong_zero. rewrite !Forall_forall in *. split.
  - intros H s HIn. apply (local_zero_let_go e s p c (FA s HIn) LV). apply H. exact HIn.
  - intros H s HIn. apply (local_zero_let_go e s p c (FA s HIn) LV). apply H. exact HIn.
Qed.

(* each component, inside the composition: Active <-> its own activity is less than its own T old *)
Lemma multi_active_iff tr cap cfg n0 s k :
  mfeasible 2 env0 (minit cap cfg n0) tr = true ->
  In s (m_svcs (mfinal (minit cap cfg n0) tr)) -> In k (e_live (mefinal env0 tr)) ->
  exists t, kfind k (s_act s) = Some t /\ t <= s_now s /\
            (handle_active (s_ctxs s) k = true <-> s_now s < t + s_T s).
Proof.
  intros F HIn LV. pose proof (mfinal_exact tr env0 _ (minit_exact cap cfg n0) F) as FA.
  rewrite Forall_forall in FA. apply (exact_active_iff _ _ _ (FA s HIn) LV).
Qed.

Lemma multi_closed_iff tr cap cfg n0 p c :
  mfeasible 2 env0 (minit cap cfg n0) tr = true -> In (p, c) (e_live (mefinal env0 tr)) ->
  let m := mfinal (minit cap cfg n0) tr in
  (mstrong (m_svcs m) c = 0 <-> Forall (fun s => let_go s (p, c)) (m_svcs m)) /\
  map (fun s => (s_ka s, s_T s)) (m_svcs m) = cfg /\
  Forall (fun s => s_now s = elapsed tr) (m_svcs m).
Proof.
  intros F LV m. split; [|split].
  - apply (closed_iff_all_let_go (mefinal env0 tr)); [|exact LV].
    apply mfinal_exact; [apply minit_exact | exact F].
  - destruct (mfinal_cfg tr (minit cap cfg n0)) as [C _]. subst m. rewrite C. apply minit_cfg.
  - destruct (mfinal_cfg tr (minit cap cfg n0)) as [_ [_ C]]. subst m.
    apply (C 0). apply minit_cfg.
Qed.

(* ------------------------------------------------------------------ identifiers across services *)
Fixpoint sdraws (j : nat) (f : nat -> st -> ev * bool) (ss : list st) : N :=
  match ss with [] => 0 | s :: t => draw_of (fst (f j s)) + sdraws (S j) f t end.

Lemma ret_ids_app a b : ret_ids (a ++ b) = ret_ids a ++ ret_ids b.
Proof. unfold ret_ids. apply flat_map_app. Qed.

Lemma steps_ids f dt : forall ss nx j,
  nx + sdraws j f ss < ID_MOD ->
  let r := steps nx dt j f ss in
  StronglySorted N.lt (flat_map ret_ids (snd (fst r))) /\
  Forall (fun i => nx <= i /\ i < snd r) (flat_map ret_ids (snd (fst r))) /\
  nx <= snd r /\ snd r <= nx + sdraws j f ss.
Proof.
  induction ss as [|s t IH]; intros nx j NW; cbn [steps sdraws] in *.
  - cbn [fst snd flat_map]. repeat split; try constructor; lia.
  - destruct (f j s) as [ev sk] eqn:FJ. cbn [fst] in NW.
    assert (LT : s_next (with_next s nx) < ID_MOD) by (st_simpl; lia).
    destruct (step_draw (with_next s nx) dt ev LT) as [d [D [E R]]]. st_simpl.
    rewrite N.mod_small in E by lia.
    destruct (step (with_next s nx) dt ev) as [s' os]. cbn [fst snd] in E, R.
    specialize (IH (s_next s') (S j)).
    assert (NW2 : s_next s' + sdraws (S j) f t < ID_MOD) by lia. specialize (IH NW2).
    destruct (steps (s_next s') dt (S j) f t) as [[t' ost] nx']. cbn [fst snd flat_map] in *.
    destruct IH as [S [FB [L1 L2]]].
    assert (RS : ret_ids ((if sk then [OSkip] else []) ++ os) = ret_ids os) by (destruct sk; reflexivity).
    rewrite RS. destruct R as [R|[R D1]]; rewrite R; cbn [app].
    + split; [exact S|]. split; [|lia]. eapply Forall_impl; [|exact FB]. cbn. intros a Ha. lia.
    + subst d. split; [|split; [|lia]].
      * constructor; [exact S|]. eapply Forall_impl; [|exact FB]. cbn. intros a Ha. lia.
      * constructor; [lia|]. eapply Forall_impl; [|exact FB]. cbn. intros a Ha. lia.
Qed.

Definition mdraw (e : mev) : N := match e with MOne _ (EOpen _) => 1 | _ => 0 end.
Fixpoint mdraws (tr : list (N * mev)) : N := match tr with [] => 0 | (_, e) :: t => mdraw e + mdraws t end.

Lemma eff_draw m i s a : draw_of (fst (eff m i s a)) <= mdraw (MOne i a).
Proof.
  destruct a; cbn [eff fst draw_of mdraw]; try lia.
  - destruct (memN c (m_sets m)); cbn [fst draw_of]; lia.
  - destruct (in_flight m i id); cbn [fst draw_of]; lia.
  - destruct (in_flight m i id); cbn [fst draw_of]; lia.
  - destruct (find_ctx p (s_ctxs s)) as [cx|]; [destruct (qfull m (h_id (c_prim cx)))|]; cbn [fst draw_of]; lia.
  - destruct (find_ctx p (s_ctxs s)); cbn [fst draw_of]; lia.
Qed.

Lemma sdraws_step_fn m e : forall ss j,
  sdraws j (step_fn m e) ss <=
  match e with MOne i _ => if N.of_nat j <=? i then mdraw e else 0 | _ => 0 end.
Proof.
  induction ss as [|s t IH]; intros j; cbn [sdraws].
  - destruct e as [a|i a|c]; lia.
  - specialize (IH (S j)). destruct e as [a|i a|c]; cbn [step_fn fst] in *.
    + assert (draw_of (all_ev a) = 0) by (destruct a; reflexivity). lia.
    + destruct (N.of_nat j =? i) eqn:E.
      * apply N.eqb_eq in E. pose proof (eff_draw m i s a).
        assert (L : N.of_nat (S j) <=? i = false) by (apply N.leb_gt; lia). rewrite L in IH.
        assert (L2 : N.of_nat j <=? i = true) by (apply N.leb_le; lia). rewrite L2. lia.
      * cbn [fst draw_of]. apply N.eqb_neq in E.
        destruct (N.of_nat (S j) <=? i) eqn:L1.
        -- apply N.leb_le in L1. assert (L2 : N.of_nat j <=? i = true) by (apply N.leb_le; lia). rewrite L2. lia.
        -- destruct (N.of_nat j <=? i); lia.
    + cbn [draw_of]. lia.
Qed.

Lemma mstep_next_outs m dt e :
  m_next (fst (mstep m dt e)) = snd (steps (m_next m) dt 0 (step_fn m e) (m_svcs m)) /\
  fst (snd (mstep m dt e)) = snd (fst (steps (m_next m) dt 0 (step_fn m e) (m_svcs m))).
Proof.
  unfold mstep. destruct (steps (m_next m) dt 0 (step_fn m e) (m_svcs m)) as [[ss oss] nx]. cbn [fst snd].
  destruct e as [a|i a|c].
  - destruct a; auto.
  - auto.
  - destruct (memN c (m_sets m)); [|auto].
    destruct (qfind c (push_all 0 (m_q m) oss)) as [|[i id|] rest]; auto.
Qed.

Definition mret (o : list (list out) * nres) : list N := flat_map ret_ids (fst o).

Lemma sorted_app (a b : list N) :
  StronglySorted N.lt a -> StronglySorted N.lt b -> (forall x y, In x a -> In y b -> x < y) ->
  StronglySorted N.lt (a ++ b).
Proof.
  induction a as [|h t IH]; intros SA SB H; cbn [app]; [exact SB|].
  inversion SA as [|x xs S1 F1]; subst. constructor.
  - apply IH; [exact S1 | exact SB |]. intros x y Hx Hy. apply H; [right; exact Hx | exact Hy].
  - apply Forall_forall. intros y Hy. apply in_app_or in Hy. destruct Hy as [Hy|Hy].
    + rewrite Forall_forall in F1. apply F1. exact Hy.
    + apply H; [left; reflexivity | exact Hy].
Qed.

(* identifiers returned by open_substream of ALL services of a node, in the order of the calls,
   are strictly increasing (hence pairwise distinct across services) while the shared counter
   does not wrap *)
Lemma multi_ids_sorted tr : forall m,
  m_next m + mdraws tr < ID_MOD ->
  StronglySorted N.lt (flat_map mret (mrun m tr)) /\
  Forall (fun i => m_next m <= i) (flat_map mret (mrun m tr)).
Proof.
  induction tr as [|[dt e] tr IH]; intros m NW; cbn [mrun mdraws] in *.
  - cbn. split; constructor.
  - pose proof (mstep_next_outs m dt e) as [MN MO].
    pose proof (sdraws_step_fn m e (m_svcs m) 0) as SD.
    assert (SD' : sdraws 0 (step_fn m e) (m_svcs m) <= mdraw e).
    { destruct e as [a|i a|c]; cbn [mdraw] in *; try lia. destruct (N.of_nat 0 <=? i); cbn [mdraw] in *; lia. }
    assert (NW1 : m_next m + sdraws 0 (step_fn m e) (m_svcs m) < ID_MOD) by lia.
    pose proof (steps_ids (step_fn m e) dt (m_svcs m) (m_next m) 0 NW1) as [S [FB [L1 L2]]].
    destruct (mstep m dt e) as [m' o]. cbn [fst snd flat_map] in *.
    assert (NW2 : m_next m' + mdraws tr < ID_MOD) by lia.
    destruct (IH m' NW2) as [S2 F2]. unfold mret at 1 3. rewrite MO. split.
    + apply sorted_app; [exact S | exact S2 |]. intros x y Hx Hy.
      rewrite Forall_forall in FB, F2. specialize (FB x Hx). specialize (F2 y Hy). lia.
    + apply Forall_app. split.
      * eapply Forall_impl; [|exact FB]. cbn. intros a Ha. lia.
      * eapply Forall_impl; [|exact F2]. cbn. intros a Ha. lia.
Qed.

(* ------------------------------------------------------------------ every service's stream *)
Definition comp_outs (j : nat) (r : list (list (list out) * nres)) : list out :=
  flat_map (fun o => nth j (fst o) []) r.

Lemma pevs_skip q (sk : bool) os : pevs q ((if sk then [OSkip] else []) ++ os) = pevs q os.
Proof. destruct sk; reflexivity. Qed.

Lemma steps_wf e e' dt f q : forall ss nx j,
  Forall (exact_inv e) ss ->
  (forall k s, nth_error ss k = Some s ->
               ev_ok 2 e s (fst (f (j + k)%nat s)) = true /\ env_step e (fst (f (j + k)%nat s)) = e') ->
  forall k, (k < length ss)%nat ->
  wf_run (has_conn q (e_live e)) (pevs q (nth k (snd (fst (steps nx dt j f ss))) [])) = Some (has_conn q (e_live e')).
Proof.
  induction ss as [|s t IH]; intros nx j FA H k LT; cbn [length] in LT; [lia|]. cbn [steps].
  inversion FA as [|x xs X XS]; subst.
  destruct (H O s eq_refl) as [OK ES]. rewrite Nat.add_0_r in OK, ES.
  destruct (f j s) as [ev sk] eqn:FJ. cbn [fst] in OK, ES.
  pose proof (step_conn e (with_next s nx) dt ev (ex_conn _ _ (exact_with_next e s nx X))) as SC.
  rewrite ev_ok_next in SC. destruct (SC OK) as [_ WF]. rewrite ES in WF.
  destruct (step (with_next s nx) dt ev) as [s' os]. cbn [fst snd] in WF.
  specialize (IH (s_next s') (S j) XS).
  destruct (steps (s_next s') dt (S j) f t) as [[t' ost] nx']. cbn [fst snd] in *.
  destruct k as [|k]; cbn [nth].
  - rewrite pevs_skip. apply WF.
  - apply IH; [|lia]. intros k0 s0 N0. specialize (H (S k0) s0 N0). rewrite Nat.add_succ_r in H. exact H.
Qed.

Lemma mstep_wf e m dt i q k :
  Forall (exact_inv e) (m_svcs m) -> mev_ok 2 e m i = true -> (k < length (m_svcs m))%nat ->
  wf_run (has_conn q (e_live e)) (pevs q (nth k (fst (snd (mstep m dt i))) [])) =
  Some (has_conn q (e_live (menv_step e i))).
Proof.
  intros FA OK LT. destruct (mstep_next_outs m dt i) as [_ MO]. rewrite MO.
  apply (steps_wf e (menv_step e i)); [exact FA | | exact LT].
  intros k0 s NK. cbn [plus]. destruct i as [a|j a|c]; cbn [step_fn mev_ok menv_step fst] in *.
  - split; [|reflexivity]. apply (all_ev_ok e s (init false 1 0)). exact OK.
  - destruct (N.of_nat k0 =? j) eqn:E.
    + apply N.eqb_eq in E. subst j. rewrite Nat2N.id, NK in OK. apply andb_true_iff in OK. destruct OK as [_ OK].
      rewrite ev_ok_next in OK. split; [exact OK | apply eff_env].
    + split; reflexivity.
  - split; reflexivity.
Qed.

Lemma multi_stream_wf tr : forall e m q k,
  Forall (exact_inv e) (m_svcs m) -> mfeasible 2 e m tr = true -> (k < length (m_svcs m))%nat ->
  wf_run (has_conn q (e_live e)) (pevs q (comp_outs k (mrun m tr))) = Some (has_conn q (e_live (mefinal e tr))).
Proof.
  induction tr as [|[dt i] tr IH]; intros e m q k FA F LT; cbn [mrun mefinal comp_outs flat_map]; [reflexivity|].
  cbn [mfeasible] in F. apply andb_true_iff in F. destruct F as [OK F].
  pose proof (mstep_wf e m dt i q k FA OK LT) as W. pose proof (mstep_exact e m dt i FA OK) as FA'.
  destruct (mstep_shape m dt i) as [LEN _].
  destruct (mstep m dt i) as [m' o]. cbn [fst snd flat_map] in *.
  unfold pevs. rewrite flat_map_app. fold (pevs q (nth k (fst o) [])).
  fold (pevs q (flat_map (fun o0 => nth k (fst o0) []) (mrun m' tr))).
  rewrite wf_run_app, W. apply (IH _ m' q k FA' F). lia.
Qed.

(* ------------------------------------------------------------------ next() *)
Lemma next_none_iff m dt c :
  In c (m_sets m) ->
  (snd (snd (mstep m dt (MNext c))) = NEnd <->
   qfind c (push_all 0 (m_q m) (fst (snd (mstep m dt (MNext c))))) = [] /\
   mstrong (m_svcs (fst (mstep m dt (MNext c)))) c = 0).
Proof.
  intros HIn. assert (M : memN c (m_sets m) = true).
  { unfold memN. apply existsb_exists. exists c. split; [exact HIn | apply N.eqb_refl]. }
  unfold mstep. destruct (steps (m_next m) dt 0 (step_fn m (MNext c)) (m_svcs m)) as [[ss oss] nx].
  rewrite M. destruct (qfind c (push_all 0 (m_q m) oss)) as [|[i id|] rest] eqn:Q; cbn [fst snd m_svcs].
  - rewrite Q. destruct (mstrong (sync ss) c =? 0) eqn:E.
    + apply N.eqb_eq in E. tauto.
    + apply N.eqb_neq in E. split; [discriminate | tauto].
  - rewrite Q. split; [discriminate | intros [C _]; discriminate].
  - rewrite Q. split; [discriminate | intros [C _]; discriminate].
Qed.

(* ------------------------------------------------------------------ the command queue loses nothing *)
Definition citems (c i : N) (os : list out) : list qitem :=
  flat_map (fun o => match o with
                     | OCmd c' id => if c' =? c then [QOpen i id] else []
                     | OForce c' => if c' =? c then [QForce] else []
                     | _ => []
                     end) os.
Fixpoint items (c : N) (j : nat) (oss : list (list out)) : list qitem :=
  match oss with [] => [] | os :: t => citems c (N.of_nat j) os ++ items c (S j) t end.

Lemma qfind_qset c c' q l : qfind c (qset c' q l) = if c' =? c then q else qfind c l.
Proof.
  induction l as [|[c0 q0] t IH]; cbn [qset qfind].
  - destruct (c' =? c); reflexivity.
  - destruct (c0 =? c') eqn:E; cbn [qfind].
    + apply N.eqb_eq in E. subst c0. destruct (c' =? c); reflexivity.
    + rewrite IH. destruct (c0 =? c) eqn:E1; [|reflexivity].
      apply N.eqb_eq in E1. subst c0. rewrite N.eqb_sym, E. reflexivity.
Qed.

Lemma push_outs_find c i os : forall q, qfind c (push_outs i q os) = qfind c q ++ citems c i os.
Proof.
  unfold push_outs, citems. induction os as [|o os IH]; intros q; cbn [fold_left flat_map]; [rewrite app_nil_r; reflexivity|].
  rewrite IH. destruct o; cbn [app]; try reflexivity.
  - rewrite qfind_qset. destruct (c0 =? c) eqn:E.
    + apply N.eqb_eq in E. subst c0. rewrite <- app_assoc. reflexivity.
    + reflexivity.
  - rewrite qfind_qset. destruct (c0 =? c) eqn:E.
    + apply N.eqb_eq in E. subst c0. rewrite <- app_assoc. reflexivity.
    + reflexivity.
Qed.
Lemma push_all_find c oss : forall j q, qfind c (push_all j q oss) = qfind c q ++ items c j oss.
Proof.
  induction oss as [|os t IH]; intros j q; cbn [push_all items]; [rewrite app_nil_r; reflexivity|].
  rewrite IH, push_outs_find, <- app_assoc. reflexivity.
Qed.

(* what the connection task of c takes in one step *)
Definition taken1 (c : N) (e : mev) (r : nres) : list qitem :=
  match e, r with
  | MNext c', NCmd i id => if c' =? c then [QOpen i id] else []
  | MNext c', NForce => if c' =? c then [QForce] else []
  | _, _ => []
  end.
Definition closes (c : N) (e : mev) : bool := match e with MAll (EClosed _ c') => c' =? c | _ => false end.

Lemma mstep_queue m dt e c :
  closes c e = false ->
  taken1 c e (snd (snd (mstep m dt e))) ++ qfind c (m_q (fst (mstep m dt e))) =
  qfind c (m_q m) ++ items c 0 (fst (snd (mstep m dt e))).
Proof.
  intros NC. unfold mstep. destruct (steps (m_next m) dt 0 (step_fn m e) (m_svcs m)) as [[ss oss] nx].
  pose proof (push_all_find c oss 0 (m_q m)) as PA.
  destruct e as [a|i a|c'].
  - destruct a; cbn [fst snd m_q taken1 app]; try exact PA.
    cbn [closes] in NC. rewrite qfind_qset, NC. exact PA.
  - cbn [fst snd m_q taken1 app]. exact PA.
  - destruct (memN c' (m_sets m)); [|cbn [fst snd m_q taken1 app]; exact PA].
    destruct (qfind c' (push_all 0 (m_q m) oss)) as [|[i id|] rest] eqn:Q; cbn [fst snd m_q taken1].
    + destruct (mstrong (sync ss) c' =? 0); cbn [app]; exact PA.
    + rewrite qfind_qset. destruct (c' =? c) eqn:E; cbn [app]; [|exact PA].
      apply N.eqb_eq in E. subst c'. rewrite <- PA, Q. reflexivity.
    + rewrite qfind_qset. destruct (c' =? c) eqn:E; cbn [app]; [|exact PA].
      apply N.eqb_eq in E. subst c'. rewrite <- PA, Q. reflexivity.
Qed.

Fixpoint taken (c : N) (tr : list (N * mev)) (r : list (list (list out) * nres)) : list qitem :=
  match tr, r with
  | (_, e) :: t, o :: rt => taken1 c e (snd o) ++ taken c t rt
  | _, _ => []
  end.
Fixpoint issued (c : N) (r : list (list (list out) * nres)) : list qitem :=
  match r with [] => [] | o :: rt => items c 0 (fst o) ++ issued c rt end.

(* As long as connection c is not reported closed: the commands its connection task has taken,
   followed by what is still queued, are exactly the commands the services issued for c, in the
   order they were issued — nothing is lost, duplicated or reordered in the shared channel, whatever
   the interleaving of the services and of next(). *)
Lemma queue_conservation tr : forall m c,
  forallb (fun de => negb (closes c (snd de))) tr = true ->
  taken c tr (mrun m tr) ++ qfind c (m_q (mfinal m tr)) = qfind c (m_q m) ++ issued c (mrun m tr).
Proof.
  induction tr as [|[dt e] tr IH]; intros m c NC; cbn [mrun mfinal taken issued]; [rewrite app_nil_r; reflexivity|].
  cbn [forallb snd] in NC. apply andb_true_iff in NC. destruct NC as [NC1 NC]. apply negb_true_iff in NC1.
  pose proof (mstep_queue m dt e c NC1) as MQ. specialize (IH (fst (mstep m dt e)) c NC).
  destruct (mstep m dt e) as [m' o]. cbn [fst snd taken issued] in *.
  rewrite <- app_assoc, IH, app_assoc, MQ, <- app_assoc. reflexivity.
Qed.
