(* Ts — at most one armed sleep per tracked (peer, connection): the `insert(..).is_none()` guard
   of KeepAliveTracker::substream_activity (C09). *)
From Coq Require Import List NArith Bool Lia PeanoNat.
From V.Ts Require Import Model Proofs.
Import ListNotations.
Open Scope N_scope.
Arguments N.add : simpl never.
Arguments N.sub : simpl never.
Arguments N.eqb : simpl never.
Arguments N.ltb : simpl never.
Arguments N.leb : simpl never.
Arguments N.of_nat : simpl never.

(* number of armed sleeps of key k *)
Fixpoint cnt (k : key) (ts : list (key * N)) : nat :=
  match ts with
  | [] => O
  | (k0, _) :: t => ((if key_eqb k0 k then 1 else 0) + cnt k t)%nat
  end.

Lemma cnt_app k a b : cnt k (a ++ b) = (cnt k a + cnt k b)%nat.
Proof. induction a as [|[k0 d] t IH]; cbn [app cnt]; [reflexivity | rewrite IH; lia]. Qed.
Lemma cnt_zero k ts : (forall due, ~ In (k, due) ts) -> cnt k ts = O.
Proof.
  induction ts as [|[k0 d] t IH]; intros H; cbn [cnt]; [reflexivity|].
  destruct (key_eqb k0 k) eqn:E.
  - apply key_eqb_eq in E. subst k0. exfalso. apply (H d). left; reflexivity.
  - rewrite IH; [reflexivity|]. intros due C. apply (H due). right; exact C.
Qed.

(* the tracker's poll never adds a sleep for a key; a key that stays tracked keeps all of its
   sleeps; a key that is untracked by the poll loses at least one *)
Lemma fire_cnt T now ts : forall last k,
  (cnt k (fst (fst (fire T now ts last))) <= cnt k ts)%nat /\
  (forall t, kfind k (snd (fst (fire T now ts last))) = Some t ->
             cnt k (fst (fst (fire T now ts last))) = cnt k ts) /\
  (forall t, kfind k last = Some t -> kfind k (snd (fst (fire T now ts last))) = None ->
             (cnt k (fst (fst (fire T now ts last))) + 1 <= cnt k ts)%nat).
Proof.
  induction ts as [|[k0 due0] ts IH]; intros last k; cbn [fire].
  - cbn [fst snd cnt]. split; [lia|]. split; [reflexivity|]. intros t H1 H2. congruence.
  - destruct (due0 <=? now).
    + destruct (kfind k0 last) as [la|] eqn:F.
      * destruct (now - la <? T).
        -- specialize (IH last k). destruct (fire T now ts last) as [[ts' l'] ex]. cbn [fst snd cnt] in *.
           destruct IH as [I1 [I2 I3]]. split; [lia|]. split.
           ++ intros t H. rewrite (I2 t H). reflexivity.
           ++ intros t H1 H2. specialize (I3 t H1 H2). lia.
        -- pose proof (fire_last_sub T now ts (kdel k0 last) k) as SUB.
           specialize (IH (kdel k0 last) k).
           destruct (fire T now ts (kdel k0 last)) as [[ts' l'] ex]. cbn [fst snd cnt] in *.
           destruct IH as [I1 [I2 I3]]. split; [lia|]. split.
           ++ intros t H. pose proof (SUB t H) as S. rewrite kfind_kdel in S.
              destruct (key_eqb k0 k); [discriminate|]. rewrite (I2 t H). reflexivity.
           ++ intros t H1 H2. destruct (key_eqb k0 k) eqn:E; [lia|].
              assert (H1' : kfind k (kdel k0 last) = Some t) by (rewrite kfind_kdel, E; exact H1).
              specialize (I3 t H1' H2). lia.
      * pose proof (fire_last_sub T now ts last k) as SUB. specialize (IH last k).
        destruct (fire T now ts last) as [[ts' l'] ex]. cbn [fst snd cnt] in *.
        destruct IH as [I1 [I2 I3]]. split; [lia|]. split.
        -- intros t H. pose proof (SUB t H) as S. destruct (key_eqb k0 k) eqn:E.
           ++ apply key_eqb_eq in E. subst k0. congruence.
           ++ rewrite (I2 t H). reflexivity.
        -- intros t H1 H2. destruct (key_eqb k0 k) eqn:E.
           ++ apply key_eqb_eq in E. subst k0. congruence.
           ++ specialize (I3 t H1 H2). lia.
    + specialize (IH last k). destruct (fire T now ts last) as [[ts' l'] ex]. cbn [fst snd cnt] in *.
      destruct IH as [I1 [I2 I3]]. split; [lia|]. split.
      * intros t H. rewrite (I2 t H). reflexivity.
      * intros t H1 H2. specialize (I3 t H1 H2). lia.
Qed.

Lemma fire_keys T now ts : forall last k due',
  In (k, due') (fst (fst (fire T now ts last))) -> exists due, In (k, due) ts.
Proof.
  induction ts as [|[k0 due0] ts IH]; intros last k due'; cbn [fire].
  - cbn [fst]. intros [].
  - destruct (due0 <=? now).
    + destruct (kfind k0 last) as [la|].
      * destruct (now - la <? T).
        -- specialize (IH last k due'). destruct (fire T now ts last) as [[ts' l'] ex]. cbn [fst] in *.
           intros [E|H].
           ++ inversion E; subst. exists due0. left; reflexivity.
           ++ destruct (IH H) as [d D]. exists d. right; exact D.
        -- specialize (IH (kdel k0 last) k due'). destruct (fire T now ts (kdel k0 last)) as [[ts' l'] ex].
           cbn [fst] in *. intros H. destruct (IH H) as [d D]. exists d. right; exact D.
      * intros H. destruct (IH last k due' H) as [d D]. exists d. right; exact D.
    + specialize (IH last k due'). destruct (fire T now ts last) as [[ts' l'] ex]. cbn [fst] in *.
      intros [E|H].
      * inversion E; subst. exists due'. left; reflexivity.
      * destruct (IH H) as [d D]. exists d. right; exact D.
Qed.

(* ------------------------------------------------------------------ the invariant *)
Definition rearm_inv (e : env) (s : st) : Prop :=
  (forall k t, kfind k (s_last s) = Some t -> In k (e_live e)) /\
  (forall k, In k (e_live e) ->
             cnt k (s_timers s) = match kfind k (s_last s) with Some _ => 1%nat | None => O end) /\
  (forall k, (cnt k (s_timers s) <= 1)%nat) /\
  (forall k due, In (k, due) (s_timers s) -> In (snd k) (e_used e)).

Lemma rearm_inv_init ka T n : rearm_inv env0 (init ka T n).
Proof.
  split; [|split; [|split]]; cbn.
  - intros k t H. discriminate.
  - intros k [].
  - intros k. lia.
  - intros k due [].
Qed.

(* keep-alive activity only ever concerns an open connection *)
Lemma activity_live e s i k :
  conn_inv e (s_ctxs s) (s_pend s) -> ev_ok 2 e s i = true -> ka_activity_of s i = Some k ->
  In k (e_live (env_step e i)) /\ ((forall p c, i <> EEst p c) -> In k (e_live e)).
Proof.
  intros [I1 [I2 [I3 I4]]] OK G. destruct i; cbn [ka_activity_of ev_ok env_step] in *; try discriminate.
  - (* EEst *)
    assert (k = (p, c)).
    { destruct (find_ctx p (s_ctxs s)) as [cx|]; [destruct (c_sec cx); [discriminate|]|]; congruence. }
    subst k. cbn [e_live]. split; [apply in_or_app; right; left; reflexivity|].
    intros H. exfalso. eapply H. reflexivity.
  - (* ESubIn *)
    apply kmem_In in OK. destruct ((0 <? strong s c) && m && s_ka s); [|discriminate].
    inversion G; subst. split; auto.
  - (* ESubOut *)
    destruct (m && s_ka s); [|discriminate]. apply pfind_In in G. apply I4 in G. split; auto.
  - (* EOpen *)
    pose proof (I1 p) as Ip. unfold conn_ids in Ip.
    destruct (find_ctx p (s_ctxs s)) as [cx|]; [|discriminate].
    destruct ((h_act (c_prim cx) || (0 <? strong s (h_id (c_prim cx)))) && s_ka s); [|discriminate].
    inversion G; subst.
    assert (In (p, h_id (c_prim cx)) (e_live e)) by (apply In_live_of; rewrite <- Ip; left; reflexivity).
    split; auto.
  - (* EOpenFull *)
    pose proof (I1 p) as Ip. unfold conn_ids in Ip.
    destruct (find_ctx p (s_ctxs s)) as [cx|]; [|discriminate].
    destruct ((h_act (c_prim cx) || (0 <? strong s (h_id (c_prim cx)))) && s_ka s); [|discriminate].
    inversion G; subst.
    assert (In (p, h_id (c_prim cx)) (e_live e)) by (apply In_live_of; rewrite <- Ip; left; reflexivity).
    split; auto.
Qed.

(* under the two-per-peer assumption an established connection is always taken (never "third") *)
Lemma est_accepted e s p c :
  conn_inv e (s_ctxs s) (s_pend s) -> ev_ok 2 e s (EEst p c) = true ->
  ka_activity_of s (EEst p c) = Some (p, c).
Proof.
  intros [I1 _] OK. cbn [ka_activity_of ev_ok] in *. apply andb_true_iff in OK. destruct OK as [_ CAP].
  apply Nat.ltb_lt in CAP. pose proof (I1 p) as Ip. unfold conn_ids in Ip.
  destruct (find_ctx p (s_ctxs s)) as [cx|]; [|reflexivity].
  destruct (c_sec cx) as [h|] eqn:S; [|reflexivity].
  exfalso. unfold ids_of in Ip. rewrite S in Ip. rewrite <- Ip in CAP. cbn in CAP. lia.
Qed.

Lemma rearm_mid e s dt i :
  conn_inv e (s_ctxs s) (s_pend s) -> ev_ok 2 e s i = true -> rearm_inv e s ->
  rearm_inv (env_step e i) (fst (mid s dt i)).
Proof.
  intros INV OK [R1 [R2 [R3 R4]]]. unfold mid.
  set (s0 := with_now s (s_now s + dt)).
  assert (INV0 : conn_inv e (s_ctxs s0) (s_pend s0)) by exact INV.
  assert (OK0 : ev_ok 2 e s0 i = true) by (subst s0; rewrite ev_ok_now; exact OK).
  assert (L0 : s_last s0 = s_last s) by reflexivity.
  assert (T0 : s_timers s0 = s_timers s) by reflexivity.
  pose proof (handle_conn e s0 i INV0 OK0) as [[_ [_ [U' _]]] _].
  pose proof (handle_trk s0 i) as TR.
  pose proof (activity_live e s0 i) as AL. pose proof (est_accepted e s0) as EA.
  clearbody s0. destruct (handle_ev s0 i) as [s1 o1]. cbn [fst] in *.
  unfold trk_after in TR.
  destruct (ka_activity_of s0 i) as [k0|] eqn:G.
  - (* an activity for k0 *)
    destruct TR as [TL TT]. destruct (AL k0 INV0 OK0 eq_refl) as [A1 A2]. st_simpl.
    rewrite L0, T0 in *.
    assert (NC : forall p c, i <> EClosed p c) by (intros p c E; rewrite E in G; cbn [ka_activity_of] in G; discriminate G).
    assert (LV : forall k', In k' (e_live e) -> In k' (e_live (env_step e i))).
    { intros k' H. destruct i; cbn [env_step e_live]; auto.
      - apply in_or_app; left; exact H.
      - exfalso. eapply NC. reflexivity. }
    assert (US : forall x, In x (e_used e) -> In x (e_used (env_step e i))).
    { intros x H. destruct i; cbn [env_step e_used]; auto. right; exact H. }
    assert (NEW : forall k', In k' (e_live (env_step e i)) -> In k' (e_live e) \/ k' = k0).
    { intros k' H. destruct i; cbn [env_step e_live] in H; auto.
      - apply in_app_or in H. destruct H as [H|[H|[]]]; [left; exact H|].
        right. rewrite (EA p c INV0 OK0) in G. congruence.
      - exfalso. eapply NC. reflexivity. }
    (* no sleep is armed for k0 when it is not tracked *)
    assert (Z : kfind k0 (s_last s) = None -> cnt k0 (s_timers s) = O).
    { intros UN. destruct i; try (rewrite R2; [rewrite UN; reflexivity | apply A2; intros p' c' C; discriminate C]).
      (* only EEst is left: the connection id is fresh *)
        rewrite (EA p c INV0 OK0) in G. inversion G; subst k0.
        apply cnt_zero. intros due C. apply R4 in C. cbn [snd] in C.
        cbn [ev_ok] in OK0. apply andb_true_iff in OK0. destruct OK0 as [FR _].
        apply negb_true_iff in FR. assert (existsb (N.eqb c) (e_used e) = true); [|congruence].
        apply existsb_exists. exists c. split; [exact C | apply N.eqb_refl]. }
    assert (CK : forall k', cnt k' (s_timers s1) =
                 (cnt k' (s_timers s) +
                  match kfind k0 (s_last s) with
                  | Some _ => 0 | None => if key_eqb k0 k' then 1 else 0 end)%nat).
    { intros k'. rewrite TT. destruct (kfind k0 (s_last s)); [lia|].
      rewrite cnt_app. cbn [cnt]. lia. }
    unfold rearm_inv. st_simpl.
    split; [|split; [|split]].
    + intros k t H. rewrite TL, kfind_kset in H. destruct (key_eqb k0 k) eqn:E.
      * apply key_eqb_eq in E. subst k. exact A1.
      * apply LV. eapply R1; eauto.
    + intros k H. rewrite CK, TL, kfind_kset. destruct (key_eqb k0 k) eqn:E.
      * apply key_eqb_eq in E. subst k. destruct (kfind k0 (s_last s)) as [t|] eqn:F.
        -- rewrite R2; [rewrite F; reflexivity | eapply R1; eauto].
        -- rewrite (Z eq_refl). reflexivity.
      * destruct (NEW k H) as [H'|H']; [|subst k; rewrite key_eqb_refl in E; discriminate].
        rewrite (R2 k H'). destruct (kfind k0 (s_last s)); lia.
    + intros k. rewrite CK. destruct (kfind k0 (s_last s)) as [t|] eqn:F.
      * specialize (R3 k). lia.
      * destruct (key_eqb k0 k) eqn:E.
        -- apply key_eqb_eq in E. subst k. rewrite (Z eq_refl). lia.
        -- specialize (R3 k). lia.
    + intros k due H. rewrite TT in H. destruct (kfind k0 (s_last s)).
      * apply US. eapply R4; eauto.
      * apply in_app_or in H. destruct H as [H|[H|[]]]; [apply US; eapply R4; eauto|].
        inversion H; subst. apply U'. apply in_map_iff. exists k. split; [reflexivity | exact A1].
  - (* no activity *)
    destruct TR as [TT TL]. rewrite L0, T0 in *. unfold rearm_inv. rewrite TT.
    destruct i; try (rewrite TL; cbn [env_step]; split; [|split; [|split]]; assumption).
    + (* EEst is always an activity here *)
      rewrite (EA p c INV0 OK0) in G. discriminate.
    + (* EClosed *)
      rewrite TL. cbn [env_step e_live e_used]. split; [|split; [|split]]; auto.
      * intros k t H. rewrite kfind_kdel in H. destruct (key_eqb (p, c) k) eqn:E; [discriminate|].
        apply filter_In. split; [eapply R1; eauto|]. apply negb_true_iff. rewrite key_eqb_sym. exact E.
      * intros k H. apply filter_In in H. destruct H as [H1 H2]. apply negb_true_iff in H2.
        rewrite kfind_kdel, key_eqb_sym, H2. apply R2. exact H1.
Qed.

Lemma rearm_poll e s : rearm_inv e s -> rearm_inv e (fst (poll_timers s)).
Proof.
  intros [R1 [R2 [R3 R4]]]. unfold poll_timers.
  pose proof (fire_last_sub (s_T s) (s_now s) (s_timers s) (s_last s)) as SUB.
  pose proof (fire_cnt (s_T s) (s_now s) (s_timers s) (s_last s)) as CNT.
  pose proof (fire_keys (s_T s) (s_now s) (s_timers s) (s_last s)) as KEYS.
  destruct (fire (s_T s) (s_now s) (s_timers s) (s_last s)) as [[ts la] ex].
  destruct (downgrade_all (s_ctxs s) ex) as [cs os]. cbn [fst snd] in *. unfold rearm_inv. st_simpl.
  split; [|split; [|split]].
  - intros k t H. eapply R1. apply SUB. exact H.
  - intros k H. destruct (CNT k) as [C1 [C2 C3]]. specialize (R2 k H).
    destruct (kfind k la) as [t|] eqn:F.
    + rewrite (C2 t eq_refl), R2, (SUB k t F). reflexivity.
    + destruct (kfind k (s_last s)) as [t|] eqn:F0.
      * specialize (C3 t eq_refl eq_refl). lia.
      * lia.
  - intros k. destruct (CNT k) as [C1 _]. specialize (R3 k). lia.
  - intros k due H. destruct (KEYS k due H) as [d D]. eapply R4; eauto.
Qed.

Lemma rearm_step e s dt i :
  conn_inv e (s_ctxs s) (s_pend s) -> ev_ok 2 e s i = true -> rearm_inv e s ->
  rearm_inv (env_step e i) (fst (step s dt i)).
Proof.
  intros INV OK R. rewrite step_mid. pose proof (rearm_mid e s dt i INV OK R) as M.
  destruct (mid s dt i) as [s1 o1]. cbn [fst] in M.
  pose proof (rearm_poll _ s1 M) as P. destruct (poll_timers s1) as [s2 o2]. exact P.
Qed.

Lemma rearm_final tr : forall e s,
  conn_inv e (s_ctxs s) (s_pend s) -> rearm_inv e s -> feasible 2 e s tr = true ->
  exists e', rearm_inv e' (final s tr).
Proof.
  induction tr as [|[dt i] tr IH]; intros e s INV R F; cbn [final feasible] in *; [eauto|].
  apply andb_true_iff in F. destruct F as [OK F].
  pose proof (step_conn e s dt i INV OK) as [H1 _].
  pose proof (rearm_step e s dt i INV OK R) as H2. eapply IH; eauto.
Qed.

Lemma rearm_single tr ka T n0 k :
  feasible 2 env0 (init ka T n0) tr = true ->
  (cnt k (s_timers (final (init ka T n0) tr)) <= 1)%nat.
Proof.
  intros F. destruct (rearm_final tr env0 (init ka T n0) conn_inv_init (rearm_inv_init ka T n0) F)
    as [e' [_ [_ [R3 _]]]]. apply R3.
Qed.

Lemma rearm_tracked_one tr ka T n0 k t :
  feasible 2 env0 (init ka T n0) tr = true ->
  kfind k (s_last (final (init ka T n0) tr)) = Some t ->
  cnt k (s_timers (final (init ka T n0) tr)) = 1%nat.
Proof.
  intros F H. destruct (rearm_final tr env0 (init ka T n0) conn_inv_init (rearm_inv_init ka T n0) F)
    as [e' [R1 [R2 _]]]. rewrite (R2 k (R1 k t H)), H. reflexivity.
Qed.
