(* Ts/Names — the name tables ProtocolSet::new (src/protocol/protocol_set.rs) builds from the
   installed protocols (main name, fallback names, keep-alive flag):

     fallback_names : fallback name -> main name
     keep_alives    : every negotiable name (main names, then fallback names resolved through
                      their main protocol) -> SubstreamKeepAlive of the protocol it belongs to

   `keep_alives` is what every transport offers to multistream-select for INBOUND substreams and
   what it reads, under the negotiated name, to decide whether the accepted substream stores a
   connection lifetime permit (tcp/websocket/quic connection.rs: accept_substream,
   handle_negotiated_substream). `resolve` is the first step of report_substream_open: the event
   handed to the protocol carries the main name, the negotiated fallback travels separately.
   Names are numbers here. Definitions and lemmas. *)
From Coq Require Import List NArith Bool Lia.
Import ListNotations.
Open Scope N_scope.

Record proto := mkP { p_main : N; p_fbs : list N; p_ka : bool }.

Fixpoint assoc {A} (x : N) (l : list (N * A)) : option A :=
  match l with [] => None | (k, v) :: t => if k =? x then Some v else assoc x t end.

Definition fallback_map (tbl : list proto) : list (N * N) :=
  flat_map (fun pr => map (fun f => (f, p_main pr)) (p_fbs pr)) tbl.
Definition find_main (tbl : list proto) (m : N) : option proto := find (fun pr => p_main pr =? m) tbl.
Definition keep_alives (tbl : list proto) : list (N * bool) :=
  map (fun pr => (p_main pr, p_ka pr)) tbl ++
  flat_map (fun fm : N * N => match find_main tbl (snd fm) with
                              | Some pr => [(fst fm, p_ka pr)]
                              | None => []
                              end) (fallback_map tbl).
Definition classify (tbl : list proto) (nm : N) : option bool := assoc nm (keep_alives tbl).
Definition resolve (tbl : list proto) (nm : N) : N * option N :=
  match assoc nm (fallback_map tbl) with Some m => (m, Some nm) | None => (nm, None) end.
Definition all_names (tbl : list proto) : list N := map p_main tbl ++ map fst (fallback_map tbl).

(* the "simplified" table of the seeded regression: the flag is looked up under the name itself *)
Definition classify_by_own_name (tbl : list proto) (nm : N) : option bool :=
  if existsb (N.eqb nm) (all_names tbl)
  then Some (match find_main tbl nm with Some pr => p_ka pr | None => false end) else None.

(* ------------------------------------------------------------------ lemmas *)
Lemma assoc_notin {A} x (l : list (N * A)) : ~ In x (map fst l) -> assoc x l = None.
Proof.
  induction l as [|[k v] t IH]; cbn [assoc map fst]; [reflexivity|]. intros H.
  destruct (k =? x) eqn:E; [apply N.eqb_eq in E; exfalso; apply H; left; exact E|].
  apply IH. intros C. apply H. right; exact C.
Qed.
Lemma assoc_in {A} x (v : A) (l : list (N * A)) : NoDup (map fst l) -> In (x, v) l -> assoc x l = Some v.
Proof.
  induction l as [|[k w] t IH]; intros ND HIn; [destruct HIn|]. cbn [assoc map fst] in *.
  inversion ND as [|a b NI ND']; subst. destruct HIn as [E|HIn].
  - inversion E; subst. rewrite N.eqb_refl. reflexivity.
  - destruct (k =? x) eqn:E; [|apply IH; assumption].
    apply N.eqb_eq in E. subst k. exfalso. apply NI. change x with (fst (x, v)). apply in_map. exact HIn.
Qed.
Lemma assoc_app_l {A} x (v : A) (a b : list (N * A)) : assoc x a = Some v -> assoc x (a ++ b) = Some v.
Proof.
  induction a as [|[k w] t IH]; cbn [assoc app]; [discriminate|]. destruct (k =? x); [auto | exact IH].
Qed.
Lemma assoc_app_r {A} x (a b : list (N * A)) : ~ In x (map fst a) -> assoc x (a ++ b) = assoc x b.
Proof.
  induction a as [|[k w] t IH]; cbn [assoc app map fst]; [reflexivity|]. intros H.
  destruct (k =? x) eqn:E; [apply N.eqb_eq in E; exfalso; apply H; left; exact E|].
  apply IH. intros C. apply H. right; exact C.
Qed.

Lemma NoDup_app_l {A} (a b : list A) : NoDup (a ++ b) -> NoDup a.
Proof. induction a as [|h t IH]; intros H; [constructor|]. inversion H; subst. constructor; [intros C; apply H2; apply in_or_app; left; exact C | apply IH; assumption]. Qed.
Lemma NoDup_app_r {A} (a b : list A) : NoDup (a ++ b) -> NoDup b.
Proof. induction a as [|h t IH]; intros H; [exact H|]. inversion H; subst. apply IH. assumption. Qed.
Lemma NoDup_app_disj {A} (a b : list A) x : NoDup (a ++ b) -> In x a -> ~ In x b.
Proof.
  induction a as [|h t IH]; intros H HIn; [destruct HIn|]. inversion H; subst. destruct HIn as [->|HIn].
  - intros C. apply H2. apply in_or_app. right; exact C.
  - apply IH; assumption.
Qed.

Lemma find_main_in tbl pr : NoDup (map p_main tbl) -> In pr tbl -> find_main tbl (p_main pr) = Some pr.
Proof.
  unfold find_main. induction tbl as [|h t IH]; intros ND HIn; [destruct HIn|]. cbn [find map] in *.
  inversion ND as [|a b NI ND']; subst. destruct HIn as [->|HIn]; [rewrite N.eqb_refl; reflexivity|].
  destruct (p_main h =? p_main pr) eqn:E; [|apply IH; assumption].
  exfalso. apply N.eqb_eq in E. apply NI. rewrite E. apply in_map. exact HIn.
Qed.

Lemma fallback_in tbl pr f : In pr tbl -> In f (p_fbs pr) -> In (f, p_main pr) (fallback_map tbl).
Proof.
  intros H1 H2. unfold fallback_map. apply in_flat_map. exists pr. split; [exact H1|].
  apply in_map_iff. exists f. auto.
Qed.

Lemma keep_fb_fst tbl (l : list (N * N)) :
  (forall fm, In fm l -> exists pr, find_main tbl (snd fm) = Some pr) ->
  map fst (flat_map (fun fm : N * N => match find_main tbl (snd fm) with
                                       | Some pr => [(fst fm, p_ka pr)] | None => [] end) l) = map fst l.
Proof.
  induction l as [|fm t IH]; intros H; cbn [flat_map map]; [reflexivity|].
  destruct (H fm (or_introl eq_refl)) as [pr E]. rewrite E. cbn [app map fst]. rewrite IH; [reflexivity|].
  intros x Hx. apply H. right; exact Hx.
Qed.

Lemma fallback_resolves tbl : NoDup (map p_main tbl) ->
  forall fm, In fm (fallback_map tbl) -> exists pr, find_main tbl (snd fm) = Some pr /\ In pr tbl /\ In (fst fm) (p_fbs pr).
Proof.
  intros ND fm H. unfold fallback_map in H. apply in_flat_map in H. destruct H as [pr [H1 H2]].
  apply in_map_iff in H2. destruct H2 as [f [<- H2]]. exists pr. cbn [fst snd].
  split; [apply find_main_in; assumption | auto].
Qed.

(* every name a substream can be negotiated with resolves to the keep-alive flag of the protocol it
   belongs to — main names and every fallback name alike *)
Lemma classify_main tbl pr :
  NoDup (all_names tbl) -> In pr tbl -> classify tbl (p_main pr) = Some (p_ka pr).
Proof.
  intros ND HIn. unfold classify, keep_alives. apply assoc_app_l. apply assoc_in.
  - rewrite map_map. cbn [fst]. exact (NoDup_app_l _ _ ND).
  - apply in_map_iff. exists pr. auto.
Qed.

Lemma classify_fallback tbl pr f :
  NoDup (all_names tbl) -> In pr tbl -> In f (p_fbs pr) ->
  classify tbl f = Some (p_ka pr) /\ resolve tbl f = (p_main pr, Some f).
Proof.
  intros ND HIn HF. pose proof (NoDup_app_l _ _ ND) as NDM. pose proof (NoDup_app_r _ _ ND) as NDF.
  pose proof (fallback_in tbl pr f HIn HF) as FI.
  assert (FN : ~ In f (map p_main tbl)).
  { intros C. apply (NoDup_app_disj _ _ f ND C). change f with (fst (f, p_main pr)). apply in_map. exact FI. }
  split.
  - unfold classify, keep_alives. rewrite assoc_app_r; [|rewrite map_map; exact FN].
    apply assoc_in.
    + rewrite keep_fb_fst; [exact NDF|]. intros fm H. destruct (fallback_resolves tbl NDM fm H) as [p0 [E _]]. eauto.
    + apply in_flat_map. exists (f, p_main pr). split; [exact FI|]. cbn [fst snd].
      rewrite (find_main_in tbl pr NDM HIn). left; reflexivity.
  - unfold resolve. rewrite (assoc_in f (p_main pr) (fallback_map tbl) NDF FI). reflexivity.
Qed.

Lemma resolve_main tbl pr :
  NoDup (all_names tbl) -> In pr tbl -> resolve tbl (p_main pr) = (p_main pr, None).
Proof.
  intros ND HIn. unfold resolve. rewrite assoc_notin; [reflexivity|].
  apply (NoDup_app_disj _ _ (p_main pr) ND). apply in_map. exact HIn.
Qed.

Lemma classify_none tbl nm : NoDup (map p_main tbl) -> ~ In nm (all_names tbl) -> classify tbl nm = None.
Proof.
  intros NDM H. unfold classify. apply assoc_notin. intros C. apply H. unfold all_names, keep_alives in *.
  rewrite map_app in C. apply in_app_or in C. apply in_or_app. destruct C as [C|C].
  - left. rewrite map_map in C. exact C.
  - right. rewrite keep_fb_fst in C; [exact C|]. intros fm Hf.
    destruct (fallback_resolves tbl NDM fm Hf) as [p0 [E _]]. eauto.
Qed.
