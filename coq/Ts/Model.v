(* Ts — executable model of litep2p's TransportService (src/protocol/transport_service.rs) with its
   KeepAliveTracker and the ConnectionHandle / Permit reference counting of src/protocol/connection.rs.
   Shared by C08 and C09. Definitions only.

   One `step` = "the clock advances by dt, one input is handled to completion (one handler of
   poll_next's rx loop, or one direct call of open_substream), then the keep-alive tracker is polled
   to quiescence" — the atomic-handler abstraction of DESIGN.md section 5.

   peers, connection ids, substream ids, times (ms) are N. *)
From Coq Require Import List NArith Bool.
Import ListNotations.
Open Scope N_scope.

(* substream ids are usize: the shared counter wraps modulo 2^64 (fetch_add) *)
Definition ID_MOD : N := 18446744073709551616.

Definition key := (N * N)%type.                      (* (peer, connection id) *)
Definition key_eqb (a b : key) : bool := (fst a =? fst b) && (snd a =? snd b).

(* ---- ConnectionHandle: id + Active(strong sender) / Inactive(weak sender) ---- *)
Record handle := mkH { h_id : N; h_act : bool }.

(* ---- ConnectionContext per peer ---- *)
Record ctx := mkCtx { c_peer : N; c_prim : handle; c_sec : option handle }.

Fixpoint find_ctx (p : N) (l : list ctx) : option ctx :=
  match l with
  | [] => None
  | cx :: t => if c_peer cx =? p then Some cx else find_ctx p t
  end.
Fixpoint set_ctx (cx : ctx) (l : list ctx) : list ctx :=
  match l with
  | [] => [cx]
  | h :: t => if c_peer h =? c_peer cx then cx :: t else h :: set_ctx cx t
  end.
Definition del_ctx (p : N) (l : list ctx) : list ctx :=
  filter (fun cx => negb (c_peer cx =? p)) l.

(* ---- association lists keyed by (peer, conn) ---- *)
Fixpoint kfind (k : key) (l : list (key * N)) : option N :=
  match l with
  | [] => None
  | (k', v) :: t => if key_eqb k' k then Some v else kfind k t
  end.
Fixpoint kset (k : key) (v : N) (l : list (key * N)) : list (key * N) :=
  match l with
  | [] => [(k, v)]
  | (k', v') :: t => if key_eqb k' k then (k, v) :: t else (k', v') :: kset k v t
  end.
Definition kdel (k : key) (l : list (key * N)) : list (key * N) :=
  filter (fun kv => negb (key_eqb (fst kv) k)) l.

(* ---- the command channel of one connection, seen from outside the service:
        strong senders held by other protocols, and lifetime permits held by live substreams ---- *)
Record chan := mkCh { ch_id : N; ch_other : N; ch_held : N }.
Fixpoint find_ch (c : N) (l : list chan) : option chan :=
  match l with
  | [] => None
  | h :: t => if ch_id h =? c then Some h else find_ch c t
  end.
Fixpoint set_ch (x : chan) (l : list chan) : list chan :=
  match l with
  | [] => [x]
  | h :: t => if ch_id h =? ch_id x then x :: t else h :: set_ch x t
  end.

Record st := mkSt {
  s_ka : bool;                       (* substream_keep_alive == Yes *)
  s_T : N;                           (* keep_alive_timeout *)
  s_now : N;                         (* logical clock *)
  s_ctxs : list ctx;                 (* connections *)
  s_next : N;                        (* next_substream_id (shared counter) *)
  s_last : list (key * N);           (* KeepAliveTracker.last_activity *)
  s_timers : list (key * N);         (* armed sleeps: key, due time *)
  s_act : list (key * N);            (* GHOST: time of the last keep-alive activity, never erased *)
  s_chans : list chan;               (* environment: per-connection command channels *)
  s_pend : list (N * key)            (* environment: opens in flight (the connection holds the permit) *)
}.

Definition init (ka : bool) (T next : N) : st := mkSt ka T 0 [] next [] [] [] [] [].

Definition with_ctxs (s : st) (v : list ctx) : st :=
  mkSt (s_ka s) (s_T s) (s_now s) v (s_next s) (s_last s) (s_timers s) (s_act s) (s_chans s) (s_pend s).
Definition with_next (s : st) (v : N) : st :=
  mkSt (s_ka s) (s_T s) (s_now s) (s_ctxs s) v (s_last s) (s_timers s) (s_act s) (s_chans s) (s_pend s).
Definition with_trk (s : st) (l t : list (key * N)) : st :=
  mkSt (s_ka s) (s_T s) (s_now s) (s_ctxs s) (s_next s) l t (s_act s) (s_chans s) (s_pend s).
Definition with_chans (s : st) (v : list chan) : st :=
  mkSt (s_ka s) (s_T s) (s_now s) (s_ctxs s) (s_next s) (s_last s) (s_timers s) (s_act s) v (s_pend s).
Definition with_pend (s : st) (v : list (N * key)) : st :=
  mkSt (s_ka s) (s_T s) (s_now s) (s_ctxs s) (s_next s) (s_last s) (s_timers s) (s_act s) (s_chans s) v.
Definition with_now (s : st) (v : N) : st :=
  mkSt (s_ka s) (s_T s) v (s_ctxs s) (s_next s) (s_last s) (s_timers s) (s_act s) (s_chans s) (s_pend s).
Definition with_act (s : st) (v : list (key * N)) : st :=
  mkSt (s_ka s) (s_T s) (s_now s) (s_ctxs s) (s_next s) (s_last s) (s_timers s) v (s_chans s) (s_pend s).

(* ---- inputs and outputs ---- *)
Inductive ev :=
| ENone                                (* nothing arrives: the service is just polled *)
| EEst (p c : N)                       (* InnerTransportEvent::ConnectionEstablished, fresh active handle *)
| EClosed (p c : N)                    (* InnerTransportEvent::ConnectionClosed *)
| ESubIn (p c : N) (m : bool)          (* inbound SubstreamOpened on connection c; m: negotiated name = main name *)
| ESubOut (id : N) (m : bool)          (* the connection answers open `id` with SubstreamOpened *)
| ESubFail (id : N)                    (* SubstreamOpenFailure for `id` *)
| EDialFail (p : N)                    (* DialFailure *)
| EOpen (p : N)                        (* the protocol calls open_substream(p) *)
| EDropSub (c : N)                     (* the protocol drops one substream of connection c *)
| EOtherUp (c : N)                     (* another protocol upgrades / acquires a strong sender of c *)
| EOtherDown (c : N)                   (* ... and releases one *)
| EBump (n : N)                        (* other TransportServices draw n ids from the shared counter *)
| EShutSub (c : N)
                   (* the protocol shuts down the write half of a substream of c it keeps holding *)
| EOpenFull (p : N)                    (* open_substream(p) while the primary's command channel is full *)
| EForce (p : N) (fs fp : bool).       (* force_close(p); fs / fp: the secondary's / primary's command channel is full *)

Inductive out :=
| OEst (p : N)                         (* TransportEvent::ConnectionEstablished *)
| OClosed (p : N)                      (* TransportEvent::ConnectionClosed *)
| OSub (p : N) (dir : option N)        (* TransportEvent::SubstreamOpened, Some id = Outbound(id) *)
| OFail (id : N) (gp : option N)       (* SubstreamOpenFailure; gp is GHOST: peer the open was for *)
| ODial (p : N)                        (* TransportEvent::DialFailure *)
| ORet (r : N) (id : N)                (* open_substream returned: r=0 Ok(id), 1 PeerDoesNotExist, 2 ConnectionClosed, 3 ChannelClogged *)
| OCmd (c id : N)                      (* OpenSubstream{id} appeared on the command channel of connection c *)
| ODown (p c : N)                      (* the handle of (p,c) went Active -> Inactive (keep-alive timeout) *)
| OPanic                               (* debug_assert!(false): closed event for an unknown peer *)
| OForce (c : N)                       (* ForceClose appeared on the command channel of connection c *)
| ORetF (r : N)                        (* force_close returned: 0 Ok, 1 PeerDoesntExist, 2 ConnectionClosed, 3 ChannelClogged *)
| OSkip.                               (* the environment could not perform the input (no permit / not pending) *)

(* ---- handles inside contexts ---- *)
Definition ids_of (cx : ctx) : list N :=
  h_id (c_prim cx) :: match c_sec cx with Some h => [h_id h] | None => [] end.
Definition conn_ids (l : list ctx) (p : N) : list N :=
  match find_ctx p l with Some cx => ids_of cx | None => [] end.

(* ConnectionContext::{downgrade,try_upgrade}: primary first, then secondary *)
Definition cx_set_act (cx : ctx) (c : N) (b : bool) : ctx :=
  if h_id (c_prim cx) =? c then mkCtx (c_peer cx) (mkH c b) (c_sec cx)
  else match c_sec cx with
       | Some h => if h_id h =? c then mkCtx (c_peer cx) (c_prim cx) (Some (mkH c b)) else cx
       | None => cx
       end.
Definition cx_act (cx : ctx) (c : N) : bool :=
  if h_id (c_prim cx) =? c then h_act (c_prim cx)
  else match c_sec cx with
       | Some h => if h_id h =? c then h_act h else false
       | None => false
       end.
Definition handle_active (l : list ctx) (k : key) : bool :=
  match find_ctx (fst k) l with Some cx => cx_act cx (snd k) | None => false end.
Definition set_active (l : list ctx) (k : key) (b : bool) : list ctx :=
  match find_ctx (fst k) l with Some cx => set_ctx (cx_set_act cx (snd k) b) l | None => l end.

(* some handle of the service for connection id c is Active *)
Definition cx_strong (cx : ctx) (c : N) : bool :=
  ((h_id (c_prim cx) =? c) && h_act (c_prim cx)) ||
  match c_sec cx with Some h => (h_id h =? c) && h_act h | None => false end.
Definition svc_strong (l : list ctx) (c : N) : bool := existsb (fun cx => cx_strong cx c) l.

Definition pend_on (c : N) (l : list (N * key)) : N :=
  N.of_nat (length (filter (fun e => snd (snd e) =? c) l)).
Definition ch_other_of (c : N) (l : list chan) : N := match find_ch c l with Some x => ch_other x | None => 0 end.
Definition ch_held_of (c : N) (l : list chan) : N := match find_ch c l with Some x => ch_held x | None => 0 end.

(* number of strong senders of connection c's command channel (tokio mpsc): the connection task
   exits when this reaches 0 *)
Definition strong (s : st) (c : N) : N :=
  (if svc_strong (s_ctxs s) c then 1 else 0) + ch_other_of c (s_chans s) + ch_held_of c (s_chans s)
  + pend_on c (s_pend s).

(* ---- KeepAliveTracker ---- *)
(* substream_activity: record `now`; arm a sleep only if the key was not tracked *)
Definition activity (s : st) (k : key) : st :=
  match kfind k (s_last s) with
  | Some _ => with_trk s (kset k (s_now s) (s_last s)) (s_timers s)
  | None => with_trk s (kset k (s_now s) (s_last s)) (s_timers s ++ [(k, s_now s + s_T s)])
  end.

(* poll_next of the tracker, run to quiescence at time `now`: every due sleep is taken; it is
   dropped (key untracked), re-armed for the remainder T - (now - last), or expires *)
Fixpoint fire (T now : N) (ts : list (key * N)) (last : list (key * N))
  : list (key * N) * list (key * N) * list key :=
  match ts with
  | [] => ([], last, [])
  | (k, due) :: t =>
      if due <=? now then
        match kfind k last with
        | None => fire T now t last
        | Some la =>
            if now - la <? T then
              let '(ts', l', ex) := fire T now t last in ((k, now + (T - (now - la))) :: ts', l', ex)
            else
              let '(ts', l', ex) := fire T now t (kdel k last) in (ts', l', k :: ex)
        end
      else let '(ts', l', ex) := fire T now t last in ((k, due) :: ts', l', ex)
  end.

(* TransportService::poll_next, second loop: downgrade every expired key that is still known *)
Fixpoint downgrade_all (l : list ctx) (ex : list key) : list ctx * list out :=
  match ex with
  | [] => (l, [])
  | k :: t =>
      let was := handle_active l k in
      let '(l', os) := downgrade_all (set_active l k false) t in
      (l', if was then ODown (fst k) (snd k) :: os else os)
  end.

Definition poll_timers (s : st) : st * list out :=
  let '(ts, la, ex) := fire (s_T s) (s_now s) (s_timers s) (s_last s) in
  let '(cs, os) := downgrade_all (s_ctxs s) ex in
  (with_ctxs (with_trk s la ts) cs, os).

(* ---- handlers ---- *)
Definition add_chan (s : st) (c : N) : st :=
  match find_ch c (s_chans s) with
  | Some _ => s
  | None => with_chans s (s_chans s ++ [mkCh c 0 0])
  end.

Definition on_established (s : st) (p c : N) : st * list out :=
  let s := add_chan s c in
  match find_ctx p (s_ctxs s) with
  | Some cx =>
      match c_sec cx with
      | Some _ => (s, [])                                        (* third connection: ignored, handle dropped *)
      | None =>
          let s := activity s (p, c) in
          (with_ctxs s (set_ctx (mkCtx p (c_prim cx) (Some (mkH c true))) (s_ctxs s)), [])
      end
  | None =>
      let s := with_ctxs s (s_ctxs s ++ [mkCtx p (mkH c true) None]) in
      (activity s (p, c), [OEst p])
  end.

Definition on_closed (s : st) (p c : N) : st * list out :=
  let s := with_trk s (kdel (p, c) (s_last s)) (s_timers s) in
  (* environment: the connection is gone, so are the permits it held and the other protocols' handles *)
  let s := with_pend s (filter (fun e => negb (snd (snd e) =? c)) (s_pend s)) in
  let s := match find_ch c (s_chans s) with
           | Some x => with_chans s (set_ch (mkCh c 0 (ch_held x)) (s_chans s))
           | None => s
           end in
  match find_ctx p (s_ctxs s) with
  | None => (s, [OPanic])
  | Some cx =>
      if h_id (c_prim cx) =? c then
        match c_sec cx with
        | None => (with_ctxs s (del_ctx p (s_ctxs s)), [OClosed p])
        | Some h => (with_ctxs s (set_ctx (mkCtx p h None) (s_ctxs s)), [])
        end
      else (with_ctxs s (set_ctx (mkCtx p (c_prim cx) None) (s_ctxs s)), [])   (* secondary.take() *)
  end.

(* the part of the SubstreamOpened handler that is shared by inbound and outbound substreams *)
Definition sub_opened (s : st) (p c : N) (m : bool) : st :=
  let s := if m && s_ka s then
             let s := activity s (p, c) in with_ctxs s (set_active (s_ctxs s) (p, c) true)
           else s in
  (* the opening permit is dropped; the substream keeps a lifetime permit iff keep-alive *)
  if s_ka s then
    match find_ch c (s_chans s) with
    | Some x => with_chans s (set_ch (mkCh c (ch_other x) (ch_held x + 1)) (s_chans s))
    | None => with_chans s (s_chans s ++ [mkCh c 0 1])
    end
  else s.

Fixpoint pfind (id : N) (l : list (N * key)) : option key :=
  match l with
  | [] => None
  | (i, k) :: t => if i =? id then Some k else pfind id t
  end.
Definition pdel (id : N) (l : list (N * key)) : list (N * key) :=
  filter (fun e => negb (fst e =? id)) l.

Definition on_open (s : st) (p : N) : st * list out :=
  match find_ctx p (s_ctxs s) with
  | None => (s, [ORet 1 0])
  | Some cx =>
      let c := h_id (c_prim cx) in
      if h_act (c_prim cx) || (0 <? strong s c) then           (* try_get_permit *)
        let id := s_next s in
        let s := with_next s ((id + 1) mod ID_MOD) in
        let s := if s_ka s then
                   let s := activity s (p, c) in
                   with_ctxs s (set_ctx (mkCtx p (mkH c true) (c_sec cx)) (s_ctxs s))   (* try_upgrade *)
                 else s in
        (with_pend s (s_pend s ++ [(id, (p, c))]), [ORet 0 id; OCmd c id])
      else (s, [ORet 2 0])
  end.

(* open_substream when try_send finds the command channel full: the permit was taken, the id
   was drawn, the activity was recorded and the handle upgraded — then ChannelClogged; nothing is
   in flight (the permit is dropped with the rejected command) *)
Definition on_open_full (s : st) (p : N) : st * list out :=
  match find_ctx p (s_ctxs s) with
  | None => (s, [ORet 1 0])
  | Some cx =>
      let c := h_id (c_prim cx) in
      if h_act (c_prim cx) || (0 <? strong s c) then
        let id := s_next s in
        let s := with_next s ((id + 1) mod ID_MOD) in
        let s := if s_ka s then
                   let s := activity s (p, c) in
                   with_ctxs s (set_ctx (mkCtx p (mkH c true) (c_sec cx)) (s_ctxs s))
                 else s in
        (s, [ORet 3 0])
      else (s, [ORet 2 0])
  end.

(* TransportService::force_close: ForceClose is sent to the secondary first (its result is
   ignored), then to the primary, whose result is returned. ConnectionHandle::force_close sends
   through the strong sender, or through an upgraded weak one (ConnectionClosed when no strong
   sender is left), with try_send (ChannelClogged when the channel is full). The command carries
   no permit, and nothing in the service changes. *)
Definition force_one (s : st) (h : handle) (full : bool) : list out * N :=
  if h_act h || (0 <? strong s (h_id h)) then
    if full then ([], 3) else ([OForce (h_id h)], 0)
  else ([], 2).
Definition force_outs (s : st) (p : N) (fs fp : bool) : list out :=
  match find_ctx p (s_ctxs s) with
  | None => [ORetF 1]
  | Some cx =>
      match c_sec cx with Some h => fst (force_one s h fs) | None => [] end ++
      fst (force_one s (c_prim cx) fp) ++ [ORetF (snd (force_one s (c_prim cx) fp))]
  end.

Definition handle_ev (s : st) (e : ev) : st * list out :=
  match e with
  | ENone => (s, [])
  | EEst p c => on_established s p c
  | EClosed p c => on_closed s p c
  | ESubIn p c m =>
      if 0 <? strong s c then (sub_opened s p c m, [OSub p None]) else (s, [OSkip])
  | ESubOut id m =>
      match pfind id (s_pend s) with
      | Some (p, c) => (sub_opened (with_pend s (pdel id (s_pend s))) p c m, [OSub p (Some id)])
      | None => (s, [OSkip])
      end
  | ESubFail id =>
      (with_pend s (pdel id (s_pend s)), [OFail id (option_map fst (pfind id (s_pend s)))])
  | EDialFail p => (s, [ODial p])
  | EOpen p => on_open s p
  | EDropSub c =>
      match find_ch c (s_chans s) with
      | Some x => if 0 <? ch_held x
                  then (with_chans s (set_ch (mkCh c (ch_other x) (ch_held x - 1)) (s_chans s)), [])
                  else (s, [OSkip])
      | None => (s, [OSkip])
      end
  | EOtherUp c =>
      match find_ch c (s_chans s) with
      | Some x => if 0 <? strong s c
                  then (with_chans s (set_ch (mkCh c (ch_other x + 1) (ch_held x)) (s_chans s)), [])
                  else (s, [OSkip])
      | None => (s, [OSkip])
      end
  | EOtherDown c =>
      match find_ch c (s_chans s) with
      | Some x => if 0 <? ch_other x
                  then (with_chans s (set_ch (mkCh c (ch_other x - 1) (ch_held x)) (s_chans s)), [])
                  else (s, [OSkip])
      | None => (s, [OSkip])
      end
  | EBump n => (with_next s ((s_next s + n) mod ID_MOD), [])
  | EShutSub c =>
      (* half-closing is not dropping: the substream keeps its lifetime permit *)
      match find_ch c (s_chans s) with
      | Some x => if 0 <? ch_held x then (s, []) else (s, [OSkip])
      | None => (s, [OSkip])
      end
  | EOpenFull p => on_open_full s p
  | EForce p fs fp => (s, force_outs s p fs fp)
  end.

(* SPECIFICATION of "keep-alive activity" (independent of the handlers above): which (peer,
   connection) an input counts for, read off the property text — a connection being established
   and accepted, and, for a keep-alive protocol only, a substream being opened or requested. *)
Definition ka_activity_of (s : st) (e : ev) : option key :=
  match e with
  | EEst p c =>
      match find_ctx p (s_ctxs s) with
      | Some cx => match c_sec cx with Some _ => None | None => Some (p, c) end
      | None => Some (p, c)
      end
  | ESubIn p c m => if (0 <? strong s c) && m && s_ka s then Some (p, c) else None
  | ESubOut id m => if m && s_ka s then pfind id (s_pend s) else None
  | EOpen p | EOpenFull p =>
      match find_ctx p (s_ctxs s) with
      | Some cx =>
          if (h_act (c_prim cx) || (0 <? strong s (h_id (c_prim cx)))) && s_ka s
          then Some (p, h_id (c_prim cx)) else None
      | None => None
      end
  | _ => None
  end.

(* how many ids an input can draw from the shared counter at most *)
Definition draw_of (e : ev) : N :=
  match e with EOpen _ | EOpenFull _ => 1 | EBump n => n | _ => 0 end.

Definition step (s : st) (dt : N) (e : ev) : st * list out :=
  let s := with_now s (s_now s + dt) in
  let gk := ka_activity_of s e in
  let '(s1, o1) := handle_ev s e in
  let s1 := match gk with
            | Some k => with_act s1 (kset k (s_now s1) (s_act s1))     (* ghost only *)
            | None => s1
            end in
  let '(s2, o2) := poll_timers s1 in
  (s2, o1 ++ o2).

Fixpoint run (s : st) (tr : list (N * ev)) : list (list out) :=
  match tr with
  | [] => []
  | (dt, e) :: t => let '(s', os) := step s dt e in os :: run s' t
  end.
Fixpoint final (s : st) (tr : list (N * ev)) : st :=
  match tr with
  | [] => s
  | (dt, e) :: t => final (fst (step s dt e)) t
  end.

(* ---- the environment assumption (C06's guarantee + per-connection FIFO of the connection task):
        connection ids are fresh, at most `cap` connections of a peer are open at a time, closed /
        substream notifications refer to an open connection, answers refer to an open request ---- *)
Record env := mkEnv { e_live : list key; e_used : list N }.
Definition live_of (p : N) (live : list key) : list N :=
  map snd (filter (fun k => fst k =? p) live).
Definition env_step (e : env) (i : ev) : env :=
  match i with
  | EEst p c => mkEnv (e_live e ++ [(p, c)]) (c :: e_used e)
  | EClosed p c => mkEnv (filter (fun k => negb (key_eqb k (p, c))) (e_live e)) (e_used e)
  | _ => e
  end.
Definition ev_ok (cap : nat) (e : env) (s : st) (i : ev) : bool :=
  match i with
  | EEst p c => negb (existsb (N.eqb c) (e_used e)) && Nat.ltb (length (live_of p (e_live e))) cap
  | EClosed p c => existsb (key_eqb (p, c)) (e_live e)
  | ESubIn p c _ => existsb (key_eqb (p, c)) (e_live e)
  | ESubOut id _ => match pfind id (s_pend s) with Some _ => true | None => false end
  | ESubFail id => match pfind id (s_pend s) with Some _ => true | None => false end
  | _ => true
  end.
Fixpoint feasible (cap : nat) (e : env) (s : st) (tr : list (N * ev)) : bool :=
  match tr with
  | [] => true
  | (dt, i) :: t => ev_ok cap e s i && feasible cap (env_step e i) (fst (step s dt i)) t
  end.
Definition env0 : env := mkEnv [] [].
