(* Tcp — "exactly one outcome" at the transport: over a whole history (of any length, of any of the
   three transports) an id passed to `open` is answered by at most one of ConnectionOpened /
   OpenFailure, and an id passed to `dial` (or negotiated after its ConnectionOpened) by at most one of
   ConnectionEstablished / DialFailure; an id that was answered, or cancelled, is never owed again.
   Together with the progress theorems of Theorems.v (what is owed is backed by a pending future, and
   the poll that observes its completion emits the answer) this is "exactly one".

   The proof is a token argument on the ghost state: every id holds at most one token, which moves
   owed open -> opened -> owed negotiate -> answered (or owed open -> failed / cancelled); only a call
   with a fresh id creates one. *)
From Coq Require Import List NArith Bool Lia PeanoNat.
From Coq Require Import ZifyBool ZifyNat ZifyN.
From V.Tcp Require Import Model Proofs Theorems Variants.
Import ListNotations.
Open Scope N_scope.

Arguments N.add : simpl never.
Arguments N.eqb : simpl never.
Arguments N.of_nat : simpl never.
Arguments put : simpl never.
Arguments lookup : simpl never.
Arguments delk : simpl never.
Arguments add : simpl never.
Arguments del : simpl never.
Arguments mem : simpl never.

(* ---------- the answers of a history ---------- *)
Definition open_ans (c : conn) (o : outp) : bool :=
  match o with
  | OEv (TOpened x) | OEv (TOpenFailure x) => x =? c
  | _ => false
  end.

Definition neg_ans (c : conn) (o : outp) : bool :=
  match o with
  | OEv (TEstablished x _ false) | OEv (TDialFailure x) => x =? c
  | _ => false
  end.

Definition cnt (p : outp -> bool) (os : list outp) : nat := length (filter p os).

Lemma cnt_app p a b : cnt p (a ++ b) = (cnt p a + cnt p b)%nat.
Proof. unfold cnt. rewrite filter_app, app_length. reflexivity. Qed.

(* histories together with everything they emitted, oldest first *)
Inductive reachH : tcp -> ghost -> list outp -> Prop :=
| reachH0 : reachH init g0 []
| reachHS s g h e : reachH s g h -> caller_ok g e = true ->
                    reachH (fst (step s e)) (gstep e (snd (step s e)) g) (h ++ snd (step s e)).

Lemma reachH_reach s g h : reachH s g h -> reach s g.
Proof. induction 1; [constructor|constructor; assumption]. Qed.

(* ---------- membership as a number ---------- *)
Definition bn (b : bool) : nat := if b then 1%nat else 0%nat.

Lemma mem_cons x y l : mem x (y :: l) = (y =? x) || mem x l.
Proof. unfold mem. cbn [existsb]. rewrite (N.eqb_sym x y). reflexivity. Qed.

Lemma mem_del x y l : mem x (del y l) = mem x l && negb (x =? y).
Proof.
  destruct (mem x (del y l)) eqn:E.
  - apply mem_in, in_del in E. destruct E as [E1 E2]. apply mem_in in E1. apply N.eqb_neq in E2.
    rewrite E1, E2. reflexivity.
  - apply mem_false in E. destruct (mem x l) eqn:E1; [|reflexivity]. destruct (x =? y) eqn:E2; [reflexivity|].
    exfalso. apply E. apply in_del. split; [apply mem_in; exact E1|apply N.eqb_neq; exact E2].
Qed.

Lemma mem_add x y l : mem x (add y l) = (x =? y) || mem x l.
Proof.
  destruct (mem x (add y l)) eqn:E.
  - apply mem_in, in_add in E. destruct E as [->|E]; [rewrite N.eqb_refl; reflexivity|].
    apply mem_in in E. rewrite E. symmetry. apply orb_true_r.
  - apply mem_false in E. destruct (x =? y) eqn:E2.
    + apply N.eqb_eq in E2. subst. exfalso. apply E, in_add. left. reflexivity.
    + destruct (mem x l) eqn:E1; [|reflexivity]. exfalso. apply E, in_add. right. apply mem_in. exact E1.
Qed.

(* ---------- the token invariant, per id ---------- *)
Lemma cnt_one p o : cnt p [o] = bn (p o).
Proof. unfold cnt. cbn [filter]. destruct (p o); reflexivity. Qed.

Definition Tok (g : ghost) (h : list outp) (c : conn) : Prop :=
  (cnt (open_ans c) h + bn (mem c (g_open g)) <= 1)%nat /\
  (cnt (neg_ans c) h + bn (mem c (g_neg g)) + bn (mem c (g_opened g)) + bn (mem c (g_open g)) <= 1)%nat /\
  (bn (mem c (g_used g)) = 0 ->
   cnt (open_ans c) h + cnt (neg_ans c) h +
   bn (mem c (g_open g)) + bn (mem c (g_neg g)) + bn (mem c (g_opened g)) = 0)%nat.

Lemma Tok_init c : Tok g0 [] c.
Proof. unfold Tok, cnt, mem. cbn. repeat split; lia. Qed.

Ltac atoms c g :=
  destruct (mem c (g_open g)), (mem c (g_neg g)), (mem c (g_opened g)), (mem c (g_used g));
  cbn [bn negb andb orb] in *; lia.

(* one output that the contract allows *)
Lemma tok_out g h c o :
  Tok g h c -> match o with OEv t => tfeas g t = true | _ => True end ->
  Tok (gout g o) (h ++ [o]) c.
Proof.
  intros T F. unfold Tok in *. rewrite !cnt_app, !cnt_one.
  destruct o as [b|x|t|m]; cbn [gout open_ans neg_ans bn]; try (atoms c g).
  destruct t as [x|x|x|x q [|]|x]; cbn [gev g_open g_neg g_opened g_used tfeas open_ans neg_ans] in *;
    try (cbn [bn]; atoms c g).
  - (* Opened x *)
    rewrite !mem_del, mem_add. destruct (N.eq_dec x c) as [->|Hne].
    + rewrite N.eqb_refl. rewrite F in *. cbn [negb andb orb bn] in *. atoms c g.
    + assert (E : (x =? c) = false) by (apply N.eqb_neq; exact Hne).
      assert (E' : (c =? x) = false) by (apply N.eqb_neq; congruence).
      rewrite E, E'. cbn [negb orb bn]. rewrite !andb_true_r. atoms c g.
  - (* OpenFailure x *)
    rewrite !mem_del. destruct (N.eq_dec x c) as [->|Hne].
    + rewrite N.eqb_refl. rewrite F in *. cbn [negb andb orb bn] in *. atoms c g.
    + assert (E : (x =? c) = false) by (apply N.eqb_neq; exact Hne).
      assert (E' : (c =? x) = false) by (apply N.eqb_neq; congruence).
      rewrite E, E'. cbn [negb orb bn]. rewrite !andb_true_r. atoms c g.
  - (* Established x, dialer side *)
    apply andb_prop in F. destruct F as [F _]. rewrite !mem_del. destruct (N.eq_dec x c) as [->|Hne].
    + rewrite N.eqb_refl. rewrite F in *. cbn [negb andb orb bn] in *. atoms c g.
    + assert (E : (x =? c) = false) by (apply N.eqb_neq; exact Hne).
      assert (E' : (c =? x) = false) by (apply N.eqb_neq; congruence).
      rewrite E, E'. cbn [negb orb bn]. rewrite !andb_true_r. atoms c g.
  - (* DialFailure x *)
    rewrite !mem_del. destruct (N.eq_dec x c) as [->|Hne].
    + rewrite N.eqb_refl. rewrite F in *. cbn [negb andb orb bn] in *. atoms c g.
    + assert (E : (x =? c) = false) by (apply N.eqb_neq; exact Hne).
      assert (E' : (c =? x) = false) by (apply N.eqb_neq; congruence).
      rewrite E, E'. cbn [negb orb bn]. rewrite !andb_true_r. atoms c g.
Qed.

Lemma tok_outs os : forall g h c, Tok g h c -> audit g os = true -> Tok (fold_left gout os g) (h ++ os) c.
Proof.
  induction os as [|o r IH]; intros g h c T A; [rewrite app_nil_r; exact T|].
  cbn [fold_left]. replace (h ++ o :: r) with ((h ++ [o]) ++ r) by (rewrite <- app_assoc; reflexivity).
  apply IH.
  - apply tok_out; [exact T|]. destruct o as [b|x|t|m]; try exact I.
    unfold audit in A. cbn [audit_by] in A. apply andb_prop in A. exact (proj1 A).
  - unfold audit in *. destruct o as [b|x|t|m]; cbn [audit_by gout] in *; try exact A.
    apply andb_prop in A. exact (proj2 A).
Qed.

(* the call itself: only a call with a fresh id creates a token *)
Lemma tok_call s g h e os c :
  InvC s g -> caller_ok g e = true -> call_ok e g os = true ->
  Tok g h c -> Tok (gcall e os g) h c.
Proof.
  intros C Hc Hk T. unfold Tok in *.
  assert (Hfresh : forall x, mem x (g_drawn g) = true -> mem x (g_used g) = false).
  { intros x H. apply mem_false. intros Hu. apply mem_in in H. exact (c_drawn_used _ _ C x H Hu). }
  destruct e as [|x valid ex|x es|x|x|x|x|x|x| | |f i ans|f]; cbn [gcall]; try exact T.
  - (* Dial x *)
    destruct (ret_ok os); [|exact T]. cbn [g_open g_neg g_opened g_used].
    cbn [caller_ok] in Hc. pose proof (Hfresh x Hc) as Hu. rewrite !mem_cons.
    destruct (N.eq_dec x c) as [->|Hne].
    + rewrite N.eqb_refl, Hu in *. cbn [orb bn] in *. atoms c g.
    + assert (E : (x =? c) = false) by (apply N.eqb_neq; exact Hne). rewrite E. cbn [orb]. exact T.
  - (* Open x *)
    cbn [g_open g_neg g_opened g_used]. cbn [caller_ok] in Hc. pose proof (Hfresh x Hc) as Hu. rewrite !mem_cons.
    destruct (N.eq_dec x c) as [->|Hne].
    + rewrite N.eqb_refl, Hu in *. cbn [orb bn] in *. atoms c g.
    + assert (E : (x =? c) = false) by (apply N.eqb_neq; exact Hne). rewrite E. cbn [orb]. exact T.
  - (* Negotiate x *)
    cbn [g_open g_neg g_opened g_used]. cbn [call_ok] in Hk. apply Bool.eqb_prop in Hk. rewrite mem_del.
    destruct (N.eq_dec x c) as [->|Hne].
    + rewrite N.eqb_refl, Hk. cbn [negb]. rewrite andb_false_r.
      destruct (mem c (g_opened g)) eqn:Eo.
      * rewrite mem_cons, N.eqb_refl. cbn [orb bn] in *.
        destruct (mem c (g_open g)), (mem c (g_neg g)), (mem c (g_used g)); cbn [bn] in *; lia.
      * cbn [bn] in *. destruct (mem c (g_open g)), (mem c (g_neg g)), (mem c (g_used g)); cbn [bn] in *; lia.
    + assert (E' : (c =? x) = false) by (apply N.eqb_neq; congruence). rewrite E'. cbn [negb]. rewrite andb_true_r.
      destruct (ret_ok os); [|exact T].
      rewrite mem_cons. assert (E : (x =? c) = false) by (apply N.eqb_neq; exact Hne). rewrite E. cbn [orb]. exact T.
  - (* Cancel x *)
    cbn [g_open g_neg g_opened g_used]. rewrite mem_del. destruct (negb (c =? x)); [rewrite andb_true_r; exact T|].
    rewrite andb_false_r. atoms c g.
  - (* AcceptPending *)
    destruct (ret_ok os); exact T.
Qed.

(* the invariant over every history *)
Lemma reachH_tok s g h : reachH s g h -> forall c, Tok g h c.
Proof.
  induction 1 as [|s g h e R IH Hc]; intros c; [apply Tok_init|].
  pose proof (reachH_reach _ _ _ R) as R'. destruct (reach_inv _ _ R') as [U C].
  destruct (stepC s g e U C Hc) as (_ & A & _).
  pose proof (tcp_call_results s g e (reach_reachU _ _ R')) as K.
  unfold gstep. apply tok_outs; [|exact A]. eapply tok_call; eauto.
Qed.

(* ---------- the theorems ---------- *)
(* over a whole history: at most one open-phase answer and at most one negotiate-phase answer per id *)
Theorem tcp_answers_at_most_once s g h c :
  reachH s g h -> (cnt (open_ans c) h <= 1)%nat /\ (cnt (neg_ans c) h <= 1)%nat.
Proof. intros R. destruct (reachH_tok _ _ _ R c) as (T1 & T2 & _). lia. Qed.

(* what is still owed has not been answered; an id is in at most one phase *)
Theorem tcp_owed_not_answered s g h c :
  reachH s g h ->
  (In c (g_open g) -> cnt (open_ans c) h = 0%nat /\ cnt (neg_ans c) h = 0%nat /\ ~ In c (g_neg g) /\ ~ In c (g_opened g)) /\
  (In c (g_neg g) -> cnt (neg_ans c) h = 0%nat /\ ~ In c (g_open g) /\ ~ In c (g_opened g)).
Proof.
  intros R. destruct (reachH_tok _ _ _ R c) as (T1 & T2 & _). split; intros H; apply mem_in in H; rewrite H in *; cbn [bn] in *.
  - destruct (mem c (g_neg g)) eqn:E1; destruct (mem c (g_opened g)) eqn:E2; cbn [bn] in *; try lia.
    apply mem_false in E1. apply mem_false in E2. repeat split; try lia; assumption.
  - destruct (mem c (g_open g)) eqn:E1; destruct (mem c (g_opened g)) eqn:E2; cbn [bn] in *; try lia.
    apply mem_false in E1. apply mem_false in E2. repeat split; try lia; assumption.
Qed.

(* nothing is ever answered for an id the owner did not pass to dial / open *)
Theorem tcp_no_answer_without_call s g h c :
  reachH s g h -> ~ In c (g_used g) -> cnt (open_ans c) h = 0%nat /\ cnt (neg_ans c) h = 0%nat.
Proof.
  intros R Hn. destruct (reachH_tok _ _ _ R c) as (_ & _ & T3). apply mem_false in Hn.
  rewrite Hn in T3. cbn [bn] in T3. lia.
Qed.

(* ---------- the same for each transport ---------- *)
Inductive treachH (t : transport) : tcp -> ghost -> list outp -> Prop :=
| treachH0 : treachH t init g0 []
| treachHS s g h k : treachH t s g h -> call_plain t k = true -> caller_ok g (ev_of t k) = true ->
                     treachH t (fst (tstep t s k)) (gstep (ev_of t k) (snd (tstep t s k)) g)
                             (h ++ snd (tstep t s k)).

Lemma treachH_reachH t s g h : treachH t s g h -> reachH s g h.
Proof. induction 1; [constructor|]. unfold tstep. constructor; assumption. Qed.

Theorem t_answers_at_most_once t s g h c :
  treachH t s g h -> (cnt (open_ans c) h <= 1)%nat /\ (cnt (neg_ans c) h <= 1)%nat.
Proof. intros R. exact (tcp_answers_at_most_once s g h c (treachH_reachH _ _ _ _ R)). Qed.

Theorem t_owed_not_answered t s g h c :
  treachH t s g h ->
  (In c (g_open g) -> cnt (open_ans c) h = 0%nat /\ cnt (neg_ans c) h = 0%nat /\ ~ In c (g_neg g) /\ ~ In c (g_opened g)) /\
  (In c (g_neg g) -> cnt (neg_ans c) h = 0%nat /\ ~ In c (g_open g) /\ ~ In c (g_opened g)).
Proof. intros R. exact (tcp_owed_not_answered s g h c (treachH_reachH _ _ _ _ R)). Qed.

Theorem t_no_answer_without_call t s g h c :
  treachH t s g h -> ~ In c (g_used g) -> cnt (open_ans c) h = 0%nat /\ cnt (neg_ans c) h = 0%nat.
Proof. intros R. exact (tcp_no_answer_without_call s g h c (treachH_reachH _ _ _ _ R)). Qed.

(* ---------- concrete histories of the WebSocket and the QUIC front end (non-vacuity) ---------- *)
Fixpoint trun (t : transport) (s : tcp) (ks : list tcall) : tcp * list (list outp) :=
  match ks with
  | [] => (s, [])
  | k :: r => let '(s1, os) := tstep t s k in let '(s2, rr) := trun t s1 r in (s2, os :: rr)
  end.

Fixpoint tcallers_ok (t : transport) (s : tcp) (g : ghost) (ks : list tcall) : bool :=
  match ks with
  | [] => true
  | k :: r => call_plain t k && caller_ok g (ev_of t k) &&
              tcallers_ok t (fst (tstep t s k)) (gstep (ev_of t k) (snd (tstep t s k)) g) r
  end.

Definition lo4 : C10.Model.comp := C10.Model.Ip4 C10.Model.Loop 0.
Definition ws_addr (p : peer) : C10.Model.maddr := [lo4; C10.Model.Tcp 30333; C10.Model.Ws; C10.Model.P2p p].
Definition ws_addr_anon : C10.Model.maddr := [lo4; C10.Model.Tcp 30333; C10.Model.Ws].
Definition tcp_addr (p : peer) : C10.Model.maddr := [lo4; C10.Model.Tcp 30333; C10.Model.P2p p].
Definition quic_addr (p : peer) : C10.Model.maddr := [lo4; C10.Model.Udp 30333; C10.Model.QuicV1; C10.Model.P2p p].
Definition quic_addr_anon : C10.Model.maddr := [lo4; C10.Model.Udp 30333; C10.Model.QuicV1].

(* WebSocket: dial refuses an address without /p2p and a TCP address; of the three addresses of an
   open only the well-formed one becomes an attempt; it is answered by identity 2 instead of peer 1:
   OpenFailure. A second open is answered by peer 1: ConnectionOpened, cancel + negotiate,
   ConnectionEstablished for peer 1 *)
Definition ws_history : list tcall :=
  [XEv EDraw; XDial 0 ws_addr_anon; XDial 0 (tcp_addr 1);
   XOpen 0 [ws_addr_anon; ws_addr 1; tcp_addr 1]; XEv (EAns 0 0 (Some 2));
   XEv EDraw; XOpen 1 [ws_addr 1]; XEv (EAns 1 0 (Some 1));
   XEv (ECancel 1); XEv (ENegotiate 1); XEv EPoll].

Lemma ws_history_ok :
  tcallers_ok TWs init g0 ws_history = true /\
  snd (trun TWs init ws_history) =
  [[OId 0]; [ORet false]; [ORet false]; [ORet true]; [OEv (TOpenFailure 0)];
   [OId 1]; [ORet true]; [OEv (TOpened 1)]; []; [ORet true]; [OEv (TEstablished 1 1 false)]].
Proof. vm_compute. split; reflexivity. Qed.

(* QUIC: dial refuses an address without /p2p; a dial answered by the named peer; an open none of
   whose addresses is a QUIC address fails at the next poll *)
Definition quic_history : list tcall :=
  [XEv EDraw; XDial 0 quic_addr_anon; XDial 0 (quic_addr 1); XEv (EAns 0 0 (Some 1));
   XEv EDraw; XOpen 1 [quic_addr_anon; tcp_addr 1]; XEv EPoll].

Lemma quic_history_ok :
  tcallers_ok TQuic init g0 quic_history = true /\
  snd (trun TQuic init quic_history) =
  [[OId 0]; [ORet false]; [ORet true]; [OEv (TEstablished 0 1 false)];
   [OId 1]; [ORet true]; [OEv (TOpenFailure 1)]].
Proof. vm_compute. split; reflexivity. Qed.
