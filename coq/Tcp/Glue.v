(* Tcp — wire format, model runner and the trace oracle of the C05 transport streams (TCP, WebSocket,
   QUIC). Definitions only.

   case  = (9000 + transport) cfg n ev*
                               transport: 0 TCP, 1 WebSocket, 2 QUIC; cfg: harness-only configuration;
                               an address is (kind, named): the kind says where it leads (harness-only)
                               and what shape it has (`addr_of`: the multiaddress the harness builds, in
                               the grammar of coq/C10/Model.v), a named peer p is 0 = no /p2p component,
                               1 + identity otherwise. Whether the transport takes the address, and what
                               peer the attempt expects, is decided by `expect_of` of Variants.v
   trace = 1 (outs dump)*      one group per event, see `enc_outs` / `dump` *)
From Coq Require Import List NArith Bool.
From V.common Require Import Wire.
From V.C10 Require Model.
From V.Tcp Require Import Model Variants.
Import ListNotations.
Open Scope N_scope.

Definition STREAM_TAG : N := 9000.

Definition transport_of_tag (tag : N) : option transport :=
  if tag =? STREAM_TAG then Some TTcp
  else if tag =? STREAM_TAG + 1 then Some TWs
  else if tag =? STREAM_TAG + 2 then Some TQuic
  else None.

Definition is_stream_case (l : list N) : bool :=
  match l with
  | t :: _ => match transport_of_tag t with Some _ => true | None => false end
  | [] => false
  end.

(* ---- the multiaddresses of the harness (harness/src/c05_tcp.rs `World::address`) ---- *)
Definition lo : C10.Model.comp := C10.Model.Ip4 C10.Model.Loop 0.

Definition with_name (p : N) (m : C10.Model.maddr) : C10.Model.maddr :=
  match dec_opt p with Some q => m ++ [C10.Model.P2p q] | None => m end.

(* an address of the transport's own shape (the port is the harness's business) *)
Definition shaped (t : transport) (tls : bool) : C10.Model.maddr :=
  match t with
  | TTcp => [lo; C10.Model.Tcp 0]
  | TWs => [lo; C10.Model.Tcp 0; if tls then C10.Model.Wss else C10.Model.Ws]
  | TQuic => [lo; C10.Model.Udp 0; C10.Model.QuicV1]
  end.

(* a transport-level protocol no socket transport has *)
Definition malformed (t : transport) : C10.Model.maddr :=
  match t with
  | TQuic => [lo; C10.Model.Tcp 4001; C10.Model.Other 0]
  | _ => [lo; C10.Model.Udp 4001]
  end.

(* a well-formed address of another transport: ws-shaped for TCP, tcp-shaped for WebSocket / QUIC *)
Definition foreign (t : transport) : C10.Model.maddr :=
  match t with
  | TTcp => [lo; C10.Model.Tcp 1; C10.Model.Ws]
  | _ => [lo; C10.Model.Tcp 1]
  end.

(* kind: 0 gate to node A, 1 closed port, 2 malformed, 3 gate to node B, 4 another transport's
   address, 5 gate to node A through /wss (WebSocket only) *)
Definition addr_of (t : transport) (k p : N) : C10.Model.maddr :=
  match k with
  | 0 | 1 | 3 => with_name p (shaped t false)
  | 4 => with_name p (foreign t)
  | 5 => match t with TWs => with_name p (shaped t true) | _ => malformed t end
  | _ => malformed t
  end.

Definition p_addr (t : transport) : parser C10.Model.maddr :=
  let* k := pN in let* p := pN in pret (addr_of t k p).

Definition p_call (t : transport) : parser tcall :=
  let* tag := pN in
  match tag with
  | 0 => pret (XEv EDraw)
  | 1 => let* c := pN in let* a := p_addr t in pret (XDial c a)
  | 2 => let* c := pN in let* l := plist (p_addr t) in pret (XOpen c l)
  | 3 => let* c := pN in pret (XEv (ENegotiate c))
  | 4 => let* c := pN in pret (XEv (ECancel c))
  | 5 => let* c := pN in pret (XEv (EAccept c))
  | 6 => let* c := pN in pret (XEv (EReject c))
  | 7 => let* c := pN in pret (XEv (EAcceptPending c))
  | 8 => let* c := pN in pret (XEv (ERejectPending c))
  | 9 => pret (XEv EPoll)
  | 10 => let* _ := pN in pret (XEv EInbound)
  | 11 => let* f := pN in let* i := pN in let* r := pN in pret (XEv (EAns f i (dec_opt r)))
  | 12 => let* f := pN in
          if has_deadline t then pret (XEv (EExpire f)) else pfail   (* QUIC: no overall deadline *)
  | _ => pfail
  end.

Definition decode_calls (l : list N) : option (transport * list tcall) :=
  match l with
  | tag :: _ =>
      match transport_of_tag tag with
      | Some t =>
          match pall (let* _ := pN in let* _ := pN in plist (p_call t)) l with
          | Some ks => Some (t, ks)
          | None => None
          end
      | None => None
      end
  | [] => None
  end.

(* the events of the bookkeeping model *)
Definition decode_case (l : list N) : option (transport * list ev) :=
  match decode_calls l with
  | Some (t, ks) => Some (t, map (ev_of t) ks)
  | None => None
  end.

(* ---- outputs ---- *)
Definition enc_out (o : outp) : list (N * (N * N)) :=
  match o with
  | ORet b => [(1, (b2n b, 0))]
  | OId c => [(2, (c, 0))]
  | OEv (TPendingInbound c) => [(3, (c, 0))]
  | OEv (TOpened c) => [(4, (c, 0))]
  | OEv (TOpenFailure c) => [(5, (c, 0))]
  | OEv (TEstablished c q l) => [(6 + b2n l, (c, q))]
  | OEv (TDialFailure c) => [(8, (c, 0))]
  | OMark (MNoHandle c) => [(9, (c, 0))]
  | OMark (MCanceledNoHandle c) => [(10, (c, 0))]
  | OMark (MSilentFailure c _) => [(11, (c, 0))]
  | OMark (MAbortedLate _) => []           (* nothing is logged on that path *)
  end.

(* quic/mod.rs on_connection_established has no log line of its own for a failure without a
   pending_dials entry (its debug line is the same with and without one): nothing to observe *)
Definition logged (t : transport) (o : outp) : bool :=
  match t, o with
  | TQuic, OMark (MSilentFailure _ _) => false
  | _, _ => true
  end.

Definition enc_outs (t : transport) (os : list outp) : list N :=
  enc_list (fun p : N * (N * N) => [fst p; fst (snd p); snd (snd p)])
           (flat_map enc_out (filter (logged t) os)).

Definition enc_set (l : list N) : list N := enc_list (fun k => [k]) (sort_by (fun k => k) l).

(* tcp/mod.rs and websocket/mod.rs carry the dialled address of a connection opened by `open` inside
   the NegotiatedConnection; quic/mod.rs keeps it in `pending_dials` from negotiate(c) until the future
   pushed by negotiate is polled (that entry is what makes the endpoint a dialer): the map of the QUIC
   code is the model's plus the ids of the pending negotiate futures *)
Definition dials_of (t : transport) (s : tcp) : list conn :=
  match t with
  | TQuic => fold_left (fun acc (x : fut * (conn * kind)) =>
                          match snd (snd x) with KNeg => add (fst (snd x)) acc | _ => acc end)
                       (pconn s) (pending_dials s)
  | _ => pending_dials s
  end.

Definition dump (t : transport) (s : tcp) : list N :=
  [ctr s] ++ enc_set (dials_of t s) ++ enc_set (pending_inbound s) ++
  [N.of_nat (length (praw s)); N.of_nat (length (pconn s))] ++ enc_set (opened s) ++
  enc_list (fun p : N * N => [fst p; b2n (mem (snd p) (aborted s))]) (sort_by fst (cancel_futures s)) ++
  enc_set (pending_open s).

Fixpoint run_trace (t : transport) (s : tcp) (ks : list tcall) : list N :=
  match ks with
  | [] => []
  | k :: r => let '(s1, os) := tstep t s k in enc_outs t os ++ dump t s1 ++ run_trace t s1 r
  end.

Definition run_case (l : list N) : list N :=
  match decode_calls l with
  | Some (t, ks) => 1 :: run_trace t init ks
  | None => [0]
  end.

(* ---- the oracle: the transport contract judged on a trace ---- *)
Definition dec_out (p : N * (N * N)) : option outp :=
  let c := fst (snd p) in
  let q := snd (snd p) in
  match fst p with
  | 1 => Some (ORet (negb (c =? 0)))
  | 2 => Some (OId c)
  | 3 => Some (OEv (TPendingInbound c))
  | 4 => Some (OEv (TOpened c))
  | 5 => Some (OEv (TOpenFailure c))
  | 6 => Some (OEv (TEstablished c q false))
  | 7 => Some (OEv (TEstablished c q true))
  | 8 => Some (OEv (TDialFailure c))
  | 9 => Some (OMark (MNoHandle c))
  | 10 => Some (OMark (MCanceledNoHandle c))
  | 11 => Some (OMark (MSilentFailure c KInb))   (* the log line does not say what the future was *)
  | _ => None                                    (* e.g. the harness's "nothing happened" marker *)
  end.

Fixpoint dec_outs (l : list (N * (N * N))) : option (list outp) :=
  match l with
  | [] => Some []
  | p :: t => match dec_out p, dec_outs t with
              | Some o, Some r => Some (o :: r)
              | _, _ => None
              end
  end.

(* one observed step: outputs and the counter value of the dump *)
Definition p_obs : parser (list (N * (N * N)) * N) :=
  let* outs := plist (let* t := pN in let* c := pN in let* q := pN in pret (t, (c, q))) in
  let* ctr := pN in
  let* _ := plist pN in let* _ := plist pN in let* _ := pN in let* _ := pN in let* _ := plist pN in
  let* _ := plist (let* c := pN in let* a := pN in pret (c, a)) in
  let* _ := plist pN in
  pret (outs, ctr).

Definition decode_trace (n : nat) (l : list N) : option (list (list (N * (N * N)) * N)) :=
  match l with
  | 1 :: t => pall (prep n p_obs) t
  | _ => None
  end.

Definition tev_eqb (a b : tev) : bool :=
  match a, b with
  | TPendingInbound x, TPendingInbound y | TOpened x, TOpened y | TOpenFailure x, TOpenFailure y
  | TDialFailure x, TDialFailure y => x =? y
  | TEstablished x q l, TEstablished y r m => (x =? y) && (q =? r) && Bool.eqb l m
  | _, _ => false
  end.
Definition has_ev (t : tev) (os : list outp) : bool := existsb (tev_eqb t) (events os).

(* the futures as the calls created them: name -> (id, 0 raw | 1 dial | 2 inbound | 3 negotiate),
   and for a raw / dial future the addresses still being tried *)
Record ost := mkO {
  o_g : ghost; o_nfut : N; o_futs : list (fut * (conn * N)); o_att : list (fut * list (N * expect));
  o_cok : bool
}.
Definition o0 : ost := mkO g0 0 [] [] true.

Definition fut_of_call (e : ev) : option (conn * N) :=
  match e with
  | EOpen c _ => Some (c, 0) | EDial c _ _ => Some (c, 1) | EAcceptPending c => Some (c, 2)
  | ENegotiate c => Some (c, 3)
  | _ => None
  end.
Definition att_of_call (e : ev) : list (N * expect) :=
  match e with
  | EOpen _ es => number 0 es | EDial _ _ ex => [(0, ex)] | EAcceptPending _ => [(0, None)]
  | _ => []
  end.

Definition has_est (c : conn) (os : list outp) : bool :=
  existsb (fun t => match t with TEstablished x _ false => x =? c | _ => false end) (events os).

(* progress: no owed answer is dropped *)
Definition progress_ok (e : ev) (os : list outp) (st : ost) : bool :=
  let g := o_g st in
  (* a successful negotiate is answered by the next poll; so is an open without any address left *)
  (if polls e then
     forallb (fun x : fut * (conn * N) =>
                let '(f, (c, k)) := x in
                if (k =? 3) && mem c (g_neg g) then has_est c os
                else if (k =? 0) && mem c (g_open g) then
                       match lookup f (o_att st) with Some [] => has_ev (TOpenFailure c) os | _ => true end
                else true)
             (o_futs st)
   else true) &&
  match e with
  | EAns f i ans =>
      match lookup f (o_futs st), lookup f (o_att st) with
      | Some (c, k), Some rem =>
          match lookup i rem with
          | None => true
          | Some ex =>
              let won := match ans with Some q => if matches ex q then Some q else None | None => None end in
              let last := match delk i rem with [] => true | _ => false end in
              match k, won with
              | 0, Some _ => if mem c (g_open g) then has_ev (TOpened c) os else true
              | 0, None => if mem c (g_open g) && last then has_ev (TOpenFailure c) os else true
              | 1, Some q => if mem c (g_neg g) then has_ev (TEstablished c q false) os else true
              | 1, None => if mem c (g_neg g) then has_ev (TDialFailure c) os else true
              | 2, Some q => if mem c (g_inb g) then has_ev (TEstablished c q true) os else true
              | _, _ => true
              end
          end
      | _, _ => true
      end
  | EExpire f =>
      match lookup f (o_futs st) with
      | Some (c, 0) => if mem c (g_open g) then has_ev (TOpenFailure c) os else true
      | _ => true
      end
  | _ => true
  end.

Definition ost_step (e : ev) (os : list outp) (st : ost) : ost :=
  let made := match fut_of_call e with Some _ => ret_ok os | None => false end in
  let futs1 := match fut_of_call e with
               | Some ck => if made then o_futs st ++ [(o_nfut st, ck)] else o_futs st
               | None => o_futs st
               end in
  let att1 := if made then o_att st ++ [(o_nfut st, att_of_call e)] else o_att st in
  (* a poll consumes the negotiate futures and the raw futures without an address *)
  let gone (x : fut * (conn * N)) : bool :=
    (snd (snd x) =? 3) ||
    ((snd (snd x) =? 0) && match lookup (fst x) att1 with Some [] => true | _ => false end) in
  let futs2 := if polls e then filter (fun x => negb (gone x)) futs1 else futs1 in
  (* the end of an attempt: the future goes when it won or nothing is left *)
  let '(futs3, att3) :=
    match e with
    | EAns f i ans =>
        match lookup f att1 with
        | Some rem =>
            match lookup i rem with
            | Some ex =>
                let won := match ans with Some q => matches ex q | None => false end in
                match delk i rem with
                | [] => (delk f futs2, att1)
                | rem' => if won then (delk f futs2, att1) else (futs2, put f rem' att1)
                end
            | None => (futs2, att1)
            end
        | None => (futs2, att1)
        end
    | EExpire f => (delk f futs2, att1)
    | _ => (futs2, att1)
    end in
  mkO (gstep e os (o_g st)) (if made then o_nfut st + 1 else o_nfut st) futs3 att3
      (o_cok st && caller_ok (o_g st) e).

Definition step_ok (e : ev) (os : list outp) (st : ost) : bool :=
  let g := o_g st in
  let g1 := gcall e os g in
  (* whatever the owner does: call results, the open-phase clause *)
  call_ok e g os && audit_open g1 os &&
  (* with an owner that draws its ids: every clause (incl. the identity of the reported peer),
     no dropped answer *)
  (if o_cok st && caller_ok g e then
     audit g1 os && forallb (fun m => negb (untidy m)) (marks os) && progress_ok e os st
   else true).

Fixpoint trace_ok (es : list ev) (tr : list (list (N * (N * N)) * N)) (st : ost) : bool :=
  match es, tr with
  | [], [] => true
  | e :: es', (outs, ctr') :: tr' =>
      match dec_outs outs with
      | Some os => step_ok e os st && trace_ok es' tr' (ost_step e os st)
      | None => false
      end
  | _, _ => false
  end.

Definition prop_ok (case trace : list N) : bool :=
  match decode_case case with
  | Some (_, es) =>
      match decode_trace (length es) trace with
      | Some tr => trace_ok es tr o0
      | None => false
      end
  | None => match trace with [0] => true | _ => false end
  end.

Definition known_class (case trace : list N) : N := 0.
