(* Tcp — executable model of the bookkeeping of `TcpTransport` (src/transport/tcp/mod.rs):
   the `Transport` trait methods and `Stream::poll_next` over the fields pending_dials,
   pending_inbound_connections, pending_connections, pending_raw_connections, opened,
   cancel_futures (+ the aborted flag of each handle) and pending_open. Definitions only.

   The sockets and handshakes (socket connect, noise/yamux negotiation, timeouts) are the
   environment: a future is named by the sequence number of the call that created it (`fut`); the
   event `EAns f i ans` says that attempt i of future f (the i-th address of an `open`; 0 for a
   `dial` / an accepted inbound socket) ended, with `ans = Some q` when the handshake completed
   and the remote authenticated as identity q, `None` when it failed; `EExpire f` is the overall
   deadline of an `open`. The futures built by `dial` / `open` are part of the model: each attempt
   carries the peer its address names (the `dialed_peer` argument of the negotiation) and succeeds
   only when the identity that answered is that peer; the future of an `open` returns Connected on
   the first successful attempt and Failed when no attempt is left.
   One step = one trait call, or one poll (`EPoll`: poll_next is called until it returns Pending),
   or one environment event together with the polls that observe it (`EInbound`: a socket arrives
   at the listener; `EAns`; `EExpire`). A poll observes every future that is ready without the
   environment: the raw futures whose handle was aborted (`Abortable` yields Canceled), the raw
   futures without any address left, and the `async { Ok(negotiated) }` futures pushed by
   `negotiate`.

   The second half is the ghost state of the transport contract, in the vocabulary of
   coq/Mgr/LedgerInv.v (`g_open` = owed open, `g_neg` = owed negotiate): computed from the calls
   and the emitted events only, never from the private maps. *)
From Coq Require Import List NArith Bool.
Import ListNotations.
Open Scope N_scope.

Definition conn := N.    (* connection id *)
Definition fut := N.     (* name of an inner future *)
Definition peer := N.    (* a remote identity *)
(* what an address says about the remote: None = no /p2p component, nothing to compare *)
Definition expect := option peer.
Definition matches (e : expect) (q : peer) : bool :=
  match e with None => true | Some p => p =? q end.

(* ---------- small finite sets / maps over N (HashMap keys, insertion replaces) ---------- *)
Definition mem (x : N) (l : list N) : bool := existsb (N.eqb x) l.
Definition add (x : N) (l : list N) : list N := if mem x l then l else x :: l.
Definition del (x : N) (l : list N) : list N := filter (fun y => negb (y =? x)) l.
Fixpoint lookup {A} (k : N) (l : list (N * A)) : option A :=
  match l with
  | [] => None
  | (k', v) :: t => if k' =? k then Some v else lookup k t
  end.
Definition delk {A} (k : N) (l : list (N * A)) : list (N * A) :=
  filter (fun p => negb (fst p =? k)) l.
Definition put {A} (k : N) (v : A) (l : list (N * A)) : list (N * A) := (k, v) :: delk k l.

(* what a future in `pending_connections` was created by *)
Inductive kind := KDial | KInb | KNeg.

Record tcp := mkTcp {
  ctr : N;                               (* connection-id counter shared with the manager *)
  nfut : N;                              (* futures created so far (name supply) *)
  pending_dials : list conn;             (* keys of pending_dials *)
  pending_inbound : list conn;           (* keys of pending_inbound_connections *)
  praw : list (fut * conn);              (* pending_raw_connections: future -> id it reports *)
  pconn : list (fut * (conn * kind));    (* pending_connections *)
  opened : list conn;                    (* keys of opened *)
  cancel_futures : list (conn * fut);    (* id -> abort handle, named after the future it aborts *)
  aborted : list fut;                    (* handles on which abort() was called *)
  pending_open : list conn;              (* keys of pending_open *)
  (* what the futures and the stored NegotiatedConnections carry *)
  attempts : list (fut * list (N * expect));   (* raw future -> addresses still being tried *)
  dial_exp : list (fut * expect);        (* dial future -> the peer its address names *)
  opened_peer : list (conn * peer);      (* the authenticated peer of opened[c] *)
  neg_peer : list (fut * peer)           (* the peer inside the future pushed by negotiate *)
}.

Definition init : tcp := mkTcp 0 0 [] [] [] [] [] [] [] [] [] [] [] [].

Definition set_ctr v (s : tcp) := mkTcp v (nfut s) (pending_dials s) (pending_inbound s) (praw s) (pconn s) (opened s) (cancel_futures s) (aborted s) (pending_open s) (attempts s) (dial_exp s) (opened_peer s) (neg_peer s).
Definition set_nfut v (s : tcp) := mkTcp (ctr s) v (pending_dials s) (pending_inbound s) (praw s) (pconn s) (opened s) (cancel_futures s) (aborted s) (pending_open s) (attempts s) (dial_exp s) (opened_peer s) (neg_peer s).
Definition set_dials v (s : tcp) := mkTcp (ctr s) (nfut s) v (pending_inbound s) (praw s) (pconn s) (opened s) (cancel_futures s) (aborted s) (pending_open s) (attempts s) (dial_exp s) (opened_peer s) (neg_peer s).
Definition set_inbound v (s : tcp) := mkTcp (ctr s) (nfut s) (pending_dials s) v (praw s) (pconn s) (opened s) (cancel_futures s) (aborted s) (pending_open s) (attempts s) (dial_exp s) (opened_peer s) (neg_peer s).
Definition set_praw v (s : tcp) := mkTcp (ctr s) (nfut s) (pending_dials s) (pending_inbound s) v (pconn s) (opened s) (cancel_futures s) (aborted s) (pending_open s) (attempts s) (dial_exp s) (opened_peer s) (neg_peer s).
Definition set_pconn v (s : tcp) := mkTcp (ctr s) (nfut s) (pending_dials s) (pending_inbound s) (praw s) v (opened s) (cancel_futures s) (aborted s) (pending_open s) (attempts s) (dial_exp s) (opened_peer s) (neg_peer s).
Definition set_opened v (s : tcp) := mkTcp (ctr s) (nfut s) (pending_dials s) (pending_inbound s) (praw s) (pconn s) v (cancel_futures s) (aborted s) (pending_open s) (attempts s) (dial_exp s) (opened_peer s) (neg_peer s).
Definition set_cancel v (s : tcp) := mkTcp (ctr s) (nfut s) (pending_dials s) (pending_inbound s) (praw s) (pconn s) (opened s) v (aborted s) (pending_open s) (attempts s) (dial_exp s) (opened_peer s) (neg_peer s).
Definition set_aborted v (s : tcp) := mkTcp (ctr s) (nfut s) (pending_dials s) (pending_inbound s) (praw s) (pconn s) (opened s) (cancel_futures s) v (pending_open s) (attempts s) (dial_exp s) (opened_peer s) (neg_peer s).
Definition set_popen v (s : tcp) := mkTcp (ctr s) (nfut s) (pending_dials s) (pending_inbound s) (praw s) (pconn s) (opened s) (cancel_futures s) (aborted s) v (attempts s) (dial_exp s) (opened_peer s) (neg_peer s).
Definition set_attempts v (s : tcp) := mkTcp (ctr s) (nfut s) (pending_dials s) (pending_inbound s) (praw s) (pconn s) (opened s) (cancel_futures s) (aborted s) (pending_open s) v (dial_exp s) (opened_peer s) (neg_peer s).
Definition set_dial_exp v (s : tcp) := mkTcp (ctr s) (nfut s) (pending_dials s) (pending_inbound s) (praw s) (pconn s) (opened s) (cancel_futures s) (aborted s) (pending_open s) (attempts s) v (opened_peer s) (neg_peer s).
Definition set_opened_peer v (s : tcp) := mkTcp (ctr s) (nfut s) (pending_dials s) (pending_inbound s) (praw s) (pconn s) (opened s) (cancel_futures s) (aborted s) (pending_open s) (attempts s) (dial_exp s) v (neg_peer s).
Definition set_neg_peer v (s : tcp) := mkTcp (ctr s) (nfut s) (pending_dials s) (pending_inbound s) (praw s) (pconn s) (opened s) (cancel_futures s) (aborted s) (pending_open s) (attempts s) (dial_exp s) (opened_peer s) v.

(* ---------- inputs and outputs ---------- *)
Inductive ev :=
| EDraw                                  (* the owner draws an id from the shared counter *)
| EDial (c : conn) (valid : bool) (e : expect)
                                         (* dial(c, address); valid = the address parses as a TCP address *)
| EOpen (c : conn) (es : list expect)    (* open(c, addresses): what each address names *)
| ENegotiate (c : conn)
| ECancel (c : conn)
| EAccept (c : conn)
| EReject (c : conn)
| EAcceptPending (c : conn)
| ERejectPending (c : conn)
| EPoll                                  (* poll_next until Pending *)
| EInbound                               (* a socket arrives at the listener, and is polled *)
| EAns (f : fut) (i : N) (ans : option peer)
                                         (* attempt i of future f ends (Some q: authenticated as q), and is polled *)
| EExpire (f : fut).                     (* the overall deadline of an open fires, and is polled *)

(* TransportEvent, canonicalised: kind + connection id (+ authenticated peer, endpoint direction) *)
Inductive tev :=
| TPendingInbound (c : conn)
| TOpened (c : conn)
| TOpenFailure (c : conn)
| TEstablished (c : conn) (q : peer) (listener : bool)
| TDialFailure (c : conn).

(* branches of poll_next that consume a completed future without emitting an event *)
Inductive mark :=
| MNoHandle (c : conn)          (* warn "raw connection without a cancel handle" (Connected / Failed) *)
| MCanceledNoHandle (c : conn)  (* warn "raw cancelled connection without a cancel handle" *)
| MAbortedLate (c : conn)       (* Connected / Failed, but the handle found says is_aborted() *)
| MSilentFailure (c : conn) (k : kind).
                                (* debug "Pending inbound connection failed": no pending_dials entry *)

Inductive outp :=
| ORet (ok : bool)
| OId (c : conn)
| OEv (e : tev)
| OMark (m : mark).

(* ---------- poll_next: one completed raw future ---------- *)
(* `inner` = result of the inner future if it has completed: Some (Some q) = Connected, the remote
   authenticated as q; Some None = Failed. `Abortable` looks at its flag first. *)
Definition observe_raw (f : fut) (inner : option (option peer)) (s : tcp) : tcp * list outp :=
  match lookup f (praw s) with
  | None => (s, [])
  | Some c =>
      if mem f (aborted s) then
        (* RawConnectionResult::Canceled { connection_id } *)
        let s1 := set_praw (delk f (praw s)) s in
        match lookup c (cancel_futures s) with
        | Some _ => (set_cancel (delk c (cancel_futures s)) s1, [])
        | None => (s1, [OMark (MCanceledNoHandle c)])
        end
      else
        match inner with
        | None => (s, [])
        | Some res =>
            (* RawConnectionResult::Connected / Failed *)
            let s1 := set_praw (delk f (praw s)) s in
            match lookup c (cancel_futures s) with
            | None => (s1, [OMark (MNoHandle c)])
            | Some h =>
                let s2 := set_cancel (delk c (cancel_futures s)) s1 in
                if mem h (aborted s) then (s2, [OMark (MAbortedLate c)])
                else match res with
                     | Some q =>
                         (set_opened_peer (put c q (opened_peer s)) (set_opened (add c (opened s)) s2),
                          [OEv (TOpened c)])
                     | None => (s2, [OEv (TOpenFailure c)])
                     end
            end
        end
  end.

(* ---------- poll_next: one completed pending_connections future ---------- *)
Definition is_inb (k : kind) : bool := match k with KInb => true | _ => false end.
Definition peer_or0 (o : option peer) : peer := match o with Some q => q | None => 0 end.

Definition observe_conn (f : fut) (inner : option (option peer)) (s : tcp) : tcp * list outp :=
  match lookup f (pconn s) with
  | None => (s, [])
  | Some (c, k) =>
      let res := match k with KNeg => Some (Some (peer_or0 (lookup f (neg_peer s)))) | _ => inner end in
      match res with
      | None => (s, [])
      | Some r =>
          let s1 := set_pconn (delk f (pconn s)) s in
          match r with
          | Some q =>
              (set_popen (add c (pending_open s)) (set_dials (del c (pending_dials s)) s1),
               [OEv (TEstablished c q (is_inb k))])
          | None =>
              if mem c (pending_dials s) then
                (set_dials (del c (pending_dials s)) s1, [OEv (TDialFailure c)])
              else (s1, [OMark (MSilentFailure c k)])
          end
      end
  end.

(* everything that is ready without the environment, in push order *)
Definition no_attempt_left (f : fut) (s : tcp) : bool :=
  match lookup f (attempts s) with Some [] => true | _ => false end.

Fixpoint flush_raw (fs : list fut) (s : tcp) : tcp * list outp :=
  match fs with
  | [] => (s, [])
  | f :: t =>
      let '(s1, o1) := observe_raw f (if no_attempt_left f s then Some None else None) s in
      let '(s2, o2) := flush_raw t s1 in
      (s2, o1 ++ o2)
  end.

Fixpoint flush_conn (fs : list fut) (s : tcp) : tcp * list outp :=
  match fs with
  | [] => (s, [])
  | f :: t =>
      let '(s1, o1) := observe_conn f None s in
      let '(s2, o2) := flush_conn t s1 in
      (s2, o1 ++ o2)
  end.

Definition flush (s : tcp) : tcp * list outp :=
  let '(s1, o1) := flush_raw (map fst (praw s)) s in
  let '(s2, o2) := flush_conn (map fst (pconn s1)) s1 in
  (s2, o1 ++ o2).

(* ---------- the futures built by open / dial: one attempt ends ---------- *)
(* the loop of `open`: an attempt that completes the handshake with the peer its address names
   returns Connected; any other end of an attempt is recorded as an error, and Failed is
   returned when nothing is left *)
Definition attempt_raw (f : fut) (i : N) (ans : option peer) (s : tcp) : tcp * list outp :=
  match lookup f (attempts s) with
  | None => (s, [])
  | Some rem =>
      match lookup i rem with
      | None => (s, [])
      | Some e =>
          let won := match ans with Some q => if matches e q then Some q else None | None => None end in
          match won with
          | Some q => observe_raw f (Some (Some q)) s
          | None =>
              let rem' := delk i rem in
              let s' := set_attempts (put f rem' (attempts s)) s in
              match rem' with
              | [] => observe_raw f (Some None) s'
              | _ => (s', [])
              end
          end
      end
  end.

(* the future of `dial` (one address, the peer it names) and of an accepted inbound socket *)
Definition attempt_conn (f : fut) (ans : option peer) (s : tcp) : tcp * list outp :=
  match lookup f (pconn s) with
  | Some (_, KDial) =>
      let e := match lookup f (dial_exp s) with Some e => e | None => None end in
      observe_conn f (Some (match ans with Some q => if matches e q then Some q else None | None => None end)) s
  | Some (_, KInb) => observe_conn f (Some ans) s
  | _ => (s, [])
  end.

(* ---------- the step function ---------- *)
Definition new_fut (s : tcp) : tcp := set_nfut (nfut s + 1) s.

Fixpoint number {A} (n : N) (l : list A) : list (N * A) :=
  match l with [] => [] | x :: t => (n, x) :: number (n + 1) t end.

Definition step (s : tcp) (e : ev) : tcp * list outp :=
  match e with
  | EDraw => (set_ctr (ctr s + 1) s, [OId (ctr s)])
  | EDial c valid ex =>
      if valid then
        (new_fut (set_dial_exp (put (nfut s) ex (dial_exp s))
                 (set_pconn (pconn s ++ [(nfut s, (c, KDial))]) (set_dials (add c (pending_dials s)) s))),
         [ORet true])
      else (s, [ORet false])
  | EOpen c es =>
      (new_fut (set_attempts (put (nfut s) (number 0 es) (attempts s))
               (set_cancel (put c (nfut s) (cancel_futures s)) (set_praw (praw s ++ [(nfut s, c)]) s))),
       [ORet true])
  | ENegotiate c =>
      if mem c (opened s) then
        (new_fut (set_neg_peer (put (nfut s) (peer_or0 (lookup c (opened_peer s))) (neg_peer s))
                 (set_pconn (pconn s ++ [(nfut s, (c, KNeg))]) (set_opened (del c (opened s)) s))),
         [ORet true])
      else (s, [ORet false])
  | ECancel c =>
      match lookup c (cancel_futures s) with
      | Some h => (set_aborted (add h (aborted s)) s, [])
      | None => (s, [])
      end
  | EAccept c | EReject c =>
      if mem c (pending_open s) then (set_popen (del c (pending_open s)) s, [ORet true])
      else (s, [ORet false])
  | EAcceptPending c =>
      if mem c (pending_inbound s) then
        (new_fut (set_pconn (pconn s ++ [(nfut s, (c, KInb))]) (set_inbound (del c (pending_inbound s)) s)),
         [ORet true])
      else (s, [ORet false])
  | ERejectPending c =>
      if mem c (pending_inbound s) then (set_inbound (del c (pending_inbound s)) s, [ORet true])
      else (s, [ORet false])
  | EPoll => flush s
  | EInbound =>
      let '(s1, o1) := flush s in
      (set_inbound (add (ctr s1) (pending_inbound s1)) (set_ctr (ctr s1 + 1) s1),
       o1 ++ [OEv (TPendingInbound (ctr s1))])
  | EAns f i ans =>
      let '(s1, o1) := flush s in
      let '(s2, o2) := match lookup f (praw s1) with
                       | Some _ => attempt_raw f i ans s1
                       | None => attempt_conn f ans s1
                       end in
      (s2, o1 ++ o2)
  | EExpire f =>
      let '(s1, o1) := flush s in
      let '(s2, o2) := observe_raw f (Some None) s1 in
      (s2, o1 ++ o2)
  end.

(* ---------- the ghost state of the transport contract ---------- *)
Record ghost := mkG {
  g_open : list conn;       (* owed open: open(c) called, not answered, not cancelled *)
  g_neg : list conn;        (* owed negotiate: dial(c) / negotiate(c) succeeded, not answered *)
  g_inb : list conn;        (* accept_pending(c) succeeded, not answered *)
  g_opened : list conn;     (* ConnectionOpened c emitted, c not negotiated since *)
  g_drawn : list conn;      (* ids handed to the owner by the counter, not used yet *)
  g_used : list conn;       (* ids the owner passed to dial / open *)
  g_inbids : list conn;     (* ids announced by PendingInboundConnection *)
  g_ctr : N;                (* ids handed out so far, to the owner or to inbound sockets *)
  g_att : list (conn * list expect)   (* id -> what the addresses of its dial / open call name *)
}.

Definition g0 : ghost := mkG [] [] [] [] [] [] [] 0 [].

Definition ret_ok (os : list outp) : bool :=
  existsb (fun o => match o with ORet true => true | _ => false end) os.
Definition ids_of (os : list outp) : list conn :=
  flat_map (fun o => match o with OId c => [c] | _ => [] end) os.

(* the call itself *)
Definition gcall (e : ev) (os : list outp) (g : ghost) : ghost :=
  match e with
  | EDraw =>
      mkG (g_open g) (g_neg g) (g_inb g) (g_opened g) (ids_of os ++ g_drawn g)
          (g_used g) (g_inbids g) (g_ctr g + N.of_nat (length (ids_of os))) (g_att g)
  | EDial c _ ex =>
      if ret_ok os then
        mkG (g_open g) (c :: g_neg g) (g_inb g) (g_opened g) (del c (g_drawn g)) (c :: g_used g)
            (g_inbids g) (g_ctr g) (put c [ex] (g_att g))
      else g
  | EOpen c es =>
      mkG (c :: g_open g) (g_neg g) (g_inb g) (g_opened g) (del c (g_drawn g)) (c :: g_used g)
          (g_inbids g) (g_ctr g) (put c es (g_att g))
  | ENegotiate c =>
      mkG (g_open g) (if ret_ok os then c :: g_neg g else g_neg g) (g_inb g) (del c (g_opened g))
          (g_drawn g) (g_used g) (g_inbids g) (g_ctr g) (g_att g)
  | ECancel c =>
      mkG (del c (g_open g)) (g_neg g) (g_inb g) (g_opened g) (g_drawn g) (g_used g) (g_inbids g)
          (g_ctr g) (g_att g)
  | EAcceptPending c =>
      if ret_ok os then
        mkG (g_open g) (g_neg g) (c :: g_inb g) (g_opened g) (g_drawn g) (g_used g) (g_inbids g)
            (g_ctr g) (g_att g)
      else g
  | _ => g
  end.

(* one emitted event *)
Definition gev (t : tev) (g : ghost) : ghost :=
  match t with
  | TPendingInbound c =>
      mkG (g_open g) (g_neg g) (g_inb g) (g_opened g) (g_drawn g) (g_used g) (c :: g_inbids g)
          (g_ctr g + 1) (g_att g)
  | TOpened c =>
      mkG (del c (g_open g)) (g_neg g) (g_inb g) (add c (g_opened g)) (g_drawn g) (g_used g)
          (g_inbids g) (g_ctr g) (g_att g)
  | TOpenFailure c =>
      mkG (del c (g_open g)) (g_neg g) (g_inb g) (g_opened g) (g_drawn g) (g_used g) (g_inbids g)
          (g_ctr g) (g_att g)
  | TEstablished c _ false | TDialFailure c =>
      mkG (g_open g) (del c (g_neg g)) (g_inb g) (g_opened g) (g_drawn g) (g_used g) (g_inbids g)
          (g_ctr g) (g_att g)
  | TEstablished c _ true =>
      mkG (g_open g) (g_neg g) (del c (g_inb g)) (g_opened g) (g_drawn g) (g_used g) (g_inbids g)
          (g_ctr g) (g_att g)
  end.

Definition gout (g : ghost) (o : outp) : ghost :=
  match o with OEv t => gev t g | _ => g end.

Definition gstep (e : ev) (os : list outp) (g : ghost) : ghost :=
  fold_left gout os (gcall e os g).

(* The transport contract, clause by clause as in `feas` of coq/Mgr/LedgerInv.v: which events
   the transport may emit given what it owes. Boolean, so that the oracle evaluates the same text. *)
(* identity: q is named by an address of the dial / open call that introduced c (an address without
   /p2p names anybody). When every address names p, this is `lookup c (g_att g) = Some p` of `feas`. *)
Definition named (g : ghost) (c : conn) (q : peer) : bool :=
  match lookup c (g_att g) with
  | Some es => existsb (fun e => matches e q) es
  | None => false
  end.

Definition tfeas (g : ghost) (t : tev) : bool :=
  match t with
  | TOpened c | TOpenFailure c => mem c (g_open g)              (* owed open *)
  | TDialFailure c => mem c (g_neg g)                           (* owed negotiate *)
  | TEstablished c q false => mem c (g_neg g) && named g c q    (* owed negotiate, the dialled peer *)
  | TEstablished c _ true => mem c (g_inb g)                    (* an accepted inbound socket *)
  | TPendingInbound c =>
      (* the id is the next value of the shared counter: it was never handed out before *)
      (c =? g_ctr g) && negb (mem c (g_drawn g)) && negb (mem c (g_used g)) && negb (mem c (g_inbids g))
  end.

(* the open-phase clause alone (it holds whatever the owner does) *)
Definition tfeas_open (g : ghost) (t : tev) : bool :=
  match t with TOpened _ | TOpenFailure _ => tfeas g t | _ => true end.

(* results of the calls: open/dial succeed, negotiate succeeds exactly on an opened connection,
   a drawn id is the next value of the counter *)
Definition call_ok (e : ev) (g : ghost) (os : list outp) : bool :=
  match e with
  | EOpen _ _ => ret_ok os
  | EDial _ valid _ => Bool.eqb (ret_ok os) valid
  | ENegotiate c => Bool.eqb (ret_ok os) (mem c (g_opened g))
  | EDraw => match os with [OId c] => c =? g_ctr g | _ => false end
  | _ => true
  end.

(* the owner's side of the contract: ids passed to dial/open were drawn from the counter and are
   used once *)
Definition caller_ok (g : ghost) (e : ev) : bool :=
  match e with
  | EDial c _ _ | EOpen c _ => mem c (g_drawn g)
  | _ => true
  end.

(* the events of a step judged one after the other against the evolving ghost state *)
Fixpoint audit_by (chk : ghost -> tev -> bool) (g : ghost) (os : list outp) : bool :=
  match os with
  | [] => true
  | OEv t :: r => chk g t && audit_by chk (gev t g) r
  | _ :: r => audit_by chk g r
  end.
Definition audit := audit_by tfeas.
Definition audit_open := audit_by tfeas_open.

Definition marks (os : list outp) : list mark :=
  flat_map (fun o => match o with OMark m => [m] | _ => [] end) os.
Definition events (os : list outp) : list tev :=
  flat_map (fun o => match o with OEv t => [t] | _ => [] end) os.

(* the branches that consume a completed future whose answer may be owed: the two "raw connection
   without a cancel handle" sites, the is_aborted() test answering for a handle that belongs to
   another future, and the silent failure of a future that is not an inbound negotiation. (A failed
   inbound negotiation is owed to nobody; a cancelled future without a handle drops nothing, it only
   shows that two open calls shared an id.) *)
Definition drops (m : mark) : bool :=
  match m with
  | MNoHandle _ | MAbortedLate _ => true
  | MCanceledNoHandle _ => false
  | MSilentFailure _ k => negb (is_inb k)
  end.
Definition untidy (m : mark) : bool :=
  match m with MCanceledNoHandle _ => true | _ => drops m end.

Definition polls (e : ev) : bool :=
  match e with EPoll | EInbound | EAns _ _ _ | EExpire _ => true | _ => false end.
