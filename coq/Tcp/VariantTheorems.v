(* Tcp — the theorems of Theorems.v for each of the three transports (TCP, WebSocket, QUIC): every
   history of a transport is a history of the bookkeeping model, so the contract carries over; plus
   what is specific to a front end: which addresses `dial` accepts (all the manager can hand over),
   and that WebSocket / QUIC always expect a definite peer. *)
From Coq Require Import List NArith Bool Lia.
From V.C10 Require Model.
From V.Tcp Require Import Model Proofs Theorems Variants.
Import ListNotations.
Open Scope N_scope.

Arguments put : simpl never.
Arguments lookup : simpl never.
Arguments delk : simpl never.
Arguments add : simpl never.
Arguments del : simpl never.
Arguments mem : simpl never.

(* histories of transport t: trait calls with real addresses, environment events of that transport;
   the owner passes ids it drew from the counter *)
Inductive treach (t : transport) : tcp -> ghost -> Prop :=
| treach0 : treach t init g0
| treachS s g k : treach t s g -> call_plain t k = true -> caller_ok g (ev_of t k) = true ->
                  treach t (fst (tstep t s k)) (gstep (ev_of t k) (snd (tstep t s k)) g).

(* ... whatever ids the owner uses *)
Inductive treachU (t : transport) : tcp -> ghost -> Prop :=
| treachU0 : treachU t init g0
| treachUS s g k : treachU t s g -> call_plain t k = true ->
                   treachU t (fst (tstep t s k)) (gstep (ev_of t k) (snd (tstep t s k)) g).

Lemma treach_reach t s g : treach t s g -> reach s g.
Proof. induction 1; [constructor|]. unfold tstep. constructor; assumption. Qed.

Lemma treachU_reachU t s g : treachU t s g -> reachU s g.
Proof. induction 1; [constructor|]. unfold tstep. constructor; assumption. Qed.

Lemma treach_treachU t s g : treach t s g -> treachU t s g.
Proof. induction 1; [constructor|constructor; assumption]. Qed.

(* ---------- the front ends ---------- *)
(* dial(c, a) returns Ok exactly when the address parses for the transport *)
Theorem t_dial_result t s g c a :
  treachU t s g ->
  snd (tstep t s (XDial c a)) = [ORet (match expect_of t a with Some _ => true | None => false end)].
Proof.
  intros _. unfold tstep. cbn [ev_of]. destruct (expect_of t a); reflexivity.
Qed.

(* open never fails, whatever the addresses *)
Theorem t_open_result t s c l : snd (tstep t s (XOpen c l)) = [ORet true].
Proof. reflexivity. Qed.

(* WebSocket: an address multiaddr_into_url accepts is also accepted by the socket-address parser the
   attempt runs next (so `dial` Ok means the attempt reaches the network) *)
Lemma ws_url_parse a p : ws_url a = Some p -> exists ho port, C10.Model.parse TWs a = Some (ho, port, Some p).
Proof.
  unfold ws_url. destruct a as [|h [|t1 [|w [|x r]]]]; try (destruct t1; discriminate); try discriminate.
  destruct t1; try discriminate. destruct x; try discriminate.
  destruct (C10.Model.host_of h) as [ho|] eqn:Eh; [|discriminate].
  destruct w; cbn [C10.Model.is_ws]; try discriminate; intros [= ->];
    exists ho, port; cbn [C10.Model.parse C10.Model.sock_parse C10.Model.port_of]; rewrite Eh; reflexivity.
Qed.

(* every address the manager can hand over is accepted, and the peer expected is the dialled one *)
Theorem t_accepts_manager_tcp a q : manager_tcp_shape a q -> expect_of TTcp a = Some (Some q).
Proof.
  intros (h & port & -> & Hh). cbn [expect_of C10.Model.parse C10.Model.sock_parse C10.Model.port_of].
  destruct (C10.Model.host_of h); [reflexivity|contradiction].
Qed.

Theorem t_accepts_manager_ws a q : manager_ws_shape a q -> expect_of TWs a = Some (Some q).
Proof.
  intros (h & port & w & -> & Hh & Hw). cbn [expect_of ws_url].
  destruct (C10.Model.host_of h); [|contradiction]. rewrite Hw. reflexivity.
Qed.

Theorem t_accepts_manager_quic a q : manager_quic_shape a q -> expect_of TQuic a = Some (Some q).
Proof.
  intros (h & port & -> & Hh). cbn [expect_of C10.Model.parse C10.Model.sock_parse C10.Model.port_of].
  destruct (C10.Model.host_of h); [reflexivity|contradiction].
Qed.

(* the addresses of the store (dial by peer id -> open): `supported` addresses, routed by `route` *)
Theorem t_accepts_supported cfg a :
  C10.Model.supported cfg a = true ->
  exists q, last a (C10.Model.Other 0) = C10.Model.P2p q /\ expect_of (C10.Model.route cfg a) a = Some (Some q).
Proof.
  unfold C10.Model.supported. destruct a as [|h rest]; [discriminate|].
  destruct (C10.Model.first_ok h) eqn:Ef; [|discriminate].
  assert (Hh : exists ho, C10.Model.host_of h = Some ho).
  { destruct h; try discriminate; eexists; reflexivity. }
  destruct Hh as [ho Hh].
  destruct rest as [|x1 [|x2 [|x3 [|x4 r]]]]; try discriminate.
  - destruct x1; discriminate.
  - (* [h; Tcp; P2p] *)
    destruct x1; try discriminate; destruct x2; try discriminate. intros _.
    exists p. split; [reflexivity|].
    assert (Er : C10.Model.route cfg [h; C10.Model.Tcp port; C10.Model.P2p p] = TTcp).
    { unfold C10.Model.route. assert (E1 : existsb C10.Model.is_quic [h; C10.Model.Tcp port; C10.Model.P2p p] = false) by (destruct h; try discriminate Hh; reflexivity).
      assert (E2 : existsb C10.Model.is_ws [h; C10.Model.Tcp port; C10.Model.P2p p] = false) by (destruct h; try discriminate Hh; reflexivity).
      rewrite E1, E2, !andb_false_r. reflexivity. }
    rewrite Er. cbn [expect_of C10.Model.parse C10.Model.sock_parse C10.Model.port_of]. rewrite Hh. reflexivity.
  - (* [h; Tcp; Ws|Wss; P2p] or [h; Udp; QuicV1; P2p] *)
    destruct x1; try discriminate.
    + destruct x2; try discriminate; destruct x3; try discriminate; unfold C10.Model.enabled; intros He;
        apply andb_prop in He; destruct He as [Hf _]; exists p; (split; [reflexivity|]).
      * assert (Er : C10.Model.route cfg [h; C10.Model.Tcp port; C10.Model.Ws; C10.Model.P2p p] = TWs).
        { unfold C10.Model.route. assert (E1 : existsb C10.Model.is_quic [h; C10.Model.Tcp port; C10.Model.Ws; C10.Model.P2p p] = false) by (destruct h; try discriminate Hh; reflexivity).
          assert (E2 : existsb C10.Model.is_ws [h; C10.Model.Tcp port; C10.Model.Ws; C10.Model.P2p p] = true) by (destruct h; try discriminate Hh; reflexivity).
          rewrite E1, E2, Hf, andb_false_r. reflexivity. }
        rewrite Er. cbn [expect_of ws_url]. rewrite Hh. reflexivity.
      * assert (Er : C10.Model.route cfg [h; C10.Model.Tcp port; C10.Model.Wss; C10.Model.P2p p] = TWs).
        { unfold C10.Model.route. assert (E1 : existsb C10.Model.is_quic [h; C10.Model.Tcp port; C10.Model.Wss; C10.Model.P2p p] = false) by (destruct h; try discriminate Hh; reflexivity).
          assert (E2 : existsb C10.Model.is_ws [h; C10.Model.Tcp port; C10.Model.Wss; C10.Model.P2p p] = true) by (destruct h; try discriminate Hh; reflexivity).
          rewrite E1, E2, Hf, andb_false_r. reflexivity. }
        rewrite Er. cbn [expect_of ws_url]. rewrite Hh. reflexivity.
    + destruct x2; try discriminate; destruct x3; try discriminate; unfold C10.Model.enabled; intros He;
        apply andb_prop in He; destruct He as [Hf _]; exists p; (split; [reflexivity|]).
      assert (Er : C10.Model.route cfg [h; C10.Model.Udp port; C10.Model.QuicV1; C10.Model.P2p p] = TQuic).
      { unfold C10.Model.route. assert (E1 : existsb C10.Model.is_quic [h; C10.Model.Udp port; C10.Model.QuicV1; C10.Model.P2p p] = true) by (destruct h; try discriminate Hh; reflexivity).
        rewrite E1, Hf. reflexivity. }
      rewrite Er. cbn [expect_of C10.Model.parse C10.Model.sock_parse C10.Model.port_of]. rewrite Hh. reflexivity.
  - destruct x1; try discriminate; destruct x2; try discriminate; destruct x3; discriminate.
Qed.

(* ---------- the contract, per transport ---------- *)
Section PerTransport.
Variable t : transport.

(* (a) open phase, whatever ids the owner uses *)
Theorem t_open_phase_owed s g k o1 e o2 :
  treachU t s g -> snd (tstep t s k) = o1 ++ OEv e :: o2 ->
  match e with
  | TOpened c | TOpenFailure c =>
      In c (g_open (fold_left gout o1 (gcall (ev_of t k) (snd (tstep t s k)) g)))
  | _ => True
  end.
Proof. intros R. exact (tcp_open_phase_owed s g (ev_of t k) o1 e o2 (treachU_reachU _ _ _ R)). Qed.

(* (c) results of the calls *)
Theorem t_call_results s g k :
  treachU t s g -> call_ok (ev_of t k) g (snd (tstep t s k)) = true.
Proof. intros R. exact (tcp_call_results s g (ev_of t k) (treachU_reachU _ _ _ R)). Qed.

Theorem t_negotiate_after_opened s g k c :
  treachU t s g -> In (OEv (TOpened c)) (snd (tstep t s k)) ->
  let s1 := fst (tstep t s k) in
  snd (tstep t s1 (XEv (ENegotiate c))) = [ORet true] /\
  snd (tstep t (fst (tstep t s1 (XEv (ECancel c)))) (XEv (ENegotiate c))) = [ORet true].
Proof. intros R. exact (tcp_negotiate_after_opened s g (ev_of t k) c (treachU_reachU _ _ _ R)). Qed.

(* (b) (e) identity: the whole contract *)
Theorem t_contract s g k o1 e o2 :
  treach t s g -> caller_ok g (ev_of t k) = true -> snd (tstep t s k) = o1 ++ OEv e :: o2 ->
  tfeas (fold_left gout o1 (gcall (ev_of t k) (snd (tstep t s k)) g)) e = true.
Proof. intros R. exact (tcp_contract s g (ev_of t k) o1 e o2 (treach_reach _ _ _ R)). Qed.

Theorem t_established_names_dialled_peer s g k o1 c q o2 :
  treach t s g -> caller_ok g (ev_of t k) = true ->
  snd (tstep t s k) = o1 ++ OEv (TEstablished c q false) :: o2 ->
  let g' := fold_left gout o1 (gcall (ev_of t k) (snd (tstep t s k)) g) in
  In c (g_neg g') /\
  exists es, lookup c (g_att g') = Some es /\ (exists x, In x es /\ matches x q = true) /\
             forall p, (forall x, In x es -> x = Some p) -> q = p.
Proof.
  intros R. exact (tcp_established_names_dialled_peer s g (ev_of t k) o1 c q o2 (treach_reach _ _ _ R)).
Qed.

(* (d) no dropped answer, what is owed is pending *)
Theorem t_no_dropped_answer s g k m :
  treach t s g -> caller_ok g (ev_of t k) = true -> In (OMark m) (snd (tstep t s k)) ->
  exists c, m = MSilentFailure c KInb.
Proof. intros R. exact (tcp_no_dropped_answer s g (ev_of t k) m (treach_reach _ _ _ R)). Qed.

Theorem t_owed_is_pending s g c :
  treach t s g ->
  (In c (g_open g) -> exists f rem, lookup f (praw s) = Some c /\ lookup f (attempts s) = Some rem /\
                                    ~ In f (aborted s)) /\
  (In c (g_neg g) -> exists f k, lookup f (pconn s) = Some (c, k) /\ is_inb k = false).
Proof. intros R. exact (tcp_owed_is_pending s g c (treach_reach _ _ _ R)). Qed.

(* progress *)
Theorem t_progress_open_answer s g f c rem i e q :
  treach t s g -> lookup f (praw s) = Some c -> In c (g_open g) ->
  lookup f (attempts s) = Some rem -> lookup i rem = Some e -> matches e q = true ->
  In (OEv (TOpened c)) (snd (tstep t s (XEv (EAns f i (Some q))))).
Proof. intros R. exact (tcp_progress_open_answer s g f c rem i e q (treach_reach _ _ _ R)). Qed.

Theorem t_progress_open_last_failure s g f c rem i e ans :
  treach t s g -> lookup f (praw s) = Some c -> In c (g_open g) ->
  lookup f (attempts s) = Some rem -> lookup i rem = Some e -> delk i rem = [] ->
  (forall q, ans = Some q -> matches e q = false) ->
  In (OEv (TOpenFailure c)) (snd (tstep t s (XEv (EAns f i ans)))).
Proof. intros R. exact (tcp_progress_open_last_failure s g f c rem i e ans (treach_reach _ _ _ R)). Qed.

(* only the transports whose open has an overall deadline *)
Theorem t_progress_open_expire s g f c rem :
  has_deadline t = true ->
  treach t s g -> lookup f (praw s) = Some c -> In c (g_open g) ->
  lookup f (attempts s) = Some rem -> rem <> [] ->
  In (OEv (TOpenFailure c)) (snd (tstep t s (XEv (EExpire f)))).
Proof. intros _ R. exact (tcp_progress_open_expire s g f c rem (treach_reach _ _ _ R)). Qed.

(* no address is left: also an open none of whose addresses parses for this transport *)
Theorem t_progress_open_no_address s g f c e :
  treach t s g -> lookup f (praw s) = Some c -> In c (g_open g) -> lookup f (attempts s) = Some [] ->
  polls e = true -> In (OEv (TOpenFailure c)) (snd (tstep t s (XEv e))).
Proof. intros R. exact (tcp_progress_open_no_address s g f c e (treach_reach _ _ _ R)). Qed.

Theorem t_progress_dial s g f c i ans :
  treach t s g -> lookup f (pconn s) = Some (c, KDial) ->
  exists x, lookup c (g_att g) = Some [x] /\
    In (OEv (match ans with
             | Some q => if matches x q then TEstablished c q false else TDialFailure c
             | None => TDialFailure c
             end)) (snd (tstep t s (XEv (EAns f i ans)))).
Proof. intros R. exact (tcp_progress_dial s g f c i ans (treach_reach _ _ _ R)). Qed.

Theorem t_progress_negotiate s g f c e :
  treach t s g -> lookup f (pconn s) = Some (c, KNeg) -> polls e = true ->
  exists q, In (OEv (TEstablished c q false)) (snd (tstep t s (XEv e))).
Proof. intros R. exact (tcp_progress_negotiate s g f c e (treach_reach _ _ _ R)). Qed.

Theorem t_progress_inbound s g f c i q :
  treach t s g -> lookup f (pconn s) = Some (c, KInb) ->
  In (OEv (TEstablished c q true)) (snd (tstep t s (XEv (EAns f i (Some q))))).
Proof. intros R. exact (tcp_progress_inbound s g f c i q (treach_reach _ _ _ R)). Qed.

Theorem t_outbound_ids_from_owner s g c :
  treachU t s g -> In c (g_open g) \/ In c (g_neg g) \/ In c (g_opened g) -> In c (g_used g).
Proof. intros R. exact (tcp_outbound_ids_from_owner s g c (treachU_reachU _ _ _ R)). Qed.

(* `opened` holds exactly the connections announced by ConnectionOpened and not negotiated since:
   an entry leaves only through negotiate(c) (an owner that never negotiates keeps the negotiated
   connection, socket included, in the map for good) *)
Theorem t_opened_is_unnegotiated s g c :
  treachU t s g -> (In c (opened s) <-> In c (g_opened g)).
Proof. intros R. exact (u_opened _ _ (reachU_inv _ _ (treachU_reachU _ _ _ R)) c). Qed.

End PerTransport.

(* the only call that removes an id from `opened` is negotiate of that id *)
Theorem opened_leaves_by_negotiate e os g c :
  In c (g_opened g) -> ~ In c (g_opened (gstep e os g)) -> e = ENegotiate c.
Proof.
  intros Hin Hout.
  assert (Hmono : forall os' g', In c (g_opened g') -> In c (g_opened (fold_left gout os' g'))).
  { induction os' as [|o r IH]; intros g' H; [exact H|]. cbn [fold_left]. apply IH.
    destruct o as [b|x|ev|m]; cbn [gout]; try exact H.
    destruct ev as [x|x|x|x q [|]|x]; cbn [gev g_opened]; try exact H. apply in_add. right. exact H. }
  unfold gstep in Hout.
  destruct e; try (exfalso; apply Hout, Hmono; cbn [gcall]; try destruct (ret_ok os); exact Hin).
  destruct (N.eq_dec c0 c) as [->|Hne]; [reflexivity|].
  exfalso. apply Hout, Hmono. cbn [gcall g_opened]. apply in_del. split; [exact Hin|congruence].
Qed.

(* ---------- WebSocket and QUIC always expect a definite peer ---------- *)
Definition strict (t : transport) : bool := match t with TTcp => false | _ => true end.

Lemma strict_expect t a e : strict t = true -> expect_of t a = Some e -> exists p, e = Some p.
Proof.
  destruct t; try discriminate; intros _; cbn [expect_of].
  - destruct (ws_url a); [intros [= <-]; eauto|discriminate].
  - destruct (C10.Model.parse TQuic a) as [[[ho po] [p|]]|]; try discriminate. intros [= <-]. eauto.
Qed.

Lemma strict_attempts t l x : strict t = true -> In x (attempts_of t l) -> exists p, x = Some p.
Proof.
  intros Hs Hin. unfold attempts_of in Hin. apply in_flat_map in Hin. destruct Hin as (a & _ & Hx).
  destruct (expect_of t a) as [e|] eqn:E; [|destruct Hx]. destruct Hx as [<-|[]].
  exact (strict_expect t a e Hs E).
Qed.

Lemma g_att_gstep e os g c :
  lookup c (g_att (gstep e os g)) = lookup c (g_att (gcall e os g)).
Proof. unfold gstep. rewrite g_att_gout. reflexivity. Qed.

Lemma strict_att t s g :
  strict t = true -> treach t s g ->
  forall c es x, lookup c (g_att g) = Some es -> In x es -> exists p, x = Some p.
Proof.
  intros Hs R. induction R as [|s g k R IH Hp Hc]; [intros c es x H; discriminate|].
  intros c es x Hl Hin. rewrite g_att_gstep in Hl. destruct k as [c0 a|c0 l|e]; cbn [ev_of] in Hl.
  - destruct (expect_of t a) as [ex|] eqn:E; cbn [gcall] in Hl.
    + destruct (ret_ok (snd (tstep t s (XDial c0 a)))); [|eauto]. cbn [g_att] in Hl.
      destruct (N.eq_dec c c0) as [->|Hne].
      * rewrite lookup_put_eq in Hl. injection Hl as <-. destruct Hin as [<-|[]].
        exact (strict_expect t a ex Hs E).
      * rewrite lookup_put_ne in Hl by exact Hne. eauto.
    + assert (Hr : ret_ok (snd (tstep t s (XDial c0 a))) = false).
      { unfold tstep. cbn [ev_of]. rewrite E. reflexivity. }
      rewrite Hr in Hl. eauto.
  - cbn [gcall g_att] in Hl. destruct (N.eq_dec c c0) as [->|Hne].
    + rewrite lookup_put_eq in Hl. injection Hl as <-. exact (strict_attempts t l x Hs Hin).
    + rewrite lookup_put_ne in Hl by exact Hne. eauto.
  - cbn [call_plain] in Hp. destruct e; try discriminate; cbn [gcall] in Hl;
      try destruct (ret_ok _); cbn [g_att] in Hl; eauto.
Qed.

(* so an outbound connection is reported only for a peer an address of that id names, literally *)
Theorem strict_established_is_named_peer t s g k o1 c q o2 :
  strict t = true ->
  treach t s g -> call_plain t k = true -> caller_ok g (ev_of t k) = true ->
  snd (tstep t s k) = o1 ++ OEv (TEstablished c q false) :: o2 ->
  exists es, lookup c (g_att (gstep (ev_of t k) (snd (tstep t s k)) g)) = Some es /\ In (Some q) es.
Proof.
  intros Hs R Hp Hc E.
  destruct (t_established_names_dialled_peer t s g k o1 c q o2 R Hc E) as (_ & es & Hl & (x & Hx & Hm) & _).
  rewrite g_att_gout in Hl. exists es. rewrite g_att_gstep. split; [exact Hl|].
  pose proof (strict_att t _ _ Hs (treachS t s g k R Hp Hc) c es x) as Hstr.
  rewrite g_att_gstep in Hstr. destruct (Hstr Hl Hx) as [p ->].
  cbn [matches] in Hm. apply N.eqb_eq in Hm. subst. exact Hx.
Qed.

(* ---------- dial_address: what TransportManager lets through (coq/Mgr/DialShape.v, read-only) ---------- *)
From V.Mgr Require DialShape.

Lemma last_p2p3 (h x1 : C10.Model.comp) q p : last [h; x1; C10.Model.P2p p] (C10.Model.Other 0) = C10.Model.P2p q -> p = q.
Proof. cbn. intros [= ->]. reflexivity. Qed.

Theorem dial_shape_tcp listen a q :
  DialShape.dial_shape listen a = DialShape.SvTcp q -> manager_tcp_shape a q.
Proof.
  unfold DialShape.dial_shape. destruct (last a (C10.Model.Other 0)) eqn:El; try discriminate.
  destruct (existsb (C10.Model.maddr_eqb a) listen || existsb (C10.Model.maddr_eqb (C10.Model.strip_p2p a)) listen)%bool; [discriminate|].
  destruct a as [|h rest]; [discriminate|].
  destruct (DialShape.is_host h) eqn:Eh; [|discriminate].
  destruct rest as [|x1 [|x2 [|x3 [|x4 r]]]]; try discriminate;
    try (destruct x1; try discriminate; destruct x2; try discriminate; try (destruct x3; discriminate)).
  - intros [= <-]. cbn in El. injection El as ->. exists h, port. split; [reflexivity|].
    destruct h; try discriminate; cbn; discriminate.
Qed.

Theorem dial_shape_ws listen a q :
  DialShape.dial_shape listen a = DialShape.SvWs q -> manager_ws_shape a q.
Proof.
  unfold DialShape.dial_shape. destruct (last a (C10.Model.Other 0)) eqn:El; try discriminate.
  destruct (existsb (C10.Model.maddr_eqb a) listen || existsb (C10.Model.maddr_eqb (C10.Model.strip_p2p a)) listen)%bool; [discriminate|].
  destruct a as [|h rest]; [discriminate|].
  destruct (DialShape.is_host h) eqn:Eh; [|discriminate].
  assert (Hh : C10.Model.host_of h <> None) by (destruct h; try discriminate; cbn; discriminate).
  destruct rest as [|x1 [|x2 [|x3 [|x4 r]]]]; try discriminate;
    try (destruct x1; try discriminate; destruct x2; try discriminate; try (destruct x3; discriminate)).
  - destruct x3; try discriminate. intros [= <-]. cbn in El. injection El as ->.
    exists h, port, C10.Model.Ws. repeat split; assumption.
  - destruct x3; try discriminate. intros [= <-]. cbn in El. injection El as ->.
    exists h, port, C10.Model.Wss. repeat split; assumption.
Qed.

(* every address dial_address routes to the TCP (WebSocket) transport is accepted by its dial, and
   the peer the negotiation will insist on is the one the manager recorded for the attempt *)
Theorem tcp_dial_accepts_manager_addresses listen a q :
  DialShape.dial_shape listen a = DialShape.SvTcp q -> expect_of TTcp a = Some (Some q).
Proof. intros H. apply t_accepts_manager_tcp. exact (dial_shape_tcp listen a q H). Qed.

Theorem ws_dial_accepts_manager_addresses listen a q :
  DialShape.dial_shape listen a = DialShape.SvWs q -> expect_of TWs a = Some (Some q).
Proof. intros H. apply t_accepts_manager_ws. exact (dial_shape_ws listen a q H). Qed.

(* ---------- addresses a transport does not take: an error or a failure report, nothing stuck ---------- *)
(* a refused dial changes nothing: no future, no pending_dials entry, nothing owed *)
Theorem t_refused_dial_no_effect t s g c a :
  expect_of t a = None ->
  tstep t s (XDial c a) = (s, [ORet false]) /\
  gstep (ev_of t (XDial c a)) (snd (tstep t s (XDial c a))) g = g.
Proof.
  intros E. unfold tstep. cbn [ev_of]. rewrite E. cbn [step]. split; reflexivity.
Qed.

(* an open none of whose addresses the transport takes (malformed, another transport's, for WebSocket
   and QUIC also a missing /p2p) is answered by OpenFailure at the very next poll *)
Theorem t_open_unparsable_fails t s g c l e :
  treach t s g -> caller_ok g (ev_of t (XOpen c l)) = true -> attempts_of t l = [] -> polls e = true ->
  In (OEv (TOpenFailure c)) (snd (tstep t (fst (tstep t s (XOpen c l))) (XEv e))).
Proof.
  intros R Hc Ha Hp.
  pose proof (treachS t s g (XOpen c l) R eq_refl Hc) as R1.
  destruct (reach_inv _ _ (treach_reach _ _ _ R)) as [U C].
  assert (Hn : lookup (nfut s) (praw s) = None).
  { apply lookup_none. intros v H. pose proof (c_raw_lt _ _ C _ _ H) as Hlt. apply N.lt_irrefl in Hlt. exact Hlt. }
  apply (t_progress_open_no_address t _ _ (nfut s) c e R1); unfold tstep; cbn [ev_of step fst snd]; try exact Hp.
  - cbn [praw new_fut set_nfut set_attempts set_cancel set_praw]. rewrite (lookup_app_none _ _ _ Hn).
    unfold lookup. rewrite N.eqb_refl. reflexivity.
  - unfold gstep. cbn [gcall fold_left gout g_open]. left. reflexivity.
  - cbn [attempts new_fut set_nfut set_attempts set_cancel set_praw]. rewrite Ha. cbn [number]. apply lookup_put_eq.
Qed.
