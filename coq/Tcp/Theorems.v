(* Tcp — the theorems about every history of calls and completions (the invariants are in
   Proofs.v). *)
From Coq Require Import List NArith Bool Lia.
From Coq Require Import ZifyBool ZifyNat ZifyN.
From V.Tcp Require Import Model Proofs.
Import ListNotations.
Open Scope N_scope.

Arguments N.add : simpl never.
Arguments N.eqb : simpl never.
Arguments N.leb : simpl never.
Arguments N.ltb : simpl never.
Arguments N.of_nat : simpl never.
Arguments put : simpl never.
Arguments lookup : simpl never.
Arguments delk : simpl never.
Arguments add : simpl never.
Arguments del : simpl never.
Arguments mem : simpl never.

(* ====================================================================================== *)
(* Part 3: every history                                                                   *)
(* ====================================================================================== *)
(* all histories of calls and completions *)
Inductive reachU : tcp -> ghost -> Prop :=
| reachU0 : reachU init g0
| reachUS s g e : reachU s g -> reachU (fst (step s e)) (gstep e (snd (step s e)) g).

(* histories in which the owner draws the ids it passes to dial / open from the counter *)
Inductive reach : tcp -> ghost -> Prop :=
| reach0 : reach init g0
| reachS s g e : reach s g -> caller_ok g e = true ->
                 reach (fst (step s e)) (gstep e (snd (step s e)) g).

Lemma reach_reachU s g : reach s g -> reachU s g.
Proof. induction 1; [constructor|constructor; assumption]. Qed.

Lemma reachU_inv s g : reachU s g -> InvU s g.
Proof. induction 1; [exact InvU_init|]. apply stepU. assumption. Qed.

Lemma reach_inv s g : reach s g -> InvU s g /\ InvC s g.
Proof.
  induction 1 as [|s g e R [U C] Hc]; [split; [exact InvU_init|exact InvC_init]|].
  split; [apply stepU; exact U|apply stepC; assumption].
Qed.

(* reading an audit: every emitted event is feasible in the ghost state reached just before it *)
Lemma audit_by_read chk g os :
  audit_by chk g os = true ->
  forall o1 t o2, os = o1 ++ OEv t :: o2 -> chk (fold_left gout o1 g) t = true.
Proof.
  intros A o1 t o2 ->. rewrite audit_by_app in A. apply andb_prop in A. destruct A as [_ A].
  cbn [audit_by] in A. apply andb_prop in A. exact (proj1 A).
Qed.

(* (a) open phase, whatever the owner does: ConnectionOpened / OpenFailure only for an owed open *)
Theorem tcp_open_phase_owed s g e o1 t o2 :
  reachU s g -> snd (step s e) = o1 ++ OEv t :: o2 ->
  match t with
  | TOpened c | TOpenFailure c => In c (g_open (fold_left gout o1 (gcall e (snd (step s e)) g)))
  | _ => True
  end.
Proof.
  intros R E. destruct (stepU s g e (reachU_inv _ _ R)) as (_ & A & _).
  pose proof (audit_by_read _ _ _ A _ _ _ E) as H.
  destruct t; cbn [tfeas_open tfeas] in H; try exact I; apply mem_in; exact H.
Qed.

(* the ledger of owed opens: only open(c) adds c, cancel(c) and an answer for c remove it *)
Lemma g_open_gout c os g : In c (g_open (fold_left gout os g)) -> In c (g_open g).
Proof.
  revert g. induction os as [|o t IH]; intros g H; [exact H|].
  cbn [fold_left] in H. apply IH in H. destruct o as [b|x|ev|m]; cbn [gout] in H; try exact H.
  destruct ev as [x|x|x|x q [|]|x]; cbn [gev g_open] in H; try exact H;
    apply in_del in H; exact (proj1 H).
Qed.

Theorem tcp_owed_open_ledger :
  (forall e os g c, In c (g_open (gstep e os g)) -> In c (g_open g) \/ exists es, e = EOpen c es) /\
  (forall os g c, ~ In c (g_open (gstep (ECancel c) os g))) /\
  (forall c g, ~ In c (g_open (gev (TOpened c) g)) /\ ~ In c (g_open (gev (TOpenFailure c) g))).
Proof.
  split; [|split].
  - intros e os g c H. unfold gstep in H. apply g_open_gout in H.
    destruct e; cbn [gcall] in H; auto.
    + destruct (ret_ok os); cbn [g_open] in H; auto.
    + cbn [g_open] in H. destruct H as [<-|H]; eauto.
    + cbn [g_open] in H. apply in_del in H. left. exact (proj1 H).
    + destruct (ret_ok os); cbn [g_open] in H; auto.
  - intros os g c H. unfold gstep in H. apply g_open_gout in H. cbn [gcall g_open] in H.
    apply in_del in H. destruct H as [_ H]. apply H. reflexivity.
  - intros c g. split; intros H; cbn [gev g_open] in H; apply in_del in H; destruct H as [_ H]; apply H; reflexivity.
Qed.

(* (c) the results of the calls, whatever the owner does *)
Theorem tcp_call_results s g e :
  reachU s g -> call_ok e g (snd (step s e)) = true.
Proof. intros R. exact (proj2 (proj2 (stepU s g e (reachU_inv _ _ R)))). Qed.

Lemma g_opened_gout_in c os g : In (OEv (TOpened c)) os -> In c (g_opened (fold_left gout os g)).
Proof.
  assert (Hmono : forall os' g', In c (g_opened g') -> In c (g_opened (fold_left gout os' g'))).
  { induction os' as [|o t IH]; intros g' H; [exact H|]. cbn [fold_left]. apply IH.
    destruct o as [b|x|ev|m]; cbn [gout]; try exact H.
    destruct ev as [x|x|x|x q [|]|x]; cbn [gev g_opened]; try exact H. apply in_add. right. exact H. }
  revert g. induction os as [|o t IH]; intros g H; [destruct H|].
  destruct H as [->|H].
  - cbn [fold_left gout gev]. apply Hmono. cbn [g_opened]. apply in_add. left. reflexivity.
  - cbn [fold_left]. apply IH. exact H.
Qed.

(* negotiate(c) succeeds when called after ConnectionOpened c, also with cancel(c) in between *)
Theorem tcp_negotiate_after_opened s g e c :
  reachU s g -> In (OEv (TOpened c)) (snd (step s e)) ->
  let s1 := fst (step s e) in
  snd (step s1 (ENegotiate c)) = [ORet true] /\
  snd (step (fst (step s1 (ECancel c))) (ENegotiate c)) = [ORet true].
Proof.
  intros R Hin s1.
  pose proof (reachU_inv _ _ (reachUS s g e R)) as U1. fold s1 in U1.
  assert (Hop : In c (opened s1)).
  { apply (u_opened _ _ U1). unfold gstep. apply g_opened_gout_in. exact Hin. }
  assert (Hneg : forall s2, opened s2 = opened s1 -> snd (step s2 (ENegotiate c)) = [ORet true]).
  { intros s2 E. cbn [step]. rewrite E. apply mem_in in Hop. rewrite Hop. reflexivity. }
  split.
  - apply Hneg. reflexivity.
  - apply Hneg. cbn [step]. destruct (lookup c (cancel_futures s1)); reflexivity.
Qed.

(* (b) (e) and the identity clause: the whole contract, for an owner that draws its ids *)
Theorem tcp_contract s g e o1 t o2 :
  reach s g -> caller_ok g e = true -> snd (step s e) = o1 ++ OEv t :: o2 ->
  tfeas (fold_left gout o1 (gcall e (snd (step s e)) g)) t = true.
Proof.
  intros R Hc E. destruct (reach_inv _ _ R) as [U C].
  destruct (stepC s g e U C Hc) as (_ & A & _). exact (audit_by_read _ _ _ A _ _ _ E).
Qed.

(* an outbound connection is reported only for the peer the owner dialled under that id *)
Theorem tcp_established_names_dialled_peer s g e o1 c q o2 :
  reach s g -> caller_ok g e = true -> snd (step s e) = o1 ++ OEv (TEstablished c q false) :: o2 ->
  let g' := fold_left gout o1 (gcall e (snd (step s e)) g) in
  In c (g_neg g') /\
  exists es, lookup c (g_att g') = Some es /\ (exists x, In x es /\ matches x q = true) /\
             forall p, (forall x, In x es -> x = Some p) -> q = p.
Proof.
  intros R Hc E g'. pose proof (tcp_contract s g e o1 _ o2 R Hc E) as H. fold g' in H.
  cbn [tfeas] in H. apply andb_prop in H. destruct H as [H1 H2]. split; [apply mem_in; exact H1|].
  unfold named in H2. destruct (lookup c (g_att g')) as [es|]; [|discriminate].
  exists es. split; [reflexivity|]. apply existsb_exists in H2. split; [exact H2|].
  intros p Hall. destruct H2 as (x & Hx & Hm). rewrite (Hall x Hx) in Hm. cbn [matches] in Hm.
  apply N.eqb_eq in Hm. symmetry. exact Hm.
Qed.

(* ... and what an id names is fixed by the dial / open call that introduced it *)
Theorem tcp_named_by_call e os g c :
  lookup c (g_att (gstep e os g)) =
  match e with
  | EDial c' _ ex => if (c' =? c) && ret_ok os then Some [ex] else lookup c (g_att g)
  | EOpen c' es => if c' =? c then Some es else lookup c (g_att g)
  | _ => lookup c (g_att g)
  end.
Proof.
  assert (Hg : forall os' g', g_att (fold_left gout os' g') = g_att g').
  { induction os' as [|o t IH]; intros g'; [reflexivity|]. cbn [fold_left]. rewrite IH.
    destruct o as [b|x|ev|m]; try reflexivity. destruct ev as [x|x|x|x q [|]|x]; reflexivity. }
  unfold gstep. rewrite Hg. destruct e; cbn [gcall]; try reflexivity.
  - destruct (ret_ok os); cbn [g_att]; [|rewrite andb_false_r; reflexivity]. rewrite andb_true_r.
    destruct (c0 =? c) eqn:E.
    + apply N.eqb_eq in E. subst. apply lookup_put_eq.
    + apply N.eqb_neq in E. apply lookup_put_ne. congruence.
  - cbn [g_att]. destruct (c0 =? c) eqn:E.
    + apply N.eqb_eq in E. subst. apply lookup_put_eq.
    + apply N.eqb_neq in E. apply lookup_put_ne. congruence.
  - destruct (ret_ok os); reflexivity.
Qed.

(* (d) no answer is dropped: the branches that consume a future without an event are unreachable *)
Theorem tcp_no_dropped_answer s g e m :
  reach s g -> caller_ok g e = true -> In (OMark m) (snd (step s e)) ->
  exists c, m = MSilentFailure c KInb.
Proof.
  intros R Hc Hin. destruct (reach_inv _ _ R) as [U C].
  destruct (stepC s g e U C Hc) as (_ & _ & T).
  assert (Hm : In m (marks (snd (step s e)))).
  { unfold marks. apply in_flat_map. exists (OMark m). split; [exact Hin|left; reflexivity]. }
  specialize (T m Hm). destruct m as [c|c|c|c k]; cbn in T; try discriminate.
  destruct k; cbn in T; try discriminate. eauto.
Qed.

(* (e) ids: what is owed was passed in by the owner; the transport never invents an outbound id *)
Theorem tcp_outbound_ids_from_owner s g c :
  reachU s g -> In c (g_open g) \/ In c (g_neg g) \/ In c (g_opened g) -> In c (g_used g).
Proof.
  intros R H. pose proof (reachU_inv _ _ R) as U. destruct H as [H|[H|H]].
  - eapply u_open_used; eauto.
  - eapply u_neg_used; eauto.
  - eapply u_opened_used; eauto.
Qed.

(* what is owed is backed by a pending future of the transport: the environment can complete it *)
Theorem tcp_owed_is_pending s g c :
  reach s g ->
  (In c (g_open g) -> exists f rem, lookup f (praw s) = Some c /\ lookup f (attempts s) = Some rem /\
                                    ~ In f (aborted s)) /\
  (In c (g_neg g) -> exists f k, lookup f (pconn s) = Some (c, k) /\ is_inb k = false).
Proof.
  intros R. destruct (reach_inv _ _ R) as [U C]. split; intros H.
  - destruct (c_open_backed _ _ C c H) as [f Hf]. destruct (c_raw_att _ _ C f c Hf) as [rem Hr].
    exists f, rem. split; [|split; [exact Hr|]].
    + destruct (in_lookup _ _ _ Hf) as [c' Hc']. pose proof (lookup_in _ _ _ Hc') as Hin.
      rewrite (c_raw_fun _ _ C _ _ _ Hf Hin). exact Hc'.
    + intros Hab. exact (c_aborted_not_owed _ _ C f c Hf Hab H).
  - destruct (c_neg_backed _ _ C c H) as (f & k & Hf & Hk). exists f, k. split; [|exact Hk].
    destruct (in_lookup _ _ _ Hf) as [x Hx]. pose proof (lookup_in _ _ _ Hx) as Hin.
    rewrite (c_conn_fun _ _ C _ _ _ Hf Hin). exact Hx.
Qed.

(* ---------- (d) progress: a completed future is answered by the poll that observes it ---------- *)
Lemma in_lookup_raw s g f c : InvC s g -> In (f, c) (praw s) -> lookup f (praw s) = Some c.
Proof.
  intros C H. destruct (in_lookup _ _ _ H) as [c' Hc']. pose proof (lookup_in _ _ _ Hc') as Hin.
  rewrite (c_raw_fun _ _ C _ _ _ H Hin). exact Hc'.
Qed.

Lemma in_lookup_conn s g f x : InvC s g -> In (f, x) (pconn s) -> lookup f (pconn s) = Some x.
Proof.
  intros C H. destruct (in_lookup _ _ _ H) as [x' Hx']. pose proof (lookup_in _ _ _ Hx') as Hin.
  rewrite (c_conn_fun _ _ C _ _ _ H Hin). exact Hx'.
Qed.

(* a pending, un-cancelled raw future with its address table *)
Definition KeepR (f : fut) (c : conn) (rem : list (N * expect)) (s : tcp) (g : ghost) : Prop :=
  InvU s g /\ InvC s g /\ In (f, c) (praw s) /\ In c (g_open g) /\ lookup f (attempts s) = Some rem.

(* the poll of a raw future that is owed an answer emits it *)
Lemma observe_raw_emits f c r s g :
  InvC s g -> In (f, c) (praw s) -> In c (g_open g) ->
  snd (observe_raw f (Some r) s) = [OEv (match r with Some _ => TOpened c | None => TOpenFailure c end)].
Proof.
  intros C Hin Ho. unfold observe_raw. rewrite (in_lookup_raw _ _ _ _ C Hin).
  assert (Hab : mem f (aborted s) = false).
  { apply mem_false. intros H. exact (c_aborted_not_owed _ _ C f c Hin H Ho). }
  rewrite Hab, (c_raw_handle _ _ C f c Hin), Hab. destruct r; reflexivity.
Qed.

Lemma observe_raw_keepR f' inner f c rem s g :
  KeepR f c rem s g -> (f' = f -> inner = None) ->
  (forall q c', inner = Some (Some q) -> In (f', c') (praw s) -> names g c' q) ->
  KeepR f c rem (fst (observe_raw f' inner s)) (fold_left gout (snd (observe_raw f' inner s)) g).
Proof.
  intros (U & C & Hin & Ho & Ha) Hsame Hn.
  destruct (observe_raw_I f' inner s g U C Hn) as (U' & C' & _ & _).
  split; [exact U'|split; [exact C'|]]. clear U' C'.
  unfold observe_raw. destruct (lookup f' (praw s)) as [c'|] eqn:Ef; [|cbn; auto].
  apply lookup_in in Ef.
  assert (Hab : ~ In f (aborted s)) by (intros H; exact (c_aborted_not_owed _ _ C f c Hin H Ho)).
  destruct (N.eq_dec f' f) as [->|Hne].
  - rewrite (Hsame eq_refl). apply mem_false in Hab. rewrite Hab. cbn. auto.
  - assert (Hc : c' <> c) by (intros ->; apply Hne; eapply (c_raw_inj _ _ C); eauto).
    assert (Hk : In (f, c) (delk f' (praw s))) by (apply in_delk; split; [exact Hin|congruence]).
    assert (Hd : In c (del c' (g_open g))) by (apply in_del; split; [exact Ho|congruence]).
    destruct (mem f' (aborted s)).
    + destruct (lookup c' (cancel_futures s)); cbn; auto.
    + destruct inner as [res|]; [|cbn; auto].
      destruct (lookup c' (cancel_futures s)) as [h|]; [|cbn; auto].
      destruct (mem h (aborted s)); [cbn; auto|].
      destruct res; cbn; auto.
Qed.

Lemma observe_conn_keepR f' inner f c rem s g :
  KeepR f c rem s g ->
  (forall q c', inner = Some (Some q) -> In (f', (c', KDial)) (pconn s) -> names g c' q) ->
  KeepR f c rem (fst (observe_conn f' inner s)) (fold_left gout (snd (observe_conn f' inner s)) g).
Proof.
  intros (U & C & Hin & Ho & Ha) Hn.
  destruct (observe_conn_I f' inner s g U C Hn) as (U' & C' & _ & _).
  split; [exact U'|split; [exact C'|]]. clear U' C'.
  unfold observe_conn. destruct (lookup f' (pconn s)) as [[c' k]|]; [|cbn; auto].
  destruct (match k with KNeg => _ | _ => inner end) as [r|]; [|cbn; auto].
  destruct r as [q|].
  - destruct (is_inb k); cbn; auto.
  - destruct (mem c' (pending_dials s)); cbn; auto.
Qed.

Lemma flush_raw_keepR fs f c rem s g :
  KeepR f c rem s g -> rem <> [] ->
  KeepR f c rem (fst (flush_raw fs s)) (fold_left gout (snd (flush_raw fs s)) g).
Proof.
  intros K Hne. revert s g K. induction fs as [|f' t IH]; intros s g K; [exact K|].
  cbn [flush_raw].
  pose proof (observe_raw_keepR f' (if no_attempt_left f' s then Some None else None) f c rem s g K) as K1.
  destruct (observe_raw f' (if no_attempt_left f' s then Some None else None) s) as [s1 o1].
  cbn [fst snd] in K1.
  assert (K1' : KeepR f c rem s1 (fold_left gout o1 g)).
  { apply K1.
    - intros ->. unfold no_attempt_left. destruct K as (_ & _ & _ & _ & Ha). rewrite Ha.
      destruct rem; [contradiction|reflexivity].
    - intros q c' H. destruct (no_attempt_left f' s); discriminate. }
  pose proof (IH s1 _ K1') as K2.
  destruct (flush_raw t s1) as [s2 o2]. cbn [fst snd] in *. rewrite fold_gout_app. exact K2.
Qed.

Lemma flush_conn_keepR fs f c rem s g :
  KeepR f c rem s g ->
  KeepR f c rem (fst (flush_conn fs s)) (fold_left gout (snd (flush_conn fs s)) g).
Proof.
  revert s g. induction fs as [|f' t IH]; intros s g K; [exact K|].
  cbn [flush_conn].
  pose proof (observe_conn_keepR f' None f c rem s g K) as K1.
  destruct (observe_conn f' None s) as [s1 o1]. cbn [fst snd] in K1.
  assert (K1' : KeepR f c rem s1 (fold_left gout o1 g)) by (apply K1; intros q c' H; discriminate).
  pose proof (IH s1 _ K1') as K2.
  destruct (flush_conn t s1) as [s2 o2]. cbn [fst snd] in *. rewrite fold_gout_app. exact K2.
Qed.

Lemma flush_keepR f c rem s g :
  KeepR f c rem s g -> rem <> [] ->
  KeepR f c rem (fst (flush s)) (fold_left gout (snd (flush s)) g).
Proof.
  intros K Hne. unfold flush.
  pose proof (flush_raw_keepR (map fst (praw s)) f c rem s g K Hne) as K1.
  destruct (flush_raw (map fst (praw s)) s) as [s1 o1]. cbn [fst snd] in K1.
  pose proof (flush_conn_keepR (map fst (pconn s1)) f c rem s1 _ K1) as K2.
  destruct (flush_conn (map fst (pconn s1)) s1) as [s2 o2]. cbn [fst snd] in *.
  rewrite fold_gout_app. exact K2.
Qed.

Lemma reach_keepR s g f c rem :
  reach s g -> lookup f (praw s) = Some c -> In c (g_open g) -> lookup f (attempts s) = Some rem ->
  KeepR f c rem s g.
Proof.
  intros R Hf Ho Ha. destruct (reach_inv _ _ R) as [U C].
  split; [exact U|split; [exact C|split; [apply lookup_in; exact Hf|split; assumption]]].
Qed.

(* the open of an owed id: an address answers with the identity it names -> ConnectionOpened *)
Theorem tcp_progress_open_answer s g f c rem i e q :
  reach s g -> lookup f (praw s) = Some c -> In c (g_open g) ->
  lookup f (attempts s) = Some rem -> lookup i rem = Some e -> matches e q = true ->
  In (OEv (TOpened c)) (snd (step s (EAns f i (Some q)))).
Proof.
  intros R Hf Ho Ha Hi Hm.
  assert (Hne : rem <> []) by (intros ->; discriminate).
  pose proof (flush_keepR f c rem s g (reach_keepR _ _ _ _ _ R Hf Ho Ha) Hne) as K.
  cbn [step]. destruct (flush s) as [s1 o1]. cbn [fst snd] in K.
  destruct K as (U1 & C1 & Hin1 & Ho1 & Ha1).
  rewrite (in_lookup_raw _ _ _ _ C1 Hin1). unfold attempt_raw. rewrite Ha1, Hi, Hm.
  pose proof (observe_raw_emits f c (Some q) s1 _ C1 Hin1 Ho1) as E.
  destruct (observe_raw f (Some (Some q)) s1) as [s2 o2]. cbn [snd] in *. subst o2.
  apply in_or_app. right. left. reflexivity.
Qed.

(* ... its last address fails (or is answered by another identity) -> OpenFailure *)
Theorem tcp_progress_open_last_failure s g f c rem i e ans :
  reach s g -> lookup f (praw s) = Some c -> In c (g_open g) ->
  lookup f (attempts s) = Some rem -> lookup i rem = Some e -> delk i rem = [] ->
  (forall q, ans = Some q -> matches e q = false) ->
  In (OEv (TOpenFailure c)) (snd (step s (EAns f i ans))).
Proof.
  intros R Hf Ho Ha Hi Hlast Hm.
  assert (Hne : rem <> []) by (intros ->; discriminate).
  pose proof (flush_keepR f c rem s g (reach_keepR _ _ _ _ _ R Hf Ho Ha) Hne) as K.
  cbn [step]. destruct (flush s) as [s1 o1]. cbn [fst snd] in K.
  destruct K as (U1 & C1 & Hin1 & Ho1 & Ha1).
  rewrite (in_lookup_raw _ _ _ _ C1 Hin1). unfold attempt_raw. rewrite Ha1, Hi.
  assert (Hw : match ans with Some q => if matches e q then Some q else None | None => None end = None).
  { destruct ans as [q|]; [rewrite (Hm q eq_refl)|]; reflexivity. }
  rewrite Hw. cbv zeta. rewrite Hlast.
  pose proof (InvC_attempts_put f i rem s1 _ C1 Ha1) as C2. rewrite Hlast in C2.
  pose proof (observe_raw_emits f c None (set_attempts (put f [] (attempts s1)) s1) _ C2 Hin1 Ho1) as E.
  destruct (observe_raw f (Some None) (set_attempts (put f [] (attempts s1)) s1)) as [s2 o2].
  cbn [snd] in *. subst o2. apply in_or_app. right. left. reflexivity.
Qed.

(* ... the overall deadline fires -> OpenFailure *)
Theorem tcp_progress_open_expire s g f c rem :
  reach s g -> lookup f (praw s) = Some c -> In c (g_open g) ->
  lookup f (attempts s) = Some rem -> rem <> [] ->
  In (OEv (TOpenFailure c)) (snd (step s (EExpire f))).
Proof.
  intros R Hf Ho Ha Hne.
  pose proof (flush_keepR f c rem s g (reach_keepR _ _ _ _ _ R Hf Ho Ha) Hne) as K.
  cbn [step]. destruct (flush s) as [s1 o1]. cbn [fst snd] in K.
  destruct K as (U1 & C1 & Hin1 & Ho1 & Ha1).
  pose proof (observe_raw_emits f c None s1 _ C1 Hin1 Ho1) as E.
  destruct (observe_raw f (Some None) s1) as [s2 o2]. cbn [snd] in *. subst o2.
  apply in_or_app. right. left. reflexivity.
Qed.

(* ... no address is left (an open without addresses): the next poll -> OpenFailure *)
Lemma flush_raw_emits fs f c s g :
  KeepR f c [] s g -> In f fs -> In (OEv (TOpenFailure c)) (snd (flush_raw fs s)).
Proof.
  revert s g. induction fs as [|f' t IH]; intros s g K Hin; [destruct Hin|].
  cbn [flush_raw]. destruct (N.eq_dec f' f) as [->|Hne].
  - destruct K as (U & C & Hf & Ho & Ha). unfold no_attempt_left. rewrite Ha.
    pose proof (observe_raw_emits f c None s g C Hf Ho) as E.
    destruct (observe_raw f (Some None) s) as [s1 o1]. cbn [snd] in E. subst o1.
    destruct (flush_raw t s1) as [s2 o2]. cbn [snd]. left. reflexivity.
  - destruct Hin as [->|Hin]; [contradiction|].
    pose proof (observe_raw_keepR f' (if no_attempt_left f' s then Some None else None) f c [] s g K) as K1.
    destruct (observe_raw f' (if no_attempt_left f' s then Some None else None) s) as [s1 o1].
    cbn [fst snd] in K1.
    assert (K1' : KeepR f c [] s1 (fold_left gout o1 g)).
    { apply K1; [intros ->; contradiction|]. intros q c' H. destruct (no_attempt_left f' s); discriminate. }
    pose proof (IH s1 _ K1' Hin) as H2.
    destruct (flush_raw t s1) as [s2 o2]. cbn [snd] in *. apply in_or_app. right. exact H2.
Qed.

Lemma step_polls_flush s e x :
  polls e = true -> In x (snd (flush s)) -> In x (snd (step s e)).
Proof.
  intros Hp Hin. destruct e; try discriminate; cbn [step].
  - exact Hin.
  - destruct (flush s) as [s1 o1]. cbn [snd] in *. apply in_or_app. left. exact Hin.
  - destruct (flush s) as [s1 o1].
    destruct (match lookup f (praw s1) with Some _ => attempt_raw f i ans s1 | None => attempt_conn f ans s1 end) as [s2 o2].
    cbn [snd] in *. apply in_or_app. left. exact Hin.
  - destruct (flush s) as [s1 o1]. destruct (observe_raw f (Some None) s1) as [s2 o2].
    cbn [snd] in *. apply in_or_app. left. exact Hin.
Qed.

Theorem tcp_progress_open_no_address s g f c e :
  reach s g -> lookup f (praw s) = Some c -> In c (g_open g) -> lookup f (attempts s) = Some [] ->
  polls e = true -> In (OEv (TOpenFailure c)) (snd (step s e)).
Proof.
  intros R Hf Ho Ha Hp. apply step_polls_flush; [exact Hp|].
  pose proof (reach_keepR _ _ _ _ _ R Hf Ho Ha) as K.
  assert (Hin : In f (map fst (praw s))).
  { apply in_map_iff. exists (f, c). split; [reflexivity|apply lookup_in; exact Hf]. }
  pose proof (flush_raw_emits _ f c s g K Hin) as H.
  unfold flush. destruct (flush_raw (map fst (praw s)) s) as [s1 o1].
  destruct (flush_conn (map fst (pconn s1)) s1) as [s2 o2]. cbn [snd] in *.
  apply in_or_app. left. exact H.
Qed.

(* a pending future of pending_connections *)
Definition KeepC (f : fut) (c : conn) (k : kind) (s : tcp) (g : ghost) : Prop :=
  InvU s g /\ InvC s g /\ In (f, (c, k)) (pconn s).

Lemma observe_raw_keepC f' inner f c k s g :
  KeepC f c k s g ->
  (forall q c', inner = Some (Some q) -> In (f', c') (praw s) -> names g c' q) ->
  KeepC f c k (fst (observe_raw f' inner s)) (fold_left gout (snd (observe_raw f' inner s)) g).
Proof.
  intros (U & C & Hin) Hn.
  destruct (observe_raw_I f' inner s g U C Hn) as (U' & C' & _ & _).
  split; [exact U'|split; [exact C'|]]. clear U' C'.
  unfold observe_raw. destruct (lookup f' (praw s)) as [c'|]; [|exact Hin].
  destruct (mem f' (aborted s)).
  - destruct (lookup c' (cancel_futures s)); exact Hin.
  - destruct inner as [res|]; [|exact Hin].
    destruct (lookup c' (cancel_futures s)) as [h|]; [|exact Hin].
    destruct (mem h (aborted s)); [exact Hin|]. destruct res; exact Hin.
Qed.

Lemma observe_conn_keepC f' f c k s g :
  KeepC f c k s g -> (f' = f -> k <> KNeg) ->
  KeepC f c k (fst (observe_conn f' None s)) (fold_left gout (snd (observe_conn f' None s)) g).
Proof.
  intros (U & C & Hin) Hk.
  destruct (observe_conn_I f' None s g U C) as (U' & C' & _ & _); [intros q c' H; discriminate|].
  split; [exact U'|split; [exact C'|]]. clear U' C'.
  unfold observe_conn. destruct (lookup f' (pconn s)) as [[c' k']|] eqn:El; [|exact Hin].
  destruct (N.eq_dec f' f) as [->|Hne].
  - rewrite (in_lookup_conn _ _ _ _ C Hin) in El. injection El as <- <-.
    destruct k; [exact Hin|exact Hin|exfalso; exact (Hk eq_refl eq_refl)].
  - assert (Hd : In (f, (c, k)) (delk f' (pconn s))) by (apply in_delk; split; [exact Hin|congruence]).
    destruct k'; try exact Hin. cbn. exact Hd.
Qed.

Lemma flush_raw_keepC fs f c k s g :
  KeepC f c k s g -> KeepC f c k (fst (flush_raw fs s)) (fold_left gout (snd (flush_raw fs s)) g).
Proof.
  revert s g. induction fs as [|f' t IH]; intros s g K; [exact K|].
  cbn [flush_raw].
  pose proof (observe_raw_keepC f' (if no_attempt_left f' s then Some None else None) f c k s g K) as K1.
  destruct (observe_raw f' (if no_attempt_left f' s then Some None else None) s) as [s1 o1].
  cbn [fst snd] in K1.
  assert (K1' : KeepC f c k s1 (fold_left gout o1 g)).
  { apply K1. intros q c' H. destruct (no_attempt_left f' s); discriminate. }
  pose proof (IH s1 _ K1') as K2.
  destruct (flush_raw t s1) as [s2 o2]. cbn [fst snd] in *. rewrite fold_gout_app. exact K2.
Qed.

Lemma flush_conn_keepC fs f c k s g :
  KeepC f c k s g -> k <> KNeg ->
  KeepC f c k (fst (flush_conn fs s)) (fold_left gout (snd (flush_conn fs s)) g).
Proof.
  intros K Hk. revert s g K. induction fs as [|f' t IH]; intros s g K; [exact K|].
  cbn [flush_conn].
  pose proof (observe_conn_keepC f' f c k s g K (fun _ => Hk)) as K1.
  destruct (observe_conn f' None s) as [s1 o1]. cbn [fst snd] in K1.
  pose proof (IH s1 _ K1) as K2.
  destruct (flush_conn t s1) as [s2 o2]. cbn [fst snd] in *. rewrite fold_gout_app. exact K2.
Qed.

Lemma flush_keepC f c k s g :
  KeepC f c k s g -> k <> KNeg -> KeepC f c k (fst (flush s)) (fold_left gout (snd (flush s)) g).
Proof.
  intros K Hk. unfold flush.
  pose proof (flush_raw_keepC (map fst (praw s)) f c k s g K) as K1.
  destruct (flush_raw (map fst (praw s)) s) as [s1 o1]. cbn [fst snd] in K1.
  pose proof (flush_conn_keepC (map fst (pconn s1)) f c k s1 _ K1 Hk) as K2.
  destruct (flush_conn (map fst (pconn s1)) s1) as [s2 o2]. cbn [fst snd] in *.
  rewrite fold_gout_app. exact K2.
Qed.

Lemma g_att_gout os g : g_att (fold_left gout os g) = g_att g.
Proof.
  revert g. induction os as [|o t IH]; intros g; [reflexivity|]. cbn [fold_left]. rewrite IH.
  destruct o as [b|x|ev|m]; try reflexivity. destruct ev as [x|x|x|x q [|]|x]; reflexivity.
Qed.

(* dial(c, address naming e): the socket / handshake ends -> ConnectionEstablished for the named
   peer, DialFailure otherwise (also when another identity answered) *)
Theorem tcp_progress_dial s g f c i ans :
  reach s g -> lookup f (pconn s) = Some (c, KDial) ->
  exists e, lookup c (g_att g) = Some [e] /\
    In (OEv (match ans with
             | Some q => if matches e q then TEstablished c q false else TDialFailure c
             | None => TDialFailure c
             end)) (snd (step s (EAns f i ans))).
Proof.
  intros R Hf. destruct (reach_inv _ _ R) as [U C].
  pose proof (lookup_in _ _ _ Hf) as Hin.
  destruct (c_att_dial _ _ C f c Hin) as (e & _ & He). exists e. split; [exact He|].
  assert (K : KeepC f c KDial s g) by (split; [exact U|split; [exact C|exact Hin]]).
  apply flush_keepC in K; [|discriminate].
  cbn [step]. destruct (flush s) as [s1 o1]. cbn [fst snd] in K. destruct K as (U1 & C1 & Hin1).
  assert (Hnr : lookup f (praw s1) = None).
  { apply lookup_none. intros c' H. exact (c_raw_conn _ _ C1 _ _ _ H Hin1). }
  rewrite Hnr. unfold attempt_conn. rewrite (in_lookup_conn _ _ _ _ C1 Hin1).
  destruct (c_att_dial _ _ C1 f c Hin1) as (e1 & He1 & He1'). rewrite g_att_gout, He in He1'.
  injection He1' as <-. rewrite He1.
  set (r := match ans with Some q => if matches e q then Some q else None | None => None end).
  assert (Hout : snd (observe_conn f (Some r) s1) =
                 [OEv (match r with Some q => TEstablished c q false | None => TDialFailure c end)]).
  { unfold observe_conn. rewrite (in_lookup_conn _ _ _ _ C1 Hin1). destruct r as [q|]; [reflexivity|].
    pose proof (c_conn_dial _ _ C1 f c Hin1) as Hd. apply mem_in in Hd. rewrite Hd. reflexivity. }
  destruct (observe_conn f (Some r) s1) as [s2 o2]. cbn [snd] in *. subst o2.
  apply in_or_app. right. left. unfold r. destruct ans as [q|]; [destruct (matches e q)|]; reflexivity.
Qed.

(* an accepted inbound socket completes its handshake -> ConnectionEstablished (listener side) *)
Theorem tcp_progress_inbound s g f c i q :
  reach s g -> lookup f (pconn s) = Some (c, KInb) ->
  In (OEv (TEstablished c q true)) (snd (step s (EAns f i (Some q)))).
Proof.
  intros R Hf. destruct (reach_inv _ _ R) as [U C].
  pose proof (lookup_in _ _ _ Hf) as Hin.
  assert (K : KeepC f c KInb s g) by (split; [exact U|split; [exact C|exact Hin]]).
  apply flush_keepC in K; [|discriminate].
  cbn [step]. destruct (flush s) as [s1 o1]. cbn [fst snd] in K. destruct K as (U1 & C1 & Hin1).
  assert (Hnr : lookup f (praw s1) = None).
  { apply lookup_none. intros c' H. exact (c_raw_conn _ _ C1 _ _ _ H Hin1). }
  rewrite Hnr. unfold attempt_conn. rewrite (in_lookup_conn _ _ _ _ C1 Hin1).
  assert (Hout : snd (observe_conn f (Some (Some q)) s1) = [OEv (TEstablished c q true)]).
  { unfold observe_conn. rewrite (in_lookup_conn _ _ _ _ C1 Hin1). reflexivity. }
  destruct (observe_conn f (Some (Some q)) s1) as [s2 o2]. cbn [snd] in *. subst o2.
  apply in_or_app. right. left. reflexivity.
Qed.

(* negotiate(c) succeeded: the next poll reports the connection, for a peer the owner named *)
Lemma flush_conn_emits fs f c s g :
  KeepC f c KNeg s g -> In f fs ->
  exists q, In (OEv (TEstablished c q false)) (snd (flush_conn fs s)).
Proof.
  revert s g. induction fs as [|f' t IH]; intros s g K Hin; [destruct Hin|].
  cbn [flush_conn]. destruct (N.eq_dec f' f) as [->|Hne].
  - destruct K as (U & C & Hf). exists (peer_or0 (lookup f (neg_peer s))).
    assert (Hout : snd (observe_conn f None s) = [OEv (TEstablished c (peer_or0 (lookup f (neg_peer s))) false)]).
    { unfold observe_conn. rewrite (in_lookup_conn _ _ _ _ C Hf). reflexivity. }
    destruct (observe_conn f None s) as [s1 o1]. cbn [snd] in Hout. subst o1.
    destruct (flush_conn t s1) as [s2 o2]. cbn [snd]. left. reflexivity.
  - destruct Hin as [->|Hin]; [contradiction|].
    pose proof (observe_conn_keepC f' f c KNeg s g K) as K1.
    destruct (observe_conn f' None s) as [s1 o1]. cbn [fst snd] in K1.
    assert (K1' : KeepC f c KNeg s1 (fold_left gout o1 g)) by (apply K1; intros ->; contradiction).
    destruct (IH s1 _ K1' Hin) as [q Hq]. exists q.
    destruct (flush_conn t s1) as [s2 o2]. cbn [snd] in *. apply in_or_app. right. exact Hq.
Qed.

Theorem tcp_progress_negotiate s g f c e :
  reach s g -> lookup f (pconn s) = Some (c, KNeg) -> polls e = true ->
  exists q, In (OEv (TEstablished c q false)) (snd (step s e)).
Proof.
  intros R Hf Hp. destruct (reach_inv _ _ R) as [U C].
  pose proof (lookup_in _ _ _ Hf) as Hin.
  assert (K : KeepC f c KNeg s g) by (split; [exact U|split; [exact C|exact Hin]]).
  pose proof (flush_raw_keepC (map fst (praw s)) f c KNeg s g K) as K1.
  assert (Hq : exists q, In (OEv (TEstablished c q false)) (snd (flush s))).
  { unfold flush. destruct (flush_raw (map fst (praw s)) s) as [s1 o1]. cbn [fst snd] in K1.
    assert (Hin1 : In f (map fst (pconn s1))).
    { apply in_map_iff. exists (f, (c, KNeg)). split; [reflexivity|exact (proj2 (proj2 K1))]. }
    destruct (flush_conn_emits _ f c s1 _ K1 Hin1) as [q Hq]. exists q.
    destruct (flush_conn (map fst (pconn s1)) s1) as [s2 o2]. cbn [snd] in *.
    apply in_or_app. right. exact Hq. }
  destruct Hq as [q Hq]. exists q. apply step_polls_flush; assumption.
Qed.

(* ---------- concrete histories (non-vacuity; why the owner's hygiene is needed) ---------- *)
Fixpoint run (s : tcp) (es : list ev) : tcp * list (list outp) :=
  match es with
  | [] => (s, [])
  | e :: t => let '(s1, os) := step s e in let '(s2, r) := run s1 t in (s2, os :: r)
  end.

Fixpoint callers_ok (s : tcp) (g : ghost) (es : list ev) : bool :=
  match es with
  | [] => true
  | e :: t => caller_ok g e && callers_ok (fst (step s e)) (gstep e (snd (step s e)) g) t
  end.

(* a dial-by-peer-id as the manager does it: two addresses naming peer 1, the first one is answered
   by identity 2 (refused), the second by identity 1: ConnectionOpened, cancel + negotiate,
   ConnectionEstablished for peer 1; then an address answered only by the wrong identity *)
Definition history1 : list ev :=
  [EDraw; EOpen 0 [Some 1; Some 1]; EPoll; EAns 0 0 (Some 2); EAns 0 1 (Some 1);
   ECancel 0; ENegotiate 0; EPoll; EAccept 0;
   EDraw; EOpen 1 [Some 1]; EAns 2 0 (Some 2);
   EDraw; EDial 2 true (Some 1); EAns 3 0 (Some 2);
   EInbound; EAcceptPending 3; EAns 4 0 (Some 7)].

Lemma history1_ok :
  callers_ok init g0 history1 = true /\
  snd (run init history1) =
  [[OId 0]; [ORet true]; []; []; [OEv (TOpened 0)]; []; [ORet true]; [OEv (TEstablished 0 1 false)];
   [ORet true]; [OId 1]; [ORet true]; [OEv (TOpenFailure 1)]; [OId 2]; [ORet true];
   [OEv (TDialFailure 2)]; [OEv (TPendingInbound 3)]; [ORet true]; [OEv (TEstablished 3 7 true)]].
Proof. vm_compute. split; reflexivity. Qed.

(* the owner's hygiene is needed: with open(c) called twice for one id, the first future to
   complete answers through the handle of the second, and the result of the other one is dropped
   by the "raw connection without a cancel handle" branch *)
Lemma duplicate_open_drops_an_answer :
  exists es, callers_ok init g0 es = false /\
             In [OMark (MNoHandle 0)] (snd (run init es)).
Proof.
  exists [EDraw; EOpen 0 [Some 1]; EOpen 0 [Some 1]; EAns 0 0 (Some 1); EAns 1 0 (Some 1)].
  vm_compute. split; [reflexivity|]. right. right. right. right. left. reflexivity.
Qed.
