(* Tcp — "never silence" at the transport: from every reachable state the environment has a finite
   schedule (attempts ending, polls) after which nothing is owed any more. Environment events never
   take an id out of the owed sets except by emitting its answer (`gcall` of an environment event is
   the identity, `gev` removes an id only for its own answer), so every owed open / negotiate gets its
   answer; with Once.v (at most one answer per id and phase) this is "exactly one outcome".

   The schedule is built by a measure argument: owed opens + owed negotiates + addresses still being
   tried; the progress theorems of Theorems.v provide the step that decreases it. *)
From Coq Require Import List NArith Bool Lia PeanoNat Wf_nat.
From Coq Require Import ZifyBool ZifyNat ZifyN.
From V.Tcp Require Import Model Proofs Theorems Variants VariantTheorems.
Import ListNotations.
Open Scope N_scope.

Arguments N.add : simpl never.
Arguments N.eqb : simpl never.
Arguments N.of_nat : simpl never.
Arguments put : simpl never.
Arguments lookup : simpl never.
Arguments delk : simpl never.
Arguments add : simpl never.
Arguments del : simpl never.
Arguments mem : simpl never.

Ltac nlia := unfold conn, fut, peer in *; lia.

(* ---------- environment schedules ---------- *)
Definition env_ev (e : ev) : bool :=
  match e with EPoll | EAns _ _ _ => true | _ => false end.

Fixpoint runG (s : tcp) (g : ghost) (es : list ev) : tcp * ghost :=
  match es with
  | [] => (s, g)
  | e :: t => runG (fst (step s e)) (gstep e (snd (step s e)) g) t
  end.

Lemma env_caller_ok g e : env_ev e = true -> caller_ok g e = true.
Proof. destruct e; try discriminate; reflexivity. Qed.

Lemma env_gcall e os g : env_ev e = true -> gcall e os g = g.
Proof. destruct e; try discriminate; reflexivity. Qed.

(* ---------- the measure ---------- *)
Definition total (l : list (fut * list (N * expect))) : nat :=
  fold_right (fun x n => (length (snd x) + n)%nat) 0%nat l.

Definition mu (s : tcp) (g : ghost) : nat :=
  (length (g_open g) + length (g_neg g) + total (attempts s))%nat.

(* deleting from a list *)
Lemma del_len_le x l : (length (del x l) <= length l)%nat.
Proof.
  unfold del. induction l as [|y t IH]; [apply Nat.le_refl|]. cbn [filter].
  destruct (negb (y =? x)); cbn [length]; nlia.
Qed.

Lemma del_len_lt x l : In x l -> (length (del x l) < length l)%nat.
Proof.
  unfold del. induction l as [|y t IH]; [intros []|]. intros [->|H]; cbn [filter].
  - rewrite N.eqb_refl. cbn [negb length]. pose proof (del_len_le x t) as L. unfold del in L. nlia.
  - specialize (IH H). destruct (negb (y =? x)); cbn [length]; nlia.
Qed.

Lemma delk_len_le {A} k (l : list (N * A)) : (length (delk k l) <= length l)%nat.
Proof.
  unfold delk. induction l as [|y t IH]; [apply Nat.le_refl|]. cbn [filter].
  destruct (negb (fst y =? k)); cbn [length]; nlia.
Qed.

Lemma delk_len_lt {A} k (v : A) (l : list (N * A)) : In (k, v) l -> (length (delk k l) < length l)%nat.
Proof.
  unfold delk. induction l as [|y t IH]; [intros []|]. intros [->|H]; cbn [filter fst].
  - rewrite N.eqb_refl. cbn [negb length]. pose proof (delk_len_le k t) as L. unfold delk in L. nlia.
  - specialize (IH H). destruct (negb (fst y =? k)); cbn [length]; nlia.
Qed.

(* the owed sets only shrink under the outputs of a step, strictly when an answer is among them *)
Lemma gout_open_shape g o : g_open (gout g o) = g_open g \/ exists x, g_open (gout g o) = del x (g_open g).
Proof.
  destruct o as [b|x|t|m]; cbn [gout]; auto. destruct t as [x|x|x|x q [|]|x]; cbn [gev g_open]; eauto.
Qed.

Lemma gout_neg_shape g o : g_neg (gout g o) = g_neg g \/ exists x, g_neg (gout g o) = del x (g_neg g).
Proof.
  destruct o as [b|x|t|m]; cbn [gout]; auto. destruct t as [x|x|x|x q [|]|x]; cbn [gev g_neg]; eauto.
Qed.

Lemma g_open_len os : forall g, (length (g_open (fold_left gout os g)) <= length (g_open g))%nat.
Proof.
  induction os as [|o r IH]; intros g; [apply Nat.le_refl|]. cbn [fold_left].
  specialize (IH (gout g o)). destruct (gout_open_shape g o) as [E|[x E]]; rewrite E in IH; [exact IH|].
  pose proof (del_len_le x (g_open g)). nlia.
Qed.

Lemma g_neg_len os : forall g, (length (g_neg (fold_left gout os g)) <= length (g_neg g))%nat.
Proof.
  induction os as [|o r IH]; intros g; [apply Nat.le_refl|]. cbn [fold_left].
  specialize (IH (gout g o)). destruct (gout_neg_shape g o) as [E|[x E]]; rewrite E in IH; [exact IH|].
  pose proof (del_len_le x (g_neg g)). nlia.
Qed.

Definition answers_open (c : conn) (o : outp) : Prop := o = OEv (TOpened c) \/ o = OEv (TOpenFailure c).
Definition answers_neg (c : conn) (o : outp) : Prop :=
  o = OEv (TDialFailure c) \/ exists q, o = OEv (TEstablished c q false).

Lemma g_open_len_lt os c : forall g,
  In c (g_open g) -> (exists o, In o os /\ answers_open c o) ->
  (length (g_open (fold_left gout os g)) < length (g_open g))%nat.
Proof.
  induction os as [|o r IH]; intros g Hin (o' & Ho & Ha); [destruct Ho|]. cbn [fold_left].
  pose proof (g_open_len r (gout g o)) as Hle.
  destruct Ho as [->|Ho].
  - assert (E : g_open (gout g o') = del c (g_open g)) by (destruct Ha as [->| ->]; reflexivity).
    rewrite E in Hle. pose proof (del_len_lt c _ Hin). nlia.
  - destruct (gout_open_shape g o) as [E|[x E]].
    + assert (Hin' : In c (g_open (gout g o))) by (rewrite E; exact Hin).
      specialize (IH (gout g o) Hin' (ex_intro _ o' (conj Ho Ha))). rewrite E in IH. exact IH.
    + destruct (N.eq_dec x c) as [->|Hne].
      * rewrite E in Hle. pose proof (del_len_lt c _ Hin). nlia.
      * assert (Hin' : In c (g_open (gout g o))) by (rewrite E; apply in_del; split; [exact Hin|congruence]).
        specialize (IH (gout g o) Hin' (ex_intro _ o' (conj Ho Ha))). rewrite E in IH.
        pose proof (del_len_le x (g_open g)). nlia.
Qed.

Lemma g_neg_len_lt os c : forall g,
  In c (g_neg g) -> (exists o, In o os /\ answers_neg c o) ->
  (length (g_neg (fold_left gout os g)) < length (g_neg g))%nat.
Proof.
  induction os as [|o r IH]; intros g Hin (o' & Ho & Ha); [destruct Ho|]. cbn [fold_left].
  pose proof (g_neg_len r (gout g o)) as Hle.
  destruct Ho as [->|Ho].
  - assert (E : g_neg (gout g o') = del c (g_neg g)) by (destruct Ha as [->|[q ->]]; reflexivity).
    rewrite E in Hle. pose proof (del_len_lt c _ Hin). nlia.
  - destruct (gout_neg_shape g o) as [E|[x E]].
    + assert (Hin' : In c (g_neg (gout g o))) by (rewrite E; exact Hin).
      specialize (IH (gout g o) Hin' (ex_intro _ o' (conj Ho Ha))). rewrite E in IH. exact IH.
    + destruct (N.eq_dec x c) as [->|Hne].
      * rewrite E in Hle. pose proof (del_len_lt c _ Hin). nlia.
      * assert (Hin' : In c (g_neg (gout g o))) by (rewrite E; apply in_del; split; [exact Hin|congruence]).
        specialize (IH (gout g o) Hin' (ex_intro _ o' (conj Ho Ha))). rewrite E in IH.
        pose proof (del_len_le x (g_neg g)). nlia.
Qed.

(* ---------- the address tables only shrink under environment events ---------- *)
Lemma observe_raw_att f inner s : attempts (fst (observe_raw f inner s)) = attempts s.
Proof.
  unfold observe_raw. destruct (lookup f (praw s)) as [c|]; [|reflexivity].
  destruct (mem f (aborted s)).
  - destruct (lookup c (cancel_futures s)); reflexivity.
  - destruct inner as [res|]; [|reflexivity]. destruct (lookup c (cancel_futures s)) as [h|]; [|reflexivity].
    destruct (mem h (aborted s)); [reflexivity|]. destruct res; reflexivity.
Qed.

Lemma observe_conn_att f inner s : attempts (fst (observe_conn f inner s)) = attempts s.
Proof.
  unfold observe_conn. destruct (lookup f (pconn s)) as [[c k]|]; [|reflexivity].
  destruct (match k with KNeg => _ | _ => inner end) as [r|]; [|reflexivity].
  destruct r; [reflexivity|]. destruct (mem c (pending_dials s)); reflexivity.
Qed.

Lemma flush_raw_att fs : forall s, attempts (fst (flush_raw fs s)) = attempts s.
Proof.
  induction fs as [|f t IH]; intros s; [reflexivity|]. cbn [flush_raw].
  pose proof (observe_raw_att f (if no_attempt_left f s then Some None else None) s) as E1.
  destruct (observe_raw f (if no_attempt_left f s then Some None else None) s) as [s1 o1].
  specialize (IH s1). destruct (flush_raw t s1) as [s2 o2]. cbn [fst] in *. congruence.
Qed.

Lemma flush_conn_att fs : forall s, attempts (fst (flush_conn fs s)) = attempts s.
Proof.
  induction fs as [|f t IH]; intros s; [reflexivity|]. cbn [flush_conn].
  pose proof (observe_conn_att f None s) as E1. destruct (observe_conn f None s) as [s1 o1].
  specialize (IH s1). destruct (flush_conn t s1) as [s2 o2]. cbn [fst] in *. congruence.
Qed.

Lemma flush_att s : attempts (fst (flush s)) = attempts s.
Proof.
  unfold flush. pose proof (flush_raw_att (map fst (praw s)) s) as E1.
  destruct (flush_raw (map fst (praw s)) s) as [s1 o1].
  pose proof (flush_conn_att (map fst (pconn s1)) s1) as E2.
  destruct (flush_conn (map fst (pconn s1)) s1) as [s2 o2]. cbn [fst] in *. congruence.
Qed.

Lemma lookup_cons {A} k (v : A) t f : lookup f ((k, v) :: t) = if k =? f then Some v else lookup f t.
Proof. reflexivity. Qed.

Lemma delk_cons {A} k (v : A) t f :
  delk f ((k, v) :: t) = if negb (k =? f) then (k, v) :: delk f t else delk f t.
Proof. reflexivity. Qed.

Lemma total_cons x t : total (x :: t) = (length (snd x) + total t)%nat.
Proof. reflexivity. Qed.

Lemma total_delk_le f l : (total (delk f l) <= total l)%nat.
Proof.
  induction l as [|[k v] t IH]; [apply Nat.le_refl|]. rewrite delk_cons, total_cons.
  destruct (negb (k =? f)); [rewrite total_cons|]; cbn [snd]; nlia.
Qed.

Lemma total_lookup f l rem : lookup f l = Some rem -> (total (delk f l) + length rem <= total l)%nat.
Proof.
  induction l as [|[k v] t IH]; [discriminate|]. rewrite lookup_cons, delk_cons, total_cons. cbn [snd].
  destruct (k =? f) eqn:E; cbn [negb].
  - intros [= ->]. pose proof (total_delk_le f t) as L. nlia.
  - intros H. specialize (IH H). rewrite total_cons. cbn [snd]. nlia.
Qed.

Lemma total_put f rem rem' l :
  lookup f l = Some rem -> (total (put f rem' l) + length rem <= total l + length rem')%nat.
Proof.
  intros H. unfold put. rewrite total_cons. cbn [snd].
  pose proof (total_lookup f l rem H). nlia.
Qed.

Lemma lookup_delk_len {A} i (e : A) rem : lookup i rem = Some e -> (length (delk i rem) < length rem)%nat.
Proof. intros H. exact (delk_len_lt i e rem (lookup_in _ _ _ H)). Qed.

Lemma attempt_raw_total f i ans s :
  (total (attempts (fst (attempt_raw f i ans s))) <= total (attempts s))%nat.
Proof.
  unfold attempt_raw. destruct (lookup f (attempts s)) as [rem|] eqn:Ea; [|apply Nat.le_refl].
  destruct (lookup i rem) as [e|] eqn:Ei; [|apply Nat.le_refl].
  destruct (match ans with Some q => if matches e q then Some q else None | None => None end) as [q|].
  - rewrite observe_raw_att. apply Nat.le_refl.
  - cbv zeta. pose proof (total_put f rem (delk i rem) (attempts s) Ea) as T.
    pose proof (lookup_delk_len i e rem Ei) as L.
    destruct (delk i rem) as [|x r] eqn:Ed.
    + rewrite observe_raw_att. cbn [attempts set_attempts]. cbn [length] in *. nlia.
    + cbn [fst attempts set_attempts]. nlia.
Qed.

Lemma attempt_conn_att f ans s : attempts (fst (attempt_conn f ans s)) = attempts s.
Proof.
  unfold attempt_conn. destruct (lookup f (pconn s)) as [[c k]|]; [|reflexivity].
  destruct k; try reflexivity; apply observe_conn_att.
Qed.

Lemma step_env_total s e : env_ev e = true -> (total (attempts (fst (step s e))) <= total (attempts s))%nat.
Proof.
  destruct e; try discriminate; intros _; cbn [step].
  - rewrite flush_att. apply Nat.le_refl.
  - pose proof (flush_att s) as Ef. destruct (flush s) as [s1 o1]. cbn [fst] in Ef.
    destruct (lookup f (praw s1)).
    + pose proof (attempt_raw_total f i ans s1) as T. destruct (attempt_raw f i ans s1) as [s2 o2].
      cbn [fst] in *. rewrite Ef in T. exact T.
    + pose proof (attempt_conn_att f ans s1) as T. destruct (attempt_conn f ans s1) as [s2 o2].
      cbn [fst] in *. rewrite T, Ef. apply Nat.le_refl.
Qed.

(* an attempt of an owed open fails and others are left: one address less *)
Lemma step_ans_total_lt s g f c rem i e :
  reach s g -> lookup f (praw s) = Some c -> In c (g_open g) ->
  lookup f (attempts s) = Some rem -> lookup i rem = Some e -> delk i rem <> [] ->
  (total (attempts (fst (step s (EAns f i None)))) < total (attempts s))%nat.
Proof.
  intros R Hf Ho Ha Hi Hne.
  assert (Hr : rem <> []) by (intros ->; discriminate).
  pose proof (flush_keepR f c rem s g (reach_keepR _ _ _ _ _ R Hf Ho Ha) Hr) as K.
  pose proof (flush_att s) as Ef.
  cbn [step]. destruct (flush s) as [s1 o1]. cbn [fst snd] in *.
  destruct K as (U1 & C1 & Hin1 & Ho1 & Ha1).
  rewrite (in_lookup_raw _ _ _ _ C1 Hin1). unfold attempt_raw. rewrite Ha1, Hi. cbv zeta.
  destruct (delk i rem) as [|x r] eqn:Ed; [contradiction|].
  cbn [fst attempts set_attempts].
  pose proof (total_put f rem (x :: r) (attempts s1) Ha1) as T.
  pose proof (lookup_delk_len i e rem Hi) as L. rewrite Ed in L. rewrite Ef in T |- *. nlia.
Qed.

(* ---------- one step of the schedule ---------- *)
Lemma drain_step s g :
  reach s g -> g_open g <> [] \/ g_neg g <> [] ->
  exists e, env_ev e = true /\ (mu (fst (step s e)) (gstep e (snd (step s e)) g) < mu s g)%nat.
Proof.
  intros R H. unfold mu.
  assert (Hstep : forall e, env_ev e = true ->
            (length (g_open (gstep e (snd (step s e)) g)) <= length (g_open g))%nat /\
            (length (g_neg (gstep e (snd (step s e)) g)) <= length (g_neg g))%nat /\
            (total (attempts (fst (step s e))) <= total (attempts s))%nat).
  { intros e He. unfold gstep. rewrite (env_gcall e _ g He).
    split; [apply g_open_len|split; [apply g_neg_len|apply step_env_total; exact He]]. }
  destruct (g_open g) as [|c l] eqn:Eo.
  - (* an owed negotiate *)
    destruct H as [H|H]; [contradiction|]. destruct (g_neg g) as [|c l] eqn:En; [contradiction|].
    assert (Hin : In c (g_neg g)) by (rewrite En; left; reflexivity).
    destruct (proj2 (tcp_owed_is_pending s g c R) Hin) as (f & k & Hf & Hk).
    destruct k; try discriminate.
    + (* dial: its attempt ends *)
      exists (EAns f 0 None). split; [reflexivity|].
      destruct (tcp_progress_dial s g f c 0 None R Hf) as (x & _ & Hev).
      destruct (Hstep (EAns f 0 None) eq_refl) as (L1 & L2 & L3).
      assert (L2' : (length (g_neg (gstep (EAns f 0 None) (snd (step s (EAns f 0 None))) g)) < length (g_neg g))%nat).
      { unfold gstep. rewrite env_gcall by reflexivity. apply (g_neg_len_lt _ c); [exact Hin|].
        exists (OEv (TDialFailure c)). split; [exact Hev|left; reflexivity]. }
      rewrite ?Eo, ?En in *. nlia.
    + (* negotiate: the next poll *)
      exists EPoll. split; [reflexivity|].
      destruct (tcp_progress_negotiate s g f c EPoll R Hf eq_refl) as (q & Hev).
      destruct (Hstep EPoll eq_refl) as (L1 & L2 & L3).
      assert (L2' : (length (g_neg (gstep EPoll (snd (step s EPoll)) g)) < length (g_neg g))%nat).
      { unfold gstep. rewrite env_gcall by reflexivity. apply (g_neg_len_lt _ c); [exact Hin|].
        exists (OEv (TEstablished c q false)). split; [exact Hev|right; eauto]. }
      rewrite ?Eo, ?En in *. nlia.
  - (* an owed open *)
    assert (Hin : In c (g_open g)) by (rewrite Eo; left; reflexivity).
    destruct (proj1 (tcp_owed_is_pending s g c R) Hin) as (f & rem & Hf & Ha & _).
    destruct rem as [|[i x] rest] eqn:Er.
    + (* no address left: the next poll *)
      exists EPoll. split; [reflexivity|].
      pose proof (tcp_progress_open_no_address s g f c EPoll R Hf Hin Ha eq_refl) as Hev.
      destruct (Hstep EPoll eq_refl) as (L1 & L2 & L3).
      assert (L1' : (length (g_open (gstep EPoll (snd (step s EPoll)) g)) < length (g_open g))%nat).
      { unfold gstep. rewrite env_gcall by reflexivity. apply (g_open_len_lt _ c); [exact Hin|].
        exists (OEv (TOpenFailure c)). split; [exact Hev|right; reflexivity]. }
      rewrite ?Eo in *. nlia.
    + (* the first address still being tried fails *)
      exists (EAns f i None). split; [reflexivity|].
      assert (Hi : lookup i ((i, x) :: rest) = Some x) by (rewrite lookup_cons, N.eqb_refl; reflexivity).
      destruct (Hstep (EAns f i None) eq_refl) as (L1 & L2 & L3).
      destruct (delk i ((i, x) :: rest)) as [|y r] eqn:Ed.
      * assert (Hev : In (OEv (TOpenFailure c)) (snd (step s (EAns f i None)))).
        { apply (tcp_progress_open_last_failure s g f c _ i x None R Hf Hin Ha Hi Ed). intros q Hq. discriminate. }
        assert (L1' : (length (g_open (gstep (EAns f i None) (snd (step s (EAns f i None))) g)) < length (g_open g))%nat).
        { unfold gstep. rewrite env_gcall by reflexivity. apply (g_open_len_lt _ c); [exact Hin|].
          exists (OEv (TOpenFailure c)). split; [exact Hev|right; reflexivity]. }
        rewrite ?Eo in *. nlia.
      * assert (L3' : (total (attempts (fst (step s (EAns f i None)))) < total (attempts s))%nat).
        { apply (step_ans_total_lt s g f c _ i x R Hf Hin Ha Hi). rewrite Ed. discriminate. }
        rewrite ?Eo in *. nlia.
Qed.

(* ---------- the theorem ---------- *)
Theorem tcp_can_always_settle s g :
  reach s g ->
  exists es, forallb env_ev es = true /\
             reach (fst (runG s g es)) (snd (runG s g es)) /\
             g_open (snd (runG s g es)) = [] /\ g_neg (snd (runG s g es)) = [].
Proof.
  remember (mu s g) as n eqn:En. revert s g En.
  induction n as [n IH] using lt_wf_ind. intros s g En R.
  destruct (g_open g) as [|c l] eqn:Eo; [destruct (g_neg g) as [|c l] eqn:Eg|].
  - exists []. cbn [forallb runG fst snd]. auto.
  - destruct (drain_step s g R) as (e & He & Hlt); [right; rewrite Eg; discriminate|].
    destruct (IH _ ltac:(rewrite En; exact Hlt) _ _ eq_refl (reachS s g e R (env_caller_ok g e He))) as (es & Hes & Hr & H1 & H2).
    exists (e :: es). cbn [forallb runG]. rewrite He. auto.
  - destruct (drain_step s g R) as (e & He & Hlt); [left; rewrite Eo; discriminate|].
    destruct (IH _ ltac:(rewrite En; exact Hlt) _ _ eq_refl (reachS s g e R (env_caller_ok g e He))) as (es & Hes & Hr & H1 & H2).
    exists (e :: es). cbn [forallb runG]. rewrite He. auto.
Qed.

(* an environment event takes an id out of the owed sets only by emitting its answer *)
Theorem tcp_env_removes_only_by_answer s g e c :
  env_ev e = true ->
  (In c (g_open g) -> ~ In c (g_open (gstep e (snd (step s e)) g)) ->
   exists o, In o (snd (step s e)) /\ answers_open c o) /\
  (In c (g_neg g) -> ~ In c (g_neg (gstep e (snd (step s e)) g)) ->
   exists o, In o (snd (step s e)) /\ answers_neg c o).
Proof.
  intros He. unfold gstep. rewrite (env_gcall e _ g He). generalize (snd (step s e)) as os. intros os.
  split; revert g; induction os as [|o r IH]; intros g Hin Hout; try (exfalso; exact (Hout Hin)); cbn [fold_left] in Hout.
  - destruct (in_dec N.eq_dec c (g_open (gout g o))) as [Hi|Hn].
    + destruct (IH _ Hi Hout) as (o' & Ho' & Ha). exists o'. split; [right; exact Ho'|exact Ha].
    + exists o. split; [left; reflexivity|].
      destruct o as [b|x|t|m]; cbn [gout] in Hn; try contradiction.
      destruct t as [x|x|x|x q [|]|x]; cbn [gev g_open] in Hn; try contradiction.
      * destruct (N.eq_dec x c) as [->|Hne]; [left; reflexivity|]. exfalso. apply Hn, in_del. split; [exact Hin|congruence].
      * destruct (N.eq_dec x c) as [->|Hne]; [right; reflexivity|]. exfalso. apply Hn, in_del. split; [exact Hin|congruence].
  - destruct (in_dec N.eq_dec c (g_neg (gout g o))) as [Hi|Hn].
    + destruct (IH _ Hi Hout) as (o' & Ho' & Ha). exists o'. split; [right; exact Ho'|exact Ha].
    + exists o. split; [left; reflexivity|].
      destruct o as [b|x|t|m]; cbn [gout] in Hn; try contradiction.
      destruct t as [x|x|x|x q [|]|x]; cbn [gev g_neg] in Hn; try contradiction.
      * destruct (N.eq_dec x c) as [->|Hne]; [right; eauto|]. exfalso. apply Hn, in_del. split; [exact Hin|congruence].
      * destruct (N.eq_dec x c) as [->|Hne]; [left; reflexivity|]. exfalso. apply Hn, in_del. split; [exact Hin|congruence].
Qed.

(* ---------- per transport ---------- *)
Lemma env_plain t e : env_ev e = true -> call_plain t (XEv e) = true.
Proof. destruct e; try discriminate; reflexivity. Qed.

Lemma runG_treach t es : forall s g,
  treach t s g -> forallb env_ev es = true -> treach t (fst (runG s g es)) (snd (runG s g es)).
Proof.
  induction es as [|e r IH]; intros s g R H; [exact R|]. cbn [forallb] in H. apply andb_prop in H.
  destruct H as [He Hr]. cbn [runG]. apply IH; [|exact Hr].
  exact (treachS t s g (XEv e) R (env_plain t e He) (env_caller_ok g e He)).
Qed.

(* the environment events of the schedule (attempts ending, polls) exist for every transport: the
   schedule never needs the overall deadline that QUIC lacks *)
Theorem t_can_always_settle t s g :
  treach t s g ->
  exists es, forallb env_ev es = true /\
             treach t (fst (runG s g es)) (snd (runG s g es)) /\
             g_open (snd (runG s g es)) = [] /\ g_neg (snd (runG s g es)) = [].
Proof.
  intros R. destruct (tcp_can_always_settle s g (treach_reach _ _ _ R)) as (es & He & _ & H1 & H2).
  exists es. split; [exact He|]. split; [apply runG_treach; assumption|]. split; assumption.
Qed.
