(* Tcp — the three socket transports over one bookkeeping model.

   tcp/mod.rs, websocket/mod.rs and quic/mod.rs keep the same books (pending_dials,
   pending_raw_connections + cancel_futures, opened / opened_raw, pending_connections,
   pending_inbound_connections, pending_open) with the same poll_next; what differs is the front end:
   which multiaddresses `dial` accepts, which addresses of an `open` become attempts at all, what peer
   an attempt expects, and whether the future of `open` has an overall deadline:

     TCP   dial: TcpAddress::multiaddr_to_socket_address (host, /tcp, optional /p2p);
           without /p2p the negotiation compares with nobody; deadline 2 x connection_open_timeout
     WS    dial: WebSocketTransport::multiaddr_into_url (host, /tcp, /ws | /wss, /p2p REQUIRED);
           the same deadline
     QUIC  dial: QuicListener::get_socket_address (host, /udp, /quic-v1) and /p2p REQUIRED; the
           expected peer is checked by the TLS certificate verifier; all addresses at once, NO deadline

   An address of `open` that does not parse ends its attempt in the first statement of the attempt
   future, without any I/O: it never is an attempt the environment could answer, so it is not in the
   attempt table (when no address parses the future is Failed at its first poll, like an open without
   addresses).

   The multiaddress grammar and the socket-address parsers are those of coq/C10/Model.v (tied to
   common/listener.rs and quic/listener.rs by the C10 stream); `ws_url` below is the transcription of
   multiaddr_into_url. Definitions and the per-transport reachability; the theorems are in
   VariantTheorems.v. *)
From Coq Require Import List NArith Bool.
From V.C10 Require Model.
From V.Tcp Require Import Model.
Import ListNotations.
Open Scope N_scope.


Notation transport := C10.Model.transport.
Notation TTcp := C10.Model.TTcp.
Notation TWs := C10.Model.TWs.
Notation TQuic := C10.Model.TQuic.

(* websocket/mod.rs multiaddr_into_url: host, /tcp/port, /ws or /wss, /p2p/peer; nothing after the
   peer id is looked at; a missing /p2p is an error (AddressError::PeerIdMissing) *)
Definition ws_url (a : C10.Model.maddr) : option peer :=
  match a with
  | h :: C10.Model.Tcp _ :: w :: C10.Model.P2p p :: _ =>
      match C10.Model.host_of h with
      | Some _ => if C10.Model.is_ws w then Some p else None
      | None => None
      end
  | _ => None
  end.

(* what `dial(c, a)` / an attempt of `open` does with the address: None = the call returns Err /
   the attempt ends at once; Some e = a future (an attempt) expecting e *)
Definition expect_of (t : transport) (a : C10.Model.maddr) : option expect :=
  match t with
  | TTcp => match C10.Model.parse TTcp a with Some (_, _, q) => Some q | None => None end
  | TWs => match ws_url a with Some p => Some (Some p) | None => None end
  | TQuic => match C10.Model.parse TQuic a with Some (_, _, Some p) => Some (Some p) | _ => None end
  end.

Definition has_deadline (t : transport) : bool :=
  match t with TQuic => false | _ => true end.

(* the calls of the owner and the events of the environment, per transport *)
Inductive tcall :=
| XDial (c : conn) (a : C10.Model.maddr)
| XOpen (c : conn) (l : list C10.Model.maddr)
| XEv (e : ev).

(* events that are not address-carrying calls; QUIC has no overall deadline *)
Definition plain (t : transport) (e : ev) : bool :=
  match e with
  | EDial _ _ _ | EOpen _ _ => false
  | EExpire _ => has_deadline t
  | _ => true
  end.

Definition attempts_of (t : transport) (l : list C10.Model.maddr) : list expect :=
  flat_map (fun a => match expect_of t a with Some e => [e] | None => [] end) l.

Definition ev_of (t : transport) (k : tcall) : ev :=
  match k with
  | XDial c a => match expect_of t a with
                 | Some e => EDial c true e
                 | None => EDial c false None
                 end
  | XOpen c l => EOpen c (attempts_of t l)
  | XEv e => e
  end.

Definition call_plain (t : transport) (k : tcall) : bool :=
  match k with XEv e => plain t e | _ => true end.

Definition tstep (t : transport) (s : tcp) (k : tcall) : tcp * list outp := step s (ev_of t k).

(* ---------- which addresses the manager hands to a transport ---------- *)
(* dial_address: the shapes coq/Mgr/DialShape.v lets through (host, /tcp, [/ws | /wss,] /p2p) —
   stated on the shape so that it does not depend on that file; dial(peer): addresses of the store,
   which pass `supported` of coq/C10/Model.v, routed by `route` *)
Definition manager_tcp_shape (a : C10.Model.maddr) (q : peer) : Prop :=
  exists h port, a = [h; C10.Model.Tcp port; C10.Model.P2p q] /\ C10.Model.host_of h <> None.
Definition manager_ws_shape (a : C10.Model.maddr) (q : peer) : Prop :=
  exists h port w, a = [h; C10.Model.Tcp port; w; C10.Model.P2p q] /\ C10.Model.host_of h <> None /\ C10.Model.is_ws w = true.
Definition manager_quic_shape (a : C10.Model.maddr) (q : peer) : Prop :=
  exists h port, a = [h; C10.Model.Udp port; C10.Model.QuicV1; C10.Model.P2p q] /\ C10.Model.host_of h <> None.
