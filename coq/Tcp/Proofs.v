(* Tcp — proofs about the TcpTransport bookkeeping model: the transport contract assumed by the
   manager's ledger invariant (`feas` in coq/Mgr/LedgerInv.v) holds for every history of calls and
   future completions. *)
From Coq Require Import List NArith Bool Lia.
From Coq Require Import ZifyBool ZifyNat ZifyN.
From Hammer Require Import Tactics.
From V.Tcp Require Import Model.
Import ListNotations.
Open Scope N_scope.

Arguments N.add : simpl never.
Arguments N.eqb : simpl never.
Arguments N.leb : simpl never.
Arguments N.ltb : simpl never.
Arguments N.of_nat : simpl never.

(* ---------- sets and maps ---------- *)
Lemma mem_in x l : mem x l = true <-> In x l.
Proof.
  unfold mem. rewrite existsb_exists. split.
  - intros [y [Hy E]]. apply N.eqb_eq in E. subst. exact Hy.
  - intros H. exists x. split; [exact H|apply N.eqb_refl].
Qed.

Lemma mem_false x l : mem x l = false <-> ~ In x l.
Proof.
  rewrite <- mem_in. destruct (mem x l); split; intros; try reflexivity; try discriminate.
  - exfalso. apply H. reflexivity.
Qed.

Lemma in_add y x l : In y (add x l) <-> y = x \/ In y l.
Proof.
  unfold add. destruct (mem x l) eqn:E.
  - apply mem_in in E. split; [intros H; right; exact H|intros [->|H]; assumption].
  - cbn [In]. split; intros [H|H]; auto.
Qed.

Lemma in_del y x l : In y (del x l) <-> In y l /\ y <> x.
Proof.
  unfold del. rewrite filter_In. split; intros [H1 H2]; split; try exact H1.
  - intros ->. rewrite N.eqb_refl in H2. discriminate.
  - destruct (y =? x) eqn:E; [apply N.eqb_eq in E; contradiction|reflexivity].
Qed.

Lemma in_delk {A} (a : N) (b : A) k l : In (a, b) (delk k l) <-> In (a, b) l /\ a <> k.
Proof.
  unfold delk. rewrite filter_In. cbn [fst]. split; intros [H1 H2]; split; try exact H1.
  - intros ->. rewrite N.eqb_refl in H2. discriminate.
  - destruct (a =? k) eqn:E; [apply N.eqb_eq in E; contradiction|reflexivity].
Qed.

Lemma lookup_in {A} k (v : A) l : lookup k l = Some v -> In (k, v) l.
Proof.
  induction l as [|[k' v'] t IH]; cbn [lookup]; [discriminate|].
  destruct (k' =? k) eqn:E.
  - intros [= ->]. apply N.eqb_eq in E. subst. left. reflexivity.
  - intros H. right. apply IH. exact H.
Qed.

Lemma lookup_none {A} k (l : list (N * A)) : lookup k l = None <-> forall v, ~ In (k, v) l.
Proof.
  induction l as [|[k' v'] t IH]; cbn [lookup].
  - split; [intros _ v H; exact H|reflexivity].
  - destruct (k' =? k) eqn:E.
    + apply N.eqb_eq in E. subst. split; [discriminate|]. intros H. exfalso. apply (H v'). left. reflexivity.
    + apply N.eqb_neq in E. rewrite IH. split.
      * intros H v [[= -> ->]|Hin]; [contradiction|]. exact (H v Hin).
      * intros H v Hin. apply (H v). right. exact Hin.
Qed.

Lemma in_lookup {A} k (v : A) l : In (k, v) l -> exists v', lookup k l = Some v'.
Proof.
  intros H. destruct (lookup k l) eqn:E; [eauto|]. exfalso. exact (proj1 (lookup_none k l) E v H).
Qed.

Lemma lookup_delk_eq {A} k (l : list (N * A)) : lookup k (delk k l) = None.
Proof. apply lookup_none. intros v H. apply in_delk in H. destruct H as [_ H]. apply H. reflexivity. Qed.

Lemma lookup_delk_ne {A} k k' (l : list (N * A)) : k' <> k -> lookup k' (delk k l) = lookup k' l.
Proof.
  intros Hne. induction l as [|[a b] t IH]; [reflexivity|].
  cbn [delk filter fst]. destruct (a =? k) eqn:E; cbn [negb].
  - apply N.eqb_eq in E. subst. cbn [lookup]. destruct (k =? k') eqn:E2.
    + apply N.eqb_eq in E2. subst. contradiction.
    + exact IH.
  - cbn [lookup]. destruct (a =? k'); [reflexivity|exact IH].
Qed.

Lemma lookup_put_eq {A} k (v : A) l : lookup k (put k v l) = Some v.
Proof. unfold put. cbn [lookup]. rewrite N.eqb_refl. reflexivity. Qed.

Lemma lookup_put_ne {A} k k' (v : A) l : k' <> k -> lookup k' (put k v l) = lookup k' l.
Proof.
  intros H. unfold put. cbn [lookup]. destruct (k =? k') eqn:E.
  - apply N.eqb_eq in E. subst. contradiction.
  - apply lookup_delk_ne. exact H.
Qed.

Lemma lookup_app_none {A} k (l1 l2 : list (N * A)) :
  lookup k l1 = None -> lookup k (l1 ++ l2) = lookup k l2.
Proof.
  induction l1 as [|[a b] t IH]; [reflexivity|]. cbn [lookup app].
  destruct (a =? k); [discriminate|exact IH].
Qed.

Lemma lookup_app_some {A} k (v : A) (l1 l2 : list (N * A)) :
  lookup k l1 = Some v -> lookup k (l1 ++ l2) = Some v.
Proof.
  induction l1 as [|[a b] t IH]; [discriminate|]. cbn [lookup app].
  destruct (a =? k); [intros H; exact H|exact IH].
Qed.

Arguments put : simpl never.
Arguments lookup : simpl never.
Arguments delk : simpl never.
Arguments add : simpl never.
Arguments del : simpl never.
Arguments mem : simpl never.

(* ---------- auditing a list of outputs ---------- *)
Lemma audit_by_app chk g o1 o2 :
  audit_by chk g (o1 ++ o2) = audit_by chk g o1 && audit_by chk (fold_left gout o1 g) o2.
Proof.
  revert g. induction o1 as [|o t IH]; intros g; [reflexivity|].
  destruct o as [b|c|e|m]; cbn [app audit_by fold_left gout]; try apply IH.
  rewrite IH. rewrite andb_assoc. reflexivity.
Qed.

Lemma fold_gout_app o1 o2 g : fold_left gout (o1 ++ o2) g = fold_left gout o2 (fold_left gout o1 g).
Proof. apply fold_left_app. Qed.

(* ====================================================================================== *)
(* Part 1: what holds whatever the owner does                                              *)
(* ====================================================================================== *)
Record InvU (s : tcp) (g : ghost) : Prop := {
  (* a handle that was not aborted belongs to an owed open *)
  u_handle : forall c h, lookup c (cancel_futures s) = Some h -> ~ In h (aborted s) -> In c (g_open g);
  (* `opened` is exactly: ConnectionOpened emitted and not negotiated since *)
  u_opened : forall c, In c (opened s) <-> In c (g_opened g);
  u_ab_lt : forall h, In h (aborted s) -> h < nfut s;
  u_cf_lt : forall c h, lookup c (cancel_futures s) = Some h -> h < nfut s;
  (* the transport never invents an outbound id *)
  u_open_used : forall c, In c (g_open g) -> In c (g_used g);
  u_opened_used : forall c, In c (g_opened g) -> In c (g_used g);
  u_neg_used : forall c, In c (g_neg g) -> In c (g_used g);
  u_ctr : g_ctr g = ctr s
}.

Lemma InvU_init : InvU init g0.
Proof.
  constructor; cbn; try (intros; contradiction); try discriminate; try reflexivity.
Qed.

(* a state transformer that keeps InvU, emits only feasible open-phase events *)
Definition keepsU (tr : tcp -> tcp * list outp) : Prop :=
  forall s g, InvU s g ->
    InvU (fst (tr s)) (fold_left gout (snd (tr s)) g) /\ audit_open g (snd (tr s)) = true.

Lemma observe_raw_U f inner : keepsU (observe_raw f inner).
Proof.
  intros s g I. unfold observe_raw.
  destruct (lookup f (praw s)) as [c|] eqn:Ef; [|cbn; split; [exact I|reflexivity]].
  destruct (mem f (aborted s)) eqn:Eab.
  - (* Canceled *)
    destruct (lookup c (cancel_futures s)) as [h|] eqn:Eh; cbn [fst snd fold_left gout audit_open audit_by];
      (split; [|reflexivity]); destruct I; constructor; cbn; auto.
    + intros c' h' H. destruct (N.eq_dec c' c) as [->|Hne].
      * rewrite lookup_delk_eq in H. discriminate.
      * rewrite lookup_delk_ne in H by exact Hne. eauto.
    + intros c' h' H. destruct (N.eq_dec c' c) as [->|Hne].
      * rewrite lookup_delk_eq in H. discriminate.
      * rewrite lookup_delk_ne in H by exact Hne. eauto.
  - destruct inner as [res|]; [|cbn; split; [exact I|reflexivity]].
    destruct (lookup c (cancel_futures s)) as [h|] eqn:Eh.
    2:{ cbn [fst snd fold_left gout audit_open audit_by]. split; [|reflexivity].
        destruct I; constructor; cbn; auto. }
    assert (Hdel : forall c' h', lookup c' (delk c (cancel_futures s)) = Some h' ->
                                 c' <> c /\ lookup c' (cancel_futures s) = Some h').
    { intros c' h' H. destruct (N.eq_dec c' c) as [->|Hne].
      - rewrite lookup_delk_eq in H. discriminate.
      - rewrite lookup_delk_ne in H by exact Hne. split; assumption. }
    destruct (mem h (aborted s)) eqn:Eabh.
    + cbn [fst snd fold_left gout audit_open audit_by]. split; [|reflexivity].
      destruct I; constructor; cbn; auto.
      * intros c' h' H. apply Hdel in H. destruct H as [_ H]. eauto.
      * intros c' h' H. apply Hdel in H. destruct H as [_ H]. eauto.
    + apply mem_false in Eabh.
      assert (Hc : In c (g_open g)) by (destruct I; eauto).
      destruct res as [q|]; cbn [fst snd fold_left gout gev audit_open audit_by tfeas_open tfeas].
      * split; [|apply mem_in in Hc; rewrite Hc; reflexivity].
        destruct I; constructor; cbn; auto.
        -- intros c' h' H Hab. apply Hdel in H. destruct H as [Hne H]. apply in_del. split; eauto.
        -- intros c'. rewrite !in_add. rewrite u_opened0. reflexivity.
        -- intros c' h' H. apply Hdel in H. destruct H as [_ H]. eauto.
        -- intros c' H. apply in_del in H. destruct H as [H _]. eauto.
        -- intros c' H. apply in_add in H. destruct H as [->|H]; eauto.
      * split; [|apply mem_in in Hc; rewrite Hc; reflexivity].
        destruct I; constructor; cbn; auto.
        -- intros c' h' H Hab. apply Hdel in H. destruct H as [Hne H]. apply in_del. split; eauto.
        -- intros c' h' H. apply Hdel in H. destruct H as [_ H]. eauto.
        -- intros c' H. apply in_del in H. destruct H as [H _]. eauto.
Qed.

Lemma observe_conn_U f inner : keepsU (observe_conn f inner).
Proof.
  intros s g I. unfold observe_conn.
  destruct (lookup f (pconn s)) as [[c k]|] eqn:Ef; [|cbn; split; [exact I|reflexivity]].
  destruct (match k with KNeg => Some (Some (peer_or0 (lookup f (neg_peer s)))) | _ => inner end) as [r|];
    [|cbn; split; [exact I|reflexivity]].
  destruct r as [q|].
  - cbn [fst snd fold_left gout gev audit_open audit_by tfeas_open]. split; [|reflexivity].
    destruct I. destruct (is_inb k); constructor; cbn; auto.
    intros c' H. apply in_del in H. destruct H as [H _]. eauto.
  - destruct (mem c (pending_dials s)).
    + cbn [fst snd fold_left gout gev audit_open audit_by tfeas_open]. split; [|reflexivity].
      destruct I; constructor; cbn; auto.
      intros c' H. apply in_del in H. destruct H as [H _]. eauto.
    + cbn [fst snd fold_left gout audit_open audit_by]. split; [|reflexivity].
      destruct I; constructor; cbn; auto.
Qed.

Lemma keepsU_seq tr1 tr2 :
  keepsU tr1 -> keepsU tr2 ->
  keepsU (fun s => let '(s1, o1) := tr1 s in let '(s2, o2) := tr2 s1 in (s2, o1 ++ o2)).
Proof.
  intros H1 H2 s g I. specialize (H1 s g I). destruct (tr1 s) as [s1 o1]. cbn [fst snd] in H1.
  destruct H1 as [I1 A1]. specialize (H2 s1 _ I1). destruct (tr2 s1) as [s2 o2]. cbn [fst snd] in *.
  destruct H2 as [I2 A2]. rewrite fold_gout_app. split; [exact I2|].
  unfold audit_open in *. rewrite audit_by_app, A1, A2. reflexivity.
Qed.

Lemma keepsU_id : keepsU (fun s => (s, [])).
Proof. intros s g I. cbn. split; [exact I|reflexivity]. Qed.

Lemma observe_raw_U' f sel : keepsU (fun s => observe_raw f (sel s) s).
Proof. intros s g I. exact (observe_raw_U f (sel s) s g I). Qed.

Lemma flush_raw_U fs : keepsU (flush_raw fs).
Proof.
  induction fs as [|f t IH].
  - exact keepsU_id.
  - exact (keepsU_seq _ _ (observe_raw_U' f _) IH).
Qed.

(* the side tables (what the futures carry) do not matter for the bookkeeping invariant *)
Lemma InvU_attempts v s g : InvU s g -> InvU (set_attempts v s) g.
Proof. intros I. destruct I; constructor; cbn; auto. Qed.

Lemma attempt_raw_U f i ans : keepsU (attempt_raw f i ans).
Proof.
  intros s g I. unfold attempt_raw.
  destruct (lookup f (attempts s)) as [rem|]; [|cbn; split; [exact I|reflexivity]].
  destruct (lookup i rem) as [e|]; [|cbn; split; [exact I|reflexivity]].
  destruct (match ans with Some q => if matches e q then Some q else None | None => None end) as [q|].
  - apply observe_raw_U. exact I.
  - cbv zeta. destruct (delk i rem) as [|x r].
    + apply observe_raw_U. apply InvU_attempts. exact I.
    + cbn [fst snd fold_left audit_open audit_by]. split; [|reflexivity]. apply InvU_attempts. exact I.
Qed.

Lemma attempt_conn_U f ans : keepsU (attempt_conn f ans).
Proof.
  intros s g I. unfold attempt_conn.
  destruct (lookup f (pconn s)) as [[c k]|]; [|cbn; split; [exact I|reflexivity]].
  destruct k; try (cbn; split; [exact I|reflexivity]); apply observe_conn_U; exact I.
Qed.

Lemma flush_conn_U fs : keepsU (flush_conn fs).
Proof.
  induction fs as [|f t IH].
  - exact keepsU_id.
  - exact (keepsU_seq _ _ (observe_conn_U f None) IH).
Qed.

Lemma flush_U : keepsU flush.
Proof.
  intros s g I. unfold flush.
  pose proof (flush_raw_U (map fst (praw s)) s g I) as H1.
  destruct (flush_raw (map fst (praw s)) s) as [s1 o1]. cbn [fst snd] in H1. destruct H1 as [I1 A1].
  pose proof (flush_conn_U (map fst (pconn s1)) s1 _ I1) as H2.
  destruct (flush_conn (map fst (pconn s1)) s1) as [s2 o2]. cbn [fst snd] in *. destruct H2 as [I2 A2].
  rewrite fold_gout_app. split; [exact I2|].
  unfold audit_open in *. rewrite audit_by_app, A1, A2. reflexivity.
Qed.

(* outputs of a call: no events, the ghost only moves by the call *)
Lemma ret_ok_single b : ret_ok [ORet b] = b.
Proof. destruct b; reflexivity. Qed.

(* the unconditional part of the contract for one step *)
Theorem stepU s g e :
  InvU s g ->
  InvU (fst (step s e)) (gstep e (snd (step s e)) g) /\
  audit_open (gcall e (snd (step s e)) g) (snd (step s e)) = true /\
  call_ok e g (snd (step s e)) = true.
Proof.
  intros I. unfold gstep. destruct e as [|c valid ex|c es|c|c|c|c|c|c| | |f i ans|f]; cbn [step].
  - (* EDraw *)
    cbn [fst snd gcall ids_of flat_map app length fold_left gout audit_open audit_by call_ok].
    split; [|split; [reflexivity|]].
    + destruct I; constructor; cbn; auto. rewrite u_ctr0. reflexivity.
    + destruct I. rewrite u_ctr0. apply N.eqb_refl.
  - (* EDial *)
    destruct valid; cbn [fst snd gcall ret_ok existsb orb fold_left gout audit_open audit_by call_ok].
    + split; [|split; reflexivity]. destruct I; constructor; cbn; auto.
      * intros h H. specialize (u_ab_lt0 h H). lia.
      * intros c' h H. specialize (u_cf_lt0 c' h H). lia.
      * intros c' [->|H]; auto.
    + split; [exact I|split; reflexivity].
  - (* EOpen *)
    cbn [fst snd gcall ret_ok existsb orb fold_left gout audit_open audit_by call_ok].
    split; [|split; reflexivity]. destruct I; constructor; cbn; auto.
    + intros c' h H Hab. destruct (N.eq_dec c' c) as [->|Hne]; [left; reflexivity|].
      rewrite lookup_put_ne in H by exact Hne. right. eauto.
    + intros h H. specialize (u_ab_lt0 h H). lia.
    + intros c' h H. destruct (N.eq_dec c' c) as [->|Hne].
      * rewrite lookup_put_eq in H. injection H as <-. lia.
      * rewrite lookup_put_ne in H by exact Hne. specialize (u_cf_lt0 c' h H). lia.
    + intros c' [->|H]; auto.
  - (* ENegotiate *)
    destruct (mem c (opened s)) eqn:Em;
      cbn [fst snd gcall ret_ok existsb orb fold_left gout audit_open audit_by call_ok].
    + split; [|split; [reflexivity|]].
      * destruct I; constructor; cbn; auto.
        -- intros c'. rewrite !in_del. rewrite u_opened0. reflexivity.
        -- intros h H. specialize (u_ab_lt0 h H). lia.
        -- intros c' h H. specialize (u_cf_lt0 c' h H). lia.
        -- intros c' H. apply in_del in H. destruct H as [H _]. eauto.
        -- intros c' [->|H]; auto. apply u_opened_used0. apply u_opened0. apply mem_in. exact Em.
      * apply mem_in in Em. destruct I. apply u_opened0 in Em. apply mem_in in Em. rewrite Em. reflexivity.
    + split; [|split; [reflexivity|]].
      * destruct I; constructor; cbn; auto.
        -- intros c'. rewrite in_del, <- u_opened0. apply mem_false in Em. split; [intros H; split; [exact H|]|intros [H _]; exact H].
           intros ->. contradiction.
        -- intros c' H. apply in_del in H. destruct H as [H _]. eauto.
      * apply mem_false in Em. destruct I. rewrite u_opened0 in Em. apply mem_false in Em. rewrite Em. reflexivity.
  - (* ECancel *)
    destruct (lookup c (cancel_futures s)) as [h|] eqn:Eh;
      cbn [fst snd gcall fold_left gout audit_open audit_by call_ok].
    + split; [|split; reflexivity]. destruct I; constructor; cbn; auto.
      * intros c' h' H Hab. apply in_del. split.
        -- apply (u_handle0 c' h' H). intros Hin. apply Hab. apply in_add. right. exact Hin.
        -- intros ->. rewrite Eh in H. injection H as <-. apply Hab. apply in_add. left. reflexivity.
      * intros h' H. apply in_add in H. destruct H as [->|H]; eauto.
      * intros c' H. apply in_del in H. destruct H as [H _]. eauto.
    + split; [|split; reflexivity]. destruct I; constructor; cbn; auto.
      * intros c' h' H Hab. apply in_del. split; [eauto|]. intros ->. rewrite Eh in H. discriminate.
      * intros c' H. apply in_del in H. destruct H as [H _]. eauto.
  - (* EAccept *)
    destruct (mem c (pending_open s)); cbn [fst snd gcall fold_left gout audit_open audit_by call_ok];
      (split; [|split; reflexivity]); destruct I; constructor; cbn; auto.
  - (* EReject *)
    destruct (mem c (pending_open s)); cbn [fst snd gcall fold_left gout audit_open audit_by call_ok];
      (split; [|split; reflexivity]); destruct I; constructor; cbn; auto.
  - (* EAcceptPending *)
    destruct (mem c (pending_inbound s));
      cbn [fst snd gcall ret_ok existsb orb fold_left gout audit_open audit_by call_ok];
      (split; [|split; reflexivity]); destruct I; constructor; cbn; auto.
    + intros h H. specialize (u_ab_lt0 h H). lia.
    + intros c' h H. specialize (u_cf_lt0 c' h H). lia.
  - (* ERejectPending *)
    destruct (mem c (pending_inbound s));
      cbn [fst snd gcall ret_ok existsb orb fold_left gout audit_open audit_by call_ok];
      (split; [|split; reflexivity]); destruct I; constructor; cbn; auto.
  - (* EPoll *)
    cbn [gcall call_ok]. destruct (flush_U s g I) as [I1 A1]. split; [exact I1|split; [exact A1|reflexivity]].
  - (* EInbound *)
    cbn [gcall call_ok]. destruct (flush_U s g I) as [I1 A1]. destruct (flush s) as [s1 o1].
    cbn [fst snd] in *. rewrite fold_gout_app. cbn [fold_left gout gev].
    split; [|split; [|reflexivity]].
    + destruct I1; constructor; cbn; auto. rewrite u_ctr0. reflexivity.
    + unfold audit_open in *. rewrite audit_by_app, A1. reflexivity.
  - (* EAns *)
    cbn [gcall call_ok]. destruct (flush_U s g I) as [I1 A1]. destruct (flush s) as [s1 o1].
    cbn [fst snd] in *.
    assert (H2 : keepsU (fun s1 => match lookup f (praw s1) with
                                   | Some _ => attempt_raw f i ans s1
                                   | None => attempt_conn f ans s1 end)).
    { intros s' g' I'. destruct (lookup f (praw s')); [apply attempt_raw_U|apply attempt_conn_U]; exact I'. }
    specialize (H2 s1 _ I1). cbn beta in H2.
    destruct (match lookup f (praw s1) with
              | Some _ => attempt_raw f i ans s1
              | None => attempt_conn f ans s1 end) as [s2 o2].
    cbn [fst snd] in *. destruct H2 as [I2 A2]. rewrite fold_gout_app.
    split; [exact I2|split; [|reflexivity]].
    unfold audit_open in *. rewrite audit_by_app, A1, A2. reflexivity.
  - (* EExpire *)
    cbn [gcall call_ok]. destruct (flush_U s g I) as [I1 A1]. destruct (flush s) as [s1 o1].
    cbn [fst snd] in *.
    pose proof (observe_raw_U f (Some None) _ _ I1) as H2.
    destruct (observe_raw f (Some None) s1) as [s2 o2].
    cbn [fst snd] in *. destruct H2 as [I2 A2]. rewrite fold_gout_app.
    split; [exact I2|split; [|reflexivity]].
    unfold audit_open in *. rewrite audit_by_app, A1, A2. reflexivity.
Qed.

(* ====================================================================================== *)
(* Part 2: with an owner that draws its ids from the counter and uses each once            *)
(* ====================================================================================== *)
Record InvC (s : tcp) (g : ghost) : Prop := {
  (* ids: everything handed out is below the counter; drawn / used / inbound ids are disjoint *)
  c_lt : forall c, In c (g_drawn g) \/ In c (g_used g) \/ In c (g_inbids g) -> c < ctr s;
  c_drawn_used : forall c, In c (g_drawn g) -> In c (g_used g) -> False;
  c_drawn_inb : forall c, In c (g_drawn g) -> In c (g_inbids g) -> False;
  c_used_inb : forall c, In c (g_used g) -> In c (g_inbids g) -> False;
  (* names of futures *)
  c_raw_lt : forall f c, In (f, c) (praw s) -> f < nfut s;
  c_conn_lt : forall f x, In (f, x) (pconn s) -> f < nfut s;
  c_raw_fun : forall f c c', In (f, c) (praw s) -> In (f, c') (praw s) -> c = c';
  c_conn_fun : forall f x x', In (f, x) (pconn s) -> In (f, x') (pconn s) -> x = x';
  c_raw_conn : forall f c x, In (f, c) (praw s) -> In (f, x) (pconn s) -> False;
  (* one future per id, one phase per id *)
  c_raw_inj : forall f f' c, In (f, c) (praw s) -> In (f', c) (praw s) -> f = f';
  c_conn_inj : forall f f' c k k', In (f, (c, k)) (pconn s) -> In (f', (c, k')) (pconn s) -> f = f';
  c_raw_opened : forall f c, In (f, c) (praw s) -> In c (opened s) -> False;
  c_raw_nconn : forall f c f' k, In (f, c) (praw s) -> In (f', (c, k)) (pconn s) -> False;
  c_opened_nconn : forall c f k, In c (opened s) -> In (f, (c, k)) (pconn s) -> False;
  c_pinb_nconn : forall c f k, In c (pending_inbound s) -> In (f, (c, k)) (pconn s) -> False;
  (* where the ids come from *)
  c_raw_used : forall f c, In (f, c) (praw s) -> In c (g_used g);
  c_conn_out_used : forall f c k, In (f, (c, k)) (pconn s) -> is_inb k = false -> In c (g_used g);
  c_conn_out : forall f c k, In (f, (c, k)) (pconn s) -> is_inb k = false -> In c (g_neg g);
  c_conn_in_ids : forall f c, In (f, (c, KInb)) (pconn s) -> In c (g_inbids g);
  c_conn_in : forall f c, In (f, (c, KInb)) (pconn s) -> In c (g_inb g);
  c_pinb : forall c, In c (pending_inbound s) -> In c (g_inbids g);
  (* pending_dials = ids of the dial futures *)
  c_conn_dial : forall f c, In (f, (c, KDial)) (pconn s) -> In c (pending_dials s);
  c_dials : forall c, In c (pending_dials s) -> exists f, In (f, (c, KDial)) (pconn s);
  (* every raw future holds its own handle and vice versa *)
  c_raw_handle : forall f c, In (f, c) (praw s) -> lookup c (cancel_futures s) = Some f;
  c_handle_raw : forall c h, lookup c (cancel_futures s) = Some h -> In (h, c) (praw s);
  c_aborted_not_owed : forall f c, In (f, c) (praw s) -> In f (aborted s) -> In c (g_open g) -> False;
  (* what is owed is backed by a live future: the environment has something to complete *)
  c_open_backed : forall c, In c (g_open g) -> exists f, In (f, c) (praw s);
  c_neg_backed : forall c, In c (g_neg g) -> exists f k, In (f, (c, k)) (pconn s) /\ is_inb k = false;
  (* identities: what the futures and the stored connections carry was named by the owner *)
  c_raw_att : forall f c, In (f, c) (praw s) -> exists rem, lookup f (attempts s) = Some rem;
  c_att_raw : forall f c rem i e, In (f, c) (praw s) -> lookup f (attempts s) = Some rem -> In (i, e) rem ->
      exists es, lookup c (g_att g) = Some es /\ In e es;
  c_att_opened : forall c, In c (opened s) ->
      exists q es, lookup c (opened_peer s) = Some q /\ lookup c (g_att g) = Some es /\
                   existsb (fun e => matches e q) es = true;
  c_att_neg : forall f c, In (f, (c, KNeg)) (pconn s) ->
      exists q es, lookup f (neg_peer s) = Some q /\ lookup c (g_att g) = Some es /\
                   existsb (fun e => matches e q) es = true;
  c_att_dial : forall f c, In (f, (c, KDial)) (pconn s) ->
      exists e, lookup f (dial_exp s) = Some e /\ lookup c (g_att g) = Some [e]
}.

Lemma InvC_init : InvC init g0.
Proof.
  constructor; cbn; try (intros; contradiction); try discriminate; try (intros; intuition).
Qed.

Definition tidy (os : list outp) : Prop := forall m, In m (marks os) -> untidy m = false.

Definition goodC (g : ghost) (r : tcp * list outp) : Prop :=
  InvC (fst r) (fold_left gout (snd r) g) /\ audit g (snd r) = true /\ tidy (snd r).

Lemma tidy_nil : tidy [].
Proof. intros m H. destruct H. Qed.

Ltac dest_in :=
  repeat match goal with
         | H : _ /\ _ |- _ => destruct H
         | H : In _ (delk _ _) |- _ => apply in_delk in H
         | H : In _ (del _ _) |- _ => apply in_del in H
         | H : In _ (_ ++ _) |- _ => apply in_app_or in H; destruct H as [H|H]
         | H : In _ [_] |- _ => destruct H as [H|[]]
         | H : (_, _) = (_, _) |- _ => injection H as H; subst
         end.

Definition names (g : ghost) (c : conn) (q : peer) : Prop :=
  exists es, lookup c (g_att g) = Some es /\ existsb (fun e => matches e q) es = true.

(* closing tactics for the goals left after a raw future f (id c) is removed *)
Ltac raw_gone f c s Ef :=
  first
    [ solve [ match goal with Hin : In (?f0, ?c0) (praw s), Hne : ?f0 <> f |- lookup ?c0 _ = _ =>
                rewrite lookup_delk_ne; [eauto|]; intros ->; apply Hne; eauto end ]
    | solve [ match goal with Hl : lookup ?c0 (delk c _) = Some ?h |- _ =>
                destruct (N.eq_dec c0 c) as [->|Hne]; [rewrite lookup_delk_eq in Hl; discriminate|];
                rewrite lookup_delk_ne in Hl by exact Hne; apply in_delk; split; [eauto|];
                intros ->; apply Hne; eauto end ]
    | solve [ match goal with
                Ho : In ?c0 (g_open ?g), Hne : ?c0 <> c,
                Hb : forall c1, In c1 (g_open ?g) -> exists f1, In (f1, c1) (praw s) |- exists _, _ =>
                let f0 := fresh "f0" in let Hf0 := fresh "Hf0" in
                destruct (Hb c0 Ho) as [f0 Hf0]; exists f0; apply in_delk; split; [exact Hf0|];
                intros ->; apply Hne; eauto end ]
    | solve [ match goal with Hin : In (?f0, ?c0) (praw s), Hne : ?f0 <> f, Ha : In ?c0 (add c _) |- False =>
                apply in_add in Ha; destruct Ha as [->|Ha]; [apply Hne; eauto|eauto] end ]
    | solve [ match goal with Ha : In ?c0 (add c _) |- False =>
                apply in_add in Ha; destruct Ha as [->|Ha]; eauto end ]
    | solve [ exfalso; eauto ] ].

Lemma observe_raw_C f inner s g :
  InvU s g -> InvC s g ->
  (forall q c, inner = Some (Some q) -> In (f, c) (praw s) -> names g c q) ->
  goodC g (observe_raw f inner s).
Proof.
  intros U I Hn. unfold goodC, observe_raw.
  destruct (lookup f (praw s)) as [c|] eqn:Ef; [|cbn; split; [exact I|split; [reflexivity|exact tidy_nil]]].
  apply lookup_in in Ef.
  pose proof (c_raw_handle _ _ I f c Ef) as Eh. rewrite Eh.
  destruct (mem f (aborted s)) eqn:Eab.
  - (* Canceled *)
    apply mem_in in Eab.
    cbn [fst snd fold_left gout audit audit_by]. split; [|split; [reflexivity|exact tidy_nil]].
    destruct I; constructor; cbn; auto; intros; dest_in; eauto.
    all: try raw_gone f c s Ef.
    match goal with Ho : In ?c0 (g_open g) |- _ =>
        destruct (c_open_backed0 c0 Ho) as [f0 Hf0]; exists f0; apply in_delk; split; [exact Hf0|];
        intros ->; assert (c0 = c) by eauto; subst; exact (c_aborted_not_owed0 f c Ef Eab Ho) end.
  - destruct inner as [res|]; [|cbn; split; [exact I|split; [reflexivity|exact tidy_nil]]].
    apply mem_false in Eab.
    assert (Hc : In c (g_open g)) by (destruct U; eauto).
    assert (Hcm : mem c (g_open g) = true) by (apply mem_in; exact Hc).
    destruct res as [q|]; cbn [fst snd fold_left gout gev audit audit_by tfeas]; rewrite Hcm;
      (split; [|split; [reflexivity|exact tidy_nil]]).
    + specialize (Hn q c eq_refl Ef).
      destruct I; constructor; cbn; auto; intros; dest_in; eauto.
      all: try raw_gone f c s Ef.
      match goal with Ha : In ?c0 (add c _) |- _ =>
          apply in_add in Ha; destruct (N.eq_dec c0 c) as [->|Hne] end.
      * destruct Hn as (es & He1 & He2). exists q, es. rewrite lookup_put_eq. auto.
      * match goal with Ha : _ \/ _ |- _ => destruct Ha as [->|Ha]; [contradiction|] end.
        rewrite lookup_put_ne by exact Hne. eauto.
    + destruct I; constructor; cbn; auto; intros; dest_in; eauto.
      all: try raw_gone f c s Ef.
Qed.

Lemma named_names g c q : names g c q -> named g c q = true.
Proof. intros (es & H1 & H2). unfold named. rewrite H1. exact H2. Qed.

(* closing tactics for the goals left after a pending_connections future f (id c) is removed *)
Ltac conn_gone f c s Ef :=
  first
    [ solve [ exfalso; eauto ]
    | solve [ match goal with Hin : In (?f0, (?c0, _)) (pconn s), Hne : ?f0 <> f |- In ?c0 (del c _) =>
                apply in_del; split; [eauto|intros ->; apply Hne; eauto] end ] ].

Lemma observe_conn_C f inner s g :
  InvU s g -> InvC s g ->
  (forall q c, inner = Some (Some q) -> In (f, (c, KDial)) (pconn s) -> names g c q) ->
  goodC g (observe_conn f inner s).
Proof.
  intros U I Hn. unfold goodC, observe_conn.
  destruct (lookup f (pconn s)) as [[c k]|] eqn:Ef; [|cbn; split; [exact I|split; [reflexivity|exact tidy_nil]]].
  apply lookup_in in Ef.
  destruct (match k with KNeg => Some (Some (peer_or0 (lookup f (neg_peer s)))) | _ => inner end) as [r|] eqn:Eres;
    [|cbn; split; [exact I|split; [reflexivity|exact tidy_nil]]].
  (* futures that survive: the same id means the same future *)
  assert (Hdial : forall c0, In c0 (pending_dials s) -> c0 <> c ->
                    exists f0, In (f0, (c0, KDial)) (delk f (pconn s))).
  { intros c0 Hd Hne. destruct (c_dials _ _ I c0 Hd) as [f0 Hf0]. exists f0. apply in_delk. split; [exact Hf0|].
    intros ->. pose proof (c_conn_fun _ _ I _ _ _ Hf0 Ef) as E. injection E as ->. contradiction. }
  assert (Hneg : forall c0, In c0 (g_neg g) -> c0 <> c ->
                   exists f0 k0, In (f0, (c0, k0)) (delk f (pconn s)) /\ is_inb k0 = false).
  { intros c0 Hd Hne. destruct (c_neg_backed _ _ I c0 Hd) as (f0 & k0 & Hf0 & Hk0). exists f0, k0. split; [|exact Hk0].
    apply in_delk. split; [exact Hf0|].
    intros ->. pose proof (c_conn_fun _ _ I _ _ _ Hf0 Ef) as E. injection E as ->. contradiction. }
  destruct r as [q|].
  - (* ConnectionEstablished *)
    destruct (is_inb k) eqn:Ek.
    + assert (k = KInb) by (destruct k; try discriminate; reflexivity). subst k.
      pose proof (c_conn_in _ _ I f c Ef) as Hi2.
      assert (Hm : mem c (g_inb g) = true) by (apply mem_in; exact Hi2).
      cbn [fst snd fold_left gout gev audit audit_by tfeas]. rewrite Hm.
      split; [|split; [reflexivity|exact tidy_nil]].
      destruct I; constructor; cbn; auto; intros; dest_in; eauto.
      all: try conn_gone f c s Ef.
      match goal with Hd : In ?c0 (g_neg g) |- _ =>
          destruct (c_neg_backed0 c0 Hd) as (f0 & k0 & Hf0 & Hk0); exists f0, k0; split; [|exact Hk0];
          apply in_delk; split; [exact Hf0|];
          intros ->; pose proof (c_conn_fun0 _ _ _ Hf0 Ef) as E; injection E as -> ->; discriminate end.
    + pose proof (c_conn_out _ _ I f c k Ef Ek) as Hi2.
      assert (Hm : mem c (g_neg g) = true) by (apply mem_in; exact Hi2).
      assert (Hnm : named g c q = true).
      { apply named_names. destruct k; [|discriminate|].
        - apply Hn; [exact Eres|exact Ef].
        - destruct (c_att_neg _ _ I f c Ef) as (q' & es & H1 & H2 & H3). rewrite H1 in Eres.
          injection Eres as <-. exists es. split; assumption. }
      cbn [fst snd fold_left gout gev audit audit_by tfeas]. rewrite Hm, Hnm.
      split; [|split; [reflexivity|exact tidy_nil]].
      destruct I; constructor; cbn; auto; intros; dest_in; eauto.
      all: try conn_gone f c s Ef.
  - destruct (mem c (pending_dials s)) eqn:Ed.
    + (* DialFailure *)
      apply mem_in in Ed. destruct (c_dials _ _ I c Ed) as [f' Hf'].
      assert (f' = f) by (eapply (c_conn_inj _ _ I); eauto). subst f'.
      pose proof (c_conn_fun _ _ I _ _ _ Hf' Ef) as E. injection E as <-.
      pose proof (c_conn_out _ _ I f c KDial Ef eq_refl) as Hi2.
      assert (Hm : mem c (g_neg g) = true) by (apply mem_in; exact Hi2).
      cbn [fst snd fold_left gout gev audit audit_by tfeas]. rewrite Hm.
      split; [|split; [reflexivity|exact tidy_nil]].
      destruct I; constructor; cbn; auto; intros; dest_in; eauto.
      all: try conn_gone f c s Ef.
    + (* the silent failure: only an inbound negotiation can end here *)
      apply mem_false in Ed.
      assert (k = KInb).
      { destruct k; [exfalso; apply Ed; eapply (c_conn_dial _ _ I); eauto|reflexivity|discriminate]. }
      subst k. cbn [fst snd fold_left gout audit audit_by marks flat_map app].
      split; [|split; [reflexivity|]].
      2:{ intros m [<-|[]]. reflexivity. }
      destruct I; constructor; cbn; auto; intros; dest_in; eauto.
      all: try conn_gone f c s Ef.
      * match goal with Hd : In ?c0 (pending_dials s) |- _ =>
          destruct (c_dials0 c0 Hd) as [f0 Hf0]; exists f0; apply in_delk; split; [exact Hf0|];
          intros ->; pose proof (c_conn_fun0 _ _ _ Hf0 Ef) as E; discriminate end.
      * match goal with Hd : In ?c0 (g_neg g) |- _ =>
          destruct (c_neg_backed0 c0 Hd) as (f0 & k0 & Hf0 & Hk0); exists f0, k0; split; [|exact Hk0];
          apply in_delk; split; [exact Hf0|];
          intros ->; pose proof (c_conn_fun0 _ _ _ Hf0 Ef) as E; injection E as -> ->; discriminate end.
Qed.

(* ---------- sequencing ---------- *)
Definition goodI (g : ghost) (r : tcp * list outp) : Prop :=
  InvU (fst r) (fold_left gout (snd r) g) /\ goodC g r.

Lemma marks_app o1 o2 : marks (o1 ++ o2) = marks o1 ++ marks o2.
Proof. unfold marks. apply flat_map_app. Qed.

Lemma tidy_app o1 o2 : tidy o1 -> tidy o2 -> tidy (o1 ++ o2).
Proof.
  intros H1 H2 m H. rewrite marks_app in H. apply in_app_or in H. destruct H; auto.
Qed.

Lemma goodI_seq g s (tr1 tr2 : tcp -> tcp * list outp) :
  goodI g (tr1 s) ->
  (forall s1 g1, InvU s1 g1 -> InvC s1 g1 -> goodI g1 (tr2 s1)) ->
  goodI g (let '(s1, o1) := tr1 s in let '(s2, o2) := tr2 s1 in (s2, o1 ++ o2)).
Proof.
  intros H1 H2. destruct (tr1 s) as [s1 o1]. destruct H1 as (U1 & C1 & A1 & T1). cbn [fst snd] in *.
  specialize (H2 s1 _ U1 C1). destruct (tr2 s1) as [s2 o2]. destruct H2 as (U2 & C2 & A2 & T2).
  cbn [fst snd] in *. unfold goodI, goodC. cbn [fst snd]. rewrite fold_gout_app.
  split; [exact U2|split; [exact C2|split]].
  - unfold audit in *. rewrite audit_by_app, A1, A2. reflexivity.
  - apply tidy_app; assumption.
Qed.

Lemma goodI_id g s : InvU s g -> InvC s g -> goodI g (s, []).
Proof. intros U C. split; [exact U|split; [exact C|split; [reflexivity|exact tidy_nil]]]. Qed.

Lemma observe_raw_I f inner s g :
  InvU s g -> InvC s g ->
  (forall q c, inner = Some (Some q) -> In (f, c) (praw s) -> names g c q) ->
  goodI g (observe_raw f inner s).
Proof.
  intros U C Hn. split; [exact (proj1 (observe_raw_U f inner s g U))|apply observe_raw_C; assumption].
Qed.

Lemma observe_conn_I f inner s g :
  InvU s g -> InvC s g ->
  (forall q c, inner = Some (Some q) -> In (f, (c, KDial)) (pconn s) -> names g c q) ->
  goodI g (observe_conn f inner s).
Proof.
  intros U C Hn. split; [exact (proj1 (observe_conn_U f inner s g U))|apply observe_conn_C; assumption].
Qed.

Lemma flush_raw_I fs s g : InvU s g -> InvC s g -> goodI g (flush_raw fs s).
Proof.
  revert s g. induction fs as [|f t IH]; intros s g U C; cbn [flush_raw].
  - apply goodI_id; assumption.
  - apply (goodI_seq g s (fun s => observe_raw f (if no_attempt_left f s then Some None else None) s) (flush_raw t)).
    + apply observe_raw_I; try assumption. intros q c H. destruct (no_attempt_left f s); discriminate.
    + intros s1 g1 U1 C1. apply IH; assumption.
Qed.

Lemma flush_conn_I fs s g : InvU s g -> InvC s g -> goodI g (flush_conn fs s).
Proof.
  revert s g. induction fs as [|f t IH]; intros s g U C; cbn [flush_conn].
  - apply goodI_id; assumption.
  - apply (goodI_seq g s (observe_conn f None) (flush_conn t)).
    + apply observe_conn_I; try assumption. intros q c H. discriminate.
    + intros s1 g1 U1 C1. apply IH; assumption.
Qed.

Lemma flush_I s g : InvU s g -> InvC s g -> goodI g (flush s).
Proof.
  intros U C. unfold flush.
  apply (goodI_seq g s (fun s => flush_raw (map fst (praw s)) s) (fun s1 => flush_conn (map fst (pconn s1)) s1)).
  - apply flush_raw_I; assumption.
  - intros s1 g1 U1 C1. apply flush_conn_I; assumption.
Qed.

Lemma InvC_attempts_put f i rem s g :
  InvC s g -> lookup f (attempts s) = Some rem ->
  InvC (set_attempts (put f (delk i rem) (attempts s)) s) g.
Proof.
  intros I Hl. destruct I; constructor; cbn; auto.
  - intros f0 c H. destruct (N.eq_dec f0 f) as [->|Hne].
    + rewrite lookup_put_eq. eauto.
    + rewrite lookup_put_ne by exact Hne. eauto.
  - intros f0 c rem0 i0 e0 H Hl0 Hin. destruct (N.eq_dec f0 f) as [->|Hne].
    + rewrite lookup_put_eq in Hl0. injection Hl0 as <-. apply in_delk in Hin. destruct Hin as [Hin _]. eauto.
    + rewrite lookup_put_ne in Hl0 by exact Hne. eauto.
Qed.

Lemma attempt_raw_I f i ans s g : InvU s g -> InvC s g -> goodI g (attempt_raw f i ans s).
Proof.
  intros U C. unfold attempt_raw.
  destruct (lookup f (attempts s)) as [rem|] eqn:El; [|apply goodI_id; assumption].
  destruct (lookup i rem) as [e|] eqn:Ei; [|apply goodI_id; assumption].
  destruct (match ans with Some q => if matches e q then Some q else None | None => None end) as [q|] eqn:Ew.
  - apply observe_raw_I; try assumption. intros q' c [= <-] Hin.
    assert (Hm : matches e q = true).
    { destruct ans as [q0|]; [|discriminate]. destruct (matches e q0) eqn:Em; [|discriminate].
      injection Ew as <-. exact Em. }
    destruct (c_att_raw _ _ C f c rem i e Hin El (lookup_in _ _ _ Ei)) as (es & H1 & H2).
    exists es. split; [exact H1|]. apply existsb_exists. exists e. split; assumption.
  - cbv zeta. pose proof (InvC_attempts_put f i rem s g C El) as C'.
    pose proof (InvU_attempts (put f (delk i rem) (attempts s)) s g U) as U'.
    destruct (delk i rem) as [|x r].
    + apply observe_raw_I; try assumption. intros q c H. discriminate.
    + apply goodI_id; assumption.
Qed.

Lemma attempt_conn_I f ans s g : InvU s g -> InvC s g -> goodI g (attempt_conn f ans s).
Proof.
  intros U C. unfold attempt_conn.
  destruct (lookup f (pconn s)) as [[c k]|] eqn:El; [|apply goodI_id; assumption].
  destruct k; try (apply goodI_id; assumption).
  - apply observe_conn_I; try assumption. intros q c' Hq Hin.
    destruct (c_att_dial _ _ C f c' Hin) as (e & H1 & H2). rewrite H1 in Hq.
    destruct ans as [q0|]; [|discriminate]. destruct (matches e q0) eqn:Em; [|discriminate].
    injection Hq as <-. exists [e]. split; [exact H2|]. cbn [existsb]. rewrite Em. reflexivity.
  - apply observe_conn_I; try assumption. intros q c' Hq Hin.
    apply lookup_in in El. pose proof (c_conn_fun _ _ C _ _ _ El Hin) as E. discriminate.
Qed.


(* ---------- the calls ---------- *)
Ltac show_ctx :=
  repeat match goal with
         | H : ?T |- _ =>
             lazymatch T with
             | (forall _, _) => idtac
             | _ => lazymatch type of T with Prop => idtac "     " H ":" T | _ => idtac end
             end; clear H
         end.
Ltac left_goals tag := match goal with |- ?G => idtac "LEFT" tag G end; show_ctx.

Ltac split_all :=
  repeat match goal with
         | H : _ \/ _ |- _ => destruct H as [H|H]
         | H : _ /\ _ |- _ => destruct H
         | H : In _ (del _ _) |- _ => apply in_del in H
         | H : In _ (delk _ _) |- _ => apply in_delk in H
         | H : In _ (add _ _) |- _ => apply in_add in H
         | H : In _ (_ ++ _) |- _ => apply in_app_or in H
         | H : In _ [_] |- _ => destruct H as [H|[]]
         | H : In _ (_ :: _) |- _ => destruct H as [H|H]
         | H : (_, _) = (_, _) |- _ => injection H; clear H; intros
         | H : Some _ = Some _ |- _ => injection H; clear H; intros
         end; subst.

Lemma lt_plus1 a b : a < b -> a < b + 1.
Proof. lia. Qed.

Ltac put_simpl :=
  repeat first [ rewrite lookup_put_eq
               | rewrite lookup_put_ne by (let E := fresh in intros E; subst; exfalso; eauto)
               | rewrite lookup_app_none by (apply lookup_none; intros; intro; exfalso; eauto) ].

Ltac closer :=
  split_all; try discriminate;
  first
    [ solve [exfalso; eauto]
    | solve [lia]
    | solve [apply lt_plus1; eauto]
    | solve [try apply lt_plus1; match goal with Hlt : forall c, _ \/ _ \/ _ -> c < ctr _ |- _ => apply Hlt; auto end]
    | solve [put_simpl; eauto 6]
    | solve [apply in_add; first [left; reflexivity | right; eauto]]
    | solve [apply in_del; split; [eauto|intros ->; exfalso; eauto]]
    | solve [repeat split; first [left; reflexivity | right; eauto]]
    | solve [eexists; apply in_or_app; right; left; reflexivity]
    | solve [eexists; eexists; split; [apply in_or_app; right; left; reflexivity | reflexivity]]
    | solve [match goal with
             | H : In ?c0 (pending_dials _), Hd : forall c, In c (pending_dials _) -> exists f, _ |- exists f, _ =>
                 let f0 := fresh in let Hf0 := fresh in
                 destruct (Hd c0 H) as [f0 Hf0]; exists f0; first [apply in_or_app; left; exact Hf0 | exact Hf0]
             | H : In ?c0 (g_neg _), Hd : forall c, In c (g_neg _) -> exists f k, _ |- exists f k, _ =>
                 let f0 := fresh in let k0 := fresh in let Hf0 := fresh in let Hk0 := fresh in
                 destruct (Hd c0 H) as (f0 & k0 & Hf0 & Hk0); exists f0, k0; split; [first [apply in_or_app; left; exact Hf0 | exact Hf0]|exact Hk0]
             | H : In ?c0 (g_open _), Hd : forall c, In c (g_open _) -> exists f, _ |- exists f, _ =>
                 let f0 := fresh in let Hf0 := fresh in
                 destruct (Hd c0 H) as [f0 Hf0]; exists f0; first [apply in_or_app; left; exact Hf0 | exact Hf0]
             end] ].

Lemma number_in {A} n (l : list A) i e : In (i, e) (number n l) -> In e l.
Proof.
  revert n. induction l as [|x t IH]; intros n H; [destruct H|].
  cbn [number] in H. destruct H as [[= _ ->]|H]; [left; reflexivity|right; eapply IH; eauto].
Qed.

(* an id the owner has just drawn is nowhere in the transport *)
Lemma fresh_id s g c :
  InvU s g -> InvC s g -> In c (g_drawn g) ->
  (In c (g_used g) -> False) /\ (In c (g_inbids g) -> False) /\
  (forall f, In (f, c) (praw s) -> False) /\ (In c (opened s) -> False) /\
  (forall f k, In (f, (c, k)) (pconn s) -> False) /\ (In c (pending_inbound s) -> False) /\
  (In c (g_open g) -> False) /\ (In c (g_neg g) -> False) /\ (In c (g_opened g) -> False) /\
  (In c (pending_dials s) -> False) /\ lookup c (cancel_futures s) = None.
Proof.
  intros U I Hd.
  assert (Hu : In c (g_used g) -> False) by (eapply c_drawn_used; eauto).
  assert (Hi : In c (g_inbids g) -> False) by (eapply c_drawn_inb; eauto).
  assert (Hraw : forall f, In (f, c) (praw s) -> False) by (intros f H; apply Hu; eapply c_raw_used; eauto).
  assert (Hconn : forall f k, In (f, (c, k)) (pconn s) -> False).
  { intros f k H. destruct k.
    - apply Hu. eapply (c_conn_out_used _ _ I); eauto.
    - apply Hi. eapply (c_conn_in_ids _ _ I); eauto.
    - apply Hu. eapply (c_conn_out_used _ _ I); eauto. }
  repeat split; auto.
  - intros H. apply Hu. apply (u_opened_used _ _ U), (u_opened _ _ U). exact H.
  - intros H. apply Hi. eapply c_pinb; eauto.
  - intros H. apply Hu. eapply u_open_used; eauto.
  - intros H. apply Hu. eapply u_neg_used; eauto.
  - intros H. apply Hu. eapply u_opened_used; eauto.
  - intros H. destruct (c_dials _ _ I c H) as [f Hf]. eauto.
  - destruct (lookup c (cancel_futures s)) as [h|] eqn:E; [|reflexivity].
    exfalso. eapply Hraw. eapply c_handle_raw; eauto.
Qed.

(* the next future name is unused *)
Lemma fresh_name s g :
  InvU s g -> InvC s g ->
  (forall c, In (nfut s, c) (praw s) -> False) /\ (forall x, In (nfut s, x) (pconn s) -> False) /\
  (In (nfut s) (aborted s) -> False).
Proof.
  intros U I. repeat split.
  - intros c H. pose proof (c_raw_lt _ _ I _ _ H). lia.
  - intros x H. pose proof (c_conn_lt _ _ I _ _ H). lia.
  - intros H. pose proof (u_ab_lt _ _ U _ H). lia.
Qed.

Theorem stepC s g e :
  InvU s g -> InvC s g -> caller_ok g e = true ->
  InvC (fst (step s e)) (gstep e (snd (step s e)) g) /\
  audit (gcall e (snd (step s e)) g) (snd (step s e)) = true /\
  tidy (snd (step s e)).
Proof.
  intros U I Hcall. unfold gstep. destruct e as [|c valid ex|c es|c|c|c|c|c|c| | |f i ans|f]; cbn [step].
  - (* EDraw *)
    cbn [fst snd gcall ids_of flat_map app length fold_left gout audit audit_by marks].
    split; [|split; [reflexivity|exact tidy_nil]].
    pose proof (u_ctr _ _ U) as Hctr.
    assert (Hn1 : In (ctr s) (g_used g) -> False) by (intros H; pose proof (c_lt _ _ I (ctr s)); intuition lia).
    assert (Hn2 : In (ctr s) (g_inbids g) -> False) by (intros H; pose proof (c_lt _ _ I (ctr s)); intuition lia).
    destruct I; constructor; cbn; auto; intros; split_all; eauto.
    all: try closer.
  - (* EDial *)
    destruct valid; cbn [fst snd gcall ret_ok existsb orb fold_left gout audit audit_by marks flat_map app].
    2:{ split; [exact I|split; [reflexivity|exact tidy_nil]]. }
    split; [|split; [reflexivity|exact tidy_nil]].
    cbn [caller_ok] in Hcall. apply mem_in in Hcall.
    destruct (fresh_id s g c U I Hcall) as (Fu & Fi & Fraw & Fop & Fconn & Fpinb & Fgo & Fgn & Fgop & Fdial & Fcf).
    destruct (fresh_name s g U I) as (Nraw & Nconn & Nab).
    destruct I; constructor; cbn; auto; intros; split_all; eauto.
    all: try closer.
  - (* EOpen *)
    cbn [fst snd gcall ret_ok existsb orb fold_left gout audit audit_by marks flat_map app].
    split; [|split; [reflexivity|exact tidy_nil]].
    cbn [caller_ok] in Hcall. apply mem_in in Hcall.
    destruct (fresh_id s g c U I Hcall) as (Fu & Fi & Fraw & Fop & Fconn & Fpinb & Fgo & Fgn & Fgop & Fdial & Fcf).
    destruct (fresh_name s g U I) as (Nraw & Nconn & Nab).
    destruct I; constructor; cbn; auto; intros; split_all; eauto.
    all: try closer.
    + (* c_handle_raw *)
      match goal with H : lookup ?c0 (put c _ _) = Some ?h |- _ =>
        destruct (N.eq_dec c0 c) as [->|Hne];
        [rewrite lookup_put_eq in H; injection H as <-; apply in_or_app; right; left; reflexivity
        |rewrite lookup_put_ne in H by exact Hne; apply in_or_app; left; eauto] end.
    + (* c_att_raw, an older future *)
      match goal with Hin : In (?f0, ?c0) (praw s), H0 : lookup ?f0 (put (nfut s) _ _) = Some _ |- _ =>
        rewrite lookup_put_ne in H0 by (intros ->; eauto);
        rewrite lookup_put_ne by (intros ->; eauto); eauto end.
    + (* c_att_raw, the new future *)
      match goal with H0 : lookup (nfut s) (put (nfut s) _ _) = Some _ |- _ =>
        rewrite lookup_put_eq in H0; injection H0 as <-; rewrite lookup_put_eq; eexists; split; [reflexivity|];
        eapply number_in; eauto end.
  - (* ENegotiate *)
    destruct (mem c (opened s)) eqn:Em;
      cbn [fst snd gcall ret_ok existsb orb fold_left gout audit audit_by marks flat_map app];
      (split; [|split; [reflexivity|exact tidy_nil]]).
    + apply mem_in in Em.
      assert (Hcu : In c (g_used g)) by (apply (u_opened_used _ _ U), (u_opened _ _ U); exact Em).
      assert (Hraw : forall f, In (f, c) (praw s) -> False) by (intros f H; eapply (c_raw_opened _ _ I); eauto).
      assert (Hconn : forall f k, In (f, (c, k)) (pconn s) -> False) by (intros f k H; eapply (c_opened_nconn _ _ I); eauto).
      assert (Hpinb : In c (pending_inbound s) -> False).
      { intros H. eapply (c_used_inb _ _ I); eauto. eapply c_pinb; eauto. }
      destruct (c_att_opened _ _ I c Em) as (q0 & es0 & Hq1 & Hq2 & Hq3).
      destruct (fresh_name s g U I) as (Nraw & Nconn & Nab).
      destruct I; constructor; cbn; auto; intros; split_all; eauto.
      all: try closer.
      rewrite lookup_put_eq, Hq1. cbn [peer_or0]. eauto.
    + apply mem_false in Em.
      assert (Hgo : In c (g_opened g) -> False) by (intros H; apply Em, (u_opened _ _ U); exact H).
      destruct I; constructor; cbn; auto; intros; split_all; eauto.
      all: try closer.
  - (* ECancel *)
    destruct (lookup c (cancel_futures s)) as [h|] eqn:Eh;
      cbn [fst snd gcall fold_left gout audit audit_by marks flat_map app];
      (split; [|split; [reflexivity|exact tidy_nil]]).
    + pose proof (c_handle_raw _ _ I c h Eh) as Hh.
      destruct I; constructor; cbn; auto; intros; split_all; eauto.
      all: try closer.
    + assert (Hgo : In c (g_open g) -> False).
      { intros H. destruct (c_open_backed _ _ I c H) as [f Hf]. rewrite (c_raw_handle _ _ I _ _ Hf) in Eh. discriminate. }
      destruct I; constructor; cbn; auto; intros; split_all; eauto.
      all: try closer.
  - (* EAccept *)
    destruct (mem c (pending_open s)); cbn [fst snd gcall fold_left gout audit audit_by marks flat_map app];
      (split; [|split; [reflexivity|exact tidy_nil]]); destruct I; constructor; cbn; auto.
  - (* EReject *)
    destruct (mem c (pending_open s)); cbn [fst snd gcall fold_left gout audit audit_by marks flat_map app];
      (split; [|split; [reflexivity|exact tidy_nil]]); destruct I; constructor; cbn; auto.
  - (* EAcceptPending *)
    destruct (mem c (pending_inbound s)) eqn:Em;
      cbn [fst snd gcall ret_ok existsb orb fold_left gout audit audit_by marks flat_map app];
      (split; [|split; [reflexivity|exact tidy_nil]]).
    2:{ exact I. }
    apply mem_in in Em.
    assert (Hci : In c (g_inbids g)) by (eapply c_pinb; eauto).
    assert (Hcu : In c (g_used g) -> False) by (intros H; eapply (c_used_inb _ _ I); eauto).
    assert (Hraw : forall f, In (f, c) (praw s) -> False) by (intros f H; apply Hcu; eapply c_raw_used; eauto).
    assert (Hop : In c (opened s) -> False).
    { intros H. apply Hcu. apply (u_opened_used _ _ U), (u_opened _ _ U). exact H. }
    assert (Hconn : forall f k, In (f, (c, k)) (pconn s) -> False) by (intros f k H; eapply (c_pinb_nconn _ _ I); eauto).
    assert (Hgn : In c (g_neg g) -> False) by (intros H; apply Hcu; eapply u_neg_used; eauto).
    destruct (fresh_name s g U I) as (Nraw & Nconn & Nab).
    destruct I; constructor; cbn; auto; intros; split_all; eauto.
    all: try closer.
  - (* ERejectPending *)
    destruct (mem c (pending_inbound s)) eqn:Em;
      cbn [fst snd gcall ret_ok existsb orb fold_left gout audit audit_by marks flat_map app];
      (split; [|split; [reflexivity|exact tidy_nil]]).
    2:{ exact I. }
    destruct I; constructor; cbn; auto; intros; split_all; eauto.
    all: try closer.
  - (* EPoll *)
    cbn [gcall]. destruct (flush_I s g U I) as (_ & C1 & A1 & T1). auto.
  - (* EInbound *)
    cbn [gcall]. destruct (flush_I s g U I) as (U1 & C1 & A1 & T1). destruct (flush s) as [s1 o1].
    cbn [fst snd] in *. rewrite fold_gout_app. cbn [fold_left gout gev].
    set (g1 := fold_left gout o1 g) in *.
    pose proof (u_ctr _ _ U1) as Hctr.
    assert (Hn0 : In (ctr s1) (g_drawn g1) -> False) by (intros H; pose proof (c_lt _ _ C1 (ctr s1)); intuition lia).
    assert (Hn1 : In (ctr s1) (g_used g1) -> False) by (intros H; pose proof (c_lt _ _ C1 (ctr s1)); intuition lia).
    assert (Hn2 : In (ctr s1) (g_inbids g1) -> False) by (intros H; pose proof (c_lt _ _ C1 (ctr s1)); intuition lia).
    assert (Hn3 : forall f k, In (f, (ctr s1, k)) (pconn s1) -> False).
    { intros f k H. destruct k.
      - apply Hn1. eapply (c_conn_out_used _ _ C1); eauto.
      - apply Hn2. eapply (c_conn_in_ids _ _ C1); eauto.
      - apply Hn1. eapply (c_conn_out_used _ _ C1); eauto. }
    split; [|split].
    + destruct C1; constructor; cbn; auto; intros; split_all; eauto.
      all: try closer.
    + unfold audit in *. rewrite audit_by_app, A1. cbn [audit_by tfeas]. fold g1.
      rewrite Hctr, N.eqb_refl.
      assert (E0 : mem (ctr s1) (g_drawn g1) = false) by (apply mem_false; exact Hn0).
      assert (E1 : mem (ctr s1) (g_used g1) = false) by (apply mem_false; exact Hn1).
      assert (E2 : mem (ctr s1) (g_inbids g1) = false) by (apply mem_false; exact Hn2).
      rewrite E0, E1, E2. reflexivity.
    + apply tidy_app; [exact T1|]. intros m H. destruct H.
  - (* EAns *)
    cbn [gcall].
    pose proof (goodI_seq g s flush
                  (fun s1 => match lookup f (praw s1) with
                             | Some _ => attempt_raw f i ans s1
                             | None => attempt_conn f ans s1 end)
                  (flush_I s g U I)) as H.
    cbv beta in H.
    destruct H as (_ & C2 & A2 & T2).
    { intros s1 g1 U1 C1. destruct (lookup f (praw s1)); [apply attempt_raw_I|apply attempt_conn_I]; assumption. }
    destruct (flush s) as [s1 o1].
    destruct (match lookup f (praw s1) with
              | Some _ => attempt_raw f i ans s1
              | None => attempt_conn f ans s1 end) as [s2 o2].
    auto.
  - (* EExpire *)
    cbn [gcall].
    pose proof (goodI_seq g s flush (observe_raw f (Some None)) (flush_I s g U I)) as H.
    destruct H as (_ & C2 & A2 & T2).
    { intros s1 g1 U1 C1. apply observe_raw_I; try assumption. intros q c H. discriminate. }
    destruct (flush s) as [s1 o1]. destruct (observe_raw f (Some None) s1) as [s2 o2]. auto.
Qed.


