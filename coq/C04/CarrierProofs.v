(* C04 — every run of the writer over an abstract carrier (Carrier.v) is a run of the script-driven
   writer of Model.v on the log of the carrier's answers. *)
From Coq Require Import List NArith Bool Lia ZifyBool ZifyNat ZifyN.
From V.C04 Require Import Model Proofs Carrier.
Import ListNotations.
Open Scope N_scope.
Arguments N.add : simpl never.
Arguments N.sub : simpl never.
Arguments N.mul : simpl never.
Arguments N.eqb : simpl never.
Arguments N.ltb : simpl never.
Arguments N.leb : simpl never.
Arguments N.of_nat : simpl never.
Arguments N.to_nat : simpl never.
Arguments N.min : simpl never.
Arguments N.max : simpl never.

Section Sim.
Context {S : Type} (K : carrier S).

Lemma gflush_sim : forall fuel s w sent r w' sent' s' L,
  gflush K fuel s w sent = Some (r, w', sent', s', L) ->
  L <> [] /\ forall T, flush (L ++ T) w sent = (r, w', sent', T).
Proof.
  induction fuel as [|fu IH]; intros s w sent r w' sent' s' L H; [discriminate|].
  cbn [gflush] in H. destruct (take_frame w) as [[f w0]|] eqn:Etf.
  - destruct (c_write K s (lenN f)) as [a s1] eqn:Ew. destruct a as [|n|].
    + injection H as <- <- <- <- <-. split; [discriminate|]. intros T. cbn [app].
      destruct T; cbn [flush]; rewrite Etf; reflexivity.
    + destruct ((N.min n (lenN f) =? 0) && negb (is_nil f)) eqn:Ez.
      * injection H as <- <- <- <- <-. split; [discriminate|]. intros T. cbn [app flush]. rewrite Etf, Ez. reflexivity.
      * destruct (gflush K fu s1 _ _) as [[[[[r1 w1] sn1] c1] L1]|] eqn:Er; [|discriminate].
        injection H as <- <- <- <- <-. split; [discriminate|]. intros T.
        destruct (IH _ _ _ _ _ _ _ _ Er) as (_ & Hs). cbn [app flush]. rewrite Etf, Ez. apply Hs.
    + injection H as <- <- <- <- <-. split; [discriminate|]. intros T. cbn [app flush]. rewrite Etf. reflexivity.
  - destruct (c_flush K s) as [a s1] eqn:Ef. injection H as <- <- <- <- <-. split; [destruct a; discriminate|].
    intros T. destruct a; cbn [ans_ev app flush]; rewrite Etf; reflexivity.
Qed.

Lemma gpoll_ready_sim bp s w sent r w' sent' s' L :
  gpoll_ready K bp s w sent = Some (r, w', sent', s', L) ->
  forall T, poll_ready bp (L ++ T) w sent = (r, w', sent', T).
Proof.
  unfold gpoll_ready, poll_ready. destruct (bp <=? pbytes w).
  - intros H T. apply (gflush_sim _ _ _ _ _ _ _ _ _ H).
  - intros H T. injection H as <- <- <- <- <-. reflexivity.
Qed.

Lemma gflush_all_sim : forall fuel s w sent np r np' w' sent' s' L ab,
  gflush_all K fuel s w sent np = Some (r, np', w', sent', s', L, ab) ->
  L <> [] /\
  forall T fuel2, (ab = true -> T = []) -> (length (L ++ T) < fuel2)%nat ->
                  flush_all fuel2 (L ++ T) w sent np = (r, np', w', sent', T).
Proof.
  induction fuel as [|fu IH]; intros s w sent np r np' w' sent' s' L ab H; [discriminate|].
  cbn [gflush_all] in H.
  destruct (gflush K (flush_fuel w) s w sent) as [[[[[r1 w1] s1] c1] L1]|] eqn:Ef; [|discriminate].
  destruct (gflush_sim _ _ _ _ _ _ _ _ _ Ef) as (Hn1 & Hs1).
  assert (Hdone : r1 <> WPend -> Some (r1, np, w1, s1, c1, L1, false) = Some (r, np', w', sent', s', L, ab) ->
                  L <> [] /\ forall T fuel2, (ab = true -> T = []) -> (length (L ++ T) < fuel2)%nat ->
                                             flush_all fuel2 (L ++ T) w sent np = (r, np', w', sent', T)).
  { intros Hr Hq. injection Hq as <- <- <- <- <- <- <-. split; [exact Hn1|]. intros T fuel2 _ Hl.
    destruct fuel2 as [|f2]; [lia|]. cbn [flush_all]. rewrite Hs1. destruct r1; try reflexivity. congruence. }
  destruct r1; try (apply Hdone; [discriminate|exact H]).
  destruct (c_wake K c1) as [c2|] eqn:Ew.
  - destruct (gflush_all K fu c2 w1 s1 (np + 1)) as [[[[[[[r2 np2] w2] sn2] c3] L2] ab2]|] eqn:Er; [|discriminate].
    injection H as <- <- <- <- <- <- <-.
    destruct (IH _ _ _ _ _ _ _ _ _ _ _ Er) as (Hn2 & Hs2).
    split; [intros Hc; apply app_eq_nil in Hc; tauto|]. intros T fuel2 Hab Hl.
    destruct fuel2 as [|f2]; [lia|]. cbn [flush_all]. rewrite <- app_assoc, Hs1.
    assert (Hnn : is_nil (L2 ++ T) = false) by (destruct L2; [congruence|reflexivity]).
    rewrite Hnn. apply Hs2; [exact Hab|].
    rewrite <- app_assoc, app_length in Hl. destruct L1; [congruence|]. cbn [length] in Hl. lia.
  - injection H as <- <- <- <- <- <- <-. split; [exact Hn1|]. intros T fuel2 Hab Hl.
    rewrite (Hab eq_refl) in *. destruct fuel2 as [|f2]; [lia|]. cbn [flush_all]. rewrite Hs1. reflexivity.
Qed.

Lemma gflush_all_abandoned : forall fuel s w sent np r np' w' sent' s' L,
  gflush_all K fuel s w sent np = Some (r, np', w', sent', s', L, true) -> r = WPend.
Proof.
  induction fuel as [|f IH]; intros s w sent np r np' w' sent' s' L H; [discriminate|]. cbn [gflush_all] in H.
  destruct (gflush K (flush_fuel w) s w sent) as [[[[[r1 w2] s2] c2] L1']|]; [|discriminate].
  destruct r1; try discriminate.
  destruct (c_wake K c2) as [c3|].
  - destruct (gflush_all K f c3 w2 s2 (np + 1)) as [[[[[[[r3 np3] w3] sn3] c4] L3] ab3]|] eqn:E; [|discriminate].
    injection H as <- _ _ _ _ _ ->. eapply IH. exact E.
  - injection H as <- _ _ _ _ _. reflexivity.
Qed.

Lemma gsf_run_sim : forall fuel ident s bufs sent np r np' sent' s' L ab,
  gsf_run K fuel ident s bufs sent np = Some (r, np', sent', s', L, ab) ->
  L <> [] /\
  forall T, (ab = true -> T = []) -> sf_run ident (L ++ T) bufs sent np = (r, np', sent', T).
Proof.
  induction fuel as [|fu IH]; intros ident s bufs sent np r np' sent' s' L ab H; [discriminate|].
  cbn [gsf_run] in H. destruct bufs as [|b bufs'].
  - destruct (c_flush K s) as [a s1] eqn:Ef. destruct a as [|k|].
    + destruct (c_wake K s1) as [s2|] eqn:Ew.
      * destruct (gsf_run K fu ident s2 [] sent (np + 1)) as [[[[[[r2 np2] sn2] c2] L2] ab2]|] eqn:Er; [|discriminate].
        injection H as <- <- <- <- <- <-. destruct (IH _ _ _ _ _ _ _ _ _ _ _ Er) as (Hn2 & Hs2).
        split; [discriminate|]. intros T Hab. cbn [app sf_run].
        assert (Hnn : is_nil (L2 ++ T) = false) by (destruct L2; [congruence|reflexivity]).
        rewrite Hnn. apply Hs2. exact Hab.
      * injection H as <- <- <- <- <- <-. split; [discriminate|]. intros T Hab. rewrite (Hab eq_refl). reflexivity.
    + injection H as <- <- <- <- <- <-. split; [discriminate|]. intros T _. reflexivity.
    + injection H as <- <- <- <- <- <-. split; [discriminate|]. intros T _. reflexivity.
  - destruct (c_write K s (lenN b)) as [a s1] eqn:Ew0. destruct a as [|n|].
    + destruct (c_wake K s1) as [s2|] eqn:Ew.
      * destruct (gsf_run K fu ident s2 (b :: bufs') sent (np + 1)) as [[[[[[r2 np2] sn2] c2] L2] ab2]|] eqn:Er; [|discriminate].
        injection H as <- <- <- <- <- <-. destruct (IH _ _ _ _ _ _ _ _ _ _ _ Er) as (Hn2 & Hs2).
        split; [discriminate|]. intros T Hab. cbn [app sf_run].
        assert (Hnn : is_nil (L2 ++ T) = false) by (destruct L2; [congruence|reflexivity]).
        rewrite Hnn. apply Hs2. exact Hab.
      * injection H as <- <- <- <- <- <-. split; [discriminate|]. intros T Hab. rewrite (Hab eq_refl). reflexivity.
    + destruct (N.min n (lenN b) =? 0) eqn:Ez.
      * injection H as <- <- <- <- <- <-. split; [discriminate|]. intros T _. cbn [app sf_run]. rewrite Ez. reflexivity.
      * destruct (gsf_run K fu ident s1 _ _ np) as [[[[[[r2 np2] sn2] c2] L2] ab2]|] eqn:Er; [|discriminate].
        injection H as <- <- <- <- <- <-. destruct (IH _ _ _ _ _ _ _ _ _ _ _ Er) as (Hn2 & Hs2).
        split; [discriminate|]. intros T Hab. cbn [app sf_run]. rewrite Ez. apply Hs2. exact Hab.
    + injection H as <- <- <- <- <- <-. split; [discriminate|]. intros T _. reflexivity.
Qed.

Lemma gsend_framed_sim fuel c s w m sent r np w' sent' s' L ab :
  gsend_framed K fuel c s w m sent = Some (r, np, w', sent', s', L, ab) ->
  forall T, (ab = true -> T = []) -> send_framed c (L ++ T) w m sent = (r, np, w', sent', T).
Proof.
  unfold gsend_framed, send_framed. intros H T Hab.
  destruct (queue_nonempty w) eqn:Eq.
  - destruct (gflush_all K fuel s w sent 0) as [[[[[[[r0 np0] w1] s1] c1] L1] ab1]|] eqn:Ef; [|discriminate].
    destruct (gflush_all_sim _ _ _ _ _ _ _ _ _ _ _ _ Ef) as (_ & Hs1).
    assert (Hother : r0 <> WOk -> Some (r0, np0, w1, s1, c1, L1, ab1) = Some (r, np, w', sent', s', L, ab) ->
                     (let '(r1, np1, w2, s2, sc1) := flush_all (Datatypes.S (length (L ++ T))) (L ++ T) w sent 0 in
                      match r1 with
                      | WOk => if fitsb c m
                               then let '(r2, np', s3, sc2) :=
                                      match c with
                                      | Identity _ => sf_run true sc1 (filter (fun b => negb (is_nil b)) [m]) s2 np1
                                      | Varint _ => sf_run false sc1 (filter (fun b => negb (is_nil b)) [varint_enc (lenN m); m]) s2 np1
                                      end in (r2, np', w2, s3, sc2)
                               else (WDenied, np1, w2, s2, sc1)
                      | _ => (r1, np1, w2, s2, sc1)
                      end) = (r, np, w', sent', T)).
    { intros Hr Hq. injection Hq as <- <- <- <- <- <- <-. rewrite (Hs1 T _ Hab (le_n _)). destruct r0; try reflexivity. congruence. }
    destruct r0; try (apply Hother; [discriminate|exact H]).
    assert (Hab1 : ab1 = false).
    { destruct ab1; [|reflexivity]. apply gflush_all_abandoned in Ef. discriminate. }
    subst ab1. clear Hother.
    destruct (fitsb c m) eqn:Efit.
    + destruct (gsf_run K fuel _ c1 _ s1 np0) as [[[[[[r2 np2] sn2] c2] L2] ab2]|] eqn:Er; [|discriminate].
      injection H as <- <- <- <- <- <- <-. destruct (gsf_run_sim _ _ _ _ _ _ _ _ _ _ _ _ Er) as (_ & Hs2).
      rewrite <- app_assoc.
      rewrite (Hs1 (L2 ++ T) _ ltac:(discriminate) (le_n _)).
      destruct c as [n|mx]; rewrite (Hs2 T Hab); reflexivity.
    + injection H as <- <- <- <- <- <- <-. rewrite (Hs1 T _ ltac:(discriminate) (le_n _)). reflexivity.
  - destruct (fitsb c m) eqn:Efit.
    + destruct (gsf_run K fuel _ s _ sent 0) as [[[[[[r2 np2] sn2] c2] L2] ab2]|] eqn:Er; [|discriminate].
      injection H as <- <- <- <- <- <- <-. destruct (gsf_run_sim _ _ _ _ _ _ _ _ _ _ _ _ Er) as (_ & Hs2).
      cbn [app]. destruct c as [n|mx]; rewrite (Hs2 T Hab); reflexivity.
    + injection H as <- <- <- <- <- <- <-. reflexivity.
Qed.

Lemma gpoll_close_sim s w sent r w' sent' s' L sh :
  gpoll_close K s w sent = (r, w', sent', s', L, sh) ->
  forall T, poll_close (L ++ T) w sent = (r, w', sent', T, sh).
Proof.
  unfold gpoll_close, poll_close. destruct (c_shut K s) as [a s1]. intros H T.
  injection H as <- <- <- <- <- <-. destruct a; reflexivity.
Qed.

Lemma gshutdown_all_sim : forall fuel s np r np' sh s' L ab,
  gshutdown_all K fuel s np = Some (r, np', sh, s', L, ab) ->
  L <> [] /\ forall T, (ab = true -> T = []) -> shutdown_all (L ++ T) np = (r, np', sh, T).
Proof.
  induction fuel as [|fu IH]; intros s np r np' sh s' L ab H; [discriminate|].
  cbn [gshutdown_all] in H. destruct (c_shut K s) as [a s1]. destruct a as [|k|].
  - destruct (c_wake K s1) as [s2|].
    + destruct (gshutdown_all K fu s2 (np + 1)) as [[[[[[r2 np2] sh2] c2] L2] ab2]|] eqn:Er; [|discriminate].
      injection H as <- <- <- <- <- <-. destruct (IH _ _ _ _ _ _ _ _ Er) as (Hn2 & Hs2).
      split; [discriminate|]. intros T Hab. cbn [app shutdown_all].
      assert (Hnn : is_nil (L2 ++ T) = false) by (destruct L2; [congruence|reflexivity]).
      rewrite Hnn. apply Hs2. exact Hab.
    + injection H as <- <- <- <- <- <-. split; [discriminate|]. intros T Hab. rewrite (Hab eq_refl). reflexivity.
  - injection H as <- <- <- <- <- <-. split; [discriminate|]. intros T _. reflexivity.
  - injection H as <- <- <- <- <- <-. split; [discriminate|]. intros T _. reflexivity.
Qed.

Definition sys_of (g : @gsys S) (script : list wev) : sys := mkSys (g_ws g) (g_sent g) script (g_shut g).

Lemma gstep_sim fuel bp c g o r g1 L ab :
  gstep K fuel bp c g o = Some (r, g1, L, ab) ->
  forall T, (ab = true -> T = []) -> step bp c (sys_of g (L ++ T)) o = (r, sys_of g1 T).
Proof.
  intros H T Hab. destruct o as [|m| |m| |]; cbn [gstep] in H; unfold sys_of; cbn [step ws sent wscript shut].
  - destruct (gpoll_ready K bp (g_car g) (g_ws g) (g_sent g)) as [[[[[r1 w1] sn1] c1] L1]|] eqn:E; [|discriminate].
    injection H as <- <- <- <-. rewrite (gpoll_ready_sim _ _ _ _ _ _ _ _ _ E). reflexivity.
  - destruct (start_send c (g_ws g) m) as [r1 w1]. injection H as <- <- <- <-. reflexivity.
  - destruct (gflush K _ (g_car g) (g_ws g) (g_sent g)) as [[[[[r1 w1] sn1] c1] L1]|] eqn:E; [|discriminate].
    injection H as <- <- <- <-. destruct (gflush_sim _ _ _ _ _ _ _ _ _ E) as (_ & Hs). rewrite Hs. reflexivity.
  - destruct (gsend_framed K fuel c (g_car g) (g_ws g) m (g_sent g)) as [[[[[[[r1 np1] w1] sn1] c1] L1] ab1]|] eqn:E; [|discriminate].
    injection H as <- <- <- <-. rewrite (gsend_framed_sim _ _ _ _ _ _ _ _ _ _ _ _ _ E T Hab). reflexivity.
  - destruct (gpoll_close K (g_car g) (g_ws g) (g_sent g)) as [[[[[r1 w1] sn1] c1] L1] sh1] eqn:E.
    injection H as <- <- <- <-. rewrite (gpoll_close_sim _ _ _ _ _ _ _ _ _ E). reflexivity.
  - destruct (gshutdown_all K fuel (g_car g) 0) as [[[[[[r1 np1] sh1] c1] L1] ab1]|] eqn:E; [|discriminate].
    injection H as <- <- <- <-. destruct (gshutdown_all_sim _ _ _ _ _ _ _ _ _ E) as (_ & Hs).
    unfold close_all. rewrite (Hs T Hab). reflexivity.
Qed.

(* the whole history: the operations that ran are a run of Model.run_ops on the log *)
Lemma grun_sim {E : Type} (env : S -> E -> S) fuel bp c : forall ops g rs g' L ab,
  grun K env fuel bp c g ops = Some (rs, g', L, ab) ->
  forall T, (ab = true -> T = []) ->
  run_ops bp c (sys_of g (L ++ T)) (firstn (length rs) (gops ops)) = (rs, sys_of g' T).
Proof.
  induction ops as [|o t IH]; intros g rs g' L ab H T Hab.
  - injection H as <- <- <- <-. reflexivity.
  - destruct o as [o|e]; cbn [grun] in H.
    + destruct (gstep K fuel bp c g o) as [[[[r1 g1] L1] ab1]|] eqn:Es; [|discriminate].
      destruct ab1.
      * injection H as <- <- <- <-. cbn [gops length firstn run_ops].
        rewrite (gstep_sim _ _ _ _ _ _ _ _ _ Es T Hab). destruct (gops t); reflexivity.
      * destruct (grun K env fuel bp c g1 t) as [[[[rs2 g2] L2] ab2]|] eqn:Er; [|discriminate].
        injection H as <- <- <- <-. cbn [gops length firstn run_ops]. rewrite <- app_assoc.
        rewrite (gstep_sim _ _ _ _ _ _ _ _ _ Es (L2 ++ T) ltac:(discriminate)).
        rewrite (IH _ _ _ _ _ Er T Hab). reflexivity.
    + cbn [gops]. apply (IH _ _ _ _ _ H T Hab).
Qed.


(* ---- the fuel of a single poll_flush is always enough ---- *)
Definition wmeasure (w : wstate) : nat :=
  (length (qbytes w) + length (frames w) + match curf w with Some _ => 1 | None => 0 end)%nat.

Lemma take_frame_measure w f w0 :
  take_frame w = Some (f, w0) ->
  curf w0 = None /\ (length f + length (concat (frames w0)) + length (frames w0) + 1 <= wmeasure w)%nat.
Proof.
  unfold take_frame, wmeasure, qbytes. destruct (curf w) as [g|].
  - intros H. injection H as <- <-. cbn [curf frames]. split; [reflexivity|]. rewrite app_length. lia.
  - destruct (frames w) as [|g t]; [discriminate|]. intros H. injection H as <- <-. cbn [curf frames concat length app].
    split; [reflexivity|]. rewrite app_length. lia.
Qed.

Lemma gflush_total : forall fuel s w sent, (wmeasure w < fuel)%nat -> gflush K fuel s w sent <> None.
Proof.
  induction fuel as [|fu IH]; intros s w sent Hm; [lia|]. cbn [gflush].
  destruct (take_frame w) as [[f w0]|] eqn:Etf.
  - destruct (take_frame_measure _ _ _ Etf) as (Hc0 & Hle).
    destruct (c_write K s (lenN f)) as [a s1]. destruct a as [|n|]; try discriminate.
    destruct ((N.min n (lenN f) =? 0) && negb (is_nil f)) eqn:Ez; [discriminate|].
    set (k := N.min n (lenN f)) in *.
    match goal with |- context [gflush K fu s1 ?w1 ?sn] =>
      assert (Hrec : gflush K fu s1 w1 sn <> None); [apply IH|destruct (gflush K fu s1 w1 sn) as [[[[[? ?] ?] ?] ?]|]; [discriminate|congruence]]
    end.
    unfold wmeasure, qbytes. cbn [curf frames].
    pose proof (lenN_dropN k f) as Hd. unfold lenN in Hd.
    destruct (is_nil (dropN k f)) eqn:En.
    + cbn [app length]. lia.
    + cbn [length]. rewrite app_length.
      (* the frame is not empty, so at least one byte was taken *)
      assert (Hk : 0 < k).
      { destruct (N.eq_dec k 0) as [Hz|Hz]; [|lia]. rewrite Hz in Ez. rewrite N.eqb_refl in Ez. cbn [andb] in Ez.
        apply negb_false_iff, is_nil_true in Ez. subst f. rewrite dropN_all in En by (rewrite lenN_nil; lia). discriminate. }
      assert (Hkl : k <= lenN f) by (unfold k; lia). unfold lenN in Hkl. lia.
  - destruct (c_flush K s) as [a s1]. discriminate.
Qed.

Lemma flush_fuel_enough w : (wmeasure w < flush_fuel w)%nat.
Proof. unfold wmeasure, flush_fuel. destruct (curf w); lia. Qed.

(* ---- consequences: what Proofs.v shows for every script holds over every carrier ---- *)

Definition ginit (s0 : S) : @gsys S := mkG init_w [] s0 false.

(* whole frames, each once, in call order, whatever the carrier does *)
Lemma carrier_in_order {E : Type} (env : S -> E -> S) fuel bp c ops s0 rs g' L ab :
  grun K env fuel bp c (ginit s0) ops = Some (rs, g', L, ab) ->
  Forall2 good (firstn (length rs) (gops ops)) rs ->
  pbytes (g_ws g') = lenN (qbytes (g_ws g')) /\
  g_sent g' ++ qbytes (g_ws g') = wire_of c (accepted c (firstn (length rs) (gops ops))).
Proof.
  intros H Hg. pose proof (grun_sim env fuel bp c _ _ _ _ _ _ H [] (fun _ => eq_refl)) as Hs.
  unfold sys_of, ginit in Hs. cbn [g_ws g_sent g_shut] in Hs.
  destruct (run_ops_inv _ _ _ _ _ _ Hs WInv_init Hg) as (Hi & Hq). cbn [ws sent] in Hi, Hq. split; [exact Hi|].
  rewrite Hq. reflexivity.
Qed.

(* a poll_flush that reports completion has handed everything queued to the carrier *)
Lemma carrier_flush_complete fuel s w sent w' sent' s' L :
  gflush K fuel s w sent = Some (WOk, w', sent', s', L) -> pbytes w = lenN (qbytes w) ->
  sent' = sent ++ qbytes w /\ qbytes w' = [] /\ frames w' = [] /\ curf w' = None /\ pbytes w' = 0.
Proof.
  intros H Hi. destruct (gflush_sim _ _ _ _ _ _ _ _ _ H) as (_ & Hs). specialize (Hs []).
  destruct (flush_spec _ _ _ _ _ _ _ Hs Hi) as (_ & _ & Hq & Hok). destruct (Hok eq_refl) as (Hf & Hc & Hp).
  assert (Hqn : qbytes w' = []) by (unfold qbytes; rewrite Hf, Hc; reflexivity).
  rewrite Hqn, app_nil_r in Hq. auto.
Qed.

(* a send_framed call that returns Ok has handed over what was queued and then its whole frame *)
Lemma carrier_send_framed_complete fuel c s w m sent np w' sent' s' L ab :
  gsend_framed K fuel c s w m sent = Some (WOk, np, w', sent', s', L, ab) -> pbytes w = lenN (qbytes w) ->
  sent' = sent ++ qbytes w ++ frame c m /\ qbytes w' = [] /\ fitsb c m = true.
Proof.
  intros H Hi.
  assert (Hab : ab = true -> @nil wev = []) by reflexivity.
  pose proof (gsend_framed_sim _ _ _ _ _ _ _ _ _ _ _ _ _ H [] Hab) as Hs.
  destruct (send_framed_spec _ _ _ _ _ _ _ _ _ _ Hs Hi) as (_ & (d & e & Hq & Hfr & Hok & _) & Hfit & _).
  destruct (Hok eq_refl) as (-> & Hqn). rewrite app_nil_r in Hfr. rewrite Hqn, app_nil_r in Hq.
  rewrite Hfr. auto.
Qed.

End Sim.
