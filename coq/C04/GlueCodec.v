(* C04 — wire format, model runner and oracle for the tokio-util codec streams (kinds 30 and 31).

   kind 30 (the Decoder / Encoder methods called one by one):
   case  := 30 tag arg                       0 n = Identity::new(n); 1 0 = UnsignedVarint::new(None);
                                             2 m = UnsignedVarint::new(Some(m)); 3 m = UnsignedVarint::with_max_size(m)
            nops (kind b len)*               kind 1 = Encoder::encode(msg, &mut dst); 2 = the static UnsignedVarint::encode(msg)
                                             (default configuration), its result appended to dst
            nraw (byte count)*               raw bytes appended to dst: together the wire
            nch size*                        the wire arrives in chunks of these sizes (what is left never arrives);
                                             after every chunk `decode` is called until it answers None or an error
            eof sdec                         eof = 1: decode_eof after the last chunk; sdec = 1: the static
                                             UnsignedVarint::decode on the whole wire
   trace := 3, per op: code RLE(appended bytes); nfed, per fed chunk: ncalls (code [RLE(frame)])* src_len;
            e [code [RLE(frame)] src_len]   (e = 1: decode_eof was called)
            s [code [RLE(frame)] remaining] (s = 1: the static decode was called)
            codes: encode 1 Ok, 3 IoError(PermissionDenied), 5 InvalidData, 6 other;
                   decode 0 None, 2 frame, 3 IoError(PermissionDenied), 4 IoError(Other), 5 InvalidData, 6 other.
            Feeding stops after the first chunk whose decode calls end in an error (as Framed does);
            eof is then skipped. Identity::new(0) panics (documented assertion): trace [3; 9].

   kind 31 (tokio_util::codec::Framed<Substream, codec> over the scripted carrier, outcome only):
   case  := 31 tag arg nmsgs (b len)* nw wev* nr rev*      scripts of Pending / Chunk n (n > 0) events only; an
                                                            exhausted script lets everything through
   trace := 4, one code per SinkExt::send, nframes, RLE(frame)*, fin (1 = clean end of stream) *)
From Coq Require Import List NArith Bool.
From V.common Require Import Wire.
From V.C04 Require Import Model Codec.
Import ListNotations.
Open Scope N_scope.

Definition KMAX_LEN : N := 16777216.
Definition kguard (b : bool) : parser unit := if b then pret tt else pfail.

Definition k_mk_msg (b len : N) : list N :=
  if 2 <=? len then repeat b (N.to_nat (len - 1)) ++ [(b + 1) mod 256] else repeat b (N.to_nat len).

Record kop := mkKop { k_kind : N; k_msg : list N }.

Definition p_kop : parser kop :=
  let* kind := pN in let* b := pN in let* len := pN in
  let* _ := kguard (((kind =? 1) || (kind =? 2)) && (b <=? 255) && (len <=? KMAX_LEN)) in
  pret (mkKop kind (k_mk_msg b len)).

Definition p_krun : parser (list N) :=
  let* b := pN in let* k := pN in
  let* _ := kguard ((b <=? 255) && (k <=? KMAX_LEN)) in pret (repeat b (N.to_nat k)).

(* None = Identity::new(0) *)
Definition p_tcodec : parser (option tcodec) :=
  let* tag := pN in let* arg := pN in
  match tag with
  | 0 => let* _ := kguard (arg <=? KMAX_LEN) in pret (if arg =? 0 then None else Some (TIdentity arg))
  | 1 => let* _ := kguard (arg =? 0) in pret (Some (tuvi_new None))
  | 2 => pret (Some (tuvi_new (Some arg)))
  | 3 => pret (Some (TUvi arg))
  | _ => pfail
  end.

Record kcase := mkKcase {
  kc_codec : option tcodec; kc_ops : list kop; kc_raw : list N; kc_sizes : list N; kc_eof : bool; kc_sdec : bool }.

Definition is_identity (cd : option tcodec) : bool :=
  match cd with Some (TIdentity _) | None => true | _ => false end.

Definition decode_kcase (l : list N) : option kcase :=
  pall (let* t := pN in let* _ := kguard (t =? 30) in
        let* cd := p_tcodec in
        let* ops := plist p_kop in
        let* _ := kguard (negb (is_identity cd) || forallb (fun o => k_kind o =? 1) ops) in
        let* raw := plist p_krun in
        let* sizes := plist (let* s := pN in let* _ := kguard (s <=? KMAX_LEN * 4) in pret s) in
        let* eof := pN in let* sdec := pN in
        let* _ := kguard ((eof <=? 1) && (sdec <=? 1)) in
        pret (mkKcase cd ops (concat raw) sizes (eof =? 1) (sdec =? 1))) l.

Fixpoint krle (l : list N) : list (N * N) :=
  match l with
  | [] => []
  | x :: t => match krle t with
              | (y, k) :: r => if x =? y then (y, k + 1) :: r else (x, 1) :: (y, k) :: r
              | [] => [(x, 1)]
              end
  end.
Definition kenc_rle (l : list N) : list N := enc_list (fun p : N * N => [fst p; snd p]) (krle l).

(* what one encode op appends: kind 2 encodes with the default configuration *)
Definition kop_run (cd : tcodec) (o : kop) : eres * list N :=
  if k_kind o =? 2 then tencode (tuvi_new None) (k_msg o) else tencode cd (k_msg o).

Definition eres_code (r : eres) : N := match r with EOk => 1 | EDenied => 3 | EInvalid => 5 end.
Definition dres_code (r : dres) : N :=
  match r with DNone => 0 | DFrame _ => 2 | DDenied => 3 | DOther => 4 | DRemain => 4 end.
Definition enc_dres (r : dres) : list N :=
  dres_code r :: match r with DFrame f => kenc_rle f | _ => [] end.

Fixpoint split_chunks (sizes : list N) (wire : list N) : list (list N) :=
  match sizes with
  | [] => []
  | s :: t => let k := N.min s (lenN wire) in takeN k wire :: split_chunks t (dropN k wire)
  end.

(* the chunk records; returns (records, number fed, final state, whether an error ended it) *)
Fixpoint krun_chunks (cd : tcodec) (dl : option N) (src : list N) (chunks : list (list N))
  : list N * N * option N * list N * bool :=
  match chunks with
  | [] => ([], 0, dl, src, false)
  | ch :: t =>
      let '(rs, dl1, src1) := drain (S (length (src ++ ch))) cd dl (src ++ ch) in
      let here := N.of_nat (length rs) :: flat_map enc_dres rs ++ [lenN src1] in
      if existsb is_derr rs then (here, 1, dl1, src1, true)
      else let '(rest, n, dl2, src2, e) := krun_chunks cd dl1 src1 t in (here ++ rest, n + 1, dl2, src2, e)
  end.

(* the static UnsignedVarint::decode: one decode with the default configuration; None is InvalidData *)
Definition ksdec (wire : list N) : list N :=
  let '(r, _, src') := tdecode (tuvi_new None) None wire in
  (match r with DNone => [5] | _ => enc_dres r end) ++ [lenN src'].

Definition run_kcase (k : kcase) : list N :=
  match kc_codec k with
  | None => [3; 9]
  | Some cd =>
      let encs := map (kop_run cd) (kc_ops k) in
      let dst := concat (map snd encs) in
      let wire := dst ++ kc_raw k in
      let '(recs, nfed, dl, src, e) := krun_chunks cd None [] (split_chunks (kc_sizes k) wire) in
      3 :: flat_map (fun x => eres_code (fst x) :: kenc_rle (snd x)) encs ++
      nfed :: recs ++
      (if kc_eof k && negb e
       then let '(r, _, src') := tdecode_eof cd dl src in 1 :: enc_dres r ++ [lenN src'] else [0]) ++
      (if kc_sdec k then 1 :: ksdec wire else [0])
  end.

(* ---- kind 31 ---- *)
Record fcase := mkFcase { fc_codec : option tcodec; fc_msgs : list (list N) }.

Definition p_fev : parser unit :=
  let* tag := pN in
  match tag with
  | 0 => pret tt
  | 1 => let* n := pN in kguard ((1 <=? n) && (n <=? KMAX_LEN))
  | _ => pfail
  end.

Definition decode_fcase (l : list N) : option fcase :=
  pall (let* t := pN in let* _ := kguard (t =? 31) in
        let* cd := p_tcodec in
        let* msgs := plist (let* b := pN in let* len := pN in
                            let* _ := kguard ((b <=? 255) && (len <=? KMAX_LEN)) in pret (k_mk_msg b len)) in
        let* _ := plist p_fev in
        let* _ := plist p_fev in
        pret (mkFcase cd msgs)) l.

Definition run_fcase (f : fcase) : list N :=
  match fc_codec f with
  | None => [4; 9]
  | Some cd =>
      let sent := filter (tfits cd) (fc_msgs f) in
      4 :: map (fun m => eres_code (fst (tencode cd m))) (fc_msgs f) ++
      N.of_nat (length sent) :: flat_map kenc_rle sent ++ [1]
  end.

(* ---- the oracle for kind 30 ---- *)
Definition kp_rle : parser (list N) :=
  let* runs := plist (let* b := pN in let* k := pN in
                      let* _ := kguard (k <=? KMAX_LEN * 4) in pret (repeat b (N.to_nat k))) in
  pret (concat runs).

(* one decode observation: code, frame *)
Definition kp_dobs : parser (N * list N) :=
  let* code := pN in
  let* _ := kguard (code <=? 6) in
  let* f := (if code =? 2 then kp_rle else pret []) in pret (code, f).

Definition kp_chunk : parser (list (N * list N) * N) :=
  let* calls := plist kp_dobs in let* sl := pN in pret (calls, sl).

Definition kframe_ok (cd : tcodec) (f : list N) : bool :=
  match cd with TIdentity n => lenN f =? n | TUvi mx => lenN f <=? mx end.

Fixpoint kagree (f a : list (list N)) : bool :=
  match f, a with
  | x :: f', y :: a' => nlist_eqb x y && kagree f' a'
  | _, _ => true
  end.

Definition ksum (l : list N) : N := fold_right N.add 0 l.

Definition kfits (cd : tcodec) (o : kop) : bool :=
  if k_kind o =? 2 then lenN (k_msg o) <=? UVI_DEFAULT_MAX else tfits cd (k_msg o).
Definition kframe (cd : tcodec) (o : kop) : list N :=
  if k_kind o =? 2 then varint_enc (lenN (k_msg o)) ++ k_msg o else frame (codec_of cd) (k_msg o).

(* every encode call: accepted exactly when the message fits, and then exactly its frame is appended;
   a refusal appends nothing *)
Fixpoint kencs_ok (cd : tcodec) (ops : list kop) (obs : list (N * list N)) : bool :=
  match ops, obs with
  | [], [] => true
  | o :: ops', (code, delta) :: obs' =>
      (if kfits cd o then (code =? 1) && nlist_eqb delta (kframe cd o)
       else negb (code =? 1) && is_nil delta) && kencs_ok cd ops' obs'
  | _, _ => false
  end.

Definition is_err_code (c : N) : bool := (3 <=? c) && (c <=? 6).

Definition kp_opt_rec : parser (option (N * list N * N)) :=
  let* e := pN in
  if e =? 1 then (let* d := kp_dobs in let* sl := pN in pret (Some (fst d, snd d, sl)))
  else if e =? 0 then pret None else pfail.

Definition prop_ok_k (k : kcase) (trace : list N) : bool :=
  match kc_codec k with
  | None => nlist_eqb trace [3; 9]
  | Some cd =>
      match trace with
      | 3 :: body =>
          match pall (let* encs := prep (length (kc_ops k)) (let* c := pN in let* d := kp_rle in pret (c, d)) in
                      let* recs := plist kp_chunk in
                      let* eofr := kp_opt_rec in
                      let* sdecr := kp_opt_rec in pret (encs, recs, eofr, sdecr)) body with
          | Some (encs, recs, eofr, sdecr) =>
              let ops := kc_ops k in
              let wire := concat (map snd encs) ++ kc_raw k in
              let msgs := map k_msg (filter (kfits cd) ops) in
              let calls := flat_map fst recs in
              let fr := flat_map (fun x => if fst x =? 2 then [snd x] else []) calls in
              let nfed := N.of_nat (length recs) in
              let whole := (nfed =? N.of_nat (length (kc_sizes k))) && (1 <=? nfed) &&
                           (lenN wire <=? ksum (kc_sizes k)) in
              let clean := is_nil (kc_raw k) && forallb (kframe_ok cd) msgs in
              let last_sl := match rev recs with r :: _ => snd r | [] => 0 end in
              kencs_ok cd ops encs &&
              (nfed <=? N.of_nat (length (kc_sizes k))) &&
              forallb (kframe_ok cd) fr &&
              (match eofr with Some (c, f, _) => negb (c =? 2) || kframe_ok cd f | None => true end) &&
              (if clean then
                 (* no spurious error; the frames are the messages, in order *)
                 forallb (fun x => negb (is_err_code (fst x))) calls &&
                 kagree fr msgs && (N.of_nat (length fr) <=? N.of_nat (length msgs)) &&
                 (if whole then list_eqb nlist_eqb fr msgs && (last_sl =? 0) else true) &&
                 (match eofr with
                  | Some (c, _, sl) => if last_sl =? 0 then (c =? 0) && (sl =? 0) else (c =? 4)
                  | None => negb (kc_eof k)
                  end) &&
                 (match sdecr, cd, msgs with
                  | Some (c, f, _), TUvi _, m0 :: _ => (c =? 2) && nlist_eqb f m0
                  | _, _, _ => true
                  end)
               else true)
          | None => false       (* includes every trace cut short by a panic *)
          end
      | _ => false
      end
  end.

Definition prop_ok_f (f : fcase) (trace : list N) : bool := nlist_eqb trace (run_fcase f).
