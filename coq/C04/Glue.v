(* C04 — wire format, model runner and the trace oracle prop_ok. Definitions only.

   case  :=  codec_tag codec_arg            0 n = Identity n; 1 0 = UnsignedVarint(None); 2 m = UnsignedVarint(Some m)
             nops op*                       0 = poll_ready; 1 b len = start_send; 2 = poll_flush; 3 b len = send_framed;
                                            4 = Sink::poll_close (one poll); 5 = Substream::close(self) (only as the last op)
             nw wev*                        write script: 0 = Pending; 1 n = accept up to n bytes / flush, shutdown ok; 3 = error
                                            (BrokenPipe); 4 k = error of kind k (position in the ErrorKind table of
                                            tools/gen_c04_tables.py; an IoError(PermissionDenied) is reported as code 2,
                                            every other kind as code 4)
             nraw (byte count)*             raw bytes appended to the reader's wire after what the writer got out
             nr rev*                        read script: 0 = Pending; 1 n = deliver up to n bytes; 2 = end of stream; 3 = error; 4 k = error of kind k
             npolls                         number of poll_next calls
   message (b, len) = len bytes b, the last one b+1 mod 256 when len >= 2.
   trace :=  1, then per writer op:  code [npend: ops 3, 5]  [pbytes nframes len* cur+1: all but op 5]  sent_total
                                     RLE(newly sent bytes)  unused_write_events  carrier_shut  wake_ok
             then per poll_next:     code [RLE(frame)]  buf_len offset cur+1 remaining_wire 0  unused_read_events  wake_ok
             wake_ok = the call did not answer Pending, or the last carrier call answered Pending with the caller's waker.
             a panic is code 9 and ends the trace.  [0] = malformed case. *)
From Coq Require Import List NArith Bool.
From V.common Require Import Wire.
From V.gen Require Consts C04Tables.
From V.C04 Require Import Model Codec GlueCodec Carrier Yamux GlueYamux WebRtc GlueWebRtc.
Import ListNotations.
Open Scope N_scope.

Definition BP : N := Consts.BACKPRESSURE_BOUNDARY.
Definition MAX_LEN : N := 16777216.

Definition pguard (b : bool) : parser unit := if b then pret tt else pfail.

Definition mk_msg (b len : N) : list N :=
  if 2 <=? len then repeat b (N.to_nat (len - 1)) ++ [(b + 1) mod 256] else repeat b (N.to_nat len).

Definition p_codec : parser codec :=
  let* tag := pN in let* arg := pN in
  match tag with
  | 0 => let* _ := pguard (arg <=? MAX_LEN) in pret (Identity arg)
  | 1 => let* _ := pguard (arg =? 0) in pret (Varint None)
  | 2 => pret (Varint (Some arg))
  | _ => pfail
  end.

Definition p_msg : parser (list N) :=
  let* b := pN in let* len := pN in
  let* _ := pguard ((b <=? 255) && (len <=? MAX_LEN)) in pret (mk_msg b len).

Definition p_op : parser op :=
  let* tag := pN in
  match tag with
  | 0 => pret OReady
  | 1 => let* m := p_msg in pret (OSend m)
  | 2 => pret OFlush
  | 3 => let* m := p_msg in pret (OFramed m)
  | 4 => pret OClose
  | 5 => pret OCloseAll
  | _ => pfail
  end.

Fixpoint close_all_last (ops : list op) : bool :=
  match ops with
  | [] => true
  | [_] => true
  | OCloseAll :: _ => false
  | _ :: t => close_all_last t
  end.

(* a write-script event and the kind of error it stands for (meaningful for WErr only) *)
Definition p_wev : parser (wev * N) :=
  let* tag := pN in
  match tag with
  | 0 => pret (WPending, 0)
  | 1 => let* n := pN in let* _ := pguard (n <=? MAX_LEN) in pret (WChunk n, 0)
  | 3 => pret (WErr, C04Tables.EK_BROKEN_PIPE)
  | 4 => let* k := pN in let* _ := pguard (k <? C04Tables.ERROR_KINDS_LEN) in pret (WErr, k)
  | _ => pfail
  end.

Definition p_rev : parser rdev :=
  let* tag := pN in
  match tag with
  | 0 => pret EvPending
  | 1 => let* n := pN in let* _ := pguard (n <=? MAX_LEN) in pret (EvChunk n)
  | 2 => pret EvEof
  | 3 => pret EvErr
  | 4 => let* k := pN in let* _ := pguard (k <? C04Tables.ERROR_KINDS_LEN) in pret EvErr
  | _ => pfail
  end.

Definition p_run : parser (list N) :=
  let* b := pN in let* k := pN in
  let* _ := pguard ((b <=? 255) && (k <=? MAX_LEN)) in pret (repeat b (N.to_nat k)).

Record tcase := mkCase {
  t_codec : codec; t_ops : list op; t_wscript : list wev; t_wkinds : list N; t_raw : list N;
  t_rscript : list rdev; t_polls : N }.

Definition decode_case (l : list N) : option tcase :=
  pall (let* c := p_codec in
        let* ops := plist p_op in
        let* _ := pguard (close_all_last ops) in
        let* ws := plist p_wev in
        let* raw := plist p_run in
        let* rs := plist p_rev in
        let* np := pN in
        let* _ := pguard (np <=? 100000) in
        pret (mkCase c ops (map fst ws) (map snd ws) (concat raw) rs np)) l.

(* ---- encoders ---- *)
Fixpoint rle (l : list N) : list (N * N) :=
  match l with
  | [] => []
  | x :: t => match rle t with
              | (y, k) :: r => if x =? y then (y, k + 1) :: r else (x, 1) :: (y, k) :: r
              | [] => [(x, 1)]
              end
  end.
Definition enc_rle (l : list N) : list N := enc_list (fun p : N * N => [fst p; snd p]) (rle l).

Definition wres_code (r : wres) : N :=
  match r with WPend => 0 | WOk => 1 | WDenied => 2 | WClosed => 3 | WIo => 4 end.

Definition enc_wstate (w : wstate) : list N :=
  pbytes w :: enc_list (fun f => [lenN f]) (frames w) ++
  [match curf w with Some f => lenN f + 1 | None => 0 end].

Definition has_npend (o : op) : bool := match o with OFramed _ | OCloseAll => true | _ => false end.
Definition has_state (o : op) : bool := match o with OCloseAll => false | _ => true end.

(* the code an IoError is reported with: IoError(PermissionDenied) looks like a refusal (2), any other kind is 4.
   The kind is that of the last script event the operation consumed, when that event is a failure. *)
Definition io_code (script0 : list wev) (kinds : list N) (before after : nat) : N :=
  if Nat.ltb after before then
    let idx := (length script0 - after - 1)%nat in
    match nth_error script0 idx, nth_error kinds idx with
    | Some WErr, Some k => if k =? C04Tables.EK_PERMISSION_DENIED then 2 else 4
    | _, _ => 4
    end
  else 4.

Fixpoint run_writer (script0 : list wev) (kinds : list N) (c : codec) (s : sys) (ops : list op) : list N * sys :=
  match ops with
  | [] => ([], s)
  | o :: t =>
      let '((r, np), s1) := step BP c s o in
      let code := match r with
                  | WIo => io_code script0 kinds (length (wscript s)) (length (wscript s1))
                  | _ => wres_code r
                  end in
      let head := code :: (if has_npend o then [np] else []) in
      let here := head ++ (if has_state o then enc_wstate (ws s1) else []) ++ [lenN (sent s1)] ++
                  enc_rle (skipn (length (sent s)) (sent s1)) ++
                  [lenN (wscript s1); b2n (shut s1); 1] in
      let '(rest, s2) := run_writer script0 kinds c s1 t in
      (here ++ rest, s2)
  end.

Definition enc_rstate (st : rstate) (wire : list N) (script : list rdev) : list N :=
  [buf_len st; lenN (filled st); enc_opt (cur st); lenN wire; 0; lenN script; 1].

Fixpoint run_polls (polls : nat) (c : codec) (st : rstate) (wire : list N) (script : list rdev) : list N :=
  match polls with
  | O => []
  | S p =>
      let '(o, st1, w1, s1) := poll_next c st wire script in
      match o with
      | RPanic => [9]
      | _ =>
          (match o with
           | RPend => [0] | RClosed => [1] | RFrame f => 2 :: enc_rle f | RFail => [3] | RIoErr => [4]
           | RPanic => [9]
           end) ++ enc_rstate st1 w1 s1 ++ run_polls p c st1 w1 s1
      end
  end.

(* ---- end-to-end cases over real yamux substreams (TCP / WebSocket substream types) ----
   case := T arg nops op* z1 z2 0 0,  T = 10 + codec tag (TCP type) | 20 + codec tag (WebSocket type);
   ops: 1 b len = SinkExt::feed; 2 = SinkExt::flush; 3 b len = send_framed; 4 = SinkExt::close;
   a reader task drains the accepting side concurrently until the end of the stream.
   trace := 2, one code per op, number of frames, RLE of every frame, reader's final code (1 = clean end).
   Messages are kept as (b, len) here: no byte list is built, so sizes of several flow-control
   windows are fine.
   z1 z2 are NOT inputs of the run: the harness fills them in after it (the stored values are ignored):
   z1 = number of frames the reader got, z2 = 1 when the accepting side saw the stream at all. They are the
   environment's share of the outcome. A feed is poll_ready + start_send, and poll_ready flushes only while
   BACKPRESSURE_BOUNDARY bytes or more are queued (C04_poll_ready_flushes_to_boundary): where such a flush is
   stalled by the transport with fewer bytes left, it is not taken up again, so how much of the frames that
   were fed but never covered by a completed flush / send_framed is on the wire when close shuts the carrier
   down depends on the stalls. The model takes the count from the run and the oracle checks that it is one the
   code allows: every message covered by a completed flush or send_framed is there, then a prefix of the fed
   ones that a backpressure flush may have written, never beyond, never fewer than such a flush must have
   written; a frame cut by the close is not delivered (C04_eof_inside_frame_is_end_of_stream). *)
Record eop := mkEop { e_tag : N; e_b : N; e_len : N }.

Definition p_eop : parser eop :=
  let* tag := pN in
  match tag with
  | 1 | 3 => let* b := pN in let* len := pN in
             let* _ := pguard ((b <=? 255) && (len <=? MAX_LEN)) in pret (mkEop tag b len)
  | 2 | 4 => pret (mkEop tag 0 0)
  | _ => pfail
  end.

Definition decode_e2e (l : list N) : option (codec * list eop * N * N) :=
  pall (let* t := pN in let* arg := pN in
        let* _ := pguard (((10 <=? t) && (t <=? 12)) || ((20 <=? t) && (t <=? 22))) in
        let tag := if t <? 20 then t - 10 else t - 20 in
        let* c := (match tag with
                   | 0 => let* _ := pguard (arg <=? MAX_LEN) in pret (Identity arg)
                   | 1 => let* _ := pguard (arg =? 0) in pret (Varint None)
                   | _ => pret (Varint (Some arg))
                   end) in
        let* ops := plist p_eop in
        let* z1 := pN in let* z2 := pN in let* z3 := pN in let* z4 := pN in
        let* _ := pguard ((z1 <=? 1000000) && (z2 <=? 1) && (z3 =? 0) && (z4 =? 0)) in
        pret (c, ops, z1, z2)) l.

Definition fits_len (c : codec) (len : N) : bool :=
  match c with
  | Identity n => len =? n
  | Varint None => true
  | Varint (Some mx) => len <=? mx
  end.

(* run-length form of message (b, len) *)
Definition msg_rle (b len : N) : list N :=
  if len =? 0 then [0]
  else if len =? 1 then [1; b; 1]
  else [2; b; len - 1; (b + 1) mod 256; 1].

Definition e2e_code (c : codec) (o : eop) : N :=
  match e_tag o with
  | 1 | 3 => if fits_len c (e_len o) then 1 else 2
  | _ => 1
  end.

(* bytes a message takes on the wire *)
Definition wire_size (c : codec) (len : N) : N :=
  len + match c with Identity _ => 0 | Varint _ => lenN (varint_enc len) end.

(* What a history commits to and what it leaves open.
   com  = frames covered by a completed flush / send_framed (oldest first): they reach the peer;
   q    = frames fed since (newest first, with their wire sizes), qb = their bytes;
   [ulo, uhi] = bounds on how many of those qb bytes the backpressure flushes of poll_ready have written:
   a feed that surely finds >= BP bytes pending (qb - uhi >= BP) flushes until fewer than BP are left
   (ulo >= qb - BP + 1) and may flush everything (uhi = qb); one that may find them (qb - ulo >= BP) may. *)
Record e2e_st := mkE2e { ec_com : list (list N); ec_q : list (list N * N); ec_qb : N; ec_ulo : N; ec_uhi : N }.

Fixpoint e2e_an (c : codec) (ops : list eop) (st : e2e_st) : e2e_st :=
  match ops with
  | [] => st
  | o :: t =>
      match e_tag o with
      | 1 =>
          let qb := ec_qb st in
          let '(ulo1, uhi1) :=
            if BP <=? qb - ec_uhi st then (N.max (ec_ulo st) (qb - BP + 1), qb)
            else if BP <=? qb - ec_ulo st then (ec_ulo st, qb)
            else (ec_ulo st, ec_uhi st) in
          if fits_len c (e_len o)
          then e2e_an c t (mkE2e (ec_com st) ((msg_rle (e_b o) (e_len o), wire_size c (e_len o)) :: ec_q st)
                                 (qb + wire_size c (e_len o)) ulo1 uhi1)
          else e2e_an c t (mkE2e (ec_com st) (ec_q st) qb ulo1 uhi1)
      | 2 => e2e_an c t (mkE2e (ec_com st ++ map fst (rev (ec_q st))) [] 0 0 0)
      | 3 => e2e_an c t (mkE2e (ec_com st ++ map fst (rev (ec_q st)) ++
                                (if fits_len c (e_len o) then [msg_rle (e_b o) (e_len o)] else [])) [] 0 0 0)
      | _ => st      (* close: the carrier is shut down, what is queued stays behind *)
      end
  end.

Definition e2e_final (c : codec) (ops : list eop) : e2e_st := e2e_an c ops (mkE2e [] [] 0 0 0).

(* every accepted message in call order: the committed ones, then the open ones *)
Definition e2e_all (c : codec) (ops : list eop) : list (list N) :=
  match c with
  | Identity 0 => []      (* C04_identity_zero: nothing is ever delivered *)
  | _ => let st := e2e_final c ops in ec_com st ++ map fst (rev (ec_q st))
  end.

Definition e2e_frames (c : codec) (ops : list eop) (z1 : N) : list (list N) :=
  firstn (N.to_nat (N.min z1 (N.of_nat (length (e2e_all c ops))))) (e2e_all c ops).

Fixpoint cum_size (k : nat) (l : list (list N * N)) : N :=
  match k, l with
  | S k', x :: t => snd x + cum_size k' t
  | _, _ => 0
  end.

(* is the outcome (z1 frames delivered, stream seen = z2) one the code allows? *)
Definition e2e_choice_ok (c : codec) (ops : list eop) (z1 z2 : N) (yamux : bool) : bool :=
  let st := e2e_final c ops in
  let nc := N.of_nat (length (ec_com st)) in
  let q := rev (ec_q st) in
  match c with
  | Identity 0 => z1 =? 0
  | _ =>
      let k := N.to_nat (z1 - nc) in
      (nc <=? z1) && (z1 <=? nc + N.of_nat (length q)) &&
      (* not beyond what a backpressure flush can have written, not short of what it must have *)
      (cum_size k q <=? ec_uhi st) &&
      ((N.of_nat k =? N.of_nat (length q)) || (ec_ulo st <? cum_size (S k) q)) &&
      (* yamux announces a stream with its first data frame: seen iff a byte was written *)
      (negb yamux ||
       ((negb (0 <? z1) || (z2 =? 1)) && (negb (0 <? ec_ulo st) || (z2 =? 1)) &&
        (negb ((nc =? 0) && (ec_uhi st =? 0)) || (z2 =? 0))))
  end.

Definition run_e2e (c : codec) (ops : list eop) (z1 z2 : N) : list N :=
  2 :: map (e2e_code c) ops ++
  N.of_nat (length (e2e_frames c ops z1)) :: concat (e2e_frames c ops z1) ++ [if z2 =? 1 then 1 else 8].

(* every refusal is justified, everything else succeeded, the frames delivered are exactly the first z1 accepted
   messages in call order, z1 and z2 are an outcome the code allows (every message covered by a completed flush /
   send_framed is among them), and the reader saw a clean end of stream *)
Definition e2e_ok (c : codec) (ops : list eop) (z1 z2 : N) (trace : list N) : bool :=
  nlist_eqb trace (run_e2e c ops z1 z2) && e2e_choice_ok c ops z1 z2 true.

Definition is_e2e (l : list N) : bool := match l with t :: _ => 10 <=? t | [] => false end.
Definition kind_of (l : list N) : N := match l with t :: _ => t | [] => 0 end.

(* kinds 60..62: the same end-to-end scenario over the QUIC substream type (two litep2p nodes over QUIC on the
   loopback interface; only in the harness crate built with the quic feature). case := 60+tag arg nops op* 0 0 0 0;
   trace := 11, one code per op, number of frames, RLE of every frame, reader's final code. A QUIC substream is
   negotiated before any payload, so the accepting side always sees it and then a clean end; z1 as above. *)
Definition decode_q2e (l : list N) : option (codec * list eop * N * N) :=
  match l with
  | t :: rest => if (60 <=? t) && (t <=? 62) then decode_e2e ((t - 50) :: rest) else None
  | [] => None
  end.

Definition run_q2e (c : codec) (ops : list eop) (z1 : N) : list N :=
  11 :: map (e2e_code c) ops ++
  N.of_nat (length (e2e_frames c ops z1)) :: concat (e2e_frames c ops z1) ++ [1].

(* kinds 30.. are the further streams (GlueCodec.v, GlueYamux.v, GlueWebRtc.v) *)
Definition run_ext (l : list N) : option (list N) :=
  match kind_of l with
  | 30 => Some (match decode_kcase l with Some k => run_kcase k | None => [0] end)
  | 31 => Some (match decode_fcase l with Some f => run_fcase f | None => [0] end)
  | 40 => Some (match decode_ycase l with Some y => run_ycase y | None => [0] end)
  | 41 => Some (match decode_rcase l with Some r => run_rcase r | None => [0] end)
  | 50 => Some (match decode_wcase l with Some w => run_wcase w | None => [0] end)
  | 51 => Some (match decode_wrcase l with Some r => run_wrcase r | None => [0] end)
  | 60 | 61 | 62 => Some (match decode_q2e l with Some (c, ops, z1, _) => run_q2e c ops z1 | None => [0] end)
  | _ => None
  end.

Definition ok_ext (l trace : list N) : option bool :=
  match kind_of l with
  | 30 => Some (match decode_kcase l with Some k => prop_ok_k k trace | None => nlist_eqb trace [0] end)
  | 31 => Some (match decode_fcase l with Some f => prop_ok_f f trace | None => nlist_eqb trace [0] end)
  | 40 => Some (match decode_ycase l with Some y => prop_ok_y y trace | None => nlist_eqb trace [0] end)
  | 41 => Some (match decode_rcase l with Some r => prop_ok_r r trace | None => nlist_eqb trace [0] end)
  | 50 => Some (match decode_wcase l with Some w => prop_ok_w w trace | None => nlist_eqb trace [0] end)
  | 51 => Some (match decode_wrcase l with Some r => prop_ok_wr r trace | None => nlist_eqb trace [0] end)
  | 60 | 61 | 62 => Some (match decode_q2e l with
                          | Some (c, ops, z1, z2) => nlist_eqb trace (run_q2e c ops z1) && e2e_choice_ok c ops z1 z2 false
                          | None => nlist_eqb trace [0]
                          end)
  | _ => None
  end.

Definition run_case (l : list N) : list N :=
  match run_ext l with Some t => t | None =>
  if is_e2e l then match decode_e2e l with Some (c, ops, z1, z2) => run_e2e c ops z1 z2 | None => [0] end else
  match decode_case l with
  | Some t =>
      let '(wt, s) := run_writer (t_wscript t) (t_wkinds t) (t_codec t) (init_sys (t_wscript t)) (t_ops t) in
      1 :: wt ++ run_polls (N.to_nat (t_polls t)) (t_codec t) (init_r (t_codec t))
                           (sent s ++ t_raw t) (t_rscript t)
  | None => [0]
  end end.

(* ---- decoding a trace ---- *)
Definition p_rle : parser (list N) :=
  let* runs := plist (let* b := pN in let* k := pN in
                      let* _ := pguard (k <=? MAX_LEN * 4) in pret (repeat b (N.to_nat k))) in
  pret (concat runs).

Record wobs := mkWobs {
  wo_code : N; wo_npend : N; wo_pbytes : N; wo_frames : list N; wo_cur : N;
  wo_total : N; wo_delta : list N; wo_wrem : N; wo_shut : N; wo_wake : N }.

Definition p_wobs (o : op) : parser wobs :=
  let* code := pN in
  let* _ := pguard (code <=? 4) in
  let* np := (if has_npend o then pN else pret 0) in
  let* st := (if has_state o
              then (let* pb := pN in let* fr := plist pN in let* cu := pN in pret (pb, fr, cu))
              else pret (0, [], 0)) in
  let* tot := pN in
  let* d := p_rle in
  let* wrem := pN in let* sh := pN in let* wk := pN in
  let '(pb, fr, cu) := st in
  pret (mkWobs code np pb fr cu tot d wrem sh wk).

Fixpoint p_wtrace (ops : list op) : parser (list wobs) :=
  match ops with
  | [] => pret []
  | o :: t => let* x := p_wobs o in let* r := p_wtrace t in pret (x :: r)
  end.

Record robs := mkRobs {
  ro_code : N; ro_frame : list N; ro_buf : N; ro_off : N; ro_cur : N; ro_rem : N; ro_wake : N }.

Definition p_robs : parser robs :=
  let* code := pN in
  let* _ := pguard (code <=? 4) in
  let* f := (if code =? 2 then p_rle else pret []) in
  let* bl := pN in let* off := pN in let* cu := pN in let* rem := pN in let* pend := pN in
  let* rrem := pN in let* wk := pN in
  let* _ := pguard (pend =? 0) in
  pret (mkRobs code f bl off cu rem wk).

(* ---- the oracle ---- *)
Definition sumN (l : list N) : N := fold_right N.add 0 l.
Definition is_prefix (a b : list N) : bool := nlist_eqb a (firstn (length a) b).

(* the write script contains nothing that makes the carrier fail *)
Definition clean_wscript (ws : list wev) : bool :=
  forallb (fun e => match e with WErr => false | WChunk n => negb (n =? 0) | WPending => true end) ws.

(* writer: acc = wire bytes of everything handed over so far, in the order of the calls;
   total = bytes the carrier has taken; prev = the previous observation (state before the operation).
   Returns None on a violated requirement, Some (acc', total', broken') otherwise. `broken` = a
   send_framed call ended without Ok / PermissionDenied (error or abandoned future): a partial frame
   may be on the wire and the caller has been told; nothing further is required of the byte stream. *)
Definition wstep_ok (c : codec) (clean : bool) (o : op) (prev x : wobs) (acc total : list N) (broken : bool)
  : option (list N * list N * bool) :=
  let total' := total ++ wo_delta x in
  let same_state := (wo_pbytes x =? wo_pbytes prev) && nlist_eqb (wo_frames x) (wo_frames prev) &&
                    (wo_cur x =? wo_cur prev) in
  let queue_empty := is_nil (wo_frames x) && (wo_cur x =? 0) && (wo_pbytes x =? 0) in
  if negb (wo_total x =? lenN total') then None else
  if negb (wo_wake x =? 1) then None else       (* a Pending answer without a registered waker *)
  if broken then Some (acc, total', true) else
  (* conservation: the carrier holds a prefix of what was handed over, the rest is queued *)
  let conserve (acc' : list N) :=
      is_prefix total' acc' &&
      (wo_pbytes x =? sumN (wo_frames x) + (wo_cur x - 1)) &&
      (wo_pbytes x + lenN total' =? lenN acc') in
  let shut_same := wo_shut x =? wo_shut prev in
  match o with
  | OSend m =>
      if fitsb c m then
        let acc' := acc ++ frame c m in
        if (wo_code x =? 1) && is_nil (wo_delta x) && conserve acc' && shut_same then Some (acc', total', false) else None
      else
        if (wo_code x =? 2) && is_nil (wo_delta x) && same_state && shut_same then Some (acc, total', false) else None
  | OFlush =>
      if negb shut_same then None else
      if wo_code x =? 1 then
        (* flush reported complete: nothing is queued and everything handed over is with the carrier *)
        if queue_empty && nlist_eqb total' acc then Some (acc, total', false) else None
      else if conserve acc then Some (acc, total', false) else None
  | OReady =>
      if negb shut_same then None else
      if wo_code x =? 1 then
        if (wo_pbytes x <? BP) && conserve acc then Some (acc, total', false) else None
      else if conserve acc then Some (acc, total', false) else None
  | OFramed m =>
      if negb shut_same then None else
      if wo_code x =? 1 then
        (* complete: the message fits, it follows everything handed over before it, nothing is queued *)
        if fitsb c m && queue_empty && nlist_eqb total' (acc ++ frame c m)
        then Some (acc ++ frame c m, total', false) else None
      else if (wo_code x =? 2) && negb (fitsb c m) then
        if conserve acc then Some (acc, total', false) else None
      else if (wo_code x =? 2) && clean then None      (* a fitting message refused although the carrier never failed *)
      else
        (* error / abandoned: whatever got out is a prefix of the queued bytes followed by the frame *)
        if is_prefix total' (acc ++ frame c m) then Some (acc, total', true) else None
  | OClose =>
      (* close = shutdown of the carrier: no byte is handed over, the queue is untouched (frames
         that were only start_send'ed stay unsent); the carrier is shut down iff Ok is reported *)
      if negb (is_nil (wo_delta x) && same_state && conserve acc) then None else
      if wo_code x =? 1 then (if wo_shut x =? 1 then Some (acc, total', false) else None)
      else if shut_same then Some (acc, total', false) else None
  | OCloseAll =>
      if negb (is_nil (wo_delta x) && is_prefix total' acc) then None else
      if (wo_code x =? 1) && clean then
        (* close(self) completed and the carrier never failed: it has been shut down *)
        if wo_shut x =? 1 then Some (acc, total', false) else None
      else Some (acc, total', false)
  end.

Fixpoint wtrace_ok (c : codec) (clean : bool) (ops : list op) (obs : list wobs) (prev : wobs) (acc total : list N)
         (broken : bool) : option (list N * list N * bool) :=
  match ops, obs with
  | [], [] => Some (acc, total, broken)
  | o :: ops', x :: obs' =>
      match wstep_ok c clean o prev x acc total broken with
      | Some (acc', total', br') => wtrace_ok c clean ops' obs' x acc' total' br'
      | None => None
      end
  | _, _ => None
  end.

Definition msgs_eqb := list_eqb nlist_eqb.
Fixpoint agree (f a : list (list N)) : bool :=
  match f, a with
  | x :: f', y :: a' => nlist_eqb x y && agree f' a'
  | _, _ => true
  end.

Definition frame_fits (c : codec) (f : list N) : bool :=
  match c with
  | Identity n => lenN f =? n
  | Varint (Some mx) => lenN f <=? mx
  | Varint None => true
  end.

Definition alloc_ok (c : codec) (x : robs) : bool :=
  match c with
  | Identity n => ro_buf x <=? N.max n 1024
  | Varint (Some mx) => ro_buf x <=? N.max mx 1024
  | Varint None => true
  end.

(* how many of the messages lie completely within the first `room` bytes of the concatenated encodings *)
Fixpoint nfull (c : codec) (msgs : list (list N)) (room : N) : nat :=
  match msgs with
  | [] => O
  | m :: t => let l := lenN (frame c m) in if l <=? room then S (nfull c t (room - l)) else O
  end.

(* the messages whose encoding is (given acc = their concatenated encodings) handed over *)
Definition rtrace_ok (t : tcase) (obs : list robs) (msgs : list (list N)) (acc total : list N) (broken : bool) : bool :=
  let c := t_codec t in
  let fr := flat_map (fun x => if ro_code x =? 2 then [ro_frame x] else []) obs in
  let clean := negb broken && is_nil (t_raw t) in
  let no_err_ev := forallb (fun e => match e with EvErr => false | _ => true end) (t_rscript t) in
  let final_rem := match rev obs with x :: _ => ro_rem x | [] => lenN (total ++ t_raw t) end in
  forallb (fun f => frame_fits c f) fr &&
  forallb (alloc_ok c) obs &&
  forallb (fun x => ro_wake x =? 1) obs &&
  (match c with Identity 0 => is_nil fr | _ => true end) &&
  (if clean then
     (* no spurious failure, frames are a prefix of what was sent *)
     forallb (fun x => negb (ro_code x =? 3) && (negb (ro_code x =? 4) || negb no_err_ev)) obs &&
     agree fr msgs && (N.of_nat (length fr) <=? N.of_nat (length msgs)) &&
     (* everything was flushed and everything was read: the two sequences are equal *)
     (if nlist_eqb total acc && (final_rem =? 0) &&
         negb (match c with Identity 0 => true | _ => false end)
      then msgs_eqb fr msgs else true)
   else if negb broken && nlist_eqb total acc then agree fr msgs
   (* raw bytes follow a carrier content that ends inside a frame: the messages that are completely on the
      carrier are still read back byte for byte, whatever comes after them *)
   else if negb broken then agree (firstn (nfull c msgs (lenN total)) fr) msgs else true).

Definition zero_wobs : wobs := mkWobs 1 0 0 [] 0 0 [] 0 0 1.

(* messages handed over, judged on the observed results: start_send of a fitting message, and
   send_framed calls that returned Ok *)
Fixpoint handed (c : codec) (ops : list op) (obs : list wobs) : list (list N) :=
  match ops, obs with
  | o :: ops', x :: obs' =>
      (match o with
       | OSend m => if fitsb c m then [m] else []
       | OFramed m => if wo_code x =? 1 then [m] else []
       | _ => []
       end) ++ handed c ops' obs'
  | _, _ => []
  end.

Definition prop_ok (case trace : list N) : bool :=
  match ok_ext case trace with Some b => b | None =>
  if is_e2e case then
    match decode_e2e case with
    | Some (c, ops, z1, z2) => e2e_ok c ops z1 z2 trace
    | None => nlist_eqb trace [0]
    end
  else
  match decode_case case, trace with
  | Some t, 1 :: body =>
      match pall (let* w := p_wtrace (t_ops t) in
                  let* r := prep (N.to_nat (t_polls t)) p_robs in pret (w, r)) body with
      | Some (w, r) =>
          match wtrace_ok (t_codec t) (clean_wscript (t_wscript t)) (t_ops t) w zero_wobs [] [] false with
          | Some (acc, total, broken) => rtrace_ok t r (handed (t_codec t) (t_ops t) w) acc total broken
          | None => false
          end
      | None => false     (* includes every trace cut short by a panic *)
      end
  | None, [0] => true
  | _, _ => false
  end end.

(* No known-finding classes for C04: the defects found were repaired (fix: commits F-C04a..f). *)
Definition known_class (case trace : list N) : N := 0.
