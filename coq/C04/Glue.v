(* C04 — wire format, model runner and the trace oracle prop_ok. Definitions only.

   case  :=  codec_tag codec_arg            0 n = Identity n; 1 0 = UnsignedVarint(None); 2 m = UnsignedVarint(Some m)
             nops op*                       0 = poll_ready; 1 b len = start_send; 2 = poll_flush; 3 b len = send_framed
             nw wev*                        write script: 0 = Pending; 1 n = accept up to n bytes / flush ok; 3 = error
             nraw (byte count)*             raw bytes appended to the reader's wire after what the writer got out
             nr rev*                        read script: 0 = Pending; 1 n = deliver up to n bytes; 2 = end of stream; 3 = error
             npolls                         number of poll_next calls
   message (b, len) = len bytes b, the last one b+1 mod 256 when len >= 2.
   trace :=  1, then per writer op:  code [npend]  pbytes nframes len* cur+1  sent_total  RLE(newly sent bytes)
             then per poll_next:     code [RLE(frame)]  buf_len offset cur+1 remaining_wire 0
             a panic is code 9 and ends the trace.  [0] = malformed case. *)
From Coq Require Import List NArith Bool.
From V.common Require Import Wire.
From V.gen Require Consts.
From V.C04 Require Import Model.
Import ListNotations.
Open Scope N_scope.

Definition BP : N := Consts.BACKPRESSURE_BOUNDARY.
Definition MAX_LEN : N := 16777216.

Definition pguard (b : bool) : parser unit := if b then pret tt else pfail.

Definition mk_msg (b len : N) : list N :=
  if 2 <=? len then repeat b (N.to_nat (len - 1)) ++ [(b + 1) mod 256] else repeat b (N.to_nat len).

Definition p_codec : parser codec :=
  let* tag := pN in let* arg := pN in
  match tag with
  | 0 => let* _ := pguard (arg <=? MAX_LEN) in pret (Identity arg)
  | 1 => let* _ := pguard (arg =? 0) in pret (Varint None)
  | 2 => pret (Varint (Some arg))
  | _ => pfail
  end.

Definition p_msg : parser (list N) :=
  let* b := pN in let* len := pN in
  let* _ := pguard ((b <=? 255) && (len <=? MAX_LEN)) in pret (mk_msg b len).

Definition p_op : parser op :=
  let* tag := pN in
  match tag with
  | 0 => pret OReady
  | 1 => let* m := p_msg in pret (OSend m)
  | 2 => pret OFlush
  | 3 => let* m := p_msg in pret (OFramed m)
  | _ => pfail
  end.

Definition p_wev : parser wev :=
  let* tag := pN in
  match tag with
  | 0 => pret WPending
  | 1 => let* n := pN in let* _ := pguard (n <=? MAX_LEN) in pret (WChunk n)
  | 3 => pret WErr
  | _ => pfail
  end.

Definition p_rev : parser rdev :=
  let* tag := pN in
  match tag with
  | 0 => pret EvPending
  | 1 => let* n := pN in let* _ := pguard (n <=? MAX_LEN) in pret (EvChunk n)
  | 2 => pret EvEof
  | 3 => pret EvErr
  | _ => pfail
  end.

Definition p_run : parser (list N) :=
  let* b := pN in let* k := pN in
  let* _ := pguard ((b <=? 255) && (k <=? MAX_LEN)) in pret (repeat b (N.to_nat k)).

Record tcase := mkCase {
  t_codec : codec; t_ops : list op; t_wscript : list wev; t_raw : list N;
  t_rscript : list rdev; t_polls : N }.

Definition decode_case (l : list N) : option tcase :=
  pall (let* c := p_codec in
        let* ops := plist p_op in
        let* ws := plist p_wev in
        let* raw := plist p_run in
        let* rs := plist p_rev in
        let* np := pN in
        let* _ := pguard (np <=? 100000) in
        pret (mkCase c ops ws (concat raw) rs np)) l.

(* ---- encoders ---- *)
Fixpoint rle (l : list N) : list (N * N) :=
  match l with
  | [] => []
  | x :: t => match rle t with
              | (y, k) :: r => if x =? y then (y, k + 1) :: r else (x, 1) :: (y, k) :: r
              | [] => [(x, 1)]
              end
  end.
Definition enc_rle (l : list N) : list N := enc_list (fun p : N * N => [fst p; snd p]) (rle l).

Definition wres_code (r : wres) : N :=
  match r with WPend => 0 | WOk => 1 | WDenied => 2 | WClosed => 3 | WIo => 4 end.

Definition enc_wstate (w : wstate) : list N :=
  pbytes w :: enc_list (fun f => [lenN f]) (frames w) ++
  [match curf w with Some f => lenN f + 1 | None => 0 end].

Fixpoint run_writer (c : codec) (s : sys) (ops : list op) : list N * sys :=
  match ops with
  | [] => ([], s)
  | o :: t =>
      let '((r, np), s1) := step BP c s o in
      let head := wres_code r :: (match o with OFramed _ => [np] | _ => [] end) in
      let here := head ++ enc_wstate (ws s1) ++ [lenN (sent s1)] ++
                  enc_rle (skipn (length (sent s)) (sent s1)) in
      let '(rest, s2) := run_writer c s1 t in
      (here ++ rest, s2)
  end.

Definition enc_rstate (st : rstate) (wire : list N) : list N :=
  [buf_len st; lenN (filled st); enc_opt (cur st); lenN wire; 0].

Fixpoint run_polls (polls : nat) (c : codec) (st : rstate) (wire : list N) (script : list rdev) : list N :=
  match polls with
  | O => []
  | S p =>
      let '(o, st1, w1, s1) := poll_next c st wire script in
      match o with
      | RPanic => [9]
      | _ =>
          (match o with
           | RPend => [0] | RClosed => [1] | RFrame f => 2 :: enc_rle f | RFail => [3] | RIoErr => [4]
           | RPanic => [9]
           end) ++ enc_rstate st1 w1 ++ run_polls p c st1 w1 s1
      end
  end.

Definition run_case (l : list N) : list N :=
  match decode_case l with
  | Some t =>
      let '(wt, s) := run_writer (t_codec t) (init_sys (t_wscript t)) (t_ops t) in
      1 :: wt ++ run_polls (N.to_nat (t_polls t)) (t_codec t) (init_r (t_codec t))
                           (sent s ++ t_raw t) (t_rscript t)
  | None => [0]
  end.

(* ---- decoding a trace ---- *)
Definition p_rle : parser (list N) :=
  let* runs := plist (let* b := pN in let* k := pN in
                      let* _ := pguard (k <=? MAX_LEN * 4) in pret (repeat b (N.to_nat k))) in
  pret (concat runs).

Record wobs := mkWobs {
  wo_code : N; wo_npend : N; wo_pbytes : N; wo_frames : list N; wo_cur : N;
  wo_total : N; wo_delta : list N }.

Definition p_wobs (framed : bool) : parser wobs :=
  let* code := pN in
  let* _ := pguard (code <=? 4) in
  let* np := (if framed then pN else pret 0) in
  let* pb := pN in
  let* fr := plist pN in
  let* cu := pN in
  let* tot := pN in
  let* d := p_rle in
  pret (mkWobs code np pb fr cu tot d).

Fixpoint p_wtrace (ops : list op) : parser (list wobs) :=
  match ops with
  | [] => pret []
  | o :: t => let* x := p_wobs (match o with OFramed _ => true | _ => false end) in
              let* r := p_wtrace t in pret (x :: r)
  end.

Record robs := mkRobs {
  ro_code : N; ro_frame : list N; ro_buf : N; ro_off : N; ro_cur : N; ro_rem : N }.

Definition p_robs : parser robs :=
  let* code := pN in
  let* _ := pguard (code <=? 4) in
  let* f := (if code =? 2 then p_rle else pret []) in
  let* bl := pN in let* off := pN in let* cu := pN in let* rem := pN in let* pend := pN in
  let* _ := pguard (pend =? 0) in
  pret (mkRobs code f bl off cu rem).

(* ---- the oracle ---- *)
Definition sumN (l : list N) : N := fold_right N.add 0 l.
Definition is_prefix (a b : list N) : bool := nlist_eqb a (firstn (length a) b).

(* writer: acc = wire bytes of everything accepted so far; total = bytes the carrier has taken;
   prev = the previous observation (state before the operation). Returns None on a violated
   requirement, Some (acc', total', broken') otherwise. `broken` = the history has left the
   property's domain (carrier error, abandoned send_framed, send_framed while sink data is queued). *)
Definition wstep_ok (c : codec) (o : op) (prev x : wobs) (acc total : list N) (broken : bool)
  : option (list N * list N * bool) :=
  let total' := total ++ wo_delta x in
  let same_state := (wo_pbytes x =? wo_pbytes prev) && nlist_eqb (wo_frames x) (wo_frames prev) &&
                    (wo_cur x =? wo_cur prev) in
  let queue_empty := is_nil (wo_frames prev) && (wo_cur prev =? 0) in
  if negb (wo_total x =? lenN total') then None else
  if broken then Some (acc, total', true) else
  let conserve (acc' : list N) :=
      is_prefix total' acc' &&
      (wo_pbytes x =? sumN (wo_frames x) + (wo_cur x - 1)) &&
      (wo_pbytes x + lenN total' =? lenN acc') in
  match o with
  | OSend m =>
      if fitsb c m then
        let acc' := acc ++ frame c m in
        if (wo_code x =? 1) && is_nil (wo_delta x) && conserve acc' then Some (acc', total', false) else None
      else
        if (wo_code x =? 2) && is_nil (wo_delta x) && same_state then Some (acc, total', false) else None
  | OFlush =>
      if wo_code x =? 1 then
        (* flush reported complete: nothing is queued and everything accepted is with the carrier *)
        if is_nil (wo_frames x) && (wo_cur x =? 0) && (wo_pbytes x =? 0) && nlist_eqb total' acc
        then Some (acc, total', false) else None
      else if wo_code x =? 0 then (if conserve acc then Some (acc, total', false) else None)
      else Some (acc, total', true)
  | OReady =>
      if wo_code x =? 1 then
        if (wo_pbytes x <? BP) && conserve acc then Some (acc, total', false) else None
      else if wo_code x =? 0 then (if conserve acc then Some (acc, total', false) else None)
      else Some (acc, total', true)
  | OFramed m =>
      if fitsb c m then
        if negb queue_empty then Some (acc, total', true) else
        if wo_code x =? 1 then
          if nlist_eqb (wo_delta x) (frame c m) && same_state then Some (acc ++ frame c m, total', false) else None
        else if wo_code x =? 2 then None
        else if is_prefix (wo_delta x) (frame c m) && same_state then Some (acc, total', true) else None
      else
        if (wo_code x =? 2) && is_nil (wo_delta x) && same_state then Some (acc, total', false) else None
  end.

Fixpoint wtrace_ok (c : codec) (ops : list op) (obs : list wobs) (prev : wobs) (acc total : list N)
         (broken : bool) : option (list N * list N * bool) :=
  match ops, obs with
  | [], [] => Some (acc, total, broken)
  | o :: ops', x :: obs' =>
      match wstep_ok c o prev x acc total broken with
      | Some (acc', total', br') => wtrace_ok c ops' obs' x acc' total' br'
      | None => None
      end
  | _, _ => None
  end.

Definition msgs_eqb := list_eqb nlist_eqb.
Fixpoint agree (f a : list (list N)) : bool :=
  match f, a with
  | x :: f', y :: a' => nlist_eqb x y && agree f' a'
  | _, _ => true
  end.

Definition frame_fits (c : codec) (f : list N) : bool :=
  match c with
  | Identity n => lenN f =? n
  | Varint (Some mx) => lenN f <=? mx
  | Varint None => true
  end.

Definition alloc_ok (c : codec) (x : robs) : bool :=
  match c with
  | Identity n => ro_buf x <=? N.max n 1024
  | Varint (Some mx) => ro_buf x <=? N.max mx 1024
  | Varint None => true
  end.

Definition rtrace_ok (t : tcase) (obs : list robs) (acc total : list N) (broken : bool) : bool :=
  let c := t_codec t in
  let msgs := accepted c (t_ops t) in
  let fr := flat_map (fun x => if ro_code x =? 2 then [ro_frame x] else []) obs in
  let clean := negb broken && is_nil (t_raw t) in
  let no_err_ev := forallb (fun e => match e with EvErr => false | _ => true end) (t_rscript t) in
  let final_rem := match rev obs with x :: _ => ro_rem x | [] => lenN (total ++ t_raw t) end in
  forallb (fun f => frame_fits c f) fr &&
  forallb (alloc_ok c) obs &&
  (if clean then
     (* no spurious failure, frames are a prefix of what was sent *)
     forallb (fun x => negb (ro_code x =? 3) && (negb (ro_code x =? 4) || negb no_err_ev)) obs &&
     agree fr msgs && (N.of_nat (length fr) <=? N.of_nat (length msgs)) &&
     (* everything was flushed and everything was read: the two sequences are equal *)
     (if nlist_eqb total acc && (final_rem =? 0) &&
         negb (match c with Identity 0 => true | _ => false end)
      then msgs_eqb fr msgs else true)
   else if negb broken && nlist_eqb total acc then agree fr msgs else true).

Definition zero_wobs : wobs := mkWobs 1 0 0 [] 0 0 [].

Definition prop_ok (case trace : list N) : bool :=
  match decode_case case, trace with
  | Some t, 1 :: body =>
      match pall (let* w := p_wtrace (t_ops t) in
                  let* r := prep (N.to_nat (t_polls t)) p_robs in pret (w, r)) body with
      | Some (w, r) =>
          match wtrace_ok (t_codec t) (t_ops t) w zero_wobs [] [] false with
          | Some (acc, total, broken) => rtrace_ok t r acc total broken
          | None => false
          end
      | None => false     (* includes every trace cut short by a panic *)
      end
  | None, [0] => true
  | _, _ => false
  end.

(* No known-finding classes for C04: the three defects were repaired (fix: commits). *)
Definition known_class (case trace : list N) : N := 0.
