(* C04 — pinned property theorems. This file contains statements, `exact`, Print Assumptions and
   non-vacuity Examples only. The pins in tools/pins/C04.v re-check the statements.
   The model (Model.v) follows src/substream/mod.rs after the three `fix:` commits. *)
From Coq Require Import List NArith Bool.
From V.gen Require Consts.
From V.C04 Require Import Model Proofs.
Import ListNotations.
Open Scope N_scope.

(* Receiver totality: for every codec, every byte stream (well-formed or not), every carrier
   script (fragmentation, stalls, end of stream, errors) and every number of polls — including
   polls after an error was reported — poll_next never panics, and the read buffer never exceeds
   max(configured size, 1024) bytes (no allocation from an unchecked announced length). *)
Theorem C04_receiver_total :
  forall (c : codec) (wire : list N) (script : list rdev) (polls : nat),
  let '(outs, st', _, _) := run_reader polls c (init_r c) wire script in
  ~ In RPanic outs /\ Alloc c st'.
Proof. exact receiver_total. Qed.
Print Assumptions C04_receiver_total.

(* A malformed (non-minimal / more than 10 bytes) or oversized length prefix is answered with
   ReadFailure, without allocating, and the length cursor restarts. *)
Theorem C04_receiver_rejects :
  forall (mx : option N) (st : rstate) (b : N),
  cur st = None ->
  match read_payload_size (filled st ++ [b]) with
  | RpsDecodeErr | RpsOverflow =>
      on_data (Varint mx) st [b] = (mkR (buf_len st) [] None, Some RFail)
  | RpsOk size nb =>
      nb = lenN (filled st ++ [b]) -> (exists m, mx = Some m /\ m < size) ->
      on_data (Varint mx) st [b] = (mkR (buf_len st) [] None, Some RFail)
  | RpsNotEnough => True
  end.
Proof. exact receiver_rejects. Qed.
Print Assumptions C04_receiver_rejects.

(* Reader round trip: if the wire carries (a prefix `wire` of) the encoding of msgs, then for
   every fragmentation / stall / error script and every number of polls the frames returned are,
   in order, an initial segment of msgs, no poll panics or reports ReadFailure; and once the whole
   encoding has been delivered and consumed, exactly msgs has been returned. *)
Theorem C04_reader_roundtrip :
  forall (c : codec) (msgs : list (list N)) (wire tail : list N) (script : list rdev) (polls : nat)
         outs st' wire' script',
  Fits c msgs -> wire ++ tail = wire_of c msgs ->
  run_reader polls c (init_r c) wire script = (outs, st', wire', script') ->
  ~ In RPanic outs /\ ~ In RFail outs /\
  exists rest, msgs = frames_of outs ++ rest /\
               (c <> Identity 0 -> tail = [] -> wire' = [] -> rest = []).
Proof. exact reader_roundtrip. Qed.
Print Assumptions C04_reader_roundtrip.

(* A message that does not fit the codec is refused by both send APIs with PermissionDenied;
   nothing is queued, nothing reaches the carrier, no carrier call is made. *)
Theorem C04_sender_refuses :
  forall (c : codec) (w : wstate) (m : list N) (script : list wev) (sent0 : list N),
  fitsb c m = false ->
  start_send c w m = (WDenied, w) /\ send_framed c script m sent0 = (WDenied, 0, sent0, script).
Proof. exact sender_refuses. Qed.
Print Assumptions C04_sender_refuses.

(* poll_flush: whatever the carrier does, bytes only move from the queue to the carrier in order
   (nothing lost, duplicated or reordered, unless the carrier failed), and Ready(Ok) is reported
   only when nothing at all is queued any more. *)
Theorem C04_flush_complete :
  forall (script : list wev) (w : wstate) (sent0 : list N) r w' sent' script',
  flush script w sent0 = (r, w', sent', script') ->
  pbytes w = lenN (qbytes w) ->
  (exists d, sent' = sent0 ++ d) /\
  (r <> WIo -> pbytes w' = lenN (qbytes w') /\ sent' ++ qbytes w' = sent0 ++ qbytes w) /\
  (r = WOk -> frames w' = [] /\ curf w' = None /\ pbytes w' = 0).
Proof. exact flush_spec. Qed.
Print Assumptions C04_flush_complete.

(* Every history of sink operations (poll_ready / start_send / poll_flush in any order, any
   carrier script without a carrier error being reported): what the carrier holds followed by what
   is queued is exactly the encoding of the accepted messages, in order. *)
Theorem C04_sink_stream :
  forall (bp : N) (c : codec) (script : list wev) (ops : list op) rs s',
  forallb sink_op ops = true ->
  run_ops bp c (init_sys script) ops = (rs, s') ->
  Forall (fun r => fst r <> WIo) rs ->
  pbytes (ws s') = lenN (qbytes (ws s')) /\
  sent s' ++ qbytes (ws s') = wire_of c (accepted c ops).
Proof. exact sink_stream. Qed.
Print Assumptions C04_sink_stream.

(* ... and when such a history ends with a poll_flush that reports completion, the whole
   encoding is with the carrier: the peer needs no further action by the sender. *)
Theorem C04_sink_flush_complete :
  forall (bp : N) (c : codec) (script : list wev) (ops : list op) rs r s',
  run_ops bp c (init_sys script) (ops ++ [OFlush]) = (rs ++ [r], s') ->
  length rs = length ops ->
  forallb sink_op ops = true -> Forall (fun x => fst x <> WIo) rs -> fst r = WOk ->
  sent s' = wire_of c (accepted c ops) /\
  frames (ws s') = [] /\ curf (ws s') = None /\ pbytes (ws s') = 0.
Proof. exact sink_flush_complete. Qed.
Print Assumptions C04_sink_flush_complete.

(* send_framed: the carrier receives a prefix of the frame, the whole frame when Ok is returned;
   the sink queue is not touched. *)
Theorem C04_send_framed_complete :
  forall (c : codec) (script : list wev) (m : list N) (sent0 : list N) r np sent' script',
  send_framed c script m sent0 = (r, np, sent', script') ->
  (fitsb c m = false -> r = WDenied /\ sent' = sent0 /\ script' = script) /\
  (fitsb c m = true ->
     r <> WDenied /\ exists d e, sent' = sent0 ++ d /\ frame c m = d ++ e /\ (r = WOk -> e = [])).
Proof. exact send_framed_spec. Qed.
Print Assumptions C04_send_framed_complete.

(* Backpressure: poll_ready answers Ready(Ok) only with fewer than BACKPRESSURE_BOUNDARY bytes
   queued, so the queue never exceeds the boundary by more than one frame. *)
Theorem C04_backpressure :
  forall (bp : N) (script : list wev) (w : wstate) (sent0 : list N) w' sent' script',
  0 < bp -> pbytes w = lenN (qbytes w) ->
  poll_ready bp script w sent0 = (WOk, w', sent', script') -> pbytes w' < bp.
Proof. exact backpressure. Qed.
Print Assumptions C04_backpressure.

(* End to end through the sink: any history of sink operations over any write script, then any
   reader schedule over what reached the carrier: frames come out as an initial segment of the
   accepted messages, never a panic or a ReadFailure, and equal to them once everything was flushed
   and read. *)
Theorem C04_roundtrip_sink :
  forall (bp : N) (c : codec) (wscript : list wev) (ops : list op) rs s'
         (rscript : list rdev) (polls : nat) outs st' wire' script',
  forallb sink_op ops = true -> Forall small_op ops ->
  run_ops bp c (init_sys wscript) ops = (rs, s') ->
  Forall (fun r => fst r <> WIo) rs ->
  run_reader polls c (init_r c) (sent s') rscript = (outs, st', wire', script') ->
  ~ In RPanic outs /\ ~ In RFail outs /\
  exists rest, accepted c ops = frames_of outs ++ rest /\
               (c <> Identity 0 -> qbytes (ws s') = [] -> wire' = [] -> rest = []).
Proof. exact roundtrip_sink. Qed.
Print Assumptions C04_roundtrip_sink.

(* End to end through send_framed (every call driven to completion or refused). *)
Theorem C04_roundtrip_framed :
  forall (bp : N) (c : codec) (wscript : list wev) (ops : list op) rs s'
         (rscript : list rdev) (polls : nat) outs st' wire' script',
  forallb framed_op ops = true -> Forall small_op ops ->
  run_ops bp c (init_sys wscript) ops = (rs, s') ->
  Forall (fun r => fst r = WOk \/ fst r = WDenied) rs ->
  run_reader polls c (init_r c) (sent s') rscript = (outs, st', wire', script') ->
  ~ In RPanic outs /\ ~ In RFail outs /\
  exists rest, accepted c ops = frames_of outs ++ rest /\
               (c <> Identity 0 -> wire' = [] -> rest = []).
Proof. exact roundtrip_framed. Qed.
Print Assumptions C04_roundtrip_framed.

(* The unsigned-varint length prefix: decoding the encoding gives the length back, and no proper
   prefix of an encoding decodes. *)
Theorem C04_varint_roundtrip :
  forall n, n < USIZE_MOD -> read_payload_size (varint_enc n) = RpsOk n (lenN (varint_enc n)).
Proof. exact rps_enc. Qed.
Print Assumptions C04_varint_roundtrip.

(* ---- the constants the model relies on are those of the source (regenerated on every run) ---- *)
Example C04_consts :
  Consts.SUBSTREAM_READ_BUFFER_INIT = 1024 /\ Consts.SUBSTREAM_READ_BUFFER_INIT_OTHER = 1024 /\
  Consts.SUBSTREAM_SIZE_VEC_LEN = 10 /\ 0 < Consts.BACKPRESSURE_BOUNDARY.
Proof. vm_compute. repeat split; reflexivity. Qed.

(* ---- non-vacuity ---- *)
(* three messages through the sink under UnsignedVarint(Some 300), carrier taking 3 bytes at a
   time with a stall, reader fed 2 bytes at a time: all three come out *)
Example C04_nonvacuous_roundtrip :
  let c := Varint (Some 300) in
  let m1 := repeat 7 200 in let m2 := [] in let m3 := repeat 9 130 in
  let ops := [OReady; OSend m1; OSend m2; OFlush; OSend m3; OSend (repeat 1 301)] ++ repeat OFlush 4 in
  let wscript := [WChunk 3; WPending] ++ repeat (WChunk 50) 12 in
  let '(rs, s') := run_ops 65536 c (init_sys wscript) ops in
  let '(outs, _, wire', _) := run_reader 400 c (init_r c) (sent s') (repeat (EvChunk 2) 400) in
  map fst rs = [WOk; WOk; WOk; WPend; WOk; WDenied; WOk; WOk; WPend; WPend] /\
  frames_of outs = [m1; m2; m3] /\ wire' = [].
Proof. vm_compute. repeat split; reflexivity. Qed.

(* Identity(2048) (above the 1024-byte initial buffer of the unrepaired code) reads a frame *)
Example C04_nonvacuous_identity_large :
  let c := Identity 2048 in
  let '(outs, _, _, _) := run_reader 3 c (init_r c) (repeat 5 2048) [EvChunk 1000; EvPending; EvChunk 4096] in
  outs = [RPend; RFrame (repeat 5 2048); RPend].
Proof. vm_compute. reflexivity. Qed.

(* ten continuation bytes: ReadFailure, and polling on does not panic *)
Example C04_nonvacuous_overlong_length :
  let c := Varint (Some 100) in
  let '(outs, _, _, _) := run_reader 3 c (init_r c) (repeat 200 40) (repeat (EvChunk 1) 24) in
  outs = [RFail; RFail; RPend].
Proof. vm_compute. reflexivity. Qed.
