(* C04 — pinned property theorems. This file contains statements, `exact`, Print Assumptions and
   non-vacuity Examples only. The pins in tools/pins/C04.v re-check the statements.
   The model (Model.v) follows src/substream/mod.rs after the `fix:` commits F-C04a..f. *)
From Coq Require Import List NArith Bool.
From V.gen Require Consts C04Tables.
From V.C04 Require Import Model Proofs Codec CodecProofs Carrier CarrierProofs Yamux YamuxProofs WebRtc WebRtcProofs.
Import ListNotations.
Open Scope N_scope.

(* Receiver totality: for every codec, every byte stream (well-formed or not), every carrier
   script (fragmentation, stalls, end of stream, errors) and every number of polls — including
   polls after an error was reported — poll_next never panics, and the read buffer never exceeds
   max(configured size, 1024) bytes (no allocation from an unchecked announced length). *)
Theorem C04_receiver_total :
  forall (c : codec) (wire : list N) (script : list rdev) (polls : nat),
  let '(outs, st', _, _) := run_reader polls c (init_r c) wire script in
  ~ In RPanic outs /\ Alloc c st'.
Proof. exact receiver_total. Qed.
Print Assumptions C04_receiver_total.

(* A malformed (non-minimal / more than 10 bytes) or oversized length prefix is answered with
   ReadFailure, without allocating, and the length cursor restarts. *)
Theorem C04_receiver_rejects :
  forall (mx : option N) (st : rstate) (b : N),
  cur st = None ->
  match read_payload_size (filled st ++ [b]) with
  | RpsDecodeErr | RpsOverflow =>
      on_data (Varint mx) st [b] = (mkR (buf_len st) [] None, Some RFail)
  | RpsOk size nb =>
      nb = lenN (filled st ++ [b]) -> (exists m, mx = Some m /\ m < size) ->
      on_data (Varint mx) st [b] = (mkR (buf_len st) [] None, Some RFail)
  | RpsNotEnough => True
  end.
Proof. exact receiver_rejects. Qed.
Print Assumptions C04_receiver_rejects.

(* Reader round trip: if the wire carries (a prefix `wire` of) the encoding of msgs, then for
   every fragmentation / stall / error script and every number of polls the frames returned are,
   in order, an initial segment of msgs, no poll panics or reports ReadFailure; and once the whole
   encoding has been delivered and consumed, exactly msgs has been returned. *)
Theorem C04_reader_roundtrip :
  forall (c : codec) (msgs : list (list N)) (wire tail : list N) (script : list rdev) (polls : nat)
         outs st' wire' script',
  Fits c msgs -> wire ++ tail = wire_of c msgs ->
  run_reader polls c (init_r c) wire script = (outs, st', wire', script') ->
  ~ In RPanic outs /\ ~ In RFail outs /\
  exists rest, msgs = frames_of outs ++ rest /\
               (c <> Identity 0 -> tail = [] -> wire' = [] -> rest = []).
Proof. exact reader_roundtrip. Qed.
Print Assumptions C04_reader_roundtrip.

(* A message that does not fit the codec is refused by both send APIs with PermissionDenied and
   none of its bytes reaches the carrier. (send_framed first writes out what the Sink had queued;
   with nothing queued it returns at once without any carrier call.) *)
Theorem C04_sender_refuses :
  forall (c : codec) (w : wstate) (m : list N) (script : list wev) (sent0 : list N) r np w' sent' script',
  fitsb c m = false ->
  start_send c w m = (WDenied, w) /\
  (send_framed c script w m sent0 = (r, np, w', sent', script') -> pbytes w = lenN (qbytes w) ->
   r <> WOk /\ sent' ++ qbytes w' = sent0 ++ qbytes w /\
   (queue_nonempty w = false -> r = WDenied /\ sent' = sent0 /\ script' = script /\ w' = w)).
Proof. exact sender_refuses. Qed.
Print Assumptions C04_sender_refuses.

(* poll_flush, whatever the carrier does — stalls, errors, accepting 0 bytes — only moves bytes
   from the head of the queue to the carrier (nothing lost, duplicated, reordered; a frame whose
   write failed stays queued at the position reached), and reports Ready(Ok) only when nothing at
   all is queued any more. *)
Theorem C04_flush_complete :
  forall (script : list wev) (w : wstate) (sent0 : list N) r w' sent' script',
  flush script w sent0 = (r, w', sent', script') ->
  pbytes w = lenN (qbytes w) ->
  (exists d, sent' = sent0 ++ d) /\
  pbytes w' = lenN (qbytes w') /\ sent' ++ qbytes w' = sent0 ++ qbytes w /\
  (r = WOk -> frames w' = [] /\ curf w' = None /\ pbytes w' = 0).
Proof. exact flush_spec. Qed.
Print Assumptions C04_flush_complete.

(* Both send paths, freely mixed, with poll_ready / poll_flush / poll_close / close in any order
   and any carrier behaviour (stalls, errors, zero-length accepts): as long as every send_framed
   call ran to completion (Ok or PermissionDenied), what the carrier holds followed by what is
   queued is exactly the concatenation of the encodings of the accepted messages, in the order of
   the calls — whole frames, each exactly once, never interleaved, never overtaking. *)
Theorem C04_mixed_paths_in_order :
  forall (bp : N) (c : codec) (script : list wev) (ops : list op) rs s',
  run_ops bp c (init_sys script) ops = (rs, s') ->
  Forall2 good ops rs ->
  pbytes (ws s') = lenN (qbytes (ws s')) /\
  sent s' ++ qbytes (ws s') = wire_of c (accepted c ops).
Proof. exact mixed_stream. Qed.
Print Assumptions C04_mixed_paths_in_order.

(* ... and when such a history ends with a poll_flush that reports completion, the whole
   encoding is with the carrier: the peer needs no further action by the sender. *)
Theorem C04_hist_flush_complete :
  forall (bp : N) (c : codec) (script : list wev) (ops : list op) rs r s',
  run_ops bp c (init_sys script) (ops ++ [OFlush]) = (rs ++ [r], s') ->
  Forall2 good ops rs -> fst r = WOk ->
  sent s' = wire_of c (accepted c ops) /\
  frames (ws s') = [] /\ curf (ws s') = None /\ pbytes (ws s') = 0.
Proof. exact hist_flush_complete. Qed.
Print Assumptions C04_hist_flush_complete.

(* send_framed from any Sink state: the queued bytes go out first, then a prefix of the frame —
   the whole frame, with nothing left queued, exactly when Ok is returned. *)
Theorem C04_send_framed_complete :
  forall (c : codec) (script : list wev) (w : wstate) (m : list N) (sent0 : list N) r np w' sent' script',
  send_framed c script w m sent0 = (r, np, w', sent', script') ->
  pbytes w = lenN (qbytes w) ->
  pbytes w' = lenN (qbytes w') /\
  (exists d e, sent' ++ qbytes w' = sent0 ++ qbytes w ++ d /\ frame c m = d ++ e /\
               (r = WOk -> e = [] /\ qbytes w' = []) /\ (fitsb c m = false -> d = [])) /\
  (r = WOk -> fitsb c m = true) /\ (r = WDenied -> fitsb c m = false).
Proof. exact send_framed_spec. Qed.
Print Assumptions C04_send_framed_complete.

(* Closing. Sink::poll_close is poll_shutdown of the carrier and Substream::close(self) is its
   shutdown: a close call hands no byte to the carrier and does not touch the queue (frames that
   were only start_send'ed are not written by it — callers flush first); the carrier has completed
   a shutdown exactly when poll_close reports Ok. *)
Theorem C04_close_sends_nothing :
  forall (script : list wev) (w : wstate) (sent0 : list N),
  (forall r w' sent' script' sh,
     poll_close script w sent0 = (r, w', sent', script', sh) ->
     w' = w /\ sent' = sent0 /\ (r = WOk <-> sh = true)) /\
  (forall r np w' sent' script' sh,
     close_all script w sent0 = (r, np, w', sent', script', sh) ->
     w' = w /\ sent' = sent0 /\ (r = WOk -> Forall clean_ev script -> sh = true)).
Proof. intros; split; intros; [eapply poll_close_spec|eapply close_all_spec]; eassumption. Qed.
Print Assumptions C04_close_sends_nothing.

(* A history whose last flush reported completion, then a poll_close that reports completion:
   everything handed over is with the carrier, nothing is queued, the carrier is shut down
   (after the last byte). *)
Theorem C04_close_after_flush_complete :
  forall (bp : N) (c : codec) (script : list wev) (ops : list op) rs rf rc s',
  run_ops bp c (init_sys script) (ops ++ [OFlush; OClose]) = (rs ++ [rf; rc], s') ->
  Forall2 good ops rs -> fst rf = WOk -> fst rc = WOk ->
  sent s' = wire_of c (accepted c ops) /\ qbytes (ws s') = [] /\ shut s' = true.
Proof. exact hist_close_after_flush. Qed.
Print Assumptions C04_close_after_flush_complete.

(* The same for Substream::close(self), which ignores errors: over a carrier that does not fail. *)
Theorem C04_close_all_after_flush_complete :
  forall (bp : N) (c : codec) (script : list wev) (ops : list op) rs rf s1 np w' sent' script' sh,
  run_ops bp c (init_sys script) (ops ++ [OFlush]) = (rs ++ [rf], s1) ->
  Forall2 good ops rs -> fst rf = WOk ->
  close_all (wscript s1) (ws s1) (sent s1) = (WOk, np, w', sent', script', sh) ->
  Forall clean_ev (wscript s1) ->
  sent' = wire_of c (accepted c ops) /\ qbytes w' = [] /\ sh = true.
Proof. exact hist_close_all_after_flush. Qed.
Print Assumptions C04_close_all_after_flush_complete.

(* Observation (not a defect of the property: C04 speaks about sends and flushes reported
   complete): a message that was start_send'ed but never flushed is dropped by close — the close
   succeeds, the carrier is shut down, nothing was sent. *)
Example C04_close_drops_unflushed :
  let c := Varint None in
  let '(rs, s') := run_ops 65536 c (init_sys (repeat (WChunk 100) 5)) [OSend (repeat 9 10); OClose] in
  map fst rs = [WOk; WOk] /\ shut s' = true /\ sent s' = [] /\ pbytes (ws s') = 11.
Proof. vm_compute. repeat split; reflexivity. Qed.

(* Backpressure: poll_ready answers Ready(Ok) only with fewer than BACKPRESSURE_BOUNDARY bytes
   queued, so the queue never exceeds the boundary by more than one frame. *)
Theorem C04_backpressure :
  forall (bp : N) (script : list wev) (w : wstate) (sent0 : list N) w' sent' script',
  0 < bp -> pbytes w = lenN (qbytes w) ->
  poll_ready bp script w sent0 = (WOk, w', sent', script') -> pbytes w' < bp.
Proof. exact backpressure. Qed.
Print Assumptions C04_backpressure.

(* End to end: any history of the six operations over any write script (every send_framed run
   to completion), then any reader schedule over what reached the carrier: frames come out as an
   initial segment of the accepted messages in call order, never a panic or a ReadFailure, and
   equal to them once everything was flushed and read. *)
Theorem C04_roundtrip :
  forall (bp : N) (c : codec) (wscript : list wev) (ops : list op) rs s'
         (rscript : list rdev) (polls : nat) outs st' wire' script',
  Forall small_op ops ->
  run_ops bp c (init_sys wscript) ops = (rs, s') ->
  Forall2 good ops rs ->
  run_reader polls c (init_r c) (sent s') rscript = (outs, st', wire', script') ->
  ~ In RPanic outs /\ ~ In RFail outs /\
  exists rest, accepted c ops = frames_of outs ++ rest /\
               (c <> Identity 0 -> qbytes (ws s') = [] -> wire' = [] -> rest = []).
Proof. exact roundtrip_mixed. Qed.
Print Assumptions C04_roundtrip.

(* Carrier errors are reported by the call that met them: a poll_flush that answers Ok or Pending
   consumed no error event; the same for the write_all/flush loop of send_framed. *)
Theorem C04_write_error_reported :
  forall (script : list wev) (w : wstate) (sent0 : list N) r w' sent' script',
  flush script w sent0 = (r, w', sent', script') -> r <> WIo ->
  exists pre, script = pre ++ script' /\ Forall (fun e => e <> WErr) pre.
Proof. exact flush_err_reported. Qed.
Print Assumptions C04_write_error_reported.

Theorem C04_send_framed_error_reported :
  forall (ident : bool) (script : list wev) (bufs : list (list N)) (sent0 : list N) np r np' sent' script',
  sf_run ident script bufs sent0 np = (r, np', sent', script') -> r = WOk \/ r = WPend ->
  exists pre, script = pre ++ script' /\ Forall (fun e => e <> WErr) pre.
Proof. exact sf_run_err_reported. Qed.
Print Assumptions C04_send_framed_error_reported.

(* Wake-ups: poll_flush / poll_next answer Pending only when their last carrier call answered
   Pending (a Pending event consumed last, or the exhausted script, which answers Pending): the
   carrier then holds the caller's waker. (The harness checks the same on the real code, with the
   waker identity.) *)
Theorem C04_pending_has_waker_write :
  forall (script : list wev) (w : wstate) (sent0 : list N) w' sent' script',
  flush script w sent0 = (WPend, w', sent', script') ->
  (exists pre, script = pre ++ WPending :: script') \/ script' = [].
Proof. exact flush_pending. Qed.
Print Assumptions C04_pending_has_waker_write.

Theorem C04_pending_has_waker_read :
  forall (c : codec) (script : list rdev) (st : rstate) (wire : list N) st' wire' script',
  poll_next c st wire script = (RPend, st', wire', script') ->
  (exists pre, script = pre ++ EvPending :: script') \/ script' = [].
Proof. exact poll_next_pending. Qed.
Print Assumptions C04_pending_has_waker_read.

(* Identity(0), as the code behaves: the reader never delivers a frame (a zero-length read is
   taken for end of stream) and consumes nothing. *)
Theorem C04_identity_zero :
  forall (polls : nat) (wire : list N) (script : list rdev) outs st' wire' script',
  run_reader polls (Identity 0) (init_r (Identity 0)) wire script = (outs, st', wire', script') ->
  frames_of outs = [] /\ Forall (fun o => o = RPend \/ o = RClosed \/ o = RIoErr) outs /\ wire' = wire.
Proof. exact identity_zero. Qed.
Print Assumptions C04_identity_zero.

(* UnsignedVarint(None), as the code behaves: every announced length 0 < n < 2^64 is allocated
   as the read buffer as soon as its last length byte arrives, before any payload (the memory
   bound of C04_receiver_total exists only for UnsignedVarint(Some max); see also C19). *)
Theorem C04_varint_none_unbounded_alloc :
  forall n, 0 < n -> n < USIZE_MOD ->
  let e := varint_enc n in
  let '(outs, st', _, _) := run_reader 1 (Varint None) (init_r (Varint None)) e (repeat (EvChunk 1) (length e)) in
  outs = [RPend] /\ buf_len st' = n /\ filled st' = [].
Proof. exact none_unbounded_alloc. Qed.
Print Assumptions C04_varint_none_unbounded_alloc.

(* flush_all's fuel is a modelling device: any fuel above the script length gives the same run *)
Theorem C04_flush_all_fuel_adequate :
  forall fuel fuel' (script : list wev) (w : wstate) (sent0 : list N) np,
  (length script < fuel)%nat -> (length script < fuel')%nat ->
  flush_all fuel script w sent0 np = flush_all fuel' script w sent0 np.
Proof. exact flush_all_fuel. Qed.
Print Assumptions C04_flush_all_fuel_adequate.

(* The unsigned-varint length prefix: decoding the encoding gives the length back, and no proper
   prefix of an encoding decodes. *)
Theorem C04_varint_roundtrip :
  forall n, n < USIZE_MOD -> read_payload_size (varint_enc n) = RpsOk n (lenN (varint_enc n)).
Proof. exact rps_enc. Qed.
Print Assumptions C04_varint_roundtrip.

(* ======================================================================================
   The tokio-util codecs of src/codec (Identity, UnsignedVarint): what users wrap a Substream in
   when they drive it through tokio_util::codec::Framed.
   ====================================================================================== *)

(* Encode any sequence of fitting messages, cut the byte stream into arbitrary chunks, run the
   Framed read loop (append the chunk, decode until None): no decode call fails, the frames are in
   order an initial segment of the messages, and exactly the messages — with an empty buffer left —
   once the whole encoding has arrived. *)
Theorem C04_codec_roundtrip :
  forall (cd : tcodec) (msgs : list (list N)) (chunks : list (list N)) (tail : list N) rs dl' src',
  cd_ok cd -> CFits cd msgs -> concat chunks ++ tail = twire cd msgs ->
  feed cd None [] chunks = (rs, dl', src') ->
  existsb is_derr rs = false /\
  exists rest, msgs = dframes rs ++ rest /\ (chunks <> [] -> tail = [] -> rest = [] /\ src' = []).
Proof. exact codec_roundtrip. Qed.
Print Assumptions C04_codec_roundtrip.

(* The sender side refuses what does not fit — a message above the maximum (UnsignedVarint), a
   message that is not exactly payload_len bytes long (Identity, after fix F-C04h) — and a refused
   message leaves no byte in the output buffer. *)
Theorem C04_codec_encode_refuses :
  (forall mx m, mx < lenN m -> tencode (TUvi mx) m = (EDenied, [])) /\
  (forall n m, lenN m <> n -> tencode (TIdentity n) m = (EInvalid, [])) /\
  (forall cd m r out, tencode cd m = (r, out) -> r <> EOk -> out = []) /\
  (forall cd msgs, twire cd msgs = twire cd (filter (tfits cd) msgs)).
Proof.
  split; [exact tencode_oversized|]. split; [exact tencode_wrong_size|].
  split; [exact tencode_refused|exact twire_filter].
Qed.
Print Assumptions C04_codec_encode_refuses.

(* The receiver side: an announced length above the maximum is an error (PermissionDenied) as soon
   as the prefix is complete, whatever follows and before anything is reserved; a malformed prefix
   (not minimal, ten continuation bytes) is an error that leaves the decoder as it was; a length
   that is being waited for never exceeds the maximum. decode is a total function: no panic. *)
Theorem C04_codec_decode_rejects :
  (forall mx n x, mx < n -> n < USIZE_MOD -> tdecode (TUvi mx) None (varint_enc n ++ x) = (DDenied, None, x)) /\
  (forall mx src, match read_payload_size src with
                  | RpsDecodeErr | RpsOverflow => tdecode (TUvi mx) None src = (DOther, None, src)
                  | _ => True
                  end) /\
  (forall mx dl src r dl' src' k,
     (forall k0, dl = Some k0 -> k0 <= mx) -> tdecode (TUvi mx) dl src = (r, dl', src') -> dl' = Some k -> k <= mx).
Proof.
  split; [exact decode_rejects_oversized|]. split; [exact decode_rejects_malformed|exact decode_pending_bounded].
Qed.
Print Assumptions C04_codec_decode_rejects.

(* The codecs and the Substream's own framing are the same wire format with the same limits ... *)
Theorem C04_codec_same_wire :
  forall (cd : tcodec) (m : list N), cd_ok cd ->
  tfits cd m = fitsb (codec_of cd) m /\
  (tfits cd m = true -> tencode cd m = (EOk, frame (codec_of cd) m)).
Proof. intros cd m Hok. split; [apply tfits_fitsb; exact Hok|apply tfits_enc]. Qed.
Print Assumptions C04_codec_same_wire.

(* ... so what any history of Sink / send_framed operations of a Substream puts on the carrier is
   decoded by the tokio-util codec of the same configuration, under any fragmentation, into an
   initial segment of the accepted messages — all of them once nothing is queued ... *)
Theorem C04_substream_to_codec :
  forall (bp : N) (cd : tcodec) (script : list wev) (ops : list op) rs s' (chunks : list (list N)) rs' dl src,
  cd_ok cd -> Forall small_op ops ->
  run_ops bp (codec_of cd) (init_sys script) ops = (rs, s') -> Forall2 good ops rs ->
  concat chunks = sent s' ->
  feed cd None [] chunks = (rs', dl, src) ->
  existsb is_derr rs' = false /\
  exists rest, accepted (codec_of cd) ops = dframes rs' ++ rest /\
               (chunks <> [] -> qbytes (ws s') = [] -> rest = [] /\ src = []).
Proof. exact substream_to_codec. Qed.
Print Assumptions C04_substream_to_codec.

(* ... and what the tokio-util encoder produces is read back by the Substream reader. *)
Theorem C04_codec_to_substream :
  forall (cd : tcodec) (msgs : list (list N)) (wire tail : list N) (script : list rdev) (polls : nat)
         outs st' wire' script',
  cd_ok cd -> CFits cd msgs -> wire ++ tail = twire cd msgs ->
  run_reader polls (codec_of cd) (init_r (codec_of cd)) wire script = (outs, st', wire', script') ->
  ~ In RPanic outs /\ ~ In RFail outs /\
  exists rest, msgs = frames_of outs ++ rest /\ (tail = [] -> wire' = [] -> rest = []).
Proof. exact codec_to_substream. Qed.
Print Assumptions C04_codec_to_substream.

(* ======================================================================================
   Carriers. The theorems above quantify over every script of carrier answers. A real carrier
   is a state machine; Carrier.v runs the same writer over an abstract one and logs its answers.
   ====================================================================================== *)

(* Every history over every carrier (any state type, any poll_write / poll_flush / poll_shutdown
   behaviour, any wake-up pattern, anything the environment does in between) is a history of the
   script-driven writer on the log of the carrier's answers: same results, same Sink state, same
   bytes handed over. So every statement about `run_ops` for all scripts holds over every carrier. *)
Theorem C04_carrier_refines_script :
  forall (S E : Type) (K : carrier S) (env : S -> E -> S) (fuel : nat) (bp : N) (c : codec)
         (ops : list (gop E)) (g : @gsys S) rs g' L ab,
  grun K env fuel bp c g ops = Some (rs, g', L, ab) ->
  forall T, (ab = true -> T = []) ->
  run_ops bp c (mkSys (g_ws g) (g_sent g) (L ++ T) (g_shut g)) (firstn (length rs) (gops ops)) =
  (rs, mkSys (g_ws g') (g_sent g') T (g_shut g')).
Proof. intros S E K env fuel bp c ops g rs g' L ab H T HT. exact (grun_sim K env fuel bp c ops g rs g' L ab H T HT). Qed.
Print Assumptions C04_carrier_refines_script.

(* The fuel of the carrier-generic definitions is a modelling device. A single poll (poll_ready,
   poll_flush, poll_close) never exhausts its own: every carrier call ends the poll or takes a byte
   or an empty frame off the queue. The loops that wait for a wake-up (the flush inside send_framed,
   write_all, shutdown) run as long as the carrier keeps waking the task: that is the `fuel`
   argument of gstep / grun, and a run that exhausts it yields None, about which nothing is claimed
   (the differential run shows such a case as a disagreement). *)
Theorem C04_carrier_poll_total :
  forall (S : Type) (K : carrier S) (s : S) (w : wstate) (sent : list N),
  gflush K (flush_fuel w) s w sent <> None.
Proof. intros S K s w sent. apply gflush_total. apply flush_fuel_enough. Qed.
Print Assumptions C04_carrier_poll_total.

(* In particular, over every carrier: whole frames, each exactly once, in call order ... *)
Theorem C04_carrier_in_order :
  forall (S E : Type) (K : carrier S) (env : S -> E -> S) (fuel : nat) (bp : N) (c : codec)
         (ops : list (gop E)) (s0 : S) rs g' L ab,
  grun K env fuel bp c (ginit s0) ops = Some (rs, g', L, ab) ->
  Forall2 good (firstn (length rs) (gops ops)) rs ->
  pbytes (g_ws g') = lenN (qbytes (g_ws g')) /\
  g_sent g' ++ qbytes (g_ws g') = wire_of c (accepted c (firstn (length rs) (gops ops))).
Proof. intros S E K env fuel bp c ops s0 rs g' L ab. apply carrier_in_order. Qed.
Print Assumptions C04_carrier_in_order.

(* ... and a poll_flush / send_framed that reports completion has handed everything that was
   queued (and then the whole frame) to the carrier: partial acceptance by the carrier — a short
   count from poll_write — never shortens a message. *)
Theorem C04_carrier_complete :
  forall (S : Type) (K : carrier S),
  (forall fuel s w sent w' sent' s' L,
     gflush K fuel s w sent = Some (WOk, w', sent', s', L) -> pbytes w = lenN (qbytes w) ->
     sent' = sent ++ qbytes w /\ qbytes w' = [] /\ frames w' = [] /\ curf w' = None /\ pbytes w' = 0) /\
  (forall fuel c s w m sent np w' sent' s' L ab,
     gsend_framed K fuel c s w m sent = Some (WOk, np, w', sent', s', L, ab) -> pbytes w = lenN (qbytes w) ->
     sent' = sent ++ qbytes w ++ frame c m /\ qbytes w' = [] /\ fitsb c m = true).
Proof. intros S K. split; [apply carrier_flush_complete|apply carrier_send_framed_complete]. Qed.
Print Assumptions C04_carrier_complete.

(* ======================================================================================
   yamux underneath the TCP and WebSocket substream types (Yamux.v): the credit discipline.
   ====================================================================================== *)

(* Stream::poll_write: accepts min(offered, send window, split size) bytes — never more than
   offered or than the window, never nothing of a non-empty buffer — and the window shrinks by
   exactly that; Pending only at zero credit or with the command channel to the connection task
   full; an error only on a stream that can no longer be written. *)
Theorem C04_yamux_write_discipline :
  forall (s : ystate) (len : N) a s',
  y_write s len = (a, s') ->
  y_wakes s' = y_wakes s /\
  match a with
  | CAcc k => k <= len /\ k <= y_credit s /\ k <= Y_SPLIT /\ (0 < len -> 0 < k) /\
              y_credit s' + k = y_credit s /\ y_open s' = true /\ y_open s = true /\ y_out s' = y_out s ++ [k]
  | CPend => s' = s /\ (y_credit s = 0 \/ Y_PARK <= y_q s)
  | CErr => s' = s /\ y_open s = false
  end.
Proof. exact y_write_spec. Qed.
Print Assumptions C04_yamux_write_discipline.

(* Flow control is respected over whole histories: whatever the operations, window updates and
   wake-ups, the bytes accepted never exceed the credit given (initial window + updates). *)
Theorem C04_yamux_credit_respected :
  forall (fuel : nat) (bp : N) (c : codec) (ops : list (gop yenv)) (g : @gsys ystate) rs g' L ab,
  grun YK y_apply fuel bp c g ops = Some (rs, g', L, ab) ->
  lenN (g_sent g') + y_credit (g_car g') + grants (g_car g') <=
  lenN (g_sent g) + y_credit (g_car g) + grants (g_car g) + genv_grants ops ye_grant.
Proof. exact grun_yamux_credit. Qed.
Print Assumptions C04_yamux_credit_respected.

(* On a stream that is not reset no operation fails — in particular poll_write never takes nothing
   of a non-empty buffer, so no WriteZero — and a writer that is left waiting for good (no wake-up
   to come) waits for credit or for the connection task, nothing else. *)
Theorem C04_yamux_stalls_only_for_credit :
  forall (fuel : nat) (bp : N) (c : codec) (ops : list (gop yenv)) (g : @gsys ystate) rs g' L ab,
  grun YK y_apply fuel bp c g ops = Some (rs, g', L, ab) ->
  yclean (g_car g) -> genv_all (fun e => ye_rst e = false) ops ->
  Forall (fun r => fst r <> WIo /\ fst r <> WClosed) rs /\ (ab = true -> ystalled (g_car g')).
Proof. exact grun_yamux_clean. Qed.
Print Assumptions C04_yamux_stalls_only_for_credit.

(* The receiving half: Substream::poll_next over the yamux stream's buffer is Model.poll_next on a
   script (so receiver totality and the reader round trip hold over it). *)
Theorem C04_yamux_reader_refines_script :
  forall (fuel : nat) (c : codec) (st : rstate) (rbuf : list N) (fin : bool) o st' rbuf',
  (length rbuf < fuel)%nat ->
  ypoll fuel c st rbuf fin = (o, st', rbuf') ->
  poll_next c st rbuf (yscript fuel c st rbuf fin) = (o, st', rbuf', []).
Proof. exact ypoll_sim. Qed.
Print Assumptions C04_yamux_reader_refines_script.

(* Both ends and the stream between them, under ANY schedule of writer operations (both send
   APIs, ready / flush / close), window updates of any size at any time, connection-task runs,
   deliveries of any fragmentation and reader polls: as long as no send_framed call failed or was
   dropped midway, the frames the reader has returned are, in order, an initial segment of the
   messages handed over — never a panic, never a ReadFailure — and they are all of them as soon
   as nothing is queued at the writer, everything accepted by the stream has arrived and the
   reader has emptied its buffer: none of which needs a further action of the sender. *)
Theorem C04_yamux_end_to_end :
  forall (fuel : nat) (bp : N) (c : codec) (wakes : list yenv) (sched : list ystep) (y : ysys),
  Forall small_step sched ->
  yrun fuel bp c (ys_init c wakes) sched = Some y -> ys_bad y = false ->
  ~ In RPanic (ys_outs y) /\ ~ In RFail (ys_outs y) /\
  exists rest, accepted c (ys_ops y) = frames_of (ys_outs y) ++ rest /\
    (c <> Identity 0 -> qbytes (g_ws (ys_g y)) = [] -> ys_arr y = lenN (g_sent (ys_g y)) -> ys_rbuf y = [] -> rest = []).
Proof. exact yamux_e2e. Qed.
Print Assumptions C04_yamux_end_to_end.

(* ======================================================================================
   The WebRTC substream type (WebRtc.v): a framing of its own below the Substream.
   ====================================================================================== *)

(* poll_write: one message per call, at most MAX_FRAME_SIZE bytes and at most what was offered,
   never nothing of a non-empty buffer; Pending only for the channel's backpressure; an error only
   after shutdown or once the connection side closed the channel. (It is a carrier: the theorems
   C04_carrier_* apply with K := RK.) *)
Theorem C04_webrtc_write_discipline :
  forall (s : rtc) (len : N) a s',
  rtc_write s len = (a, s') ->
  match a with
  | CAcc k => k <= len /\ k <= RTC_MAX_FRAME /\ (0 < len -> 0 < k) /\ r_out s' = r_out s ++ [k] /\
              r_q s' = r_q s + 1 /\ r_q s < RTC_CAP
  | CPend => s' = s /\ RTC_CAP <= r_q s
  | CErr => r_out s' = r_out s /\ r_q s' = r_q s /\ (r_tx s = false \/ r_rxclosed s = true)
  end.
Proof. exact rtc_write_spec. Qed.
Print Assumptions C04_webrtc_write_discipline.

(* The reading half: a payload handed to the handle reaches the reader's buffer unchanged and in
   order (while the channel is neither reset, closed nor full), and Substream::poll_next over it —
   messages taken one at a time, the part the caller's buffer could not take kept for the next
   read — is Model.poll_next on a script over the buffered bytes. *)
Theorem C04_webrtc_reader_refines_script :
  (forall s p fin, rr_ok s -> rr_reset s = false -> rr_eof s = false -> lenN (rr_inq s) < RTC_CAP ->
                   lenN p <= RTC_MAX_FRAME ->
                   rr_ok (rr_message s p fin) /\ rr_bytes (rr_message s p fin) = rr_bytes s ++ p /\
                   rr_reset (rr_message s p fin) = false) /\
  (forall fuel c st s o st' s',
     rr_ok s -> (length (rr_bytes s) < fuel)%nat ->
     wpoll fuel c st s = (o, st', s') ->
     rr_ok s' /\ poll_next c st (rr_bytes s) (rtc_script fuel c st s) = (o, st', rr_bytes s', [])).
Proof. split; [exact rr_message_bytes|exact wpoll_sim]. Qed.
Print Assumptions C04_webrtc_reader_refines_script.

(* ---- the constants the model relies on are those of the source (regenerated on every run) ---- *)
Example C04_consts :
  Consts.SUBSTREAM_READ_BUFFER_INIT = 1024 /\ Consts.SUBSTREAM_READ_BUFFER_INIT_OTHER = 1024 /\
  Consts.SUBSTREAM_SIZE_VEC_LEN = 10 /\ 0 < Consts.BACKPRESSURE_BOUNDARY /\
  Consts.YAMUX_DEFAULT_CREDIT = 262144 /\ 0 < Consts.C19_WEBRTC_MAX_FRAME_SIZE /\ 0 < Consts.WEBRTC_MAX_INFLIGHT_MESSAGES.
Proof. vm_compute. repeat split; reflexivity. Qed.

(* The error kinds: the framing code itself names exactly PermissionDenied (its refusals) and WriteZero (a
   transport that accepts nothing); a carrier failure of any kind is passed on with its kind
   (From<io::Error>), except that send_identity_payload reports a failed write as ConnectionClosed. The model
   has one failure event for all kinds; the harness injects every kind of the table (corpus/C04/errkinds.case). *)
Example C04_error_kinds :
  C04Tables.SUBSTREAM_ERRORKINDS_MASK = 2 ^ C04Tables.EK_PERMISSION_DENIED + 2 ^ C04Tables.EK_WRITE_ZERO /\
  C04Tables.SUBSTREAM_IOERR_KEEPS_KIND = 1 /\ C04Tables.SEND_IDENTITY_MAPS_WRITE_ERR_TO_CLOSED = 1 /\
  C04Tables.ERROR_KINDS_LEN = 20.
Proof. vm_compute. repeat split; reflexivity. Qed.

(* ---- non-vacuity ---- *)
(* three messages through the sink under UnsignedVarint(Some 300), carrier taking 3 bytes at a
   time with a stall, reader fed 2 bytes at a time: all three come out *)
Example C04_nonvacuous_roundtrip :
  let c := Varint (Some 300) in
  let m1 := repeat 7 200 in let m2 := [] in let m3 := repeat 9 130 in
  let ops := [OReady; OSend m1; OSend m2; OFlush; OSend m3; OSend (repeat 1 301)] ++ repeat OFlush 4 in
  let wscript := [WChunk 3; WPending] ++ repeat (WChunk 50) 12 in
  let '(rs, s') := run_ops 65536 c (init_sys wscript) ops in
  let '(outs, _, wire', _) := run_reader 400 c (init_r c) (sent s') (repeat (EvChunk 2) 400) in
  map fst rs = [WOk; WOk; WOk; WPend; WOk; WDenied; WOk; WOk; WPend; WPend] /\
  frames_of outs = [m1; m2; m3] /\ wire' = [].
Proof. vm_compute. repeat split; reflexivity. Qed.

(* mixed paths: a Sink frame is half written (carrier stalls after 3 bytes), then send_framed is
   called: it first completes the queued frame, then writes its own; a write error in between is
   reported and nothing is lost; the last message is flushed, then the substream is closed *)
Example C04_nonvacuous_mixed :
  let c := Varint None in
  let a := repeat 9 50 in let b := repeat 20 4 in let d := repeat 30 5 in
  let ops := [OSend a; OFlush; OFramed b; OSend d; OFlush; OFlush; OClose] in
  let wscript := [WChunk 3; WPending] ++ repeat (WChunk 100) 5 ++ [WErr] ++ repeat (WChunk 100) 6 in
  let '(rs, s') := run_ops 65536 c (init_sys wscript) ops in
  let '(outs, _, wire', _) := run_reader 50 c (init_r c) (sent s') (repeat (EvChunk 1000) 50) in
  map fst rs = [WOk; WPend; WOk; WOk; WIo; WOk; WOk] /\
  sent s' = wire_of c [a; b; d] /\ shut s' = true /\ frames_of outs = [a; b; d].
Proof. vm_compute. repeat split; reflexivity. Qed.

(* Identity(2048) (above the 1024-byte initial buffer of the unrepaired code) reads a frame *)
Example C04_nonvacuous_identity_large :
  let c := Identity 2048 in
  let '(outs, _, _, _) := run_reader 3 c (init_r c) (repeat 5 2048) [EvChunk 1000; EvPending; EvChunk 4096] in
  outs = [RPend; RFrame (repeat 5 2048); RPend].
Proof. vm_compute. reflexivity. Qed.

(* ten continuation bytes: ReadFailure, and polling on does not panic *)
Example C04_nonvacuous_overlong_length :
  let c := Varint (Some 100) in
  let '(outs, _, _, _) := run_reader 3 c (init_r c) (repeat 200 40) (repeat (EvChunk 1) 24) in
  outs = [RFail; RFail; RPend].
Proof. vm_compute. reflexivity. Qed.

(* the tokio-util codec: three messages, the stream cut into 2-byte chunks *)
Example C04_nonvacuous_codec :
  let cd := TUvi 300 in
  let msgs := [repeat 7 200; []; repeat 9 130] in
  let wire := twire cd msgs in
  let chunks := map (fun i => takeN 2 (dropN (2 * N.of_nat i) wire)) (seq 0 170) in
  let '(rs, dl, src) := feed cd None [] chunks in
  dframes rs = msgs /\ existsb is_derr rs = false /\ src = [] /\ dl = None /\
  fst (tencode cd (repeat 1 301)) = EDenied /\ fst (tencode (TIdentity 5) [1; 2; 3]) = EInvalid.
Proof. vm_compute. repeat split; reflexivity. Qed.

(* yamux: a 4000-byte message into a window of 100 bytes; the peer's window updates come in
   slices of 1500; send_framed completes after the third one, the frames are cut by the credit,
   and the reader gets the message back *)
Example C04_nonvacuous_yamux :
  let c := Varint None in
  let m := repeat 5 (N.to_nat 4000) in
  let wakes := repeat (mkYe 1500 false) 4 in
  let y1 := mkYS (mkG init_w [] (mkY 100 0 true wakes [] false false 0 0) false) 0 [] false (init_r c) [] [] [] false false in
  match yrun 200 65536 c y1 ([SOp (OFramed m)] ++ [SArrive 100000] ++ repeat SPoll 8) with
  | Some y => ys_res y = [(WOk, 3)] /\ frames_of (ys_outs y) = [m] /\ ys_bad y = false /\
              y_out (g_car (ys_g y)) = [2; 98; 1500; 1500; 902]
  | None => False
  end.
Proof. vm_compute. repeat split; reflexivity. Qed.
