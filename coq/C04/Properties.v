(* C04 — pinned property theorems. This file contains statements, `exact`, Print Assumptions and
   non-vacuity Examples only. The pins in tools/pins/C04.v re-check the statements.
   The model (Model.v) follows src/substream/mod.rs after the `fix:` commits F-C04a..f. *)
From Coq Require Import List NArith Bool.
From V.gen Require Consts.
From V.C04 Require Import Model Proofs.
Import ListNotations.
Open Scope N_scope.

(* Receiver totality: for every codec, every byte stream (well-formed or not), every carrier
   script (fragmentation, stalls, end of stream, errors) and every number of polls — including
   polls after an error was reported — poll_next never panics, and the read buffer never exceeds
   max(configured size, 1024) bytes (no allocation from an unchecked announced length). *)
Theorem C04_receiver_total :
  forall (c : codec) (wire : list N) (script : list rdev) (polls : nat),
  let '(outs, st', _, _) := run_reader polls c (init_r c) wire script in
  ~ In RPanic outs /\ Alloc c st'.
Proof. exact receiver_total. Qed.
Print Assumptions C04_receiver_total.

(* A malformed (non-minimal / more than 10 bytes) or oversized length prefix is answered with
   ReadFailure, without allocating, and the length cursor restarts. *)
Theorem C04_receiver_rejects :
  forall (mx : option N) (st : rstate) (b : N),
  cur st = None ->
  match read_payload_size (filled st ++ [b]) with
  | RpsDecodeErr | RpsOverflow =>
      on_data (Varint mx) st [b] = (mkR (buf_len st) [] None, Some RFail)
  | RpsOk size nb =>
      nb = lenN (filled st ++ [b]) -> (exists m, mx = Some m /\ m < size) ->
      on_data (Varint mx) st [b] = (mkR (buf_len st) [] None, Some RFail)
  | RpsNotEnough => True
  end.
Proof. exact receiver_rejects. Qed.
Print Assumptions C04_receiver_rejects.

(* Reader round trip: if the wire carries (a prefix `wire` of) the encoding of msgs, then for
   every fragmentation / stall / error script and every number of polls the frames returned are,
   in order, an initial segment of msgs, no poll panics or reports ReadFailure; and once the whole
   encoding has been delivered and consumed, exactly msgs has been returned. *)
Theorem C04_reader_roundtrip :
  forall (c : codec) (msgs : list (list N)) (wire tail : list N) (script : list rdev) (polls : nat)
         outs st' wire' script',
  Fits c msgs -> wire ++ tail = wire_of c msgs ->
  run_reader polls c (init_r c) wire script = (outs, st', wire', script') ->
  ~ In RPanic outs /\ ~ In RFail outs /\
  exists rest, msgs = frames_of outs ++ rest /\
               (c <> Identity 0 -> tail = [] -> wire' = [] -> rest = []).
Proof. exact reader_roundtrip. Qed.
Print Assumptions C04_reader_roundtrip.

(* A message that does not fit the codec is refused by both send APIs with PermissionDenied and
   none of its bytes reaches the carrier. (send_framed first writes out what the Sink had queued;
   with nothing queued it returns at once without any carrier call.) *)
Theorem C04_sender_refuses :
  forall (c : codec) (w : wstate) (m : list N) (script : list wev) (sent0 : list N) r np w' sent' script',
  fitsb c m = false ->
  start_send c w m = (WDenied, w) /\
  (send_framed c script w m sent0 = (r, np, w', sent', script') -> pbytes w = lenN (qbytes w) ->
   r <> WOk /\ sent' ++ qbytes w' = sent0 ++ qbytes w /\
   (queue_nonempty w = false -> r = WDenied /\ sent' = sent0 /\ script' = script /\ w' = w)).
Proof. exact sender_refuses. Qed.
Print Assumptions C04_sender_refuses.

(* poll_flush, whatever the carrier does — stalls, errors, accepting 0 bytes — only moves bytes
   from the head of the queue to the carrier (nothing lost, duplicated, reordered; a frame whose
   write failed stays queued at the position reached), and reports Ready(Ok) only when nothing at
   all is queued any more. *)
Theorem C04_flush_complete :
  forall (script : list wev) (w : wstate) (sent0 : list N) r w' sent' script',
  flush script w sent0 = (r, w', sent', script') ->
  pbytes w = lenN (qbytes w) ->
  (exists d, sent' = sent0 ++ d) /\
  pbytes w' = lenN (qbytes w') /\ sent' ++ qbytes w' = sent0 ++ qbytes w /\
  (r = WOk -> frames w' = [] /\ curf w' = None /\ pbytes w' = 0).
Proof. exact flush_spec. Qed.
Print Assumptions C04_flush_complete.

(* Both send paths, freely mixed, with poll_ready / poll_flush / poll_close / close in any order
   and any carrier behaviour (stalls, errors, zero-length accepts): as long as every send_framed
   call ran to completion (Ok or PermissionDenied), what the carrier holds followed by what is
   queued is exactly the concatenation of the encodings of the accepted messages, in the order of
   the calls — whole frames, each exactly once, never interleaved, never overtaking. *)
Theorem C04_mixed_paths_in_order :
  forall (bp : N) (c : codec) (script : list wev) (ops : list op) rs s',
  run_ops bp c (init_sys script) ops = (rs, s') ->
  Forall2 good ops rs ->
  pbytes (ws s') = lenN (qbytes (ws s')) /\
  sent s' ++ qbytes (ws s') = wire_of c (accepted c ops).
Proof. exact mixed_stream. Qed.
Print Assumptions C04_mixed_paths_in_order.

(* ... and when such a history ends with a poll_flush that reports completion, the whole
   encoding is with the carrier: the peer needs no further action by the sender. *)
Theorem C04_hist_flush_complete :
  forall (bp : N) (c : codec) (script : list wev) (ops : list op) rs r s',
  run_ops bp c (init_sys script) (ops ++ [OFlush]) = (rs ++ [r], s') ->
  Forall2 good ops rs -> fst r = WOk ->
  sent s' = wire_of c (accepted c ops) /\
  frames (ws s') = [] /\ curf (ws s') = None /\ pbytes (ws s') = 0.
Proof. exact hist_flush_complete. Qed.
Print Assumptions C04_hist_flush_complete.

(* send_framed from any Sink state: the queued bytes go out first, then a prefix of the frame —
   the whole frame, with nothing left queued, exactly when Ok is returned. *)
Theorem C04_send_framed_complete :
  forall (c : codec) (script : list wev) (w : wstate) (m : list N) (sent0 : list N) r np w' sent' script',
  send_framed c script w m sent0 = (r, np, w', sent', script') ->
  pbytes w = lenN (qbytes w) ->
  pbytes w' = lenN (qbytes w') /\
  (exists d e, sent' ++ qbytes w' = sent0 ++ qbytes w ++ d /\ frame c m = d ++ e /\
               (r = WOk -> e = [] /\ qbytes w' = []) /\ (fitsb c m = false -> d = [])) /\
  (r = WOk -> fitsb c m = true) /\ (r = WDenied -> fitsb c m = false).
Proof. exact send_framed_spec. Qed.
Print Assumptions C04_send_framed_complete.

(* Closing. Sink::poll_close is poll_shutdown of the carrier and Substream::close(self) is its
   shutdown: a close call hands no byte to the carrier and does not touch the queue (frames that
   were only start_send'ed are not written by it — callers flush first); the carrier has completed
   a shutdown exactly when poll_close reports Ok. *)
Theorem C04_close_sends_nothing :
  forall (script : list wev) (w : wstate) (sent0 : list N),
  (forall r w' sent' script' sh,
     poll_close script w sent0 = (r, w', sent', script', sh) ->
     w' = w /\ sent' = sent0 /\ (r = WOk <-> sh = true)) /\
  (forall r np w' sent' script' sh,
     close_all script w sent0 = (r, np, w', sent', script', sh) ->
     w' = w /\ sent' = sent0 /\ (r = WOk -> Forall clean_ev script -> sh = true)).
Proof. intros; split; intros; [eapply poll_close_spec|eapply close_all_spec]; eassumption. Qed.
Print Assumptions C04_close_sends_nothing.

(* A history whose last flush reported completion, then a poll_close that reports completion:
   everything handed over is with the carrier, nothing is queued, the carrier is shut down
   (after the last byte). *)
Theorem C04_close_after_flush_complete :
  forall (bp : N) (c : codec) (script : list wev) (ops : list op) rs rf rc s',
  run_ops bp c (init_sys script) (ops ++ [OFlush; OClose]) = (rs ++ [rf; rc], s') ->
  Forall2 good ops rs -> fst rf = WOk -> fst rc = WOk ->
  sent s' = wire_of c (accepted c ops) /\ qbytes (ws s') = [] /\ shut s' = true.
Proof. exact hist_close_after_flush. Qed.
Print Assumptions C04_close_after_flush_complete.

(* The same for Substream::close(self), which ignores errors: over a carrier that does not fail. *)
Theorem C04_close_all_after_flush_complete :
  forall (bp : N) (c : codec) (script : list wev) (ops : list op) rs rf s1 np w' sent' script' sh,
  run_ops bp c (init_sys script) (ops ++ [OFlush]) = (rs ++ [rf], s1) ->
  Forall2 good ops rs -> fst rf = WOk ->
  close_all (wscript s1) (ws s1) (sent s1) = (WOk, np, w', sent', script', sh) ->
  Forall clean_ev (wscript s1) ->
  sent' = wire_of c (accepted c ops) /\ qbytes w' = [] /\ sh = true.
Proof. exact hist_close_all_after_flush. Qed.
Print Assumptions C04_close_all_after_flush_complete.

(* Observation (not a defect of the property: C04 speaks about sends and flushes reported
   complete): a message that was start_send'ed but never flushed is dropped by close — the close
   succeeds, the carrier is shut down, nothing was sent. *)
Example C04_close_drops_unflushed :
  let c := Varint None in
  let '(rs, s') := run_ops 65536 c (init_sys (repeat (WChunk 100) 5)) [OSend (repeat 9 10); OClose] in
  map fst rs = [WOk; WOk] /\ shut s' = true /\ sent s' = [] /\ pbytes (ws s') = 11.
Proof. vm_compute. repeat split; reflexivity. Qed.

(* Backpressure: poll_ready answers Ready(Ok) only with fewer than BACKPRESSURE_BOUNDARY bytes
   queued, so the queue never exceeds the boundary by more than one frame. *)
Theorem C04_backpressure :
  forall (bp : N) (script : list wev) (w : wstate) (sent0 : list N) w' sent' script',
  0 < bp -> pbytes w = lenN (qbytes w) ->
  poll_ready bp script w sent0 = (WOk, w', sent', script') -> pbytes w' < bp.
Proof. exact backpressure. Qed.
Print Assumptions C04_backpressure.

(* End to end: any history of the six operations over any write script (every send_framed run
   to completion), then any reader schedule over what reached the carrier: frames come out as an
   initial segment of the accepted messages in call order, never a panic or a ReadFailure, and
   equal to them once everything was flushed and read. *)
Theorem C04_roundtrip :
  forall (bp : N) (c : codec) (wscript : list wev) (ops : list op) rs s'
         (rscript : list rdev) (polls : nat) outs st' wire' script',
  Forall small_op ops ->
  run_ops bp c (init_sys wscript) ops = (rs, s') ->
  Forall2 good ops rs ->
  run_reader polls c (init_r c) (sent s') rscript = (outs, st', wire', script') ->
  ~ In RPanic outs /\ ~ In RFail outs /\
  exists rest, accepted c ops = frames_of outs ++ rest /\
               (c <> Identity 0 -> qbytes (ws s') = [] -> wire' = [] -> rest = []).
Proof. exact roundtrip_mixed. Qed.
Print Assumptions C04_roundtrip.

(* Carrier errors are reported by the call that met them: a poll_flush that answers Ok or Pending
   consumed no error event; the same for the write_all/flush loop of send_framed. *)
Theorem C04_write_error_reported :
  forall (script : list wev) (w : wstate) (sent0 : list N) r w' sent' script',
  flush script w sent0 = (r, w', sent', script') -> r <> WIo ->
  exists pre, script = pre ++ script' /\ Forall (fun e => e <> WErr) pre.
Proof. exact flush_err_reported. Qed.
Print Assumptions C04_write_error_reported.

Theorem C04_send_framed_error_reported :
  forall (ident : bool) (script : list wev) (bufs : list (list N)) (sent0 : list N) np r np' sent' script',
  sf_run ident script bufs sent0 np = (r, np', sent', script') -> r = WOk \/ r = WPend ->
  exists pre, script = pre ++ script' /\ Forall (fun e => e <> WErr) pre.
Proof. exact sf_run_err_reported. Qed.
Print Assumptions C04_send_framed_error_reported.

(* Wake-ups: poll_flush / poll_next answer Pending only when their last carrier call answered
   Pending (a Pending event consumed last, or the exhausted script, which answers Pending): the
   carrier then holds the caller's waker. (The harness checks the same on the real code, with the
   waker identity.) *)
Theorem C04_pending_has_waker_write :
  forall (script : list wev) (w : wstate) (sent0 : list N) w' sent' script',
  flush script w sent0 = (WPend, w', sent', script') ->
  (exists pre, script = pre ++ WPending :: script') \/ script' = [].
Proof. exact flush_pending. Qed.
Print Assumptions C04_pending_has_waker_write.

Theorem C04_pending_has_waker_read :
  forall (c : codec) (script : list rdev) (st : rstate) (wire : list N) st' wire' script',
  poll_next c st wire script = (RPend, st', wire', script') ->
  (exists pre, script = pre ++ EvPending :: script') \/ script' = [].
Proof. exact poll_next_pending. Qed.
Print Assumptions C04_pending_has_waker_read.

(* Identity(0), as the code behaves: the reader never delivers a frame (a zero-length read is
   taken for end of stream) and consumes nothing. *)
Theorem C04_identity_zero :
  forall (polls : nat) (wire : list N) (script : list rdev) outs st' wire' script',
  run_reader polls (Identity 0) (init_r (Identity 0)) wire script = (outs, st', wire', script') ->
  frames_of outs = [] /\ Forall (fun o => o = RPend \/ o = RClosed \/ o = RIoErr) outs /\ wire' = wire.
Proof. exact identity_zero. Qed.
Print Assumptions C04_identity_zero.

(* UnsignedVarint(None), as the code behaves: every announced length 0 < n < 2^64 is allocated
   as the read buffer as soon as its last length byte arrives, before any payload (the memory
   bound of C04_receiver_total exists only for UnsignedVarint(Some max); see also C19). *)
Theorem C04_varint_none_unbounded_alloc :
  forall n, 0 < n -> n < USIZE_MOD ->
  let e := varint_enc n in
  let '(outs, st', _, _) := run_reader 1 (Varint None) (init_r (Varint None)) e (repeat (EvChunk 1) (length e)) in
  outs = [RPend] /\ buf_len st' = n /\ filled st' = [].
Proof. exact none_unbounded_alloc. Qed.
Print Assumptions C04_varint_none_unbounded_alloc.

(* flush_all's fuel is a modelling device: any fuel above the script length gives the same run *)
Theorem C04_flush_all_fuel_adequate :
  forall fuel fuel' (script : list wev) (w : wstate) (sent0 : list N) np,
  (length script < fuel)%nat -> (length script < fuel')%nat ->
  flush_all fuel script w sent0 np = flush_all fuel' script w sent0 np.
Proof. exact flush_all_fuel. Qed.
Print Assumptions C04_flush_all_fuel_adequate.

(* The unsigned-varint length prefix: decoding the encoding gives the length back, and no proper
   prefix of an encoding decodes. *)
Theorem C04_varint_roundtrip :
  forall n, n < USIZE_MOD -> read_payload_size (varint_enc n) = RpsOk n (lenN (varint_enc n)).
Proof. exact rps_enc. Qed.
Print Assumptions C04_varint_roundtrip.

(* ---- the constants the model relies on are those of the source (regenerated on every run) ---- *)
Example C04_consts :
  Consts.SUBSTREAM_READ_BUFFER_INIT = 1024 /\ Consts.SUBSTREAM_READ_BUFFER_INIT_OTHER = 1024 /\
  Consts.SUBSTREAM_SIZE_VEC_LEN = 10 /\ 0 < Consts.BACKPRESSURE_BOUNDARY.
Proof. vm_compute. repeat split; reflexivity. Qed.

(* ---- non-vacuity ---- *)
(* three messages through the sink under UnsignedVarint(Some 300), carrier taking 3 bytes at a
   time with a stall, reader fed 2 bytes at a time: all three come out *)
Example C04_nonvacuous_roundtrip :
  let c := Varint (Some 300) in
  let m1 := repeat 7 200 in let m2 := [] in let m3 := repeat 9 130 in
  let ops := [OReady; OSend m1; OSend m2; OFlush; OSend m3; OSend (repeat 1 301)] ++ repeat OFlush 4 in
  let wscript := [WChunk 3; WPending] ++ repeat (WChunk 50) 12 in
  let '(rs, s') := run_ops 65536 c (init_sys wscript) ops in
  let '(outs, _, wire', _) := run_reader 400 c (init_r c) (sent s') (repeat (EvChunk 2) 400) in
  map fst rs = [WOk; WOk; WOk; WPend; WOk; WDenied; WOk; WOk; WPend; WPend] /\
  frames_of outs = [m1; m2; m3] /\ wire' = [].
Proof. vm_compute. repeat split; reflexivity. Qed.

(* mixed paths: a Sink frame is half written (carrier stalls after 3 bytes), then send_framed is
   called: it first completes the queued frame, then writes its own; a write error in between is
   reported and nothing is lost; the last message is flushed, then the substream is closed *)
Example C04_nonvacuous_mixed :
  let c := Varint None in
  let a := repeat 9 50 in let b := repeat 20 4 in let d := repeat 30 5 in
  let ops := [OSend a; OFlush; OFramed b; OSend d; OFlush; OFlush; OClose] in
  let wscript := [WChunk 3; WPending] ++ repeat (WChunk 100) 5 ++ [WErr] ++ repeat (WChunk 100) 6 in
  let '(rs, s') := run_ops 65536 c (init_sys wscript) ops in
  let '(outs, _, wire', _) := run_reader 50 c (init_r c) (sent s') (repeat (EvChunk 1000) 50) in
  map fst rs = [WOk; WPend; WOk; WOk; WIo; WOk; WOk] /\
  sent s' = wire_of c [a; b; d] /\ shut s' = true /\ frames_of outs = [a; b; d].
Proof. vm_compute. repeat split; reflexivity. Qed.

(* Identity(2048) (above the 1024-byte initial buffer of the unrepaired code) reads a frame *)
Example C04_nonvacuous_identity_large :
  let c := Identity 2048 in
  let '(outs, _, _, _) := run_reader 3 c (init_r c) (repeat 5 2048) [EvChunk 1000; EvPending; EvChunk 4096] in
  outs = [RPend; RFrame (repeat 5 2048); RPend].
Proof. vm_compute. reflexivity. Qed.

(* ten continuation bytes: ReadFailure, and polling on does not panic *)
Example C04_nonvacuous_overlong_length :
  let c := Varint (Some 100) in
  let '(outs, _, _, _) := run_reader 3 c (init_r c) (repeat 200 40) (repeat (EvChunk 1) 24) in
  outs = [RFail; RFail; RPend].
Proof. vm_compute. reflexivity. Qed.
