(* C04 — proofs about the yamux stream model (Yamux.v). *)
From Coq Require Import List NArith Bool Lia ZifyBool ZifyNat ZifyN.
From V.C04 Require Import Model Proofs Carrier CarrierProofs Yamux.
Import ListNotations.
Open Scope N_scope.
Arguments N.add : simpl never.
Arguments N.sub : simpl never.
Arguments N.mul : simpl never.
Arguments N.eqb : simpl never.
Arguments N.ltb : simpl never.
Arguments N.leb : simpl never.
Arguments N.of_nat : simpl never.
Arguments N.to_nat : simpl never.
Arguments N.min : simpl never.
Arguments N.max : simpl never.

(* ------------------------------------------------------------------ the sending half *)

Definition grants (s : ystate) : N := sumN (map ye_grant (y_wakes s)).

(* not reset now, and no reset among the wake-ups to come *)
Definition yclean (s : ystate) : Prop :=
  y_open s = true /\ Forall (fun e => ye_rst e = false) (y_wakes s).

(* why a waiting writer is not woken any more: no wake-up is left, and it waits for credit or for
   the connection task *)
Definition ystalled (s : ystate) : Prop :=
  y_wakes s = [] /\ (y_credit s = 0 \/ Y_PARK <= y_q s).

(* poll_write: never more than offered, than the window, than one split; never nothing of a
   non-empty buffer; the window shrinks by exactly what was taken *)
Lemma y_write_spec s len a s' :
  y_write s len = (a, s') ->
  y_wakes s' = y_wakes s /\
  match a with
  | CAcc k => k <= len /\ k <= y_credit s /\ k <= Y_SPLIT /\ (0 < len -> 0 < k) /\
              y_credit s' + k = y_credit s /\ y_open s' = true /\ y_open s = true /\ y_out s' = y_out s ++ [k]
  | CPend => s' = s /\ (y_credit s = 0 \/ Y_PARK <= y_q s)
  | CErr => s' = s /\ y_open s = false
  end.
Proof.
  unfold y_write. destruct (Y_PARK <=? y_q s) eqn:Ep.
  { intros H. injection H as <- <-. split; [reflexivity|]. split; [reflexivity|]. right. lia. }
  destruct (y_open s) eqn:Eo; cbn [negb].
  2:{ intros H. injection H as <- <-. auto. }
  destruct (y_credit s =? 0) eqn:Ec.
  { intros H. injection H as <- <-. split; [reflexivity|]. split; [reflexivity|]. left. lia. }
  intros H. injection H as <- <-. cbn [y_wakes y_credit y_open y_out]. split; [reflexivity|].
  unfold Y_SPLIT. repeat split; try lia.
Qed.

Lemma y_flush_spec s a s' :
  y_flush s = (a, s') -> s' = s /\ a <> CErr /\ (a = CPend -> Y_PARK <= y_q s).
Proof.
  unfold y_flush. destruct (Y_PARK <=? y_q s) eqn:E; intros H; injection H as <- <-;
    (split; [reflexivity|]); (split; [discriminate|]); intros; try discriminate; lia.
Qed.

Lemma y_wake_spec s s' :
  y_wake s = Some s' ->
  exists e t, y_wakes s = e :: t /\ y_wakes s' = t /\ y_credit s' = y_credit s + ye_grant e /\
              y_open s' = (y_open s && negb (ye_rst e)) /\ y_q s' = 0.
Proof.
  unfold y_wake. destruct (y_wakes s) as [|e t] eqn:E; [discriminate|]. intros H. injection H as <-.
  exists e, t. cbn. auto.
Qed.

Lemma y_wake_none s : y_wake s = None -> y_wakes s = [].
Proof. unfold y_wake. destruct (y_wakes s); [reflexivity|discriminate]. Qed.

(* what a run of calls preserves: bytes sent + window + credit still to be granted is constant;
   cleanliness *)
Definition ykeep (s : ystate) (n0 : N) (s' : ystate) (n1 : N) : Prop :=
  n1 + y_credit s' + grants s' = n0 + y_credit s + grants s /\ (yclean s -> yclean s').

Lemma ykeep_refl s n : ykeep s n s n.
Proof. split; auto. Qed.

Lemma ykeep_trans s0 n0 s1 n1 s2 n2 : ykeep s0 n0 s1 n1 -> ykeep s1 n1 s2 n2 -> ykeep s0 n0 s2 n2.
Proof. intros (H1 & H2) (H3 & H4). split; [lia|auto]. Qed.

Lemma ykeep_write s len a s' n :
  y_write s len = (a, s') ->
  ykeep s n s' (n + match a with CAcc k => N.min k len | _ => 0 end).
Proof.
  intros H. destruct (y_write_spec _ _ _ _ H) as (Hw & Ha). unfold ykeep, grants, yclean. rewrite Hw.
  destruct a as [|k|].
  - destruct Ha as (-> & _). split; [lia|auto].
  - destruct Ha as (H1 & H2 & H3 & H4 & H5 & H6 & H7 & _). rewrite (N.min_l k len H1). split; [lia|].
    intros (_ & Hf). auto.
  - destruct Ha as (-> & _). split; [lia|auto].
Qed.

Lemma ykeep_wake s s' n : y_wake s = Some s' -> ykeep s n s' n.
Proof.
  intros H. destruct (y_wake_spec _ _ H) as (e & t & Hw & Hw' & Hc & Ho & _).
  unfold ykeep, grants, yclean. rewrite Hw, Hw', Hc, Ho. cbn [map sumN fold_right]. split; [unfold sumN; lia|].
  intros (Hop & Hf). inversion Hf as [|x y Hx Hy]; subst. rewrite Hop, Hx. auto.
Qed.

Lemma gflush_ykeep : forall fuel s w sent r w' sent' s' L,
  gflush YK fuel s w sent = Some (r, w', sent', s', L) ->
  ykeep s (lenN sent) s' (lenN sent') /\ (yclean s -> r <> WIo) /\
  (r = WPend -> y_credit s' = 0 \/ Y_PARK <= y_q s').
Proof.
  induction fuel as [|fu IH]; intros s w sent r w' sent' s' L H; [discriminate|].
  cbn [gflush] in H. destruct (take_frame w) as [[f w0]|] eqn:Etf.
  - cbn [YK c_write] in H. destruct (y_write s (lenN f)) as [a s1] eqn:Ew.
    pose proof (ykeep_write _ _ _ _ (lenN sent) Ew) as Hk. destruct (y_write_spec _ _ _ _ Ew) as (_ & Ha).
    destruct a as [|n|].
    + injection H as <- <- <- <- <-. rewrite N.add_0_r in Hk. split; [exact Hk|]. split; [discriminate|].
      intros _. destruct Ha as (-> & Ha). exact Ha.
    + destruct Ha as (H1 & H2 & H3 & H4 & _). rewrite (N.min_l n (lenN f) H1) in *.
      destruct ((n =? 0) && negb (is_nil f)) eqn:Ez.
      * (* never: a non-empty buffer is never answered with 0 *)
        exfalso. apply andb_true_iff in Ez. destruct Ez as (Ez1 & Ez2).
        destruct f; [discriminate|]. rewrite lenN_cons in H4. lia.
      * destruct (gflush YK fu s1 _ _) as [[[[[r1 w1] sn1] c1] L1]|] eqn:Er; [|discriminate].
        injection H as <- <- <- <- <-. destruct (IH _ _ _ _ _ _ _ _ Er) as (Hk2 & Hc2 & Hp2).
        rewrite lenN_app, lenN_takeN, (N.min_l n (lenN f) H1) in Hk2.
        split; [eapply ykeep_trans; eauto|]. split; [|exact Hp2].
        intros Hcl. apply Hc2. apply Hk. exact Hcl.
    + injection H as <- <- <- <- <-. rewrite N.add_0_r in Hk. split; [exact Hk|]. split; [|discriminate].
      intros (Hop & _). destruct Ha as (_ & Ha). congruence.
  - cbn [YK c_flush] in H. destruct (y_flush s) as [a s1] eqn:Ef.
    destruct (y_flush_spec _ _ _ Ef) as (-> & Hne & Hp). injection H as <- <- <- <- <-.
    split; [apply ykeep_refl|]. split; [destruct a; congruence|]. intros Hr. right. apply Hp. destruct a; congruence.
Qed.

Lemma gflush_all_ykeep : forall fuel s w sent np r np' w' sent' s' L ab,
  gflush_all YK fuel s w sent np = Some (r, np', w', sent', s', L, ab) ->
  ykeep s (lenN sent) s' (lenN sent') /\ (yclean s -> r <> WIo) /\ (ab = true -> ystalled s').
Proof.
  induction fuel as [|fu IH]; intros s w sent np r np' w' sent' s' L ab H; [discriminate|].
  cbn [gflush_all] in H.
  destruct (gflush YK (flush_fuel w) s w sent) as [[[[[r1 w1] s1] c1] L1]|] eqn:Ef; [|discriminate].
  destruct (gflush_ykeep _ _ _ _ _ _ _ _ _ Ef) as (Hk1 & Hc1 & Hp1).
  destruct r1; try (injection H as <- <- <- <- <- <- <-; split; [exact Hk1|]; split; [exact Hc1|discriminate]).
  cbn [YK c_wake] in H. destruct (y_wake c1) as [c2|] eqn:Ew.
  - destruct (gflush_all YK fu c2 w1 s1 (np + 1)) as [[[[[[[r2 np2] w2] sn2] c3] L2] ab2]|] eqn:Er; [|discriminate].
    injection H as <- <- <- <- <- <- <-. destruct (IH _ _ _ _ _ _ _ _ _ _ _ Er) as (Hk2 & Hc2 & Ha2).
    pose proof (ykeep_wake _ _ (lenN s1) Ew) as Hkw.
    split; [eapply ykeep_trans; [exact Hk1|eapply ykeep_trans; eauto]|]. split; [|exact Ha2].
    intros Hcl. apply Hc2. apply Hkw. apply Hk1. exact Hcl.
  - injection H as <- <- <- <- <- <- <-. split; [exact Hk1|]. split; [discriminate|].
    intros _. split; [apply y_wake_none; exact Ew|]. apply Hp1. reflexivity.
Qed.

Lemma gsf_run_ykeep : forall fuel ident s bufs sent np r np' sent' s' L ab,
  gsf_run YK fuel ident s bufs sent np = Some (r, np', sent', s', L, ab) ->
  Forall (fun b => b <> []) bufs ->
  ykeep s (lenN sent) s' (lenN sent') /\ (yclean s -> r <> WIo /\ r <> WClosed) /\ (ab = true -> ystalled s').
Proof.
  induction fuel as [|fu IH]; intros ident s bufs sent np r np' sent' s' L ab H Hne; [discriminate|].
  cbn [gsf_run] in H. destruct bufs as [|b bufs'].
  - cbn [YK c_flush c_wake] in H. destruct (y_flush s) as [a s1] eqn:Ef.
    destruct (y_flush_spec _ _ _ Ef) as (-> & Hnerr & Hp). destruct a as [|k|]; [|
      injection H as <- <- <- <- <- <-; split; [apply ykeep_refl|]; split; [split; discriminate|discriminate] |
      congruence].
    destruct (y_wake s) as [s2|] eqn:Ew.
    + destruct (gsf_run YK fu ident s2 [] sent (np + 1)) as [[[[[[r2 np2] sn2] c2] L2] ab2]|] eqn:Er; [|discriminate].
      injection H as <- <- <- <- <- <-. destruct (IH _ _ _ _ _ _ _ _ _ _ _ Er Hne) as (Hk2 & Hc2 & Ha2).
      pose proof (ykeep_wake _ _ (lenN sent) Ew) as Hkw.
      split; [eapply ykeep_trans; eauto|]. split; [|exact Ha2]. intros Hcl. apply Hc2. apply Hkw. exact Hcl.
    + injection H as <- <- <- <- <- <-. split; [apply ykeep_refl|]. split; [split; discriminate|].
      intros _. split; [apply y_wake_none; exact Ew|]. right. apply Hp. reflexivity.
  - cbn [YK c_write c_wake] in H. destruct (y_write s (lenN b)) as [a s1] eqn:Ew0.
    pose proof (ykeep_write _ _ _ _ (lenN sent) Ew0) as Hk. destruct (y_write_spec _ _ _ _ Ew0) as (_ & Ha).
    inversion Hne as [|x y Hb Hbs]; subst.
    destruct a as [|n|].
    + destruct Ha as (-> & Hwhy). rewrite N.add_0_r in Hk.
      destruct (y_wake s) as [s2|] eqn:Ew.
      * destruct (gsf_run YK fu ident s2 (b :: bufs') sent (np + 1)) as [[[[[[r2 np2] sn2] c2] L2] ab2]|] eqn:Er; [|discriminate].
        injection H as <- <- <- <- <- <-. destruct (IH _ _ _ _ _ _ _ _ _ _ _ Er Hne) as (Hk2 & Hc2 & Ha2).
        pose proof (ykeep_wake _ _ (lenN sent) Ew) as Hkw.
        split; [eapply ykeep_trans; eauto|]. split; [|exact Ha2]. intros Hcl. apply Hc2. apply Hkw. exact Hcl.
      * injection H as <- <- <- <- <- <-. split; [apply ykeep_refl|]. split; [split; discriminate|].
        intros _. split; [apply y_wake_none; exact Ew|exact Hwhy].
    + destruct Ha as (H1 & H2 & H3 & H4 & _). rewrite (N.min_l n (lenN b) H1) in *.
      assert (Hpos : 0 < n). { apply H4. destruct b; [congruence|rewrite lenN_cons; lia]. }
      replace (n =? 0) with false in H by lia.
      destruct (gsf_run YK fu ident s1 _ _ np) as [[[[[[r2 np2] sn2] c2] L2] ab2]|] eqn:Er; [|discriminate].
      injection H as <- <- <- <- <- <-.
      assert (Hne2 : Forall (fun b0 : list N => b0 <> []) (if is_nil (dropN n b) then bufs' else dropN n b :: bufs')).
      { destruct (is_nil (dropN n b)) eqn:En; [exact Hbs|]. constructor; [apply is_nil_false; exact En|exact Hbs]. }
      destruct (IH _ _ _ _ _ _ _ _ _ _ _ Er Hne2) as (Hk2 & Hc2 & Ha2).
      rewrite lenN_app, lenN_takeN, (N.min_l n (lenN b) H1) in Hk2.
      split; [eapply ykeep_trans; eauto|]. split; [|exact Ha2]. intros Hcl. apply Hc2. apply Hk. exact Hcl.
    + injection H as <- <- <- <- <- <-. rewrite N.add_0_r in Hk. split; [exact Hk|]. split; [|discriminate].
      intros (Hop & _). destruct Ha as (_ & Ha). congruence.
Qed.

Lemma bufs_nonempty c m :
  Forall (fun b => b <> [])
    (match c with
     | Identity _ => filter (fun b => negb (is_nil b)) [m]
     | Varint _ => filter (fun b => negb (is_nil b)) [varint_enc (lenN m); m]
     end).
Proof.
  assert (H : forall l : list (list N), Forall (fun b => b <> []) (filter (fun b => negb (is_nil b)) l)).
  { induction l as [|x l IH]; [constructor|]. cbn [filter]. destruct x; cbn [is_nil negb]; [exact IH|].
    constructor; [discriminate|exact IH]. }
  destruct c; apply H.
Qed.

(* send_framed over the yamux stream *)
Lemma gsend_framed_ykeep fuel c s w m sent r np w' sent' s' L ab :
  gsend_framed YK fuel c s w m sent = Some (r, np, w', sent', s', L, ab) ->
  ykeep s (lenN sent) s' (lenN sent') /\ (yclean s -> r <> WIo /\ r <> WClosed) /\ (ab = true -> ystalled s').
Proof.
  unfold gsend_framed. intros H.
  assert (Hpre : exists r0 np0 w1 s1 c1 L1 ab1,
             (if queue_nonempty w then gflush_all YK fuel s w sent 0 else Some (WOk, 0, w, sent, s, [], false)) =
             Some (r0, np0, w1, s1, c1, L1, ab1) /\
             ykeep s (lenN sent) c1 (lenN s1) /\ (yclean s -> r0 <> WIo) /\ (ab1 = true -> ystalled c1) /\
             r0 <> WClosed).
  { destruct (queue_nonempty w).
    - destruct (gflush_all YK fuel s w sent 0) as [[[[[[[r0 np0] w1] s1] c1] L1] ab1]|] eqn:Ef; [|discriminate].
      destruct (gflush_all_ykeep _ _ _ _ _ _ _ _ _ _ _ _ Ef) as (Hk & Hc & Ha).
      exists r0, np0, w1, s1, c1, L1, ab1. split; [reflexivity|]. split; [exact Hk|]. split; [exact Hc|]. split; [exact Ha|].
      apply gflush_all_sim in Ef. destruct Ef as (_ & Hs).
      specialize (Hs [] (Datatypes.S (length (L1 ++ []))) (fun _ => eq_refl) (le_n _)).
      apply flush_all_res in Hs. destruct Hs as [->|[->| ->]]; discriminate.
    - exists WOk, 0, w, sent, s, [], false. split; [reflexivity|]. split; [apply ykeep_refl|].
      split; [discriminate|]. split; discriminate. }
  destruct Hpre as (r0 & np0 & w1 & s1 & c1 & L1 & ab1 & Hq & Hk1 & Hc1 & Ha1 & Hnc). rewrite Hq in H.
  destruct r0; try (injection H as <- <- <- <- <- <- <-; split; [exact Hk1|]; split; [|exact Ha1];
                    intros Hcl; split; [first [discriminate|exact (Hc1 Hcl)]|first [discriminate|exact Hnc]]).
  destruct (fitsb c m).
  - destruct (gsf_run YK fuel _ c1 _ s1 np0) as [[[[[[r2 np2] sn2] c2] L2] ab2]|] eqn:Er; [|discriminate].
    injection H as <- <- <- <- <- <- <-.
    destruct (gsf_run_ykeep _ _ _ _ _ _ _ _ _ _ _ _ Er (bufs_nonempty c m)) as (Hk2 & Hc2 & Ha2).
    split; [eapply ykeep_trans; eauto|]. split; [|exact Ha2]. intros Hcl. apply Hc2. apply Hk1. exact Hcl.
  - injection H as <- <- <- <- <- <- <-. split; [exact Hk1|]. split; [intros _; split; discriminate|discriminate].
Qed.

Definition ycred (s : ystate) (n0 : N) (s' : ystate) (n1 : N) : Prop :=
  n1 + y_credit s' + grants s' = n0 + y_credit s + grants s.

Lemma y_shut_cred s a s' n : y_shut s = (a, s') -> ycred s n s' n /\ (a = CPend -> Y_PARK <= y_q s' /\ s' = s).
Proof.
  unfold y_shut, ycred, grants. destruct (y_rstd s).
  { intros H; injection H as <- <-. split; [reflexivity|discriminate]. }
  destruct (Y_PARK <=? y_q s) eqn:E; intros H; injection H as <- <-; cbn.
  - split; [reflexivity|]. intros _. split; [lia|reflexivity].
  - split; [reflexivity|discriminate].
Qed.

Lemma gshutdown_all_ycred : forall fuel s np r np' sh s' L ab n,
  gshutdown_all YK fuel s np = Some (r, np', sh, s', L, ab) ->
  ycred s n s' n /\ (ab = true -> ystalled s').
Proof.
  induction fuel as [|fu IH]; intros s np r np' sh s' L ab n H; [discriminate|].
  cbn [gshutdown_all YK c_shut c_wake] in H. destruct (y_shut s) as [a s1] eqn:Es.
  destruct (y_shut_cred _ _ _ n Es) as (Hc & Hp). destruct a as [|k|].
  - destruct (Hp eq_refl) as (Hq & ->). destruct (y_wake s) as [s2|] eqn:Ew.
    + destruct (gshutdown_all YK fu s2 (np + 1)) as [[[[[[r2 np2] sh2] c2] L2] ab2]|] eqn:Er; [|discriminate].
      injection H as <- <- <- <- <- <-. destruct (IH _ _ _ _ _ _ _ _ n Er) as (Hc2 & Ha2).
      split; [|exact Ha2]. destruct (ykeep_wake _ _ n Ew) as (Hkw & _). unfold ycred in *. lia.
    + injection H as <- <- <- <- <- <-. split; [exact Hc|]. intros _. split; [apply y_wake_none; exact Ew|]. right. exact Hq.
  - injection H as <- <- <- <- <- <-. split; [exact Hc|discriminate].
  - injection H as <- <- <- <- <- <-. split; [exact Hc|discriminate].
Qed.

Definition not_close (o : op) : Prop := match o with OClose | OCloseAll => False | _ => True end.

(* one operation over the yamux stream *)
Lemma gstep_yamux fuel bp c g o r g1 L ab :
  gstep YK fuel bp c g o = Some (r, g1, L, ab) ->
  ycred (g_car g) (lenN (g_sent g)) (g_car g1) (lenN (g_sent g1)) /\
  (not_close o -> yclean (g_car g) -> yclean (g_car g1) /\ fst r <> WIo /\ fst r <> WClosed) /\
  (ab = true -> ystalled (g_car g1)).
Proof.
  intros H. destruct o as [|m| |m| |]; cbn [gstep] in H.
  - unfold gpoll_ready in H. destruct (bp <=? pbytes (g_ws g)).
    + destruct (gflush YK _ (g_car g) (g_ws g) (g_sent g)) as [[[[[r1 w1] sn1] c1] L1]|] eqn:E; [|discriminate].
      injection H as <- <- <- <-. destruct (gflush_ykeep _ _ _ _ _ _ _ _ _ E) as ((Hk & Hcl) & Hc & _).
      cbn [g_car g_sent fst]. split; [exact Hk|]. split; [|discriminate].
      intros _ Hy. split; [auto|]. split; [auto|]. apply gflush_sim in E. destruct E as (_ & E).
      specialize (E []). apply flush_res in E. destruct E as [->|[->| ->]]; discriminate.
    + injection H as <- <- <- <-. cbn [g_car g_sent fst]. split; [reflexivity|]. split; [|discriminate].
      intros _ Hy. split; [exact Hy|]. split; discriminate.
  - destruct (start_send c (g_ws g) m) as [r1 w1] eqn:E. injection H as <- <- <- <-. cbn [g_car g_sent fst].
    split; [reflexivity|]. split; [|discriminate]. intros _ Hy. split; [exact Hy|].
    unfold start_send in E. destruct (fitsb c m); [destruct c|]; injection E as <- _; split; discriminate.
  - destruct (gflush YK _ (g_car g) (g_ws g) (g_sent g)) as [[[[[r1 w1] sn1] c1] L1]|] eqn:E; [|discriminate].
    injection H as <- <- <- <-. destruct (gflush_ykeep _ _ _ _ _ _ _ _ _ E) as ((Hk & Hcl) & Hc & _).
    cbn [g_car g_sent fst]. split; [exact Hk|]. split; [|discriminate].
    intros _ Hy. split; [auto|]. split; [auto|]. apply gflush_sim in E. destruct E as (_ & E).
    specialize (E []). apply flush_res in E. destruct E as [->|[->| ->]]; discriminate.
  - destruct (gsend_framed YK fuel c (g_car g) (g_ws g) m (g_sent g)) as [[[[[[[r1 np1] w1] sn1] c1] L1] ab1]|] eqn:E; [|discriminate].
    injection H as <- <- <- <-. destruct (gsend_framed_ykeep _ _ _ _ _ _ _ _ _ _ _ _ _ E) as ((Hk & Hcl) & Hc & Ha).
    cbn [g_car g_sent fst]. split; [exact Hk|]. split; [|exact Ha]. intros _ Hy. split; [auto|]. apply Hc. exact Hy.
  - unfold gpoll_close in H. cbn [YK c_shut] in H. destruct (y_shut (g_car g)) as [a s1] eqn:Es.
    injection H as <- <- <- <-. cbn [g_car g_sent]. split; [apply (y_shut_cred _ _ _ _ Es)|]. split; [intros []|discriminate].
  - destruct (gshutdown_all YK fuel (g_car g) 0) as [[[[[[r1 np1] sh1] c1] L1] ab1]|] eqn:E; [|discriminate].
    injection H as <- <- <- <-. cbn [g_car g_sent]. destruct (gshutdown_all_ycred _ _ _ _ _ _ _ _ _ (lenN (g_sent g)) E) as (Hc & Ha).
    split; [exact Hc|]. split; [intros []|exact Ha].
Qed.

(* ------------------------------------------------------------------ the receiving half *)

Lemma ypoll_sim : forall fuel c st rbuf fin o st' rbuf',
  (length rbuf < fuel)%nat ->
  ypoll fuel c st rbuf fin = (o, st', rbuf') ->
  poll_next c st rbuf (yscript fuel c st rbuf fin) = (o, st', rbuf', []).
Proof.
  induction fuel as [|fu IH]; intros c st rbuf fin o st' rbuf' Hl H; [lia|].
  cbn [ypoll] in H. cbn [yscript]. destruct (want c st) as [cap|] eqn:Ew.
  - destruct (is_nil rbuf || (cap =? 0)) eqn:En.
    + injection H as <- <- <-. destruct fin; cbn [poll_next]; rewrite Ew; reflexivity.
    + apply orb_false_iff in En. destruct En as (En1 & En2). apply is_nil_false in En1.
      assert (Hk : N.min (lenN rbuf) (N.min cap (lenN rbuf)) = N.min cap (lenN rbuf)) by lia.
      destruct (on_data c st (takeN (N.min cap (lenN rbuf)) rbuf)) as [st1 o1] eqn:Eo.
      cbn [poll_next]. rewrite Ew, Hk, Eo. destruct o1 as [r|].
      * injection H as <- <- <-. reflexivity.
      * apply IH; [|exact H].
        pose proof (lenN_dropN (N.min cap (lenN rbuf)) rbuf) as Hd.
        assert (0 < lenN rbuf) by (destruct rbuf; [congruence|rewrite lenN_cons; lia]).
        unfold lenN in *. lia.
  - injection H as <- <- <-. cbn [poll_next]. rewrite Ew. reflexivity.
Qed.

Lemma ypoll_rinv c tail st rbuf fin rest o st' rbuf' :
  Fits c rest -> RInv c tail st rbuf rest ->
  ypoll (S (length rbuf)) c st rbuf fin = (o, st', rbuf') ->
  match o with
  | RFrame m => exists rest', rest = m :: rest' /\ RInv c tail st' rbuf' rest'
  | RPend | RClosed | RIoErr => RInv c tail st' rbuf' rest
  | RFail | RPanic => False
  end.
Proof.
  intros Hf Hi H. apply ypoll_sim in H; [|lia]. exact (poll_next_rinv _ _ _ _ _ _ _ _ _ _ Hf Hi H).
Qed.

(* more bytes arrive *)
Lemma rinv_arrive c d tail st wire rest :
  RInv c (d ++ tail) st wire rest -> RInv c tail st (wire ++ d) rest.
Proof.
  unfold RInv. intros (Hs & Ha & Hc). split; [exact Hs|]. split; [exact Ha|].
  destruct c as [n|mx].
  - rewrite <- app_assoc. exact Hc.
  - destruct (cur st) as [fs|].
    + destruct Hc as (m & rest' & e & H1 & H2 & H3 & H4 & H5). exists m, rest', e.
      rewrite <- app_assoc. auto.
    + destruct Hc as (Hc & Hp). split; [rewrite <- app_assoc; exact Hc|exact Hp].
Qed.

(* one more message is handed over at the sending end *)
Lemma rinv_extend c tail st wire rest more :
  RInv c tail st wire rest -> RInv c (tail ++ wire_of c more) st wire (rest ++ more).
Proof.
  unfold RInv. intros (Hs & Ha & Hc). split; [exact Hs|]. split; [exact Ha|].
  destruct c as [n|mx].
  - rewrite wire_of_app, <- Hc, <- !app_assoc. reflexivity.
  - destruct (cur st) as [fs|].
    + destruct Hc as (m & rest' & e & -> & H2 & H3 & H4 & H5). exists m, (rest' ++ more), e.
      split; [reflexivity|]. split; [exact H2|]. split; [exact H3|]. split; [exact H4|].
      rewrite wire_of_app, app_assoc, H5, <- app_assoc. reflexivity.
    + destruct Hc as (Hc & Hp). split.
      * rewrite wire_of_app, <- Hc, <- !app_assoc. reflexivity.
      * destruct Hp as [Hp|(m & rest' & e & -> & H2 & H3)]; [left; exact Hp|].
        right. exists m, (rest' ++ more), e. auto.
Qed.

(* ------------------------------------------------------------------ both ends, any schedule *)

Lemma flush_all_ext : forall fuel script w sent np r np' w' sent' script',
  flush_all fuel script w sent np = (r, np', w', sent', script') -> WInv w -> exists d, sent' = sent ++ d.
Proof.
  induction fuel as [|fu IH]; intros script w sent np r np' w' sent' script' H Hi.
  - injection H as _ _ _ <- _. exists []. now rewrite app_nil_r.
  - cbn [flush_all] in H. destruct (flush script w sent) as [[[r1 w1] s1] sc1] eqn:E.
    destruct (flush_spec _ _ _ _ _ _ _ E Hi) as ((d1 & ->) & Hi1 & _).
    destruct r1; try (injection H as _ _ _ <- _; eexists; reflexivity).
    destruct (is_nil sc1); [injection H as _ _ _ <- _; eexists; reflexivity|].
    destruct (IH _ _ _ _ _ _ _ _ _ H Hi1) as (d2 & ->). exists (d1 ++ d2). now rewrite app_assoc.
Qed.

Lemma step_sent_ext bp c s o r s' :
  step bp c s o = (r, s') -> WInv (ws s) -> exists d, sent s' = sent s ++ d.
Proof.
  assert (Hsame : exists d, sent s = sent s ++ d) by (exists []; now rewrite app_nil_r).
  destruct o as [|m| |m| |]; cbn [step]; intros H Hi.
  - unfold poll_ready in H. destruct (bp <=? pbytes (ws s)).
    + destruct (flush (wscript s) (ws s) (sent s)) as [[[r0 w] sn] sc] eqn:E. injection H as _ <-. cbn [sent].
      apply (flush_spec _ _ _ _ _ _ _ E Hi).
    + injection H as _ <-. exact Hsame.
  - destruct (start_send c (ws s) m) as [r0 w]. injection H as _ <-. exact Hsame.
  - destruct (flush (wscript s) (ws s) (sent s)) as [[[r0 w] sn] sc] eqn:E. injection H as _ <-. cbn [sent].
    apply (flush_spec _ _ _ _ _ _ _ E Hi).
  - destruct (send_framed c (wscript s) (ws s) m (sent s)) as [[[[r0 np] w] sn] sc] eqn:E. injection H as _ <-. cbn [sent].
    unfold send_framed in E.
    assert (Hpre : exists r1 np1 w1 s1 sc1,
               (if queue_nonempty (ws s) then flush_all (S (length (wscript s))) (wscript s) (ws s) (sent s) 0
                else (WOk, 0, ws s, sent s, wscript s)) = (r1, np1, w1, s1, sc1) /\ exists d, s1 = sent s ++ d).
    { destruct (queue_nonempty (ws s)).
      - destruct (flush_all _ (wscript s) (ws s) (sent s) 0) as [[[[r1 np1] w1] s1] sc1] eqn:Ef.
        exists r1, np1, w1, s1, sc1. split; [reflexivity|]. eapply flush_all_ext; eauto.
      - exists WOk, 0, (ws s), (sent s), (wscript s). split; [reflexivity|exact Hsame]. }
    destruct Hpre as (r1 & np1 & w1 & s1 & sc1 & Hq & d1 & ->). rewrite Hq in E.
    destruct r1; try (injection E as _ _ _ <- _; eexists; reflexivity).
    destruct (fitsb c m); [|injection E as _ _ _ <- _; eexists; reflexivity].
    destruct c as [n|mx].
    + destruct (sf_run true sc1 _ (sent s ++ d1) np1) as [[[r2 np2] s2] sc2] eqn:Es.
      injection E as _ _ _ <- _. destruct (sf_run_spec _ _ _ _ _ _ _ _ _ Es) as (_ & d2 & e2 & -> & _).
      exists (d1 ++ d2). now rewrite app_assoc.
    + destruct (sf_run false sc1 _ (sent s ++ d1) np1) as [[[r2 np2] s2] sc2] eqn:Es.
      injection E as _ _ _ <- _. destruct (sf_run_spec _ _ _ _ _ _ _ _ _ Es) as (_ & d2 & e2 & -> & _).
      exists (d1 ++ d2). now rewrite app_assoc.
  - destruct (poll_close (wscript s) (ws s) (sent s)) as [[[[r0 w] sn] sc] sh] eqn:E. injection H as _ <-. cbn [sent].
    apply poll_close_spec in E. destruct E as (_ & -> & _). exact Hsame.
  - destruct (close_all (wscript s) (ws s) (sent s)) as [[[[[r0 np] w] sn] sc] sh] eqn:E. injection H as _ <-. cbn [sent].
    apply close_all_spec in E. destruct E as (_ & -> & _). exact Hsame.
Qed.

Lemma skipn_skipn' {A} : forall a b (l : list A), skipn b (skipn a l) = skipn (a + b) l.
Proof.
  induction a as [|a IH]; intros b l; [reflexivity|]. destruct l as [|x l]; [cbn; now rewrite skipn_nil|].
  cbn [skipn plus]. apply IH.
Qed.

Lemma dropN_dropN {A} a b (l : list A) : dropN b (dropN a l) = dropN (a + b) l.
Proof. unfold dropN. rewrite skipn_skipn'. f_equal. lia. Qed.

Lemma accepted_app c a b : accepted c (a ++ b) = accepted c a ++ accepted c b.
Proof. unfold accepted. apply flat_map_app. Qed.

Lemma frames_of_app a b : frames_of (a ++ b) = frames_of a ++ frames_of b.
Proof. unfold frames_of. apply flat_map_app. Qed.

Lemma goodb_good o r : goodb o r = true -> good o r.
Proof. unfold goodb, good. destruct o; auto. destruct (fst r); auto; discriminate. Qed.

Definition YI (c : codec) (y : ysys) : Prop :=
  ys_bad y = false ->
  let g := ys_g y in
  WInv (g_ws g) /\ ys_arr y <= lenN (g_sent g) /\
  ~ In RPanic (ys_outs y) /\ ~ In RFail (ys_outs y) /\
  exists rest, accepted c (ys_ops y) = frames_of (ys_outs y) ++ rest /\ Fits c rest /\
               RInv c (dropN (ys_arr y) (g_sent g) ++ qbytes (g_ws g)) (ys_r y) (ys_rbuf y) rest.

Lemma YI_init c wakes : YI c (ys_init c wakes).
Proof.
  unfold YI, ys_init. cbn [ys_bad ys_g ys_arr ys_outs ys_ops ys_r ys_rbuf g_ws g_sent].
  intros _. split; [apply WInv_init|]. split; [apply N.le_0_l|]. split; [intros []|]. split; [intros []|].
  exists []. split; [reflexivity|]. split; [constructor|]. apply rinv_init. reflexivity.
Qed.

Lemma ystep_inv fuel bp c y st y' :
  match st with SOp o => small_op o | _ => True end ->
  YI c y -> ystep_run fuel bp c y st = Some y' -> YI c y'.
Proof.
  intros Hsm Hy H. destruct st as [o|e|k| |]; cbn [ystep_run] in H.
  - (* a writer operation *)
    destruct (ys_stop y); [injection H as <-; exact Hy|].
    destruct (gstep YK fuel bp c (ys_g y) o) as [[[[r g1] L] ab]|] eqn:Es; [|discriminate].
    injection H as <-. intros Hbad. cbn [ys_bad] in Hbad. apply orb_false_iff in Hbad. destruct Hbad as (Hb0 & Hg).
    apply negb_false_iff, goodb_good in Hg.
    destruct (Hy Hb0) as (Hi & Harr & Hp & Hf & rest & Hacc & Hfit & Hr). cbn [ys_g ys_arr ys_outs ys_ops ys_r ys_rbuf].
    pose proof (gstep_sim YK _ _ _ _ _ _ _ _ _ Es [] (fun _ => eq_refl)) as Hsim.
    unfold sys_of in Hsim.
    destruct (step_inv _ _ _ _ _ _ Hsim Hi Hg) as (Hi1 & Hq1). cbn [ws sent] in Hi1, Hq1.
    destruct (step_sent_ext _ _ _ _ _ _ Hsim Hi) as (d & Hd). cbn [sent] in Hd.
    split; [exact Hi1|]. split; [rewrite Hd, lenN_app; lia|]. split; [exact Hp|]. split; [exact Hf|].
    exists (rest ++ accepted c [o]). split; [rewrite accepted_app, Hacc, app_assoc; reflexivity|].
    split.
    { apply Forall_app. split; [exact Hfit|]. apply accepted_fits. constructor; [exact Hsm|constructor]. }
    replace (dropN (ys_arr y) (g_sent g1) ++ qbytes (g_ws g1))
      with ((dropN (ys_arr y) (g_sent (ys_g y)) ++ qbytes (g_ws (ys_g y))) ++ wire_of c (accepted c [o])).
    { apply rinv_extend. exact Hr. }
    rewrite Hd in Hq1 |- *. rewrite dropN_app_le by exact Harr.
    rewrite <- !app_assoc in Hq1. apply app_inv_head in Hq1. rewrite <- !app_assoc. f_equal. symmetry. exact Hq1.
  - injection H as <-. intros Hbad. exact (Hy Hbad).
  - (* bytes arrive *)
    injection H as <-. intros Hbad. destruct (Hy Hbad) as (Hi & Harr & Hp & Hf & rest & Hacc & Hfit & Hr).
    cbn [ys_g ys_arr ys_outs ys_ops ys_r ys_rbuf].
    set (sent0 := g_sent (ys_g y)) in *. set (k' := N.min k (lenN sent0 - ys_arr y)).
    split; [exact Hi|]. split; [lia|]. split; [exact Hp|]. split; [exact Hf|].
    exists rest. split; [exact Hacc|]. split; [exact Hfit|].
    apply rinv_arrive. rewrite app_assoc, <- dropN_dropN, takeN_dropN. exact Hr.
  - destruct (g_shut (ys_g y) && (ys_arr y =? lenN (g_sent (ys_g y)))); injection H as <-; intros Hbad; exact (Hy Hbad).
  - (* the reader polls *)
    destruct (ypoll (S (length (ys_rbuf y))) c (ys_r y) (ys_rbuf y) (ys_fin y)) as [[o r'] rbuf'] eqn:Ep.
    injection H as <-. intros Hbad. destruct (Hy Hbad) as (Hi & Harr & Hp & Hf & rest & Hacc & Hfit & Hr).
    cbn [ys_g ys_arr ys_outs ys_ops ys_r ys_rbuf].
    pose proof (ypoll_rinv _ _ _ _ _ _ _ _ _ Hfit Hr Ep) as Hstep.
    split; [exact Hi|]. split; [exact Harr|].
    assert (Hin : forall x, In x (ys_outs y ++ [o]) -> In x (ys_outs y) \/ x = o).
    { intros x Hx. apply in_app_or in Hx. destruct Hx as [Hx|[Hx|[]]]; auto. }
    destruct o as [| |m| | |]; try contradiction.
    + split; [intros Hx; destruct (Hin _ Hx); [tauto|discriminate]|].
      split; [intros Hx; destruct (Hin _ Hx); [tauto|discriminate]|].
      exists rest. rewrite frames_of_app. cbn [frames_of flat_map app]. rewrite app_nil_r. auto.
    + split; [intros Hx; destruct (Hin _ Hx); [tauto|discriminate]|].
      split; [intros Hx; destruct (Hin _ Hx); [tauto|discriminate]|].
      exists rest. rewrite frames_of_app. cbn [frames_of flat_map app]. rewrite app_nil_r. auto.
    + destruct Hstep as (rest' & -> & Hr').
      split; [intros Hx; destruct (Hin _ Hx); [tauto|discriminate]|].
      split; [intros Hx; destruct (Hin _ Hx); [tauto|discriminate]|].
      exists rest'. rewrite frames_of_app. cbn [frames_of flat_map app]. rewrite <- app_assoc. cbn [app].
      split; [exact Hacc|]. split; [eapply fits_tail; exact Hfit|exact Hr'].
    + split; [intros Hx; destruct (Hin _ Hx); [tauto|discriminate]|].
      split; [intros Hx; destruct (Hin _ Hx); [tauto|discriminate]|].
      exists rest. rewrite frames_of_app. cbn [frames_of flat_map app]. rewrite app_nil_r. auto.
Qed.

Definition small_step (st : ystep) : Prop := match st with SOp o => small_op o | _ => True end.

Lemma yrun_inv fuel bp c : forall sched y y',
  Forall small_step sched -> YI c y -> yrun fuel bp c y sched = Some y' -> YI c y'.
Proof.
  induction sched as [|st t IH]; intros y y' Hsm Hy H.
  - injection H as <-. exact Hy.
  - cbn [yrun] in H. destruct (ystep_run fuel bp c y st) as [y1|] eqn:E; [|discriminate].
    inversion Hsm as [|a b Ha Hb]; subst. eapply IH; [exact Hb| |exact H]. eapply ystep_inv; eauto.
Qed.

(* Whatever the credit pattern and the schedule: the frames the reader gets are, in order, an
   initial segment of the messages handed over, never a panic or a ReadFailure; and all of them
   once nothing is queued, everything sent has arrived and has been read. *)
Lemma yamux_e2e fuel bp c wakes sched y :
  Forall small_step sched ->
  yrun fuel bp c (ys_init c wakes) sched = Some y -> ys_bad y = false ->
  ~ In RPanic (ys_outs y) /\ ~ In RFail (ys_outs y) /\
  exists rest, accepted c (ys_ops y) = frames_of (ys_outs y) ++ rest /\
    (c <> Identity 0 -> qbytes (g_ws (ys_g y)) = [] -> ys_arr y = lenN (g_sent (ys_g y)) -> ys_rbuf y = [] -> rest = []).
Proof.
  intros Hsm H Hbad.
  destruct (yrun_inv _ _ _ _ _ _ Hsm (YI_init c wakes) H Hbad) as (Hi & Harr & Hp & Hf & rest & Hacc & Hfit & Hr).
  split; [exact Hp|]. split; [exact Hf|]. exists rest. split; [exact Hacc|].
  intros Hc0 Hq Ha Hb. rewrite Hq, Ha, Hb, app_nil_r in Hr. rewrite dropN_all in Hr by lia.
  eapply rinv_done; eauto.
Qed.

(* ------------------------------------------------------------------ whole histories at the sending end *)

Fixpoint genv_grants {A} (ops : list (gop A)) (gr : A -> N) : N :=
  match ops with
  | [] => 0
  | GEnv e :: t => gr e + genv_grants t gr
  | GOp _ :: t => genv_grants t gr
  end.

Fixpoint genv_all {A} (P : A -> Prop) (ops : list (gop A)) : Prop :=
  match ops with
  | [] => True
  | GEnv e :: t => P e /\ genv_all P t
  | GOp o :: t => not_close o /\ genv_all P t
  end.

(* flow control is respected: never more bytes accepted than credit was given *)
Lemma grun_yamux_credit fuel bp c : forall ops g rs g' L ab,
  grun YK y_apply fuel bp c g ops = Some (rs, g', L, ab) ->
  lenN (g_sent g') + y_credit (g_car g') + grants (g_car g') <=
  lenN (g_sent g) + y_credit (g_car g) + grants (g_car g) + genv_grants ops ye_grant.
Proof.
  induction ops as [|o t IH]; intros g rs g' L ab H.
  - injection H as _ <- _ _. cbn [genv_grants]. lia.
  - destruct o as [o|e]; cbn [grun genv_grants] in *.
    + destruct (gstep YK fuel bp c g o) as [[[[r1 g1] L1] ab1]|] eqn:Es; [|discriminate].
      destruct (gstep_yamux _ _ _ _ _ _ _ _ _ Es) as (Hc & _). unfold ycred in Hc.
      destruct ab1.
      * injection H as _ <- _ _. lia.
      * destruct (grun YK y_apply fuel bp c g1 t) as [[[[rs2 g2] L2] ab2]|] eqn:Er; [|discriminate].
        injection H as _ <- _ _. specialize (IH _ _ _ _ _ Er). lia.
    + specialize (IH _ _ _ _ _ H). cbn [g_sent g_car] in IH.
      assert (Hg : grants (y_apply (g_car g) e) = grants (g_car g)) by reflexivity.
      assert (Hc : y_credit (y_apply (g_car g) e) = y_credit (g_car g) + ye_grant e) by reflexivity.
      rewrite Hg, Hc in IH. lia.
Qed.

(* a stream that is not reset never fails a write or a flush (in particular it never accepts
   nothing of a non-empty buffer: no WriteZero), and a writer left waiting for good waits for
   credit or for the connection task *)
Lemma grun_yamux_clean fuel bp c : forall ops g rs g' L ab,
  grun YK y_apply fuel bp c g ops = Some (rs, g', L, ab) ->
  yclean (g_car g) -> genv_all (fun e => ye_rst e = false) ops ->
  Forall (fun r => fst r <> WIo /\ fst r <> WClosed) rs /\ (ab = true -> ystalled (g_car g')).
Proof.
  induction ops as [|o t IH]; intros g rs g' L ab H Hy He.
  - injection H as <- <- _ <-. split; [constructor|discriminate].
  - destruct o as [o|e]; cbn [grun genv_all] in *.
    + destruct He as (Hnc & He).
      destruct (gstep YK fuel bp c g o) as [[[[r1 g1] L1] ab1]|] eqn:Es; [|discriminate].
      destruct (gstep_yamux _ _ _ _ _ _ _ _ _ Es) as (_ & Hcl & Hab). destruct (Hcl Hnc Hy) as (Hy1 & Hr1 & Hr2).
      destruct ab1.
      * injection H as <- <- _ <-. split; [constructor; [auto|constructor]|exact Hab].
      * destruct (grun YK y_apply fuel bp c g1 t) as [[[[rs2 g2] L2] ab2]|] eqn:Er; [|discriminate].
        injection H as <- <- _ <-. destruct (IH _ _ _ _ _ Er Hy1 He) as (Hf & Ha). split; [constructor; auto|exact Ha].
    + destruct He as (Hrst & He). apply (IH _ _ _ _ _ H); [|exact He].
      cbn [g_car]. destruct Hy as (Ho & Hf). unfold yclean, y_apply. cbn [y_open y_wakes]. rewrite Ho, Hrst. auto.
Qed.
