(* C04 — executable model of the framing layer of src/substream/mod.rs (after the `fix:` commits
   F-C04a..f): the incremental frame reader (Stream::poll_next, read_payload_size), the Sink
   (poll_ready / start_send / poll_flush) and send_framed, all against a scripted byte carrier.
   Bytes are numbers (< 256 in every run; nothing depends on the bound). Definitions only. *)
From Coq Require Import List NArith Bool.
Import ListNotations.
Open Scope N_scope.

Definition lenN {A} (l : list A) : N := N.of_nat (length l).
Definition takeN {A} (n : N) (l : list A) : list A := firstn (N.to_nat n) l.
Definition dropN {A} (n : N) (l : list A) : list A := skipn (N.to_nat n) l.
Definition is_nil {A} (l : list A) : bool := match l with [] => true | _ => false end.

(* ---------------------------------------------------------------- codecs *)

Inductive codec :=
| Identity (n : N)              (* ProtocolCodec::Identity(n) *)
| Varint (max : option N).      (* ProtocolCodec::UnsignedVarint(max) *)

(* what start_send / send_framed accept *)
Definition fitsb (c : codec) (m : list N) : bool :=
  match c with
  | Identity n => lenN m =? n
  | Varint None => true
  | Varint (Some mx) => lenN m <=? mx
  end.

(* unsigned_varint::encode::usize — at most 10 bytes (usize_buffer) *)
Fixpoint enc_fuel (fuel : nat) (n : N) : list N :=
  match fuel with
  | O => [n mod 128]
  | S f => if n <? 128 then [n] else (128 + n mod 128) :: enc_fuel f (n / 128)
  end.
Definition varint_enc (n : N) : list N := enc_fuel 9 n.

Definition USIZE_MOD : N := 18446744073709551616.   (* 2^64 *)

(* read_payload_size: scan at most 10 bytes for the terminating byte (< 128); decode::usize on
   the prefix rejects a zero last byte of a multi-byte encoding (NotMinimal); the value is
   accumulated in a u64 (bits shifted out are lost). *)
Inductive rps :=
| RpsOk (size : N) (nbytes : N)
| RpsNotEnough
| RpsDecodeErr
| RpsOverflow.

Fixpoint scan (fuel : nat) (first : bool) (l : list N) : rps :=
  match fuel with
  | O => RpsOverflow
  | S f =>
      match l with
      | [] => RpsNotEnough
      | b :: t =>
          if b <? 128 then (if (b =? 0) && negb first then RpsDecodeErr else RpsOk b 1)
          else match scan f false t with
               | RpsOk v k => RpsOk (b mod 128 + 128 * v) (k + 1)
               | r => r
               end
      end
  end.

Definition read_payload_size (buf : list N) : rps :=
  match scan 10 true buf with
  | RpsOk v k => RpsOk (v mod USIZE_MOD) k
  | r => r
  end.

Definition frame (c : codec) (m : list N) : list N :=
  match c with
  | Identity _ => m
  | Varint _ => varint_enc (lenN m) ++ m
  end.
Definition wire_of (c : codec) (msgs : list (list N)) : list N := concat (map (frame c) msgs).

(* ---------------------------------------------------------------- reader *)

(* read_buffer.len(), the bytes written into the current buffer so far (offset = their number;
   the buffer is read_buffer, or size_vec while a length prefix is being read), current_frame_size *)
Record rstate := mkR { buf_len : N; filled : list N; cur : option N }.

Definition init_r (c : codec) : rstate :=
  mkR (match c with Identity n => N.max n 1024 | Varint _ => 1024 end) [] None.

Inductive rout :=
| RPend                 (* Poll::Pending *)
| RClosed               (* Ready(None) *)
| RFrame (f : list N)   (* Ready(Some(Ok(frame))) *)
| RFail                 (* Ready(Some(Err(ReadFailure))) *)
| RIoErr                (* Ready(Some(Err(IoError))) *)
| RPanic.               (* slice out of range / debug assertion *)

Inductive rdev := EvPending | EvChunk (n : N) | EvEof | EvErr.

(* size of the ReadBuf handed to the carrier; None = the slice expression panics *)
Definition want (c : codec) (st : rstate) : option N :=
  let off := lenN (filled st) in
  match c with
  | Identity n => if (off <=? n) && (n <=? buf_len st) then Some (n - off) else None
  | Varint _ =>
      match cur st with
      | Some _ => if off <=? buf_len st then Some (buf_len st - off) else None
      | None => if off + 1 <=? 10 then Some 1 else None
      end
  end.

(* one successful carrier read of `chunk` (empty = end of stream) *)
Definition on_data (c : codec) (st : rstate) (chunk : list N) : rstate * option rout :=
  if is_nil chunk then (st, Some RClosed) else
  let fl := filled st ++ chunk in
  match c with
  | Identity n =>
      if lenN fl =? n then (mkR n [] None, Some (RFrame (takeN n fl)))
      else (mkR (buf_len st) fl (cur st), None)
  | Varint max =>
      match cur st with
      | Some fs =>
          if lenN fl =? fs
          then (mkR 0 [] None, Some (RFrame (fl ++ repeat 0 (N.to_nat (buf_len st - lenN fl)))))
          else (mkR (buf_len st) fl (Some fs), None)
      | None =>
          match read_payload_size fl with
          | RpsNotEnough => (mkR (buf_len st) fl None, None)
          | RpsDecodeErr | RpsOverflow => (mkR (buf_len st) [] None, Some RFail)
          | RpsOk size nb =>
              if negb (nb =? lenN fl) then (mkR (buf_len st) fl None, Some RPanic)   (* debug_assert_eq *)
              else if match max with Some mx => mx <? size | None => false end
                   then (mkR (buf_len st) [] None, Some RFail)
              else if size =? 0 then (mkR (buf_len st) [] None, Some (RFrame []))
              else (mkR size [] (Some size), None)
          end
      end
  end.

Definition on_err (c : codec) : rout :=
  match c with Identity _ => RIoErr | Varint _ => RClosed end.

(* Stream::poll_next: loops over carrier reads until it has something to return; every carrier
   call consumes one script event, an exhausted script answers Pending. *)
Fixpoint poll_next (c : codec) (st : rstate) (wire : list N) (script : list rdev)
  : rout * rstate * list N * list rdev :=
  match script with
  | [] => match want c st with
          | None => (RPanic, st, wire, [])
          | Some _ => (RPend, st, wire, [])
          end
  | ev :: s' =>
      match want c st with
      | None => (RPanic, st, wire, script)
      | Some cap =>
          match ev with
          | EvPending => (RPend, st, wire, s')
          | EvErr => (on_err c, st, wire, s')
          | EvEof => (RClosed, st, wire, s')
          | EvChunk n =>
              let k := N.min n (N.min cap (lenN wire)) in
              let '(st', o) := on_data c st (takeN k wire) in
              match o with
              | Some r => (r, st', dropN k wire, s')
              | None => poll_next c st' (dropN k wire) s'
              end
          end
      end
  end.

(* `polls` consecutive poll_next calls; polling stops after a panic *)
Fixpoint run_reader (polls : nat) (c : codec) (st : rstate) (wire : list N) (script : list rdev)
  : list rout * rstate * list N * list rdev :=
  match polls with
  | O => ([], st, wire, script)
  | S p =>
      let '(o, st1, w1, s1) := poll_next c st wire script in
      match o with
      | RPanic => ([RPanic], st1, w1, s1)
      | _ => let '(os, st2, w2, s2) := run_reader p c st1 w1 s1 in (o :: os, st2, w2, s2)
      end
  end.

Definition frames_of (os : list rout) : list (list N) :=
  flat_map (fun o => match o with RFrame f => [f] | _ => [] end) os.

(* ---------------------------------------------------------------- writer *)

(* pending_out_frames, pending_out_frame, pending_out_bytes *)
Record wstate := mkW { frames : list (list N); curf : option (list N); pbytes : N }.
Definition init_w : wstate := mkW [] None 0.

Inductive wev := WPending | WChunk (n : N) | WErr.

Inductive wres :=
| WPend       (* Poll::Pending *)
| WOk         (* Ready(Ok) / Ok *)
| WDenied     (* IoError(PermissionDenied) *)
| WClosed     (* ConnectionClosed *)
| WIo.        (* IoError(other) *)

Definition start_send (c : codec) (w : wstate) (m : list N) : wres * wstate :=
  if fitsb c m then
    match c with
    | Identity _ => (WOk, mkW (frames w ++ [m]) (curf w) (pbytes w + lenN m))
    | Varint _ =>
        let l := varint_enc (lenN m) in
        (WOk, mkW (frames w ++ [l; m]) (curf w) (pbytes w + (lenN l + lenN m)))
    end
  else (WDenied, w).

(* pending_out_frame.take(), else pending_out_frames.pop_front() *)
Definition take_frame (w : wstate) : option (list N * wstate) :=
  match curf w with
  | Some f => Some (f, mkW (frames w) None (pbytes w))
  | None => match frames w with
            | f :: t => Some (f, mkW t None (pbytes w))
            | [] => None
            end
  end.

(* Sink::poll_flush. A frame whose write fails (error, or the carrier accepting 0 bytes of a
   non-empty frame = WriteZero) stays in pending_out_frame. *)
Fixpoint flush (script : list wev) (w : wstate) (sent : list N)
  : wres * wstate * list N * list wev :=
  match take_frame w with
  | None =>
      (* everything written: flush of the carrier *)
      match script with
      | [] => (WPend, w, sent, [])
      | WPending :: s => (WPend, w, sent, s)
      | WErr :: s => (WIo, w, sent, s)
      | WChunk _ :: s => (WOk, w, sent, s)
      end
  | Some (f, w0) =>
      let keep := mkW (frames w0) (Some f) (pbytes w0) in
      match script with
      | [] => (WPend, keep, sent, [])
      | WPending :: s => (WPend, keep, sent, s)
      | WErr :: s => (WIo, keep, sent, s)
      | WChunk n :: s =>
          let k := N.min n (lenN f) in
          if (k =? 0) && negb (is_nil f) then (WIo, keep, sent, s) else
          let f' := dropN k f in
          flush s (mkW (frames w0) (if is_nil f' then None else Some f') (pbytes w0 - k))
                (sent ++ takeN k f)
      end
  end.

(* Sink::poll_ready; bp = BACKPRESSURE_BOUNDARY *)
Definition poll_ready (bp : N) (script : list wev) (w : wstate) (sent : list N)
  : wres * wstate * list N * list wev :=
  if bp <=? pbytes w then flush script w sent else (WOk, w, sent, script).

Definition queue_nonempty (w : wstate) : bool :=
  match curf w with Some _ => true | None => negb (is_nil (frames w)) end.

(* SinkExt::flush(..).await as used by send_framed and close: poll_flush is polled until it is
   ready, or it returned Pending with the script exhausted (the future is then dropped). Every
   poll_flush call on a non-empty script consumes at least one event, so fuel = S (length script)
   is never exhausted. Returns the number of polls that returned Pending. *)
Fixpoint flush_all (fuel : nat) (script : list wev) (w : wstate) (sent : list N) (npend : N)
  : wres * N * wstate * list N * list wev :=
  match fuel with
  | O => (WPend, npend, w, sent, script)
  | S fu =>
      let '(r, w1, s1, sc1) := flush script w sent in
      match r with
      | WPend => if is_nil sc1 then (WPend, npend + 1, w1, s1, sc1)
                 else flush_all fu sc1 w1 s1 (npend + 1)
      | _ => (r, npend, w1, s1, sc1)
      end
  end.

(* write_all of each non-empty buffer, then flush; the future is polled until it is ready, or it
   returned Pending and the script is exhausted (it is then dropped). Returns the result (WPend =
   still pending when the script ran out), the number of polls that returned Pending, the bytes
   accepted by the carrier. *)
Fixpoint sf_run (ident : bool) (script : list wev) (bufs : list (list N)) (sent : list N) (npend : N)
  : wres * N * list N * list wev :=
  match script with
  | [] => (WPend, npend + 1, sent, [])
  | ev :: s =>
      match bufs with
      | [] =>
          match ev with
          | WPending => if is_nil s then (WPend, npend + 1, sent, []) else sf_run ident s [] sent (npend + 1)
          | WErr => (WIo, npend, sent, s)
          | WChunk _ => (WOk, npend, sent, s)
          end
      | b :: bufs' =>
          match ev with
          | WPending => if is_nil s then (WPend, npend + 1, sent, []) else sf_run ident s bufs sent (npend + 1)
          | WErr => (if ident then WClosed else WIo, npend, sent, s)
          | WChunk n =>
              let k := N.min n (lenN b) in
              if k =? 0 then (if ident then WClosed else WIo, npend, sent, s)   (* WriteZero *)
              else
                let b' := dropN k b in
                sf_run ident s (if is_nil b' then bufs' else b' :: bufs') (sent ++ takeN k b) npend
          end
      end
  end.

(* send_framed: frames queued through the Sink go out first (flush), then the size check, then
   the frame is written directly. *)
Definition send_framed (c : codec) (script : list wev) (w : wstate) (m : list N) (sent : list N)
  : wres * N * wstate * list N * list wev :=
  let '(r0, np, w1, s1, sc1) :=
    if queue_nonempty w then flush_all (S (length script)) script w sent 0
    else (WOk, 0, w, sent, script) in
  match r0 with
  | WOk =>
      if fitsb c m then
        let '(r, np', s2, sc2) :=
          match c with
          | Identity _ => sf_run true sc1 (filter (fun b => negb (is_nil b)) [m]) s1 np
          | Varint _ => sf_run false sc1 (filter (fun b => negb (is_nil b)) [varint_enc (lenN m); m]) s1 np
          end in
        (r, np', w1, s2, sc2)
      else (WDenied, np, w1, s1, sc1)
  | _ => (r0, np, w1, s1, sc1)
  end.

(* poll_shutdown of the carrier, one call *)
Definition shutdown1 (script : list wev) : wres * bool * list wev :=
  match script with
  | [] => (WPend, false, [])
  | WPending :: s => (WPend, false, s)
  | WErr :: s => (WIo, false, s)
  | WChunk _ :: s => (WOk, true, s)
  end.

(* Sink::poll_close, one poll: poll_shutdown of the carrier, nothing else — frames queued by
   start_send and not yet flushed are NOT written (callers flush first). The boolean says whether
   the carrier completed a shutdown in this call. *)
Definition poll_close (script : list wev) (w : wstate) (sent : list N)
  : wres * wstate * list N * list wev * bool :=
  let '(r2, sh, sc2) := shutdown1 script in (r2, w, sent, sc2, sh).

(* substream.shutdown().await, errors ignored *)
Fixpoint shutdown_all (script : list wev) (npend : N) : wres * N * bool * list wev :=
  match script with
  | [] => (WPend, npend + 1, false, [])
  | WPending :: s => if is_nil s then (WPend, npend + 1, false, []) else shutdown_all s (npend + 1)
  | WErr :: s => (WOk, npend, false, s)
  | WChunk _ :: s => (WOk, npend, true, s)
  end.

(* Substream::close(self): shutdown of the carrier only (errors ignored); queued frames are dropped
   with the substream *)
Definition close_all (script : list wev) (w : wstate) (sent : list N)
  : wres * N * wstate * list N * list wev * bool :=
  let '(r, np, sh, sc2) := shutdown_all script 0 in (r, np, w, sent, sc2, sh).

(* ---------------------------------------------------------------- operation histories *)

Inductive op :=
| OReady | OSend (m : list N) | OFlush | OFramed (m : list N)
| OClose            (* Sink::poll_close, one poll *)
| OCloseAll.        (* Substream::close(self) driven to completion *)

Record sys := mkSys { ws : wstate; sent : list N; wscript : list wev; shut : bool }.
Definition init_sys (script : list wev) : sys := mkSys init_w [] script false.

Definition step (bp : N) (c : codec) (s : sys) (o : op) : (wres * N) * sys :=
  match o with
  | OReady => let '(r, w, sn, sc) := poll_ready bp (wscript s) (ws s) (sent s) in
              ((r, 0), mkSys w sn sc (shut s))
  | OFlush => let '(r, w, sn, sc) := flush (wscript s) (ws s) (sent s) in
              ((r, 0), mkSys w sn sc (shut s))
  | OSend m => let '(r, w) := start_send c (ws s) m in ((r, 0), mkSys w (sent s) (wscript s) (shut s))
  | OFramed m => let '(r, np, w, sn, sc) := send_framed c (wscript s) (ws s) m (sent s) in
                 ((r, np), mkSys w sn sc (shut s))
  | OClose => let '(r, w, sn, sc, sh) := poll_close (wscript s) (ws s) (sent s) in
              ((r, 0), mkSys w sn sc (shut s || sh))
  | OCloseAll => let '(r, np, w, sn, sc, sh) := close_all (wscript s) (ws s) (sent s) in
                 ((r, np), mkSys w sn sc (shut s || sh))
  end.

Fixpoint run_ops (bp : N) (c : codec) (s : sys) (ops : list op) : list (wres * N) * sys :=
  match ops with
  | [] => ([], s)
  | o :: t => let '(r, s1) := step bp c s o in
              let '(rs, s2) := run_ops bp c s1 t in (r :: rs, s2)
  end.

(* the messages a history hands over *)
Definition accepted (c : codec) (ops : list op) : list (list N) :=
  flat_map (fun o => match o with
                     | OSend m => if fitsb c m then [m] else []
                     | OFramed m => if fitsb c m then [m] else []
                     | _ => []
                     end) ops.

(* queued bytes, in the order they will be written *)
Definition qbytes (w : wstate) : list N :=
  (match curf w with Some f => f | None => [] end) ++ concat (frames w).
