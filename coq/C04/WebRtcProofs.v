(* C04 — proofs about the WebRTC substream model (WebRtc.v). *)
From Coq Require Import List NArith Bool Lia ZifyBool ZifyNat ZifyN.
From V.gen Require Consts.
From V.C04 Require Import Model Proofs Carrier CarrierProofs WebRtc.
Import ListNotations.
Open Scope N_scope.
Arguments N.add : simpl never.
Arguments N.sub : simpl never.
Arguments N.mul : simpl never.
Arguments N.eqb : simpl never.
Arguments N.ltb : simpl never.
Arguments N.leb : simpl never.
Arguments N.of_nat : simpl never.
Arguments N.to_nat : simpl never.
Arguments N.min : simpl never.
Arguments N.max : simpl never.

Lemma rtc_max_pos : 0 < RTC_MAX_FRAME.
Proof. vm_compute. reflexivity. Qed.

(* poll_write: one message per call, never larger than MAX_FRAME_SIZE or than what was offered,
   never nothing of a non-empty buffer; Pending only for the channel's backpressure; an error only
   after shutdown or once the connection side closed the channel *)
Lemma rtc_write_spec s len a s' :
  rtc_write s len = (a, s') ->
  match a with
  | CAcc k => k <= len /\ k <= RTC_MAX_FRAME /\ (0 < len -> 0 < k) /\ r_out s' = r_out s ++ [k] /\
              r_q s' = r_q s + 1 /\ r_q s < RTC_CAP
  | CPend => s' = s /\ RTC_CAP <= r_q s
  | CErr => r_out s' = r_out s /\ r_q s' = r_q s /\ (r_tx s = false \/ r_rxclosed s = true)
  end.
Proof.
  unfold rtc_write. pose proof rtc_max_pos as Hm. destruct (r_tx s) eqn:Et; cbn [negb].
  2:{ intros H. injection H as <- <-. auto. }
  destruct (r_rxclosed s) eqn:Ec.
  { intros H. injection H as <- <-. cbn [r_out r_q]. auto. }
  destruct (RTC_CAP <=? r_q s) eqn:Eq; intros H; injection H as <- <-.
  - split; [reflexivity|lia].
  - cbn [r_out r_q]. repeat split; lia.
Qed.

(* ------------------------------------------------------------------ the reading half *)

Definition rr_ok (s : rtcr) : Prop :=
  Forall (fun m => m <> [] /\ lenN m <= RTC_MAX_FRAME) (rr_inq s).

Lemma rr_read_spec s cap a s' :
  rr_ok s -> rr_read s cap = (a, s') ->
  rr_ok s' /\
  match a with
  | RdData chunk => rr_bytes s = chunk ++ rr_bytes s' /\ lenN chunk <= cap /\
                    lenN chunk = N.min (if negb (is_nil (rr_left s)) then lenN (rr_left s)
                                        else match rr_inq s with m :: _ => lenN m | [] => 0 end) cap /\
                    (0 < cap -> chunk <> [])
  | _ => s' = s /\ rr_bytes s = []
  end.
Proof.
  intros Hok. unfold rr_read, rr_bytes. destruct (rr_left s) as [|x l] eqn:El; cbn [is_nil negb].
  - destruct (rr_inq s) as [|m t] eqn:Ei.
    + destruct (rr_eof s); [destruct (rr_reset s)|]; intros H; injection H as <- <-;
        (split; [exact Hok|]); split; reflexivity.
    + unfold rr_ok in Hok. rewrite Ei in Hok. inversion Hok as [|a0 b0 (Hne & Hle) Ht]; subst.
      replace (RTC_MAX_FRAME <? lenN m) with false by lia. intros H. injection H as <- <-.
      split; [exact Ht|]. cbn [rr_left rr_inq concat app].
      split; [rewrite app_assoc, takeN_dropN; reflexivity|].
      rewrite lenN_takeN. split; [lia|]. split; [lia|].
      intros Hc Hn. apply (f_equal lenN) in Hn. rewrite lenN_takeN, lenN_nil in Hn.
      assert (0 < lenN m) by (destruct m; [congruence|rewrite lenN_cons; lia]). lia.
  - intros H. injection H as <- <-. split; [exact Hok|]. cbn [rr_left rr_inq].
    split; [rewrite app_assoc, takeN_dropN; reflexivity|].
    rewrite lenN_takeN. split; [lia|]. split; [lia|].
    intros Hc Hn. apply (f_equal lenN) in Hn. rewrite lenN_takeN, lenN_nil, lenN_cons in Hn. lia.
Qed.

Lemma wpoll_sim : forall fuel c st s o st' s',
  rr_ok s -> (length (rr_bytes s) < fuel)%nat ->
  wpoll fuel c st s = (o, st', s') ->
  rr_ok s' /\ poll_next c st (rr_bytes s) (rtc_script fuel c st s) = (o, st', rr_bytes s', []).
Proof.
  induction fuel as [|fu IH]; intros c st s o st' s' Hok Hl H; [lia|].
  cbn [wpoll] in H. cbn [rtc_script]. destruct (want c st) as [cap|] eqn:Ew.
  2:{ injection H as <- <- <-. split; [exact Hok|]. cbn [poll_next]. rewrite Ew. reflexivity. }
  destruct (rr_read s cap) as [a s1] eqn:Er. destruct (rr_read_spec _ _ _ _ Hok Er) as (Hok1 & Ha).
  destruct a as [| | |chunk].
  - injection H as <- <- <-. destruct Ha as (-> & Hb). split; [exact Hok|]. cbn [poll_next]. rewrite Ew. reflexivity.
  - injection H as <- <- <-. destruct Ha as (-> & Hb). split; [exact Hok|]. cbn [poll_next]. rewrite Ew. reflexivity.
  - injection H as <- <- <-. destruct Ha as (-> & Hb). split; [exact Hok|]. cbn [poll_next]. rewrite Ew. reflexivity.
  - destruct Ha as (Hb & Hc & Hlen & Hne).
    set (n := if negb (is_nil (rr_left s)) then lenN (rr_left s)
              else match rr_inq s with m :: _ => lenN m | [] => 0 end) in *.
    destruct (on_data c st chunk) as [st1 o1] eqn:Eo.
    assert (Hk : N.min n (N.min cap (lenN (rr_bytes s))) = lenN chunk).
    { rewrite Hb, lenN_app. lia. }
    assert (Htk : takeN (lenN chunk) (rr_bytes s) = chunk).
    { rewrite Hb. rewrite takeN_app_le by lia. apply takeN_all. lia. }
    assert (Hdk : dropN (lenN chunk) (rr_bytes s) = rr_bytes s1).
    { rewrite Hb. rewrite dropN_app_le by lia. rewrite dropN_all by lia. reflexivity. }
    cbn [poll_next]. rewrite Ew, Hk, Htk, Eo, Hdk. destruct o1 as [r|].
    + injection H as <- <- <-. split; [exact Hok1|reflexivity].
    + (* the poll goes on: the chunk was not empty *)
      assert (Hcn : chunk <> []).
      { destruct (N.eq_dec cap 0) as [Hz|Hz]; [|apply Hne; lia].
        intros ->. unfold on_data in Eo. cbn [is_nil] in Eo. discriminate. }
      apply IH; [exact Hok1| |exact H].
      rewrite Hb, app_length in Hl. destruct chunk; [congruence|]. cbn [length] in Hl. lia.
Qed.

(* a payload handed to the handle reaches the reader's buffer unchanged, behind what is there *)
Lemma rr_message_bytes s p fin :
  rr_ok s -> rr_reset s = false -> rr_eof s = false -> lenN (rr_inq s) < RTC_CAP ->
  lenN p <= RTC_MAX_FRAME ->
  rr_ok (rr_message s p fin) /\ rr_bytes (rr_message s p fin) = rr_bytes s ++ p /\
  rr_reset (rr_message s p fin) = false.
Proof.
  intros Hok Hr He Hq Hp. unfold rr_message. rewrite Hr, He. rewrite orb_false_r.
  destruct (is_nil p) eqn:En.
  - apply is_nil_true in En. subst p. rewrite app_nil_r.
    destruct fin; cbn [andb negb]; rewrite ?Hr; cbn [negb andb rr_left rr_inq rr_reset rr_bytes]; auto.
  - apply is_nil_false in En. replace (RTC_CAP <=? lenN (rr_inq s)) with false by lia.
    assert (Hok' : Forall (fun m => m <> [] /\ lenN m <= RTC_MAX_FRAME) (rr_inq s ++ [p])).
    { apply Forall_app. split; [exact Hok|]. constructor; [auto|constructor]. }
    destruct fin; cbn [andb negb rr_reset rr_left rr_inq]; unfold rr_ok, rr_bytes; cbn [rr_left rr_inq rr_reset];
      rewrite concat_app; cbn [concat]; rewrite app_nil_r, app_assoc; auto.
Qed.
