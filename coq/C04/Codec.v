(* C04 — executable model of the tokio-util codecs of src/codec/{identity,unsigned_varint}.rs:
   `Identity` (Decoder / Encoder<Bytes>) and `UnsignedVarint` (a wrapper of unsigned_varint 0.8
   `UviBytes`: deserialise / serialise), the static helpers `UnsignedVarint::{encode,decode}`, the
   provided method `Decoder::decode_eof`, and the driver loop every user of these codecs runs
   (tokio_util::codec::Framed: append what was read to the buffer, call `decode` until it answers
   `None`). Definitions only. *)
From Coq Require Import List NArith Bool.
From V.C04 Require Import Model.
Import ListNotations.
Open Scope N_scope.

Inductive tcodec :=
| TIdentity (n : N)      (* codec::identity::Identity { payload_len: n } *)
| TUvi (max : N).        (* codec::unsigned_varint::UnsignedVarint { codec: UviBytes { max, .. } } *)

(* UviBytes::default().max *)
Definition UVI_DEFAULT_MAX : N := 134217728.

(* UnsignedVarint::new(max_size) *)
Definition tuvi_new (mx : option N) : tcodec :=
  TUvi (match mx with Some m => m | None => UVI_DEFAULT_MAX end).

Inductive eres := EOk | EInvalid | EDenied.

(* Encoder::encode(item, dst): what is appended to dst. Identity refuses an item that is not
   exactly payload_len bytes long (after fix F-C04h; before it, shorter items were accepted and
   mis-framed the stream); UviBytes::serialise refuses item.remaining() > max. *)
Definition tencode (cd : tcodec) (m : list N) : eres * list N :=
  match cd with
  | TIdentity n => if (lenN m =? n) && negb (is_nil m) then (EOk, m) else (EInvalid, [])
  | TUvi mx => if mx <? lenN m then (EDenied, []) else (EOk, varint_enc (lenN m) ++ m)
  end.

Inductive dres :=
| DNone                 (* Ok(None): more bytes needed *)
| DFrame (f : list N)   (* Ok(Some(frame)) *)
| DDenied               (* IoError(PermissionDenied): announced length > max *)
| DOther                (* IoError(Other): malformed length (overflow / not minimal) *)
| DRemain.              (* decode_eof: "bytes remaining on stream" (IoError(Other) as well) *)

(* Decoder::decode(src): result, the codec's `len` field afterwards, the buffer afterwards *)
Definition tdecode (cd : tcodec) (dl : option N) (src : list N) : dres * option N * list N :=
  match cd with
  | TIdentity n =>
      if is_nil src || (lenN src <? n) then (DNone, dl, src)
      else (DFrame (takeN n src), dl, dropN n src)
  | TUvi mx =>
      let hdr :=
        match dl with
        | Some n => inl (n, src)
        | None => match read_payload_size src with
                  | RpsOk v k => inl (v, dropN k src)
                  | RpsNotEnough => inr DNone
                  | RpsDecodeErr | RpsOverflow => inr DOther
                  end
        end in
      match hdr with
      | inr r => (r, None, src)
      | inl (n, src1) =>
          if mx <? n then (DDenied, None, src1)
          else if n <=? lenN src1 then (DFrame (takeN n src1), None, dropN n src1)
          else (DNone, Some n, src1)
      end
  end.

(* Decoder::decode_eof (provided method of tokio-util): decode; on None an empty buffer is a clean
   end, anything else an error *)
Definition tdecode_eof (cd : tcodec) (dl : option N) (src : list N) : dres * option N * list N :=
  let '(r, dl', src') := tdecode cd dl src in
  match r with
  | DNone => if is_nil src' then (DNone, dl', src') else (DRemain, dl', src')
  | _ => (r, dl', src')
  end.

Definition is_derr (r : dres) : bool :=
  match r with DDenied | DOther | DRemain => true | _ => false end.

(* decode until it answers None or an error; every frame consumes at least one byte (payload_len
   and the length prefix are never empty), so fuel = S (length src) is never exhausted *)
Fixpoint drain (fuel : nat) (cd : tcodec) (dl : option N) (src : list N)
  : list dres * option N * list N :=
  match fuel with
  | O => ([], dl, src)
  | S fu =>
      let '(r, dl', src') := tdecode cd dl src in
      match r with
      | DFrame _ => let '(rs, dl2, src2) := drain fu cd dl' src' in (r :: rs, dl2, src2)
      | _ => ([r], dl', src')
      end
  end.

(* the Framed read loop: for each chunk that arrives, append and drain; stop at the first error *)
Fixpoint feed (cd : tcodec) (dl : option N) (src : list N) (chunks : list (list N))
  : list dres * option N * list N :=
  match chunks with
  | [] => ([], dl, src)
  | ch :: t =>
      let '(rs, dl1, src1) := drain (S (length (src ++ ch))) cd dl (src ++ ch) in
      if existsb is_derr rs then (rs, dl1, src1)
      else let '(rs2, dl2, src2) := feed cd dl1 src1 t in (rs ++ rs2, dl2, src2)
  end.

Definition dframes (rs : list dres) : list (list N) :=
  flat_map (fun r => match r with DFrame f => [f] | _ => [] end) rs.

(* what a sequence of encode calls leaves in dst: refused items contribute nothing *)
Definition tfits (cd : tcodec) (m : list N) : bool :=
  match tencode cd m with (EOk, _) => true | _ => false end.
Definition twire (cd : tcodec) (msgs : list (list N)) : list N :=
  concat (map (fun m => snd (tencode cd m)) msgs).

(* the framing the Substream itself applies for the same configuration (src/substream/mod.rs) *)
Definition codec_of (cd : tcodec) : codec :=
  match cd with TIdentity n => Identity n | TUvi mx => Varint (Some mx) end.
