(* C04 — wire format, model runner and oracle for the streams over a REAL yamux connection whose remote end
   is played by the harness (kinds 40 and 41).

   kind 40 (the writer; the harness is the remote peer and decides the credit pattern):
   case  := 40 ws tag arg                    ws: 0 = TCP substream type, 1 = WebSocket type; codec as in kind < 10
            ballast extra                    before the run `ballast` bytes of the initial window are used up (raw writes, not
                                             traced) and the peer grants `extra`: the run starts with DEFAULT_CREDIT - ballast + extra
            nops op*                         0 poll_ready | 1 b len start_send | 2 poll_flush | 3 b len send_framed (driven to
                                             completion: after every Pending the next wake-up happens; none left: the future is
                                             dropped and the run ends) | 4 Sink::poll_close | 5 Substream::close(self) (last) |
                                             6 grant rst = the environment moves between two operations
            nw (grant rst)*                  the wake-ups: the peer's window update of `grant` bytes (0: none) and possibly its RST
                                             arrive, the connection task runs (takes every queued command, writes it out)
   trace := 5, per operation that ran:  code [npend: ops 3, 5] [pbytes nframes len* cur+1: ops 0-4]  rx   (op 6: rx only)
            rx = payload bytes the peer has received so far (beyond the ballast)
            then: stopped, nframes, length of every data frame the peer received, RLE(their payload), fin_seen —
            after the connection task ran once more.

   kind 41 (the reader; the harness is the remote peer and sends data frames):
   case  := 41 ws tag arg nraw (byte count)* nsteps step*
            step: 0 k = the next k bytes of the wire arrive as one data frame | 1 = FIN arrives | 3 = RST arrives |
                  2 = one poll_next (no delivery after FIN / RST)
   trace := 6, per poll: code [RLE(frame)] buf_len offset cur+1; then connection_alive *)
From Coq Require Import List NArith Bool.
From V.common Require Import Wire.
From V.gen Require Consts.
From V.C04 Require Import Model Carrier Yamux.
Import ListNotations.
Open Scope N_scope.

Definition YBP : N := Consts.BACKPRESSURE_BOUNDARY.
Definition YMAX_LEN : N := 16777216.
Definition yguard (b : bool) : parser unit := if b then pret tt else pfail.

Definition y_mk_msg (b len : N) : list N :=
  if 2 <=? len then repeat b (N.to_nat (len - 1)) ++ [(b + 1) mod 256] else repeat b (N.to_nat len).

Definition p_ycodec : parser codec :=
  let* tag := pN in let* arg := pN in
  match tag with
  | 0 => let* _ := yguard (arg <=? YMAX_LEN) in pret (Identity arg)
  | 1 => let* _ := yguard (arg =? 0) in pret (Varint None)
  | 2 => pret (Varint (Some arg))
  | _ => pfail
  end.

Definition p_yenv : parser yenv :=
  let* g := pN in let* r := pN in
  let* _ := yguard ((g <=? 1073741824) && (r <=? 1)) in pret (mkYe g (r =? 1)).

Definition p_ymsg : parser (list N) :=
  let* b := pN in let* len := pN in
  let* _ := yguard ((b <=? 255) && (len <=? YMAX_LEN)) in pret (y_mk_msg b len).

Definition p_yop : parser (gop yenv) :=
  let* tag := pN in
  match tag with
  | 0 => pret (GOp OReady)
  | 1 => let* m := p_ymsg in pret (GOp (OSend m))
  | 2 => pret (GOp OFlush)
  | 3 => let* m := p_ymsg in pret (GOp (OFramed m))
  | 4 => pret (GOp OClose)
  | 5 => pret (GOp OCloseAll)
  | 6 => let* e := p_yenv in pret (GEnv e)
  | _ => pfail
  end.

Fixpoint yclose_last (ops : list (gop yenv)) : bool :=
  match ops with
  | [] => true
  | [_] => true
  | GOp OCloseAll :: _ => false
  | _ :: t => yclose_last t
  end.

Record ycase := mkYcase { yc_codec : codec; yc_start : ystate; yc_ops : list (gop yenv) }.

Definition decode_ycase (l : list N) : option ycase :=
  pall (let* t := pN in let* _ := yguard (t =? 40) in
        let* ws := pN in let* _ := yguard (ws <=? 1) in
        let* c := p_ycodec in
        let* ballast := pN in let* extra := pN in
        let* _ := yguard ((ballast <=? Y_INIT_CREDIT) && (extra <=? 1073741824)) in
        let* ops := plist p_yop in
        let* _ := yguard (yclose_last ops) in
        let* wakes := plist p_yenv in
        pret (mkYcase c (mkY (Y_INIT_CREDIT - ballast + extra) 0 true wakes [] false false 0 0) ops)) l.

Fixpoint yrle (l : list N) : list (N * N) :=
  match l with
  | [] => []
  | x :: t => match yrle t with
              | (y, k) :: r => if x =? y then (y, k + 1) :: r else (x, 1) :: (y, k) :: r
              | [] => [(x, 1)]
              end
  end.
Definition yenc_rle (l : list N) : list N := enc_list (fun p : N * N => [fst p; snd p]) (yrle l).

Definition ywres_code (r : wres) : N :=
  match r with WPend => 0 | WOk => 1 | WDenied => 2 | WClosed => 3 | WIo => 4 end.

Definition yenc_wstate (w : wstate) : list N :=
  pbytes w :: enc_list (fun f => [lenN f]) (frames w) ++
  [match curf w with Some f => lenN f + 1 | None => 0 end].

Definition y_has_npend (o : op) : bool := match o with OFramed _ | OCloseAll => true | _ => false end.
Definition y_has_state (o : op) : bool := match o with OCloseAll => false | _ => true end.

(* carrier calls plus wake-ups of one operation never exceed this *)
Definition YFUEL : nat := N.to_nat 6000.

(* Some (trace, final state, stopped) ; None = the fuel was not enough (never, for the cases generated) *)
Fixpoint yrun_trace (c : codec) (g : @gsys ystate) (ops : list (gop yenv)) : option (list N * @gsys ystate * bool) :=
  match ops with
  | [] => Some ([], g, false)
  | GEnv e :: t =>
      let g1 := mkG (g_ws g) (g_sent g) (y_apply (g_car g) e) (g_shut g) in
      match yrun_trace c g1 t with
      | Some (rest, g2, st) => Some (y_rx (g_car g1) :: rest, g2, st)
      | None => None
      end
  | GOp o :: t =>
      match gstep YK YFUEL YBP c g o with
      | None => None
      | Some ((r, np), g1, _, ab) =>
          let here := ywres_code r :: (if y_has_npend o then [np] else []) ++
                      (if y_has_state o then yenc_wstate (g_ws g1) else []) ++ [y_rx (g_car g1)] in
          if ab then Some (here, g1, true)
          else match yrun_trace c g1 t with
               | Some (rest, g2, st) => Some (here ++ rest, g2, st)
               | None => None
               end
      end
  end.

Definition run_ycase (y : ycase) : list N :=
  match yrun_trace (yc_codec y) (mkG init_w [] (yc_start y) false) (yc_ops y) with
  | None => [5; 7; 7; 7]
  | Some (tr, g, st) =>
      5 :: tr ++ [b2n st] ++ enc_list (fun k => [k]) (y_out (g_car g)) ++ yenc_rle (g_sent g) ++
      [b2n (y_closed (g_car g))]
  end.

(* ---- kind 41 ---- *)
Inductive rstep := RDeliver (k : N) | RFin | RPoll.

Definition p_yrun : parser (list N) :=
  let* b := pN in let* k := pN in
  let* _ := yguard ((b <=? 255) && (k <=? YMAX_LEN)) in pret (repeat b (N.to_nat k)).

Definition p_rstep : parser rstep :=
  let* tag := pN in
  match tag with
  | 0 => let* k := pN in let* _ := yguard (k <=? YMAX_LEN) in pret (RDeliver k)
  | 1 | 3 => pret RFin
  | 2 => pret RPoll
  | _ => pfail
  end.

(* no delivery and no second end after FIN / RST *)
Fixpoint rsteps_ok (ended : bool) (l : list rstep) : bool :=
  match l with
  | [] => true
  | RDeliver _ :: t => negb ended && rsteps_ok ended t
  | RFin :: t => negb ended && rsteps_ok true t
  | RPoll :: t => rsteps_ok ended t
  end.

Record rcase := mkRcase { rc_codec : codec; rc_wire : list N; rc_steps : list rstep }.

Definition decode_rcase (l : list N) : option rcase :=
  pall (let* t := pN in let* _ := yguard (t =? 41) in
        let* ws := pN in let* _ := yguard (ws <=? 1) in
        let* c := p_ycodec in
        let* raw := plist p_yrun in
        let* _ := yguard (lenN (concat raw) <=? 200000) in
        let* steps := plist p_rstep in
        let* _ := yguard (rsteps_ok false steps) in
        pret (mkRcase c (concat raw) steps)) l.

Definition rout_enc (o : rout) : list N :=
  match o with
  | RPend => [0] | RClosed => [1] | RFrame f => 2 :: yenc_rle f | RFail => [3] | RIoErr => [4] | RPanic => [9]
  end.

Fixpoint rrun (c : codec) (st : rstate) (rbuf wire : list N) (fin : bool) (steps : list rstep) : list N :=
  match steps with
  | [] => []
  | RDeliver k :: t => let k' := N.min k (lenN wire) in rrun c st (rbuf ++ takeN k' wire) (dropN k' wire) fin t
  | RFin :: t => rrun c st rbuf wire true t
  | RPoll :: t =>
      let '(o, st', rbuf') := ypoll (S (length rbuf)) c st rbuf fin in
      match o with
      | RPanic => [9]
      | _ => rout_enc o ++ [buf_len st'; lenN (filled st'); enc_opt (cur st')] ++ rrun c st' rbuf' wire fin t
      end
  end.

Definition run_rcase (r : rcase) : list N :=
  6 :: rrun (rc_codec r) (init_r (rc_codec r)) [] (rc_wire r) false (rc_steps r) ++ [1].

(* ---- the oracle, kind 40 ---- *)
Definition yp_rle : parser (list N) :=
  let* runs := plist (let* b := pN in let* k := pN in
                      let* _ := yguard (k <=? YMAX_LEN * 4) in pret (repeat b (N.to_nat k))) in
  pret (concat runs).

Record yobs := mkYobs { yo_code : N; yo_np : N; yo_pbytes : N; yo_frames : list N; yo_cur : N; yo_rx : N }.

Definition p_yobs (o : gop yenv) : parser yobs :=
  match o with
  | GEnv _ => let* rx := pN in pret (mkYobs 1 0 0 [] 0 rx)
  | GOp o =>
      let* code := pN in let* _ := yguard (code <=? 4) in
      let* np := (if y_has_npend o then pN else pret 0) in
      let* st := (if y_has_state o
                  then (let* pb := pN in let* fr := plist pN in let* cu := pN in pret (pb, fr, cu))
                  else pret (0, [], 0)) in
      let* rx := pN in
      let '(pb, fr, cu) := st in pret (mkYobs code np pb fr cu rx)
  end.

(* observations of the operations that ran: all of them, or up to one that ended Pending in op 3 / 5 *)
Fixpoint p_ytrace (ops : list (gop yenv)) : parser (list yobs) :=
  match ops with
  | [] => pret []
  | o :: t =>
      let* x := p_yobs o in
      let dropped := match o with GOp o' => y_has_npend o' && (yo_code x =? 0) | _ => false end in
      if dropped then pret [x] else (let* r := p_ytrace t in pret (x :: r))
  end.

Definition ysum (l : list N) : N := fold_right N.add 0 l.
Definition y_is_prefix (a b : list N) : bool := nlist_eqb a (firstn (length a) b).

(* acc = wire bytes of everything handed over so far, in call order. Returns None on a violated
   requirement, Some (acc', broken', queue_empty_after) otherwise. *)
Definition ystep_ok (bytes_rx : bool) (c : codec) (o : gop yenv) (prev x : yobs) (acc : list N) (broken : bool)
  : option (list N * bool) :=
  let same_state := (yo_pbytes x =? yo_pbytes prev) && nlist_eqb (yo_frames x) (yo_frames prev) &&
                    (yo_cur x =? yo_cur prev) in
  let queue_empty := is_nil (yo_frames x) && (yo_cur x =? 0) && (yo_pbytes x =? 0) in
  let counted := yo_pbytes x =? ysum (yo_frames x) + (yo_cur x - 1) in
  if negb (yo_rx prev <=? yo_rx x) then None else
  (* what the peer holds is a prefix of what was handed over and disjoint from what is still queued: together
     they never exceed it (a byte written twice, or queued bytes forgotten and written again, would) *)
  (* bytes_rx: the rx column counts payload bytes (kind 40; the WebRTC oracle reuses this step with another column) *)
  let bounded (acc' : list N) := negb bytes_rx || broken || (yo_pbytes x + yo_rx x <=? lenN acc') in
  if match o with
     | GOp (OSend m) => negb (bounded (if fitsb c m then acc ++ frame c m else acc))
     | GOp OFlush | GOp OReady | GOp OClose => negb (bounded acc)
     | _ => false
     end then None else
  match o with
  | GEnv _ => Some (acc, broken)
  | GOp (OSend m) =>
      if negb (yo_rx x =? yo_rx prev) then None else
      if fitsb c m then (if (yo_code x =? 1) && counted then Some (acc ++ frame c m, broken) else None)
      else (if (yo_code x =? 2) && same_state then Some (acc, broken) else None)
  | GOp OFlush | GOp OReady =>
      if negb (yo_rx x =? yo_rx prev) then None else
      if negb counted then None else
      if (yo_code x =? 1) && negb queue_empty && match o with GOp OFlush => true | _ => false end then None else
      if (yo_code x =? 1) && negb (yo_pbytes x <? YBP) then None else
      Some (acc, broken)
  | GOp (OFramed m) =>
      if yo_code x =? 1 then (if fitsb c m && queue_empty then Some (acc ++ frame c m, broken) else None)
      else if (yo_code x =? 2) && negb (fitsb c m) then (if counted then Some (acc, broken) else None)
      else Some (acc ++ frame c m, true)     (* error / dropped: the caller was told; a partial frame may be out *)
  | GOp OClose => if same_state && (yo_rx x =? yo_rx prev) then Some (acc, broken) else None
  | GOp OCloseAll => Some (acc, broken)
  end.

Fixpoint ytrace_ok (bytes_rx : bool) (c : codec) (ops : list (gop yenv)) (obs : list yobs) (prev : yobs) (acc : list N) (broken : bool)
  : option (list N * bool * yobs) :=
  match obs, ops with
  | [], _ => Some (acc, broken, prev)
  | x :: obs', o :: ops' =>
      match ystep_ok bytes_rx c o prev x acc broken with
      | Some (acc', br') =>
          (* the queue state carries over operations that do not report it *)
          let x' := match o with
                    | GEnv _ | GOp OCloseAll => mkYobs (yo_code x) (yo_np x) (yo_pbytes prev) (yo_frames prev) (yo_cur prev) (yo_rx x)
                    | _ => x
                    end in
          ytrace_ok bytes_rx c ops' obs' x' acc' br'
      | None => None
      end
  | _ :: _, [] => None
  end.

Definition zero_yobs : yobs := mkYobs 1 0 0 [] 0 0.

Definition prop_ok_y (y : ycase) (trace : list N) : bool :=
  match trace with
  | 5 :: body =>
      match pall (let* obs := p_ytrace (yc_ops y) in
                  let* stopped := pN in
                  let* fl := plist pN in
                  let* data := yp_rle in
                  let* fin := pN in pret (obs, stopped, fl, data, fin)) body with
      | Some (obs, stopped, fl, data, fin) =>
          match ytrace_ok true (yc_codec y) (yc_ops y) obs zero_yobs [] false with
          | Some (acc, broken, last) =>
              let queue_empty := is_nil (yo_frames last) && (yo_cur last =? 0) && (yo_pbytes last =? 0) in
              (* what the peer has is a prefix of what was handed over, in order ... *)
              y_is_prefix data acc && (lenN data =? ysum fl) && (yo_rx last <=? lenN data) &&
              (* ... and all of it once nothing is queued any more: the connection task alone
                 delivers it, the sender does nothing further *)
              (if queue_empty && negb broken then nlist_eqb data acc else true)
          | None => false
          end
      | None => false
      end
  | _ => false
  end.

(* ---- the oracle, kind 41 ---- *)
(* the well-formed messages the wire starts with, by a direct reading of the two formats *)
Fixpoint spec_frames (fuel : nat) (c : codec) (wire : list N) : list (list N) :=
  match fuel with
  | O => []
  | S fu =>
      match c with
      | Identity n =>
          if (n =? 0) || (lenN wire <? n) then [] else takeN n wire :: spec_frames fu c (dropN n wire)
      | Varint mx =>
          match read_payload_size wire with
          | RpsOk v k =>
              let body := dropN k wire in
              if match mx with Some m => m <? v | None => false end then []
              else if lenN body <? v then []
              else takeN v body :: spec_frames fu c (dropN v body)
          | _ => []
          end
      end
  end.

Record yrobs := mkYrobs { yr_code : N; yr_frame : list N; yr_buf : N }.

Definition p_yrobs : parser yrobs :=
  let* code := pN in
  let* _ := yguard (code <=? 4) in
  let* f := (if code =? 2 then yp_rle else pret []) in
  let* bl := pN in let* off := pN in let* cu := pN in
  pret (mkYrobs code f bl).

Fixpoint count_polls (l : list rstep) : nat :=
  match l with [] => O | RPoll :: t => S (count_polls t) | _ :: t => count_polls t end.

Fixpoint yagree (f a : list (list N)) : bool :=
  match f, a with
  | x :: f', y :: a' => nlist_eqb x y && yagree f' a'
  | _, _ => true
  end.

Definition yframe_fits (c : codec) (f : list N) : bool :=
  match c with
  | Identity n => lenN f =? n
  | Varint (Some mx) => lenN f <=? mx
  | Varint None => true
  end.

Definition yalloc_ok (c : codec) (x : yrobs) : bool :=
  match c with
  | Identity n => yr_buf x <=? N.max n 1024
  | Varint (Some mx) => yr_buf x <=? N.max mx 1024
  | Varint None => true
  end.

(* no delivery after the last poll *)
Fixpoint quiet_tail (rsteps : list rstep) : bool :=
  match rsteps with
  | [] => true
  | RPoll :: _ => true
  | RDeliver _ :: _ => false
  | RFin :: t => quiet_tail t
  end.

Fixpoint before_failure (obs : list yrobs) : list (list N) :=
  match obs with
  | [] => []
  | x :: t => if yr_code x =? 3 then [] else (if yr_code x =? 2 then [yr_frame x] else []) ++ before_failure t
  end.

Definition delivered (steps : list rstep) : N :=
  fold_right (fun s acc => match s with RDeliver k => k + acc | _ => acc end) 0 steps.

Definition prop_ok_r (r : rcase) (trace : list N) : bool :=
  match trace with
  | 6 :: body =>
      match pall (let* obs := prep (count_polls (rc_steps r)) p_yrobs in
                  let* alive := pN in pret (obs, alive)) body with
      | Some (obs, alive) =>
          let c := rc_codec r in
          let wire := rc_wire r in
          let arrived := takeN (N.min (delivered (rc_steps r)) (lenN wire)) wire in
          let spec := spec_frames (S (length arrived)) c arrived in
          (* after a reported failure the byte stream is not framed any more: what is returned then
             is outside the property *)
          let fr := before_failure obs in
          let wellformed := lenN (wire_of c spec) =? lenN arrived in
          (alive =? 1) &&
          forallb (fun x => negb (yr_code x =? 2) || yframe_fits c (yr_frame x)) obs && forallb (yalloc_ok c) obs &&
          (* the frames are the leading well-formed messages of what arrived, in order *)
          yagree fr spec && (N.of_nat (length fr) <=? N.of_nat (length spec)) &&
          (* what arrived is nothing but well-formed messages: no failure is reported *)
          (if wellformed then forallb (fun x => negb (yr_code x =? 3)) obs else true) &&
          (* ... and once a poll finds nothing more to do, all of them have been returned *)
          (match rev obs with
           | x :: _ => if wellformed && ((yr_code x =? 0) || (yr_code x =? 1)) && quiet_tail (rev (rc_steps r)) &&
                          negb (match c with Identity 0 => true | _ => false end)
                       then list_eqb nlist_eqb fr spec else true
           | [] => true
           end)
      | None => false
      end
  | _ => false
  end.
